package main

import "verif/layera"

func init() {
	propRunners["C15"] = runC15
	propRunners["C16"] = runC16
	propRunners["C17"] = runC17
}

var k8Assume = []string{
	"environment = stubs with stated contracts: os.MkdirAll/WriteFile/Exit, fmt.Fprintln, packages.Load, jennifer are recording stubs; comments.ParseDocs / config.Parse / generator.Generate / generateConverter / cli.Parse / GenerateConverters are programmable stubs where listed; path/filepath is native on concrete strings and uninterpreted (congruent) on atoms",
	"harnesses that depend on stubs cannot be replayed natively; a symbolic counterexample is reported only if the named end-to-end scenario (real binary on a scratch module) deviates as well, otherwise it is printed as UNCONFIRMED",
	"every check also runs the end-to-end scenario of its property with the real binary as a supplementary leg (concrete runs, not a solver verdict); a deviation there is reported as a violation",
	"real filepath semantics (.., cleaning), jennifer's package-name normalisation, the on-disk tree across several input packages, go/packages honouring tags, package flag: outside (process / file-system level)",
}

func kernelFileManager() layera.Kernel {
	return layera.Kernel{Name: "K8.filemanager", Pkg: "generator", Harness: "VerifHarness_C15_FileManager", Unwind: 16, RecordJen: true, E2E: "c15"}
}

func kernelGenerateConverters(e2e string) layera.Kernel {
	return layera.Kernel{Name: "K8.generateconverters", Pkg: ".", Harness: "VerifHarness_C17_GenerateConverters", Unwind: 16, E2E: e2e,
		Stub: []string{"github.com/jmattheis/goverter/comments.ParseDocs", "github.com/jmattheis/goverter/config.Parse", "github.com/jmattheis/goverter/generator.Generate"}}
}

func kernelConverterLines(e2e string) layera.Kernel {
	return layera.Kernel{Name: "K8.converterlines", Pkg: "config", Harness: "VerifHarness_C15_ConverterLines", Unwind: 64, E2E: e2e,
		Stub: []string{"(*github.com/jmattheis/goverter/pkgload.PackageLoader).GetMatching", "(*github.com/jmattheis/goverter/pkgload.PackageLoader).GetOneRaw", "github.com/jmattheis/goverter/method.Parse"}}
}

func runC15(opt *Options) int {
	ints := map[string]int{"VerifC15PackageMax": 6, "VerifC15FileMax": 7, "VerifC15NameMax": 8}
	if opt.Thorough() {
		ints = map[string]int{"VerifC15PackageMax": 9, "VerifC15FileMax": 10, "VerifC15NameMax": 11}
	}
	lr := &laRun{
		Opt:  opt,
		Pkgs: []string{"generator", "config", "comments", "."},
		Kernels: []layera.Kernel{
			kernelFileManager(),
			{Name: "K8.outputpackage", Pkg: "config", Harness: "VerifHarness_C15_OutputPackage", Unwind: 64, Stub: []string{"github.com/jmattheis/goverter/method.Parse"}, SetInts: ints},
			{Name: "K8.outputfile", Pkg: "config", Harness: "VerifHarness_C15_OutputFile", Unwind: 64, Stub: []string{"github.com/jmattheis/goverter/method.Parse"}, E2E: "c15", SetInts: ints},
			{Name: "K8.defaultoutputfile", Pkg: "config", Harness: "VerifHarness_C15_DefaultOutputFile", Unwind: 64, SetInts: ints},
			{Name: "K8.getpackages", Pkg: "config", Harness: "VerifHarness_C15_GetPackages", Unwind: 64, NoMapPermute: true},
			{Name: "K8.resolvepackage", Pkg: "config", Harness: "VerifHarness_C15_ResolvePackage", Unwind: 64, E2E: "c15"},
			{Name: "K8.resolvetarget", Pkg: "config", Harness: "VerifHarness_C15_ResolveTarget", Unwind: 64},
			{Name: "K7.filescan", Pkg: "comments", Harness: "VerifHarness_C19_ParseDocsFiles", Unwind: 64, E2E: "c15"},
			kernelConverterLines("c15"),
			kernelGenerateConverters("c15"),
		},
		Funcs:     []string{"generator.(*fileManager).Get", "generator.getOutputDir", "config.(*ConverterConfig).PackageID", "config.parseConverterLine (output:package, output:file arms)", "parse.File", "parse.String", "config.defaultOutputFile", "config.getPackages", "config.parseConverter", "config.parseConverterLines", "config.parseConverterLine (output:package, output:file, arg:context:regex, extend arms in sequence)", "config.registerConverterLines", "config.registerMethodLines", "config.resolveOutputPackage", "config.resolvePackage", "pkgload.New", "pkgload.(*PackageLoader).load/GetUncheckedPkg", "goverter.GenerateConverters", "goverter.generateConvertersRaw", "goverter.writeFiles"},
		E2EAlways: "c15",
		Bounds:    "two converters with arbitrary (atom) file names, output files, package paths and names; output:package / output:file values of <= 6/7 (thorough 9/10) arbitrary non-blank ASCII bytes; declaring file names of <= 8 (thorough 11) arbitrary bytes; <= 2 generated files",
		Assume:    k8Assume,
	}
	return lr.finish(lr.run(), nil)
}

func runC16(opt *Options) int {
	lr := &laRun{
		Opt:  opt,
		Pkgs: []string{"generator", "comments", "pkgload", "cli", "."},
		Kernels: []layera.Kernel{
			func() layera.Kernel { k := kernelFileManager(); k.E2E = "c16"; return k }(),
			{Name: "K8.parsedocstags", Pkg: "comments", Harness: "VerifHarness_C16_ParseDocsTags", Unwind: 16, E2E: "c16"},
			{Name: "K8.loadertags", Pkg: "pkgload", Harness: "VerifHarness_C16_LoaderTags", Unwind: 16, E2E: "c16"},
			{Name: "K8.loadertagsmany", Pkg: "pkgload", Harness: "VerifHarness_C16_LoaderTagsMany", Unwind: 128, E2E: "c16"},
			kernelGenerateConverters("c16"),
			{Name: "K8.run", Pkg: "cli", Harness: "VerifHarness_C17_Run", Unwind: 16, E2E: "c16", Stub: []string{"github.com/jmattheis/goverter/cli.Parse", "github.com/jmattheis/goverter.GenerateConverters"}},
		},
		Funcs:     []string{"cli.Run (configuration hand-over)", "generator.(*fileManager).Get (header emission)", "comments.ParseDocs", "pkgload.New", "pkgload.(*PackageLoader).load", "goverter.generateConvertersRaw"},
		E2EAlways: "c16",
		Bounds:    "any build-tags / constraint string (atoms; the header constraint <= 3 arbitrary bytes); two converters sharing or not sharing a file",
		Assume:    k8Assume,
	}
	return lr.finish(lr.run(), nil)
}

func runC17(opt *Options) int {
	lr := &laRun{
		Opt:  opt,
		Pkgs: []string{"generator", "cli", "config", "comments", "."},
		Kernels: []layera.Kernel{
			{Name: "K8.convertersindependent", Pkg: "config", Harness: "VerifHarness_C12_ConvertersIndependent", Unwind: 200, E2E: "c17", Stub: []string{"(*github.com/jmattheis/goverter/pkgload.PackageLoader).GetOneRaw"}},
			kernelGenerateConverters("c17"),
			{Name: "K8.generate", Pkg: "generator", Harness: "VerifHarness_C17_Generate", Unwind: 16, E2E: "c17", Stub: []string{"github.com/jmattheis/goverter/generator.generateConverter"}},
			{Name: "K8.run", Pkg: "cli", Harness: "VerifHarness_C17_Run", Unwind: 16, E2E: "c17", Stub: []string{"github.com/jmattheis/goverter/cli.Parse", "github.com/jmattheis/goverter.GenerateConverters"}},
			{Name: "K8.setup", Pkg: "generator", Harness: "VerifHarness_C17_Setup", Unwind: 16},
			{Name: "K8.validateevery", Pkg: "generator", Harness: "VerifHarness_C17_ValidateEvery", Unwind: 24},
			{Name: "K8.writefailure", Pkg: ".", Harness: "VerifHarness_C17_WriteFailure", Unwind: 16, E2E: "c17",
				Stub: []string{"github.com/jmattheis/goverter/comments.ParseDocs", "github.com/jmattheis/goverter/config.Parse", "github.com/jmattheis/goverter/generator.Generate"}},
			{Name: "K7.nomarker", Pkg: "comments", Harness: "VerifHarness_C19_NoMarker", Unwind: 64},
			// a faulty marked declaration inside a type group is reported wherever it stands among the others
			{Name: "K7.specgroup", Pkg: "comments", Harness: "VerifHarness_C19_Group", Unwind: 64},
			{Name: "K8.extendfault", Pkg: "config", Harness: "VerifHarness_C17_ExtendFault", Unwind: 24, E2E: "c17", Stub: []string{"(*github.com/jmattheis/goverter/pkgload.PackageLoader).GetMatching"}},
		},
		Funcs:     []string{"goverter.GenerateConverters", "goverter.generateConvertersRaw", "goverter.writeFiles", "generator.Generate", "generator.(*fileManager).Get", "generator.(*fileManager).renderFiles", "cli.Run", "config.parseConverterLine (extend arm)", "generator.validateMethods", "generator.setupGenerator"},
		E2EAlways: "c17",
		Bounds:    "every failing stage (doc scan, config, generation), <= 3 converters with the failure at any position, <= 2 output files, every parse outcome of the command line (error, help, gen, version)",
		Assume:    k8Assume,
	}
	return lr.finish(lr.run(), nil)
}
