package main

import (
	"encoding/json"
	"fmt"
	"math/rand"
	"os"
	"os/exec"
	"path/filepath"
	"regexp"
	"sort"
	"strings"
	"time"

	"verif/engine"
	"verif/layera"
	"verif/layerb"
)

type Options struct {
	Prop    string
	Tier    string
	Repo    string
	Seed    int64
	Only    string
	Verbose bool
	Keep    bool
	Scratch string
}

func (o *Options) Thorough() bool { return o.Tier == "thorough" }

// Evidence mirrors EVIDENCE.schema.json.
type Evidence struct {
	PropertyID  string                 `json:"property_id"`
	Tier        string                 `json:"tier"`
	Seed        int64                  `json:"seed"`
	Level       string                 `json:"level"`
	Coverage    map[string]interface{} `json:"coverage"`
	Assumptions []string               `json:"assumptions"`
	WallS       float64                `json:"wall_s"`
	Violations  int                    `json:"violations"`
}

func writeEvidence(ev *Evidence) {
	if os.Getenv("VERIF_NO_EVIDENCE") != "" {
		return // experiments against a modified tree (seed evaluation) must not replace the evidence of /repo itself
	}
	os.MkdirAll(filepath.Join(layera.Root(), "evidence"), 0o755)
	b, _ := json.MarshalIndent(ev, "", " ")
	os.WriteFile(filepath.Join(layera.Root(), "evidence", ev.PropertyID+".json"), append(b, '\n'), 0o644)
}

// KnownFinding is an entry of /verif/known_findings.json.
type KnownFinding struct {
	Property string `json:"property"`
	Status   string `json:"status"`         // "known" or "fixed"
	Conv     string `json:"conv,omitempty"` // regexp on the conv id / harness case
	Kind     string `json:"kind,omitempty"` // finding kind
	Note     string `json:"note,omitempty"` // regexp on the note
	What     string `json:"what"`
	Commit   string `json:"commit,omitempty"`
}

func loadKnown() []KnownFinding {
	var ks []KnownFinding
	b, err := os.ReadFile(filepath.Join(layera.Root(), "known_findings.json"))
	if err != nil {
		return nil
	}
	if err := json.Unmarshal(b, &ks); err != nil {
		fmt.Fprintln(os.Stderr, "known_findings.json:", err)
	}
	return ks
}

func matchKnown(ks []KnownFinding, prop, conv, kind, note string) *KnownFinding {
	for i := range ks {
		k := &ks[i]
		if k.Property != prop || k.Status == "fixed" {
			continue
		}
		if k.Kind != "" && k.Kind != kind {
			continue
		}
		if k.Conv != "" {
			if ok, _ := regexp.MatchString(k.Conv, conv); !ok {
				continue
			}
		}
		if k.Note != "" {
			if ok, _ := regexp.MatchString(k.Note, note); !ok {
				continue
			}
		}
		return k
	}
	return nil
}

func runProperty(opt *Options) int {
	scratch, err := os.MkdirTemp("", "vcheck-"+opt.Prop+"-")
	if err != nil {
		fmt.Fprintln(os.Stderr, err)
		return 2
	}
	opt.Scratch = scratch
	if !opt.Keep {
		defer os.RemoveAll(scratch)
	} else {
		fmt.Fprintln(os.Stderr, "scratch:", scratch)
	}
	if f, ok := propRunners[opt.Prop]; ok {
		return f(opt)
	}
	fmt.Fprintf(os.Stderr, "property %s: no check registered\n", opt.Prop)
	return 2
}

// lbRun is the common skeleton of Layer B properties.
type lbRun struct {
	Opt       *Options
	Convs     []*layerb.Conv
	Check     layerb.CheckFn
	EOpt      layerb.ExploreOpt
	Bounds    layerb.Bounds
	Assume    []string
	Rule      string
	noExplore bool
	// NoEvidence: finish() only prints and keeps the coverage map in LastCov (the property's evidence
	// is written by its kernel runner)
	NoEvidence bool
	LastCov    map[string]interface{}
	// CaseBase: first case number of this leg's replay directories
	CaseBase int
}

type lbResult struct {
	Reports  []*layerb.ConvReport
	Corpus   *layerb.Corpus
	Driver   *layerb.Driver
	Stats    engine.Stats
	GenFail  []*layerb.Conv // expected success, generation failed
	GenUnexp []*layerb.Conv // expected failure, generation succeeded
	Fatal    string
	Wall     time.Duration
}

// runNoExplore builds the corpus, generates and loads it, without exploring.
func (lr *lbRun) runNoExplore() *lbResult {
	lr.noExplore = true
	return lr.run()
}

// run: one pass over the corpus; a tool error (the corpus could not be generated or loaded - no verdict about
// goverter) is retried once from scratch before it is reported.
func (lr *lbRun) run() *lbResult {
	res := lr.runOnce()
	if res.Fatal != "" {
		fmt.Fprintln(os.Stderr, "tool error, retrying once:", firstLine(res.Fatal))
		for _, c := range lr.Convs {
			c.GenOK, c.GenErr, c.GenCrash = false, "", ""
		}
		time.Sleep(2 * time.Second)
		res = lr.runOnce()
	}
	return res
}

func (lr *lbRun) runOnce() *lbResult {
	t0 := time.Now()
	res := &lbResult{}
	opt := lr.Opt
	bin, err := layerb.BuildGoverter(opt.Repo, opt.Scratch)
	if err != nil {
		res.Fatal = err.Error()
		return res
	}
	convs := lr.Convs
	if opt.Only != "" {
		var f []*layerb.Conv
		for _, c := range convs {
			if strings.Contains(c.ID, opt.Only) {
				f = append(f, c)
			}
		}
		convs = f
	}
	corpus, err := layerb.NewCorpus(opt.Scratch, bin, convs, 20)
	if err != nil {
		res.Fatal = err.Error()
		return res
	}
	res.Corpus = corpus
	if err := corpus.Generate(16); err != nil {
		res.Fatal = err.Error()
		return res
	}
	// vacuity guard: a corpus program whose own input package does not compile says nothing about goverter
	var broken []string
	for _, c := range convs {
		if !c.GenOK && (strings.Contains(c.GenErr, "could not load package") || strings.Contains(c.GenErr, "failed to load package")) && !c.InputMayNotCompile {
			broken = append(broken, c.ID+": "+firstLine(c.GenErr))
		}
	}
	if len(broken) > 0 {
		sort.Strings(broken)
		if len(broken) > 5 {
			broken = broken[:5]
		}
		res.Fatal = "corpus programs whose input does not compile (generator bug of the corpus, not of goverter): " + strings.Join(broken, " | ")
		return res
	}
	for _, c := range convs {
		if c.GenOK && c.ExpectFail && !c.AnyOutcome {
			res.GenUnexp = append(res.GenUnexp, c)
		}
		if !c.GenOK && !c.ExpectFail && (!c.AnyOutcome || c.GenCrash != "") {
			res.GenFail = append(res.GenFail, c)
		}
	}
	d := &layerb.Driver{C: corpus, B: lr.Bounds, Workers: 16, MaxPaths: 20000}
	res.Driver = d
	if err := d.Load(); err != nil {
		res.Fatal = "C01 gate: emitted code does not load/type-check: " + err.Error()
		return res
	}
	var ok []*layerb.Conv
	for _, c := range convs {
		if c.GenOK && !c.ExpectFail {
			ok = append(ok, c)
		}
	}
	if lr.noExplore {
		res.Wall = time.Since(t0)
		return res
	}
	res.Reports = d.Explore(ok, lr.Check, lr.EOpt)
	res.Stats.Unsupported = map[string]int{}
	for _, r := range res.Reports {
		if r.Stats != nil {
			res.Stats.Add(r.Stats)
		}
	}
	res.Wall = time.Since(t0)
	return res
}

// finish turns a Layer B result into output lines, evidence and an exit code.
func (lr *lbRun) finish(res *lbResult, level string, extra map[string]interface{}) int {
	opt := lr.Opt
	prop := opt.Prop
	known := loadKnown()
	if res.Fatal != "" {
		fmt.Println("TOOL-ERROR:", res.Fatal)
		return 2
	}
	violations := 0
	knownHits := map[string]int{}
	inconclusive := 0
	var samples []interface{}
	programs, paths := 0, 0
	obligations, discharged := 0, 0
	distinct := 0
	var skipped []string
	replayDir := filepath.Join(layera.Root(), "replays", prop)
	clearReplaysOnce(prop)
	type viol struct {
		f *layerb.Finding
	}
	var viols []layerb.Finding
	typecheckSeen := map[string]bool{}
	for _, r := range res.Reports {
		if r.Skipped != "" {
			skipped = append(skipped, r.Conv.ID+": "+r.Skipped)
			if strings.HasPrefix(r.Skipped, "C01 gate:") {
				// goverter reported success but the emitted code does not type-check: the program cannot satisfy
				// this property either (on the unchanged tree every corpus program compiles)
				f := layerb.Finding{Conv: r.Conv.ID, Family: r.Conv.Family, Kind: "typecheck", Note: "goverter reported success but the emitted code does not type-check: " + firstLine(strings.TrimPrefix(r.Skipped, "C01 gate: "))}
				if k := matchKnown(known, prop, f.Conv, f.Kind, f.Note); k != nil {
					knownHits[k.What]++
				} else if !typecheckSeen[f.Note] {
					typecheckSeen[f.Note] = true
					viols = append(viols, f)
				}
			}
			continue
		}
		programs++
		paths += r.Stats.Paths
		obligations += r.Obligations
		discharged += r.Discharged
		if r.Stats.Paths > 1 {
			distinct++
		}
		if len(samples) < 5 && r.Sample != "" {
			samples = append(samples, map[string]string{"conv": r.Conv.ID, "signature": "(" + r.Conv.Params + ") " + r.Conv.Results, "first_path_input": r.Sample})
		}
		seenKinds := map[string]bool{}
		for i := range r.Findings {
			f := r.Findings[i]
			if f.Inconclusive {
				inconclusive++
				continue
			}
			if k := matchKnown(known, prop, f.Conv, f.Kind, f.Note); k != nil {
				knownHits[k.What]++
				if os.Getenv("VERIF_LIST_KNOWN") != "" {
					fmt.Printf("KNOWN-HIT conv=%s kind=%s\n", f.Conv, f.Kind)
				}
				continue
			}
			key := f.Kind + "|" + f.Path + "|" + f.Note
			if seenKinds[key] {
				continue
			}
			seenKinds[key] = true
			viols = append(viols, f)
		}
	}
	// generation outcome by-products
	for _, c := range res.GenFail {
		f := layerb.Finding{Conv: c.ID, Family: c.Family, Kind: "generation", Note: "goverter rejected an input the documented rules cover: " + firstLine(c.GenErr)}
		if c.GenCrash != "" {
			f.Note = "goverter " + c.GenCrash + " (C13: every input ends in output or a diagnostic): " + firstLine(c.GenErr)
		}
		if k := matchKnown(known, prop, f.Conv, f.Kind, f.Note); k != nil {
			knownHits[k.What]++
			continue
		}
		viols = append(viols, f)
	}
	for _, c := range res.GenUnexp {
		f := layerb.Finding{Conv: c.ID, Family: c.Family, Kind: "generation", Note: "goverter accepted an input that must be rejected: " + c.FailNote}
		if k := matchKnown(known, prop, f.Conv, f.Kind, f.Note); k != nil {
			knownHits[k.What]++
			continue
		}
		viols = append(viols, f)
	}
	sort.Slice(viols, func(i, j int) bool { return viols[i].Conv < viols[j].Conv })
	var kh []string
	for w := range knownHits {
		kh = append(kh, w)
	}
	sort.Strings(kh)
	for _, w := range kh {
		fmt.Printf("KNOWN-FINDING: property=%s %s (%d paths)\n", prop, w, knownHits[w])
	}
	spurious, replayed, reproduced := 0, 0, 0
	convSeen := map[string]int{}
	for i := range viols {
		f := viols[i]
		if violations >= 20 {
			fmt.Printf("... further violations suppressed (%d candidates in total)\n", len(viols))
			break
		}
		dir := filepath.Join(replayDir, fmt.Sprintf("case%02d", lr.CaseBase+i))
		status := "unsupported: generation outcome"
		if f.Kind == "typecheck" {
			status = "unsupported: compile error of emitted code (see generated.go.txt)"
		} else if f.Kind != "generation" {
			// one native replay per conv and kind is enough
			key := f.Conv + "|" + f.Kind
			convSeen[key]++
			if f.Replayed != "" {
				// replayed by the leg that produced it (scenario leg)
				status = f.Replayed
				replayed++
				if f.ReplayDir != "" {
					exec.Command("cp", "-r", f.ReplayDir, dir).Run()
				}
			} else if convSeen[key] > 1 && replayed >= 6 {
				status = "unsupported: replay budget"
			} else {
				status, _ = res.Driver.Replay(&f, dir)
				if !strings.HasPrefix(status, "unsupported") {
					replayed++
				}
			}
		}
		f.Replayed = status
		if status == "not-reproduced" {
			spurious++
			saveReplay(replayDir, prop, lr.CaseBase+i, &f, res)
			fmt.Printf("SPURIOUS: conv=%s kind=%s at=%s (%s) did not reproduce natively (engine/oracle bug), see %s\n", f.Conv, f.Kind, f.Path, f.Note, dir)
			continue
		}
		if status == "reproduced" {
			reproduced++
		}
		saveReplay(replayDir, prop, lr.CaseBase+i, &f, res)
		violations++
		fmt.Printf("VIOLATION property=%s replay=%s\n", prop, dir)
		fmt.Printf("  conv=%s kind=%s at=%s: %s\n  input: %s\n  native replay: %s\n", f.Conv, f.Kind, f.Path, f.Note, f.Input, status)
	}
	// translator validation: passing paths of a seeded sample of programs are re-run natively and the
	// real result is compared with the engine's
	tvOK, tvBad := 0, 0
	if violations == 0 && os.Getenv("VERIF_NO_TV") == "" && res.Driver != nil {
		var cands []*layerb.ConvReport
		for _, r := range res.Reports {
			if r.PassReplay != nil && r.Skipped == "" {
				cands = append(cands, r)
			}
		}
		rng := rand.New(rand.NewSource(opt.Seed))
		rng.Shuffle(len(cands), func(i, j int) { cands[i], cands[j] = cands[j], cands[i] })
		max := 6
		if opt.Thorough() {
			max = 20
		}
		for i, r := range cands {
			if i >= max {
				break
			}
			f := layerb.Finding{Conv: r.Conv.ID, Kind: "pass", Replay: r.PassReplay}
			dir := filepath.Join(replayDir, fmt.Sprintf("tv%02d", i))
			status, _ := res.Driver.Replay(&f, dir)
			switch {
			case status == "reproduced":
				tvOK++
				os.RemoveAll(dir)
			case strings.HasPrefix(status, "unsupported"):
				os.RemoveAll(dir)
			default:
				tvBad++
				fmt.Printf("TOOL-ERROR: translator validation failed for %s: the compiled code does not produce the result the engine computed on a passing path, see %s\n", r.Conv.ID, dir)
			}
		}
	}
	for _, s := range skipped {
		fmt.Println("SKIPPED:", s)
	}
	for _, u := range res.Stats.UnsupportedList() {
		fmt.Println("INCONCLUSIVE: unsupported:", u)
	}
	if res.Stats.UnwindFail > 0 {
		fmt.Printf("INCONCLUSIVE: %d paths exceeded the unwinding bound\n", res.Stats.UnwindFail)
		for w, n := range res.Stats.UnwindWhere {
			fmt.Printf("  %s ×%d\n", w, n)
		}
	}
	if inconclusive > 0 {
		fmt.Printf("INCONCLUSIVE: %d obligations undecided by all solvers\n", inconclusive)
	}
	cov := map[string]interface{}{
		"programs":                             programs,
		"disagreements_checked":                len(viols) + len(knownHits),
		"native_replays":                       replayed,
		"native_replays_reproduced":            reproduced,
		"spurious_counterexamples":             spurious,
		"traces_validated_against_impl":        tvOK,
		"translator_validation_failures":       tvBad,
		"samples":                              samples,
		"evaluations":                          paths,
		"distinct_nontrivial":                  distinct,
		"rule":                                 lr.Rule,
		"paths":                                paths,
		"obligations":                          obligations,
		"discharged":                           discharged,
		"functions_encoded":                    "every function emitted by goverter for the corpus programs (files written by the goverter binary built from the working tree), inlined; callees outside emitted files are stubs",
		"bounds":                               lr.Bounds,
		"queries":                              map[string]int{"total": res.Stats.Queries, "sat": res.Stats.Sat, "unsat": res.Stats.Unsat, "unknown": res.Stats.Unknown, "solver_errors": res.Stats.SolverErrors},
		"solver_time_s":                        res.Stats.SolverTime.Seconds(),
		"ssa_steps":                            res.Stats.Steps,
		"truncated_paths":                      res.Stats.Truncated,
		"unwind_failures":                      res.Stats.UnwindFail,
		"unsupported":                          res.Stats.UnsupportedList(),
		"inconclusive_obligations":             inconclusive,
		"known_findings":                       kh,
		"skipped":                              skipped,
		"goverter_runs":                        res.Corpus.Runs,
		"generation_rejected_expected_success": len(res.GenFail),
		"generation_accepted_expected_failure": len(res.GenUnexp),
		"solver":                               "z3 4.8.12 (one z3 -in per worker, push/pop); unknown => z3-new, cvc5",
	}
	for k, v := range extra {
		cov[k] = v
	}
	lr.LastCov = cov
	if !lr.NoEvidence {
		ev := &Evidence{PropertyID: prop, Tier: opt.Tier, Seed: opt.Seed, Level: level, Coverage: cov, Assumptions: lr.Assume, WallS: time.Since(startTime).Seconds(), Violations: violations}
		writeEvidence(ev)
	}
	fmt.Printf("%s: %d programs, %d paths, %d/%d obligations discharged, %d violations, %d known, %.1fs\n", prop, programs, paths, discharged, obligations, violations, len(kh), time.Since(startTime).Seconds())
	if violations > 0 {
		return 1
	}
	if spurious > 0 || tvBad > 0 {
		return 2
	}
	return 0
}

var startTime = time.Now()

var replaysCleared = map[string]bool{}

// clearReplaysOnce empties /verif/replays/<prop> the first time a leg of the property asks for it: legs of one
// run share the directory and must not delete each other's material.
func clearReplaysOnce(prop string) {
	if replaysCleared[prop] {
		return
	}
	replaysCleared[prop] = true
	os.RemoveAll(filepath.Join(layera.Root(), "replays", prop))
}

func firstLine(s string) string {
	s = strings.TrimSpace(s)
	if i := strings.IndexByte(s, '\n'); i >= 0 {
		// goverter errors are multi-line; keep the most telling lines
		lines := strings.Split(s, "\n")
		var keep []string
		for _, l := range lines {
			l = strings.TrimSpace(l)
			if l != "" && !strings.HasPrefix(l, "|") {
				keep = append(keep, l)
			}
		}
		if len(keep) > 4 {
			keep = append(keep[:2], keep[len(keep)-2:]...)
		}
		return strings.Join(keep, " / ")
	}
	return s
}

func saveReplay(base, prop string, i int, f *layerb.Finding, res *lbResult) string {
	dir := filepath.Join(base, fmt.Sprintf("case%02d", i))
	os.MkdirAll(dir, 0o755)
	b, _ := json.MarshalIndent(f, "", " ")
	os.WriteFile(filepath.Join(dir, "finding.json"), b, 0o644)
	// the input program
	for _, c := range res.Corpus.Convs {
		if c.ID == f.Conv {
			cb, _ := json.MarshalIndent(c, "", " ")
			os.WriteFile(filepath.Join(dir, "conv.json"), cb, 0o644)
			src := res.Corpus.Source(c.Group)
			os.WriteFile(filepath.Join(dir, "input.go.txt"), []byte(src), 0o644)
			gen := filepath.Join(res.Corpus.Dir, c.Group, "generated", "generated.go")
			if gb, err := os.ReadFile(gen); err == nil {
				os.WriteFile(filepath.Join(dir, "generated.go.txt"), gb, 0o644)
			}
			if gb, err := os.ReadFile(filepath.Join(res.Corpus.Dir, c.Group, "input.gen.go")); err == nil {
				os.WriteFile(filepath.Join(dir, "input.gen.go.txt"), gb, 0o644)
			}
		}
	}
	return dir
}

func runReplay(path, repo string) int {
	b, err := os.ReadFile(filepath.Join(path, "finding.json"))
	if err != nil {
		fmt.Fprintln(os.Stderr, err)
		return 2
	}
	fmt.Println(string(b))
	return 0
}
