package main

import (
	"fmt"
	"os"
	"path/filepath"
	"sort"
	"strings"
	"time"

	"verif/engine"
	"verif/layera"
)

// laRun is the common skeleton of Layer A (kernel) properties.
type laRun struct {
	Opt     *Options
	Pkgs    []string
	Kernels []layera.Kernel
	Assume  []string
	Funcs   []string
	Bounds  string
	// PanicsAre: property to which kernel panics are attributed ("" = this property)
	Explain string
	e2eDone map[string][2]string
	// E2EAlways: end-to-end scenario run on every check as a supplementary leg (real binary, concrete runs - not a
	// solver verdict); a deviation is reported as a violation of its own
	E2EAlways string
	// KeepReplays: another leg of the same property already stored replay material that must survive
	KeepReplays bool
	// CaseBase: first case number used for replay directories
	CaseBase int
}

// e2e runs (once) the end-to-end scenario of a stub-dependent kernel.
func (lr *laRun) e2e(name, dir string, ces ...*layera.Counterexample) (bool, string) {
	if lr.e2eDone == nil {
		lr.e2eDone = map[string][2]string{}
	}
	if r, ok := lr.e2eDone[name]; ok {
		return r[0] == "1", r[1]
	}
	f := e2eScenarios[name]
	rep, detail := false, "no scenario"
	if f != nil {
		vals := map[string]string{}
		for _, ce := range ces {
			if ce == nil {
				continue
			}
			for _, v := range ce.Vals {
				if v.Kind == "string" || v.Kind == "atom" {
					vals[v.Tag] = string(v.Bytes)
				}
			}
		}
		bad, err := f(lr.Opt.Repo, dir, vals)
		switch {
		case err != nil:
			detail = "scenario failed to run: " + err.Error()
		case len(bad) > 0:
			rep = true
			detail = strings.Join(bad, "\n")
		default:
			detail = "all expectations of scenario " + name + " hold for the real binary"
		}
		os.Remove(filepath.Join(dir, "goverter-bin"))
	}
	v := "0"
	if rep {
		v = "1"
	}
	lr.e2eDone[name] = [2]string{v, detail}
	return rep, detail
}

type laResult struct {
	Session *layera.Session
	Results []*layera.KernelResult
	Fatal   string
}

func (lr *laRun) run() *laResult {
	res := &laResult{}
	s, err := layera.NewSession(lr.Opt.Repo, lr.Pkgs, nil)
	if err != nil {
		res.Fatal = "cannot load /repo with harness overlays: " + err.Error()
		return res
	}
	res.Session = s
	for _, k := range lr.Kernels {
		if lr.Opt.Only != "" && !strings.Contains(k.Name, lr.Opt.Only) {
			continue
		}
		t0 := time.Now()
		kr := s.Run(k)
		if lr.Opt.Verbose && kr.Stats != nil {
			fmt.Fprintf(os.Stderr, "%s: %d paths, %d queries, %.1fs\n", k.Name, kr.Stats.Paths, kr.Stats.Queries, time.Since(t0).Seconds())
		}
		res.Results = append(res.Results, kr)
	}
	return res
}

func (lr *laRun) finish(res *laResult, extra map[string]interface{}) int {
	opt := lr.Opt
	prop := opt.Prop
	if res.Fatal != "" {
		fmt.Println("TOOL-ERROR:", res.Fatal)
		return 2
	}
	known := loadKnown()
	replayBase := filepath.Join(layera.Root(), "replays", prop)
	clearReplaysOnce(prop)
	var total engine.Stats
	total.Unsupported = map[string]int{}
	violations, inconclusive, vacuous, unconfirmed := 0, 0, 0, 0
	obligations, discharged := 0, 0
	knownHits := map[string]int{}
	var samples []interface{}
	var fatal []string
	validated := 0
	ci := lr.CaseBase
	perKernel := map[string]interface{}{}
	var notApplicable []string
	for _, kr := range res.Results {
		if kr.NotApplicable != "" {
			notApplicable = append(notApplicable, kr.Kernel.Name+": "+kr.NotApplicable)
			fmt.Printf("INCONCLUSIVE: kernel %s is not applicable to this tree: %s\n", kr.Kernel.Name, kr.NotApplicable)
			continue
		}
		if kr.Stats != nil {
			total.Add(kr.Stats)
		}
		fatal = append(fatal, kr.Fatal...)
		ks := map[string]interface{}{}
		var ids []string
		for id := range kr.Asserts {
			ids = append(ids, id)
		}
		sort.Strings(ids)
		for _, id := range ids {
			st := kr.Asserts[id]
			obligations += st.Reached
			discharged += st.Proved
			inconclusive += st.Inconclusive
			ks[id] = fmt.Sprintf("reached on %d paths, proved %d, failed %d, inconclusive %d", st.Reached, st.Proved, st.Failed, st.Inconclusive)
			if st.Failed > 0 {
				ce := st.First
				if k := matchKnown(known, prop, kr.Kernel.Name, "assert", id); k != nil {
					knownHits[k.What] += st.Failed
					continue
				}
				dir := filepath.Join(replayBase, fmt.Sprintf("case%02d", ci))
				ci++
				if kr.Kernel.E2E != "" {
					res.Session.WriteReplay(ce, dir)
					rep, detail := lr.e2e(kr.Kernel.E2E, filepath.Join(dir, "e2e"), ce)
					os.WriteFile(filepath.Join(dir, "e2e.txt"), []byte(detail), 0o644)
					validated++
					if !rep {
						fmt.Printf("UNCONFIRMED: kernel=%s assert=%s fails symbolically (%s) but the end-to-end scenario %s shows no deviation, see %s\n", kr.Kernel.Name, id, fmtVals(ce), kr.Kernel.E2E, dir)
						unconfirmed++
						continue
					}
					violations++
					fmt.Printf("VIOLATION property=%s replay=%s\n", prop, dir)
					fmt.Printf("  kernel=%s assertion=%s fails on %d paths (inputs: %s); end-to-end: %s\n", kr.Kernel.Name, id, st.Failed, fmtVals(ce), firstLine(detail))
					continue
				}
				res.Session.WriteReplay(ce, dir)
				ok, out := layera.RunReplayN(dir, kr.Kernel.ReplayTries)
				os.WriteFile(filepath.Join(dir, "replay.out"), []byte(out), 0o644)
				validated++
				if !ok {
					fmt.Printf("SPURIOUS: kernel=%s assert=%s did not reproduce natively (engine/stub bug), see %s\n", kr.Kernel.Name, id, dir)
					fatal = append(fatal, "spurious counterexample for "+id)
					continue
				}
				violations++
				fmt.Printf("VIOLATION property=%s replay=%s\n", prop, dir)
				fmt.Printf("  kernel=%s assertion=%s fails on %d paths; inputs: %s\n", kr.Kernel.Name, id, st.Failed, fmtVals(ce))
			}
		}
		var pids []string
		for id := range kr.Panics {
			pids = append(pids, id)
		}
		sort.Strings(pids)
		for _, id := range pids {
			st := kr.Panics[id]
			obligations += st.Failed
			ce := st.First
			if k := matchKnown(known, prop, kr.Kernel.Name, "panic", id+" "+ce.Note); k != nil {
				knownHits[k.What] += st.Failed
				continue
			}
			var dir string
			ok := false
			if kr.Kernel.E2E != "" {
				dir = filepath.Join(replayBase, fmt.Sprintf("case%02d", ci))
				ci++
				res.Session.WriteReplay(ce, dir)
				rep, detail := lr.e2e(kr.Kernel.E2E, filepath.Join(dir, "e2e"))
				os.WriteFile(filepath.Join(dir, "e2e.txt"), []byte(detail), 0o644)
				validated++
				if rep {
					violations++
					fmt.Printf("VIOLATION property=%s replay=%s\n  kernel=%s panics (%s: %s); end-to-end: %s\n", prop, dir, kr.Kernel.Name, id, ce.Note, firstLine(detail))
				} else {
					fmt.Printf("UNCONFIRMED: kernel=%s panic %s (%s): end-to-end scenario shows no deviation, see %s\n", kr.Kernel.Name, id, ce.Note, dir)
					unconfirmed++
				}
				continue
			}
			for _, ex := range st.Examples {
				dir = filepath.Join(replayBase, fmt.Sprintf("case%02d", ci))
				ci++
				res.Session.WriteReplay(ex, dir)
				var out string
				ok, out = layera.RunReplay(dir)
				os.WriteFile(filepath.Join(dir, "replay.out"), []byte(out), 0o644)
				validated++
				if ok {
					ce = ex
					break
				}
			}
			if !ok {
				// Go-spec-level panic that the compiled code does not exhibit for the tried inputs
				// (e.g. a nil dereference whose loaded value is unused on that path): not reported.
				fmt.Printf("UNCONFIRMED: kernel=%s panic %s (%s) did not reproduce natively on %d tried inputs, see %s\n", kr.Kernel.Name, id, ce.Note, len(st.Examples), dir)
				unconfirmed++
				continue
			}
			violations++
			fmt.Printf("VIOLATION property=%s replay=%s\n", prop, dir)
			if strings.HasPrefix(id, "hang@") {
				fmt.Printf("  kernel=%s does not terminate (%s; the native replay overflows the stack or runs into the test timeout) on %d paths; inputs: %s\n", kr.Kernel.Name, ce.Note, st.Failed, fmtVals(ce))
			} else {
				fmt.Printf("  kernel=%s panics (%s: %s) on %d paths; inputs: %s\n", kr.Kernel.Name, id, ce.Note, st.Failed, fmtVals(ce))
			}
		}
		// translator validation: a few passing paths are re-run natively with the solver's model
		if violations == 0 && os.Getenv("VERIF_NO_TV") == "" {
			for si, ce := range kr.PassSamples {
				if si >= 2 && !opt.Thorough() {
					break
				}
				dir := filepath.Join(replayBase, fmt.Sprintf("tv_%s_%d", strings.ReplaceAll(kr.Kernel.Name, ".", "_"), si))
				res.Session.WriteReplay(ce, dir)
				ok, out := layera.RunReplayClean(dir)
				if ok {
					validated++
					os.RemoveAll(dir)
				} else if kr.Kernel.ReplayTries > 0 {
					os.RemoveAll(dir) // behaviour depends on Go's map randomisation: not comparable
				} else {
					os.WriteFile(filepath.Join(dir, "replay.out"), []byte(out), 0o644)
					fmt.Printf("TOOL-ERROR: translator validation failed for kernel %s: the native run of a passing path deviates, see %s\n", kr.Kernel.Name, dir)
					fatal = append(fatal, "translator validation "+kr.Kernel.Name)
				}
			}
		}
		// vacuity: every assertion and reach witness must be hit on at least one feasible path
		for id, n := range kr.Reach {
			ks["reach:"+id] = n
		}
		if len(kr.Asserts) == 0 && len(kr.Panics) == 0 {
			if kr.Stats != nil && kr.Stats.Completed == 0 && len(kr.Stats.Unsupported) > 0 {
				// every path ended in an instruction the engine does not model: the kernel decides nothing on
				// this tree (said so, never counted as a pass); the other kernels and legs still run
				fmt.Printf("INCONCLUSIVE: kernel %s is not applicable to this tree: every path ends in unsupported code (%s)\n", kr.Kernel.Name, strings.Join(kr.Stats.UnsupportedList(), "; "))
				ks["not_applicable"] = "every path ends in unsupported code"
			} else {
				vacuous++
				fmt.Printf("TOOL-ERROR: kernel %s reached no assertion (vacuous harness)\n", kr.Kernel.Name)
			}
		}
		if kr.Stats != nil {
			ks["paths"] = kr.Stats.Paths
			ks["completed"] = kr.Stats.Completed
			ks["infeasible"] = kr.Stats.Infeasible
			ks["truncated"] = kr.Stats.Truncated
			ks["queries"] = kr.Stats.Queries
			ks["wall_s"] = kr.Stats.Wall.Seconds()
			ks["unwind"] = kr.Kernel.Unwind
			if kr.Stats.PathBudget {
				fmt.Printf("INCONCLUSIVE: kernel %s hit its path budget (%d)\n", kr.Kernel.Name, kr.Kernel.MaxPaths)
			}
		}
		perKernel[kr.Kernel.Name] = ks
		if len(samples) < 6 {
			samples = append(samples, map[string]interface{}{"kernel": kr.Kernel.Name, "harness": kr.Kernel.Harness, "package": kr.Kernel.Pkg, "assertions": ids})
		}
	}
	// supplementary end-to-end leg: concrete runs of the binary built from the tree
	e2eLeg := map[string]interface{}{}
	if lr.E2EAlways != "" && opt.Only == "" {
		dir := filepath.Join(replayBase, "e2e_leg")
		os.MkdirAll(dir, 0o755)
		_, alreadyRun := lr.e2eDone[lr.E2EAlways]
		rep, detail := lr.e2e(lr.E2EAlways, filepath.Join(dir, "e2e"))
		e2eLeg = map[string]interface{}{"scenario": lr.E2EAlways, "deviations": 0, "note": "real goverter binary built from the working tree, concrete runs on scratch modules (cmd/vcheck/e2e.go); supplementary, not a solver verdict"}
		if rep {
			e2eLeg["deviations"] = len(strings.Split(detail, "\n"))
			os.WriteFile(filepath.Join(dir, "e2e.txt"), []byte(detail), 0o644)
			if !(alreadyRun && violations > 0) {
				// not yet reported as the confirmation of a kernel counterexample
				violations++
				fmt.Printf("VIOLATION property=%s replay=%s\n  end-to-end scenario %s (real binary): %s\n", prop, dir, lr.E2EAlways, strings.ReplaceAll(strings.TrimSpace(detail), "\n", " / "))
			}
		} else {
			os.RemoveAll(dir)
		}
	}
	var kh []string
	for w := range knownHits {
		kh = append(kh, w)
	}
	sort.Strings(kh)
	for _, w := range kh {
		fmt.Printf("KNOWN-FINDING: property=%s %s (%d paths)\n", prop, w, knownHits[w])
	}
	for _, u := range total.UnsupportedList() {
		fmt.Println("INCONCLUSIVE: unsupported:", u)
	}
	if total.UnwindFail > 0 {
		fmt.Printf("INCONCLUSIVE: %d paths exceeded the unwinding bound\n", total.UnwindFail)
		for w, n := range total.UnwindWhere {
			fmt.Printf("  %s ×%d\n", w, n)
		}
	}
	if inconclusive > 0 {
		fmt.Printf("INCONCLUSIVE: %d obligations undecided by all solvers\n", inconclusive)
	}
	seenFatal := map[string]bool{}
	for _, f := range fatal {
		if os.Getenv("VERIF_DEBUG") != "" && !seenFatal[firstLine(f)] {
			fmt.Println(f)
		}
		if !seenFatal[firstLine(f)] {
			fmt.Println("TOOL-ERROR:", firstLine(f))
		}
		seenFatal[firstLine(f)] = true
	}
	cov := map[string]interface{}{
		"states":                        total.Completed + total.Panicked,
		"transitions":                   total.Steps,
		"traces_validated_against_impl": validated,
		"samples":                       samples,
		"evaluations":                   total.Paths,
		"distinct_nontrivial":           total.Completed + total.Panicked,
		"rule":                          "states = feasible complete paths of the harness through the real kernel code (each path is a distinct decision trace); transitions = SSA instructions executed symbolically; every assertion is an SMT query over all values of the path's symbolic inputs",
		"functions_encoded":             lr.Funcs,
		"bounds":                        lr.Bounds,
		"kernels":                       perKernel,
		"obligations":                   obligations,
		"discharged":                    discharged,
		"queries":                       map[string]int{"total": total.Queries, "sat": total.Sat, "unsat": total.Unsat, "unknown": total.Unknown, "solver_errors": total.SolverErrors},
		"solver_time_s":                 total.SolverTime.Seconds(),
		"paths":                         total.Paths,
		"infeasible_paths":              total.Infeasible,
		"truncated_paths":               total.Truncated,
		"unwind_failures":               total.UnwindFail,
		"unsupported":                   total.UnsupportedList(),
		"inconclusive_obligations":      inconclusive,
		"known_findings":                kh,
		"unconfirmed_panics":            unconfirmed,
		"solver":                        "z3 4.8.12 (one z3 -in per worker, push/pop); unknown => z3-new, cvc5",
		"stubs":                         "fmt.Errorf/Sprintf (opaque, recorded), strings.* (Go-coded byte models validated natively in /verif/models), regexp (native on concrete patterns, else fresh), go/types + go/token + go/constant (real library code run natively on concrete objects), path/filepath (native on concrete, uninterpreted on atoms), os/jennifer as listed per kernel",
	}
	for k, v := range extra {
		cov[k] = v
	}
	if len(e2eLeg) > 0 {
		cov["end_to_end_leg"] = e2eLeg
	}
	if len(notApplicable) > 0 {
		cov["kernels_not_applicable_to_this_tree"] = notApplicable
	}
	ev := &Evidence{PropertyID: prop, Tier: opt.Tier, Seed: opt.Seed, Level: "model_checking", Coverage: cov, Assumptions: lr.Assume, WallS: time.Since(startTime).Seconds(), Violations: violations}
	writeEvidence(ev)
	fmt.Printf("%s: %d kernels, %d paths, %d/%d obligations discharged, %d violations, %d known, %.1fs\n", prop, len(res.Results), total.Paths, discharged, obligations, violations, len(kh), time.Since(startTime).Seconds())
	if violations > 0 {
		return 1
	}
	if len(fatal) > 0 || vacuous > 0 {
		return 2
	}
	return 0
}

func fmtVals(ce *layera.Counterexample) string {
	var parts []string
	for _, v := range ce.Vals {
		switch v.Kind {
		case "string", "atom":
			parts = append(parts, fmt.Sprintf("%s=%q", v.Tag, string(v.Bytes)))
		default:
			parts = append(parts, fmt.Sprintf("%s=%d", v.Tag, v.Int))
		}
	}
	s := strings.Join(parts, " ")
	if len(s) > 600 {
		s = s[:600] + "…"
	}
	return s
}

// kernelSummary evaluates a kernel run that accompanies a Layer B property: violations are printed
// with replays; the summary map goes into the property's evidence.
func kernelSummary(opt *Options, prop string, lr *laRun, res *laResult) (int, map[string]interface{}) {
	out := map[string]interface{}{}
	if res.Fatal != "" {
		fmt.Println("TOOL-ERROR:", res.Fatal)
		return 2, out
	}
	known := loadKnown()
	code := 0
	ci := 100
	for _, kr := range res.Results {
		ks := map[string]interface{}{}
		for id, st := range kr.Asserts {
			ks[id] = fmt.Sprintf("reached on %d paths, proved %d, failed %d, inconclusive %d", st.Reached, st.Proved, st.Failed, st.Inconclusive)
			if st.Failed > 0 {
				if k := matchKnown(known, prop, kr.Kernel.Name, "assert", id); k != nil {
					fmt.Printf("KNOWN-FINDING: property=%s %s (%d paths)\n", prop, k.What, st.Failed)
					continue
				}
				dir := filepath.Join(layera.Root(), "replays", prop, fmt.Sprintf("case%02d", ci))
				ci++
				res.Session.WriteReplay(st.First, dir)
				if kr.Kernel.E2E != "" {
					// the harness programs stubs and cannot run natively: the counterexample is confirmed by the
					// end-to-end scenario of the kernel (real binary), or printed as unconfirmed
					rep, detail := lr.e2e(kr.Kernel.E2E, filepath.Join(dir, "e2e"), st.First)
					os.WriteFile(filepath.Join(dir, "e2e.txt"), []byte(detail), 0o644)
					if !rep {
						fmt.Printf("UNCONFIRMED: kernel=%s assert=%s fails symbolically (%s) but the end-to-end scenario %s shows no deviation, see %s\n", kr.Kernel.Name, id, fmtVals(st.First), kr.Kernel.E2E, dir)
						continue
					}
					fmt.Printf("VIOLATION property=%s replay=%s\n  kernel=%s assertion=%s fails on %d paths (inputs: %s); end-to-end: %s\n", prop, dir, kr.Kernel.Name, id, st.Failed, fmtVals(st.First), strings.ReplaceAll(strings.TrimSpace(detail), "\n", " / "))
					code = 1
					continue
				}
				ok, outp := layera.RunReplay(dir)
				os.WriteFile(filepath.Join(dir, "replay.out"), []byte(outp), 0o644)
				if !ok {
					fmt.Printf("SPURIOUS: kernel=%s assert=%s did not reproduce natively, see %s\n", kr.Kernel.Name, id, dir)
					code = 2
					continue
				}
				fmt.Printf("VIOLATION property=%s replay=%s\n  kernel=%s assertion=%s fails on %d paths; inputs: %s\n", prop, dir, kr.Kernel.Name, id, st.Failed, fmtVals(st.First))
				code = 1
			}
		}
		for id, st := range kr.Panics {
			ks["panic:"+id] = st.Failed
			dir := filepath.Join(layera.Root(), "replays", prop, fmt.Sprintf("case%02d", ci))
			ci++
			res.Session.WriteReplay(st.First, dir)
			ok, _ := layera.RunReplay(dir)
			if ok {
				fmt.Printf("VIOLATION property=%s replay=%s\n  kernel=%s panics: %s\n", prop, dir, kr.Kernel.Name, id)
				code = 1
			}
		}
		if kr.Stats != nil {
			ks["paths"] = kr.Stats.Paths
			ks["queries"] = kr.Stats.Queries
			for _, u := range kr.Stats.UnsupportedList() {
				fmt.Println("INCONCLUSIVE: unsupported:", u)
			}
		}
		for id, n := range kr.Reach {
			ks["reach:"+id] = n
		}
		for _, f := range kr.Fatal {
			fmt.Println("TOOL-ERROR:", firstLine(f))
			code = 2
		}
		if kr.NotApplicable != "" {
			fmt.Printf("INCONCLUSIVE: kernel %s is not applicable to this tree: %s\n", kr.Kernel.Name, kr.NotApplicable)
			ks["not_applicable"] = kr.NotApplicable
		} else if len(kr.Asserts) == 0 {
			if kr.Stats != nil && kr.Stats.Completed == 0 && len(kr.Stats.Unsupported) > 0 {
				fmt.Printf("INCONCLUSIVE: kernel %s is not applicable to this tree: every path ends in unsupported code\n", kr.Kernel.Name)
				ks["not_applicable"] = "every path ends in unsupported code"
			} else {
				fmt.Printf("TOOL-ERROR: kernel %s reached no assertion\n", kr.Kernel.Name)
				code = 2
			}
		}
		out[kr.Kernel.Name] = ks
	}
	return code, out
}
