package main

import (
	"fmt"
	"time"

	"verif/layerb"
)

func init() { propRunners["SCN"] = runSCN }

// runSCN (debug entry): F-scenario leg alone.
func runSCN(opt *Options) int {
	bin, err := layerb.BuildGoverter(opt.Repo, opt.Scratch)
	if err != nil {
		fmt.Println("TOOL-ERROR:", err)
		return 2
	}
	t0 := time.Now()
	rs := layerb.RunScenarios(opt.Repo, opt.Scratch, bin, lbBounds(opt), 16, opt.Only, "")
	entries, paths, skipped, genfail, findings := 0, 0, 0, 0, 0
	for _, r := range rs {
		if r.Skipped != "" {
			skipped++
			if r.Skipped != "error scenario" {
				fmt.Println("SKIP", r.Name, r.Skipped)
			}
			continue
		}
		if r.GenFailed != "" {
			genfail++
			fmt.Println("GENFAIL", r.Name, firstLine(r.GenFailed))
			continue
		}
		entries += r.Entries
		paths += r.Paths
		if r.Entries == 0 {
			fmt.Println("NOENTRY", r.Name)
		}
		for _, f := range r.Findings {
			findings++
			fmt.Printf("FINDING %s %s at %s input %s replay %s\n", f.Conv, f.Note, f.Path, f.Input, f.Replayed)
		}
		if r.Stats != nil {
			for _, u := range r.Stats.UnsupportedList() {
				fmt.Println("UNSUPPORTED", r.Name, u)
			}
			if r.Stats.UnwindFail > 0 || r.Stats.Truncated > 0 {
				fmt.Println("BOUND", r.Name, r.Stats.UnwindFail, r.Stats.Truncated)
			}
		}
	}
	fmt.Printf("SCN: %d scenarios, %d skipped, %d genfail, %d entries, %d paths, %d findings, %.1fs\n", len(rs), skipped, genfail, entries, paths, findings, time.Since(t0).Seconds())
	return 0
}

func init() { propRunners["E2E"] = runE2E }

// runE2E (debug entry): every end-to-end scenario against the tree; on the unchanged tree none may deviate.
func runE2E(opt *Options) int {
	rc := 0
	for name, f := range e2eScenarios {
		if opt.Only != "" && opt.Only != name {
			continue
		}
		bad, err := f(opt.Repo, opt.Scratch+"/e2e_"+name, map[string]string{})
		if err != nil {
			fmt.Println("E2E", name, "error:", err)
			rc = 2
			continue
		}
		fmt.Printf("E2E %s: %d deviations\n", name, len(bad))
		for _, b := range bad {
			fmt.Println("  ", b)
			rc = 1
		}
	}
	return rc
}
