package main

import (
	"strings"
	"verif/layera"
	"verif/layerb"
)

func init() {
	propRunners["C12"] = runC12
}

func runC12(opt *Options) int {
	stub := []string{"github.com/jmattheis/goverter/method.Parse"}
	ints := map[string]int{"VerifC12StepMax": 5, "VerifC12ChainMax": 3, "VerifC12NameTail": 4}
	if opt.Thorough() {
		ints = map[string]int{"VerifC12StepMax": 6, "VerifC12ChainMax": 4, "VerifC12NameTail": 7}
	}
	lr := &laRun{
		Opt:       opt,
		E2EAlways: "c12",
		Pkgs:      []string{"config", "generator", "builder"},
		Kernels: []layera.Kernel{
			{Name: "K6.step", Pkg: "config", Harness: "VerifHarness_C12_Step", Unwind: 64, Stub: stub, SetInts: ints},
			{Name: "K6.unknown", Pkg: "config", Harness: "VerifHarness_C12_Unknown", Unwind: 64, Stub: stub},
			{Name: "K6.strings", Pkg: "config", Harness: "VerifHarness_C12_Strings", Unwind: 64, Stub: stub, SetInts: ints},
			{Name: "K6.chain", Pkg: "config", Harness: "VerifHarness_C12_Chain", Unwind: 64, Stub: stub, SetInts: ints},
			{Name: "K6.wronglevel", Pkg: "config", Harness: "VerifHarness_C12_WrongLevel", Unwind: 64, Stub: stub},
			kernelConverterLines("c12"),
			{Name: "K8.convertersindependent", Pkg: "config", Harness: "VerifHarness_C12_ConvertersIndependent", Unwind: 200, E2E: "c12", Stub: []string{"(*github.com/jmattheis/goverter/pkgload.PackageLoader).GetOneRaw"}},
			{Name: "K17.enumsetting", Pkg: "builder", Harness: "VerifHarness_C12_EnumSettingPerMethod", Unwind: 32},
			{Name: "K6.methodlines", Pkg: "config", Harness: "VerifHarness_C12_MethodLines", Unwind: 64, E2E: "c12", Stub: []string{"github.com/jmattheis/goverter/method.Parse", "(*github.com/jmattheis/goverter/pkgload.PackageLoader).GetOne"}},
			{Name: "K6.unknownname", Pkg: "config", Harness: "VerifHarness_C12_UnknownName", Unwind: 64, Stub: stub, SetInts: ints},
			{Name: "K16.submethod", Pkg: "generator", Harness: "VerifHarness_C12_SubMethod", Unwind: 16, E2E: "c12", Stub: []string{"(*github.com/jmattheis/goverter/generator.generator).CallMethod", "(*github.com/jmattheis/goverter/generator.generator).buildMethod"}},
		},
		Funcs:  []string{"config.parseCommon", "config.parseConverterLines", "config.parseConverterLine", "config.parseMethod", "config.parseMethodLine", "config.formatLineError", "config.validateEnumAction", "config.IsEnumAction", "parse.Command", "parse.Bool", "parse.Enum", "parse.String", "parse.Regex", "config.init (DefaultCommon, DefaultConfigInterface)"},
		Bounds: "one line per level (CLI, converter, method) + sibling method + second converter; value strings: any ASCII bytes, length <= 5 (step) / <= 3 (chain), thorough <= 6 / <= 4; arbitrary pre-state Common (all booleans symbolic); unwind 64 asserted",
		Assume: []string{
			"method.Parse (signature parsing, C14's subject) is stubbed to return (nil, nil)",
			"the harness replays parseConverter's sequence (global lines, converter lines, parseMethod) without pkgload",
			"ASCII only: every symbolic byte < 0x80; strings.* replaced by byte-loop models validated natively against the stdlib",
			"sequences of several lines for one key at one level follow from the one-step harness by induction (last writer wins)",
		},
	}
	// Layer B leg: sibling methods with different values of an inheritable setting
	sib := layerb.FamilySibling(opt.Thorough())
	// a method-level arg:context:regex holds for that method only, also for functions shared with a sibling
	for _, c := range layerb.FamilyCustom(false) {
		if strings.Contains(c.ID, "/fieldfunc/tworegexes") || strings.Contains(c.ID, "/fieldfunc/methodctx") {
			sib = append(sib, c)
		}
	}
	// settings written where they are not allowed (whatever their value) are errors
	for _, c := range layerb.FamilyField(true) {
		if c.ExpectFail && (strings.Contains(c.ID, "_on_slice_method") || strings.Contains(c.ID, "_on_double_pointer_method")) {
			sib = append(sib, c)
		}
	}
	// a method-level goverter:context line holds for that method only
	for _, c := range layerb.FamilySignature(false) {
		if strings.Contains(c.ID, "signature/context_line_") || strings.Contains(c.ID, "signature/bare_") || strings.Contains(c.ID, "signature/context_names_") || strings.Contains(c.ID, "signature/struct_") {
			sib = append(sib, c)
		}
	}
	// enum settings written on a method that does not convert an enum to an enum are reported where they stand
	for _, c := range layerb.FamilyEnum(false) {
		if c.ExpectFail && (strings.Contains(c.ID, "enum/fail_mapping_on_") || strings.Contains(c.ID, "enum/fail_map_three_fields")) {
			sib = append(sib, c)
		}
	}
	// siblings with different `enum` settings sharing an enum type (value obligations)
	var enumSib []*layerb.Conv
	for _, c := range layerb.FamilyEnum(false) {
		if strings.Contains(c.ID, "enum/sibling_") || strings.Contains(c.ID, "enum/map_survives_rebuild") {
			enumSib = append(enumSib, c)
		}
	}
	lb := &lbRun{
		Opt:        opt,
		Convs:      sib,
		Check:      layerb.CheckErrors,
		Bounds:     lbBounds(opt),
		Rule:       lbRule,
		Assume:     lbAssume,
		NoEvidence: true,
	}
	lbres := lb.run()
	lbrc := lb.finish(lbres, "translation_validation", nil)
	// second leg: skipCopySameType written on one method only (value pass-through and sharing obligations)
	sb := lbBounds(opt)
	sb.MaxSlice = 1
	lb2 := &lbRun{
		Opt:        opt,
		Convs:      layerb.FamilySiblingSkip(opt.Thorough()),
		Check:      layerb.CheckValueAndSharing,
		EOpt:       layerb.ExploreOpt{Alias: true, TrackWrites: true},
		Bounds:     sb,
		Rule:       lbRule,
		Assume:     lbAssume,
		NoEvidence: true,
	}
	lb2.CaseBase = 200
	lb2rc := lb2.finish(lb2.run(), "translation_validation", nil)
	lb3 := &lbRun{Opt: opt, Convs: enumSib, Check: layerb.CheckValue, Bounds: lbBounds(opt), Rule: lbRule, Assume: lbAssume, NoEvidence: true, CaseBase: 300}
	if rc3 := lb3.finish(lb3.run(), "translation_validation", nil); rc3 != 0 && lb2rc == 0 {
		lb2rc = rc3
	}
	lr.CaseBase = 500
	rc := lr.finish(lr.run(), map[string]interface{}{"layer_b_sibling_family": lb.LastCov, "layer_b_sibling_skipcopy_family": lb2.LastCov, "layer_b_sibling_enum_family": lb3.LastCov})
	if rc == 0 && lbrc != 0 {
		return lbrc
	}
	if rc == 0 {
		return lb2rc
	}
	return rc
}
