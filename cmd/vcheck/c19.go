package main

import (
	"fmt"

	"verif/layera"
)

func init() {
	propRunners["C19"] = runC19
}

func runC19(opt *Options) int {
	line, block, gl, gk, gt := 12, 8, 1, 1, 0
	if opt.Thorough() {
		line, block, gl, gk, gt = 13, 9, 1, 2, 1
	}
	ints := map[string]int{"VerifC19LineMax": line, "VerifC19BlockMax": block, "VerifC19GroupLead": gl, "VerifC19GroupKey": gk, "VerifC19GroupTail": gt}
	lr := &laRun{
		Opt:  opt,
		Pkgs: []string{"config/parse", "comments", "pkgload", "config"},
		Kernels: []layera.Kernel{
			{Name: "K7.line", Pkg: "config/parse", Harness: "VerifHarness_C19_Line", Unwind: 40, SetInts: ints},
			{Name: "K7.block", Pkg: "config/parse", Harness: "VerifHarness_C19_Block", Unwind: 40, SetInts: ints},
			{Name: "K7.group", Pkg: "config/parse", Harness: "VerifHarness_C19_Group", Unwind: 48, SetInts: ints, MaxPaths: 2000000},
			{Name: "K7.command", Pkg: "config/parse", Harness: "VerifHarness_C19_Command", Unwind: 24},
			{Name: "K7.marker", Pkg: "config/parse", Harness: "VerifHarness_C19_Marker", Unwind: 48},
			{Name: "K7.variables", Pkg: "comments", Harness: "VerifHarness_C19_Variables", Unwind: 200},
			{Name: "K7.interface", Pkg: "comments", Harness: "VerifHarness_C19_Interface", Unwind: 200},
			{Name: "K7.trailing", Pkg: "comments", Harness: "VerifHarness_C19_Trailing", Unwind: 64},
			{Name: "K7.specgroup", Pkg: "comments", Harness: "VerifHarness_C19_Group", Unwind: 64},
			{Name: "K7.localconfig", Pkg: "pkgload", Harness: "VerifHarness_C19_LocalConfig", Unwind: 64},
			{Name: "K7.repeated", Pkg: "comments", Harness: "VerifHarness_C19_Repeated", Unwind: 600},
			{Name: "K7.filescan", Pkg: "comments", Harness: "VerifHarness_C19_ParseDocsFiles", Unwind: 64, E2E: "c19"},
			{Name: "K7.nomarker", Pkg: "comments", Harness: "VerifHarness_C19_NoMarker", Unwind: 64},
			{Name: "K7.funcdecls", Pkg: "comments", Harness: "VerifHarness_C19_FuncDecls", Unwind: 200, E2E: "c19"},
			kernelConverterLines("c19"),
			{Name: "K6.methodlines", Pkg: "config", Harness: "VerifHarness_C12_MethodLines", Unwind: 64, E2E: "c19", Stub: []string{"github.com/jmattheis/goverter/method.Parse", "(*github.com/jmattheis/goverter/pkgload.PackageLoader).GetOne"}},
		},
		Funcs:     []string{"comments.parseGenDecl", "comments.parseFunctions", "comments.parseInterface", "comments.parseInterfaceMethods", "comments.parseRawLines", "pkgload.(*PackageLoader).localConfig (doc comments of custom functions)", "go/ast (Pos, Ident.String, ... executed like the code under test)", "parse.CommentToString", "parse.stripTrailingWhitespace", "parse.isWhitespace", "parse.SettingLines", "parse.Command"},
		E2EAlways: "c19",
		Bounds:    fmt.Sprintf("comment groups of <= 2 comments; `//` body <= %d bytes, `/* */` body <= %d bytes with <= 2 newlines (group of two comments: each body = <=%d symbolic bytes + `goverter:` + <=%d symbolic bytes + <=%d symbolic bytes, in the layouts line/line, line/block, block/line, two-line block); every byte symbolic ASCII; unwind asserted", line, block, gl, gk, gt),
		Assume: []string{
			"go/parser's guarantees on Comment.Text: `//` comments contain no newline, carriage returns are stripped, a block comment body does not contain its terminator",
			"ASCII only: every symbolic byte < 0x80 (non-ASCII white space is outside the claim)",
			"strings.* and bufio.Scanner(ScanLines) are replaced by byte-loop models validated natively against the stdlib on every build of /verif/models",
			"declaration kernels (K7.variables/interface/nomarker) build go/ast nodes directly: which comment go/parser attaches as Doc and which as trailing Comment is go/parser's contract and outside",
		},
	}
	return lr.finish(lr.run(), nil)
}
