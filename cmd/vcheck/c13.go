package main

import (
	"fmt"
	"path/filepath"
	"strings"

	"verif/layera"
	"verif/layerb"
)

func init() {
	propRunners["C13"] = runC13
}

func kernelsC13(thorough bool) ([]string, []layera.Kernel) {
	// (identifier lengths go up to 130 bytes: three path elements would be 8 million paths, two are 40 000)
	maxPaths := 2
	stub := []string{"github.com/jmattheis/goverter/method.Parse", "(*github.com/jmattheis/goverter/pkgload.PackageLoader).GetOne", "(*github.com/jmattheis/goverter/pkgload.PackageLoader).GetMatching"}
	return []string{"xtype", "builder", "pkgload", "config", "enum", "namer", "comments"}, []layera.Kernel{
		{Name: "K7.specgroup", Pkg: "comments", Harness: "VerifHarness_C19_Group", Unwind: 64},
		{Name: "K7.nomarker", Pkg: "comments", Harness: "VerifHarness_C19_NoMarker", Unwind: 64},
		{Name: "K9.typecode", Pkg: "xtype", Harness: "VerifHarness_C13_TypeCode", Unwind: 16},
		{Name: "K9.recursivetypes", Pkg: "xtype", Harness: "VerifHarness_C13_RecursiveTypes", Unwind: 64, MaxDepth: 200, LoopsBounded: true},
		{Name: "K9.enumlookup", Pkg: "xtype", Harness: "VerifHarness_C13_EnumLookup", Unwind: 16},
		{Name: "K5.structassign", Pkg: "builder", Harness: "VerifHarness_C05_StructAssign", Unwind: 32, MaxPaths: 3000000, Workers: 16},
		{Name: "K9.tostring", Pkg: "builder", Harness: "VerifHarness_C13_ErrorToString", Unwind: 600, MaxPaths: 600000, SetInts: map[string]int{"VerifC13MaxPaths": maxPaths}},
		{Name: "K9.methodstring", Pkg: "pkgload", Harness: "VerifHarness_C13_ParseMethodString", Unwind: 24},
		{Name: "K9.getmatching", Pkg: "pkgload", Harness: "VerifHarness_C13_GetMatching", Unwind: 64, Stub: []string{"github.com/jmattheis/goverter/method.Parse"}, E2E: "c13"},
		{Name: "K9.methodmap", Pkg: "config", Harness: "VerifHarness_C13_ParseMethodMap", Unwind: 24, Stub: stub},
		{Name: "K9.settinglines", Pkg: "config", Harness: "VerifHarness_C13_SettingLines", Unwind: 64, Stub: stub},
		{Name: "K9.namerloops", Pkg: "namer", Harness: "VerifHarness_C13_NamerLoops", Unwind: 200, LoopsBounded: true},
		{Name: "K9.transformregex", Pkg: "enum", Harness: "VerifHarness_C13_TransformRegex", Unwind: 24},
	}
}

func runC13(opt *Options) int {
	pkgs, ks := kernelsC13(opt.Thorough())
	lr := &laRun{
		Opt:     opt,
		Pkgs:    pkgs,
		Kernels: ks,
		Funcs:   []string{"xtype.TypeOf", "xtype.applyTo", "xtype.toCode", "xtype.toCodeBasic", "xtype.toCodeNamed", "xtype.toCodeObj", "xtype.toCodeStruct", "xtype.toCodeInterface", "xtype.toCodeSignature", "xtype.toChan", "xtype.ZeroValue", "xtype.(*Type).ID", "xtype.(*Type).Enum", "xtype.loadEnum", "enum.Detect", "pkgload.(*PackageLoader).GetMatching", "pkgload.ParseMethodString", "namer.(*Namer).Index/Map/Name/Register (termination: <= 59 index, 5 map and 5 plain names per method)"},
		Bounds:  "self-referencing and mutually recursive named types over six constructors; all eleven outer type constructors (every basic kind incl. uintptr and unsafe.Pointer, the universe type error), named or unnamed, inner positions basic; go/types runs natively",
		Assume: []string{
			"jennifer (jen.*) is an opaque library: fresh results, no panics",
			"panic freedom is decided per kernel within its bounds; termination of the whole pipeline, stack depth, go/packages failures are outside (process level)",
		},
	}
	// Layer B leg (not a solver verdict): the real goverter binary terminates without panic on every
	// program of the corpus families, expected-failure programs included
	convs := layerb.FamilyShapeSkip(opt.Thorough())
	convs = append(convs, layerb.FamilyField(true)...)
	convs = append(convs, layerb.FamilyName(true)...)
	convs = append(convs, layerb.FamilyEnum(false)...)
	convs = append(convs, layerb.FamilyUpdate(false)...)
	convs = append(convs, layerb.FamilyDefault(false)...)
	convs = append(convs, layerb.FamilySibling(false)...)
	convs = append(convs, layerb.FamilySignature(false)...)
	convs = append(convs, layerb.FamilyOddities()...)
	for i, c := range layerb.FamilyShape(false, opt.Seed) {
		if i%4 == 0 || strings.Contains(c.ID, "shape/rec_") || strings.Contains(c.ID, "shape/generic_tree") {
			convs = append(convs, c)
		}
	}
	for i, c := range layerb.FamilyCustom(false) {
		if i%4 == 0 {
			convs = append(convs, c)
		}
	}
	lb := &lbRun{Opt: opt, Convs: convs, Check: func(pc *layerb.PathCtx) {}, Bounds: layerb.Bounds{}}
	lbres := lb.runNoExplore()
	crashes := 0
	clearReplaysOnce("C13")
	known := loadKnown()
	if lbres.Corpus != nil {
		for i, c := range lbres.Corpus.Convs {
			if c.GenCrash == "" {
				continue
			}
			f := layerb.Finding{Conv: c.ID, Family: c.Family, Kind: "crash", Note: "goverter " + c.GenCrash + ": " + firstLine(c.GenErr)}
			if k := matchKnown(known, "C13", f.Conv, f.Kind, f.Note); k != nil {
				fmt.Printf("KNOWN-FINDING: property=C13 %s\n", k.What)
				continue
			}
			dir := saveReplay(filepath.Join(layera.Root(), "replays", "C13"), "C13", 100+i, &f, lbres)
			crashes++
			fmt.Printf("VIOLATION property=C13 replay=%s\n  conv=%s: %s\n", dir, c.ID, f.Note)
		}
	}
	rc := lr.finish(lr.run(), map[string]interface{}{"corpus_generation_runs_without_panic_or_hang": map[string]interface{}{"programs": len(convs), "crashes": crashes, "note": "real binary, 90 s limit per run; not decided by the solver"}})
	if crashes > 0 {
		return 1
	}
	return rc
}
