package main

import "verif/layera"

func init() {
	propRunners["C13"] = runC13
}

func kernelsC13(thorough bool) ([]string, []layera.Kernel) {
	maxPaths := 2
	if thorough {
		maxPaths = 3
	}
	stub := []string{"github.com/jmattheis/goverter/method.Parse", "(*github.com/jmattheis/goverter/pkgload.PackageLoader).GetOne", "(*github.com/jmattheis/goverter/pkgload.PackageLoader).GetMatching"}
	return []string{"xtype", "builder", "pkgload", "config", "enum"}, []layera.Kernel{
		{Name: "K9.typecode", Pkg: "xtype", Harness: "VerifHarness_C13_TypeCode", Unwind: 16},
		{Name: "K9.enumlookup", Pkg: "xtype", Harness: "VerifHarness_C13_EnumLookup", Unwind: 16},
		{Name: "K9.tostring", Pkg: "builder", Harness: "VerifHarness_C13_ErrorToString", Unwind: 24, MaxPaths: 600000, SetInts: map[string]int{"VerifC13MaxPaths": maxPaths}},
		{Name: "K9.methodstring", Pkg: "pkgload", Harness: "VerifHarness_C13_ParseMethodString", Unwind: 24},
		{Name: "K9.methodmap", Pkg: "config", Harness: "VerifHarness_C13_ParseMethodMap", Unwind: 24, Stub: stub},
		{Name: "K9.settinglines", Pkg: "config", Harness: "VerifHarness_C13_SettingLines", Unwind: 64, Stub: stub},
		{Name: "K9.transformregex", Pkg: "enum", Harness: "VerifHarness_C13_TransformRegex", Unwind: 24},
	}
}

func runC13(opt *Options) int {
	pkgs, ks := kernelsC13(opt.Thorough())
	lr := &laRun{
		Opt:     opt,
		Pkgs:    pkgs,
		Kernels: ks,
		Funcs:   []string{"xtype.TypeOf", "xtype.applyTo", "xtype.toCode", "xtype.toCodeBasic", "xtype.toCodeNamed", "xtype.toCodeObj", "xtype.toCodeStruct", "xtype.toCodeInterface", "xtype.toCodeSignature", "xtype.toChan", "xtype.ZeroValue", "xtype.(*Type).ID", "xtype.(*Type).Enum", "xtype.loadEnum", "enum.Detect"},
		Bounds:  "all eleven outer type constructors (every basic kind incl. uintptr and unsafe.Pointer, the universe type error), named or unnamed, inner positions basic; go/types runs natively",
		Assume: []string{
			"jennifer (jen.*) is an opaque library: fresh results, no panics",
			"panic freedom is decided per kernel within its bounds; termination of the whole pipeline, stack depth, go/packages failures are outside (process level)",
		},
	}
	return lr.finish(lr.run(), nil)
}
