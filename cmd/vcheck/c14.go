package main

import (
	"strings"
	"verif/layera"
	"verif/layerb"
)

func init() {
	propRunners["C14"] = runC14
}

func runC14(opt *Options) int {
	maxParams, wideParams := 2, 1
	if opt.Thorough() {
		maxParams, wideParams = 3, 2
	}
	lr := &laRun{
		Opt:  opt,
		Pkgs: []string{"method", "pkgload", "config", "xtype"},
		Kernels: []layera.Kernel{
			// which parameters of a custom function are contexts by its own doc comment (goverter:context NAME)
			{Name: "K7.localconfig", Pkg: "pkgload", Harness: "VerifHarness_C19_LocalConfig", Unwind: 64},
			// with which arg:context:regex and against which output package the custom functions of a converter, and its methods, are classified
			kernelConverterLines("c14"),
			{Name: "K4.parse", Pkg: "method", Harness: "VerifHarness_C14_Parse", Unwind: 16, MaxPaths: 30000000, Workers: 16, SetInts: map[string]int{"VerifC14MaxParams": maxParams, "VerifC14WideRegexParams": wideParams}},
			{Name: "K4.notafunction", Pkg: "method", Harness: "VerifHarness_C14_NotAFunction", Unwind: 16},
			{Name: "K4.functionvariable", Pkg: "method", Harness: "VerifHarness_C14_FunctionVariable", Unwind: 64},
			// (whether a custom function may be named from the output package is decided by xtype.Accessible)
			{Name: "K5.accessible", Pkg: "xtype", Harness: "VerifHarness_C03_Accessible", Unwind: 16},
		},
		Funcs:  []string{"method.Parse", "method.isError", "method.(*Definition).ArgDebug", "xtype.Accessible", "xtype.TypeOf"},
		Bounds: "signatures with 0..2 (thorough: 0..3) parameters and 0..3 results; per parameter: plain / converter-typed / named like the update argument / matching arg:context:regex / listed as local context; per result: struct, error, int; options: ParamType / multi-source / AllowTypeParams / output package path symbolic (decided by the solver), update, context regex, converter type, exported, generic enumerated",
		Assume: []string{
			"parameters to which two classifications apply at once (converter-typed and named like the update argument, update argument and regex match) do not occur (the documentation does not rank them)",
			"go/types, regexp run natively on concrete objects; fmt.Errorf/Sprintf opaque",
			"pkgload resolving names to objects is outside this kernel",
		},
	}
	// Layer B leg (generation outcomes, not a solver verdict): which functions and declarations whole runs accept
	lb := &lbRun{Opt: opt, Convs: layerb.FamilySignature(opt.Thorough()), Check: func(pc *layerb.PathCtx) {}, Bounds: layerb.Bounds{}, NoEvidence: true, Rule: lbRule, Assume: lbAssume, CaseBase: 200}
	lbrc := lb.finish(lb.runNoExplore(), "translation_validation", nil)
	// second Layer B leg: custom functions with context / converter parameters at every position are classified and
	// called with the arguments in the declared order (values and call arguments checked symbolically)
	var roleConvs []*layerb.Conv
	for _, c := range layerb.FamilyCustom(opt.Thorough()) {
		for _, leaf := range []string{"custom/extend_ctx/", "custom/extend_ctx_first/", "custom/extend_regex_doc_ctx/", "custom/extend_conv/", "custom/extend_conv_last/", "custom/extend_conv_middle/", "custom/extend_conv_regexmatch/", "/fieldfunc/methodctx", "/fieldfunc/getter_with_contexts"} {
			if strings.Contains(c.ID, leaf) {
				roleConvs = append(roleConvs, c)
			}
		}
	}
	lb2 := &lbRun{Opt: opt, Convs: roleConvs, Check: layerb.CheckCalls, Bounds: layerb.Bounds{MaxSlice: 1, MaxMap: 1, RecDepth: 1}, NoEvidence: true, Rule: lbRule, Assume: lbAssume, CaseBase: 300}
	if rc2 := lb2.finish(lb2.run(), "translation_validation", nil); rc2 != 0 && lbrc == 0 {
		lbrc = rc2
	}
	// third leg: update signatures keep their meaning next to custom functions of the same type pair
	var updConvs []*layerb.Conv
	for _, c := range layerb.FamilyUpdate(false) {
		if strings.Contains(c.ID, "update/with_same_pair_extend") || strings.Contains(c.ID, "update/plain1/c0") {
			updConvs = append(updConvs, c)
		}
	}
	lb3 := &lbRun{Opt: opt, Convs: updConvs, Check: layerb.CheckUpdate, EOpt: layerb.ExploreOpt{TrackWrites: true}, Bounds: layerb.Bounds{MaxSlice: 1, MaxMap: 1, RecDepth: 1}, NoEvidence: true, Rule: lbRule, Assume: lbAssume, CaseBase: 400}
	if rc3 := lb3.finish(lb3.run(), "translation_validation", nil); rc3 != 0 && lbrc == 0 {
		lbrc = rc3
	}
	rc := lr.finish(lr.run(), map[string]interface{}{"update_signature_programs": lb3.LastCov, "parameter_role_programs": lb2.LastCov, "accept_reject_programs": map[string]interface{}{
		"programs": len(lb.Convs), "note": "whole runs of the goverter binary: unexported default / map|FUNC / extend functions versus the output package, declarations with a wrong shape; rejected-but-valid and accepted-but-invalid programs are violations; emitted code of accepted programs is type-checked",
		"rejected_expected_success": lb.LastCov["generation_rejected_expected_success"], "accepted_expected_failure": lb.LastCov["generation_accepted_expected_failure"]}})
	if rc == 0 {
		return lbrc
	}
	return rc
}
