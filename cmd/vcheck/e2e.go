package main

import (
	"bytes"
	"fmt"
	"os"
	"os/exec"
	"path/filepath"
	"sort"
	"strings"
)

// End-to-end scenarios: concrete runs of the goverter binary built from /repo. They are used only to
// confirm counterexamples of kernels whose harness depends on stubs (no native harness replay possible).
// A scenario returns the list of expectations that the real binary violates.

type e2eEnv struct {
	dir string
	bin string
}

func newE2E(repo, dir string) (*e2eEnv, error) {
	os.RemoveAll(dir)
	if err := os.MkdirAll(dir, 0o755); err != nil {
		return nil, err
	}
	bin := filepath.Join(dir, "goverter-bin")
	cmd := exec.Command("go", "build", "-o", bin, "./cmd/goverter")
	cmd.Dir = repo
	cmd.Env = append(os.Environ(), "GOFLAGS=-mod=mod", "GOPROXY=off", "GOSUMDB=off", "GOTOOLCHAIN=local")
	if b, err := cmd.CombinedOutput(); err != nil {
		return nil, fmt.Errorf("build goverter: %v\n%s", err, b)
	}
	os.WriteFile(filepath.Join(dir, "go.mod"), []byte("module e2e\n\ngo 1.22\n"), 0o644)
	return &e2eEnv{dir: dir, bin: bin}, nil
}

func (e *e2eEnv) write(rel, content string) {
	p := filepath.Join(e.dir, rel)
	os.MkdirAll(filepath.Dir(p), 0o755)
	os.WriteFile(p, []byte(content), 0o644)
}

func (e *e2eEnv) run(args ...string) (int, string, string) {
	cmd := exec.Command(e.bin, args...)
	cmd.Dir = e.dir
	cmd.Env = append(os.Environ(), "GOFLAGS=-mod=mod", "GOPROXY=off", "GOSUMDB=off", "GOTOOLCHAIN=local")
	var so, se bytes.Buffer
	cmd.Stdout, cmd.Stderr = &so, &se
	err := cmd.Run()
	code := 0
	if err != nil {
		if ee, ok := err.(*exec.ExitError); ok {
			code = ee.ExitCode()
		} else {
			code = -1
		}
	}
	return code, so.String(), se.String()
}

func (e *e2eEnv) tree() map[string]string {
	res := map[string]string{}
	filepath.Walk(e.dir, func(p string, info os.FileInfo, err error) error {
		if err != nil || p == e.bin {
			return nil
		}
		rel, _ := filepath.Rel(e.dir, p)
		if info.IsDir() {
			res[rel+"/"] = info.Mode().String()
			return nil
		}
		b, _ := os.ReadFile(p)
		res[rel] = info.Mode().String() + ":" + string(b)
		return nil
	})
	return res
}

func sameTree(a, b map[string]string) []string {
	var diff []string
	for k, v := range a {
		if b[k] != v {
			diff = append(diff, k)
		}
	}
	for k := range b {
		if _, ok := a[k]; !ok {
			diff = append(diff, k)
		}
	}
	sort.Strings(diff)
	return diff
}

const e2eGood = "package good\n\n// goverter:converter\ntype C interface {\n\tConvert(source In) Out\n}\ntype In struct{ A int }\ntype Out struct{ A int }\n"
const e2eBad = "package bad\n\n// goverter:converter\ntype C interface {\n\tConvert(source In) Out\n}\ntype In struct{ A int }\ntype Out struct{ A, Missing int }\n"

func e2eC17(repo, dir string, vals map[string]string) ([]string, error) {
	e, err := newE2E(repo, dir)
	if err != nil {
		return nil, err
	}
	var bad []string
	e.write("good/in.go", e2eGood)
	e.write("bad/in.go", e2eBad)
	e.write("good2/in.go", strings.Replace(e2eGood, "package good", "package good2", 1))
	// pre-existing output that must not be touched by a failing run
	e.write("good/generated/generated.go", "// stale\npackage generated\n")
	before := e.tree()
	code, _, se := e.run("gen", "./good", "./bad", "./good2")
	if code != 1 {
		bad = append(bad, fmt.Sprintf("failing run exits %d, want 1", code))
	}
	if strings.TrimSpace(se) == "" {
		bad = append(bad, "failing run prints no diagnostic on stderr")
	}
	if d := sameTree(before, e.tree()); len(d) > 0 {
		bad = append(bad, "failing run changed files: "+strings.Join(d, ", "))
	}
	code, _, _ = e.run("gen", "./bad", "./good")
	if d := sameTree(before, e.tree()); len(d) > 0 || code != 1 {
		bad = append(bad, "failing run (bad first) changed files or exit code: "+strings.Join(d, ", "))
	}
	code, so, _ := e.run("help")
	if code != 0 || !strings.Contains(so, "Usage") {
		bad = append(bad, fmt.Sprintf("help exits %d / usage not on stdout", code))
	}
	code, _, se = e.run()
	if code != 1 || !strings.Contains(se, "Usage") {
		bad = append(bad, fmt.Sprintf("missing command exits %d / usage not on stderr", code))
	}
	if d := sameTree(before, e.tree()); len(d) > 0 {
		bad = append(bad, "usage error generated files")
	}
	code, _, se = e.run("gen", "./good", "./good2")
	after := e.tree()
	if code != 0 {
		bad = append(bad, fmt.Sprintf("successful run exits %d: %s", code, se))
	}
	for _, f := range []string{"good/generated/generated.go", "good2/generated/generated.go"} {
		if !strings.Contains(after[f], "DO NOT EDIT") {
			bad = append(bad, "successful run did not write "+f)
		}
	}
	// output below two missing directories
	e.write("nested/in.go", strings.Replace(strings.Replace(e2eGood, "package good", "package nested", 1), "// goverter:converter\n", "// goverter:converter\n// goverter:output:file ./out/v1/conv/generated.go\n// goverter:output:package e2e/nested/out/v1/conv\n", 1))
	code, _, se = e.run("gen", "./nested")
	if code != 0 {
		bad = append(bad, fmt.Sprintf("valid run with a nested output directory exits %d: %s", code, firstLine(se)))
	}
	if _, err := os.Stat(filepath.Join(e.dir, "nested/out/v1/conv/generated.go")); err != nil {
		bad = append(bad, "nested output file not written")
	}
	// a converter that passes every stage but cannot be rendered (broken output:raw) next to good ones:
	// nothing may be written, whatever order the files are rendered in
	for i := 0; i < 5; i++ {
		e.write(fmt.Sprintf("r%d/in.go", i), strings.Replace(e2eGood, "package good", fmt.Sprintf("package r%d", i), 1))
	}
	e.write("rbad/in.go", strings.Replace(strings.Replace(e2eGood, "package good", "package rbad", 1), "// goverter:converter\n", "// goverter:converter\n// goverter:output:raw func broken( {\n", 1))
	for try := 0; try < 6; try++ {
		b0 := e.tree()
		code, _, _ = e.run("gen", "./r0", "./r1", "./rbad", "./r2", "./r3", "./r4")
		if code != 1 {
			bad = append(bad, fmt.Sprintf("run with an unrenderable converter exits %d", code))
			break
		}
		if d := sameTree(b0, e.tree()); len(d) > 0 {
			bad = append(bad, "run failing at render time wrote files: "+strings.Join(d, ", "))
			break
		}
	}
	return bad, nil
}

func e2eC16(repo, dir string, vals map[string]string) ([]string, error) {
	e, err := newE2E(repo, dir)
	if err != nil {
		return nil, err
	}
	var bad []string
	e.write("good/in.go", e2eGood)
	// a file that is only visible with the generation tag
	e.write("tagged/in.go", "//go:build mytag\n\n"+strings.Replace(e2eGood, "package good", "package tagged", 1))
	e.write("tagged/doc.go", "package tagged\n")
	// a user file guarded by the output constraint that needs not-yet-generated code
	e.write("good/use.go", "//go:build !goverter\n\npackage good\n\nimport \"e2e/good/generated\"\n\nvar _ C = &generated.CImpl{}\n")
	code, _, se := e.run("gen", "./good")
	if code != 0 {
		bad = append(bad, "tree whose only errors are behind the output constraint is not regenerated: "+firstLine(se))
	}
	b, _ := os.ReadFile(filepath.Join(e.dir, "good/generated/generated.go"))
	lines := strings.Split(string(b), "\n")
	if len(lines) < 2 || lines[0] != "// Code generated by github.com/jmattheis/goverter, DO NOT EDIT." || lines[1] != "//go:build !goverter" {
		bad = append(bad, "default header/constraint lines wrong: "+strings.Join(lines[:min(2, len(lines))], " | "))
	}
	// broken previous output never blocks regeneration
	e.write("good/generated/generated.go", "// Code generated by github.com/jmattheis/goverter, DO NOT EDIT.\n//go:build !goverter\n\npackage generated\n\nthis is not go\n")
	code, _, se = e.run("gen", "./good")
	if code != 0 {
		bad = append(bad, "broken previous output blocks regeneration: "+firstLine(se))
	}
	code, _, se = e.run("gen", "-build-tags", "mytag", "-output-constraint", "!mytag", "./tagged")
	if code != 0 {
		bad = append(bad, "custom -build-tags not honoured: "+firstLine(se))
	}
	b, _ = os.ReadFile(filepath.Join(e.dir, "tagged/generated/generated.go"))
	if !strings.Contains(string(b), "\n//go:build !mytag\n") {
		bad = append(bad, "custom -output-constraint not emitted")
	}
	code, _, _ = e.run("gen", "-output-constraint", "", "./good")
	b, _ = os.ReadFile(filepath.Join(e.dir, "good/generated/generated.go"))
	if code != 0 || strings.Contains(string(b), "//go:build") {
		bad = append(bad, "empty -output-constraint still emits a constraint line")
	}
	// constraints with various first characters (and the one from the counterexample) are emitted verbatim
	constraints := []string{"linux || !goverter", "go1.18 && !goverter", "(!goverter)", "unix", "d", "!goverter"}
	if c := vals["constraint"]; c != "" && isPrintable(c) {
		constraints = append(constraints, c)
	}
	for _, c := range constraints {
		code, _, _ = e.run("gen", "-output-constraint", c, "./good")
		b, _ = os.ReadFile(filepath.Join(e.dir, "good/generated/generated.go"))
		ls := strings.Split(string(b), "\n")
		if code != 0 || len(ls) < 2 || ls[1] != "//go:build "+c {
			got := ""
			if len(ls) > 1 {
				got = ls[1]
			}
			bad = append(bad, fmt.Sprintf("-output-constraint %q emitted as %q", c, got))
		}
	}
	// several build tags: both package loads must see all of them; output in the same package as the
	// interface, previous output broken / outdated
	same := "package same\n\n// goverter:converter\n// goverter:output:file ./generated.go\n// goverter:output:package e2e/same\n// goverter:extend Custom\ntype C interface {\n\tConvert(source In) Out\n}\ntype In struct{ A int }\ntype Out struct{ A string }\n\nfunc Custom(i int) string { return \"\" }\n"
	e.write("same/in.go", same)
	for _, tags := range []string{"goverter,sqlite", "sqlite,goverter", "goverter"} {
		e.write("same/generated.go", "// Code generated by github.com/jmattheis/goverter, DO NOT EDIT.\n//go:build !goverter\n\npackage same\n\nfunc broken( {\n")
		code, _, se = e.run("gen", "-build-tags", tags, "./same")
		if code != 0 {
			bad = append(bad, fmt.Sprintf("-build-tags %s: broken previous output in the same package blocks regeneration: %s", tags, firstLine(se)))
		}
	}
	return bad, nil
}

func isPrintable(s string) bool {
	for _, c := range s {
		if c < 0x21 || c > 0x7e {
			return false
		}
	}
	return true
}

func e2eC15(repo, dir string, vals map[string]string) ([]string, error) {
	e, err := newE2E(repo, dir)
	if err != nil {
		return nil, err
	}
	var bad []string
	e.write("a/in.go", "package a\n\n// goverter:converter\n// goverter:output:file ../out/gen.go\n// goverter:output:package e2e/out\ntype C interface {\n\tConvert(source In) Out\n}\n\n// goverter:converter\n// goverter:output:file ../out/gen.go\n// goverter:output:package e2e/out\ntype D interface {\n\tConvert(source In) Out\n}\ntype In struct{ A int }\ntype Out struct{ A int }\n")
	before := e.tree()
	code, _, se := e.run("gen", "./a")
	if code != 0 {
		bad = append(bad, "shared output file rejected: "+firstLine(se))
	}
	after := e.tree()
	var created []string
	for k := range after {
		if _, ok := before[k]; !ok {
			created = append(created, k)
		}
	}
	sort.Strings(created)
	if strings.Join(created, ",") != "out/,out/gen.go" {
		bad = append(bad, "files created: "+strings.Join(created, ",")+" (want out/, out/gen.go)")
	}
	if !strings.HasPrefix(after["out/gen.go"], "-rw-r--r--:") {
		bad = append(bad, "mode of new file: "+strings.SplitN(after["out/gen.go"], ":", 2)[0])
	}
	if after["out/"] != "drwxr-xr-x" {
		bad = append(bad, "mode of new directory: "+after["out/"])
	}
	if !strings.Contains(after["out/gen.go"], "type CImpl struct") || !strings.Contains(after["out/gen.go"], "type DImpl struct") || !strings.Contains(after["out/gen.go"], "\npackage out\n") {
		bad = append(bad, "converters sharing a file are not merged into one well-formed file")
	}
	e.write("b/in.go", "package b\n\n// goverter:converter\n// goverter:output:file ../out2/gen.go\n// goverter:output:package e2e/out2\ntype C interface {\n\tConvert(source In) Out\n}\n\n// goverter:converter\n// goverter:output:file ../out2/gen.go\n// goverter:output:package e2e/other:other\ntype D interface {\n\tConvert(source In) Out\n}\ntype In struct{ A int }\ntype Out struct{ A int }\n")
	code, _, _ = e.run("gen", "./b")
	if code != 1 {
		bad = append(bad, "same file with different packages accepted")
	}
	if _, err := os.Stat(filepath.Join(e.dir, "out2")); err == nil {
		bad = append(bad, "conflicting run wrote files")
	}
	// same file, same package path, different package names
	e.write("c/in.go", "package c2\n\n// goverter:converter\n// goverter:output:file ../out3/gen.go\n// goverter:output:package e2e/out3:foo\ntype C interface {\n\tConvert(source In) Out\n}\n\n// goverter:converter\n// goverter:output:file ../out3/gen.go\n// goverter:output:package e2e/out3:bar\ntype D interface {\n\tConvert(source In) Out\n}\ntype In struct{ A int }\ntype Out struct{ A int }\n")
	code, _, _ = e.run("gen", "./c")
	if code != 1 {
		bad = append(bad, "same file with the same package path but different package names accepted")
	}
	// @cwd/ with a relative -cwd lands under the working directory
	sub, err2 := newE2E(repo, filepath.Join(dir, "rel"))
	if err2 == nil {
		sub.write("mod/go.mod", "module relmod\n\ngo 1.22\n")
		sub.write("mod/pkg1/in.go", "package pkg1\n\n// goverter:converter\n// goverter:output:file @cwd/generated/output.go\n// goverter:output:package relmod/generated\ntype C interface {\n\tConvert(source In) Out\n}\ntype In struct{ A int }\ntype Out struct{ A int }\n")
		code, _, se := sub.run("gen", "-cwd", "./mod", "./...")
		if code != 0 {
			bad = append(bad, "relative -cwd run fails: "+firstLine(se))
		}
		if _, err := os.Stat(filepath.Join(sub.dir, "mod/generated/output.go")); err != nil {
			bad = append(bad, "@cwd/ output with a relative -cwd is not written below the working directory")
		}
		if _, err := os.Stat(filepath.Join(sub.dir, "mod/pkg1/mod")); err == nil {
			bad = append(bad, "@cwd/ output with a relative -cwd created a stray directory below the declaring package")
		}
		os.Remove(sub.bin)
	}
	return bad, nil
}

// e2eC09: regenerating over stale / longer / broken previous output gives the bytes of a clean generation,
// and repeated runs in fresh processes give identical bytes and diagnostics.
func e2eC09(repo, dir string, vals map[string]string) ([]string, error) {
	e, err := newE2E(repo, dir)
	if err != nil {
		return nil, err
	}
	var bad []string
	big := "package p\n\n// goverter:converter\ntype C interface {\n\tConvert(source In) Out\n\tConvert2(source []In) []Out\n\tConvert3(source map[string]In) map[string]Out\n}\ntype In struct{ A, B, C int }\ntype Out struct{ A, B, C int }\n"
	small := "package p\n\n// goverter:converter\ntype C interface {\n\tConvert(source In) Out\n}\ntype In struct{ A int }\ntype Out struct{ A int }\n"
	e.write("p/in.go", big)
	if code, _, se := e.run("gen", "./p"); code != 0 {
		return nil, fmt.Errorf("setup failed: %s", se)
	}
	e.write("p/in.go", small)
	e.run("gen", "./p")
	over, _ := os.ReadFile(filepath.Join(e.dir, "p/generated/generated.go"))
	os.RemoveAll(filepath.Join(e.dir, "p/generated"))
	e.run("gen", "./p")
	clean, _ := os.ReadFile(filepath.Join(e.dir, "p/generated/generated.go"))
	if string(over) != string(clean) {
		bad = append(bad, fmt.Sprintf("regenerating over a longer stale output differs from a clean generation (%d vs %d bytes)", len(over), len(clean)))
	}
	for i := 0; i < 8; i++ {
		e.run("gen", "./p")
		again, _ := os.ReadFile(filepath.Join(e.dir, "p/generated/generated.go"))
		if string(again) != string(clean) {
			bad = append(bad, "repeated run changed the output")
			break
		}
	}
	// several simultaneous faults: the diagnostic is the same in every fresh process
	e.write("q/in.go", "package q\n\n// goverter:converter\ntype C interface {\n\t// goverter:map A B\n\tA2D(source []A) []D\n\t// goverter:map A B\n\tD2A(source []D) []A\n\t// goverter:map A B\n\tB2C(source []B) []C\n\t// goverter:map A B\n\tC2B(source []C) []B\n}\ntype A struct{ A int }\ntype B struct{ B int }\ntype C struct{ B int }\ntype D struct{ B int }\n")
	seen := map[string]bool{}
	for i := 0; i < 24; i++ {
		_, _, se := e.run("gen", "./q")
		seen[se] = true
	}
	if len(seen) > 1 {
		bad = append(bad, fmt.Sprintf("%d different diagnostics for the same faulty input in 24 fresh processes", len(seen)))
	}
	return bad, nil
}

var e2eScenarios = map[string]func(repo, dir string, vals map[string]string) ([]string, error){
	"c09": e2eC09,
	"c15": e2eC15,
	"c16": e2eC16,
	"c17": e2eC17,
}

func min(a, b int) int {
	if a < b {
		return a
	}
	return b
}
