package main

import (
	"bytes"
	"fmt"
	"go/build/constraint"
	"os"
	"os/exec"
	"path/filepath"
	"sort"
	"strings"
)

// End-to-end scenarios: concrete runs of the goverter binary built from /repo. They are used only to
// confirm counterexamples of kernels whose harness depends on stubs (no native harness replay possible).
// A scenario returns the list of expectations that the real binary violates.

type e2eEnv struct {
	extraEnv []string // appended to the environment of the goverter runs
	dir      string
	bin      string
}

func newE2E(repo, dir string) (*e2eEnv, error) {
	os.RemoveAll(dir)
	if err := os.MkdirAll(dir, 0o755); err != nil {
		return nil, err
	}
	bin := filepath.Join(dir, "goverter-bin")
	cmd := exec.Command("go", "build", "-buildvcs=false", "-o", bin, "./cmd/goverter")
	cmd.Dir = repo
	cmd.Env = append(os.Environ(), "GOFLAGS=-mod=mod", "GOPROXY=off", "GOSUMDB=off", "GOTOOLCHAIN=local")
	if b, err := cmd.CombinedOutput(); err != nil {
		return nil, fmt.Errorf("build goverter: %v\n%s", err, b)
	}
	os.WriteFile(filepath.Join(dir, "go.mod"), []byte("module e2e\n\ngo 1.22\n"), 0o644)
	return &e2eEnv{dir: dir, bin: bin}, nil
}

func (e *e2eEnv) write(rel, content string) {
	p := filepath.Join(e.dir, rel)
	os.MkdirAll(filepath.Dir(p), 0o755)
	os.WriteFile(p, []byte(content), 0o644)
}

func (e *e2eEnv) run(args ...string) (int, string, string) {
	cmd := exec.Command(e.bin, args...)
	cmd.Dir = e.dir
	cmd.Env = append(os.Environ(), "GOFLAGS=-mod=mod", "GOPROXY=off", "GOSUMDB=off", "GOTOOLCHAIN=local")
	cmd.Env = append(cmd.Env, e.extraEnv...)
	var so, se bytes.Buffer
	cmd.Stdout, cmd.Stderr = &so, &se
	err := cmd.Run()
	code := 0
	if err != nil {
		if ee, ok := err.(*exec.ExitError); ok {
			code = ee.ExitCode()
		} else {
			code = -1
		}
	}
	return code, so.String(), se.String()
}

func (e *e2eEnv) goBuild(patterns ...string) (string, error) {
	cmd := exec.Command("go", append([]string{"build"}, patterns...)...)
	cmd.Dir = e.dir
	cmd.Env = append(os.Environ(), "GOFLAGS=-mod=mod", "GOPROXY=off", "GOSUMDB=off", "GOTOOLCHAIN=local")
	out, err := cmd.CombinedOutput()
	return string(out), err
}

func (e *e2eEnv) tree() map[string]string {
	res := map[string]string{}
	filepath.Walk(e.dir, func(p string, info os.FileInfo, err error) error {
		if err != nil || p == e.bin {
			return nil
		}
		rel, _ := filepath.Rel(e.dir, p)
		if info.IsDir() {
			res[rel+"/"] = info.Mode().String()
			return nil
		}
		b, _ := os.ReadFile(p)
		res[rel] = info.Mode().String() + ":" + string(b)
		return nil
	})
	return res
}

func sameTree(a, b map[string]string) []string {
	var diff []string
	for k, v := range a {
		if b[k] != v {
			diff = append(diff, k)
		}
	}
	for k := range b {
		if _, ok := a[k]; !ok {
			diff = append(diff, k)
		}
	}
	sort.Strings(diff)
	return diff
}

const e2eGood = "package good\n\n// goverter:converter\ntype C interface {\n\tConvert(source In) Out\n}\ntype In struct{ A int }\ntype Out struct{ A int }\n"
const e2eBad = "package bad\n\n// goverter:converter\ntype C interface {\n\tConvert(source In) Out\n}\ntype In struct{ A int }\ntype Out struct{ A, Missing int }\n"

func e2eC17(repo, dir string, vals map[string]string) ([]string, error) {
	e, err := newE2E(repo, dir)
	if err != nil {
		return nil, err
	}
	var bad []string
	e.write("good/in.go", e2eGood)
	e.write("bad/in.go", e2eBad)
	e.write("good2/in.go", strings.Replace(e2eGood, "package good", "package good2", 1))
	// pre-existing output that must not be touched by a failing run
	e.write("good/generated/generated.go", "// stale\npackage generated\n")
	before := e.tree()
	code, _, se := e.run("gen", "./good", "./bad", "./good2")
	if code != 1 {
		bad = append(bad, fmt.Sprintf("failing run exits %d, want 1", code))
	}
	if strings.TrimSpace(se) == "" {
		bad = append(bad, "failing run prints no diagnostic on stderr")
	}
	if d := sameTree(before, e.tree()); len(d) > 0 {
		bad = append(bad, "failing run changed files: "+strings.Join(d, ", "))
	}
	code, _, _ = e.run("gen", "./bad", "./good")
	if d := sameTree(before, e.tree()); len(d) > 0 || code != 1 {
		bad = append(bad, "failing run (bad first) changed files or exit code: "+strings.Join(d, ", "))
	}
	// an output file that cannot be written (a regular file stands where its directory belongs) fails the run,
	// whichever of the output files it is
	for _, blocked := range []string{"wa", "wb", "wc"} {
		for _, d := range []string{"wa", "wb", "wc"} {
			os.RemoveAll(filepath.Join(e.dir, "wr", d))
			e.write("wr/"+d+"/in.go", strings.Replace(e2eGood, "package good", "package "+d, 1))
		}
		e.write("wr/"+blocked+"/generated", "a regular file\n")
		code, _, se := e.run("gen", "./wr/...")
		if code != 1 || strings.TrimSpace(se) == "" {
			bad = append(bad, fmt.Sprintf("run whose output file %s/generated/generated.go cannot be written exits %d (want 1 and a diagnostic)", blocked, code))
		}
	}
	os.RemoveAll(filepath.Join(e.dir, "wr"))
	// every kind of method reports its conversion errors: a target field without source inside an update method
	// (value and pointer source), a pointer method, a slice method - next to a good package, nothing is written
	for i, m := range []string{
		"\t// goverter:update target\n\tConvert(source *In, target *Out)", "\t// goverter:update target\n\tConvert(source In, target *Out)",
		"\tConvert(source *In) *Out", "\tConvert(source []In) []Out", "\tConvert(source map[string]*In) map[string]Out",
	} {
		e.write("kind/in.go", "package kind\n\n// goverter:converter\ntype C interface {\n"+m+"\n}\ntype In struct{ A int }\ntype Out struct {\n\tA int\n\tNoSource int\n}\n")
		bk := e.tree()
		code, _, se := e.run("gen", "./good2", "./kind")
		if code != 1 || strings.TrimSpace(se) == "" {
			bad = append(bad, fmt.Sprintf("target field without a source in method kind %d (%s): exit %d, want 1 and a diagnostic", i, strings.TrimSpace(m[strings.LastIndex(m, "\t")+1:]), code))
		}
		if d := sameTree(bk, e.tree()); len(d) > 0 {
			bad = append(bad, fmt.Sprintf("failing run (method kind %d) changed files: %s", i, strings.Join(d, ", ")))
		}
	}
	os.RemoveAll(filepath.Join(e.dir, "kind"))
	// faults that only show with a second line or in a second package: an unknown goverter:context name next to a
	// valid one (either order), an extend line (plain name or pattern) into a package that does not compile
	for i, src := range []string{
		"package flt\n\n// goverter:converter\ntype C interface {\n\t// goverter:context ctx\n\t// goverter:context zone\n\tConvert(source In, ctx Loc) Out\n}\ntype Loc struct{ L string }\ntype In struct{ A int }\ntype Out struct{ A int }\n",
		"package flt\n\n// goverter:converter\ntype C interface {\n\t// goverter:context zone\n\t// goverter:context actx\n\tConvert(source In, zone Loc) Out\n}\ntype Loc struct{ L string }\ntype In struct{ A int }\ntype Out struct{ A int }\n",
		"package flt\n\n// goverter:converter\n// goverter:extend e2e/flt/ext:Conv.*\ntype C interface {\n\tConvert(source In) Out\n}\ntype In struct{ A int }\ntype Out struct{ A string }\n",
		"package flt\n\n// goverter:converter\n// goverter:extend e2e/flt/ext:ConvA\ntype C interface {\n\tConvert(source In) Out\n}\ntype In struct{ A int }\ntype Out struct{ A string }\n",
		// an output:file line with two values / without a value
		"package flt\n\n// goverter:converter\n// goverter:output:file ./my out/conv.gen.go\ntype C interface {\n\tConvert(source In) Out\n}\ntype In struct{ A int }\ntype Out struct{ A int }\n",
		"package flt\n\n// goverter:converter\n// goverter:output:file\ntype C interface {\n\tConvert(source In) Out\n}\ntype In struct{ A int }\ntype Out struct{ A int }\n",
		"package flt\n\n// goverter:converter\n// goverter:output:package a b\ntype C interface {\n\tConvert(source In) Out\n}\ntype In struct{ A int }\ntype Out struct{ A int }\n",
	} {
		e.write("flt/in.go", src)
		e.write("flt/ext/ext.go", "package ext\n\nfunc ConvA(i int) string { return \"\" }\n\nvar broken Missing\n")
		bk := e.tree()
		code, _, se := e.run("gen", "./good2", "./flt")
		if code != 1 || strings.TrimSpace(se) == "" {
			bad = append(bad, fmt.Sprintf("faulty converter %d (unknown context name next to a valid one / extend into a package that does not compile): exit %d, want 1 and a diagnostic", i, code))
		}
		if d := sameTree(bk, e.tree()); len(d) > 0 {
			bad = append(bad, fmt.Sprintf("failing run (faulty converter %d) changed files: %s", i, strings.Join(d, ", ")))
		}
	}
	os.RemoveAll(filepath.Join(e.dir, "flt"))
	// a pattern that names nothing that can be loaded - a directory that does not exist, a package whose files are all
	// excluded by build constraints - fails the run next to a good package
	e.write("allexcl/in.go", "//go:build special\n\npackage allexcl\n")
	for _, pat := range []string{"./doesnotexist", "./allexcl"} {
		bk := e.tree()
		code, _, se := e.run("gen", "./good2", pat)
		if code != 1 || strings.TrimSpace(se) == "" {
			bad = append(bad, fmt.Sprintf("pattern %s that cannot be loaded: exit %d, want 1 and a diagnostic", pat, code))
		}
		if d := sameTree(bk, e.tree()); len(d) > 0 {
			bad = append(bad, fmt.Sprintf("failing run (pattern %s) changed files: %s", pat, strings.Join(d, ", ")))
		}
	}
	os.RemoveAll(filepath.Join(e.dir, "allexcl"))
	// a -g line that one of the converters of the run cannot take fails the run, whichever converter it is
	e.write("gvars/in.go", "package gvars\n\n// goverter:variables\nvar (\n\tConvert func(source In) Out\n)\n\ntype In struct{ A int }\ntype Out struct{ A int }\n")
	for _, args := range [][]string{{"gen", "-g", "output:format function", "./good2", "./gvars"}, {"gen", "-g", "output:format function", "./gvars", "./good2"}, {"gen", "-g", "output:format function", "./gvars"}} {
		bk := e.tree()
		code, _, se := e.run(args...)
		if code != 1 || strings.TrimSpace(se) == "" {
			bad = append(bad, fmt.Sprintf("%q: a -g line that the variables block cannot take: exit %d, want 1 and a diagnostic", strings.Join(args, " "), code))
		}
		if d := sameTree(bk, e.tree()); len(d) > 0 {
			bad = append(bad, fmt.Sprintf("%q: failing run changed files: %s", strings.Join(args, " "), strings.Join(d, ", ")))
		}
	}
	os.RemoveAll(filepath.Join(e.dir, "gvars"))
	// unusable settings on the second of two declared methods for one pair (they differ in their contexts)
	e.write("twosig/in.go", "package twosig\n\n// goverter:converter\n// goverter:arg:context:regex ^ctx\ntype C interface {\n\tA(source int, ctxA CtxA) int\n\t// goverter:ignore Nope\n\tB(source int, ctxB CtxB) int\n}\ntype CtxA struct{}\ntype CtxB struct{}\n")
	code, _, se = e.run("gen", "./twosig")
	if code != 1 || strings.TrimSpace(se) == "" {
		bad = append(bad, fmt.Sprintf("field settings on the second of two declared int->int methods (different contexts) exit %d, want 1 and a diagnostic", code))
	}
	os.RemoveAll(filepath.Join(e.dir, "twosig"))
	// argument vectors that are no valid command line - an unknown option or an option without its value, also
	// behind the first package - fail the run: exit 1, a diagnostic, nothing written
	os.RemoveAll(filepath.Join(e.dir, "good2/generated"))
	bArgs := e.tree()
	for _, args := range [][]string{
		{"gen", "-bogus", "./good2"}, {"gen", "./good2", "-bogus"}, {"gen", "./good2", "-bogus", "./good"}, {"gen", "./good2", "-g"}, {"gen", "./good2", "-output-constraint"},
		{"gen", "-g", "ignoreMissing", "./good2", "-cwd"}, {"gen", "-build-tags"}, {"gen"}, {"generate", "./good2"}, {"gen", "./good2", "-build-tags", "x"},
	} {
		code, _, se := e.run(args...)
		if code != 1 || strings.TrimSpace(se) == "" {
			bad = append(bad, fmt.Sprintf("invalid command line %q exits %d (want 1 and a diagnostic)", strings.Join(args, " "), code))
		}
		if d := sameTree(bArgs, e.tree()); len(d) > 0 {
			bad = append(bad, fmt.Sprintf("invalid command line %q changed files: %s", strings.Join(args, " "), strings.Join(d, ", ")))
			break
		}
	}
	// a pattern that matches no loadable package fails the whole run
	b1 := e.tree()
	code, _, se = e.run("gen", "./good", "./doesnotexist")
	if code != 1 || strings.TrimSpace(se) == "" {
		bad = append(bad, fmt.Sprintf("run with a package pattern that does not exist exits %d / empty stderr, want 1 and a diagnostic", code))
	}
	if d := sameTree(b1, e.tree()); len(d) > 0 {
		bad = append(bad, "run with a package pattern that does not exist changed files: "+strings.Join(d, ", "))
	}
	// a directive that names several things, one of which cannot be resolved (not the last one), is a fault
	e.write("ext/in.go", "package ext\n\n// goverter:converter\n// goverter:extend Missing IntToString\ntype C interface {\n\tConvert(source In) Out\n}\ntype In struct{ A int }\ntype Out struct{ A string }\n\nfunc IntToString(i int) string { return \"\" }\n")
	e.write("ext/generated/generated.go", "// stale\npackage generated\n")
	b0 := e.tree()
	for _, argv := range [][]string{{"gen", "./ext", "./good2"}, {"gen", "-g", "extend e2e/ext:Nope e2e/ext:IntToString", "./good2"}} {
		if argv[1] == "-g" {
			e.write("ext/in.go", "package ext\n\nfunc IntToString(i int) string { return \"\" }\n")
			b0 = e.tree()
		}
		code, _, se = e.run(argv...)
		if code != 1 || strings.TrimSpace(se) == "" {
			bad = append(bad, fmt.Sprintf("`%s`: extend line with an unresolvable first name exits %d / empty stderr, want 1 and a diagnostic", strings.Join(argv, " "), code))
		}
		if d := sameTree(b0, e.tree()); len(d) > 0 {
			bad = append(bad, "... and files were changed: "+strings.Join(d, ", "))
		}
	}
	os.RemoveAll(filepath.Join(e.dir, "ext"))
	os.RemoveAll(filepath.Join(e.dir, "good2/generated"))
	// two packages with the same package name and the same interface name are two converters
	for _, d := range []string{"order", "user"} {
		e.write("dup/"+d+"/mapper/in.go", "package mapper\n\n// goverter:converter\ntype Converter interface {\n\tConvert(source In) Out\n}\ntype In struct{ A int }\ntype Out struct{ A int }\n")
	}
	code, _, se = e.run("gen", "./dup/...")
	for _, d := range []string{"order", "user"} {
		if _, err := os.Stat(filepath.Join(e.dir, "dup", d, "mapper/generated/generated.go")); code != 0 || err != nil {
			bad = append(bad, "same package and interface name in two directories: output of "+d+"/mapper missing (exit "+fmt.Sprint(code)+"): "+firstLine(se))
		}
	}
	os.RemoveAll(filepath.Join(e.dir, "dup"))
	for _, d := range []string{"order", "user"} {
		src := e2eGood
		if d == "user" {
			src = e2eBad
		}
		e.write("dup2/"+d+"/mapper/in.go", strings.Replace(strings.Replace(strings.Replace(src, "package good", "package mapper", 1), "package bad", "package mapper", 1), "type C interface", "type Converter interface", 1))
	}
	b2 := e.tree()
	for _, argv := range [][]string{{"gen", "./dup2/..."}, {"gen", "./dup2/user/mapper", "./dup2/order/mapper"}} {
		code, _, se = e.run(argv...)
		if code != 1 || strings.TrimSpace(se) == "" {
			bad = append(bad, fmt.Sprintf("faulty converter sharing package and interface name with a good one (`%s`): exit %d / empty stderr", strings.Join(argv, " "), code))
		}
		if d := sameTree(b2, e.tree()); len(d) > 0 {
			bad = append(bad, "... and files were changed: "+strings.Join(d, ", "))
		}
	}
	os.RemoveAll(filepath.Join(e.dir, "dup2"))
	code, so, _ := e.run("help")
	if code != 0 || !strings.Contains(so, "Usage") {
		bad = append(bad, fmt.Sprintf("help exits %d / usage not on stdout", code))
	}
	code, _, se = e.run()
	if code != 1 || !strings.Contains(se, "Usage") {
		bad = append(bad, fmt.Sprintf("missing command exits %d / usage not on stderr", code))
	}
	for _, argv := range [][]string{{"gen", "-g", "wrapErrors"}, {"gen", "-cwd", "."}, {"gen", "-build-tags", "x"}, {"gen", "--"}, {"gen", "-output-constraint", "x"}} {
		code, _, se = e.run(argv...)
		if code != 1 || !strings.Contains(se, "Usage") {
			bad = append(bad, fmt.Sprintf("`goverter %s` (no package pattern) exits %d / no usage text on stderr, want the usage error (1)", strings.Join(argv, " "), code))
		}
	}
	if d := sameTree(before, e.tree()); len(d) > 0 {
		bad = append(bad, "usage error generated files: "+strings.Join(d, ", "))
	}
	code, _, se = e.run("gen", "./good", "./good2")
	after := e.tree()
	if code != 0 {
		bad = append(bad, fmt.Sprintf("successful run exits %d: %s", code, se))
	}
	for _, f := range []string{"good/generated/generated.go", "good2/generated/generated.go"} {
		if !strings.Contains(after[f], "DO NOT EDIT") {
			bad = append(bad, "successful run did not write "+f)
		}
	}
	for _, d := range e2eStale(e, "good2") {
		bad = append(bad, "successful run does not write the file completely: "+d)
	}
	// output below two missing directories
	e.write("nested/in.go", strings.Replace(strings.Replace(e2eGood, "package good", "package nested", 1), "// goverter:converter\n", "// goverter:converter\n// goverter:output:file ./out/v1/conv/generated.go\n// goverter:output:package e2e/nested/out/v1/conv\n", 1))
	code, _, se = e.run("gen", "./nested")
	if code != 0 {
		bad = append(bad, fmt.Sprintf("valid run with a nested output directory exits %d: %s", code, firstLine(se)))
	}
	if _, err := os.Stat(filepath.Join(e.dir, "nested/out/v1/conv/generated.go")); err != nil {
		bad = append(bad, "nested output file not written")
	}
	// a converter that passes every stage but cannot be rendered (broken output:raw) next to good ones:
	// nothing may be written, whatever order the files are rendered in
	for i := 0; i < 5; i++ {
		e.write(fmt.Sprintf("r%d/in.go", i), strings.Replace(e2eGood, "package good", fmt.Sprintf("package r%d", i), 1))
	}
	e.write("rbad/in.go", strings.Replace(strings.Replace(e2eGood, "package good", "package rbad", 1), "// goverter:converter\n", "// goverter:converter\n// goverter:output:raw func broken( {\n", 1))
	for try := 0; try < 6; try++ {
		b0 := e.tree()
		code, _, _ = e.run("gen", "./r0", "./r1", "./rbad", "./r2", "./r3", "./r4")
		if code != 1 {
			bad = append(bad, fmt.Sprintf("run with an unrenderable converter exits %d", code))
			break
		}
		if d := sameTree(b0, e.tree()); len(d) > 0 {
			bad = append(bad, "run failing at render time wrote files: "+strings.Join(d, ", "))
			break
		}
	}
	return bad, nil
}

func e2eC16(repo, dir string, vals map[string]string) ([]string, error) {
	e, err := newE2E(repo, dir)
	if err != nil {
		return nil, err
	}
	var bad []string
	e.write("good/in.go", e2eGood)
	// a file that is only visible with the generation tag
	e.write("tagged/in.go", "//go:build mytag\n\n"+strings.Replace(e2eGood, "package good", "package tagged", 1))
	e.write("tagged/doc.go", "package tagged\n")
	// a user file guarded by the output constraint that needs not-yet-generated code
	e.write("good/use.go", "//go:build !goverter\n\npackage good\n\nimport \"e2e/good/generated\"\n\nvar _ C = &generated.CImpl{}\n")
	code, _, se := e.run("gen", "./good")
	if code != 0 {
		bad = append(bad, "tree whose only errors are behind the output constraint is not regenerated: "+firstLine(se))
	}
	b, _ := os.ReadFile(filepath.Join(e.dir, "good/generated/generated.go"))
	lines := strings.Split(string(b), "\n")
	if len(lines) < 2 || lines[0] != "// Code generated by github.com/jmattheis/goverter, DO NOT EDIT." || lines[1] != "//go:build !goverter" {
		bad = append(bad, "default header/constraint lines wrong: "+strings.Join(lines[:min(2, len(lines))], " | "))
	}
	// broken previous output never blocks regeneration
	e.write("good/generated/generated.go", "// Code generated by github.com/jmattheis/goverter, DO NOT EDIT.\n//go:build !goverter\n\npackage generated\n\nthis is not go\n")
	code, _, se = e.run("gen", "./good")
	if code != 0 {
		bad = append(bad, "broken previous output blocks regeneration: "+firstLine(se))
	}
	code, _, se = e.run("gen", "-build-tags", "mytag", "-output-constraint", "!mytag", "./tagged")
	if code != 0 {
		bad = append(bad, "custom -build-tags not honoured: "+firstLine(se))
	}
	b, _ = os.ReadFile(filepath.Join(e.dir, "tagged/generated/generated.go"))
	if !strings.Contains(string(b), "\n//go:build !mytag\n") {
		bad = append(bad, "custom -output-constraint not emitted")
	}
	code, _, _ = e.run("gen", "-output-constraint", "", "./good")
	b, _ = os.ReadFile(filepath.Join(e.dir, "good/generated/generated.go"))
	if code != 0 || strings.Contains(string(b), "//go:build") {
		bad = append(bad, "empty -output-constraint still emits a constraint line")
	}
	// the number of packages of a run does not matter: 40 packages whose outputs (same package) are stale after a
	// field was renamed everywhere are regenerated
	{
		mk := func(field string) {
			for i := 0; i < 40; i++ {
				pk := fmt.Sprintf("q%02d", i)
				e.write("many/"+pk+"/in.go", "package "+pk+"\n\n// goverter:variables\nvar (\n\tConvert func(source In) Out\n)\n\ntype In struct{ "+field+" int }\ntype Out struct{ "+field+" int }\n")
			}
		}
		mk("A")
		if code, _, se := e.run("gen", "./many/..."); code != 0 {
			bad = append(bad, "40 packages in one run are not generated: "+firstLine(se))
		} else {
			mk("B")
			code, _, se = e.run("gen", "./many/...")
			b, _ := os.ReadFile(filepath.Join(e.dir, "many/q39/in.gen.go"))
			if code != 0 || !strings.Contains(string(b), "source.B") {
				bad = append(bad, "stale outputs of 40 packages block regeneration (the build tag has to reach every load): "+firstLine(se))
			}
		}
		os.RemoveAll(filepath.Join(e.dir, "many"))
	}
	// tags are handed to the loader as written (case matters to the go tool)
	e.write("mixed/in.go", strings.Replace(e2eGood, "package good", "package mixed", 1))
	e.write("mixed/use.go", "//go:build !codeGen\n\npackage mixed\n\nimport \"e2e/mixed/generated\"\n\nvar _ C = &generated.CImpl{}\n")
	code, _, se = e.run("gen", "-build-tags", "codeGen", "-output-constraint", "!codeGen", "./mixed")
	if _, err := os.Stat(filepath.Join(e.dir, "mixed/generated/generated.go")); code != 0 || err != nil {
		bad = append(bad, "-build-tags codeGen: files behind the constraint !codeGen are not hidden while loading: "+firstLine(se))
	}
	os.RemoveAll(filepath.Join(e.dir, "mixed"))
	// ... whatever the go tool accepts as a tag: dots, a leading digit, a Go keyword, several tags
	for _, tag := range []string{"codegen.v2", "2fa", "type", "gen,codegen.v2", "codegen,gen", "gen,ge,g"} {
		last := tag[strings.LastIndex(tag, ",")+1:]
		e.write("tagform/in.go", strings.Replace(e2eGood, "package good", "package tagform", 1))
		e.write("tagform/use.go", "//go:build !"+last+"\n\npackage tagform\n\nimport \"e2e/tagform/generated\"\n\nvar _ C = &generated.CImpl{}\n")
		code, _, se = e.run("gen", "-build-tags", tag, "-output-constraint", "!"+last, "./tagform")
		if _, err := os.Stat(filepath.Join(e.dir, "tagform/generated/generated.go")); code != 0 || err != nil {
			bad = append(bad, "-build-tags "+tag+": files behind the constraint !"+last+" are not hidden while loading: "+firstLine(se))
		}
		os.RemoveAll(filepath.Join(e.dir, "tagform"))
	}
	// ... and whatever the environment of the process says about tags: a stale same-package output is hidden by the
	// generation tag also when GOFLAGS carries a tag list of its own
	{
		mkv := func(field string) {
			e.write("envtags/in.go", "package envtags\n\n// goverter:variables\nvar (\n\tConvert func(source In) Out\n)\n\ntype In struct{ "+field+" int }\ntype Out struct{ "+field+" int }\n")
		}
		mkv("A")
		e.extraEnv = []string{"GOFLAGS=-mod=mod -tags=integration"}
		if code, _, se := e.run("gen", "./envtags"); code != 0 {
			bad = append(bad, "GOFLAGS with a tag list: first generation fails: "+firstLine(se))
		} else {
			mkv("B")
			code, _, se = e.run("gen", "./envtags")
			b, _ := os.ReadFile(filepath.Join(e.dir, "envtags/in.gen.go"))
			if code != 0 || !strings.Contains(string(b), "source.B") {
				bad = append(bad, "GOFLAGS with a tag list: the stale output blocks regeneration (the generation tag has to reach every load): "+firstLine(se))
			}
		}
		e.extraEnv = nil
		os.RemoveAll(filepath.Join(e.dir, "envtags"))
	}
	// both switched off: no tag for loading, no constraint line
	e.write("notagsboth/in.go", strings.Replace(e2eGood, "package good", "package notagsboth", 1))
	code, _, se = e.run("gen", "-build-tags", "", "-output-constraint", "", "./notagsboth")
	b, _ = os.ReadFile(filepath.Join(e.dir, "notagsboth/generated/generated.go"))
	if code != 0 || strings.Contains(string(b), "//go:build") {
		bad = append(bad, "-build-tags \"\" -output-constraint \"\" still emits a constraint line: "+firstLine(se))
	}
	os.RemoveAll(filepath.Join(e.dir, "notagsboth"))
	// the tags are used for every form of package pattern: relative, import path, absolute directory (with and without /...)
	e.write("abs/in.go", strings.Replace(e2eGood, "package good", "package abs", 1))
	e.write("abs/use.go", "//go:build !goverter\n\npackage abs\n\nimport \"e2e/abs/generated\"\n\nvar _ C = &generated.CImpl{}\n")
	for _, pat := range []string{"./abs", "e2e/abs", filepath.Join(e.dir, "abs"), filepath.Join(e.dir, "abs") + "/..."} {
		os.RemoveAll(filepath.Join(e.dir, "abs/generated"))
		code, _, se = e.run("gen", pat)
		if _, err := os.Stat(filepath.Join(e.dir, "abs/generated/generated.go")); code != 0 || err != nil {
			bad = append(bad, "pattern "+strings.Replace(pat, e.dir, "<abs>", 1)+": files behind the output constraint are not hidden while loading: "+firstLine(se))
		}
	}
	os.RemoveAll(filepath.Join(e.dir, "abs"))
	// constraints with various first characters (and the one from the counterexample) are emitted verbatim
	constraints := []string{"linux || !goverter", "go1.18 && !goverter", "unix", "d", "!goverter", "(linux || darwin || windows) && (!goverter)", "(!goverter)", "!(goverter)"}
	if c := vals["constraint"]; c != "" && isPrintable(c) {
		constraints = append(constraints, c)
	}
	for _, c := range constraints {
		code, _, _ = e.run("gen", "-output-constraint", c, "./good")
		b, _ = os.ReadFile(filepath.Join(e.dir, "good/generated/generated.go"))
		ls := strings.Split(string(b), "\n")
		if code != 0 || len(ls) < 2 || !sameConstraint(ls[1], "//go:build "+c) {
			got := ""
			if len(ls) > 1 {
				got = ls[1]
			}
			bad = append(bad, fmt.Sprintf("-output-constraint %q emitted as %q", c, got))
		}
	}
	// the constraint does not depend on the build tags: with -build-tags "" the default and a custom one still appear
	for _, c := range []struct {
		args []string
		want string
	}{
		{[]string{"gen", "-build-tags", "", "./notags"}, "//go:build !goverter"},
		{[]string{"gen", "-build-tags", "", "-output-constraint", "!gen", "./notags"}, "//go:build !gen"},
	} {
		os.RemoveAll(filepath.Join(e.dir, "notags"))
		e.write("notags/in.go", strings.Replace(e2eGood, "package good", "package notags", 1))
		code, _, se = e.run(c.args...)
		b, _ = os.ReadFile(filepath.Join(e.dir, "notags/generated/generated.go"))
		ls := strings.Split(string(b), "\n")
		if code != 0 || len(ls) < 2 || ls[1] != c.want {
			bad = append(bad, fmt.Sprintf("%v: exit %d, second line %q, want %q: %s", c.args[1:], code, strings.Join(ls[1:min(2, len(ls))], ""), c.want, firstLine(se)))
		}
	}
	os.RemoveAll(filepath.Join(e.dir, "notags"))
	bad = append(bad, e2eStale(e, "good")...)
	bad = append(bad, e2eCustomCLI(repo, e)...)
	// several converters sharing one file: one header, one constraint line, and the package still compiles
	e.write("two/in.go", "package two\n\n// goverter:converter\ntype A interface {\n\tConvert(source In) Out\n}\n\n// goverter:converter\ntype B interface {\n\tConvert(source In) Out\n}\n\n// goverter:converter\ntype C interface {\n\tConvert(source In) Out\n}\ntype In struct{ A int }\ntype Out struct{ A int }\n")
	for _, cons := range [][]string{nil, {"-build-tags", "gen", "-output-constraint", "!gen"}} {
		os.RemoveAll(filepath.Join(e.dir, "two/generated"))
		code, _, se = e.run(append(append([]string{"gen"}, cons...), "./two")...)
		b, _ = os.ReadFile(filepath.Join(e.dir, "two/generated/generated.go"))
		if n := strings.Count(string(b), "//go:build"); code != 0 || n != 1 {
			bad = append(bad, fmt.Sprintf("three converters in one file: exit %d, %d //go:build lines (want 1): %s", code, n, firstLine(se)))
		}
		if n := strings.Count(string(b), "DO NOT EDIT"); n != 1 {
			bad = append(bad, fmt.Sprintf("three converters in one file: %d header lines", n))
		}
		if out, err := e.goBuild("./two/..."); err != nil {
			bad = append(bad, "three converters in one file: generated package does not compile: "+firstLine(out))
		}
	}
	// several output files in one output package: every one of them carries the constraint
	e.write("twof/in.go", "package twof\n\n// goverter:converter\n// goverter:output:file ./a.gen.go\n// goverter:output:package e2e/twof\ntype A interface {\n\tConvert(source In) Out\n}\n\n// goverter:converter\n// goverter:output:file ./b.gen.go\n// goverter:output:package e2e/twof\ntype B interface {\n\tConvert(source In) Out\n}\n\n// goverter:converter\n// goverter:output:file ./sub/c.gen.go\n// goverter:output:package e2e/twof/sub\ntype C3 interface {\n\tConvert(source In) Out\n}\ntype In struct{ A int }\ntype Out struct{ A int }\n")
	for _, cons := range [][]string{nil, {"-build-tags", "codegen", "-output-constraint", "!codegen"}} {
		want := "//go:build !goverter"
		if cons != nil {
			want = "//go:build !codegen"
		}
		for _, f := range []string{"a.gen.go", "b.gen.go", "sub/c.gen.go"} {
			os.Remove(filepath.Join(e.dir, "twof", f))
		}
		code, _, se = e.run(append(append([]string{"gen"}, cons...), "./twof")...)
		for _, f := range []string{"a.gen.go", "b.gen.go", "sub/c.gen.go"} {
			b, _ = os.ReadFile(filepath.Join(e.dir, "twof", f))
			ls := strings.Split(string(b), "\n")
			if code != 0 || len(ls) < 2 || ls[1] != want {
				bad = append(bad, fmt.Sprintf("output file %s of a package with several output files: exit %d, second line %q, want %q: %s", f, code, strings.Join(ls[1:min(2, len(ls))], ""), want, firstLine(se)))
			}
		}
	}
	os.RemoveAll(filepath.Join(e.dir, "twof"))
	// a variables block carries the constraint as well, and outdated output never blocks regeneration
	vars := "package vars\n\n// goverter:variables\nvar (\n\tConvert func(source In) Out\n)\n\ntype In struct{ NAME int }\ntype Out struct{ NAME int }\n"
	for _, cons := range [][]string{nil, {"-build-tags", "gen", "-output-constraint", "!gen"}} {
		want := "//go:build !goverter"
		if cons != nil {
			want = "//go:build !gen"
		}
		os.RemoveAll(filepath.Join(e.dir, "vars"))
		e.write("vars/in.go", strings.ReplaceAll(vars, "NAME", "A"))
		code, _, se = e.run(append(append([]string{"gen"}, cons...), "./vars")...)
		b, _ = os.ReadFile(filepath.Join(e.dir, "vars/in.gen.go"))
		ls := strings.Split(string(b), "\n")
		if code != 0 || len(ls) < 2 || ls[1] != want {
			bad = append(bad, fmt.Sprintf("variables block: exit %d, second line %q, want %q: %s", code, strings.Join(ls[1:min(2, len(ls))], ""), want, firstLine(se)))
		}
		e.write("vars/in.go", strings.ReplaceAll(vars, "NAME", "Renamed"))
		code, _, se = e.run(append(append([]string{"gen"}, cons...), "./vars")...)
		if code != 0 {
			bad = append(bad, "variables block: outdated output blocks regeneration: "+firstLine(se))
		}
	}
	// several build tags: both package loads must see all of them; output in the same package as the
	// interface, previous output broken / outdated
	same := "package same\n\n// goverter:converter\n// goverter:output:file ./generated.go\n// goverter:output:package e2e/same\n// goverter:extend Custom\ntype C interface {\n\tConvert(source In) Out\n}\ntype In struct{ A int }\ntype Out struct{ A string }\n\nfunc Custom(i int) string { return \"\" }\n"
	e.write("same/in.go", same)
	for _, tags := range []string{"goverter,sqlite", "sqlite,goverter", "goverter"} {
		e.write("same/generated.go", "// Code generated by github.com/jmattheis/goverter, DO NOT EDIT.\n//go:build !goverter\n\npackage same\n\nfunc broken( {\n")
		code, _, se = e.run("gen", "-build-tags", tags, "./same")
		if code != 0 {
			bad = append(bad, fmt.Sprintf("-build-tags %s: broken previous output in the same package blocks regeneration: %s", tags, firstLine(se)))
		}
	}
	return bad, nil
}

// e2eStale: whatever the previous content of the output file, a successful run leaves exactly the bytes
// of a clean generation.
func e2eStale(e *e2eEnv, pkg string) []string {
	var bad []string
	out := filepath.Join(e.dir, pkg, "generated/generated.go")
	os.RemoveAll(filepath.Dir(out))
	if code, _, se := e.run("gen", "./"+pkg); code != 0 {
		return []string{"clean generation fails: " + firstLine(se)}
	}
	clean, _ := os.ReadFile(out)
	variants := map[string]string{
		"the new output followed by stale text": string(clean) + "\nfunc stale( {\n",
		"a longer unrelated file":               "// Code generated by github.com/jmattheis/goverter, DO NOT EDIT.\n//go:build !goverter\n\npackage generated\n\n" + strings.Repeat("// stale line\n", 200),
		"a prefix of the new output":            string(clean[:len(clean)/2]),
		"an empty file":                         "",
		"garbage of exactly the new length":     strings.Repeat("x", len(clean)),
	}
	var names []string
	for n := range variants {
		names = append(names, n)
	}
	sort.Strings(names)
	for _, n := range names {
		os.WriteFile(out, []byte(variants[n]), 0o644)
		code, _, se := e.run("gen", "./"+pkg)
		got, _ := os.ReadFile(out)
		if code != 0 {
			bad = append(bad, "previous output = "+n+": run fails: "+firstLine(se))
		} else if string(got) != string(clean) {
			bad = append(bad, fmt.Sprintf("previous output = %s: file differs from a clean generation (%d vs %d bytes)", n, len(got), len(clean)))
		}
	}
	return bad
}

// e2eCustomCLI builds a program embedding cli.Run with an additional enum transformer (the documented way to
// extend goverter) and checks that the command-line options still reach generation.
func e2eCustomCLI(repo string, e *e2eEnv) []string {
	var bad []string
	dir := filepath.Join(e.dir, "customcli")
	os.MkdirAll(dir, 0o755)
	defer os.RemoveAll(dir)
	os.WriteFile(filepath.Join(dir, "go.mod"), []byte("module customcli\n\ngo 1.22\n\nrequire github.com/jmattheis/goverter v0.0.0\n\nreplace github.com/jmattheis/goverter => "+repo+"\n"), 0o644)
	if b, err := os.ReadFile(filepath.Join(repo, "go.sum")); err == nil {
		os.WriteFile(filepath.Join(dir, "go.sum"), b, 0o644)
	}
	os.WriteFile(filepath.Join(dir, "main.go"), []byte("package main\n\nimport (\n\t\"os\"\n\n\t\"github.com/jmattheis/goverter/cli\"\n\t\"github.com/jmattheis/goverter/enum\"\n)\n\nfunc main() {\n\tcli.Run(os.Args, cli.RunOpts{EnumTransformers: map[string]enum.Transformer{\"mine\": func(enum.TransformContext) (map[string]string, error) { return map[string]string{}, nil }}})\n}\n"), 0o644)
	bin := filepath.Join(e.dir, "customcli-bin")
	cmd := exec.Command("go", "build", "-o", bin, ".")
	cmd.Dir = dir
	cmd.Env = append(os.Environ(), "GOFLAGS=-mod=mod", "GOPROXY=off", "GOSUMDB=off", "GOTOOLCHAIN=local")
	if b, err := cmd.CombinedOutput(); err != nil {
		// not a deviation of goverter: the embedding program could not be built here
		fmt.Fprintln(os.Stderr, "e2e: custom cli not built:", firstLine(string(b)))
		return nil
	}
	defer os.Remove(bin)
	saved := e.bin
	e.bin = bin
	defer func() { e.bin = saved }()
	out := filepath.Join(e.dir, "good/generated/generated.go")
	for _, c := range []struct {
		args []string
		want string
	}{
		{[]string{"gen", "./good"}, "//go:build !goverter"},
		{[]string{"gen", "-output-constraint", "custom && !goverter", "./good"}, "//go:build custom && !goverter"},
	} {
		os.RemoveAll(filepath.Dir(out))
		code, _, se := e.run(c.args...)
		b, _ := os.ReadFile(out)
		ls := strings.Split(string(b), "\n")
		if code != 0 {
			bad = append(bad, "embedding cli with a custom transformer: run fails: "+firstLine(se))
		} else if len(ls) < 2 || ls[1] != c.want {
			bad = append(bad, fmt.Sprintf("embedding cli with a custom transformer: second line %q, want %q", strings.Join(ls[1:min(2, len(ls))], ""), c.want))
		}
	}
	// -g and -cwd are honoured as well
	os.RemoveAll(filepath.Dir(out))
	code, _, se := e.run("gen", "-g", "output:file ./gen2/out.go", "-g", "output:package e2e/good/gen2", "./good")
	if _, err := os.Stat(filepath.Join(e.dir, "good/gen2/out.go")); code != 0 || err != nil {
		bad = append(bad, "embedding cli with a custom transformer: -g lines are not honoured: "+firstLine(se))
	}
	os.RemoveAll(filepath.Join(e.dir, "good/gen2"))
	return bad
}

// e2eExistingPackage: the output directory holds a hand-written file of a package named differently from the
// directory, which refers to code that is generated: clean tree, second run and a run over outdated output give
// the same bytes, with the existing package's name in the package clause.
func e2eExistingPackage(e *e2eEnv) []string {
	var bad []string
	hist := "package hist\n\n// goverter:converter\n// goverter:output:file ./out/conv.gen.go\ntype C interface {\n\tConvert(source In) Out\n}\ntype In struct{ FIELD int }\ntype Out struct{ FIELD int }\n"
	e.write("hist/in.go", strings.ReplaceAll(hist, "FIELD", "A"))
	e.write("hist/out/api.go", "package mypkg\n\nimport \"e2e/hist\"\n\n// New returns the converter.\nfunc New() hist.C { return &CImpl{} }\n")
	var outs3 []string
	for i := 0; i < 3; i++ {
		if i == 2 {
			// outdated output: generated for another field name
			e.write("hist/in.go", strings.ReplaceAll(hist, "FIELD", "B"))
			e.run("gen", "./hist")
			e.write("hist/in.go", strings.ReplaceAll(hist, "FIELD", "A"))
		}
		code, _, se := e.run("gen", "./hist")
		b, _ := os.ReadFile(filepath.Join(e.dir, "hist/out/conv.gen.go"))
		outs3 = append(outs3, fmt.Sprintf("%d|%s|%s", code, firstLine(se), b))
	}
	if outs3[0] != outs3[1] || outs3[0] != outs3[2] || !strings.Contains(outs3[0], "\npackage mypkg\n") {
		bad = append(bad, "output next to a hand-written file (package mypkg in directory out) that needs the generated code: first run, second run and a run over outdated output differ, or the package clause is not the existing package's")
	}
	return bad
}

func isPrintable(s string) bool {
	for _, c := range s {
		if c < 0x21 || c > 0x7e {
			return false
		}
	}
	return true
}

func e2eC15(repo, dir string, vals map[string]string) ([]string, error) {
	e, err := newE2E(repo, dir)
	if err != nil {
		return nil, err
	}
	var bad []string
	e.write("a/in.go", "package a\n\n// goverter:converter\n// goverter:output:file ../out/gen.go\n// goverter:output:package e2e/out\ntype C interface {\n\tConvert(source In) Out\n}\n\n// goverter:converter\n// goverter:output:file ../out/gen.go\n// goverter:output:package e2e/out\ntype D interface {\n\tConvert(source In) Out\n}\ntype In struct{ A int }\ntype Out struct{ A int }\n")
	before := e.tree()
	code, _, se := e.run("gen", "./a")
	if code != 0 {
		bad = append(bad, "shared output file rejected: "+firstLine(se))
	}
	after := e.tree()
	var created []string
	for k := range after {
		if _, ok := before[k]; !ok {
			created = append(created, k)
		}
	}
	sort.Strings(created)
	if strings.Join(created, ",") != "out/,out/gen.go" {
		bad = append(bad, "files created: "+strings.Join(created, ",")+" (want out/, out/gen.go)")
	}
	if !strings.HasPrefix(after["out/gen.go"], "-rw-r--r--:") {
		bad = append(bad, "mode of new file: "+strings.SplitN(after["out/gen.go"], ":", 2)[0])
	}
	if after["out/"] != "drwxr-xr-x" {
		bad = append(bad, "mode of new directory: "+after["out/"])
	}
	if !strings.Contains(after["out/gen.go"], "type CImpl struct") || !strings.Contains(after["out/gen.go"], "type DImpl struct") || !strings.Contains(after["out/gen.go"], "\npackage out\n") {
		bad = append(bad, "converters sharing a file are not merged into one well-formed file")
	}
	e.write("b/in.go", "package b\n\n// goverter:converter\n// goverter:output:file ../out2/gen.go\n// goverter:output:package e2e/out2\ntype C interface {\n\tConvert(source In) Out\n}\n\n// goverter:converter\n// goverter:output:file ../out2/gen.go\n// goverter:output:package e2e/other:other\ntype D interface {\n\tConvert(source In) Out\n}\ntype In struct{ A int }\ntype Out struct{ A int }\n")
	code, _, _ = e.run("gen", "./b")
	if code != 1 {
		bad = append(bad, "same file with different packages accepted")
	}
	if _, err := os.Stat(filepath.Join(e.dir, "out2")); err == nil {
		bad = append(bad, "conflicting run wrote files")
	}
	// same file, same package path, different package names
	e.write("c/in.go", "package c2\n\n// goverter:converter\n// goverter:output:file ../out3/gen.go\n// goverter:output:package e2e/out3:foo\ntype C interface {\n\tConvert(source In) Out\n}\n\n// goverter:converter\n// goverter:output:file ../out3/gen.go\n// goverter:output:package e2e/out3:bar\ntype D interface {\n\tConvert(source In) Out\n}\ntype In struct{ A int }\ntype Out struct{ A int }\n")
	code, _, _ = e.run("gen", "./c")
	if code != 1 {
		bad = append(bad, "same file with the same package path but different package names accepted")
	}
	// a converter declared in a file that imports "C": the declaring file is the user's file (the parsed file is the
	// cgo-processed copy in the build cache, its //line directives point back), the output lands next to it
	if _, err := exec.LookPath("cc"); err == nil {
		if out, err := exec.Command("go", "env", "CGO_ENABLED").Output(); err == nil && strings.TrimSpace(string(out)) == "1" {
			e.write("cg/in.go", "package cg\n\n// #include <stdlib.h>\nimport \"C\"\n\nvar _ = C.size_t(0)\n\n// goverter:converter\ntype C2 interface {\n\tConvert(source In) Out\n}\ntype In struct{ A int }\ntype Out struct{ A int }\n")
			code, _, se = e.run("gen", "./cg")
			if _, err := os.Stat(filepath.Join(e.dir, "cg/generated/generated.go")); code != 0 || err != nil {
				bad = append(bad, "converter declared in a cgo file: ./generated/generated.go is not written next to the source: "+firstLine(se))
			}
			os.RemoveAll(filepath.Join(e.dir, "cg"))
		}
	}
	bad = append(bad, e2eExtendOrder(e)...)
	// output directories whose names start alike (out, out-v2, out.v3; nested conv / conv-legacy/x): every one is created
	{
		src := "package sibd\n\n"
		for i, d := range []string{"out", "out-v2", "out.v3", "api/conv", "api/conv-legacy/x"} {
			src += fmt.Sprintf("// goverter:converter\n// goverter:output:file ../sibout/%s/gen.go\ntype C%d interface {\n\tConvert(source In) Out\n}\n\n", d, i)
		}
		e.write("sibd/in.go", src+"type In struct{ A int }\ntype Out struct{ A int }\n")
		code, _, se = e.run("gen", "./sibd")
		for _, d := range []string{"out", "out-v2", "out.v3", "api/conv", "api/conv-legacy/x"} {
			if _, err := os.Stat(filepath.Join(e.dir, "sibout", d, "gen.go")); code != 0 || err != nil {
				bad = append(bad, "output directories with a common name prefix: sibout/"+d+"/gen.go is not written: "+firstLine(se))
				break
			}
		}
		os.RemoveAll(filepath.Join(e.dir, "sibd"))
		os.RemoveAll(filepath.Join(e.dir, "sibout"))
	}
	// modes of new files and directories do not depend on a permissive umask: 0644 and 0755 are what is asked for
	for _, um := range []string{"000", "002"} {
		os.RemoveAll(filepath.Join(e.dir, "um"))
		e.write("um/in.go", "package um\n\n// goverter:converter\ntype C interface {\n\tConvert(source In) Out\n}\ntype In struct{ A int }\ntype Out struct{ A int }\n")
		cmd := exec.Command("sh", "-c", "umask "+um+"; exec \"$0\" gen ./um", e.bin)
		cmd.Dir = e.dir
		cmd.Env = append(os.Environ(), "GOFLAGS=-mod=mod", "GOPROXY=off", "GOSUMDB=off", "GOTOOLCHAIN=local")
		out, err := cmd.CombinedOutput()
		fi, err2 := os.Stat(filepath.Join(e.dir, "um/generated/generated.go"))
		di, err3 := os.Stat(filepath.Join(e.dir, "um/generated"))
		if err != nil || err2 != nil || err3 != nil {
			bad = append(bad, "umask "+um+": generation failed: "+firstLine(string(out)))
		} else if fi.Mode().Perm() != 0o644 || di.Mode().Perm() != 0o755 {
			bad = append(bad, fmt.Sprintf("umask %s: new file has mode %o (want 644), new directory %o (want 755)", um, fi.Mode().Perm(), di.Mode().Perm()))
		}
	}
	os.RemoveAll(filepath.Join(e.dir, "um"))
	// a package name equal to the directory name is still a name: the unnamed converter gets the normalised one
	e.write("c4/in.go", "package c4\n\n// goverter:converter\n// goverter:output:file ../my_out/gen.go\n// goverter:output:package e2e/my_out:my_out\ntype C interface {\n\tConvert(source In) Out\n}\n\n// goverter:converter\n// goverter:output:file ../my_out/gen.go\ntype D interface {\n\tConvert(source In) Out\n}\ntype In struct{ A int }\ntype Out struct{ A int }\n")
	code, _, _ = e.run("gen", "./c4")
	if code != 1 {
		bad = append(bad, "same file, package e2e/my_out:my_out (package my_out) and no package (package myout) accepted")
	}
	os.RemoveAll(filepath.Join(e.dir, "my_out"))
	// the name given by output:package survives an output:file line below it (variables block and interface)
	e.write("ord/in.go", "package ord\n\n// goverter:variables\n// goverter:output:package :custom\n// goverter:output:file ../ordout/conv.go\nvar (\n\tConvert func(source In) Out\n)\n\n// goverter:converter\n// goverter:output:package :custom2\n// goverter:output:file ../ordout2/conv.go\ntype C interface {\n\tConvert(source In) Out\n}\ntype In struct{ A int }\ntype Out struct{ A int }\n")
	code, _, se = e.run("gen", "./ord")
	o1, _ := os.ReadFile(filepath.Join(e.dir, "ordout/conv.go"))
	o2, _ := os.ReadFile(filepath.Join(e.dir, "ordout2/conv.go"))
	if code != 0 || !strings.Contains(string(o1), "\npackage custom\n") || !strings.Contains(string(o2), "\npackage custom2\n") {
		bad = append(bad, "output:package :name written above output:file is forgotten: "+firstLine(se))
	}
	bad = append(bad, e2eExistingPackage(e)...)
	// the same relative output:file (and the same explicit package) written in two directories names two files
	for _, d := range []string{"rel1", "rel2"} {
		e.write("twodirs/"+d+"/in.go", "package "+d+"\n\n// goverter:converter\n// goverter:output:file ./gen/conv.go\n// goverter:output:package e2e/twodirs/shared:shared\ntype Conv interface {\n\tConvert(source In) Out\n}\ntype In struct{ A int }\ntype Out struct{ A int }\n")
	}
	code, _, se = e.run("gen", "./twodirs/...")
	for _, d := range []string{"rel1", "rel2"} {
		b, err := os.ReadFile(filepath.Join(e.dir, "twodirs", d, "gen/conv.go"))
		if code != 0 || err != nil || !strings.Contains(string(b), "e2e/twodirs/"+d+"\"") || strings.Count(string(b), "type ConvImpl struct") != 1 {
			bad = append(bad, "converters of two directories with the same relative output:file: "+d+"/gen/conv.go missing or not holding exactly its own converter: "+firstLine(se))
		}
	}
	// inferred package names are valid identifiers (directory names with leading digits, dashes, dots)
	for dirName, want := range map[string]string{"2fa": "fa", "my-gen.v2": "mygenv2"} {
		e.write("odd/in.go", "package odd\n\n// goverter:converter\n// goverter:output:file ./"+dirName+"/conv.go\ntype C interface {\n\tConvert(source In) Out\n}\ntype In struct{ A int }\ntype Out struct{ A int }\n")
		code, _, se = e.run("gen", "./odd")
		b, _ := os.ReadFile(filepath.Join(e.dir, "odd", dirName, "conv.go"))
		if code != 0 || !strings.Contains(string(b), "\npackage "+want+"\n") {
			bad = append(bad, fmt.Sprintf("output directory %q: exit %d, package clause is not `package %s`: %s", dirName, code, want, firstLine(se)))
		}
	}
	// an explicit package name wins over the name of the package that already exists at the location
	e.write("xt/in.go", "package xt\n\n// goverter:converter\n// goverter:output:file ./generated_test.go\n// goverter:output:package e2e/xt_test:xt_test\ntype C interface {\n\tConvert(source In) Out\n}\ntype In struct{ A int }\ntype Out struct{ A int }\n")
	code, _, se = e.run("gen", "./xt")
	if b, _ := os.ReadFile(filepath.Join(e.dir, "xt/generated_test.go")); code != 0 || !strings.Contains(string(b), "\npackage xt_test\n") {
		bad = append(bad, "explicit output:package ...:xt_test next to the existing package xt: exit "+fmt.Sprint(code)+", package clause is not the explicit name: "+firstLine(se))
	}
	os.RemoveAll(filepath.Join(e.dir, "xt"))
	// a variables block lands next to the file that declares it, not next to the first file of the package
	e.write("vf/a_types.go", "package vf\n\ntype In struct{ A int }\ntype Out struct{ A int }\n")
	e.write("vf/mapping.go", "package vf\n\n// goverter:variables\nvar (\n\tConvert func(source In) Out\n)\n")
	e.write("vf/z_more.go", "package vf\n\n// goverter:variables\nvar (\n\tConvert2 func(source In) Out\n)\n")
	code, _, se = e.run("gen", "./vf")
	_, e1 := os.Stat(filepath.Join(e.dir, "vf/mapping.gen.go"))
	_, e2 := os.Stat(filepath.Join(e.dir, "vf/z_more.gen.go"))
	_, e3 := os.Stat(filepath.Join(e.dir, "vf/a_types.gen.go"))
	if code != 0 || e1 != nil || e2 != nil || e3 == nil {
		bad = append(bad, "variables blocks in the second and third file of a package: mapping.gen.go / z_more.gen.go missing or a_types.gen.go written: "+firstLine(se))
	}
	os.RemoveAll(filepath.Join(e.dir, "vf"))
	bad = append(bad, e2eTwoVariableBlocks(e)...)
	// two spellings of one absolute output:file select one file: both converters are in it
	abs1, abs2 := filepath.Join(e.dir, "ab/gen")+"/../gen/g.go", filepath.Join(e.dir, "ab/gen/g.go")
	e.write("ab/in.go", "package ab\n\n// goverter:converter\n// goverter:output:file "+abs1+"\n// goverter:output:package e2e/ab/gen\ntype A interface {\n\tConvert(source In) Out\n}\n\n// goverter:converter\n// goverter:output:file "+abs2+"\n// goverter:output:package e2e/ab/gen\ntype B interface {\n\tConvert(source In) Out\n}\ntype In struct{ A int }\ntype Out struct{ A int }\n")
	code, _, se = e.run("gen", "./ab")
	if b, _ := os.ReadFile(filepath.Join(e.dir, "ab/gen/g.go")); code != 0 || strings.Count(string(b), "Impl struct") != 2 {
		bad = append(bad, "two spellings of one absolute output:file: the file does not hold both converters: "+firstLine(se))
	}
	os.RemoveAll(filepath.Join(e.dir, "ab"))
	// a variables block written to a file in another directory, without output:package: the package is inferred
	// from that location like for an interface (existing package name, qualified references)
	e.write("vo/a/in.go", "package a\n\ntype In struct{ A int }\ntype Out struct{ A int }\n\n// goverter:variables\n// goverter:output:file ../b/x.go\nvar (\n\tConvert func(source In) Out\n)\n")
	e.write("vo/b/doc.go", "package bee\n")
	code, _, se = e.run("gen", "./vo/a")
	b0, _ := os.ReadFile(filepath.Join(e.dir, "vo/b/x.go"))
	out0, berr := e.goBuild("./vo/...")
	if code != 0 || !strings.Contains(string(b0), "\npackage bee\n") || berr != nil {
		bad = append(bad, "variables block with output:file in another directory and no output:package: exit "+fmt.Sprint(code)+", package clause is not the existing package's or the result does not compile: "+firstLine(se)+firstLine(out0))
	}
	os.RemoveAll(filepath.Join(e.dir, "vo"))
	// @cwd/ output into a sibling directory whose name merely starts like the declaring directory's
	e.write("pre/conv/in.go", "package conv\n\n// goverter:converter\n// goverter:output:file @cwd/pre/convgen/generated.go\ntype C interface {\n\tConvert(source In) Out\n}\ntype In struct{ A int }\ntype Out struct{ A int }\n")
	e.write("pre/convgen/doc.go", "package shared\n")
	code, _, se = e.run("gen", "./pre/conv")
	if b, _ := os.ReadFile(filepath.Join(e.dir, "pre/convgen/generated.go")); code != 0 || !strings.Contains(string(b), "\npackage shared\n") {
		bad = append(bad, "@cwd/ output into the sibling directory convgen of conv (existing package shared): exit "+fmt.Sprint(code)+", package clause is not the existing package's: "+firstLine(se))
	}
	os.RemoveAll(filepath.Join(e.dir, "pre"))
	// the modes are requested before the umask: a stricter umask of the process still applies
	e.write("um/in.go", "package um\n\n// goverter:converter\ntype C interface {\n\tConvert(source In) Out\n}\ntype In struct{ A int }\ntype Out struct{ A int }\n")
	for _, um := range []struct{ mask, file, dir string }{{"027", "-rw-r-----", "drwxr-x---"}, {"077", "-rw-------", "drwx------"}} {
		os.RemoveAll(filepath.Join(e.dir, "um/generated"))
		cmd := exec.Command("sh", "-c", "umask "+um.mask+" && exec \"$0\" gen ./um", e.bin)
		cmd.Dir = e.dir
		cmd.Env = append(os.Environ(), "GOFLAGS=-mod=mod", "GOPROXY=off", "GOSUMDB=off", "GOTOOLCHAIN=local")
		out, err := cmd.CombinedOutput()
		fi, err1 := os.Stat(filepath.Join(e.dir, "um/generated/generated.go"))
		di, err2 := os.Stat(filepath.Join(e.dir, "um/generated"))
		if err != nil || err1 != nil || err2 != nil {
			bad = append(bad, "run under umask "+um.mask+" fails: "+firstLine(string(out)))
		} else if fi.Mode().String() != um.file || di.Mode().String() != um.dir {
			bad = append(bad, fmt.Sprintf("under umask %s the new file is %s and the new directory %s (want %s, %s: 0644 / 0755 before umask)", um.mask, fi.Mode(), di.Mode(), um.file, um.dir))
		}
	}
	os.RemoveAll(filepath.Join(e.dir, "um"))
	// @cwd/ with a relative -cwd lands under the working directory
	sub, err2 := newE2E(repo, filepath.Join(dir, "rel"))
	if err2 == nil {
		sub.write("mod/go.mod", "module relmod\n\ngo 1.22\n")
		sub.write("mod/pkg1/in.go", "package pkg1\n\n// goverter:converter\n// goverter:output:file @cwd/generated/output.go\n// goverter:output:package relmod/generated\ntype C interface {\n\tConvert(source In) Out\n}\ntype In struct{ A int }\ntype Out struct{ A int }\n")
		code, _, se := sub.run("gen", "-cwd", "./mod", "./...")
		if code != 0 {
			bad = append(bad, "relative -cwd run fails: "+firstLine(se))
		}
		if _, err := os.Stat(filepath.Join(sub.dir, "mod/generated/output.go")); err != nil {
			bad = append(bad, "@cwd/ output with a relative -cwd is not written below the working directory")
		}
		if _, err := os.Stat(filepath.Join(sub.dir, "mod/pkg1/mod")); err == nil {
			bad = append(bad, "@cwd/ output with a relative -cwd created a stray directory below the declaring package")
		}
		os.Remove(sub.bin)
	}
	// the package clause of a file written into a directory that already holds a package is that package's name -
	// also when it differs from the directory name and output:package gives a path only (the path of that directory,
	// or - a slip of the user - the path of another package that happens to be loaded)
	for i, pkgLine := range []string{"e2e/clause/conv/out", "e2e/clause/lib"} {
		os.RemoveAll(filepath.Join(e.dir, "clause"))
		e.write("clause/lib/lib.go", "package helpers\n\nfunc IntToString(i int) string { return \"\" }\n")
		e.write("clause/conv/out/doc.go", "package outpkg\n\ntype Input struct{ ID int }\ntype Output struct{ ID string }\n")
		e.write("clause/conv/conv.go", "package conv\n\nimport \"e2e/clause/conv/out\"\n\n// goverter:converter\n// goverter:output:file ./out/gen.go\n// goverter:output:package "+pkgLine+"\n// goverter:extend e2e/clause/lib:IntToString\ntype Converter interface {\n\tConvert(source outpkg.Input) outpkg.Output\n}\n")
		code, _, se := e.run("gen", "./clause/conv")
		b, _ := os.ReadFile(filepath.Join(e.dir, "clause/conv/out/gen.go"))
		if code == 0 && !strings.Contains(string(b), "\npackage outpkg\n") {
			bad = append(bad, fmt.Sprintf("output into a directory that holds package outpkg (output:package %s, case %d): the file does not say package outpkg: %s", pkgLine, i, firstLine(se)))
		}
	}
	os.RemoveAll(filepath.Join(e.dir, "clause"))
	return bad, nil
}

// e2eTwoVariableBlocks: two variables blocks in two files of one package that need a helper for the same nested pair:
// helper names are unique within the package, it compiles.
func e2eTwoVariableBlocks(e *e2eEnv) []string {
	var bad []string
	e.write("tv/types.go", "package tv\n\ntype Inner struct{ V int }\ntype OutInner struct{ V int }\ntype A struct{ I Inner }\ntype AO struct{ I OutInner }\ntype B struct {\n\tI Inner\n\tN int\n}\ntype BO struct {\n\tI OutInner\n\tN int\n}\n")
	e.write("tv/a.go", "package tv\n\n// goverter:variables\nvar (\n\tConvA func(source A) AO\n)\n")
	e.write("tv/b.go", "package tv\n\n// goverter:variables\nvar (\n\tConvB func(source B) BO\n)\n")
	if code, _, se := e.run("gen", "./tv"); code != 0 {
		bad = append(bad, "two variables blocks in two files: run fails: "+firstLine(se))
	} else if out, err := e.goBuild("./tv/..."); err != nil {
		bad = append(bad, "two variables blocks in two files of one package needing a helper for the same pair: the package does not compile: "+firstLine(out))
	}
	os.RemoveAll(filepath.Join(e.dir, "tv"))
	return bad
}

// e2eExtendOrder: extend lines are resolved after all lines of the converter were read - against the final output
// package - while the converter's methods inherit the settings as they are at the end of the comment.
func e2eExtendOrder(e *e2eEnv) []string {
	var bad []string
	e.write("eo/in.go", "package eo\n\n// goverter:converter\n// goverter:extend Itoa\n// goverter:arg:context:regex ^ctx\ntype C interface {\n\tConvert(ctxLang Lang, source In) Out\n}\ntype Lang string\ntype In struct{ A int }\ntype Out struct{ A string }\n\nfunc Itoa(i int) string { return \"\" }\n")
	if code, _, se := e.run("gen", "./eo"); code != 0 {
		bad = append(bad, "arg:context:regex written below an extend line is not inherited by the converter's methods: "+firstLine(se))
	}
	e.write("eo/in.go", "package eo\n\n// goverter:converter\n// goverter:arg:context:regex ^old\n// goverter:extend Itoa\n// goverter:arg:context:regex ^ctx\ntype C interface {\n\tConvert(oldName string, ctxPrefix string) Label\n}\ntype Label string\n\nfunc Itoa(i int) string { return \"\" }\n")
	code, _, _ := e.run("gen", "./eo")
	b, _ := os.ReadFile(filepath.Join(e.dir, "eo/generated/generated.go"))
	if code == 0 && !strings.Contains(string(b), "Convert(source string, context string)") {
		bad = append(bad, "two arg:context:regex lines around an extend line: the methods do not use the last one")
	}
	os.RemoveAll(filepath.Join(e.dir, "eo"))
	// an unexported function of the declaring package while a later line moves the output elsewhere
	e.write("eo2/in.go", "package eo2\n\n// goverter:variables\n// goverter:extend itoa\n// goverter:output:file ../eo2out/x.go\nvar (\n\tConvert func(source In) Out\n)\ntype In struct{ A int }\ntype Out struct{ A string }\n\nfunc itoa(i int) string { return \"\" }\n")
	if code, _, _ := e.run("gen", "./eo2"); code != 1 {
		if out, err := e.goBuild("./eo2out/..."); err != nil {
			bad = append(bad, "unexported extend function of the declaring package accepted although output:file (below the extend line) moves the output elsewhere: "+firstLine(out))
		}
	}
	os.RemoveAll(filepath.Join(e.dir, "eo2"))
	os.RemoveAll(filepath.Join(e.dir, "eo2out"))
	return bad
}

// e2eC14: roles of parameters as the real binary sees them.
func e2eC14(repo, dir string, vals map[string]string) ([]string, error) {
	e, err := newE2E(repo, dir)
	if err != nil {
		return nil, err
	}
	return e2eExtendOrder(e), nil
}

// e2eC01: programs whose output spans several files of one package compile: helper names are unique per output
// package whichever source package, file or format the converters come from.
func e2eC01(repo, dir string, vals map[string]string) ([]string, error) {
	e, err := newE2E(repo, dir)
	if err != nil {
		return nil, err
	}
	bad := e2eTwoVariableBlocks(e)
	// two converters declared in two source packages, function format, two files of one output package
	e.write("model/model.go", "package model\n\ntype Inner struct{ V int }\ntype OutInner struct{ V int }\ntype A struct{ I Inner }\ntype AO struct{ I OutInner }\ntype B struct {\n\tI Inner\n\tN int\n}\ntype BO struct {\n\tI OutInner\n\tN int\n}\n")
	for _, p := range []struct{ pkg, src, tgt string }{{"sa", "A", "AO"}, {"sb", "B", "BO"}} {
		e.write(p.pkg+"/in.go", "package "+p.pkg+"\n\nimport \"e2e/model\"\n\n// goverter:converter\n// goverter:output:format function\n// goverter:output:file ../shared/"+p.pkg+".gen.go\n// goverter:output:package e2e/shared\ntype C interface {\n\tConv"+p.src+"(source model."+p.src+") model."+p.tgt+"\n}\n")
	}
	if code, _, se := e.run("gen", "./sa", "./sb"); code != 0 {
		bad = append(bad, "two function-format converters of two source packages writing two files of one output package: run fails: "+firstLine(se))
	} else if out, err := e.goBuild("./shared/..."); err != nil {
		bad = append(bad, "two function-format converters of two source packages writing two files of one output package: the package does not compile: "+firstLine(out))
	}
	// two converters that declare one package level name in one output package: a diagnostic, not a package that
	// does not compile
	e.write("dup/in.go", "package dup\n\n// goverter:converter\n// goverter:output:format function\ntype A interface {\n\tConvert(source In) Out\n}\n\n// goverter:converter\n// goverter:output:format function\ntype B interface {\n\tConvert(source Out) In\n}\ntype In struct{ N int }\ntype Out struct{ N int }\n")
	if code, _, se := e.run("gen", "./dup"); code != 1 || strings.TrimSpace(se) == "" {
		if out, err := e.goBuild("./dup/..."); err != nil {
			bad = append(bad, "two function-format converters declaring Convert in one output package: accepted, the package does not compile: "+firstLine(out))
		}
	}
	e.write("dup3/in.go", "package dup3\n\n// goverter:converter\n// goverter:name Convert\ntype A interface {\n\tToOut(source In) Out\n}\n\n// goverter:converter\n// goverter:output:format function\ntype B interface {\n\tConvert(source Out) In\n}\ntype In struct{ N int }\ntype Out struct{ N int }\n")
	if code, _, se := e.run("gen", "./dup3"); code != 1 || strings.TrimSpace(se) == "" {
		if out, err := e.goBuild("./dup3/..."); err != nil {
			bad = append(bad, "a struct-format converter named Convert and a function-format converter declaring Convert in one output package: accepted, the package does not compile: "+firstLine(out))
		}
	}
	e.write("dup2/in.go", "package dup2\n\n// goverter:converter\n// goverter:name Same\ntype A interface {\n\tConvert(source In) Out\n}\n\n// goverter:converter\n// goverter:name Same\ntype B interface {\n\tConvert(source Out) In\n}\ntype In struct{ N int }\ntype Out struct{ N int }\n")
	if code, _, se := e.run("gen", "./dup2"); code != 1 || strings.TrimSpace(se) == "" {
		if out, err := e.goBuild("./dup2/..."); err != nil {
			bad = append(bad, "two converters named Same in one output package: accepted, the package does not compile: "+firstLine(out))
		}
	}
	// helper names are unique per output package, however the converters spell that package (with and without
	// the name) and whichever files they write
	e.write("pid/model/model.go", "package model\n\ntype In struct{ N int }\ntype Out struct{ N int }\n")
	e.write("pid/a/in.go", "package a\n\nimport \"e2e/pid/model\"\n\n// goverter:converter\n// goverter:output:format function\n// goverter:output:file ../gen/a.go\n// goverter:output:package e2e/pid/gen:gen\ntype A interface {\n\tConvertA(source []model.In) []model.Out\n}\n")
	e.write("pid/b/in.go", "package b\n\nimport \"e2e/pid/model\"\n\n// goverter:converter\n// goverter:output:format function\n// goverter:output:file ../gen/b.go\n// goverter:output:package e2e/pid/gen\ntype B interface {\n\tConvertB(source map[string]model.In) map[string]model.Out\n}\n")
	if code, _, _ := e.run("gen", "./pid/..."); code == 0 {
		if out, err := e.goBuild("./pid/..."); err != nil {
			bad = append(bad, "two function-format converters writing two files of one output package (spelled path:name and path): the package does not compile: "+firstLine(out))
		}
	}
	// ... also when they are written to two files of that package, from two source packages
	for _, d := range []string{"users", "orders"} {
		e.write("dup4/"+d+"/in.go", "package "+d+"\n\n// goverter:converter\n// goverter:output:file ../gen/"+d+".go\n// goverter:output:package e2e/dup4/gen\ntype Converter interface {\n\tConvert(source In) Out\n}\ntype In struct{ N int }\ntype Out struct{ N int }\n")
	}
	if code, _, se := e.run("gen", "./dup4/..."); code != 1 || strings.TrimSpace(se) == "" {
		if out, err := e.goBuild("./dup4/..."); err != nil {
			bad = append(bad, "two converters named Converter written to two files of one output package: accepted, the package does not compile: "+firstLine(out))
		}
	}
	return bad, nil
}

// e2eC09: regenerating over stale / longer / broken previous output gives the bytes of a clean generation,
// and repeated runs in fresh processes give identical bytes and diagnostics.
func e2eC09(repo, dir string, vals map[string]string) ([]string, error) {
	e, err := newE2E(repo, dir)
	if err != nil {
		return nil, err
	}
	var bad []string
	big := "package p\n\n// goverter:converter\ntype C interface {\n\tConvert(source In) Out\n\tConvert2(source []In) []Out\n\tConvert3(source map[string]In) map[string]Out\n}\ntype In struct{ A, B, C int }\ntype Out struct{ A, B, C int }\n"
	small := "package p\n\n// goverter:converter\ntype C interface {\n\tConvert(source In) Out\n}\ntype In struct{ A int }\ntype Out struct{ A int }\n"
	e.write("p/in.go", big)
	if code, _, se := e.run("gen", "./p"); code != 0 {
		return nil, fmt.Errorf("setup failed: %s", se)
	}
	e.write("p/in.go", small)
	e.run("gen", "./p")
	over, _ := os.ReadFile(filepath.Join(e.dir, "p/generated/generated.go"))
	os.RemoveAll(filepath.Join(e.dir, "p/generated"))
	e.run("gen", "./p")
	clean, _ := os.ReadFile(filepath.Join(e.dir, "p/generated/generated.go"))
	if string(over) != string(clean) {
		bad = append(bad, fmt.Sprintf("regenerating over a longer stale output differs from a clean generation (%d vs %d bytes)", len(over), len(clean)))
	}
	for i := 0; i < 8; i++ {
		e.run("gen", "./p")
		again, _ := os.ReadFile(filepath.Join(e.dir, "p/generated/generated.go"))
		if string(again) != string(clean) {
			bad = append(bad, "repeated run changed the output")
			break
		}
	}
	// a history that leaves another package clause in the (constrained, hence invisible) previous output: the
	// clause of the regenerated file is that of a clean generation
	hist := func(pkgLine string) string {
		return "package hp\n\n// goverter:converter\n" + pkgLine + "type C interface {\n\tConvert(source In) Out\n}\ntype In struct{ A int }\ntype Out struct{ A int }\n"
	}
	e.write("hp/in.go", hist("// goverter:output:package e2e/hp/generated:conv\n"))
	e.run("gen", "./hp")
	e.write("hp/in.go", hist(""))
	e.run("gen", "./hp")
	afterHistory, _ := os.ReadFile(filepath.Join(e.dir, "hp/generated/generated.go"))
	e.write("hp/generated/generated.go", "// Code generated by github.com/jmattheis/goverter, DO NOT EDIT.\n//go:build !goverter\n\npackage leftover\n\nfunc broken( {\n")
	e.run("gen", "./hp")
	afterBroken, _ := os.ReadFile(filepath.Join(e.dir, "hp/generated/generated.go"))
	os.RemoveAll(filepath.Join(e.dir, "hp/generated"))
	e.run("gen", "./hp")
	cleanHP, _ := os.ReadFile(filepath.Join(e.dir, "hp/generated/generated.go"))
	if string(afterHistory) != string(cleanHP) || string(afterBroken) != string(cleanHP) {
		bad = append(bad, "regenerating over a previous output with another package clause (an earlier output:package name / a broken file) differs from a clean generation")
	}
	os.RemoveAll(filepath.Join(e.dir, "hp"))
	// ... also when the previous output is visible to the loader (no output constraint; function and variables
	// formats, whose helpers are package level names of the output package)
	e.write("hn/in.go", "package hn\n\n// goverter:converter\n// goverter:output:format function\n// goverter:output:file ./hn.gen.go\n// goverter:output:package e2e/hn\ntype C interface {\n\tConvert(source Outer) OuterT\n}\n\n// goverter:variables\n// goverter:output:file ./hnv.gen.go\nvar (\n\tConvV func(source []Outer) []OuterT\n)\n\ntype Inner struct{ A int }\ntype InnerT struct{ A int }\ntype Outer struct {\n\tIn Inner\n\tL []Inner\n}\ntype OuterT struct {\n\tIn InnerT\n\tL []InnerT\n}\n")
	var hnFirst string
	for i := 0; i < 3; i++ {
		code, _, se := e.run("gen", "-output-constraint", "", "./hn")
		a, _ := os.ReadFile(filepath.Join(e.dir, "hn/hn.gen.go"))
		b, _ := os.ReadFile(filepath.Join(e.dir, "hn/hnv.gen.go"))
		cur := fmt.Sprintf("%d|%s|%s", code, a, b)
		if i == 0 {
			hnFirst = cur
			if code != 0 {
				bad = append(bad, "generation without output constraint fails: "+firstLine(se))
				break
			}
		} else if cur != hnFirst {
			bad = append(bad, fmt.Sprintf("run %d over the previous output (no output constraint, helpers at package level) differs from the clean generation: %s", i+1, firstLine(se)))
			break
		}
	}
	os.RemoveAll(filepath.Join(e.dir, "hn"))
	// four converters writing four files of one directory under different package names: whatever goverter makes
	// of that, every fresh process makes the same of it
	{
		src := "package od\n\n"
		for i, n := range []string{"alpha", "beta", "gamma", "delta"} {
			src += fmt.Sprintf("// goverter:converter\n// goverter:output:file ../odout/%s.go\n// goverter:output:package e2e/odout:%s\ntype C%d interface {\n\tConvert(source In) Out\n}\n\n", n, n, i)
		}
		e.write("od/in.go", src+"type In struct{ A int }\ntype Out struct{ A int }\n")
		douts := map[string]bool{}
		for i := 0; i < 24; i++ {
			os.RemoveAll(filepath.Join(e.dir, "odout"))
			code, _, se := e.run("gen", "./od")
			douts[fmt.Sprintf("%d|%s", code, se)] = true
		}
		if len(douts) > 1 {
			bad = append(bad, fmt.Sprintf("%d different outcomes in 24 fresh processes for four output files of one directory with different package names", len(douts)))
		}
		os.RemoveAll(filepath.Join(e.dir, "od"))
		os.RemoveAll(filepath.Join(e.dir, "odout"))
	}
	// several extend functions with the same signature found by one pattern: which one is used must not
	// depend on the process
	e.write("x/in.go", "package x\n\n// goverter:converter\n// goverter:extend Conv.*\ntype C interface {\n\tConvert(source In) Out\n}\ntype In struct{ A int }\ntype Out struct{ A string }\n\nfunc ConvA(int) string { return \"a\" }\nfunc ConvB(int) string { return \"b\" }\nfunc ConvC(int) string { return \"c\" }\nfunc ConvD(int) string { return \"d\" }\n")
	outs := map[string]bool{}
	for i := 0; i < 16; i++ {
		code, _, se := e.run("gen", "./x")
		b, _ := os.ReadFile(filepath.Join(e.dir, "x/generated/generated.go"))
		outs[fmt.Sprintf("%d|%s|%s", code, se, b)] = true
	}
	if len(outs) > 1 {
		bad = append(bad, fmt.Sprintf("%d different outcomes in 16 fresh processes for one extend pattern matching several functions of one signature", len(outs)))
	}
	// two faulty packages of the same name in different directories: the reported fault does not depend on the
	// order, repetition or overlap of the patterns
	for _, v := range []string{"v1", "v2"} {
		e.write("same/"+v+"/conv/in.go", "package conv\n\n// goverter:converter\n// goverter:bogus"+v+"\ntype C interface {\n\tConvert(source In) Out\n}\ntype In struct{ A int }\ntype Out struct{ A int }\n")
	}
	souts := map[string]bool{}
	for _, pats := range [][]string{{"./same/v1/conv", "./same/v2/conv"}, {"./same/v2/conv", "./same/v1/conv"}, {"./same/v2/conv", "./same/..."}, {"./same/..."}, {"./same/v2/conv", "./same/v2/conv", "./same/v1/conv"}} {
		code, _, se := e.run(append([]string{"gen"}, pats...)...)
		souts[fmt.Sprintf("%d|%s", code, se)] = true
	}
	if len(souts) > 1 {
		bad = append(bad, fmt.Sprintf("%d different diagnostics for one set of two faulty packages named alike, depending on the pattern order", len(souts)))
	}
	os.RemoveAll(filepath.Join(e.dir, "same"))
	// ... nor on whether one pattern or several name the set: the go command expands ./... in directory-walk order
	// (a, a/b, a-c), which is not the order of the import paths (a-c sorts before a/b)
	for _, v := range []string{"a/b", "a-c", "a.d"} {
		e.write("walk/"+v+"/in.go", "package conv\n\n// goverter:converter\n// goverter:bogus"+strings.NewReplacer("/", "", "-", "", ".", "").Replace(v)+"\ntype C interface {\n\tConvert(source In) Out\n}\ntype In struct{ A int }\ntype Out struct{ A int }\n")
	}
	wouts := map[string]bool{}
	for _, pats := range [][]string{{"./walk/..."}, {"./walk/...", "./walk/..."}, {"./walk/a/...", "./walk/a-c", "./walk/a.d"}, {"./walk/a.d", "./walk/a-c", "./walk/a/..."}, {"./walk/...", "./walk/a-c"}} {
		code, _, se := e.run(append([]string{"gen"}, pats...)...)
		wouts[fmt.Sprintf("%d|%s", code, se)] = true
	}
	if len(wouts) > 1 {
		bad = append(bad, fmt.Sprintf("%d different diagnostics for one set of faulty packages, depending on how the patterns spell the set (one ./... or several patterns)", len(wouts)))
	}
	os.RemoveAll(filepath.Join(e.dir, "walk"))
	// two packages that do not compile: the reported one does not depend on the order of the patterns
	for _, v := range []string{"alpha", "beta"} {
		e.write("ce/"+v+"/in.go", "package "+v+"\n\n// goverter:converter\ntype C interface {\n\tConvert(source In) Out\n}\ntype In struct{ A int }\ntype Out struct{ A Missing"+v+" }\n")
	}
	couts := map[string]bool{}
	for _, pats := range [][]string{{"./ce/alpha", "./ce/beta"}, {"./ce/beta", "./ce/alpha"}, {"./ce/beta", "./ce/...", "./ce/alpha"}, {"./ce/..."}} {
		code, _, se := e.run(append([]string{"gen"}, pats...)...)
		couts[fmt.Sprintf("%d|%s", code, se)] = true
	}
	if len(couts) > 1 {
		bad = append(bad, fmt.Sprintf("%d different diagnostics for one set of two packages that do not compile, depending on the pattern order", len(couts)))
	}
	os.RemoveAll(filepath.Join(e.dir, "ce"))
	// the files written do not depend on where the sources live: a directory named like a Go file
	for _, d := range []string{"reloc/plain", "reloc/nats.go", "reloc/x.gopher"} {
		src := "package conv\n\n// goverter:variables\nvar (\n\tConvert func(source In) Out\n)\n\ntype In struct{ A int }\ntype Out struct{ A int }\n"
		e.write(d+"/conv.go", src)
		code, _, se := e.run("gen", "./"+d)
		now, _ := os.ReadFile(filepath.Join(e.dir, d, "conv.go"))
		if _, err := os.Stat(filepath.Join(e.dir, d, "conv.gen.go")); code != 0 || err != nil || string(now) != src {
			bad = append(bad, "variables block in directory "+d+": conv.gen.go not written or conv.go touched: "+firstLine(se))
		}
	}
	os.RemoveAll(filepath.Join(e.dir, "reloc"))
	// a wildcard pattern followed by a sibling directory whose name starts alike: the same files in both orders
	for _, d := range []string{"pc/conv", "pc/conv/sub", "pc/convx"} {
		e.write(d+"/in.go", "package "+filepath.Base(d)+"\n\n// goverter:converter\ntype C interface {\n\tConvert(source In) Out\n}\ntype In struct{ A int }\ntype Out struct{ A int }\n")
	}
	var ptrees []map[string]string
	for _, pats := range [][]string{{"./pc/convx", "./pc/conv/..."}, {"./pc/conv/...", "./pc/convx"}, {"./pc/conv/...", "./pc/convx", "./pc/conv/sub", "./pc/convx"}} {
		for _, d := range []string{"pc/conv", "pc/conv/sub", "pc/convx"} {
			os.RemoveAll(filepath.Join(e.dir, d, "generated"))
		}
		code, _, se := e.run(append([]string{"gen"}, pats...)...)
		t := map[string]string{"<exit>": fmt.Sprintf("%d %s", code, firstLine(se))}
		for _, d := range []string{"pc/conv", "pc/conv/sub", "pc/convx"} {
			b, _ := os.ReadFile(filepath.Join(e.dir, d, "generated/generated.go"))
			t[d] = string(b)
		}
		ptrees = append(ptrees, t)
	}
	for i := 1; i < len(ptrees); i++ {
		if d := sameTree(ptrees[0], ptrees[i]); len(d) > 0 {
			bad = append(bad, "a wildcard pattern before / after a sibling directory with a common name prefix gives different output: "+strings.Join(d, ", "))
			break
		}
	}
	os.RemoveAll(filepath.Join(e.dir, "pc"))
	// a declared method that carries the name goverter would give a generated helper: the helper gets another
	// name, the output compiles and is the same in every process
	e.write("nm/in.go", "package nm\n\n// goverter:converter\n// goverter:output:file ./nm.gen.go\n// goverter:output:package e2e/nm\ntype A interface {\n\tConvert(source []In) []Out\n\tnmInToNmOut(source *In) *Out\n}\ntype In struct{ A int }\ntype Out struct{ A int }\n")
	nouts := map[string]bool{}
	for i := 0; i < 12; i++ {
		os.Remove(filepath.Join(e.dir, "nm/nm.gen.go"))
		code, _, se := e.run("gen", "./nm")
		b, _ := os.ReadFile(filepath.Join(e.dir, "nm/nm.gen.go"))
		nouts[fmt.Sprintf("%d|%s|%s", code, se, b)] = true
	}
	if out, err := e.goBuild("./nm/..."); err != nil || len(nouts) > 1 {
		bad = append(bad, fmt.Sprintf("declared method named like the helper of a nested pair: %d different outputs in 12 processes, build: %s", len(nouts), firstLine(out)))
	}
	os.RemoveAll(filepath.Join(e.dir, "nm"))
	bad = append(bad, e2eTwoVariableBlocks(e)...)
	// several output files that cannot be rendered: the reported one must not depend on the process
	for _, d := range []string{"ra", "rb", "rc"} {
		e.write("rend/"+d+"/in.go", "package "+d+"\n\n// goverter:converter\n// goverter:output:raw func broken"+d+"( {\ntype C interface {\n\tConvert(source In) Out\n}\ntype In struct{ A int }\ntype Out struct{ A int }\n")
	}
	routs := map[string]bool{}
	for i := 0; i < 24; i++ {
		code, _, se := e.run("gen", "./rend/...")
		routs[fmt.Sprintf("%d|%s", code, se)] = true
	}
	if len(routs) > 1 {
		bad = append(bad, fmt.Sprintf("%d different diagnostics in 24 fresh processes for three output files that cannot be rendered", len(routs)))
	}
	os.RemoveAll(filepath.Join(e.dir, "rend"))
	// several faulty variables in one goverter:variables block: the reported one must not depend on the process
	e.write("vb/in.go", "package vb\n\ntype A struct{ X int }\ntype B struct{ X int }\n\n// goverter:variables\nvar (\n\t// goverter:bogusB\n\tToB func(A) B\n\t// goverter:bogusC\n\tToC func(A) B\n\t// goverter:bogusD\n\tToD func(A) B\n\t// goverter:bogusE\n\tToE func(A) B\n)\n")
	vouts := map[string]bool{}
	for i := 0; i < 16; i++ {
		code, _, se := e.run("gen", "./vb")
		vouts[fmt.Sprintf("%d|%s", code, se)] = true
	}
	if len(vouts) > 1 {
		bad = append(bad, fmt.Sprintf("%d different diagnostics in 16 fresh processes for one variables block with several faulty variables", len(vouts)))
	}
	os.RemoveAll(filepath.Join(e.dir, "vb"))
	// the way the working directory is given does not change where @cwd/ output lands
	if sub, err2 := newE2E(repo, filepath.Join(dir, "cwdforms")); err2 == nil {
		mod := "package conv\n\n// goverter:converter\n// goverter:output:file @cwd/gen/out.go\n// goverter:output:package cwdmod/gen\ntype C interface {\n\tConvert(source In) Out\n}\ntype In struct{ A int }\ntype Out struct{ A int }\n"
		forms := map[string]map[string]string{}
		for _, form := range []string{"chdir", "relative", "absolute"} {
			os.RemoveAll(filepath.Join(sub.dir, "m"))
			sub.write("m/go.mod", "module cwdmod\n\ngo 1.22\n")
			sub.write("m/pkg/conv/in.go", mod)
			var code int
			var se string
			switch form {
			case "chdir":
				saved := sub.dir
				sub.dir = filepath.Join(saved, "m")
				code, _, se = sub.run("gen", "./pkg/conv")
				sub.dir = saved
			case "relative":
				code, _, se = sub.run("gen", "-cwd", "m", "./pkg/conv")
			default:
				code, _, se = sub.run("gen", "-cwd", filepath.Join(sub.dir, "m"), "./pkg/conv")
			}
			files := map[string]string{}
			filepath.Walk(filepath.Join(sub.dir, "m"), func(p string, info os.FileInfo, err error) error {
				if err == nil && !info.IsDir() {
					rel, _ := filepath.Rel(filepath.Join(sub.dir, "m"), p)
					b, _ := os.ReadFile(p)
					files[rel] = string(b)
				}
				return nil
			})
			files["<exit>"] = fmt.Sprintf("%d %s", code, firstLine(se))
			forms[form] = files
		}
		for _, form := range []string{"relative", "absolute"} {
			if d := sameTree(forms["chdir"], forms[form]); len(d) > 0 {
				bad = append(bad, "working directory given as "+form+" -cwd instead of chdir changes the outcome: "+strings.Join(d, ", "))
			}
		}
		// ... nor what a failing run reports (the faulty file lies directly in the working directory)
		diags := map[string]string{}
		for _, form := range []string{"chdir", "relative", "absolute"} {
			os.RemoveAll(filepath.Join(sub.dir, "m"))
			sub.write("m/go.mod", "module cwdmod\n\ngo 1.22\n")
			sub.write("m/in.go", "package cwdmod\n\n// goverter:converter\ntype C interface {\n\t// goverter:bogus\n\tConvert(source In) Out\n}\ntype In struct{ A int }\ntype Out struct{ A int }\n")
			var code int
			var se string
			switch form {
			case "chdir":
				saved := sub.dir
				sub.dir = filepath.Join(saved, "m")
				code, _, se = sub.run("gen", ".")
				sub.dir = saved
			case "relative":
				code, _, se = sub.run("gen", "-cwd", "m", ".")
			default:
				code, _, se = sub.run("gen", "-cwd", filepath.Join(sub.dir, "m"), ".")
			}
			diags[form] = fmt.Sprintf("%d|%s", code, se)
		}
		if diags["chdir"] != diags["relative"] || diags["chdir"] != diags["absolute"] {
			bad = append(bad, "the diagnostic of a failing run depends on how the working directory is given (chdir / relative -cwd / absolute -cwd): "+firstLine(diags["chdir"])+" | "+firstLine(diags["relative"]))
		}
		os.Remove(sub.bin)
	}
	// overlapping / repeated package patterns select each package once
	e.write("oa/in.go", strings.Replace(e2eGood, "package good", "package oa", 1))
	e.write("ob/in.go", strings.Replace(e2eGood, "package good", "package ob", 1))
	ref := map[string]string{}
	for i, argv := range [][]string{{"gen", "./oa", "./ob"}, {"gen", "./oa", "./ob", "./oa"}, {"gen", "./oa/...", "./ob", "e2e/oa"}, {"gen", "./ob", "./oa"}} {
		os.RemoveAll(filepath.Join(e.dir, "oa/generated"))
		os.RemoveAll(filepath.Join(e.dir, "ob/generated"))
		code, _, se := e.run(argv...)
		got := map[string]string{"<exit>": fmt.Sprintf("%d %s", code, firstLine(se))}
		for _, f := range []string{"oa/generated/generated.go", "ob/generated/generated.go"} {
			b, _ := os.ReadFile(filepath.Join(e.dir, f))
			got[f] = string(b)
		}
		if i == 0 {
			ref = got
		} else if d := sameTree(ref, got); len(d) > 0 {
			bad = append(bad, fmt.Sprintf("`goverter %s` differs from `goverter gen ./oa ./ob` in %s", strings.Join(argv, " "), strings.Join(d, ", ")))
		}
	}
	bad = append(bad, e2eExistingPackage(e)...)
	// several unknown members in enum:map lines: the same one is reported in every fresh process
	e.write("en/in.go", "package en\n\nimport \"e2e/en/tg\"\n\n// goverter:converter\n// goverter:enum:unknown @panic\ntype C interface {\n\t// goverter:enum:map Nope1 Red\n\t// goverter:enum:map Nope2 Red\n\t// goverter:enum:map Nope3 Red\n\t// goverter:enum:map Nope4 Red\n\t// goverter:enum:map Nope5 Red\n\tConvert(source A) tg.B\n}\ntype A int\n\nconst (\n\tRed A = iota\n)\n")
	e.write("en/tg/tg.go", "package tg\n\ntype B int\n\nconst (\n\tRed B = iota\n)\n")
	enumDiag := map[string]bool{}
	for i := 0; i < 16; i++ {
		_, _, se := e.run("gen", "./en")
		enumDiag[se] = true
	}
	if len(enumDiag) > 1 {
		bad = append(bad, fmt.Sprintf("%d different diagnostics in 16 fresh processes for several unknown members in enum:map lines", len(enumDiag)))
	}
	// two faulty converters of the same name in different packages: the diagnostic does not depend on the order of
	// the package patterns
	faulty := "package PKG\n\n// goverter:converter\ntype Same interface {\n\tConvert(source In) Out\n}\ntype In struct{ A int }\ntype Out struct{ A, MissingPKG int }\n"
	e.write("fa/in.go", strings.ReplaceAll(faulty, "PKG", "fa"))
	e.write("fb/in.go", strings.ReplaceAll(faulty, "PKG", "fb"))
	_, _, d1 := e.run("gen", "./fa", "./fb")
	_, _, d2 := e.run("gen", "./fb", "./fa")
	if d1 != d2 {
		bad = append(bad, "two faulty converters of the same name: `gen ./fa ./fb` and `gen ./fb ./fa` report different diagnostics ("+firstLine(d1)+" vs "+firstLine(d2)+")")
	}
	// helper names that collide across packages (v1/model.Item, v2/model.Item ...) get their numeric suffixes in a
	// fixed order; several faulty methods of one converter report the same one
	var hdecl, hmeth strings.Builder
	for i := 1; i <= 6; i++ {
		e.write(fmt.Sprintf("hv/v%d/model/m.go", i), "package model\n\ntype Item struct{ A int }\n")
		fmt.Fprintf(&hdecl, "\tm%d \"e2e/hv/v%d/model\"\n", i, i)
		fmt.Fprintf(&hmeth, "\tFrom%d(source []m%d.Item) []Out\n", i, i)
	}
	e.write("hv/in.go", "package hv\n\nimport (\n"+hdecl.String()+")\n\n// goverter:converter\ntype C interface {\n"+hmeth.String()+"}\ntype Out struct{ A int }\n")
	hOuts := map[string]bool{}
	for i := 0; i < 12; i++ {
		code, _, se := e.run("gen", "./hv")
		b, _ := os.ReadFile(filepath.Join(e.dir, "hv/generated/generated.go"))
		hOuts[fmt.Sprintf("%d|%s|%s", code, se, b)] = true
	}
	if len(hOuts) > 1 {
		bad = append(bad, fmt.Sprintf("%d different outputs in 12 fresh processes for helper names that collide across packages", len(hOuts)))
	}
	// faulty converters going to different output files: the same diagnostic in every fresh process
	for i := 1; i <= 6; i++ {
		e.write(fmt.Sprintf("pf/p%d/in.go", i), fmt.Sprintf("package p%d\n\n// goverter:converter\ntype C%d interface {\n\tConvert(source In) Out\n}\ntype In struct{ A int }\ntype Out struct{ A, Missing%d int }\n", i, i, i))
	}
	pfDiag := map[string]bool{}
	for i := 0; i < 16; i++ {
		_, _, se := e.run("gen", "./pf/...")
		pfDiag[se] = true
	}
	if len(pfDiag) > 1 {
		bad = append(bad, fmt.Sprintf("%d different diagnostics in 16 fresh processes for six faulty converters with six output files", len(pfDiag)))
	}
	// the same for faults found while the settings are parsed (differently named converters)
	for _, pk := range []string{"ca", "cb"} {
		e.write(pk+"/in.go", "package "+pk+"\n\n// goverter:converter\n// goverter:nosuchsetting"+pk+"\ntype Conv"+pk+" interface {\n\tConvert(source In) Out\n}\ntype In struct{ A int }\ntype Out struct{ A int }\n")
	}
	_, _, c1 := e.run("gen", "./ca", "./cb")
	_, _, c2 := e.run("gen", "./cb", "./ca")
	if c1 != c2 {
		bad = append(bad, "two converters with faulty settings: `gen ./ca ./cb` and `gen ./cb ./ca` report different diagnostics ("+firstLine(c1)+" vs "+firstLine(c2)+")")
	}
	// several simultaneous faults: the diagnostic is the same in every fresh process
	e.write("q/in.go", "package q\n\n// goverter:converter\ntype C interface {\n\t// goverter:map A B\n\tA2D(source []A) []D\n\t// goverter:map A B\n\tD2A(source []D) []A\n\t// goverter:map A B\n\tB2C(source []B) []C\n\t// goverter:map A B\n\tC2B(source []C) []B\n}\ntype A struct{ A int }\ntype B struct{ B int }\ntype C struct{ B int }\ntype D struct{ B int }\n")
	seen := map[string]bool{}
	for i := 0; i < 24; i++ {
		_, _, se := e.run("gen", "./q")
		seen[se] = true
	}
	if len(seen) > 1 {
		bad = append(bad, fmt.Sprintf("%d different diagnostics for the same faulty input in 24 fresh processes", len(seen)))
	}
	return bad, nil
}

// e2eC19: which comments count as settings, seen through whole runs.
func e2eC19(repo, dir string, vals map[string]string) ([]string, error) {
	e, err := newE2E(repo, dir)
	if err != nil {
		return nil, err
	}
	var bad []string
	// a converter declared in a file that starts with a generated-code header (scaffolded code) is still a converter
	e.write("hdr/in.go", "// Code generated by some-scaffolder. DO NOT EDIT.\n\npackage hdr\n\n// goverter:converter\ntype Scaffolded interface {\n\tConvert(source In) Out\n}\ntype In struct{ A int }\ntype Out struct{ A int }\n")
	e.write("hdr/other.go", "package hdr\n\n// goverter:converter\ntype Plain interface {\n\tConvert(source In) Out\n}\n")
	code, _, se := e.run("gen", "./hdr")
	b, _ := os.ReadFile(filepath.Join(e.dir, "hdr/generated/generated.go"))
	if code != 0 || !strings.Contains(string(b), "type ScaffoldedImpl struct") || !strings.Contains(string(b), "type PlainImpl struct") {
		bad = append(bad, "converter declared in a file with a `Code generated ... DO NOT EDIT.` header is not generated: "+firstLine(se))
	}
	// repeated lines are all applied in order: yes / no / yes ends as yes
	e.write("rep/in.go", "package rep\n\n// goverter:converter\n// goverter:ignoreMissing yes\n// goverter:ignoreMissing no\n// goverter:ignoreMissing yes\ntype C interface {\n\tConvert(source In) Out\n}\ntype In struct{ A int }\ntype Out struct{ A, Missing int }\n")
	if code, _, se := e.run("gen", "./rep"); code != 0 {
		bad = append(bad, "ignoreMissing yes / no / yes does not end as yes: "+firstLine(se))
	}
	e.write("rep2/in.go", "package rep2\n\n// goverter:converter\n// goverter:ignoreMissing no\n// goverter:ignoreMissing yes\n// goverter:ignoreMissing no\ntype C interface {\n\tConvert(source In) Out\n}\ntype In struct{ A int }\ntype Out struct{ A, Missing int }\n")
	if code, _, _ := e.run("gen", "./rep2"); code != 1 {
		bad = append(bad, "ignoreMissing no / yes / no does not end as no")
	}
	// a grouped type declaration with a (marker-free) doc comment of its own: the specs are still scanned
	e.write("grp/in.go", "package grp\n\n// The converters of this package.\ntype (\n\t// goverter:converter\n\tGrouped interface {\n\t\tConvert(source In) Out\n\t}\n\t// In is the source.\n\tIn struct{ A int }\n\tOut struct{ A int }\n)\n")
	code, _, se = e.run("gen", "./grp")
	b, _ = os.ReadFile(filepath.Join(e.dir, "grp/generated/generated.go"))
	if code != 0 || !strings.Contains(string(b), "type GroupedImpl struct") {
		bad = append(bad, "marked interface inside a documented `type ( ... )` group is not generated: "+firstLine(se))
	}
	// markers on declarations that cannot carry them are reported
	for _, c := range []struct{ name, src string }{
		{"mfunc", "package mfunc\n\ntype In struct{ A int }\ntype Out struct{ A int }\n\n// goverter:converter\nfunc Convert(source In) Out { return Out{} }\n"},
		{"mvarspec", "package mvarspec\n\ntype In struct{ A int }\ntype Out struct{ A int }\n\nvar (\n\t// goverter:variables\n\tConvert func(source In) Out\n)\n"},
		{"mtypespec", "package mtypespec\n\ntype (\n\t// goverter:variables\n\tC interface{ Convert(source In) Out }\n\tIn struct{ A int }\n\tOut struct{ A int }\n)\n"},
		{"mmethod", "package mmethod\n\ntype In struct{ A int }\ntype Out struct{ A int }\ntype H struct{}\n\n// goverter:converter\nfunc (H) Convert(source In) Out { return Out{} }\n"},
		{"mmethodptr", "package mmethodptr\n\ntype In struct{ A int }\ntype Out struct{ A int }\ntype H struct{}\n\n/* goverter:variables */\nfunc (h *H) Convert(source In) Out { return Out{} }\n"},
	} {
		e.write(c.name+"/in.go", c.src)
		if code, _, se := e.run("gen", "./"+c.name); code != 1 || !strings.Contains(se, "must be defined on") {
			bad = append(bad, fmt.Sprintf("marker on a declaration that cannot carry it (%s): exit %d, want a diagnostic: %s", c.name, code, firstLine(se)))
		}
	}
	// declarations inside function bodies are no converters, whatever their comments say: the run equals the one
	// without them
	{
		base := "package local\n\n// goverter:converter\ntype C interface {\n\tConvert(source In) Out\n}\ntype In struct{ A int }\ntype Out struct{ A int }\n"
		e.write("local/in.go", base)
		c0, _, _ := e.run("gen", "./local")
		b0, _ := os.ReadFile(filepath.Join(e.dir, "local/generated/generated.go"))
		e.write("local/in.go", base+"\nfunc helper() {\n\t// goverter:converter\n\ttype scratch interface {\n\t\tConvert(source In) Out\n\t}\n\t// goverter:variables\n\tvar (\n\t\tlocalConv func(source In) Out\n\t)\n\t_ = localConv\n\tvar _ scratch\n}\n")
		c1, _, se := e.run("gen", "./local")
		b1, _ := os.ReadFile(filepath.Join(e.dir, "local/generated/generated.go"))
		if c0 != 0 || c1 != 0 || string(b0) != string(b1) {
			bad = append(bad, fmt.Sprintf("marked declarations inside a function body change the run (exit %d / %d): %s", c0, c1, firstLine(se)))
		}
		os.RemoveAll(filepath.Join(e.dir, "local"))
	}
	// the doc comment of a method with a receiver says nothing about the custom function of the same name
	e.write("recv/in.go", "package recv\n\ntype In struct{ ID int }\ntype Out struct{ ID string }\ntype Helper struct{}\n\nfunc Format(id int) string { return \"\" }\n\n// goverter:context id\nfunc (Helper) Format(id int) string { return \"\" }\n\n// goverter:converter\n// goverter:extend Format\ntype C interface {\n\tConvert(source In) Out\n}\n")
	if code, _, se := e.run("gen", "./recv"); code != 0 {
		bad = append(bad, "goverter:context in the doc comment of a method was applied to the custom function of the same name: "+firstLine(se))
	}
	// a very long comment line does not end the scan of the doc comment
	e.write("long/in.go", "package long\n\ntype In struct{ A int }\ntype Out struct{ A, B int }\n\n// goverter:converter\ntype C interface {\n\t// "+strings.Repeat("x", 70000)+"\n\t// goverter:ignore B\n\tConvert(source In) Out\n}\n")
	if code, _, se := e.run("gen", "./long"); code != 0 {
		bad = append(bad, "a setting line after a comment line of 70000 bytes is lost: "+firstLine(se))
	}
	bad = append(bad, e2eExtendOrder(e)...)
	// the shorthand update:ignoreZeroValueField and its per-category lines apply in source order
	zo := func(first, second string) string {
		return "package zo\n\n// goverter:converter\ntype C interface {\n\t// goverter:update target\n\t// goverter:" + first + "\n\t// goverter:" + second + "\n\tUpdate(source In, target *Out)\n}\ntype In struct {\n\tName string\n\tL []int\n}\ntype Out struct {\n\tName string\n\tL []int\n}\n"
	}
	e.write("zo/in.go", zo("update:ignoreZeroValueField:basic no", "update:ignoreZeroValueField"))
	code, _, se = e.run("gen", "./zo")
	zb, _ := os.ReadFile(filepath.Join(e.dir, "zo/generated/generated.go"))
	if code != 0 || !strings.Contains(string(zb), "source.Name != \"\"") {
		bad = append(bad, "update:ignoreZeroValueField written below :basic no does not switch the basic category on again: "+firstLine(se))
	}
	e.write("zo/in.go", zo("update:ignoreZeroValueField", "update:ignoreZeroValueField:basic no"))
	code, _, se = e.run("gen", "./zo")
	zb, _ = os.ReadFile(filepath.Join(e.dir, "zo/generated/generated.go"))
	if code != 0 || strings.Contains(string(zb), "source.Name != \"\"") || !strings.Contains(string(zb), "source.L != nil") {
		bad = append(bad, ":basic no written below update:ignoreZeroValueField does not switch only the basic category off: "+firstLine(se))
	}
	os.RemoveAll(filepath.Join(e.dir, "zo"))
	// an extend line is resolved with the settings above it, not with those below it
	e.write("so/in.go", "package so\n\n// goverter:converter\n// goverter:extend Conv.*\n// goverter:arg:context:regex ^ctx\ntype C interface {\n\tConvert(source In) Out\n}\n\nfunc ConvTemp(v int, ctxUnit string) Celsius { return Celsius(v + 1000) }\n\ntype Celsius int\ntype In struct{ Temp int }\ntype Out struct{ Temp Celsius }\n")
	code, _, se = e.run("gen", "./so")
	gen, _ := os.ReadFile(filepath.Join(e.dir, "so/generated/generated.go"))
	if code == 0 && strings.Contains(string(gen), "ConvTemp") {
		bad = append(bad, "arg:context:regex below an extend line changes what that extend line selects")
	}
	e.write("so2/in.go", "package so2\n\n// goverter:converter\n// goverter:arg:context:regex ^ctx\n// goverter:extend Conv.*\ntype C interface {\n\tConvert(source In, ctxUnit string) Out\n}\n\nfunc ConvTemp(v int, ctxUnit string) Celsius { return Celsius(v + 1000) }\n\ntype Celsius int\ntype In struct{ Temp int }\ntype Out struct{ Temp Celsius }\n")
	code, _, se = e.run("gen", "./so2")
	gen, _ = os.ReadFile(filepath.Join(e.dir, "so2/generated/generated.go"))
	if code != 0 || !strings.Contains(string(gen), "ConvTemp") {
		bad = append(bad, "arg:context:regex above an extend line is not used by it: "+firstLine(se))
	}
	// trailing comments and detached comments are no settings
	e.write("trail/in.go", "package trail\n\n// goverter:ignoreMissing\n\n// goverter:converter\ntype C interface {\n\tConvert(source In) Out // goverter:ignore Missing\n}\ntype In struct{ A int }\ntype Out struct{ A, Missing int }\n")
	if code, _, _ := e.run("gen", "./trail"); code != 1 {
		bad = append(bad, "a trailing or detached comment acted as a setting")
	}
	return bad, nil
}

// e2eC06: an existing function / declared method for a pair is used or reported, never silently bypassed.
func e2eC06(repo, dir string, vals map[string]string) ([]string, error) {
	e, err := newE2E(repo, dir)
	if err != nil {
		return nil, err
	}
	var bad []string
	types := "type In struct{ Name string }\ntype Out struct{ Name string }\ntype Ctx struct{ Z int }\n"
	// a declared method / extend function that needs a context the caller does not have
	e.write("nodecl/in.go", "package nodecl\n\n// goverter:converter\n// goverter:arg:context:regex ^ctx\ntype C interface {\n\tConvert(source []In) []Out\n\tInner(source In, ctxA Ctx) Out\n}\n"+types)
	if code, _, se := e.run("gen", "./nodecl"); code != 1 || !strings.Contains(se, "context") {
		bad = append(bad, fmt.Sprintf("declared method for the element pair needs a context the calling method lacks: exit %d, want a diagnostic about the context: %s", code, firstLine(se)))
	}
	e.write("noext/in.go", "package noext\n\n// goverter:converter\n// goverter:arg:context:regex ^ctx\n// goverter:extend Ext\ntype C interface {\n\tConvert(source []In) []Out\n}\n"+types+"func Ext(source In, ctxA Ctx) Out { return Out{} }\n")
	if code, _, se := e.run("gen", "./noext"); code != 1 || !strings.Contains(se, "context") {
		bad = append(bad, fmt.Sprintf("extend function for the element pair needs a context the calling method lacks: exit %d: %s", code, firstLine(se)))
	}
	// every alternative of an extend pattern is matched in full
	e.write("alt/in.go", "package alt\n\n// goverter:converter\n// goverter:extend Conv|ConvX\ntype C interface {\n\tConvert(source In2) Out2\n}\ntype In2 struct {\n\tID int\n\tN int8\n}\ntype Out2 struct {\n\tID string\n\tN string\n}\nfunc Conv(id int) string { return \"\" }\nfunc ConvX(id int8) string { return \"\" }\n")
	if code, _, se := e.run("gen", "./alt"); code != 0 {
		bad = append(bad, "extend Conv|ConvX does not register ConvX: "+firstLine(se))
	}
	// a pattern selects package variables that hold a function like declared functions
	e.write("fvar/in.go", "package fvar\n\n// goverter:converter\n// goverter:extend Conv.*\ntype C interface {\n\tConvert(source In2) Out2\n}\ntype In2 struct {\n\tID int\n\tN int8\n}\ntype Out2 struct {\n\tID string\n\tN string\n}\nfunc ConvID(id int) string { return \"\" }\n\nvar ConvN = func(n int8) string { return \"\" }\n")
	if code, _, se := e.run("gen", "./fvar"); code != 0 {
		bad = append(bad, "extend Conv.* does not register the function-valued variable ConvN: "+firstLine(se))
	} else if b, _ := os.ReadFile(filepath.Join(e.dir, "fvar/generated/generated.go")); !strings.Contains(string(b), "fvar.ConvN(") || !strings.Contains(string(b), "fvar.ConvID(") {
		bad = append(bad, "extend Conv.*: the function-valued variable ConvN / the function ConvID is not called")
	}
	// with the context available both are called
	e.write("okdecl/in.go", "package okdecl\n\n// goverter:converter\n// goverter:arg:context:regex ^ctx\ntype C interface {\n\tConvert(source []In, ctxA Ctx) []Out\n\tInner(source In, ctxA Ctx) Out\n}\n"+types)
	code, _, se := e.run("gen", "./okdecl")
	if b, _ := os.ReadFile(filepath.Join(e.dir, "okdecl/generated/generated.go")); code != 0 || !strings.Contains(string(b), "c.Inner(source[i], context)") {
		bad = append(bad, "declared method with an available context is not called for the element pair: "+firstLine(se))
	}
	// the pointee pair of a method with a default constructor is served by the extend function / the declared method
	e.write("defext/in.go", "package defext\n\n// goverter:converter\n// goverter:extend Ext\ntype C interface {\n\t// goverter:default New\n\tConvert(source In) *Out\n}\n"+types+"func Ext(source In) Out { return Out{} }\nfunc New() *Out { return &Out{} }\n")
	code, _, se = e.run("gen", "./defext")
	if b, _ := os.ReadFile(filepath.Join(e.dir, "defext/generated/generated.go")); code != 0 || !strings.Contains(string(b), "defext.Ext(source)") {
		bad = append(bad, "extend function for the pointee pair of a default-constructor method is not called: "+firstLine(se))
	}
	e.write("defdecl/in.go", "package defdecl\n\n// goverter:converter\ntype C interface {\n\t// goverter:default New\n\tConvert(source In) *Out\n\tInner(source In) Out\n}\n"+types+"func New() *Out { return &Out{} }\n")
	code, _, se = e.run("gen", "./defdecl")
	if b, _ := os.ReadFile(filepath.Join(e.dir, "defdecl/generated/generated.go")); code != 0 || !strings.Contains(string(b), "c.Inner(source)") {
		bad = append(bad, "declared method for the pointee pair of a default-constructor method is not called: "+firstLine(se))
	}
	return bad, nil
}

// e2eC12: generated helper methods take the converter-level settings, never those of the method that needs them.
func e2eC12(repo, dir string, vals map[string]string) ([]string, error) {
	e, err := newE2E(repo, dir)
	if err != nil {
		return nil, err
	}
	var bad []string
	types := "type Outer struct{ In Inner }\ntype OuterT struct{ In InnerT }\ntype Inner struct{ A int }\ntype InnerT struct {\n\tA int\n\tMissing int\n}\n"
	e.write("meth/in.go", "package meth\n\n// goverter:converter\ntype C interface {\n\t// goverter:ignoreMissing\n\tConvert(source Outer) OuterT\n}\n"+types)
	if code, _, se := e.run("gen", "./meth"); code != 1 {
		bad = append(bad, fmt.Sprintf("method-level ignoreMissing reached the generated helper of a nested pair (exit %d): %s", code, firstLine(se)))
	}
	e.write("conv/in.go", "package conv\n\n// goverter:converter\n// goverter:ignoreMissing\ntype C interface {\n\tConvert(source Outer) OuterT\n}\n"+types)
	if code, _, se := e.run("gen", "./conv"); code != 0 {
		bad = append(bad, fmt.Sprintf("converter-level ignoreMissing does not reach the generated helper of a nested pair (exit %d): %s", code, firstLine(se)))
	}
	// the same for every other inheritable setting: written on the method it must not change the helper of the nested pair
	for _, c := range []struct{ setting, inner, innerT, extra, wantFail, leakText string }{
		{"matchIgnoreCase", "struct{ Name string }", "struct{ NAME string }", "", "yes", ""},
		{"useZeroValueOnPointerInconsistency", "struct{ P *int }", "struct{ P int }", "", "yes", ""},
		{"ignoreUnexported", "struct{ A int }", "struct {\n\tA int\n\thidden int\n}", "", "yes", ""},
		{"skipCopySameType", "struct{ L []int }", "struct{ L []int }", "", "", "L = source.L"},
		{"wrapErrors", "struct{ A int }", "struct{ A string }", "// goverter:extend Itoa\n", "", "error setting field A"},
		{"wrapErrorsUsing e2e/leak_wrapErrorsUsing/perr", "struct{ A int }", "struct{ A string }", "// goverter:extend Itoa\n", "", "perr.Field(\"A\")"},
	} {
		name := "leak_" + strings.Fields(c.setting)[0]
		src := "package " + name + "\n\n// goverter:converter\n" + c.extra + "type C interface {\n\t// goverter:" + c.setting + "\n\tConvert(source Outer) (OuterT, error)\n}\ntype Outer struct{ In Inner }\ntype OuterT struct{ In InnerT }\ntype Inner " + c.inner + "\ntype InnerT " + c.innerT + "\nfunc Itoa(i int) (string, error) { return \"\", nil }\n"
		e.write(name+"/in.go", src)
		if strings.HasPrefix(c.setting, "wrapErrorsUsing") {
			e.write(name+"/perr/perr.go", "package perr\n\nfunc Wrap(err error, path ...any) error { return err }\nfunc Field(string) any { return nil }\nfunc Index(int) any { return nil }\nfunc Key(any) any { return nil }\n")
		}
		code, _, se := e.run("gen", "./"+name)
		b, _ := os.ReadFile(filepath.Join(e.dir, name, "generated/generated.go"))
		switch {
		case c.wantFail != "" && code != 1:
			bad = append(bad, fmt.Sprintf("method-level %s reached the generated helper of a nested pair (exit %d)", c.setting, code))
		case c.wantFail == "" && (code != 0 || strings.Contains(string(b), c.leakText)):
			bad = append(bad, fmt.Sprintf("method-level %s reached the generated helper of a nested pair (exit %d, helper shows %q): %s", c.setting, code, c.leakText, firstLine(se)))
		}
	}
	// a faulty line is reported where it was written: a failing extend given with -g names the command line,
	// the same line in the doc comment names the declaration
	e.write("loc/in.go", "package loc\n\n// goverter:converter\ntype C interface {\n\tConvert(source In) Out\n}\ntype In struct{ A int }\ntype Out struct{ A int }\n")
	_, _, seG := e.run("gen", "-g", "extend DoesNotExist", "./loc")
	e.write("loc/in.go", "package loc\n\n// goverter:converter\n// goverter:extend DoesNotExist\ntype C interface {\n\tConvert(source In) Out\n}\ntype In struct{ A int }\ntype Out struct{ A int }\n")
	_, _, seD := e.run("gen", "./loc")
	if !strings.Contains(seG, "extend") || strings.Contains(seG, "in.go:") || !strings.Contains(seD, "in.go:") {
		bad = append(bad, "an extend line that cannot be resolved is not reported where it was written (-g: "+firstLine(seG)+" | doc comment: "+firstLine(seD)+")")
	}
	os.RemoveAll(filepath.Join(e.dir, "loc"))
	// the converters of one run are configured independently: each one's enum:exclude lines are its own
	{
		enums := func(pk string) string {
			return "package " + pk + "\n\ntype Color int\n\nconst (\n\tRed Color = iota\n\tGreen\n)\n\ntype Shape int\n\nconst (\n\tDot Shape = iota\n\tBox\n)\n"
		}
		conv := func(name, excl string) string {
			return "// goverter:converter\n// goverter:enum:unknown @panic\n// goverter:enum:exclude " + excl + "\ntype " + name + " interface {\n\tConvertC(source ea.Color) eb.Color\n\tConvertS(source ea.Shape) eb.Shape\n}\n\n"
		}
		e.write("indep/ea/e.go", enums("ea"))
		e.write("indep/eb/e.go", enums("eb"))
		e.write("indep/in.go", "package indep\n\nimport (\n\t\"e2e/indep/ea\"\n\t\"e2e/indep/eb\"\n)\n\n"+conv("A", ".*:Color")+conv("B", ".*:Shape"))
		code, _, se := e.run("gen", "./indep")
		b, _ := os.ReadFile(filepath.Join(e.dir, "indep/generated/generated.go"))
		body := func(recv, m string) string {
			t := string(b)
			i := strings.Index(t, "func (c *"+recv+"Impl) "+m+"(")
			if i < 0 {
				return ""
			}
			t = t[i:]
			if j := strings.Index(t, "\nfunc "); j > 0 {
				t = t[:j]
			}
			return t
		}
		if code != 0 {
			bad = append(bad, "two converters with different enum:exclude lines are not generated: "+firstLine(se))
		} else if strings.Contains(body("A", "ConvertC"), "switch") || !strings.Contains(body("A", "ConvertS"), "switch") || !strings.Contains(body("B", "ConvertC"), "switch") || strings.Contains(body("B", "ConvertS"), "switch") {
			bad = append(bad, "the enum:exclude line of one converter changes the other converter of the run")
		}
		os.RemoveAll(filepath.Join(e.dir, "indep"))
	}
	// the value of one -g flag is one setting line, whatever characters it contains (a comma inside a regular
	// expression); an empty one is malformed
	e.write("gcomma/in.go", "package gcomma\n\n// goverter:converter\ntype C interface {\n\tConvert(cctx Loc, source In) Out\n}\ntype Loc struct{ Lang string }\ntype In struct{ ID int }\ntype Out struct{ ID int }\n")
	if code, _, se := e.run("gen", "-g", "arg:context:regex ^c{1,2}tx$", "./gcomma"); code != 0 {
		bad = append(bad, "-g 'arg:context:regex ^c{1,2}tx$' is not taken as one setting line: "+firstLine(se))
	} else if b, _ := os.ReadFile(filepath.Join(e.dir, "gcomma/generated/generated.go")); !strings.Contains(string(b), "Convert(context gcomma.Loc, source gcomma.In)") {
		bad = append(bad, "-g 'arg:context:regex ^c{1,2}tx$': the parameter cctx is not a context in the generated method")
	}
	if code, _, _ := e.run("gen", "-g", "", "./gcomma"); code == 0 {
		bad = append(bad, "an empty -g value is accepted")
	}
	if code, _, _ := e.run("gen", "-g", "ignoreMissing,matchIgnoreCase", "./gcomma"); code == 0 {
		bad = append(bad, "-g 'ignoreMissing,matchIgnoreCase' (no such setting) is accepted")
	}
	os.RemoveAll(filepath.Join(e.dir, "gcomma"))
	// a function named on a method is classified with the arg:context:regex above its line, not with one below it
	mo := func(first, second string) string {
		return "package mo\n\n// goverter:converter\ntype C interface {\n\t// goverter:" + first + "\n\t// goverter:" + second + "\n\tConvert(source In, ctxL Loc) Out\n}\ntype Loc struct{ Lang string }\ntype In struct{ ID int }\ntype Out struct{ Full string }\n\nfunc Lookup(id int, ctxL Loc) string { return \"\" }\n"
	}
	e.write("mo/in.go", mo("arg:context:regex ^ctx", "map ID Full | Lookup"))
	if code, _, se := e.run("gen", "./mo"); code != 0 {
		bad = append(bad, "method-level arg:context:regex above map|FUNC is not used for the function: "+firstLine(se))
	}
	e.write("mo/in.go", mo("map ID Full | Lookup", "arg:context:regex ^ctx"))
	if code, _, _ := e.run("gen", "./mo"); code != 1 {
		bad = append(bad, "method-level arg:context:regex below a map|FUNC line changes how that function is classified")
	}
	os.RemoveAll(filepath.Join(e.dir, "mo"))
	bad = append(bad, e2eExtendOrder(e)...)
	// a long doc comment keeps its line order: of two lines for one setting the lower one wins, whatever the
	// number of other lines around them (method and converter level)
	{
		fields, ignores := "", ""
		for i := 1; i <= 11; i++ {
			fields += fmt.Sprintf("\tF%02d int\n", i)
			ignores += fmt.Sprintf("\t// goverter:ignore F%02d\n", i)
		}
		src := "package long\n\n// goverter:converter\ntype C interface {\n\t// goverter:update target\n\t// goverter:update:ignoreZeroValueField\n\t// goverter:update:ignoreZeroValueField:basic no\n" + ignores + "\tWide(source In, target *Out)\n}\ntype In struct {\n\tName string\n\tL []int\n}\ntype Out struct {\n\tName string\n\tL []int\n" + fields + "}\n"
		e.write("long/in.go", src)
		code, _, se := e.run("gen", "./long")
		b, _ := os.ReadFile(filepath.Join(e.dir, "long/generated/generated.go"))
		if code != 0 || strings.Contains(string(b), "source.Name != \"\"") || !strings.Contains(string(b), "source.L != nil") {
			bad = append(bad, "method with 14 setting lines: update:ignoreZeroValueField followed by :basic no does not give 'nillable and struct only': "+firstLine(se))
		}
		convLines := ""
		for i := 1; i <= 11; i++ {
			convLines += fmt.Sprintf("// goverter:output:raw // filler %d\n", i)
		}
		src = "package longc\n\n// goverter:converter\n// goverter:extend Itoa\n// goverter:ignoreMissing\n// goverter:ignoreMissing no\n" + convLines + "type C interface {\n\tConvert(source In) (Out, error)\n}\ntype In struct{ A int }\ntype Out struct {\n\tA string\n\tMissing int\n}\nfunc Itoa(i int) (string, error) { return \"\", nil }\n"
		e.write("longc/in.go", src)
		if code, _, _ := e.run("gen", "./longc"); code != 1 {
			bad = append(bad, "converter with 15 setting lines: ignoreMissing followed by ignoreMissing no is still on")
		}
	}
	// a helper shared by two methods does not depend on which of them is built first
	two := "type L struct{ Items []int }\ntype W1 struct{ V L }\ntype W1T struct{ V L }\ntype W2 struct{ V L }\ntype W2T struct{ V L }\n"
	e.write("share/in.go", "package share\n\n// goverter:converter\ntype C interface {\n\t// goverter:skipCopySameType\n\tA(source W1) W1T\n\tB(source W2) W2T\n}\n"+two)
	code, _, se := e.run("gen", "./share")
	b, _ := os.ReadFile(filepath.Join(e.dir, "share/generated/generated.go"))
	if code != 0 || !strings.Contains(string(b), "make([]int") {
		bad = append(bad, "the helper shared by a skipCopySameType method and a plain method no longer copies the slice: "+firstLine(se))
	}
	return bad, nil
}

// e2eC13: directive texts that are patterns end in output or a diagnostic (exit 0 / 1), never in a crash.
func e2eC13(repo, dir string, vals map[string]string) ([]string, error) {
	e, err := newE2E(repo, dir)
	if err != nil {
		return nil, err
	}
	var bad []string
	pats := []string{`Conv.*`, `Conv.*\Q`, `Conv.*To\QString`, `Conv.*\QA\E`, `(?i:conva.*)`, `Conv(`, `Conv[`, `Conv\`, `(?P<n>Conv.*)`, `Conv.*|`, `Conv{2,1}`, `Conv.*)(`, `.*\E`}
	for i, p := range pats {
		for _, line := range []string{"extend " + p, "enum:exclude " + p, "arg:context:regex " + p} {
			e.write("pat/in.go", "package pat\n\n// goverter:converter\n// goverter:"+line+"\ntype C interface {\n\tConvert(source In) Out\n}\ntype In struct{ A int }\ntype Out struct{ A int }\n\nfunc ConvA(i int) int { return i }\nfunc ConvToString(i string) string { return i }\n")
			code, _, se := e.run("gen", "./pat")
			if (code != 0 && code != 1) || strings.Contains(se, "goroutine ") {
				bad = append(bad, fmt.Sprintf("pattern %d in %q: exit %d: %s", i, line, code, firstLine(se)))
			}
		}
	}
	return bad, nil
}

var e2eScenarios = map[string]func(repo, dir string, vals map[string]string) ([]string, error){
	"c13": e2eC13,
	"c14": e2eC14,
	"c01": e2eC01,
	"c12": e2eC12,
	"c06": e2eC06,
	"c19": e2eC19,
	"c09": e2eC09,
	"c15": e2eC15,
	"c16": e2eC16,
	"c17": e2eC17,
}

func min(a, b int) int {
	if a < b {
		return a
	}
	return b
}

// sameConstraint: two //go:build lines that state the same expression (the formatter drops redundant parentheses)
func sameConstraint(a, b string) bool {
	if a == b {
		return true
	}
	ea, erra := constraint.Parse(a)
	eb, errb := constraint.Parse(b)
	return erra == nil && errb == nil && ea.String() == eb.String()
}
