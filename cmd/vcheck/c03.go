package main

import (
	"strings"
	"verif/layera"
	"verif/layerb"
)

func init() {
	propRunners["C03"] = runC03
}

func runC03(opt *Options) int {
	lr := &laRun{
		Opt:  opt,
		Pkgs: []string{"generator", "xtype", "builder", "enum"},
		Kernels: []layera.Kernel{
			{Name: "K1.dispatch", Pkg: "generator", Harness: "VerifHarness_C03_Dispatch", Unwind: 800, MaxPaths: 3000000, Workers: 16},
			{Name: "K5.findfield", Pkg: "xtype", Harness: "VerifHarness_C03_FindField", Unwind: 24, MaxPaths: 6000000, Workers: 16, SetInts: map[string]int{"VerifC03HistoryFields": map[bool]int{false: 0, true: 2}[opt.Thorough()]}},
			{Name: "K1.enumdetect", Pkg: "enum", Harness: "VerifHarness_C03_EnumDetect", Unwind: 32},
			{Name: "K5.accessible", Pkg: "xtype", Harness: "VerifHarness_C03_Accessible", Unwind: 16},
			{Name: "K5.structassign", Pkg: "builder", Harness: "VerifHarness_C05_StructAssign", Unwind: 32, MaxPaths: 3000000, Workers: 16},
		},
		Funcs: []string{"generator.(*generator).buildNoLookup", "generator.(*generator).assignNoLookup", "generator.getOverlappingStructDefinition", "generator.typeMismatch", "generator.BuildSteps (order)",
			"builder.(*UseUnderlyingTypeMethods|SkipCopy|Enum|BasicTargetPointerRule|Pointer|SourcePointer|TargetPointer|Basic|Struct|List|Map).Matches", "builder.isEnum", "builder.findUnderlyingExtendMapping",
			"xtype.TypeOf", "xtype.(*Type).Enum", "xtype.loadEnum", "enum.Detect", "method.(*Index).Get", "xtype.FindField", "xtype.findAllFields", "xtype.FindExactField", "xtype.Accessible"},
		Bounds: "24 type shapes per side (basic int/string/uintptr, named basic, enum, pointers to basic/struct/named struct/pointer, slice, named slice, array, map, named map, struct, named struct, interface, named interface, func, chan, type parameter, error) x identical-or-not; all flags (skipCopySameType, useZeroValueOnPointerInconsistency, useUnderlyingTypeMethods, enum, three extend answers) symbolic; Build and Assign paths; FindField: source structs with <= 3 fields + <= 1 method + <= 1 autoMap source with <= 2 fields over a pool of 6 names, ignoreCase symbolic",
		Assume: []string{
			"one dispatch step is the inductive step for types of any depth: every builder recurses only through gen.Build/gen.Assign into the same dispatcher",
			"the extend / declared-method lookup that precedes dispatch (callExisting) is covered by C06's corpus only",
			"builders' Build/Assign are replaced by recording wrappers around the real BuildSteps entries (the real order and the real Matches are used)",
			"go/types runs natively on concrete objects; jennifer opaque",
		},
	}
	// Layer B leg: whole-run accept / reject outcomes (and values of the accepted ones) for field resolution,
	// kind mismatches and signature shapes - the dispatcher's context (which settings reach which struct, what is
	// in scope) is only real in whole runs
	var convs []*layerb.Conv
	convs = append(convs, layerb.FamilyField(opt.Thorough())...)
	convs = append(convs, layerb.FamilyFieldRandom(map[bool]int{false: 16, true: 200}[opt.Thorough()])...)
	for _, c := range layerb.FamilyShape(false, opt.Seed) {
		if c.ExpectFail || strings.Contains(c.ID, "shape/alias_") || strings.Contains(c.ID, "shape/generic_") {
			convs = append(convs, c)
		}
	}
	for _, c := range layerb.FamilyPtrs(false) {
		if c.ExpectFail {
			convs = append(convs, c)
		}
	}
	lb := &lbRun{Opt: opt, Convs: convs, Check: layerb.CheckValue, Bounds: layerb.Bounds{MaxSlice: 1, MaxMap: 1, RecDepth: 1}, NoEvidence: true, Rule: lbRule, Assume: lbAssume, CaseBase: 200}
	lbrc := lb.finish(lb.run(), "translation_validation", nil)
	lr.CaseBase = 500
	rc := lr.finish(lr.run(), map[string]interface{}{"layer_b_accept_reject_leg": lb.LastCov})
	if rc == 0 {
		return lbrc
	}
	return rc
}
