// vcheck: solver-based checks of jmattheis/goverter (see /verif/DESIGN.md).
package main

import (
	"flag"

	"fmt"
	"os"
	"path/filepath"
	"strconv"
	"verif/layerb"
)

func main() {
	prop := flag.String("p", "", "property id (C01..C19)")
	tier := flag.String("tier", "quick", "quick|thorough")
	repo := flag.String("repo", "/repo", "path of the goverter working tree")
	replay := flag.String("replay", "", "replay a recorded violation directory")
	only := flag.String("only", "", "restrict to conv ids containing this substring (debug)")
	verbose := flag.Bool("v", false, "verbose")
	keep := flag.Bool("keep", false, "keep scratch directory (debug)")
	flag.Parse()
	// overlays and go list need one spelling of every path
	if abs, err := filepath.Abs(*repo); err == nil {
		*repo = abs
	}
	if t := os.Getenv("VERIF_TIER"); t != "" {
		*tier = t
	}
	seed := int64(1)
	if s := os.Getenv("VERIF_SEED"); s != "" {
		if v, err := strconv.ParseInt(s, 10, 64); err == nil {
			seed = v
		}
	}
	if *replay != "" {
		os.Exit(runReplay(*replay, *repo))
	}
	if *prop == "" {
		fmt.Fprintln(os.Stderr, "usage: vcheck -p Cxx [-tier quick|thorough]")
		os.Exit(2)
	}
	layerb.Seed = seed
	opt := &Options{Prop: *prop, Tier: *tier, Repo: *repo, Seed: seed, Only: *only, Verbose: *verbose, Keep: *keep}
	os.Exit(runProperty(opt))
}
