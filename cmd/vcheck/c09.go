package main

import "verif/layera"

func init() {
	propRunners["C09"] = runC09
}

func runC09(opt *Options) int {
	lr := &laRun{
		Opt:  opt,
		Pkgs: []string{"xtype", "method", "generator", "builder", "config", "comments", "enum", "."},
		Kernels: []layera.Kernel{
			{Name: "K10.sortedmembers", Pkg: "xtype", Harness: "VerifHarness_C09_SortedMembers", Unwind: 24, ReplayTries: 12},
			{Name: "K10.unused", Pkg: "xtype", Harness: "VerifHarness_C09_Unused", Unwind: 24, ReplayTries: 12},
			{Name: "K10.contextdebug", Pkg: "method", Harness: "VerifHarness_C09_ContextDebug", Unwind: 32, ReplayTries: 12},
			{Name: "K10.unknowncontexts", Pkg: "method", Harness: "VerifHarness_C09_UnknownContexts", Unwind: 64, ReplayTries: 12},
			{Name: "K10.genmethods", Pkg: "generator", Harness: "VerifHarness_C09_GenMethods", Unwind: 24, ReplayTries: 12},
			{Name: "K10.contextorder", Pkg: "generator", Harness: "VerifHarness_C09_ContextOrder", Unwind: 24, ReplayTries: 12},
			{Name: "K10.renderfiles", Pkg: "generator", Harness: "VerifHarness_C09_RenderFiles", Unwind: 64, RecordJen: true, E2E: "c09"},
			{Name: "K10.validatemethods", Pkg: "generator", Harness: "VerifHarness_C09_ValidateMethods", Unwind: 24, ReplayTries: 12},
			func() layera.Kernel { k := kernelGenerateConverters("c09"); k.Name = "K8.writefiles"; return k }(),
			{Name: "K10.extendorder", Pkg: "config", Harness: "VerifHarness_C09_ExtendOrder", Unwind: 24, E2E: "c09", Stub: []string{"(*github.com/jmattheis/goverter/pkgload.PackageLoader).GetMatching"}},
			{Name: "K10.variablesorder", Pkg: "config", Harness: "VerifHarness_C09_VariablesOrder", Unwind: 24, E2E: "c09", Stub: []string{"(*github.com/jmattheis/goverter/pkgload.PackageLoader).GetOneRaw", "github.com/jmattheis/goverter/config.formatLineError", "github.com/jmattheis/goverter/method.Parse", "(*go/types.Var).String"}},
			{Name: "K8.outputfile", Pkg: "config", Harness: "VerifHarness_C15_OutputFile", Unwind: 64, Stub: []string{"github.com/jmattheis/goverter/method.Parse"}, E2E: "c09"},
			{Name: "K7.filescan", Pkg: "comments", Harness: "VerifHarness_C19_ParseDocsFiles", Unwind: 64, E2E: "c09"},
			{Name: "K10.transformregex", Pkg: "enum", Harness: "VerifHarness_C09_TransformRegexOrder", Unwind: 64},
			{Name: "K10.parsedocsfaults", Pkg: "comments", Harness: "VerifHarness_C09_ParseDocsFaults", Unwind: 200, E2E: "c09"},
			{Name: "K8.defaultoutputfile", Pkg: "config", Harness: "VerifHarness_C15_DefaultOutputFile", Unwind: 64, E2E: "c09", SetInts: map[string]int{"VerifC15NameMax": 8}},
			{Name: "K10.unknownfields", Pkg: "builder", Harness: "VerifHarness_C09_UnknownFields", Unwind: 24, ReplayTries: 12},
		},
		Funcs:     []string{"xtype.Enum.SortedMembers", "xtype.UsageFromMap", "xtype.UsageChecker.Used/Unused", "method.AvailableContextDebug", "method.(*Index).Register/GetAll", "generator.(*generator).getGenMethods", "generator.validateMethods", "builder.(*Struct).Assign (tail: configured fields that do not exist)", "builder.(*MethodContext).DefinedFields", "config.parseConverterLine (extend, output:file arms)", "config.parseMethods (variables blocks)", "parse.File", "comments.ParseDocs (faulty packages in every loader order)", "config.defaultOutputFile"},
		E2EAlways: "c09",
		Bounds:    "maps with 2..3 entries whose keys are symbolic one-byte names (pairwise distinct) or fixed distinct names; the order of every range over a map is a symbolic choice over all permutations; each function runs twice per path and must agree with itself",
		Assume: []string{
			"only the map-iteration factor of C09 has an encodable kernel; repetition across processes, pattern order/overlap, -cwd vs chdir, relocation and histories of earlier runs are process / file-system level and outside",
			"config.Parse's final sort, getPackages, Enum.Build's unused-key loop are not covered (their context needs the loader)",
			"sort.Strings / sort.Slice are engine builtins (insertion sort, every comparison a decision)",
			"native replay relies on Go's per-range randomisation: the replay is repeated up to 12 times",
		},
	}
	return lr.finish(lr.run(), nil)
}
