package main

import (
	"encoding/json"
	"fmt"
	"os"
	"path/filepath"
	"sort"
	"strings"

	"verif/layera"
	"verif/layerb"
)

func init() {
	propRunners["C01"] = runC01
}

func runC01(opt *Options) int {
	// (a) gate: every emitted file of the corpus type-checks and defines the declared API
	convs := layerb.FamilyName(opt.Thorough())
	shapes := layerb.FamilyShape(false, opt.Seed)
	if !opt.Thorough() {
		var sub []*layerb.Conv
		for i, c := range shapes {
			if i%3 == 0 {
				sub = append(sub, c)
			}
		}
		shapes = sub
	}
	convs = append(convs, shapes...)
	convs = append(convs, layerb.FamilyCustom(false)...)
	// fallible custom functions below recursive types: the signatures of generated methods change while they are built
	for i, c := range layerb.FamilyError(false) {
		if strings.Contains(c.ID, "recp") || strings.Contains(c.ID, "rec_") || strings.Contains(c.ID, "extend_underlying") || i%9 == 0 {
			convs = append(convs, c)
		}
	}
	// default constructors (error targets of every signature combination) and declared-signature variants
	convs = append(convs, layerb.FamilyDefault(false)...)
	convs = append(convs, layerb.FamilySignature(false)...)
	// enum conversions (switch statements over members: duplicate cases, unexported members)
	for _, c := range layerb.FamilyEnum(false) {
		if strings.HasSuffix(c.ID, "/top") || strings.HasSuffix(c.ID, "/field") {
			convs = append(convs, c)
		}
	}
	// odd but well-typed programs: whatever goverter emits for them must type-check
	convs = append(convs, layerb.FamilyOddities()...)
	lb := &lbRun{Opt: opt, Convs: convs, Check: func(pc *layerb.PathCtx) {}, Bounds: layerb.Bounds{MaxSlice: 0, MaxMap: 0, RecDepth: 0}}
	res := lb.runNoExplore()
	known := loadKnown()
	violations := 0
	knownHits := map[string]int{}
	replayBase := filepath.Join(layera.Root(), "replays", "C01")
	clearReplaysOnce("C01")
	gateChecked := 0
	var gateSamples []interface{}
	if res.Fatal != "" {
		fmt.Println("TOOL-ERROR:", res.Fatal)
		return 2
	}
	checked, findings := res.Driver.Gate(convs)
	gateChecked = checked
	type vf struct {
		f layerb.Finding
	}
	var viols []layerb.Finding
	for _, g := range findings {
		viols = append(viols, layerb.Finding{Conv: g.Conv.ID, Family: g.Conv.Family, Kind: g.Kind, Note: g.Note})
	}
	for _, c := range res.GenFail {
		viols = append(viols, layerb.Finding{Conv: c.ID, Family: c.Family, Kind: "generation", Note: "goverter rejected an input the documented rules cover: " + firstLine(c.GenErr)})
	}
	for _, c := range res.GenUnexp {
		viols = append(viols, layerb.Finding{Conv: c.ID, Family: c.Family, Kind: "generation", Note: "goverter accepted an input that must be rejected: " + c.FailNote})
	}
	sort.Slice(viols, func(i, j int) bool { return viols[i].Conv < viols[j].Conv })
	for i, f := range viols {
		if k := matchKnown(known, "C01", f.Conv, f.Kind, f.Note); k != nil {
			knownHits[k.What]++
			continue
		}
		dir := saveReplay(replayBase, "C01", i, &f, res)
		violations++
		fmt.Printf("VIOLATION property=C01 replay=%s\n  conv=%s kind=%s: %s\n", dir, f.Conv, f.Kind, f.Note)
	}
	for i, c := range convs {
		if i%40 == 0 && len(gateSamples) < 5 {
			gateSamples = append(gateSamples, map[string]string{"conv": c.ID, "format": c.Format, "signature": "(" + c.Params + ") " + c.Results})
		}
	}
	var kh []string
	for w := range knownHits {
		kh = append(kh, w)
	}
	sort.Strings(kh)
	for _, w := range kh {
		fmt.Printf("KNOWN-FINDING: property=C01 %s (%d programs)\n", w, knownHits[w])
	}
	// (b) kernel K3: namer
	la := &laRun{
		Opt:  opt,
		Pkgs: []string{"namer", "config", "generator"},
		Kernels: []layera.Kernel{
			{Name: "K3.namer", Pkg: "namer", Harness: "VerifHarness_C01_Namer", Unwind: 40, MaxPaths: 2000000},
			// the package clause of an emitted file: the last output:package line alone decides path and name
			{Name: "K8.outputpackage", Pkg: "config", Harness: "VerifHarness_C15_OutputPackage", Unwind: 64, Stub: []string{"github.com/jmattheis/goverter/method.Parse"}},
			// ... and the existing package at the output location can only be found if it is pre-loaded for every converter
			{Name: "K8.getpackages", Pkg: "config", Harness: "VerifHarness_C15_GetPackages", Unwind: 64, NoMapPermute: true},
			// the names of all declared methods (update methods included) are reserved before helpers are named
			{Name: "K8.setup", Pkg: "generator", Harness: "VerifHarness_C17_Setup", Unwind: 16},
			// helper names are unique per output package: one namer per output package, whatever the declaring package
			func() layera.Kernel { k := kernelFileManager(); k.E2E = "c01"; return k }(),
			{Name: "K8.declarednames", Pkg: "generator", Harness: "VerifHarness_C01_DeclaredNames", Unwind: 24, RecordJen: true, E2E: "c01", Stub: []string{"github.com/jmattheis/goverter/generator.generateConverter"}},
			// loop index / map / helper names never repeat within a method (declared twice, shadowed)
			{Name: "K9.namerloops", Pkg: "namer", Harness: "VerifHarness_C13_NamerLoops", Unwind: 200, LoopsBounded: true},
		},
		Funcs:  []string{"config.parseConverterLine (output:package arm)", "config.getPackages", "namer.New", "namer.(*Namer).Register", "namer.(*Namer).Name", "namer.(*Namer).Index", "namer.(*Namer).Map", "generator.setupGenerator"},
		Bounds: "namer states built by <= 3 Register calls with arbitrary names of 1..3 bytes over {c,i,j,k,e,y,v,a,l,u,2,3} (contains every identifier the namer itself proposes up to 3 bytes), requested base name likewise; unwind 40 asserted",
		Assume: []string{
			"gate (not a solver verdict): every file emitted for the corpus (F-name, F-shape, F-custom) is type-checked with go/types together with its input package and compared with the declared API; a failure is reported as a C01 violation",
			"the universal claim over programs (arbitrary user names, layouts) is outside: rendering goes through jennifer and go/format",
			"fmt.Sprint on concrete integers is computed natively",
		},
	}
	lares := la.run()
	gate := map[string]interface{}{
		"gate_programs_checked": gateChecked,
		"gate_failures":         len(findings),
		"gate_known":            kh,
		"gate_samples":          gateSamples,
		"gate_note":             "type-check + API conformance of emitted code; not decided by the solver",
		"gate_generation_rejected_expected_success": len(res.GenFail),
		"gate_generation_accepted_expected_failure": len(res.GenUnexp),
	}
	rc := la.finish(lares, gate)
	// patch the evidence with the gate's violations
	if violations > 0 && os.Getenv("VERIF_NO_EVIDENCE") != "" {
		return 1
	}
	if violations > 0 {
		evp := filepath.Join(layera.Root(), "evidence", "C01.json")
		if b, err := os.ReadFile(evp); err == nil {
			var ev map[string]interface{}
			if json.Unmarshal(b, &ev) == nil {
				ev["violations"] = violations + int(ev["violations"].(float64))
				nb, _ := json.MarshalIndent(ev, "", " ")
				os.WriteFile(evp, append(nb, '\n'), 0o644)
			}
		}
		return 1
	}
	return rc
}
