package layerb

import (
	"fmt"
	"go/types"

	"verif/engine"
)

// reach collects every mutable memory slot reachable from v: pointer targets (and the
// addressable sub-slots of their contents), slice backing windows, map objects.
func reach(v engine.Value, set map[*engine.Value]string, path string, depth int) {
	if depth > 30 {
		return
	}
	switch v := v.(type) {
	case engine.Pointer:
		if v.Slot == nil {
			return
		}
		if _, ok := set[v.Slot]; ok {
			return
		}
		set[v.Slot] = path
		reachSlot(v.Slot, set, path+".*", depth+1)
	case engine.Slice:
		if v.Nil {
			return
		}
		for i := range v.Elems {
			s := &v.Elems[i]
			if _, ok := set[s]; ok {
				continue
			}
			set[s] = fmt.Sprintf("%s[%d]", path, i)
			reachSlot(s, set, fmt.Sprintf("%s[%d]", path, i), depth+1)
		}
	case engine.Map:
		if v.M == nil {
			return
		}
		s := engine.MapSlot(v.M)
		if _, ok := set[s]; ok {
			return
		}
		set[s] = path
		for i, e := range v.M.Entries {
			reach(e.K, set, fmt.Sprintf("%s{key %d}", path, i), depth+1)
			reach(e.V, set, fmt.Sprintf("%s{value %d}", path, i), depth+1)
		}
	case engine.Struct:
		for i := range v {
			reach(v[i], set, fmt.Sprintf("%s.%d", path, i), depth+1)
		}
	case engine.Array:
		for i := range v {
			reach(v[i], set, fmt.Sprintf("%s[%d]", path, i), depth+1)
		}
	case engine.Iface:
		if v.T != nil {
			reach(v.V, set, path+".(dyn)", depth+1)
		}
	case engine.Tuple:
		for i := range v {
			reach(v[i], set, fmt.Sprintf("%s#%d", path, i), depth+1)
		}
	}
}

// reachSlot walks the content of an addressable slot: fields/elements of aggregates stored
// in it are addressable too.
func reachSlot(slot *engine.Value, set map[*engine.Value]string, path string, depth int) {
	switch c := (*slot).(type) {
	case engine.Struct:
		for i := range c {
			set[&c[i]] = fmt.Sprintf("%s.%d", path, i)
			reachSlot(&c[i], set, fmt.Sprintf("%s.%d", path, i), depth+1)
		}
	case engine.Array:
		for i := range c {
			set[&c[i]] = fmt.Sprintf("%s[%d]", path, i)
			reachSlot(&c[i], set, fmt.Sprintf("%s[%d]", path, i), depth+1)
		}
	default:
		reach(*slot, set, path, depth)
	}
}

// allowedShare walks source and result along the reference mapping and collects the slots
// that may be shared: those below a position whose source and target types are identical
// (only when skipCopySameType is in effect) or produced by a custom function.
func (o *Oracle) allowedShare(src engine.Value, S types.Type, got engine.Value, T types.Type, allowed map[*engine.Value]string, depth int) {
	if depth > 30 || src == nil || got == nil {
		return
	}
	S, T = types.Unalias(S), types.Unalias(T)
	if o.Spec != nil {
		if _, ok := o.Spec.Custom[pairKey(S, T)]; ok {
			reach(src, allowed, "custom", 0)
			reach(got, allowed, "custom", 0)
			return
		}
		if o.Spec.SkipCopy && types.Identical(S, T) {
			reach(src, allowed, "sametype", 0)
			return
		}
	}
	su, tu := S.Underlying(), T.Underlying()
	sp, sIsPtr := su.(*types.Pointer)
	tp, tIsPtr := tu.(*types.Pointer)
	switch {
	case sIsPtr && tIsPtr:
		s, g := src.(engine.Pointer), got.(engine.Pointer)
		if s.Slot != nil && g.Slot != nil {
			o.allowedShare(*s.Slot, sp.Elem(), *g.Slot, tp.Elem(), allowed, depth+1)
		}
		return
	case tIsPtr:
		g := got.(engine.Pointer)
		if g.Slot != nil {
			o.allowedShare(src, S, *g.Slot, tp.Elem(), allowed, depth+1)
		}
		return
	case sIsPtr:
		s := src.(engine.Pointer)
		if s.Slot != nil {
			o.allowedShare(*s.Slot, sp.Elem(), got, T, allowed, depth+1)
		}
		return
	}
	switch tu := tu.(type) {
	case *types.Slice:
		g, ok := got.(engine.Slice)
		if !ok {
			return
		}
		switch su := su.(type) {
		case *types.Slice:
			s := src.(engine.Slice)
			for i := 0; i < s.Len && i < g.Len; i++ {
				o.allowedShare(s.Elems[i], su.Elem(), g.Elems[i], tu.Elem(), allowed, depth+1)
			}
		case *types.Array:
			s := src.(engine.Array)
			for i := 0; i < len(s) && i < g.Len; i++ {
				o.allowedShare(s[i], su.Elem(), g.Elems[i], tu.Elem(), allowed, depth+1)
			}
		}
	case *types.Array:
		if sa, ok := su.(*types.Array); ok {
			s, g := src.(engine.Array), got.(engine.Array)
			for i := 0; i < len(s) && i < len(g); i++ {
				o.allowedShare(s[i], sa.Elem(), g[i], tu.Elem(), allowed, depth+1)
			}
		}
	case *types.Map:
		sm, ok := su.(*types.Map)
		if !ok {
			return
		}
		s, g := src.(engine.Map), got.(engine.Map)
		if s.M == nil || g.M == nil {
			return
		}
		// any pairing (keys are matched by value by the value obligations); allow per pair
		for _, se := range s.M.Entries {
			for _, ge := range g.M.Entries {
				o.allowedShare(se.K, sm.Key(), ge.K, tu.Key(), allowed, depth+1)
				o.allowedShare(se.V, sm.Elem(), ge.V, tu.Elem(), allowed, depth+1)
			}
		}
	case *types.Struct:
		ss, ok := su.(*types.Struct)
		if !ok {
			return
		}
		sv, gv := src.(engine.Struct), got.(engine.Struct)
		for i := 0; i < tu.NumFields(); i++ {
			tf := tu.Field(i)
			fs, _ := o.fieldSpec(S, T, tf.Name())
			if fs != nil && (fs.Ignore || fs.Free) {
				continue
			}
			if fs != nil && fs.Fn != "" {
				reach(gv[i], allowed, "custom", 0)
				continue
			}
			if fs != nil && (fs.Path != nil || fs.Whole) {
				v, vt, nilOn, ok := o.walkPath(src, S, fs.Path, fs.Whole, tf.Name())
				if ok && !nilOn {
					o.allowedShare(v, vt, gv[i], tf.Type(), allowed, depth+1)
				}
				continue
			}
			idx, n := findField(ss, tf.Name(), false)
			if n == 1 {
				o.allowedShare(sv[idx], ss.Field(idx).Type(), gv[i], tf.Type(), allowed, depth+1)
			}
		}
	}
}

// CheckSharing: C04 — deep copy (no shared mutable memory unless allowed), source never
// written, no package-level state touched.
func CheckSharing(pc *PathCtx) {
	if pc.Panic != nil {
		// panics are C02's subject; nothing to compare
		return
	}
	o := &Oracle{R: pc.R, Spec: pc.Conv.Spec, Calls: pc.Calls}
	srcSet := map[*engine.Value]string{}
	for i, a := range pc.Args {
		if i == pc.TgtIdx {
			continue
		}
		reach(a, srcSet, pc.T.Sig.Params().At(i).Name(), 0)
	}
	// (ii) write monitor
	pc.count(true)
	for _, w := range pc.Writes {
		if where, ok := srcSet[w]; ok {
			pc.Rep.Discharged--
			m, _ := pc.R.Witness(nil)
			pc.Report("write", where, "emitted code writes into memory reachable from the source", m, false)
			return
		}
	}
	// (iii) package-level state
	pc.count(true)
	for _, w := range pc.Writes {
		for _, g := range pc.Globals {
			if slot := pc.R.Globals[g]; slot == w && g != pc.T.Global {
				pc.Rep.Discharged--
				pc.Report("global", g.String(), "emitted code writes a package-level variable", nil, false)
				return
			}
		}
	}
	for _, g := range pc.Globals {
		if g == pc.T.Global {
			continue
		}
		if _, isFunc := g.Type().(*types.Pointer).Elem().Underlying().(*types.Signature); !isFunc {
			pc.Rep.Discharged--
			pc.Report("global", g.String(), "emitted code uses package-level state "+g.String(), nil, false)
			return
		}
	}
	// source unchanged (follows from the write monitor; checked independently as a term)
	if pc.SrcSnap != nil {
		pc.count(true)
		un := Unchanged(pc.R, pc.SrcSnap, pc.Src, o)
		if qr := pc.R.Prove(un); !qr.Holds {
			pc.Rep.Discharged--
			pc.Report("write", "source", "source value differs after the call", qr.Model, qr.Inconclusive)
			return
		}
	}
	// (i) sharing
	ret, retT, what := pc.Ret, pc.RetT, "result"
	src, srcT := pc.Src, pc.SrcT
	if ret == nil && pc.TgtIdx >= 0 {
		// update method: the "result" is what the target argument points to after the call
		if tp, ok := pc.Args[pc.TgtIdx].(engine.Pointer); ok && tp.Slot != nil {
			if pt, ok := pc.T.Sig.Params().At(pc.TgtIdx).Type().Underlying().(*types.Pointer); ok {
				ret, retT, what = *tp.Slot, pt.Elem(), "target"
			}
		}
		if sp, ok := src.(engine.Pointer); ok {
			if spt, ok2 := srcT.Underlying().(*types.Pointer); ok2 && sp.Slot != nil {
				src, srcT = *sp.Slot, spt.Elem()
			}
		}
	}
	if ret == nil {
		return
	}
	pc.count(true)
	resSet := map[*engine.Value]string{}
	reach(ret, resSet, what, 0)
	allowed := map[*engine.Value]string{}
	o.allowedShare(src, srcT, ret, retT, allowed, 0)
	// results of custom functions are exempt
	for _, c := range pc.Calls.Calls {
		reach(c.Result, allowed, "custom", 0)
		for _, a := range c.Args {
			reach(a, allowed, "custom", 0)
		}
	}
	for s, where := range resSet {
		if srcWhere, ok := srcSet[s]; ok {
			if _, ok := allowed[s]; ok {
				continue
			}
			pc.Rep.Discharged--
			m, _ := pc.R.Witness(nil)
			pc.Report("sharing", where, what+" shares mutable memory with the source ("+srcWhere+")", m, false)
			return
		}
	}
}

// CheckValueAndSharing: value obligations (C02/C12) and sharing obligations (C04) on the same path.
func CheckValueAndSharing(pc *PathCtx) {
	CheckValue(pc)
	CheckSharing(pc)
}

// reachRefs collects the slots behind the references a value holds - not the slots the value itself is stored in:
// for a struct, its fields (and the members of nested structs / arrays stored inline) are walked, pointees,
// backing arrays and map objects are collected.
func reachRefs(v engine.Value, set map[*engine.Value]string, path string) {
	switch v := v.(type) {
	case engine.Struct:
		for i := range v {
			reachRefs(v[i], set, fmt.Sprintf("%s.%d", path, i))
		}
	case engine.Array:
		for i := range v {
			reachRefs(v[i], set, fmt.Sprintf("%s[%d]", path, i))
		}
	default:
		reach(v, set, path, 0)
	}
}
