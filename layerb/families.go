package layerb

import (
	"fmt"
	"math/rand"
	"strings"
)

type shape struct {
	Src, Tgt string
	Decls    []string
	Name     string
	NeedZero bool
	Depth    int
	// Custom: additional (S→T) pairs served by custom functions declared in Decls; ConvLines: converter lines they need
	Custom    map[string]string
	ConvLines []string
}

type shapeGen struct{ n int }

func (g *shapeGen) id() int { g.n++; return g.n }

func (g *shapeGen) leaves() []shape {
	k := g.id()
	return []shape{
		{Src: "int", Tgt: "int", Name: "int"},
		{Src: "string", Tgt: "string", Name: "string"},
		{Src: "float64", Tgt: "float64", Name: "float64"},
		{Src: "bool", Tgt: "bool", Name: "bool"},
		{Src: "uint8", Tgt: "uint8", Name: "uint8"},
		{Src: fmt.Sprintf("PFXA%d", k), Tgt: fmt.Sprintf("PFXB%d", k), Name: "named",
			Decls: []string{fmt.Sprintf("type PFXA%d int64\ntype PFXB%d int64", k, k)}},
	}
}

func (g *shapeGen) leaf(name string) shape {
	for _, l := range g.leaves() {
		if l.Name == name {
			return l
		}
	}
	panic(name)
}

type ctor struct {
	Name string
	F    func(g *shapeGen, in shape) shape
}

func wrap(in shape, name, src, tgt string, decls ...string) shape {
	return shape{Src: src, Tgt: tgt, Decls: append(append([]string{}, in.Decls...), decls...), Name: name + "_" + in.Name, NeedZero: in.NeedZero, Depth: in.Depth + 1, Custom: in.Custom, ConvLines: in.ConvLines}
}

// extra constructors used by some families only
var ctorMapPtrKey = ctor{"mapptrk", func(g *shapeGen, in shape) shape {
	return wrap(in, "mapptrk", "map[*int]"+in.Src, "map[*int]"+in.Tgt)
}}

// map whose key conversion goes through an extend function (the converted key differs from the source key)
var ctorMapExtKey = ctor{"mapxk", func(g *shapeGen, in shape) shape {
	k := g.id()
	s := wrap(in, "mapxk", fmt.Sprintf("map[PFXXKA%d]%s", k, in.Src), fmt.Sprintf("map[PFXXKB%d]%s", k, in.Tgt),
		fmt.Sprintf("type PFXXKA%d string\ntype PFXXKB%d string\nfunc PFXKeyExt%d(k PFXXKA%d) PFXXKB%d { return \"\" }", k, k, k, k, k))
	s.Custom = map[string]string{}
	for a, b := range in.Custom {
		s.Custom[a] = b
	}
	s.Custom[fmt.Sprintf("PFXXKA%d→PFXXKB%d", k, k)] = fmt.Sprintf("PFXKeyExt%d", k)
	s.ConvLines = append(append([]string{}, in.ConvLines...), fmt.Sprintf("extend PFXKeyExt%d", k))
	return s
}}

var ctors = []ctor{
	{"ptr", func(g *shapeGen, in shape) shape { return wrap(in, "ptr", "*"+in.Src, "*"+in.Tgt) }},
	{"addr", func(g *shapeGen, in shape) shape { return wrap(in, "addr", in.Src, "*"+in.Tgt) }},
	{"deref", func(g *shapeGen, in shape) shape {
		s := wrap(in, "deref", "*"+in.Src, in.Tgt)
		s.NeedZero = true
		return s
	}},
	{"slice", func(g *shapeGen, in shape) shape { return wrap(in, "slice", "[]"+in.Src, "[]"+in.Tgt) }},
	{"arr", func(g *shapeGen, in shape) shape { return wrap(in, "arr", "[2]"+in.Src, "[]"+in.Tgt) }},
	{"map", func(g *shapeGen, in shape) shape {
		return wrap(in, "map", "map[string]"+in.Src, "map[string]"+in.Tgt)
	}},
	{"mapnk", func(g *shapeGen, in shape) shape {
		k := g.id()
		return wrap(in, "mapnk", fmt.Sprintf("map[PFXKA%d]%s", k, in.Src), fmt.Sprintf("map[PFXKB%d]%s", k, in.Tgt),
			fmt.Sprintf("type PFXKA%d int32\ntype PFXKB%d int32", k, k))
	}},
	{"struct", func(g *shapeGen, in shape) shape {
		k := g.id()
		return wrap(in, "struct", fmt.Sprintf("PFXS%d", k), fmt.Sprintf("PFXT%d", k),
			fmt.Sprintf("type PFXS%d struct {\n\tF %s\n\tG int\n}\ntype PFXT%d struct {\n\tF %s\n\tG int\n}", k, in.Src, k, in.Tgt))
	}},
	{"anon", func(g *shapeGen, in shape) shape {
		return wrap(in, "anon", fmt.Sprintf("struct{ F %s; H string }", in.Src), fmt.Sprintf("struct{ F %s; H string }", in.Tgt))
	}},
	{"rec", func(g *shapeGen, in shape) shape {
		k := g.id()
		return wrap(in, "rec", fmt.Sprintf("PFXRS%d", k), fmt.Sprintf("PFXRT%d", k),
			fmt.Sprintf("type PFXRS%d struct {\n\tV %s\n\tNext *PFXRS%d\n\tKids []PFXRS%d\n}\ntype PFXRT%d struct {\n\tV %s\n\tNext *PFXRT%d\n\tKids []PFXRT%d\n}", k, in.Src, k, k, k, in.Tgt, k, k))
	}},
}

// recursive struct whose self-reference is declared before the converted value
var ctorRecPtrFirst = ctor{"recp", func(g *shapeGen, in shape) shape {
	k := g.id()
	return wrap(in, "recp", fmt.Sprintf("PFXQS%d", k), fmt.Sprintf("PFXQT%d", k),
		fmt.Sprintf("type PFXQS%d struct {\n\tNext *PFXQS%d\n\tV %s\n}\ntype PFXQT%d struct {\n\tNext *PFXQT%d\n\tV %s\n}", k, k, in.Src, k, k, in.Tgt))
}}

// unnamed struct with two converted fields (converted inline by the enclosing method)
var ctorAnonTwo = ctor{"anon2f", func(g *shapeGen, in shape) shape {
	return wrap(in, "anon2f", fmt.Sprintf("struct{ F %s; G %s; H string }", in.Src, in.Src), fmt.Sprintf("struct{ F %s; G %s; H string }", in.Tgt, in.Tgt))
}}

// Seed drives every random choice of the corpus (VERIF_SEED).
var Seed int64 = 1

// extendedCtors: the constructors of the fixed families plus those added for single cases.
func extendedCtors() []ctor {
	return append(append([]ctor{}, ctors...), ctorAnonTwo, ctorRecPtrFirst, ctorMapPtrKey)
}

// randomShape composes depth constructors from the extended set around leaf.
func randomShape(g *shapeGen, rng *rand.Rand, leaf shape, depth int) shape {
	s := leaf
	ext := extendedCtors()
	for i := 0; i < depth; i++ {
		s = ext[rng.Intn(len(ext))].F(g, s)
	}
	return s
}

func ctorByName(n string) ctor {
	if n == "recp" {
		return ctorRecPtrFirst
	}
	if n == "anon2f" {
		return ctorAnonTwo
	}
	for _, c := range ctors {
		if c.Name == n {
			return c
		}
	}
	panic(n)
}

func shapeConv(family string, s shape, format string, extraConv []string, spec *Spec) *Conv {
	cv := &Conv{
		ID:      fmt.Sprintf("%s/%s/%s", family, s.Name, format),
		Family:  family,
		Format:  format,
		Params:  "source " + s.Src,
		Results: s.Tgt,
		Decls:   strings.Join(s.Decls, "\n"),
		Spec:    spec,
	}
	if spec == nil {
		cv.Spec = &Spec{}
	}
	cv.ConvLines = append(cv.ConvLines, extraConv...)
	cv.ConvLines = append(cv.ConvLines, s.ConvLines...)
	if len(s.Custom) > 0 {
		if cv.Spec.Custom == nil {
			cv.Spec.Custom = map[string]string{}
		}
		for a, b := range s.Custom {
			cv.Spec.Custom[a] = b
		}
	}
	if s.NeedZero {
		cv.ConvLines = append(cv.ConvLines, "useZeroValueOnPointerInconsistency")
		cv.Spec.ZeroOnNil = true
	}
	return cv
}

// FamilyShape: every structural rule at every position (C02, C04, C11).
// quick: depth 1 with all leaves + depth 2 with three leaves; thorough adds sampled depth 3.
func FamilyShape(thorough bool, seed int64) []*Conv {
	var out []*Conv
	formats := []string{"struct", "function", "variable"}
	fi := 0
	nextFormat := func() string { f := formats[fi%3]; fi++; return f }
	g := &shapeGen{}
	// depth 1: all leaves, all formats for a few
	for _, c := range ctors {
		for _, l := range g.leaves() {
			s := c.F(g, l)
			out = append(out, shapeConv("shape", s, nextFormat(), nil, nil))
		}
	}
	// depth 2
	for _, c1 := range ctors {
		for _, c2 := range ctors {
			leaves := []string{"int", "string", "named"}
			if c2.Name == "arr" || c2.Name == "slice" {
				leaves = append(leaves, "uint8") // byte sequences invite special-cased copies
			}
			for _, ln := range leaves {
				s := c1.F(g, c2.F(g, g.leaf(ln)))
				out = append(out, shapeConv("shape", s, nextFormat(), nil, nil))
			}
		}
	}
	// maps whose keys are (or contain) pointers
	for _, ln := range []string{"int", "named"} {
		out = append(out, shapeConv("shape", ctorMapPtrKey.F(g, g.leaf(ln)), nextFormat(), nil, nil))
		out = append(out, shapeConv("shape", ctorByName("struct").F(g, ctorMapPtrKey.F(g, g.leaf(ln))), nextFormat(), nil, nil))
		out = append(out, shapeConv("shape", ctorMapPtrKey.F(g, ctorByName("slice").F(g, g.leaf(ln))), nextFormat(), nil, nil))
	}
	// named array and named slice types at the top level and below
	for _, ln := range []string{"int", "float64", "named"} {
		l := g.leaf(ln)
		k := g.id()
		na := shape{Src: fmt.Sprintf("PFXVec%d", k), Tgt: "[]" + l.Tgt, Name: "narr_" + l.Name, Decls: append(append([]string{}, l.Decls...), fmt.Sprintf("type PFXVec%d [2]%s", k, l.Src))}
		out = append(out, shapeConv("shape", na, nextFormat(), nil, nil))
		out = append(out, shapeConv("shape", ctorByName("map").F(g, na), nextFormat(), nil, nil))
		out = append(out, shapeConv("shape", ctorByName("ptr").F(g, na), nextFormat(), nil, nil))
		k2 := g.id()
		ns := shape{Src: fmt.Sprintf("PFXLst%d", k2), Tgt: fmt.Sprintf("PFXLsu%d", k2), Name: "nslice_" + l.Name, Decls: append(append([]string{}, l.Decls...), fmt.Sprintf("type PFXLst%d []%s\ntype PFXLsu%d []%s", k2, l.Src, k2, l.Tgt))}
		out = append(out, shapeConv("shape", ns, nextFormat(), nil, nil))
		out = append(out, shapeConv("shape", ctorByName("struct").F(g, ns), nextFormat(), nil, nil))
	}
	// self-referencing and mutually recursive named types that are not structs
	for _, rc := range []struct{ name, decl, src, tgt string }{
		{"rec_slice", "type PFXRL []PFXRL\ntype PFXRM []PFXRM", "PFXRL", "PFXRM"},
		{"rec_map", "type PFXRMA map[string]PFXRMA\ntype PFXRMB map[string]PFXRMB", "PFXRMA", "PFXRMB"},
		{"rec_ptr", "type PFXRP *PFXRP\ntype PFXRQ *PFXRQ", "PFXRP", "PFXRQ"},
		{"rec_mapkey", "type PFXRK map[*PFXRK]bool\ntype PFXRK2 map[*PFXRK2]bool", "PFXRK", "PFXRK2"},
		{"rec_mutual", "type PFXXA []PFXXB\ntype PFXXB map[string]PFXXA\ntype PFXYA []PFXYB\ntype PFXYB map[string]PFXYA", "PFXXA", "PFXYA"},
		{"rec_in_struct", "type PFXRL2 []PFXRL2\ntype PFXRM2 []PFXRM2\ntype PFXRS struct {\n\tKids PFXRL2\n\tN int\n}\ntype PFXRT struct {\n\tKids PFXRM2\n\tN int\n}", "PFXRS", "PFXRT"},
	} {
		out = append(out, shapeConv("shape", shape{Src: rc.src, Tgt: rc.tgt, Name: rc.name, Decls: []string{rc.decl}}, nextFormat(), nil, nil))
	}
	// byte / uint8 and rune / int32 are the same types under two spellings
	for _, al := range []struct{ name, src, tgt, decl string }{
		{"byte_uint8", "byte", "uint8", ""}, {"uint8_byte", "uint8", "byte", ""}, {"rune_int32", "rune", "int32", ""}, {"int32_rune", "int32", "rune", ""},
		{"named_rune_int32", "PFXCode", "int32", "type PFXCode rune"}, {"byte_named_uint8", "byte", "PFXOctet", "type PFXOctet uint8"},
	} {
		var d []string
		if al.decl != "" {
			d = []string{al.decl}
		}
		leaf := shape{Src: al.src, Tgt: al.tgt, Name: "alias_" + al.name, Decls: d}
		for _, sh := range []shape{leaf, ctorByName("slice").F(g, leaf), ctorByName("ptr").F(g, leaf), ctorByName("struct").F(g, leaf), wrap(leaf, "keyof", "map["+leaf.Src+"]string", "map["+leaf.Tgt+"]string")} {
			out = append(out, shapeConv("shape", sh, nextFormat(), nil, nil))
		}
	}
	// generic (instantiated) recursive structs, by value and behind pointers
	for _, gr := range []struct{ name, src, tgt string }{
		{"generic_tree_ptr", "*PFXTree[int]", "*PFXTreeT[int]"}, {"generic_tree_value", "PFXTree[string]", "PFXTreeT[string]"}, {"generic_tree_addr", "PFXTree[int]", "*PFXTreeT[int]"},
	} {
		cv := shapeConv("shape", shape{Src: gr.src, Tgt: gr.tgt, Name: gr.name, Decls: []string{"type PFXTree[T any] struct {\n\tV T\n\tChildren []PFXTree[T]\n\tByKey map[string]PFXTree[T]\n}\ntype PFXTreeT[T any] struct {\n\tV T\n\tChildren []PFXTreeT[T]\n\tByKey map[string]PFXTreeT[T]\n}"}}, nextFormat(), nil, nil)
		cv.Bounds = &Bounds{MaxSlice: 1, MaxMap: 1, RecDepth: 1}
		out = append(out, cv)
	}
	// two instantiations of one generic type inside one type (map key and value, pair of fields)
	for _, gi := range []struct{ name, src, tgt string }{
		{"generic_two_instances_map", "map[PFXOpt[int]]PFXOpt[string]", "map[PFXOptT[int]]PFXOptT[string]"},
		{"generic_two_instances_map_same_target", "map[PFXOpt[int]]PFXOpt[string]", "map[PFXOpt[int]]PFXOpt[string]"},
		{"generic_two_instances_fields", "struct{ A PFXOpt[int]; B PFXOpt[string]; C []PFXOpt[bool] }", "struct{ A PFXOptT[int]; B PFXOptT[string]; C []PFXOptT[bool] }"},
		{"generic_two_instances_nested_map", "map[string]map[PFXOpt[int8]][]PFXOpt[int16]", "map[string]map[PFXOptT[int8]][]PFXOptT[int16]"},
	} {
		cv := shapeConv("shape", shape{Src: gi.src, Tgt: gi.tgt, Name: gi.name, Decls: []string{"type PFXOpt[T comparable] struct {\n\tV T\n\tOK bool\n}\ntype PFXOptT[T comparable] struct {\n\tV T\n\tOK bool\n}"}}, nextFormat(), nil, nil)
		cv.Bounds = &Bounds{MaxSlice: 1, MaxMap: 1, RecDepth: 1}
		out = append(out, cv)
	}
	// embedded pointer fields: nil stays nil, the pointee is copied (the field is named after the embedded type)
	for _, em := range []struct{ name, src, tgt string }{
		{"embedded_pointer", "PFXEs", "PFXEt"}, {"embedded_pointer_elem", "[]PFXEs", "[]PFXEt"}, {"embedded_pointer_ptr", "*PFXEs", "*PFXEt"}, {"embedded_pointer_unnamed", "struct{ *PFXBase; N int }", "struct{ *PFXBase; N int }"},
	} {
		out = append(out, shapeConv("shape", shape{Src: em.src, Tgt: em.tgt, Name: em.name, Decls: []string{"type PFXBase struct {\n\tV int\n\tL []int\n}\ntype PFXEs struct {\n\t*PFXBase\n\tN int\n}\ntype PFXEt struct {\n\t*PFXBase\n\tN int\n}"}}, nextFormat(), nil, nil))
	}
	// three container levels in one method: nil / non-nil empty at the middle level, nested maps whose inner keys are
	// converted (the outer map empty but not nil)
	for _, tl := range []struct{ name, src, tgt string }{
		{"three_levels_slice_slice_ptr", "[][]*PFXTa", "[][]*PFXTb"},
		{"three_levels_map_map_convkey", "map[string]map[PFXTk]int", "map[string]map[string]int"},
		{"three_levels_slice_map_slice", "[]map[string][]PFXTa", "[]map[string][]PFXTb"},
		{"three_levels_field_slice_slice_ptr", "struct{ M [][]*PFXTa; N int }", "struct{ M [][]*PFXTb; N int }"},
	} {
		cv := shapeConv("shape", shape{Src: tl.src, Tgt: tl.tgt, Name: tl.name, Decls: []string{"type PFXTa struct{ V int }\ntype PFXTb struct{ V int }\ntype PFXTk string"}}, nextFormat(), nil, nil)
		cv.Bounds = &Bounds{MaxSlice: 2, MaxMap: 1, RecDepth: 1}
		out = append(out, cv)
	}
	// more nested loops in one method than there are single-letter index names
	for _, ds := range []struct {
		name, src string
		spine     int
	}{{"deep_slices_21", strings.Repeat("[]", 21) + "int", 18}, {"deep_slices_19_map", strings.Repeat("[]", 19) + "map[string][]int", 17}, {"deep_slices_18", strings.Repeat("[]", 18) + "int", 15}} {
		cv := shapeConv("shape", shape{Src: ds.src, Tgt: ds.src, Name: ds.name}, nextFormat(), nil, nil)
		cv.Bounds = &Bounds{MaxSlice: 2, MaxMap: 1, RecDepth: 1, Spine: ds.spine}
		out = append(out, cv)
	}
	// basic kinds never change silently: a target of another kind (named or not, at any position) is rejected
	for _, km := range []struct{ name, src, tgt, decl string }{
		{"int64_named_int32", "int64", "PFXCnt", "type PFXCnt int32"},
		{"uint64_named_uint16", "uint64", "PFXPort", "type PFXPort uint16"},
		{"float64_named_float32", "float64", "PFXRatio", "type PFXRatio float32"},
		{"int_named_int64", "int", "PFXWide", "type PFXWide int64"},
		{"named_int32_named_int64", "PFXN32", "PFXN64", "type PFXN32 int32\ntype PFXN64 int64"},
		{"named_int64_int32", "PFXM64", "int32", "type PFXM64 int64"},
		{"int_uint", "int", "uint", ""},
		{"int_named_string", "int", "PFXLabel", "type PFXLabel string"},
		{"uint8_named_int8", "uint8", "PFXSigned", "type PFXSigned int8"},
	} {
		var d []string
		if km.decl != "" {
			d = []string{km.decl}
		}
		leaf := shape{Src: km.src, Tgt: km.tgt, Name: "kind_" + km.name, Decls: d}
		for _, s := range []shape{leaf, ctorByName("struct").F(g, leaf), ctorByName("slice").F(g, leaf), ctorByName("map").F(g, leaf), ctorByName("ptr").F(g, leaf)} {
			cv := shapeConv("shape", s, nextFormat(), nil, nil)
			cv.ID = "shape/fail_" + s.Name + "/" + cv.Format
			cv.ExpectFail, cv.FailNote = true, "basic value converted to a basic type of another kind ("+km.src+" -> "+km.tgt+")"
			out = append(out, cv)
		}
	}
	out = append(out, shapeConv("shape", shape{Src: "map[PFXPK]int", Tgt: "map[PFXPK]int", Name: "mapstructptrkey", Decls: []string{"type PFXPK struct {\n\tP *int\n\tN string\n}"}}, nextFormat(), nil, nil))
	// seeded random compositions over the extended constructor set (quick: a small sample; thorough: more and deeper)
	{
		rng := rand.New(rand.NewSource(seed*7919 + 11))
		leafNames := []string{"int", "string", "float64", "bool", "uint8", "named"}
		n3, n4 := 40, 0
		if thorough {
			n3, n4 = 300, 150
		}
		seenR := map[string]bool{}
		for i := 0; i < n3+n4; i++ {
			depth := 3
			if i >= n3 {
				depth = 4
			}
			s := randomShape(g, rng, g.leaf(leafNames[rng.Intn(len(leafNames))]), depth)
			if seenR[s.Name] || strings.Count(s.Name, "rec") > 1 {
				continue
			}
			seenR[s.Name] = true
			cv := shapeConv("shape", s, nextFormat(), nil, nil)
			cv.ID = "shape/rnd_" + s.Name + "/" + cv.Format
			if depth == 4 {
				cv.Bounds = &Bounds{MaxSlice: 1, MaxMap: 1, RecDepth: 1}
			}
			out = append(out, cv)
		}
	}
	if thorough {
		rng := rand.New(rand.NewSource(seed))
		leafNames := []string{"int", "string", "float64", "bool", "uint8", "named"}
		seen := map[string]bool{}
		for len(seen) < 400 {
			c1, c2, c3 := ctors[rng.Intn(len(ctors))], ctors[rng.Intn(len(ctors))], ctors[rng.Intn(len(ctors))]
			ln := leafNames[rng.Intn(len(leafNames))]
			key := c1.Name + c2.Name + c3.Name + ln
			if seen[key] {
				continue
			}
			seen[key] = true
			s := c1.F(g, c2.F(g, c3.F(g, g.leaf(ln))))
			out = append(out, shapeConv("shape", s, nextFormat(), nil, nil))
		}
	}
	return out
}
