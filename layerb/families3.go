package layerb

import (
	"fmt"
	"math/rand"
	"sort"
	"strings"
)

type enumMember struct {
	Name string
	Val  string // Go literal
}

type enumDef struct {
	Under   string
	Members []enumMember
}

func (e enumDef) source(pkg, typ string) string {
	var sb strings.Builder
	fmt.Fprintf(&sb, "package %s\n\ntype %s %s\n\nconst (\n", pkg, typ, e.Under)
	for _, m := range e.Members {
		fmt.Fprintf(&sb, "\t%s %s = %s\n", m.Name, typ, m.Val)
	}
	sb.WriteString(")\n")
	return sb.String()
}

func (e enumDef) val(name string) string {
	for _, m := range e.Members {
		if m.Name == name {
			return m.Val
		}
	}
	return ""
}

// enumCase describes one enum pair + settings + intended mapping.
type enumCase struct {
	Name      string
	Src, Tgt  enumDef
	Lines     []string          // method-level enum:map / enum:transform lines
	Mapping   map[string]string // source member -> target member or @action (the intent)
	Unknown   string            // policy
	Fail      string            // non-empty: generation must fail, with this note
	NoEnum    bool              // enum detection off / excluded: plain basic copy
	SameType  bool              // the source enum type on both sides (Tgt repeats Src)
	ExtraConv []string
}

func enumCases() []enumCase {
	rgb := func(under string, vals ...string) enumDef {
		names := []string{"Red", "Green", "Blue", "Alpha"}
		d := enumDef{Under: under}
		for i, v := range vals {
			d.Members = append(d.Members, enumMember{names[i], v})
		}
		return d
	}
	same := map[string]string{"Red": "Red", "Green": "Green", "Blue": "Blue"}
	cases := []enumCase{
		{Name: "int", Src: rgb("int", "0", "1", "2"), Tgt: rgb("int", "10", "20", "30"), Mapping: same},
		{Name: "uint8", Src: rgb("uint8", "1", "2", "255"), Tgt: rgb("uint8", "0", "128", "7"), Mapping: same},
		{Name: "int64big", Src: rgb("int64", "-9223372036854775808", "4611686018427387904", "9223372036854775807"), Tgt: rgb("int64", "1", "-1", "0"), Mapping: same},
		{Name: "uint64big", Src: rgb("uint64", "18446744073709551615", "9223372036854775808", "0"), Tgt: rgb("uint64", "3", "18446744073709551614", "1"), Mapping: same},
		{Name: "string", Src: rgb("string", `"r"`, `"g"`, `""`), Tgt: rgb("string", `"RED"`, `"GREEN"`, `"BLUE"`), Mapping: same},
		{Name: "float", Src: rgb("float64", "0.5", "1.5", "0"), Tgt: rgb("float64", "1", "2", "3.25"), Mapping: same},
		{Name: "int_to_string", Src: rgb("int", "0", "1", "2"), Tgt: rgb("string", `"a"`, `"b"`, `"c"`), Mapping: same},
		{Name: "tgt_superset", Src: rgb("int", "0", "1", "2"), Tgt: rgb("int", "3", "2", "1", "0"), Mapping: same},
		{Name: "alias_same_target", Src: enumDef{"int", []enumMember{{"Red", "0"}, {"Green", "1"}, {"Blue", "2"}, {"Azure", "2"}}},
			Tgt:     enumDef{"int", []enumMember{{"Red", "5"}, {"Green", "6"}, {"Blue", "7"}, {"Azure", "7"}}},
			Mapping: map[string]string{"Red": "Red", "Green": "Green", "Blue": "Blue", "Azure": "Azure"}},
		{Name: "alias_mapped", Src: enumDef{"int", []enumMember{{"Red", "0"}, {"Green", "1"}, {"Blue", "2"}, {"Azure", "2"}}},
			Tgt:     rgb("int", "5", "6", "7"),
			Lines:   []string{"enum:map Azure Blue"},
			Mapping: map[string]string{"Red": "Red", "Green": "Green", "Blue": "Blue", "Azure": "Blue"}},
		// ... the alphabetically later alias carries the explicit line (Aqua < Blue), and both do
		{Name: "alias_later_mapped", Src: enumDef{"int", []enumMember{{"Red", "0"}, {"Green", "1"}, {"Aqua", "2"}, {"Blue", "2"}}},
			Tgt:     enumDef{"int", []enumMember{{"Red", "5"}, {"Green", "6"}, {"Aqua", "7"}}},
			Lines:   []string{"enum:map Blue Aqua"},
			Mapping: map[string]string{"Red": "Red", "Green": "Green", "Aqua": "Aqua", "Blue": "Aqua"}},
		{Name: "alias_both_mapped", Src: enumDef{"int", []enumMember{{"Red", "0"}, {"Green", "1"}, {"Aqua", "2"}, {"Blue", "2"}, {"Cyan", "2"}}},
			Tgt:     rgb("int", "5", "6", "7"),
			Lines:   []string{"enum:map Aqua Blue", "enum:map Blue Blue", "enum:map Cyan Blue"},
			Mapping: map[string]string{"Red": "Red", "Green": "Green", "Aqua": "Blue", "Blue": "Blue", "Cyan": "Blue"}},
		{Name: "map_rename", Src: enumDef{"int", []enumMember{{"Red", "0"}, {"Gray", "1"}, {"Blue", "2"}}},
			Tgt:     enumDef{"int", []enumMember{{"Red", "7"}, {"Grey", "8"}, {"Blue", "9"}}},
			Lines:   []string{"enum:map Gray Grey"},
			Mapping: map[string]string{"Red": "Red", "Gray": "Grey", "Blue": "Blue"}},
		{Name: "map_actions", Src: enumDef{"int", []enumMember{{"Red", "0"}, {"Green", "1"}, {"Blue", "2"}, {"Alpha", "3"}}},
			Tgt:     rgb("int", "7", "8", "9"),
			Lines:   []string{"enum:map Green @ignore", "enum:map Blue @error", "enum:map Alpha @panic"},
			Mapping: map[string]string{"Red": "Red", "Green": "@ignore", "Blue": "@error", "Alpha": "@panic"}},
		{Name: "map_overrides_name", Src: rgb("int", "0", "1", "2"), Tgt: rgb("int", "7", "8", "9"),
			Lines:   []string{"enum:map Red Blue", "enum:map Blue Red"},
			Mapping: map[string]string{"Red": "Blue", "Green": "Green", "Blue": "Red"}},
		{Name: "transform_regex", Src: enumDef{"int", []enumMember{{"SrcRed", "0"}, {"SrcGreen", "1"}, {"SrcBlue", "2"}}},
			Tgt:     enumDef{"int", []enumMember{{"TgtRed", "4"}, {"TgtGreen", "5"}, {"TgtBlue", "6"}}},
			Lines:   []string{`enum:transform regex Src(\w+) Tgt$1`},
			Mapping: map[string]string{"SrcRed": "TgtRed", "SrcGreen": "TgtGreen", "SrcBlue": "TgtBlue"}},
		{Name: "transform_and_map", Src: enumDef{"int", []enumMember{{"SrcRed", "0"}, {"SrcGreen", "1"}, {"SrcBlue", "2"}}},
			Tgt:     enumDef{"int", []enumMember{{"TgtRed", "4"}, {"TgtGreen", "5"}, {"TgtBlue", "6"}}},
			Lines:   []string{`enum:transform regex Src(\w+) Tgt$1`, "enum:map SrcRed TgtBlue"},
			Mapping: map[string]string{"SrcRed": "TgtBlue", "SrcGreen": "TgtGreen", "SrcBlue": "TgtBlue"}},
		// enum:exclude PACKAGE:NAME - an alternation inside NAME stays inside NAME: types of other packages are not excluded
		{Name: "exclude_other_package_alternation", Src: rgb("int", "0", "1", "2"), Tgt: rgb("int", "7", "8", "9"),
			ExtraConv: []string{"enum:exclude corpus/GRP/pfxnone:Flag|Color", "enum:exclude corpus/GRP/pfxnone|corpus/other:Color"}, Mapping: same},
		// enum:map with the same name on both sides is a mapping like any other: it beats the transformer, and it is
		// checked against the members that exist
		{Name: "identity_map_beats_transform", Src: enumDef{"int", []enumMember{{"Red", "0"}, {"Green", "1"}, {"Blue", "2"}}},
			Tgt:     enumDef{"int", []enumMember{{"Red", "4"}, {"XRed", "5"}, {"XGreen", "6"}, {"XBlue", "7"}}},
			Lines:   []string{`enum:transform regex (.+) X$1`, "enum:map Red Red"},
			Mapping: map[string]string{"Red": "Red", "Green": "XGreen", "Blue": "XBlue"}},
		{Name: "fail_identity_map_missing_key", Src: rgb("int", "0", "1", "2"), Tgt: rgb("int", "7", "8", "9"),
			Lines: []string{"enum:map Oops Oops"}, Mapping: same, Fail: "enum:map Oops Oops names a source member that does not exist"},
		// several transformers on one method: each runs with its own configuration
		{Name: "two_transformers", Src: enumDef{"int", []enumMember{{"SrcRed", "0"}, {"SrcGreen", "1"}, {"OldBlue", "2"}}},
			Tgt:     enumDef{"int", []enumMember{{"TgtRed", "4"}, {"TgtGreen", "5"}, {"NewBlue", "6"}}},
			Lines:   []string{`enum:transform regex Src(\w+) Tgt$1`, `enum:transform regex Old(\w+) New$1`},
			Mapping: map[string]string{"SrcRed": "TgtRed", "SrcGreen": "TgtGreen", "OldBlue": "NewBlue"}},
		{Name: "two_transformers_same_name_target", Src: enumDef{"int", []enumMember{{"SrcRed", "0"}, {"SrcGreen", "1"}, {"OldBlue", "2"}}},
			Tgt:     enumDef{"int", []enumMember{{"TgtRed", "4"}, {"TgtGreen", "5"}, {"NewBlue", "6"}, {"OldBlue", "7"}}},
			Lines:   []string{`enum:transform regex Src(\w+) Tgt$1`, `enum:transform regex Old(\w+) New$1`},
			Mapping: map[string]string{"SrcRed": "TgtRed", "SrcGreen": "TgtGreen", "OldBlue": "NewBlue"}},
		{Name: "three_transformers_and_map", Src: enumDef{"int", []enumMember{{"SrcRed", "0"}, {"AGreen", "1"}, {"OldBlue", "2"}}},
			Tgt:     enumDef{"int", []enumMember{{"TgtRed", "4"}, {"BGreen", "5"}, {"NewBlue", "6"}}},
			Lines:   []string{`enum:transform regex A(\w+) B$1`, `enum:transform regex Src(\w+) Tgt$1`, `enum:transform regex Old(\w+) New$1`, "enum:map SrcRed NewBlue"},
			Mapping: map[string]string{"SrcRed": "NewBlue", "AGreen": "BGreen", "OldBlue": "NewBlue"}},
		{Name: "transform_regex_repeated", Src: enumDef{"int", []enumMember{{"S_Not_Found", "0"}, {"S_Ok", "1"}, {"S_A_B_C", "2"}, {"Plain", "3"}}},
			Tgt:     enumDef{"int", []enumMember{{"SNotFound", "4"}, {"SOk", "5"}, {"SABC", "6"}, {"Plain", "7"}, {"SNot_Found", "8"}}},
			Lines:   []string{`enum:transform regex _([A-Z]) $1`},
			Mapping: map[string]string{"S_Not_Found": "SNotFound", "S_Ok": "SOk", "S_A_B_C": "SABC", "Plain": "Plain"}},
		{Name: "int64_lowbits", Src: rgb("int64", "1152921504606846977", "1152921504606846978", "1152921504606846979"), Tgt: rgb("int", "1", "2", "3"), Mapping: same},
		{Name: "uint64_lowbits", Src: rgb("uint64", "18446744073709551613", "18446744073709551614", "18446744073709551615"), Tgt: rgb("string", `"a"`, `"b"`, `"c"`), Mapping: same},
		{Name: "int64_lowbits_negative", Src: rgb("int64", "-9007199254740993", "-9007199254740992", "-9007199254740994"), Tgt: rgb("int8", "1", "2", "3"), Mapping: same},
		// the transformer's answer has precedence over a target member that happens to carry the source name
		{Name: "transform_beats_same_name", Src: enumDef{"int", []enumMember{{"Max", "0"}, {"Min", "1"}, {"Mid", "2"}}},
			Tgt:     enumDef{"int", []enumMember{{"LevelMax", "5"}, {"LevelMin", "6"}, {"LevelMid", "7"}, {"Max", "8"}, {"Mid", "9"}}},
			Lines:   []string{`enum:transform regex (\w+) Level$1`},
			Mapping: map[string]string{"Max": "LevelMax", "Min": "LevelMin", "Mid": "LevelMid"}},
		// one enum type on both sides (no skipCopySameType): still a member-wise switch with the unknown policy
		{Name: "sametype", Src: rgb("int", "1", "2", "3"), Tgt: rgb("int", "1", "2", "3"), SameType: true, Mapping: same},
		{Name: "sametype_string", Src: rgb("string", `"r"`, `"g"`, `"b"`), Tgt: rgb("string", `"r"`, `"g"`, `"b"`), SameType: true, Mapping: same},
		{Name: "sametype_map_swap", Src: rgb("int", "1", "2", "3"), Tgt: rgb("int", "1", "2", "3"), SameType: true,
			Lines: []string{"enum:map Red Blue"}, Mapping: map[string]string{"Red": "Blue", "Green": "Green", "Blue": "Blue"}},
		{Name: "fail_sametype_no_unknown", Src: rgb("int", "1", "2", "3"), Tgt: rgb("int", "1", "2", "3"), SameType: true, Mapping: same, Unknown: "none", Fail: "enum:unknown missing (same enum type on both sides)"},
		{Name: "fail_sametype_map_missing_key", Src: rgb("int", "1", "2", "3"), Tgt: rgb("int", "1", "2", "3"), SameType: true,
			Lines: []string{"enum:map Purple Red"}, Mapping: same, Fail: "enum:map key Purple does not exist (same enum type on both sides)"},
		// must fail
		{Name: "fail_unmapped_member", Src: enumDef{"int", []enumMember{{"Red", "0"}, {"Green", "1"}, {"Teal", "2"}}}, Tgt: rgb("int", "7", "8", "9"),
			Mapping: same, Fail: "source member Teal has no target"},
		{Name: "fail_map_missing_key", Src: rgb("int", "0", "1", "2"), Tgt: rgb("int", "7", "8", "9"),
			Lines: []string{"enum:map Purple Red"}, Mapping: same, Fail: "enum:map key Purple does not exist"},
		{Name: "fail_map_missing_target", Src: rgb("int", "0", "1", "2"), Tgt: rgb("int", "7", "8", "9"),
			Lines: []string{"enum:map Red Purple"}, Mapping: same, Fail: "enum:map target Purple does not exist"},
		{Name: "fail_dup_disagree", Src: enumDef{"int", []enumMember{{"Red", "0"}, {"Green", "1"}, {"Blue", "1"}}}, Tgt: rgb("int", "7", "8", "9"),
			Mapping: same, Fail: "members with equal values map to different targets"},
		{Name: "fail_alias_member_vs_ignore", Src: enumDef{"int", []enumMember{{"Red", "0"}, {"Green", "1"}, {"Blue", "2"}, {"Azure", "2"}}}, Tgt: rgb("int", "7", "8", "9"),
			Lines: []string{"enum:map Azure @ignore"}, Mapping: same, Fail: "members with equal values: one maps to a target member, the other to an action"},
		{Name: "fail_alias_member_vs_panic", Src: enumDef{"int", []enumMember{{"Red", "0"}, {"Green", "1"}, {"Blue", "2"}, {"Azure", "2"}}}, Tgt: rgb("int", "7", "8", "9"),
			Lines: []string{"enum:map Blue @panic", "enum:map Azure Blue"}, Mapping: same, Fail: "members with equal values: one maps to an action, the other to a target member"},
		{Name: "fail_alias_two_actions", Src: enumDef{"int", []enumMember{{"Red", "0"}, {"Green", "1"}, {"Blue", "2"}, {"Azure", "2"}}}, Tgt: rgb("int", "7", "8", "9"),
			Lines: []string{"enum:map Blue @error", "enum:map Azure @ignore"}, Mapping: same, Fail: "members with equal values map to different actions"},
		{Name: "fail_no_unknown", Src: rgb("int", "0", "1", "2"), Tgt: rgb("int", "7", "8", "9"), Mapping: same, Unknown: "none", Fail: "enum:unknown missing"},
		{Name: "fail_no_unknown_every_member_mapped", Src: rgb("int", "0", "1", "2"), Tgt: rgb("int", "7", "8", "9"),
			Lines: []string{"enum:map Red Red", "enum:map Green Green", "enum:map Blue Blue"}, Mapping: same, Unknown: "none", Fail: "enum:unknown missing (every member is listed by an enum:map line)"},
		{Name: "fail_map_three_fields", Src: rgb("int", "0", "1", "2"), Tgt: rgb("int", "7", "8", "9"),
			Lines: []string{"enum:map Red Green Blue"}, Mapping: same, Fail: "enum:map with three fields"},
		// a member without a target of its name is an error also when another member of the same value has one
		{Name: "fail_alias_member_without_target", Src: enumDef{"int", []enumMember{{"Red", "0"}, {"Green", "1"}, {"Blue", "2"}, {"Teal", "2"}}}, Tgt: rgb("int", "7", "8", "9"),
			Mapping: same, Fail: "source member Teal has no target (Blue, a member of equal value, has one)"},
		{Name: "fail_alias_member_without_target_first", Src: enumDef{"int", []enumMember{{"Azure", "2"}, {"Red", "0"}, {"Green", "1"}, {"Blue", "2"}}}, Tgt: rgb("int", "7", "8", "9"),
			Mapping: same, Fail: "source member Azure has no target (Blue, a member of equal value, has one)"},
		// member names are matched exactly: matchIgnoreCase is about struct fields
		{Name: "fail_member_in_other_case_matchignorecase", Src: enumDef{"int", []enumMember{{"Red", "0"}, {"Green", "1"}, {"BLUE", "2"}}}, Tgt: rgb("int", "7", "8", "9"),
			Mapping: same, ExtraConv: []string{"matchIgnoreCase"}, Fail: "source member BLUE exists in the target only in another case (matchIgnoreCase in effect)"},
		// exclude lines are matched one by one: a line for another type of the package and a line for the same type
		// name in another package do not exclude this enum
		{Name: "exclude_lines_not_combined", Src: rgb("int", "0", "1", "2"), Tgt: rgb("int", "7", "8", "9"), Mapping: same,
			ExtraConv: []string{"enum:exclude corpus/GRP/pfxsrc:Nope", "enum:exclude corpus/GRP/elsewhere:Color", "enum:exclude Flags"}},
		// enum detection disabled: plain copy of the basic value
		{Name: "enum_no", Src: rgb("int", "0", "1", "2"), Tgt: rgb("int", "7", "8", "9"), NoEnum: true, ExtraConv: []string{"enum no"}},
		{Name: "enum_exclude", Src: rgb("int", "0", "1", "2"), Tgt: rgb("int", "7", "8", "9"), NoEnum: true, ExtraConv: []string{"enum:exclude corpus/GRP/pfxsrc:Color"}},
	}
	return append(cases, randomEnumCases(map[bool]int{false: 8, true: 80}[enumThorough])...)
}

var enumThorough bool

// randomEnumCases: seeded random enum pairs - underlying kind, 2..5 members with values that may repeat (aliases
// keep a common target), targets with other values and extra members, some members re-mapped with enum:map to
// another target member or to an action - plus single-fault mutants that must be rejected.
func randomEnumCases(n int) []enumCase {
	rng := rand.New(rand.NewSource(Seed*32452843 + 29))
	var out []enumCase
	for i := 0; i < n; i++ {
		names := []string{"Red", "Green", "Blue", "Alpha", "Teal"}
		under := []string{"int", "uint8", "int64", "string", "int32"}[rng.Intn(5)]
		tunder := under
		if rng.Intn(4) == 0 {
			tunder = []string{"int", "string"}[rng.Intn(2)]
		}
		big := rng.Intn(3) == 0
		lit := func(u string, v int) string {
			switch {
			case u == "string":
				return fmt.Sprintf("%q", fmt.Sprintf("v%d", v))
			case big && u == "int64":
				// neighbours far beyond 2^53 (not representable as distinct float64 values), both signs
				if v%2 == 0 {
					return fmt.Sprint(int64(1)<<62 + int64(v))
				}
				return fmt.Sprint(-(int64(1) << 61) - int64(v))
			}
			return fmt.Sprint(v)
		}
		k := 2 + rng.Intn(4)
		src := enumDef{Under: under}
		tgt := enumDef{Under: tunder}
		mapping := map[string]string{}
		var lines []string
		vals := rng.Perm(9)
		for j := 0; j < k; j++ {
			src.Members = append(src.Members, enumMember{names[j], lit(under, vals[j])})
			tgt.Members = append(tgt.Members, enumMember{names[j], lit(tunder, 10+vals[(j+3)%9])})
			mapping[names[j]] = names[j]
		}
		// an extra target member nobody maps to by name
		tgt.Members = append(tgt.Members, enumMember{"Extra", lit(tunder, 40)})
		// re-map one member explicitly
		switch rng.Intn(4) {
		case 0:
			lines = append(lines, "enum:map "+names[0]+" Extra")
			mapping[names[0]] = "Extra"
		case 1:
			act := []string{"@ignore", "@error", "@panic"}[rng.Intn(3)]
			lines = append(lines, "enum:map "+names[k-1]+" "+act)
			mapping[names[k-1]] = act
		case 2:
			lines = append(lines, "enum:map "+names[0]+" "+names[1])
			mapping[names[0]] = names[1]
		}
		// an alias of the first member (same value): follows the first member's mapping
		if rng.Intn(3) == 0 {
			src.Members = append(src.Members, enumMember{"Alias", src.Members[0].Val})
			tgt.Members = append(tgt.Members, enumMember{"Alias", tgt.val(stripAction(mapping[names[0]], names[0]))})
			if isAction(mapping[names[0]]) {
				lines = append(lines, "enum:map Alias "+mapping[names[0]])
				mapping["Alias"] = mapping[names[0]]
			} else {
				lines = append(lines, "enum:map Alias "+mapping[names[0]])
				mapping["Alias"] = mapping[names[0]]
			}
		}
		var extraConv []string
		if rng.Intn(3) == 0 {
			// exclude lines that each match only the package or only the type name of this enum
			extraConv = []string{"enum:exclude corpus/GRP/pfxsrc:Nope", "enum:exclude corpus/GRP/elsewhere:Color"}
		}
		if rng.Intn(3) == 0 {
			// names related by a transformer instead of equality: S_Some_Name -> SSomeName (the pattern matches
			// several times per name); explicit enum:map lines keep precedence
			ren := func(n string) string { return "S_" + n + "_X" }
			tren := func(n string) string { return "S" + n + "X" }
			for j := range src.Members {
				src.Members[j].Name = ren(src.Members[j].Name)
			}
			for j := range tgt.Members {
				tgt.Members[j].Name = tren(tgt.Members[j].Name)
			}
			m2 := map[string]string{}
			for a, b := range mapping {
				if isAction(b) {
					m2[ren(a)] = b
				} else {
					m2[ren(a)] = tren(b)
				}
			}
			mapping = m2
			for li, l := range lines {
				f := strings.Fields(l)
				t := f[2]
				if !isAction(t) {
					t = tren(t)
				}
				lines[li] = "enum:map " + ren(f[1]) + " " + t
			}
			lines = append([]string{`enum:transform regex _([A-Z]) $1`}, lines...)
			if rng.Intn(2) == 0 {
				// the target also declares a member under the source's spelling: the transformer still decides
				tgt.Members = append(tgt.Members, enumMember{ren(names[1]), lit(tunder, 41)})
			}
			names = []string{ren("Red"), ren("Green"), ren("Blue"), ren("Alpha"), ren("Teal")}
		}
		out = append(out, enumCase{Name: fmt.Sprintf("rnd%02d", i), Src: src, Tgt: tgt, Lines: lines, Mapping: mapping, ExtraConv: extraConv})
		// mutants
		if len(src.Members) > 0 && src.Members[len(src.Members)-1].Val == src.Members[0].Val && !isAction(mapping[src.Members[0].Name]) && rng.Intn(2) == 0 {
			al := src.Members[len(src.Members)-1].Name
			var l2 []string
			for _, l := range lines {
				if !strings.HasPrefix(l, "enum:map "+al+" ") {
					l2 = append(l2, l)
				}
			}
			out = append(out, enumCase{Name: fmt.Sprintf("rnd%02d_fail_aliasaction", i), Src: src, Tgt: tgt, Lines: append(l2, "enum:map "+al+" @ignore"), Mapping: mapping, Fail: "members with equal values: one maps to a target member, the other to an action", ExtraConv: extraConv})
		}
		switch rng.Intn(3) {
		case 0:
			bad := src
			bad.Members = append(append([]enumMember{}, src.Members...), enumMember{"Orphan", lit("int", 77)})
			if under == "string" {
				bad.Members[len(bad.Members)-1].Val = `"orphan"`
			}
			out = append(out, enumCase{Name: fmt.Sprintf("rnd%02d_fail_orphan", i), Src: bad, Tgt: tgt, Lines: lines, Mapping: mapping, Fail: "source member Orphan has no target"})
		case 1:
			out = append(out, enumCase{Name: fmt.Sprintf("rnd%02d_fail_unknownkey", i), Src: src, Tgt: tgt, Lines: append(append([]string{}, lines...), "enum:map Nope "+names[0]), Mapping: mapping, Fail: "enum:map key Nope does not exist"})
		default:
			out = append(out, enumCase{Name: fmt.Sprintf("rnd%02d_fail_unknowntarget", i), Src: src, Tgt: tgt, Lines: append(append([]string{}, lines...), "enum:map "+names[1]+" Nope"), Mapping: mapping, Fail: "enum:map target Nope does not exist"})
		}
	}
	return out
}

func stripAction(t, dflt string) string {
	if isAction(t) {
		return dflt
	}
	return t
}

// FamilyEnum: F-enum (C08).
func FamilyEnum(thorough bool) []*Conv {
	enumThorough = thorough
	var out []*Conv
	policies := []string{"@error", "@panic", "@ignore", "KEY"}
	positions := []string{"top", "field", "elem", "mapkey", "mapval", "ptrfield", "toptr", "ptrelem"}
	n := 0
	for _, ec := range enumCases() {
		for pi, pol := range policies {
			for _, pos := range positions {
				if ec.Fail != "" && (pi != 0 || (pos != "top" && pos != "ptrfield")) {
					continue
				}
				if ec.Fail != "" && pos == "ptrfield" && len(ec.Lines) > 0 {
					continue
				}
				if ec.NoEnum && (pi != 0 || (pos != "top" && pos != "field")) {
					continue
				}
				if !thorough && pos != "top" && (n%3 != 0) && ec.Name != "int" {
					n++
					continue
				}
				n++
				policy := pol
				if ec.Unknown == "none" {
					policy = ""
				}
				es := &EnumSpec{Unknown: policy}
				keys := make([]string, 0, len(ec.Mapping))
				for k := range ec.Mapping {
					keys = append(keys, k)
				}
				sort.Strings(keys)
				needErr := policy == "@error"
				for _, k := range keys {
					if ec.Src.val(k) == "" {
						continue
					}
					t := ec.Mapping[k]
					arm := EnumArm{Src: ec.Src.val(k), Tgt: t}
					if !isAction(t) {
						arm.Tgt = ec.Tgt.val(t)
					}
					if t == "@error" {
						needErr = true
					}
					es.Map = append(es.Map, arm)
				}
				var convLines, methodLines, cli []string
				convLines = append(convLines, ec.ExtraConv...)
				unkLine := ""
				switch policy {
				case "":
				case "KEY":
					es.Unknown = ec.Tgt.Members[1].Name
					es.UnknownVal = ec.Tgt.Members[1].Val
					unkLine = "enum:unknown " + ec.Tgt.Members[1].Name
				default:
					unkLine = "enum:unknown " + policy
				}
				methodLines = append(methodLines, ec.Lines...)
				srcT, tgtT := "pfxsrc.Color", "pfxtgt.Color"
				if ec.SameType {
					tgtT = srcT
				}
				decls := ""
				spec := &Spec{Enums: map[string]*EnumSpec{"Color→Color": es}}
				if ec.NoEnum {
					spec = &Spec{}
				}
				s, t := srcT, tgtT
				switch pos {
				case "field":
					decls = fmt.Sprintf("type PFXS struct {\n\tE %s\n\tN int\n}\ntype PFXT struct {\n\tE %s\n\tN int\n}\n", srcT, tgtT)
					s, t = "PFXS", "PFXT"
				case "elem":
					s, t = "[]"+srcT, "[]"+tgtT
				case "ptrfield":
					// a value that becomes a pointer: still the member-wise conversion
					decls = fmt.Sprintf("type PFXS struct {\n\tE %s\n\tN int\n}\ntype PFXT struct {\n\tE *%s\n\tN int\n}\n", srcT, tgtT)
					s, t = "PFXS", "PFXT"
				case "toptr":
					s, t = srcT, "*"+tgtT
				case "ptrelem":
					s, t = "[]"+srcT, "[]*"+tgtT
				case "mapkey":
					s, t = "map["+srcT+"]int", "map["+tgtT+"]int"
				case "mapval":
					s, t = "map[string]"+srcT, "map[string]"+tgtT
				}
				if unkLine != "" {
					// policy at the three levels in turn; positions that go through generated sub-methods
					// need it at converter level or above
					lvl := n % 3
					if lvl == 0 && pos != "top" {
						lvl = 1
					}
					switch lvl {
					case 0:
						methodLines = append(methodLines, unkLine)
					case 1:
						convLines = append(convLines, unkLine)
					case 2:
						cli = append(cli, unkLine)
					}
				}
				res := t
				if needErr || n%2 == 0 {
					res = "(" + t + ", error)"
				}
				extra := ""
				if pos != "top" && len(ec.Lines) > 0 {
					// enum:map / transform are method settings: declare the enum method explicitly
					var sb strings.Builder
					for _, l := range ec.Lines {
						fmt.Fprintf(&sb, "\t// goverter:%s\n", l)
					}
					eres := tgtT
					if needErr {
						eres = "(" + tgtT + ", error)"
					}
					fmt.Fprintf(&sb, "\tPFXEnum func(source %s) %s\n", srcT, eres)
					extra = sb.String()
					methodLines = nil
				}
				cv := &Conv{
					ID:          fmt.Sprintf("enum/%s/%s/%s", ec.Name, strings.TrimPrefix(pol, "@"), pos),
					Family:      "enum",
					Format:      []string{"struct", "function", "variable"}[n%3],
					Params:      "source " + s,
					Results:     res,
					Decls:       decls,
					ConvLines:   convLines,
					MethodLines: methodLines,
					CLI:         cli,
					Spec:        spec,
					Aux: map[string]string{
						"pfxsrc": ec.Src.source("pfxsrc", "Color"),
						"pfxtgt": ec.Tgt.source("pfxtgt", "Color"),
					},
					Imports:    []string{`pfxsrc "corpus/GRP/pfxsrc"`, `pfxtgt "corpus/GRP/pfxtgt"`},
					ExpectFail: ec.Fail != "",
					FailNote:   ec.Fail,
				}
				if ec.SameType {
					delete(cv.Aux, "pfxtgt")
					cv.Imports = cv.Imports[:1]
				}
				if extra != "" {
					if cv.Format != "variable" {
						extra = strings.Replace(extra, "PFXEnum func(", "PFXEnum(", 1)
					}
					cv.ExtraMethods = extra
				}
				out = append(out, cv)
			}
		}
	}
	// two methods of one converter with different enum configuration for the same enum pair:
	// the sibling (generated first: its name sorts first) must not influence the method under test
	for fi, f := range []string{"struct", "function", "variable"} {
		ec := enumCases()[0]
		es := &EnumSpec{Unknown: "@panic"}
		for _, m := range ec.Src.Members {
			es.Map = append(es.Map, EnumArm{Src: m.Val, Tgt: ec.Tgt.val(m.Name)})
		}
		sib := "\t// goverter:enum no\n\tAPFXRaw(source PFXRawS) PFXRawT\n"
		if f == "variable" {
			sib = "\t// goverter:enum no\n\tAPFXRaw func(source PFXRawS) PFXRawT\n"
		}
		_ = fi
		out = append(out, &Conv{
			ID:           "enum/sibling_enum_no/" + f,
			Family:       "enum",
			Format:       f,
			Params:       "source PFXS",
			Results:      "PFXT",
			Decls:        "type PFXS struct {\n\tE pfxsrc.Color\n\tN int\n}\ntype PFXT struct {\n\tE pfxtgt.Color\n\tN int\n}\ntype PFXRawS struct{ E pfxsrc.Color }\ntype PFXRawT struct{ E pfxtgt.Color }\n",
			ConvLines:    []string{"enum:unknown @panic"},
			ExtraMethods: sib,
			Spec:         &Spec{Enums: map[string]*EnumSpec{"Color→Color": es}},
			Aux:          map[string]string{"pfxsrc": ec.Src.source("pfxsrc", "Color"), "pfxtgt": ec.Tgt.source("pfxtgt", "Color")},
			Imports:      []string{`pfxsrc "corpus/GRP/pfxsrc"`, `pfxtgt "corpus/GRP/pfxtgt"`},
			Solo:         true,
		})
	}
	// useUnderlyingTypeMethods with a custom function that unwraps only one side of an enum pair: a setting
	// conflict (a diagnostic), never a silent conversion through the function instead of the member-wise switch
	for i, half := range []struct{ name, fn string }{
		{"source_unwrapped", "func PFXHalf(s string) pfxtgt.Color { return pfxtgt.Color(s) }\n"},
		{"target_unwrapped", "func PFXHalf(s pfxsrc.Color) string { return string(s) }\n"},
		{"both_unwrapped", "func PFXHalf(s string) string { return s }\n"},
	} {
		src := enumDef{"string", []enumMember{{"Red", `"r"`}, {"Green", `"g"`}, {"Blue", `"b"`}}}
		tgt := enumDef{"string", []enumMember{{"Red", `"red"`}, {"Green", `"green"`}, {"Blue", `"blue"`}}}
		out = append(out, &Conv{
			ID: "enum/fail_underlying_function_conflict_" + half.name + "/" + []string{"struct", "function", "variable"}[i%3], Family: "enum", Format: []string{"struct", "function", "variable"}[i%3], Solo: true,
			Params: "source PFXS", Results: "PFXT",
			Decls:     "type PFXS struct{ E pfxsrc.Color }\ntype PFXT struct{ E pfxtgt.Color }\n" + half.fn,
			ConvLines: []string{"enum:unknown @panic", "useUnderlyingTypeMethods", "extend PFXHalf"},
			Spec:      &Spec{}, ExpectFail: true, FailNote: "enum pair that also matches a custom function through useUnderlyingTypeMethods (" + half.name + "): setting conflict",
			Aux:     map[string]string{"pfxsrc": src.source("pfxsrc", "Color"), "pfxtgt": tgt.source("pfxtgt", "Color")},
			Imports: []string{`pfxsrc "corpus/GRP/pfxsrc"`, `pfxtgt "corpus/GRP/pfxtgt"`},
		})
	}
	// one source enum converted to two target enums by two methods that carry the same enum:transform line: the
	// members chosen for one target say nothing about the other (the sibling is generated first)
	for _, f := range []string{"struct", "function", "variable"} {
		src := enumDef{"int", []enumMember{{"SrcRed", "0"}, {"SrcGreen", "1"}, {"SrcBlue", "2"}}}
		tgtMain := enumDef{"int", []enumMember{{"TgtRed", "4"}, {"TgtGreen", "5"}, {"TgtBlue", "6"}, {"SrcGreen", "7"}}}
		tgtSib := enumDef{"int", []enumMember{{"TgtRed", "14"}, {"SrcGreen", "15"}, {"SrcBlue", "16"}}}
		es := &EnumSpec{Unknown: "@panic", Map: []EnumArm{{Src: "0", Tgt: "4"}, {Src: "1", Tgt: "5"}, {Src: "2", Tgt: "6"}}}
		line := "\t// goverter:enum:transform regex Src(\\w+) Tgt$1\n"
		sib := line + "\tAPFXSib(source pfxsrc.Color) pfxsib.Color\n"
		if f == "variable" {
			sib = line + "\tAPFXSib func(source pfxsrc.Color) pfxsib.Color\n"
		}
		out = append(out, &Conv{
			ID: "enum/same_transform_two_targets/" + f, Family: "enum", Format: f, Solo: true,
			Params: "source pfxsrc.Color", Results: "pfxtgt.Color",
			ConvLines:    []string{"enum:unknown @panic"},
			MethodLines:  []string{`enum:transform regex Src(\w+) Tgt$1`},
			ExtraMethods: sib,
			Spec:         &Spec{Enums: map[string]*EnumSpec{"Color→Color": es}},
			Aux:          map[string]string{"pfxsrc": src.source("pfxsrc", "Color"), "pfxtgt": tgtMain.source("pfxtgt", "Color"), "pfxsib": tgtSib.source("pfxsib", "Color")},
			Imports:      []string{`pfxsrc "corpus/GRP/pfxsrc"`, `pfxtgt "corpus/GRP/pfxtgt"`, `pfxsib "corpus/GRP/pfxsib"`},
		})
	}
	// enum:map / enum:transform written on a method that does not itself convert the enum (pointer, slice, struct
	// around it): never silently dropped - generation fails
	for i, w := range []struct{ name, src, tgt, line string }{
		{"pointer", "*pfxsrc.Color", "*pfxtgt.Color", "enum:map Nope Green"},
		{"slice", "[]pfxsrc.Color", "[]pfxtgt.Color", "enum:map Red Green"},
		{"struct", "struct{ E pfxsrc.Color }", "struct{ E pfxtgt.Color }", `enum:transform regex Re(\w+) Gre$1`},
		{"mapval", "map[string]pfxsrc.Color", "map[string]pfxtgt.Color", "enum:map Red @ignore"},
		{"only_source_is_enum", "pfxsrc.Color", "int", "enum:map Red @ignore"},
		{"only_source_is_enum_transform", "pfxsrc.Color", "int", `enum:transform regex Re(\w+) Gre$1`},
		{"only_target_is_enum", "int", "pfxtgt.Color", "enum:map Red Green"},
	} {
		ec := enumCases()[0]
		out = append(out, &Conv{
			ID: "enum/fail_mapping_on_non_enum_method/" + w.name, Family: "enum", Format: []string{"struct", "function", "variable"}[i%3],
			Params: "source " + w.src, Results: w.tgt, ConvLines: []string{"enum:unknown @panic"}, MethodLines: []string{w.line},
			Spec:       &Spec{},
			Aux:        map[string]string{"pfxsrc": ec.Src.source("pfxsrc", "Color"), "pfxtgt": ec.Tgt.source("pfxtgt", "Color")},
			Imports:    []string{`pfxsrc "corpus/GRP/pfxsrc"`, `pfxtgt "corpus/GRP/pfxtgt"`},
			ExpectFail: true, FailNote: "enum mapping on a method that does not convert an enum to an enum (" + w.name + ")",
		})
		// (only the packages the signature names are imported)
		cv := out[len(out)-1]
		cv.Imports = nil
		for _, pk := range []string{"pfxsrc", "pfxtgt"} {
			if strings.Contains(w.src+" "+w.tgt, pk+".") {
				cv.Imports = append(cv.Imports, pk+` "corpus/GRP/`+pk+`"`)
			}
		}
	}
	// ... nor on a method that hands its pair to an extend function of the same signature, or that is an update
	// method: with enum:map only, with enum:transform only
	for i, w := range []struct{ name, line string }{
		{"delegating_map", "enum:map Red Green"}, {"delegating_transform", `enum:transform regex Re(\w+) Gre$1`},
	} {
		ec := enumCases()[0]
		out = append(out, &Conv{
			ID: "enum/fail_mapping_on_" + w.name, Family: "enum", Format: []string{"struct", "function", "variable"}[i%3], Solo: true,
			Params: "source pfxsrc.Color", Results: "pfxtgt.Color", ConvLines: []string{"enum:unknown @panic", "extend PFXLegacy"}, MethodLines: []string{w.line},
			Decls:      "func PFXLegacy(c pfxsrc.Color) pfxtgt.Color { return 0 }\n",
			Spec:       &Spec{},
			Aux:        map[string]string{"pfxsrc": ec.Src.source("pfxsrc", "Color"), "pfxtgt": ec.Tgt.source("pfxtgt", "Color")},
			Imports:    []string{`pfxsrc "corpus/GRP/pfxsrc"`, `pfxtgt "corpus/GRP/pfxtgt"`},
			ExpectFail: true, FailNote: "enum settings on a method that delegates to an extend function of the same signature (" + w.name + ")",
		})
	}
	// a constant of the target package that merely carries the name of a missing member (another type, untyped) is
	// no member of the target enum
	for i, extra := range []string{"const Blue = 7\n", "type Other int\n\nconst Blue Other = 7\n"} {
		src := enumDef{"int", []enumMember{{"Red", "0"}, {"Green", "1"}, {"Blue", "2"}}}
		tgt := enumDef{"int", []enumMember{{"Red", "7"}, {"Green", "8"}}}
		out = append(out, &Conv{
			ID: fmt.Sprintf("enum/fail_member_name_is_a_foreign_constant_%d", i), Family: "enum", Format: []string{"struct", "function", "variable"}[i%3], Solo: true,
			Params: "source pfxsrc.Color", Results: "pfxtgt.Color", ConvLines: []string{"enum:unknown @panic"},
			Spec:       &Spec{},
			Aux:        map[string]string{"pfxsrc": src.source("pfxsrc", "Color"), "pfxtgt": tgt.source("pfxtgt", "Color") + "\n" + extra},
			Imports:    []string{`pfxsrc "corpus/GRP/pfxsrc"`, `pfxtgt "corpus/GRP/pfxtgt"`},
			ExpectFail: true, FailNote: "source member Blue has no target member (the target package has a constant Blue of another type)",
		})
	}
	// enums declared in the converter's own package with an unexported member; output into that package
	{
		es := &EnumSpec{Unknown: "@error", Map: []EnumArm{{"0", "10"}, {"1", "20"}, {"2", "30"}}}
		out = append(out, &Conv{
			ID: "enum/unexported_member_same_package/variable", Family: "enum", Format: "variable",
			Params: "source PFXColA", Results: "(PFXColB, error)",
			Decls:       "type PFXColA int\n\nconst (\n\tPFXARed PFXColA = iota\n\tPFXAGreen\n\tpfxaHidden\n)\n\ntype PFXColB int\n\nconst (\n\tPFXBRed PFXColB = 10 * (iota + 1)\n\tPFXBGreen\n\tpfxbHidden\n)\n",
			ConvLines:   []string{"enum:unknown @error"},
			MethodLines: []string{"enum:map PFXARed PFXBRed", "enum:map PFXAGreen PFXBGreen", "enum:map pfxaHidden pfxbHidden"},
			Spec:        &Spec{Enums: map[string]*EnumSpec{"PFXColA→PFXColB": es}},
		})
	}
	// explicit enum:map entries survive when the converter's methods are built more than once (a helper of a
	// sibling method gains an error result, which makes goverter rebuild)
	for _, f := range []string{"struct", "function", "variable"} {
		src := enumDef{"int", []enumMember{{"Red", "0"}, {"Green", "1"}, {"Blue", "2"}}}
		tgt := enumDef{"int", []enumMember{{"Red", "10"}, {"Green", "20"}, {"Blue", "30"}, {"Azure", "40"}}}
		k1 := enumDef{"int", []enumMember{{"KA", "0"}, {"KB", "1"}}}
		k2 := enumDef{"int", []enumMember{{"KA", "5"}, {"KB", "6"}}}
		es := &EnumSpec{Unknown: "@error", Map: []EnumArm{{"0", "10"}, {"1", "20"}, {"2", "40"}}}
		ek := &EnumSpec{Unknown: "@error", Map: []EnumArm{{"0", "5"}, {"1", "6"}}}
		sib := "\tZPFXOther(source PFXS2) (PFXT2, error)\n"
		if f == "variable" {
			sib = "\tZPFXOther func(source PFXS2) (PFXT2, error)\n"
		}
		out = append(out, &Conv{
			ID: "enum/map_survives_rebuild/" + f, Family: "enum", Format: f, Solo: true,
			Params: "source pfxsrc.Color", Results: "(pfxtgt.Color, error)",
			Decls:        "type PFXS2 struct {\n\tK pfxsrc2.Kind\n\tL []pfxsrc2.Kind\n\tN int\n}\ntype PFXT2 struct {\n\tK pfxtgt2.Kind\n\tL []pfxtgt2.Kind\n\tN int\n}\n",
			ConvLines:    []string{"enum:unknown @error"},
			MethodLines:  []string{"enum:map Blue Azure"},
			ExtraMethods: sib,
			Spec:         &Spec{Enums: map[string]*EnumSpec{"Color→Color": es, "Kind→Kind": ek}},
			Aux: map[string]string{"pfxsrc": src.source("pfxsrc", "Color"), "pfxtgt": tgt.source("pfxtgt", "Color"),
				"pfxsrc2": k1.source("pfxsrc2", "Kind"), "pfxtgt2": k2.source("pfxtgt2", "Kind")},
			Imports: []string{`pfxsrc "corpus/GRP/pfxsrc"`, `pfxtgt "corpus/GRP/pfxtgt"`, `pfxsrc2 "corpus/GRP/pfxsrc2"`, `pfxtgt2 "corpus/GRP/pfxtgt2"`},
		})
	}
	return out
}
