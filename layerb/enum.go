package layerb

import (
	"fmt"
	"go/types"
	"math/big"
	"strconv"
	"strings"

	"verif/engine"
)

// litTerm converts a Go literal of the corpus to a term with the sort of like.
func (o *Oracle) litValue(lit string, like engine.Value) (engine.Value, error) {
	switch l := like.(type) {
	case *engine.Term:
		switch l.Sort.Kind {
		case engine.SBV:
			bi, ok := new(big.Int).SetString(lit, 0)
			if !ok {
				return nil, fmt.Errorf("bad int literal %q", lit)
			}
			var u uint64
			if bi.Sign() < 0 {
				u = uint64(bi.Int64())
			} else {
				u = bi.Uint64()
			}
			return engine.BVConst(l.Sort.Bits, u), nil
		case engine.SFP:
			f, err := strconv.ParseFloat(lit, 64)
			if err != nil {
				return nil, err
			}
			return engine.FPConst(l.Sort.Bits, f), nil
		case engine.SBool:
			return engine.BoolT(lit == "true"), nil
		}
	case engine.Str:
		s, err := strconv.Unquote(lit)
		if err != nil {
			return nil, err
		}
		return engine.ConcStr(s), nil
	}
	return nil, fmt.Errorf("literal %q for %T", lit, like)
}

// EnumPos is an enum position found in the source.
type EnumPos struct {
	Path    string
	Policy  string
	Unknown *engine.Term
}

func (o *Oracle) enumUnknown(es *EnumSpec, src engine.Value) (*engine.Term, error) {
	unk := engine.True
	for _, a := range es.Map {
		lv, err := o.litValue(a.Src, src)
		if err != nil {
			return nil, err
		}
		unk = engine.And(unk, engine.Not(o.R.ValEq(src, lv)))
	}
	return o.R.Name(unk), nil
}

func (o *Oracle) enumLeaves(es *EnumSpec, src engine.Value, S types.Type, got engine.Value, T types.Type, path string) {
	for _, a := range es.Map {
		sv, err := o.litValue(a.Src, src)
		if err != nil {
			o.fail(path, "oracle: %v", err)
			return
		}
		tv, err := o.litValue(a.Tgt, got)
		if err != nil {
			o.fail(path, "oracle: %v", err)
			return
		}
		o.leaf(path, engine.Implies(o.R.ValEq(src, sv), o.R.ValEq(got, tv)),
			fmt.Sprintf("member %s must convert to %s", a.Src, a.Tgt))
	}
	unk, err := o.enumUnknown(es, src)
	if err != nil {
		o.fail(path, "oracle: %v", err)
		return
	}
	switch {
	case es.Unknown == "@ignore":
		o.leaf(path, engine.Implies(unk, o.IsZero(got, T)), "enum:unknown @ignore must yield the zero value")
	case es.Unknown == "@error" || es.Unknown == "@panic":
		o.leaf(path, engine.Not(unk), "non-member value passed without "+es.Unknown)
	case es.Unknown == "":
		// no policy known: nothing demanded for non-members
	default:
		tv, err := o.litValue(es.UnknownVal, got)
		if err != nil {
			o.fail(path, "oracle: %v", err)
			return
		}
		o.leaf(path, engine.Implies(unk, o.R.ValEq(got, tv)), "enum:unknown "+es.Unknown+" must yield that member")
	}
}

// EnumPositions walks the source along the reference mapping and lists enum positions.
func (o *Oracle) EnumPositions(src engine.Value, S, T types.Type, path string, out *[]EnumPos, depth int) {
	if depth > 12 || o.Spec == nil || len(o.Spec.Enums) == 0 {
		return
	}
	S, T = types.Unalias(S), types.Unalias(T)
	if es, ok := o.Spec.Enums[pairKey(S, T)]; ok {
		unk, err := o.enumUnknown(es, src)
		if err == nil {
			*out = append(*out, EnumPos{Path: path, Policy: es.Unknown, Unknown: unk})
		}
		return
	}
	if _, ok := o.Spec.Custom[pairKey(S, T)]; ok {
		return
	}
	su, tu := S.Underlying(), T.Underlying()
	if sp, ok := su.(*types.Pointer); ok {
		p := src.(engine.Pointer)
		if p.Slot == nil {
			return
		}
		if tp, ok := tu.(*types.Pointer); ok {
			o.EnumPositions(*p.Slot, sp.Elem(), tp.Elem(), path+".*", out, depth+1)
		} else {
			o.EnumPositions(*p.Slot, sp.Elem(), T, path, out, depth+1)
		}
		return
	}
	if tp, ok := tu.(*types.Pointer); ok {
		o.EnumPositions(src, S, tp.Elem(), path+".*", out, depth+1)
		return
	}
	switch tu := tu.(type) {
	case *types.Slice:
		switch su := su.(type) {
		case *types.Slice:
			s := src.(engine.Slice)
			for i := 0; i < s.Len; i++ {
				o.EnumPositions(s.Elems[i], su.Elem(), tu.Elem(), fmt.Sprintf("%s[%d]", path, i), out, depth+1)
			}
		case *types.Array:
			s := src.(engine.Array)
			for i := range s {
				o.EnumPositions(s[i], su.Elem(), tu.Elem(), fmt.Sprintf("%s[%d]", path, i), out, depth+1)
			}
		}
	case *types.Map:
		sm, ok := su.(*types.Map)
		if !ok {
			return
		}
		m := src.(engine.Map)
		if m.M == nil {
			return
		}
		for i, e := range m.M.Entries {
			o.EnumPositions(e.K, sm.Key(), tu.Key(), fmt.Sprintf("%s{key %d}", path, i), out, depth+1)
			o.EnumPositions(e.V, sm.Elem(), tu.Elem(), fmt.Sprintf("%s{value %d}", path, i), out, depth+1)
		}
	case *types.Struct:
		ss, ok := su.(*types.Struct)
		if !ok {
			return
		}
		sv := src.(engine.Struct)
		for i := 0; i < tu.NumFields(); i++ {
			tf := tu.Field(i)
			fs, _ := o.fieldSpec(S, T, tf.Name())
			if fs != nil && (fs.Ignore || fs.Fn != "" || fs.Free) {
				continue
			}
			if fs != nil && (fs.Path != nil || fs.Whole) {
				v, vt, nilOn, ok := o.walkPath(src, S, fs.Path, fs.Whole, tf.Name())
				if ok && !nilOn {
					o.EnumPositions(v, vt, tf.Type(), path+"."+tf.Name(), out, depth+1)
				}
				continue
			}
			idx, n := findField(ss, tf.Name(), false)
			if n == 1 {
				o.EnumPositions(sv[idx], ss.Field(idx).Type(), tf.Type(), path+"."+tf.Name(), out, depth+1)
			}
		}
	}
}

func policyName(p string) string { return strings.TrimPrefix(p, "@") }
