package layerb

import (
	"fmt"
	"go/types"
	"math/big"
	"strconv"
	"strings"

	"verif/engine"
)

// litTerm converts a Go literal of the corpus to a term with the sort of like.
func (o *Oracle) litValue(lit string, like engine.Value) (engine.Value, error) {
	switch l := like.(type) {
	case *engine.Term:
		switch l.Sort.Kind {
		case engine.SBV:
			bi, ok := new(big.Int).SetString(lit, 0)
			if !ok {
				return nil, fmt.Errorf("bad int literal %q", lit)
			}
			var u uint64
			if bi.Sign() < 0 {
				u = uint64(bi.Int64())
			} else {
				u = bi.Uint64()
			}
			return engine.BVConst(l.Sort.Bits, u), nil
		case engine.SFP:
			f, err := strconv.ParseFloat(lit, 64)
			if err != nil {
				return nil, err
			}
			return engine.FPConst(l.Sort.Bits, f), nil
		case engine.SBool:
			return engine.BoolT(lit == "true"), nil
		}
	case engine.Str:
		s, err := strconv.Unquote(lit)
		if err != nil {
			return nil, err
		}
		return engine.ConcStr(s), nil
	}
	return nil, fmt.Errorf("literal %q for %T", lit, like)
}

// EnumPos is an enum position found in the source.
type EnumPos struct {
	Path  string
	Error *engine.Term // source value must produce an error
	Panic *engine.Term // source value must panic
}

func isAction(s string) bool { return strings.HasPrefix(s, "@") }

// enumConds computes, for a source value, the conditions "not a declared member",
// "must error", "must panic".
func (o *Oracle) enumConds(es *EnumSpec, src engine.Value) (unk, mustErr, mustPanic *engine.Term, err error) {
	unk = engine.True
	mustErr, mustPanic = engine.False, engine.False
	for _, a := range es.Map {
		lv, e := o.litValue(a.Src, src)
		if e != nil {
			return nil, nil, nil, e
		}
		is := o.R.ValEq(src, lv)
		unk = engine.And(unk, engine.Not(is))
		switch a.Tgt {
		case "@error":
			mustErr = engine.Or(mustErr, is)
		case "@panic":
			mustPanic = engine.Or(mustPanic, is)
		}
	}
	unk = o.R.Name(unk)
	switch es.Unknown {
	case "@error":
		mustErr = engine.Or(mustErr, unk)
	case "@panic":
		mustPanic = engine.Or(mustPanic, unk)
	}
	return unk, o.R.Name(mustErr), o.R.Name(mustPanic), nil
}

func (o *Oracle) enumLeaves(es *EnumSpec, src engine.Value, S types.Type, got engine.Value, T types.Type, path string) {
	unk, mustErr, mustPanic, err := o.enumConds(es, src)
	if err != nil {
		o.fail(path, "oracle: %v", err)
		return
	}
	for _, a := range es.Map {
		sv, _ := o.litValue(a.Src, src)
		is := o.R.ValEq(src, sv)
		switch a.Tgt {
		case "@error", "@panic":
			continue
		case "@ignore":
			o.leaf(path, engine.Implies(is, o.IsZero(got, T)), fmt.Sprintf("member %s is mapped to @ignore and must leave the zero value", a.Src))
			continue
		}
		tv, err := o.litValue(a.Tgt, got)
		if err != nil {
			o.fail(path, "oracle: %v", err)
			return
		}
		o.leaf(path, engine.Implies(is, o.R.ValEq(got, tv)),
			fmt.Sprintf("member %s must convert to %s", a.Src, a.Tgt))
	}
	// a value that must error / panic cannot be on a normally returning path
	o.leaf(path, engine.Not(mustErr), "value that must produce an error passed silently")
	o.leaf(path, engine.Not(mustPanic), "value that must panic passed silently")
	switch {
	case es.Unknown == "@ignore":
		o.leaf(path, engine.Implies(unk, o.IsZero(got, T)), "enum:unknown @ignore must yield the zero value")
	case isAction(es.Unknown) || es.Unknown == "":
	default:
		tv, err := o.litValue(es.UnknownVal, got)
		if err != nil {
			o.fail(path, "oracle: %v", err)
			return
		}
		o.leaf(path, engine.Implies(unk, o.R.ValEq(got, tv)), "enum:unknown "+es.Unknown+" must yield that member")
	}
}

// EnumPositions walks the source along the reference mapping and lists enum positions.
func (o *Oracle) EnumPositions(src engine.Value, S, T types.Type, path string, out *[]EnumPos, depth int) {
	if depth > 12 || o.Spec == nil || len(o.Spec.Enums) == 0 {
		return
	}
	S, T = types.Unalias(S), types.Unalias(T)
	if es, ok := o.Spec.Enums[pairKey(S, T)]; ok {
		_, me, mp, err := o.enumConds(es, src)
		if err == nil {
			*out = append(*out, EnumPos{Path: path, Error: me, Panic: mp})
		}
		return
	}
	if _, ok := o.Spec.Custom[pairKey(S, T)]; ok {
		return
	}
	su, tu := S.Underlying(), T.Underlying()
	if sp, ok := su.(*types.Pointer); ok {
		p := src.(engine.Pointer)
		if p.Slot == nil {
			return
		}
		if tp, ok := tu.(*types.Pointer); ok {
			o.EnumPositions(*p.Slot, sp.Elem(), tp.Elem(), path+".*", out, depth+1)
		} else {
			o.EnumPositions(*p.Slot, sp.Elem(), T, path, out, depth+1)
		}
		return
	}
	if tp, ok := tu.(*types.Pointer); ok {
		o.EnumPositions(src, S, tp.Elem(), path+".*", out, depth+1)
		return
	}
	switch tu := tu.(type) {
	case *types.Slice:
		switch su := su.(type) {
		case *types.Slice:
			s := src.(engine.Slice)
			for i := 0; i < s.Len; i++ {
				o.EnumPositions(s.Elems[i], su.Elem(), tu.Elem(), fmt.Sprintf("%s[%d]", path, i), out, depth+1)
			}
		case *types.Array:
			s := src.(engine.Array)
			for i := range s {
				o.EnumPositions(s[i], su.Elem(), tu.Elem(), fmt.Sprintf("%s[%d]", path, i), out, depth+1)
			}
		}
	case *types.Map:
		sm, ok := su.(*types.Map)
		if !ok {
			return
		}
		m := src.(engine.Map)
		if m.M == nil {
			return
		}
		for i, e := range m.M.Entries {
			o.EnumPositions(e.K, sm.Key(), tu.Key(), fmt.Sprintf("%s{key %d}", path, i), out, depth+1)
			o.EnumPositions(e.V, sm.Elem(), tu.Elem(), fmt.Sprintf("%s{value %d}", path, i), out, depth+1)
		}
	case *types.Struct:
		ss, ok := su.(*types.Struct)
		if !ok {
			return
		}
		sv := src.(engine.Struct)
		for i := 0; i < tu.NumFields(); i++ {
			tf := tu.Field(i)
			fs, _ := o.fieldSpec(S, T, tf.Name())
			if fs != nil && (fs.Ignore || fs.Fn != "" || fs.Free) {
				continue
			}
			if fs != nil && (fs.Path != nil || fs.Whole) {
				v, vt, nilOn, ok := o.walkPath(src, S, fs.Path, fs.Whole, tf.Name())
				if ok && !nilOn {
					o.EnumPositions(v, vt, tf.Type(), path+"."+tf.Name(), out, depth+1)
				}
				continue
			}
			idx, n := findField(ss, tf.Name(), false)
			if n == 1 {
				o.EnumPositions(sv[idx], ss.Field(idx).Type(), tf.Type(), path+"."+tf.Name(), out, depth+1)
			}
		}
	}
}
