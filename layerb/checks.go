package layerb

import (
	"fmt"
	"go/types"

	"verif/engine"
)

// explainedByEnum reports whether a panic / error end of path is demanded by an enum position
// with that policy whose source value is a non-member on this path.
func explainedByEnum(pc *PathCtx, o *Oracle, policy string) (bool, bool) {
	var pos []EnumPos
	params := pc.T.Sig.Params()
	if pc.SrcIdx < 0 {
		return false, false
	}
	tt := pc.targetType()
	if tt == nil {
		return false, false
	}
	o.EnumPositions(pc.Src, params.At(pc.SrcIdx).Type(), tt, "source", &pos, 0)
	any := engine.False
	for _, p := range pos {
		if policy == "@error" {
			any = engine.Or(any, p.Error)
		} else {
			any = engine.Or(any, p.Panic)
		}
	}
	if any.IsFalse() {
		return false, false
	}
	qr := pc.R.Prove(any)
	return qr.Holds, qr.Inconclusive
}

func (pc *PathCtx) targetType() types.Type {
	res := pc.T.Sig.Results()
	if pc.TgtIdx >= 0 {
		return pc.T.Sig.Params().At(pc.TgtIdx).Type()
	}
	if res.Len() > 0 && !isErrorType(res.At(0).Type()) {
		return res.At(0).Type()
	}
	return nil
}

// ErrIsNil tells whether the error result of the path is nil.
func (pc *PathCtx) ErrIsNil() bool {
	if !pc.HasErr {
		return true
	}
	i, ok := pc.Err.(engine.Iface)
	return ok && i.T == nil
}

// CheckValue: C02 — no panic, result equals the structural reference mapping.
func CheckValue(pc *PathCtx) {
	o := &Oracle{R: pc.R, Spec: pc.Conv.Spec, Calls: pc.Calls}
	if pc.Panic != nil {
		if pc.Panic.Kind == "explicit" {
			if ok, _ := explainedByEnum(pc, o, "@panic"); ok {
				pc.count(true)
				return
			}
		}
		m, _ := pc.R.Witness(nil)
		pc.count(false)
		pc.Report("panic", pc.Panic.Pos, "converter panics: "+pc.Panic.Kind+": "+pc.Panic.Msg, m, false)
		return
	}
	if !pc.ErrIsNil() {
		// without custom functions an error can only come from enum:unknown @error
		failed := false
		for _, c := range pc.Calls.Calls {
			if c.Failed {
				failed = true
			}
		}
		if failed {
			pc.count(true) // error propagation is C07's subject
			return
		}
		if ok, inc := explainedByEnum(pc, o, "@error"); ok {
			pc.count(true)
			return
		} else if inc {
			pc.Report("error", "", "solver inconclusive on enum error explanation", nil, true)
			return
		}
		m, _ := pc.R.Witness(nil)
		pc.count(false)
		pc.Report("error", "", "converter returns an error although no custom function failed and no enum value is unknown", m, false)
		return
	}
	if pc.Ret == nil {
		return
	}
	o.Match(pc.Src, pc.SrcT, pc.Ret, pc.RetT, "result")
	pc.ProveLeaves("value", o)
}

func (pc *PathCtx) count(ok bool) {
	pc.Rep.mu.Lock()
	pc.Rep.Obligations++
	if ok {
		pc.Rep.Discharged++
	}
	pc.Rep.mu.Unlock()
}

var _ = fmt.Sprint
