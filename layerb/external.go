package layerb

import (
	"fmt"
	"go/types"
	"strings"

	"golang.org/x/tools/go/ssa"

	"verif/engine"
)

// CallEntry is one logged call of user code (havoc stub).
type CallEntry struct {
	Seq        int
	Name       string
	Fn         *ssa.Function
	Args       []engine.Value
	ParamNames []string
	SourceArgs []engine.Value
	CtxArgs    []engine.Value
	CtxTypes   []types.Type
	HasConvArg bool
	ConvArg    engine.Value
	Result     engine.Value
	ResultType types.Type
	Fallible   bool
	Err        engine.Value
	Failed     bool
	Used       bool
	Pos        string
	Snapshot   engine.Value // deep snapshot of the (dereferenced) result at return time
	Returned   engine.Value // the value handed back to the caller (tuple for several results)
	Repeats    int          // further calls with identical arguments
}

type CallLog struct {
	Calls []*CallEntry
}

var errDynType = types.NewNamed(types.NewTypeName(0, nil, "verifError", nil), types.Typ[types.Int], nil)

// NewError makes a fresh non-nil error value.
func NewError(r *engine.Run, kind string, items ...engine.Value) engine.Iface {
	o := r.NewOpaque(kind)
	o.Items = items
	return engine.Iface{T: errDynType, V: o}
}

// ErrOpaque returns the opaque object behind an error value (nil for a nil error).
func ErrOpaque(v engine.Value) *engine.Opaque {
	i, ok := v.(engine.Iface)
	if !ok || i.T == nil {
		return nil
	}
	o, _ := i.V.(*engine.Opaque)
	return o
}

func (d *Driver) external(r *engine.Run, fn *ssa.Function, args []engine.Value, site ssa.Instruction) (engine.Value, bool) {
	pc, _ := r.User.(*PathCtx)
	name := fn.String()
	if o := fn.Origin(); o != nil {
		name = o.String()
	}
	if fn.Name() == "init" && fn.Signature.Recv() == nil {
		return nil, true
	}
	switch name {
	case "fmt.Errorf":
		items := []engine.Value{args[0]}
		if s, ok := args[1].(engine.Slice); ok {
			for i := 0; i < s.Len; i++ {
				items = append(items, s.Elems[i])
			}
		}
		return NewError(r, "errorf", items...), true
	case "fmt.Sprintf", "fmt.Sprint", "fmt.Sprintln":
		return engine.Str{Atom: r.Fresh(engine.AtomSort, "sprintf")}, true
	case "errors.New":
		return NewError(r, "errors.New", args[0]), true
	}
	if fn.Pkg != nil && fn.Pkg.Pkg.Path() == corpusModule+"/perr" {
		switch fn.Name() {
		case "Wrap":
			items := []engine.Value{args[0]}
			if s, ok := args[1].(engine.Slice); ok {
				for i := 0; i < s.Len; i++ {
					items = append(items, s.Elems[i])
				}
			}
			return NewError(r, "wrap", items...), true
		case "Field", "Index", "Key":
			o := r.NewOpaque("perr." + fn.Name())
			o.Items = []engine.Value{args[0]}
			return o, true
		}
	}
	if fn.Pkg == nil || !strings.HasPrefix(fn.Pkg.Pkg.Path(), corpusModule+"/") {
		return nil, false
	}
	if pc == nil {
		return nil, false
	}
	// user code: logging havoc stub. Custom functions are assumed to be pure functions of their
	// arguments: a repeated call with identical arguments returns the logged result again.
	idt := &Oracle{R: r}
	for _, prev := range pc.Calls.Calls {
		if prev.Fn != fn || len(prev.Args) != len(args) {
			continue
		}
		same := true
		for i := range args {
			if !idt.Identical(prev.Args[i], args[i]).IsTrue() {
				same = false
				break
			}
		}
		if same {
			prev.Repeats++
			return prev.Returned, true
		}
	}
	sig := fn.Signature
	e := &CallEntry{Seq: len(pc.Calls.Calls), Name: fn.Name(), Fn: fn, Args: args}
	if site != nil {
		e.Pos = r.Pos(site.Pos())
	}
	if recv := sig.Recv(); recv != nil {
		rt := recv.Type()
		if p, ok := rt.(*types.Pointer); ok {
			rt = p.Elem()
		}
		if n, ok := rt.(*types.Named); ok {
			e.Name = n.Obj().Name() + "." + fn.Name()
		}
	}
	for i, a := range args {
		pn := ""
		var pt types.Type
		if i < len(fn.Params) {
			pn = fn.Params[i].Name()
			pt = fn.Params[i].Type()
		}
		e.ParamNames = append(e.ParamNames, pn)
		switch {
		case strings.HasPrefix(pn, "ctx"):
			e.CtxArgs = append(e.CtxArgs, a)
			e.CtxTypes = append(e.CtxTypes, pt)
		case pn == "conv" || pn == "c":
			e.HasConvArg = true
			e.ConvArg = a
		default:
			e.SourceArgs = append(e.SourceArgs, a)
		}
	}
	res := sig.Results()
	sb := NewSymBuilder(r, Bounds{MaxSlice: 1, MaxMap: 1, RecDepth: 1})
	var out engine.Tuple
	for i := 0; i < res.Len(); i++ {
		rt := res.At(i).Type()
		if isErrorType(rt) {
			e.Fallible = true
			if r.Choice(2) == 1 {
				e.Failed = true
				e.Err = NewError(r, "custom", engine.ConcStr(e.Name))
			} else {
				e.Err = engine.Iface{}
			}
			out = append(out, e.Err)
			continue
		}
		v := sb.Sym(rt, fmt.Sprintf("ret%d_%s", e.Seq, fn.Name()))
		if p, ok := v.(engine.Pointer); ok && p.Slot == nil && pc.Conv.Spec != nil && pc.Conv.Spec.Update != nil && pc.Conv.Spec.Update.DefaultFn == e.Name {
			// assumption: a default FUNC returns a usable (non-nil) instance
			panic(&engine.Abort{Kind: "infeasible", Reason: "default FUNC returning nil"})
		}
		e.Result = v
		e.ResultType = rt
		if p, ok := v.(engine.Pointer); ok {
			if p.Slot != nil {
				e.Snapshot = DeepSnapshot(*p.Slot)
			}
		} else {
			e.Snapshot = DeepSnapshot(v)
		}
		out = append(out, v)
	}
	pc.Calls.Calls = append(pc.Calls.Calls, e)
	switch len(out) {
	case 0:
		e.Returned = nil
	case 1:
		e.Returned = out[0]
	default:
		e.Returned = out
	}
	return e.Returned, true
}
