package layerb

import (
	"fmt"
	"go/types"
	"strings"

	"verif/engine"
)

// PElem is one element of a target path.
type PElem struct {
	Kind string // "field", "index", "key"
	Name string
	Idx  int
	Key  engine.Value
}

func (p PElem) String() string {
	switch p.Kind {
	case "field":
		return "Field(" + p.Name + ")"
	case "index":
		return fmt.Sprintf("Index(%d)", p.Idx)
	}
	return "Key(" + engine.FormatValue(p.Key) + ")"
}

func pathString(p []PElem) string {
	var s []string
	for _, e := range p {
		s = append(s, e.String())
	}
	return "[" + strings.Join(s, " ") + "]"
}

// CallPos is a position of the reference mapping served by a custom function.
type CallPos struct {
	Fn     string
	Src    engine.Value // the source value at the position (nil for source-less functions)
	Path   []PElem      // target path
	HasSrc bool
}

func appendPath(p []PElem, e PElem) []PElem {
	n := make([]PElem, len(p)+1)
	copy(n, p)
	n[len(p)] = e
	return n
}

// CallPositions lists, in no particular order, every position at which a custom function must be called.
func (o *Oracle) CallPositions(src engine.Value, S, T types.Type, path []PElem, out *[]CallPos, depth int) {
	if depth > 14 || o.Spec == nil {
		return
	}
	S, T = types.Unalias(S), types.Unalias(T)
	if fn, ok := o.Spec.Custom[pairKey(S, T)]; ok {
		*out = append(*out, CallPos{Fn: fn, Src: src, Path: path, HasSrc: true})
		return
	}
	if _, ok := o.Spec.Enums[pairKey(S, T)]; ok {
		return
	}
	if o.Spec.SkipCopy && types.Identical(S, T) {
		return // passed through unchanged: no custom function further inside is consulted
	}
	su, tu := S.Underlying(), T.Underlying()
	if sp, ok := su.(*types.Pointer); ok {
		p := src.(engine.Pointer)
		if p.Slot == nil {
			return
		}
		if tp, ok := tu.(*types.Pointer); ok {
			o.CallPositions(*p.Slot, sp.Elem(), tp.Elem(), path, out, depth+1)
		} else {
			o.CallPositions(*p.Slot, sp.Elem(), T, path, out, depth+1)
		}
		return
	}
	if tp, ok := tu.(*types.Pointer); ok {
		o.CallPositions(src, S, tp.Elem(), path, out, depth+1)
		return
	}
	switch tu := tu.(type) {
	case *types.Slice:
		switch su := su.(type) {
		case *types.Slice:
			s := src.(engine.Slice)
			for i := 0; i < s.Len; i++ {
				o.CallPositions(s.Elems[i], su.Elem(), tu.Elem(), appendPath(path, PElem{Kind: "index", Idx: i}), out, depth+1)
			}
		case *types.Array:
			s := src.(engine.Array)
			for i := range s {
				o.CallPositions(s[i], su.Elem(), tu.Elem(), appendPath(path, PElem{Kind: "index", Idx: i}), out, depth+1)
			}
		}
	case *types.Map:
		sm, ok := su.(*types.Map)
		if !ok {
			return
		}
		m := src.(engine.Map)
		if m.M == nil {
			return
		}
		for _, e := range m.M.Entries {
			kp := appendPath(path, PElem{Kind: "key", Key: e.K})
			o.CallPositions(e.K, sm.Key(), tu.Key(), kp, out, depth+1)
			o.CallPositions(e.V, sm.Elem(), tu.Elem(), kp, out, depth+1)
		}
	case *types.Struct:
		ss, ok := su.(*types.Struct)
		if !ok {
			return
		}
		sv := src.(engine.Struct)
		for i := 0; i < tu.NumFields(); i++ {
			tf := tu.Field(i)
			fp := appendPath(path, PElem{Kind: "field", Name: tf.Name()})
			fs, ps := o.fieldSpec(S, T, tf.Name())
			if fs != nil && (fs.Ignore || fs.Free) {
				continue
			}
			if fs != nil && fs.Via != "" {
				recv := src
				if fs.Path != nil {
					// the getter belongs to a struct below the source (autoMap)
					v, _, nilOn, ok := o.walkPath(src, S, fs.Path, false, tf.Name())
					if !ok || nilOn {
						continue
					}
					recv = v
				}
				*out = append(*out, CallPos{Fn: fs.Via, Src: recv, HasSrc: true, Path: fp})
				if call := o.viaCall(fs.Via, recv); call != nil && !call.Failed {
					if fs.Fn != "" {
						*out = append(*out, CallPos{Fn: fs.Fn, Src: call.Result, HasSrc: true, Path: fp})
					} else {
						o.CallPositions(call.Result, call.ResultType, tf.Type(), fp, out, depth+1)
					}
				}
				continue
			}
			if fs != nil && fs.Fn != "" {
				cp := CallPos{Fn: fs.Fn, Path: fp}
				if !fs.FnNoSource {
					v, _, nilOn, ok := o.walkPath(src, S, fs.Path, fs.Whole, tf.Name())
					if !ok || nilOn {
						continue
					}
					cp.Src, cp.HasSrc = v, true
				}
				*out = append(*out, cp)
				continue
			}
			if fs != nil && (fs.Path != nil || fs.Whole) {
				v, vt, nilOn, ok := o.walkPath(src, S, fs.Path, fs.Whole, tf.Name())
				if ok && !nilOn {
					o.CallPositions(v, vt, tf.Type(), fp, out, depth+1)
				}
				continue
			}
			fold := ps != nil && ps.IgnoreCase
			idx, n := findField(ss, tf.Name(), fold)
			if n == 1 {
				o.CallPositions(sv[idx], ss.Field(idx).Type(), tf.Type(), fp, out, depth+1)
			}
		}
	}
}

// flattenWrap turns a wrapErrorsUsing chain into (outermost-first elements, base error).
func flattenWrap(v engine.Value) ([]*engine.Opaque, engine.Value) {
	o := ErrOpaque(v)
	if o == nil || o.Kind != "wrap" {
		return nil, v
	}
	var elems []*engine.Opaque
	for _, it := range o.Items[1:] {
		if eo, ok := it.(*engine.Opaque); ok {
			elems = append(elems, eo)
		}
	}
	inner, base := flattenWrap(o.Items[0])
	return append(elems, inner...), base
}

// flattenErrorf turns a wrapErrors chain into (outermost-first layers, base error).
// A layer is the format string and its non-error arguments.
type errLayer struct {
	Format string
	Args   []engine.Value
}

func flattenErrorf(v engine.Value) ([]errLayer, engine.Value) {
	o := ErrOpaque(v)
	if o == nil || o.Kind != "errorf" || len(o.Items) < 2 {
		return nil, v
	}
	f, _ := o.Items[0].(engine.Str)
	fs, _ := f.Concrete()
	last := o.Items[len(o.Items)-1]
	li, ok := last.(engine.Iface)
	if !ok || li.T == nil {
		return nil, v
	}
	// the wrapped error travels as interface{}(error)
	var innerErr engine.Value = li.V
	if ie, ok := li.V.(engine.Iface); ok {
		innerErr = ie
	} else {
		innerErr = li
	}
	var args []engine.Value
	for _, a := range o.Items[1 : len(o.Items)-1] {
		if ai, ok := a.(engine.Iface); ok && ai.T != nil {
			args = append(args, ai.V)
		} else {
			args = append(args, a)
		}
	}
	layers, base := flattenErrorf(innerErr)
	return append([]errLayer{{Format: fs, Args: args}}, layers...), base
}

// CheckErrors: C07.
func CheckErrors(pc *PathCtx) {
	o := &Oracle{R: pc.R, Spec: pc.Conv.Spec, Calls: pc.Calls}
	if pc.Panic != nil {
		m, _ := pc.R.Witness(nil)
		pc.count(false)
		pc.Report("panic", pc.Panic.Pos, "converter panics: "+pc.Panic.Kind+": "+pc.Panic.Msg, m, false)
		return
	}
	var failed *CallEntry
	for _, c := range pc.Calls.Calls {
		if c.Failed {
			if failed != nil {
				pc.count(false)
				pc.Report("error", "", "execution continued after a custom function returned an error", nil, false)
				return
			}
			failed = c
		}
	}
	if failed == nil {
		if !pc.ErrIsNil() {
			m, _ := pc.R.Witness(nil)
			pc.count(false)
			pc.Report("error", "", "non-nil error although no custom function failed", m, false)
			return
		}
		CheckCalls(pc)
		return
	}
	// a call failed
	if failed != pc.Calls.Calls[len(pc.Calls.Calls)-1] {
		pc.count(false)
		pc.Report("error", "", "custom functions were called after one had failed", nil, false)
		return
	}
	if !pc.HasErr || pc.ErrIsNil() {
		m, _ := pc.R.Witness(nil)
		pc.count(false)
		pc.Report("error", failed.Name, "a custom function returned an error but the method returned a nil error", m, false)
		return
	}
	mode := ""
	if pc.Conv.Spec != nil {
		mode = pc.Conv.Spec.WrapMode
	}
	// locate the failing position
	var pos []CallPos
	tt := pc.targetType()
	o.CallPositions(pc.Src, pc.SrcT, tt, nil, &pos, 0)
	if pc.Conv.Spec != nil && pc.Conv.Spec.Update != nil && pc.Conv.Spec.Update.DefaultFn == failed.Name {
		pos = []CallPos{{Fn: failed.Name, Path: nil}}
	}
	var cands []CallPos
	for _, p := range pos {
		if p.Fn != failed.Name {
			continue
		}
		if p.HasSrc {
			if len(failed.SourceArgs) == 0 || !o.argIs(p.Src, failed.SourceArgs[0]).IsTrue() {
				continue
			}
		}
		cands = append(cands, p)
	}
	if len(cands) == 0 {
		pc.count(false)
		pc.Report("error", failed.Name, "oracle: failing call does not correspond to any position of the reference mapping", nil, false)
		return
	}
	switch mode {
	case "":
		pc.count(true)
		if !o.Identical(pc.Err, failed.Err).IsTrue() {
			pc.Rep.Discharged--
			m, _ := pc.R.Witness(nil)
			pc.Report("error", failed.Name, "returned error is not the custom function's error", m, false)
		}
	case "using":
		elems, base := flattenWrap(pc.Err)
		pc.count(true)
		if !o.Identical(base, failed.Err).IsTrue() {
			pc.Rep.Discharged--
			m, _ := pc.R.Witness(nil)
			pc.Report("error", failed.Name, "wrapped error does not wrap the custom function's error", m, false)
			return
		}
		// some candidate position's path must equal the reported path
		any := engine.False
		var descr []string
		for _, c := range cands {
			any = engine.Or(any, pathEquals(o, elems, c.Path))
			descr = append(descr, pathString(c.Path))
		}
		if qr := pc.R.Prove(any); !qr.Holds {
			pc.Rep.Discharged--
			var got []string
			for _, e := range elems {
				got = append(got, e.Kind+"("+engine.FormatValue(e.Items[0])+")")
			}
			pc.Report("errorpath", failed.Name, fmt.Sprintf("reported path [%s] is not the target path of the failing element %s", strings.Join(got, " "), strings.Join(descr, " or ")), qr.Model, qr.Inconclusive)
		}
	case "wrap":
		layers, base := flattenErrorf(pc.Err)
		pc.count(true)
		if !o.Identical(base, failed.Err).IsTrue() {
			pc.Rep.Discharged--
			m, _ := pc.R.Witness(nil)
			pc.Report("error", failed.Name, "wrapped error does not wrap (%w) the custom function's error", m, false)
			return
		}
		ok := false
		var descr []string
		for _, c := range cands {
			if layersMatch(layers, c.Path) {
				ok = true
			}
			descr = append(descr, pathString(c.Path))
		}
		if !ok {
			pc.Rep.Discharged--
			var got []string
			for _, l := range layers {
				got = append(got, fmt.Sprintf("%q%v", l.Format, fmtArgs(l.Args)))
			}
			m, _ := pc.R.Witness(nil)
			pc.Report("errorpath", failed.Name, fmt.Sprintf("wrapErrors layers %v do not follow the target path %s", got, strings.Join(descr, " or ")), m, false)
		}
	}
}

func fmtArgs(a []engine.Value) string {
	var s []string
	for _, v := range a {
		s = append(s, engine.FormatValue(v))
	}
	return "(" + strings.Join(s, ",") + ")"
}

func pathEquals(o *Oracle, elems []*engine.Opaque, path []PElem) *engine.Term {
	if len(elems) != len(path) {
		return engine.False
	}
	res := engine.True
	for i, e := range elems {
		p := path[i]
		if len(e.Items) != 1 {
			return engine.False
		}
		switch p.Kind {
		case "field":
			s, ok := e.Items[0].(engine.Str)
			c, conc := s.Concrete()
			if e.Kind != "perr.Field" || !ok || !conc || c != p.Name {
				return engine.False
			}
		case "index":
			t, ok := e.Items[0].(*engine.Term)
			if e.Kind != "perr.Index" || !ok || !t.Const || int(t.Signed()) != p.Idx {
				return engine.False
			}
		case "key":
			if e.Kind != "perr.Key" {
				return engine.False
			}
			k := e.Items[0]
			if ki, ok := k.(engine.Iface); ok && ki.T != nil {
				k = ki.V
			}
			res = engine.And(res, o.Identical(k, p.Key))
		}
	}
	return res
}

// layersMatch: the wrapErrors layers (outermost first) are an in-order subsequence of the
// field/index elements of the target path, and the innermost layer names the innermost field or
// index of the path (also when map keys follow it).
func layersMatch(layers []errLayer, path []PElem) bool {
	type fi struct {
		field string
		idx   int
		isIdx bool
	}
	var want []fi
	for _, p := range path {
		switch p.Kind {
		case "field":
			want = append(want, fi{field: p.Name})
		case "index":
			want = append(want, fi{idx: p.Idx, isIdx: true})
		}
	}
	match := func(l errLayer, w fi) bool {
		if w.isIdx {
			if l.Format != "error setting index %d: %w" || len(l.Args) != 1 {
				return false
			}
			t, ok := l.Args[0].(*engine.Term)
			return ok && t.Const && int(t.Signed()) == w.idx
		}
		return l.Format == "error setting field "+w.field+": %w" && len(l.Args) == 0
	}
	j := 0
	for _, l := range layers {
		found := false
		for j < len(want) {
			if match(l, want[j]) {
				found = true
				j++
				break
			}
			j++
		}
		if !found {
			return false
		}
	}
	// the innermost layer names the innermost field or index of the path (map keys have no message: the
	// method that converts the entries names the field or index it was setting when it reached the map)
	if len(want) > 0 {
		if len(layers) == 0 {
			return false
		}
		if !match(layers[len(layers)-1], want[len(want)-1]) {
			return false
		}
	}
	return true
}

// CheckCalls: C06 — custom functions are used at exactly the positions of the reference mapping,
// with the source at that position and the method's context arguments unchanged.
func CheckCalls(pc *PathCtx) {
	o := &Oracle{R: pc.R, Spec: pc.Conv.Spec, Calls: pc.Calls}
	if pc.Panic != nil {
		m, _ := pc.R.Witness(nil)
		pc.count(false)
		pc.Report("panic", pc.Panic.Pos, "converter panics: "+pc.Panic.Kind+": "+pc.Panic.Msg, m, false)
		return
	}
	for _, c := range pc.Calls.Calls {
		if c.Failed {
			// error behaviour is C07's subject
			pc.count(true)
			return
		}
	}
	if !pc.ErrIsNil() {
		if ok, _ := explainedByEnum(pc, o, "@error"); ok {
			pc.count(true)
			return
		}
		m, _ := pc.R.Witness(nil)
		pc.count(false)
		pc.Report("error", "", "non-nil error although no custom function failed", m, false)
		return
	}
	tt := pc.targetType()
	if tt == nil {
		return
	}
	// value obligations (custom positions demand the logged result of exactly that function)
	var got engine.Value = pc.Ret
	gotT := pc.RetT
	if pc.TgtIdx >= 0 {
		CheckUpdate(pc)
	} else if pc.Conv.Spec != nil && pc.Conv.Spec.Update != nil && pc.Conv.Spec.Update.DefaultFn != "" {
		CheckDefault(pc)
	} else if got != nil {
		o.Match(pc.Src, pc.SrcT, got, gotT, "result")
		pc.ProveLeaves("value", o)
	}
	// call multiset: exactly the positions of the reference mapping
	var pos []CallPos
	o.CallPositions(pc.Src, pc.SrcT, tt, nil, &pos, 0)
	want := map[string]int{}
	for _, p := range pos {
		want[p.Fn]++
	}
	if u := pc.Conv.Spec; u != nil && u.Update != nil && u.Update.DefaultFn != "" {
		want[u.Update.DefaultFn]++
	}
	have := map[string]int{}
	for _, c := range pc.Calls.Calls {
		have[c.Name]++
	}
	pc.count(true)
	// custom functions are assumed pure: calls with identical arguments are logged once. Every position is
	// served by a call (value obligations above); there may not be more distinct calls than positions.
	for fn, n := range want {
		if have[fn] > n || have[fn] == 0 {
			pc.Rep.Discharged--
			m, _ := pc.R.Witness(nil)
			pc.Report("calls", fn, fmt.Sprintf("custom function %s called with %d distinct argument lists, the mapping has %d positions for it", fn, have[fn], n), m, false)
			return
		}
	}
	for fn, n := range have {
		if _, ok := want[fn]; !ok {
			pc.Rep.Discharged--
			m, _ := pc.R.Witness(nil)
			pc.Report("calls", fn, fmt.Sprintf("unexpected %d call(s) to %s", n, fn), m, false)
			return
		}
	}
	// contexts: passed unchanged, matched by type in declaration order; never a conversion source
	co := &Oracle{R: pc.R, Spec: pc.Conv.Spec}
	for _, c := range pc.Calls.Calls {
		for i, ca := range c.CtxArgs {
			found := engine.False
			for _, idx := range pc.Ctx {
				if types.Identical(pc.T.Sig.Params().At(idx).Type(), c.CtxTypes[i]) {
					found = engine.Or(found, co.Identical(ca, pc.Args[idx]))
				}
			}
			co.leaf("call "+c.Name, found, fmt.Sprintf("context argument %d of %s is not the method's context argument of that type", i, c.Name))
		}
	}
	if len(co.Leaves) > 0 {
		pc.ProveLeaves("context", co)
	}
}
