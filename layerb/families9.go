package layerb

import "fmt"

// FamilyOddities: well-typed programs built around rarely used corners of the Go type system and of converter
// declarations. No outcome is prescribed (goverter may generate or reject with a diagnostic): they feed the
// crash gate of C13 - the generator must terminate without panicking - and, where generation succeeds, the
// type-check gate.
func FamilyOddities() []*Conv {
	var out []*Conv
	n := 0
	add := func(id, params, results, decls string, conv, method []string) {
		for _, f := range []string{"struct", "function", "variable"}[n%3 : n%3+1] {
			out = append(out, &Conv{ID: "odd/" + id + "/" + f, Family: "odd", Format: f, Params: params, Results: results,
				Decls: decls, ConvLines: conv, MethodLines: method, Spec: &Spec{}, Solo: true, AnyOutcome: true})
		}
		n++
	}
	hooks := "type PFXIn struct {\n\tName string\n\tHooks struct {\n\t\tOnDone func() string\n\t\tExtra int\n\t}\n}\ntype PFXOut struct {\n\tName string\n\tHooks struct {\n\t\tOnDone func() string\n\t\tExtra int\n\t}\n}\n"
	add("func_field_in_unnamed_struct_skipcopy", "source PFXIn", "PFXOut", hooks, []string{"skipCopySameType"}, nil)
	add("func_field_in_unnamed_struct", "source PFXIn", "PFXOut", hooks, nil, nil)
	add("func_field_in_unnamed_struct_elem", "source []struct{ F func(int) error; N int }", "[]struct{ F func(int) error; N int }", "", nil, nil)
	add("automap_through_pointer_to_func_field", "source PFXIn", "PFXOut",
		"type PFXInner struct{ Callback func(int) error }\ntype PFXIn struct {\n\tName string\n\tInner *PFXInner\n}\ntype PFXOut struct {\n\tName string\n\tCallback func(int) error\n}\n", nil, []string{"autoMap Inner"})
	add("automap_through_unnamed_struct_with_func_field", "source PFXIn", "PFXOut",
		"type PFXIn struct {\n\tName string\n\tInner struct{ Callback func() int }\n}\ntype PFXOut struct {\n\tName string\n\tCallback int\n}\n", nil, []string{"autoMap Inner"})
	add("map_func_field_of_unnamed_struct_as_getter", "source PFXIn", "PFXOut",
		"type PFXIn struct {\n\tInner struct{ Get func() int }\n}\ntype PFXOut struct{ Value int }\n", nil, []string{"map Inner.Get Value"})
	io := "type PFXIn struct{ A int }\ntype PFXOut struct{ A int }\n"
	// converter interfaces with entries that are no methods
	add("converter_embeds_local_interface", "source PFXIn", "PFXOut", io+"type PFXBase interface{ Other(source PFXIn) PFXOut }\n\n// goverter:converter\ntype PFXEmbedding interface {\n\tPFXBase\n\tConvert(source PFXIn) PFXOut\n}\n", nil, nil)
	add("converter_embeds_generic_interface", "source PFXIn", "PFXOut", io+"type PFXGBase[S, T any] interface{ Convert(source S) T }\n\n// goverter:converter\ntype PFXEmbedding2 interface {\n\tPFXGBase[PFXIn, PFXOut]\n}\n", nil, nil)
	add("converter_with_union_element", "source PFXIn", "PFXOut", io+"// goverter:converter\ntype PFXUnion interface {\n\t~int | ~string\n\tConvert(source PFXIn) PFXOut\n}\n", nil, nil)
	add("converter_empty_interface", "source PFXIn", "PFXOut", io+"// goverter:converter\ntype PFXEmpty interface{}\n", nil, nil)
	add("converter_marker_on_alias", "source PFXIn", "PFXOut", io+"type PFXReal interface{ Convert(source PFXIn) PFXOut }\n\n// goverter:converter\ntype PFXAlias = PFXReal\n", nil, nil)
	add("converter_marker_on_defined_from_interface", "source PFXIn", "PFXOut", io+"type PFXReal2 interface{ Convert(source PFXIn) PFXOut }\n\n// goverter:converter\ntype PFXDefined PFXReal2\n", nil, nil)
	// method shapes
	add("variadic_source", "source ...PFXIn", "[]PFXOut", io, nil, nil)
	add("named_results", "source PFXIn", "(out PFXOut, err error)", io, nil, nil)
	add("blank_parameter_name", "_ PFXIn", "PFXOut", io, nil, nil)
	add("no_parameters", "", "PFXOut", io, nil, nil)
	add("only_error_result", "source PFXIn", "error", io, nil, nil)
	add("func_typed_source", "source func() PFXIn", "PFXOut", io, nil, nil)
	add("chan_source", "source chan PFXIn", "chan PFXOut", io, nil, nil)
	add("interface_source", "source interface{ Get() PFXIn }", "PFXOut", io, nil, nil)
	// field kinds
	zoo := "type PFXBox[T any] struct{ V T }\ntype PFXF func() PFXF\ntype PFXA int\ntype PFXB int\n"
	add("blank_and_embedded_pointer_fields", "source PFXIn", "PFXOut", "type PFXE struct{ V int }\ntype PFXIn struct {\n\t_ int\n\t*PFXE\n\tN int\n}\ntype PFXOut struct {\n\t_ int\n\t*PFXE\n\tN int\n}\n", nil, nil)
	add("recursive_func_type_field", "source struct{ F PFXF; N PFXA }", "struct{ F PFXF; N PFXB }", zoo, nil, nil)
	add("generic_instances_differ", "source PFXBox[PFXA]", "PFXBox[PFXB]", zoo, nil, nil)
	add("generic_instance_nested", "source map[string]PFXBox[[]PFXA]", "map[string]PFXBox[[]PFXB]", zoo, nil, nil)
	add("unsafe_pointer_to_pointer", "source struct{ P unsafe.Pointer; Q *unsafe.Pointer }", "struct{ P *unsafe.Pointer; Q *unsafe.Pointer }", "", nil, nil)
	out[len(out)-1].Imports = []string{`"unsafe"`}
	add("unsafe_and_complex", "source struct{ P uintptr; C complex128; U [0]int }", "struct{ P uintptr; C complex128; U [0]int }", "", nil, nil)
	add("array_of_arrays", "source [2][3]PFXA", "[2][3]PFXB", zoo, nil, nil)
	add("struct_keyed_map_with_array", "source map[struct{ K [2]int }]PFXA", "map[struct{ K [2]int }]PFXB", zoo, nil, nil)
	// useUnderlyingTypeMethods over defined pointer / func / channel types: the conversion to the underlying type is parenthesized
	und := "type PFXT struct{ A int }\ntype PFXU struct{ A int }\ntype PFXP *PFXT\ntype PFXQ *PFXU\ntype PFXFn func() int\ntype PFXGn func() int\ntype PFXCh <-chan int\ntype PFXDh <-chan int\nfunc PFXPtrConv(t *PFXT) *PFXU { return nil }\nfunc PFXFnConv(f func() int) func() int {\n\treturn f\n}\nfunc PFXChConv(c <-chan int) <-chan int {\n\treturn c\n}\n"
	add("underlying_named_pointer", "source struct{ V PFXP }", "struct{ V PFXQ }", und, []string{"useUnderlyingTypeMethods", "extend PFXPtrConv"}, nil)
	add("underlying_named_func", "source struct{ V PFXFn }", "struct{ V PFXGn }", und, []string{"useUnderlyingTypeMethods", "extend PFXFnConv"}, nil)
	add("underlying_named_chan", "source struct{ V PFXCh }", "struct{ V PFXDh }", und, []string{"useUnderlyingTypeMethods", "extend PFXChConv"}, nil)
	add("alias_to_pointer", "source PFXAl", "*PFXOut", io+"type PFXAl = *PFXIn\n", nil, nil)
	add("pointer_to_interface", "source *interface{ M() }", "*interface{ M() }", "", nil, nil)
	add("interface_field_with_methods", "source struct{ I interface{ M(x []PFXA, rest ...int) PFXA } }", "struct{ I interface{ M(x []PFXA, rest ...int) PFXA } }", zoo, nil, nil)
	add("func_field_named_struct_to_method_target", "source PFXIn", "PFXOut", "type PFXIn struct{ Get func() int }\ntype PFXOut struct{ Get int }\n", nil, nil)
	add("settings_name_non_struct_path", "source PFXIn", "PFXOut", "type PFXIn struct {\n\tL []struct{ V int }\n\tM map[string]int\n}\ntype PFXOut struct{ V int }\n", nil, []string{"map L.V V"})
	add("map_path_through_map", "source PFXIn", "PFXOut", "type PFXIn struct{ M map[string]struct{ V int } }\ntype PFXOut struct{ V int }\n", nil, []string{"map M.V V"})
	add("map_path_through_func", "source PFXIn", "PFXOut", "type PFXIn struct{ F func() struct{ V int } }\ntype PFXOut struct{ V int }\n", nil, []string{"map F.V V"})
	add("automap_non_struct", "source PFXIn", "PFXOut", "type PFXIn struct {\n\tL []int\n\tN int\n}\ntype PFXOut struct{ N int }\n", nil, []string{"autoMap L"})
	add("automap_self_pointer", "source PFXIn", "PFXOut", "type PFXIn struct {\n\tSelf *PFXIn\n\tN int\n}\ntype PFXOut struct {\n\tN int\n\tMissing int\n}\n", nil, []string{"autoMap Self"})
	for i, t := range []string{"*string", "**PFXAddr", "*[]PFXAddr", "*map[string]PFXAddr", "*PFXZip", "[]PFXAddr", "func() PFXAddr", "chan PFXAddr"} {
		add(fmt.Sprintf("automap_path_to_non_struct_%d", i), "source PFXIn", "PFXOut",
			"type PFXAddr struct{ City string }\ntype PFXZip int\ntype PFXIn struct {\n\tName string\n\tAddress "+t+"\n}\ntype PFXOut struct {\n\tName string\n\tCity string\n}\n", nil, []string{"autoMap Address"})
	}
	opt := "type PFXOption func(*PFXOut)\n"
	add("variadic_context_parameter", "source PFXIn, ctxOpts ...PFXOption", "PFXOut", io+opt, []string{"arg:context:regex ^ctx"}, nil)
	add("variadic_context_parameter_nested", "source []PFXIn, ctxOpts ...PFXOption", "[]PFXOut", io+opt+"func PFXOne(source PFXIn, ctxOpts ...PFXOption) PFXOut { return PFXOut{} }\n", []string{"arg:context:regex ^ctx", "extend PFXOne"}, nil)
	add("variadic_custom_function_source", "source PFXW", "PFXWT", "type PFXW struct{ L []int }\ntype PFXWT struct{ L string }\nfunc PFXJoin(xs ...int) string { return \"\" }\n", []string{"extend PFXJoin"}, nil)
	// update methods in corners
	add("update_pointer_source_whole_source_func", "source *PFXIn, target *PFXOut", "", "type PFXIn struct{ First, Last string }\ntype PFXOut struct {\n\tFull string\n\tFirst string\n}\nfunc PFXFull(in PFXIn) string { return in.First }\n", nil, []string{"update target", "map . Full | PFXFull"})
	add("update_pointer_source_whole_source_field", "source *PFXIn, target *PFXOut", "", "type PFXIn struct{ First, Last string }\ntype PFXOut struct {\n\tWhole PFXIn\n\tFirst string\n}\n", nil, []string{"update target", "map . Whole"})
	for i, t := range []string{"*string", "**PFXIn", "*[]PFXIn", "*map[string]PFXIn", "*interface{}", "*PFXNum", "[]PFXIn", "*func() PFXIn", "*[2]PFXIn"} {
		add(fmt.Sprintf("update_source_not_a_struct_%d", i), "source "+t+", target *PFXOut", "", "type PFXNum int\ntype PFXIn struct{ A int }\ntype PFXOut struct{ A int }\n", nil, []string{"update target"})
		add(fmt.Sprintf("update_target_not_a_struct_%d", i), "source PFXIn, target "+t, "", "type PFXNum int\ntype PFXIn struct{ A int }\ntype PFXOut struct{ A int }\n", nil, []string{"update target"})
	}
	// directive texts that are patterns: anything the regexp syntax allows or rejects ends in a diagnostic or in output
	for i, pat := range []string{`Conv.*\Q`, `Conv.*To\QString`, `(?i:conv.*)`, `Conv(`, `Conv[`, `Conv\`, `(?P<n>Conv.*)`, `Conv.*|`, `\pL+`, `Conv{2,1}`, `(?U)Conv.*`, `Conv.*)(`} {
		add(fmt.Sprintf("extend_pattern_%d", i), "source PFXIn", "PFXOut", io+"func PFXConvA(i int) int { return i }\n", []string{"extend " + pat}, nil)
		add(fmt.Sprintf("enum_exclude_pattern_%d", i), "source PFXIn", "PFXOut", io, []string{"enum:exclude " + pat}, nil)
		add(fmt.Sprintf("context_regex_%d", i), "source PFXIn", "PFXOut", io, []string{"arg:context:regex " + pat}, nil)
	}
	// defined array types where no rule applies: a diagnostic
	arr := "type PFXHash [4]byte\ntype PFXHash2 [4]byte\ntype PFXGrid [2][2]int\n"
	add("defined_array_to_itself", "source PFXHash", "PFXHash", arr, nil, nil)
	add("defined_array_to_defined_array", "source PFXHash", "PFXHash2", arr, nil, nil)
	add("defined_array_fields", "source struct{ H PFXHash; G PFXGrid; U [3]int }", "struct{ H PFXHash2; G PFXGrid; U [4]int }", arr, nil, nil)
	add("defined_array_elements", "source []PFXHash", "map[string]*PFXHash2", arr, nil, nil)
	// a DAG of defined map types, 24 levels, every level used as key and as value of the next: analysed in time and
	// memory that is linear in the number of types (2^24 when finished types are not shared)
	{
		dag := "type PFXD0 struct{ V int }\n"
		for i := 1; i <= 24; i++ {
			dag += fmt.Sprintf("type PFXD%d map[*PFXD%d]*PFXD%d\n", i, i-1, i-1)
		}
		add("dag_of_defined_map_types", "source PFXD24", "PFXD24", dag, nil, nil)
	}
	// self-referential types in update methods under skipCopySameType, with and without field settings: terminates
	selfref := "type PFXNode struct {\n\tName string\n\tSecret string\n\tNext *PFXNode\n\tKids []PFXNode\n\tByName map[string]*PFXNode\n}\n"
	add("update_selfref_skipcopy_field_settings", "source *PFXNode, target *PFXNode", "", selfref, []string{"skipCopySameType"}, []string{"update target", "ignore Secret"})
	add("update_selfref_skipcopy_zero_settings", "source PFXNode, target *PFXNode", "", selfref, []string{"skipCopySameType"}, []string{"update target", "update:ignoreZeroValueField"})
	add("update_selfref_field_settings", "source *PFXNode, target *PFXNode", "", selfref, nil, []string{"update target", "ignore Secret"})
	add("clone_selfref_skipcopy_field_settings", "source *PFXNode", "*PFXNode", selfref, []string{"skipCopySameType"}, []string{"ignore Secret"})
	add("clone_value_selfref_skipcopy_field_settings", "source PFXNode", "PFXNode", selfref, []string{"skipCopySameType"}, []string{"map Name Secret"})
	add("update_ignorezero_struct_field_not_comparable", "source PFXIn, target *PFXOut", "", "type PFXN struct{ L []int }\ntype PFXIn struct{ N PFXN }\ntype PFXOut struct{ N PFXN }\n", nil, []string{"update target", "update:ignoreZeroValueField:struct"})
	add("ignoremissing_inline_struct_map_value", "source map[string]struct{ A int }", "map[string]struct{ B int }", "", []string{"ignoreMissing"}, nil)
	add("embedded_alias_field_in_unnamed_struct", "source struct{ PFXAlias }", "struct{ PFXAlias }", "type PFXBase struct{ V int }\ntype PFXAlias = PFXBase\n", nil, nil)
	add("unexported_named_type_in_field", "source PFXIn", "PFXOut", "type pfxInner struct{ V int }\ntype PFXIn struct{ In pfxInner }\ntype PFXOut struct{ In pfxInner }\n", nil, nil)
	add("unexported_named_type_in_slice", "source []pfxInner2", "[]pfxInner2", "type pfxInner2 struct{ V []int }\n", nil, nil)
	add("enum_on_func_constants", "source PFXE1", "PFXE2", "type PFXE1 int\ntype PFXE2 string\n\nconst (\n\tPFXE1A PFXE1 = iota\n\tPFXE1B\n)\n\nconst PFXE2A PFXE2 = \"a\"\n", []string{"enum:unknown @ignore"}, nil)
	// the only method for a nested pair needs a context the calling method does not have (declared before / after
	// the caller in build order, nested named struct or flat)
	for _, sibName := range []string{"ZPFXItem", "APFXItem"} {
		for k, inner := range []string{"type PFXIn struct {\n\tName string\n\tInner PFXInI\n}\ntype PFXOut struct {\n\tName string\n\tInner PFXOutI\n}\ntype PFXInI struct{ V int }\ntype PFXOutI struct{ V int }\n", "type PFXIn struct{ Name string }\ntype PFXOut struct{ Name string }\n"} {
			f := []string{"struct", "function", "variable"}[n%3]
			sib := "\t// goverter:context loc\n\t" + sibName + "(source PFXIn, loc PFXLocale) PFXOut\n"
			if f == "variable" {
				sib = "\t// goverter:context loc\n\t" + sibName + " func(source PFXIn, loc PFXLocale) PFXOut\n"
			}
			out = append(out, &Conv{ID: fmt.Sprintf("odd/declared_method_needs_unavailable_context_%s_%d/%s", sibName[:1], k, f), Family: "odd", Format: f,
				Params: "source []PFXIn", Results: "[]PFXOut", Decls: "type PFXLocale struct{ Lang string }\n" + inner,
				ExtraMethods: sib, Spec: &Spec{}, Solo: true, AnyOutcome: true})
			n++
		}
	}
	// enum transformer configurations with too few / too many words: a diagnostic, whatever the method converts
	{
		enums := "type PFXColA int\n\nconst (\n\tPFXColARed PFXColA = iota\n\tPFXColAGreen\n)\n\ntype PFXColB int\n\nconst (\n\tPFXColBRed PFXColB = iota\n\tPFXColBGreen\n)\n"
		for _, cfg := range []string{"regex ^PFXColA", "regex", "regex a b c", "regex ( x", "nosuch a b", "regex PFXColA(\\w+) PFXColB$1 extra"} {
			add("enum_transform_config_"+fmt.Sprint(n), "source PFXColA", "PFXColB", enums, []string{"enum:unknown @panic"}, []string{"enum:transform " + cfg})
		}
	}
	// universe types (error) next to an enum:exclude line: the exclude patterns are matched against package paths
	add("error_field_with_enum_exclude", "source PFXIn", "PFXOut", "type PFXIn struct {\n\tCause error\n\tN int\n}\ntype PFXOut struct {\n\tCause error\n\tN int\n}\n", []string{"enum:exclude .*:Color"}, nil)
	add("error_field_with_enum_exclude_skipcopy", "source PFXIn", "PFXOut", "type PFXIn struct {\n\tCause error\n\tN int\n}\ntype PFXOut struct {\n\tCause error\n\tN int\n}\n", []string{"enum:exclude .*:Color", "skipCopySameType"}, nil)
	add("map_path_with_empty_elements", "source PFXIn", "PFXOut", "type PFXN struct{ V int }\ntype PFXIn struct{ Nested PFXN }\ntype PFXOut struct{ Value int }\n", nil, []string{"map Nested.. Value"})
	// an unnamed interface that embeds an interface of another package next to an explicit method of the same bare
	// (unexported) name - two different methods: the type is rendered with both
	for _, f := range []string{"struct", "function"} {
		out = append(out, &Conv{ID: "odd/interface_embedding_foreign_unexported_method/" + f, Family: "odd", Format: f,
			Params: "source []interface {\n\t\tpfxdep.Sealed\n\t\tsealed()\n\t}", Results: "[]interface {\n\t\tpfxdep.Sealed\n\t\tsealed()\n\t}",
			Aux:       map[string]string{"pfxdep": "package pfxdep\n\ntype Sealed interface {\n\tsealed()\n}\n\ntype Impl struct{}\n\nfunc (Impl) sealed() {}\n"},
			Imports:   []string{`pfxdep "corpus/GRP/pfxdep"`},
			ConvLines: []string{"skipCopySameType", "output:file ./pfxsealed.gen.go", "output:package corpus/GRP"},
			Spec:      &Spec{SkipCopy: true}, Solo: true, AnyOutcome: true, OutInInput: true})
	}
	return out
}
