package layerb

import "strings"

// FamilySignature: accept / reject programs for C14 at the level of whole runs (which options the configuration
// layer hands to method.Parse for each kind of function is not visible to kernel K4): custom functions that the
// output package cannot reach, declarations with a wrong shape.
func FamilySignature(thorough bool) []*Conv {
	var out []*Conv
	io := "type PFXIn struct {\n\tName string\n\tAge int\n}\ntype PFXOut struct {\n\tName string\n\tAge int\n}\n"
	add := func(id, format, params, results, decls string, conv, method []string, fail string) {
		out = append(out, &Conv{ID: "signature/" + id + "/" + format, Family: "signature", Format: format, Params: params, Results: results,
			Decls: io + decls, ConvLines: conv, MethodLines: method, Spec: &Spec{}, ExpectFail: fail != "", FailNote: fail, Solo: true})
	}
	// unexported custom functions: unreachable from ./generated (struct, function), fine next to the declaration (variable)
	for _, f := range []string{"struct", "function", "variable"} {
		note := func(kind string) string {
			if f == "variable" {
				return ""
			}
			return "unexported " + kind + " function is not accessible from the output package"
		}
		add("default_unexported", f, "source *PFXIn", "*PFXOut", "func pfxNew() *PFXOut { return &PFXOut{} }\n", nil, []string{"default pfxNew"}, note("default"))
		add("mapfunc_unexported", f, "source PFXIn", "PFXOut", "func pfxUpper(s string) string { return s }\n", nil, []string{"map Name | pfxUpper"}, note("map|FUNC"))
		add("extend_unexported", f, "source PFXIn", "PFXOut", "func pfxAge(i int) int { return i }\n", []string{"extend pfxAge"}, nil, note("extend"))
		add("default_exported", f, "source *PFXIn", "*PFXOut", "func PFXNew() *PFXOut { return &PFXOut{} }\n", nil, []string{"default PFXNew"}, "")
		// declarations with a wrong shape
		add("two_sources", f, "source PFXIn, other PFXIn", "PFXOut", "", nil, nil, "two source parameters")
		add("two_sources_second_blank", f, "source PFXIn, _ PFXIn", "PFXOut", "", nil, nil, "two source parameters (the second one is blank)")
		add("extend_two_sources_second_blank", f, "source PFXIn", "PFXOut", "func PFXAge2(i int, _ bool) int { return i }\n", []string{"extend PFXAge2"}, nil, "extend function with two source parameters (the second one is blank)")
		add("extend_generic_phantom", f, "source PFXIn", "PFXOut", "func PFXGenP[Strategy any](i int) int { return i }\n", []string{"extend PFXGenP"}, nil, "generic extend function (the type parameter does not occur in the signature)")
		add("no_result", f, "source PFXIn", "", "", nil, nil, "no result and no update argument")
		add("second_result_not_error", f, "source PFXIn", "(PFXOut, int)", "", nil, nil, "second result is not error")
		add("three_results", f, "source PFXIn", "(PFXOut, error, error)", "", nil, nil, "three results")
		add("update_with_result", f, "source PFXIn, target *PFXOut", "PFXOut", "", nil, []string{"update target"}, "update method with a non-error result")
		add("update_ok", f, "source PFXIn, target *PFXOut", "error", "", nil, []string{"update target"}, "")
		// an update method that carries the name goverter would give the helper of a nested pair: the helper gets another name
		if f == "variable" {
			out = append(out, &Conv{ID: "signature/update_method_named_like_helper/" + f, Family: "signature", Format: f, Params: "source PFXW", Results: "PFXWT",
				Decls:        io + "type PFXW struct{ One PFXIn }\ntype PFXWT struct{ One PFXOut }\n",
				ExtraMethods: "\t// goverter:update target\n\tGRPPFXInToUGRPPFXOut func(source PFXIn, target *PFXOut)\n", Spec: &Spec{}, Solo: true})
		}
		add("update_unknown_arg", f, "source PFXIn, target *PFXOut", "", "", nil, []string{"update nothere"}, "update names a parameter that does not exist")
		add("update_arg_in_another_case", f, "source PFXIn, target *PFXOut", "", "", nil, []string{"update Target"}, "update names a parameter that exists only in another case")
		add("update_source_named_like_arg_in_another_case", f, "Target PFXIn, target *PFXOut", "", "", nil, []string{"update target"}, "")
		add("context_only", f, "ctxA PFXIn", "PFXOut", "", []string{"arg:context:regex ^ctx"}, nil, "no source parameter (the only parameter is a context)")
		add("default_two_sources", f, "source *PFXIn", "*PFXOut", "func PFXNew2(a *PFXIn, b *PFXIn) *PFXOut { return &PFXOut{} }\n", nil, []string{"default PFXNew2"}, "default function with two source parameters")
		add("extend_no_result", f, "source PFXIn", "PFXOut", "func PFXNoRes(i int) {}\n", []string{"extend PFXNoRes"}, nil, "extend function without result")
		add("generic_converter_interface", f, "source PFXIn", "PFXOut", "// goverter:converter\ntype PFXGeneric[T any] interface {\n\tConvert(source T) PFXOut\n}\n", nil, nil, "converter interface with type parameters")
		add("extend_generic", f, "source PFXIn", "PFXOut", "func PFXGen[T any](i T) T { return i }\n", []string{"extend PFXGen"}, nil, "generic extend function")
	}
	// goverter:context NAME belongs to the method it is written on: a sibling (parsed later: its name sorts after)
	// with a parameter of that name has two sources and is rejected
	for _, f := range []string{"struct", "function", "variable"} {
		sib := "\tZPFXSibling(source PFXOut, db PFXIn) PFXIn\n"
		if f == "variable" {
			sib = "\tZPFXSibling func(source PFXOut, db PFXIn) PFXIn\n"
		}
		out = append(out, &Conv{ID: "signature/context_line_not_shared_with_sibling/" + f, Family: "signature", Format: f, Params: "source PFXIn, db PFXIn", Results: "PFXOut",
			Decls: io, MethodLines: []string{"context db"}, ExtraMethods: sib, Spec: &Spec{}, ExpectFail: true, FailNote: "a sibling method's goverter:context line made a second source parameter a context", Solo: true})
		ok := "\t// goverter:context db\n\tZPFXSibling(source PFXOut, db PFXIn) PFXIn\n"
		if f == "variable" {
			ok = strings.Replace(ok, "ZPFXSibling(", "ZPFXSibling func(", 1)
		}
		out = append(out, &Conv{ID: "signature/context_line_on_both_siblings/" + f, Family: "signature", Format: f, Params: "source PFXIn, db PFXIn", Results: "PFXOut",
			Decls: io, MethodLines: []string{"context db"}, ExtraMethods: ok, Spec: &Spec{}, Solo: true})
	}
	// goverter:context names a parameter: a name without a parameter is reported, on a method and on a custom function
	for _, f := range []string{"struct", "function", "variable"} {
		add("context_names_missing_parameter", f, "source PFXIn", "PFXOut", "", nil, []string{"context nosuch"}, "goverter:context names a parameter that does not exist")
		add("context_names_one_missing_parameter_behind_a_valid_one", f, "source PFXIn, ctxA PFXCtx", "PFXOut", "type PFXCtx struct{ Z int }\n", nil, []string{"context ctxA", "context zone"}, "goverter:context names a parameter that does not exist (a second line names an existing one)")
		add("context_names_one_missing_parameter_before_a_valid_one", f, "source PFXIn, zone PFXCtx", "PFXOut", "type PFXCtx struct{ Z int }\n", nil, []string{"context zone", "context actx"}, "goverter:context names a parameter that does not exist (a second line names an existing one)")
		add("context_names_missing_parameter_on_function", f, "source PFXIn", "PFXOut", "// goverter:context lokup\nfunc PFXAge(i int) int { return i }\n", []string{"extend PFXAge"}, nil, "goverter:context in the doc comment of a custom function names a parameter that does not exist")
	}
	// settings that need a value and are written without one are reported, not accepted without effect
	for _, f := range []string{"struct", "function", "variable"} {
		add("bare_ignore", f, "source PFXIn", "PFXOut", "", nil, []string{"ignore"}, "goverter:ignore without a field name")
		add("bare_extend", f, "source PFXIn", "PFXOut", "", []string{"extend"}, nil, "goverter:extend without a function name")
		add("bare_map", f, "source PFXIn", "PFXOut", "", nil, []string{"map"}, "goverter:map without fields")
	}
	// settings of the struct format are rejected for the function format whatever the order of the lines (here: output:format
	// function written below them)
	add("struct_name_with_function_format", "struct", "source PFXIn", "PFXOut", "", []string{"name PFXMine", "output:format function"}, nil, "goverter:name together with output:format function (written above it)")
	add("struct_comment_with_function_format", "struct", "source PFXIn", "PFXOut", "", []string{"struct:comment hello", "output:format function"}, nil, "goverter:struct:comment together with output:format function (written above it)")
	// an unexported function of the output package may be used whatever the order of the lines, and also when only
	// output:file selects that package
	for _, f := range []string{"struct", "function"} {
		add("extend_unexported_output_package_below", f, "source PFXIn", "PFXOut", "func pfxAge2(i int) int { return i }\n", []string{"extend pfxAge2", "output:file ./pfxsame.gen.go", "output:package corpus/GRP"}, nil, "")
		add("extend_unexported_output_file_only", f, "source PFXIn", "PFXOut", "func pfxAge3(i int) int { return i }\n", []string{"extend pfxAge3", "output:file ./pfxsame2.gen.go"}, nil, "")
		out[len(out)-1].OutInInput, out[len(out)-2].OutInInput = true, true
	}
	// two converters of one output package with one struct name: a diagnostic, not a package that does not compile
	add("duplicate_struct_name", "struct", "source PFXIn", "PFXOut", "// goverter:converter\n// goverter:name PFXSame\ntype PFXOther interface {\n\tConvert(source PFXOut) PFXIn\n}\n", []string{"name PFXSame"}, nil, "two converters with the same goverter:name in one output package")
	add("duplicate_function_name", "function", "source PFXIn", "PFXOut", "// goverter:converter\n// goverter:output:format function\ntype PFXOther2 interface {\n\tCONVMETHOD(source PFXOut) PFXIn\n}\n", nil, nil, "two function-format converters that declare the same function name in one output package")
	// custom functions that take the converter interface: a role of its own where a converter value exists (struct
	// format), an ordinary second source - hence rejected - in function format, whichever setting names the function
	for _, f := range []string{"struct", "function"} {
		fail := func(kind string) string {
			if f == "struct" {
				return ""
			}
			return kind + " function takes the converter interface although the function format has no converter value"
		}
		add("mapfunc_takes_converter", f, "source PFXIn", "PFXOut", "func PFXUpperC(c CNAME, name string) string { return name }\n", nil, []string{"map Name | PFXUpperC"}, fail("map|FUNC"))
		add("default_takes_converter", f, "source PFXIn", "PFXOut", "func PFXNewC(c CNAME, source PFXIn) PFXOut { return PFXOut{} }\n", nil, []string{"default PFXNewC"}, fail("default"))
		add("extend_takes_converter", f, "source PFXIn", "PFXOut", "func PFXAgeC(c CNAME, i int) int { return i }\n", []string{"extend PFXAgeC"}, nil, fail("extend"))
	}
	return out
}
