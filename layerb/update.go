package layerb

import (
	"go/types"

	"verif/engine"
)

// UpdateSpec describes update / default semantics of a method.
type UpdateSpec struct {
	// zero-value categories selected by update:ignoreZeroValueField[:basic|:struct|:nillable]
	SkipBasic    bool `json:"skip_basic,omitempty"`
	SkipStruct   bool `json:"skip_struct,omitempty"`
	SkipNillable bool `json:"skip_nillable,omitempty"`
	// Default FUNC
	DefaultFn     string `json:"default_fn,omitempty"`
	DefaultUpdate bool   `json:"default_update,omitempty"`
}

func zeroCategory(t types.Type) string {
	switch t.Underlying().(type) {
	case *types.Basic:
		return "basic"
	case *types.Struct:
		return "struct"
	case *types.Chan, *types.Map, *types.Signature, *types.Interface, *types.Slice:
		return "nillable"
	case *types.Pointer:
		return "pointer"
	}
	return ""
}

func (u *UpdateSpec) selected(cat string) bool {
	if u == nil {
		return false
	}
	switch cat {
	case "basic":
		return u.SkipBasic
	case "struct":
		return u.SkipStruct
	case "nillable":
		return u.SkipNillable
	}
	return false
}

// updateFields states the update semantics of one struct pair:
// pre/post are the target struct before/after; src is the source struct value.
// strictIgnored=false leaves ignored fields unconstrained (statement silent).
func (o *Oracle) updateFields(src engine.Struct, S types.Type, pre engine.Value, post engine.Struct, T types.Type, u *UpdateSpec, strictIgnored bool, path string) {
	ss := S.Underlying().(*types.Struct)
	ts := T.Underlying().(*types.Struct)
	preAt := func(i int) engine.Value {
		switch p := pre.(type) {
		case engine.Struct:
			return p[i]
		}
		return nil
	}
	for i := 0; i < ts.NumFields(); i++ {
		tf := ts.Field(i)
		fpath := path + "." + tf.Name()
		fs, ps := o.fieldSpec(S, T, tf.Name())
		if fs != nil && fs.Free {
			continue
		}
		unchanged := func() *engine.Term {
			p := preAt(i)
			if p == nil {
				return engine.False
			}
			return o.R.Name(Unchanged(o.R, p, post[i], o))
		}
		if fs != nil && fs.Ignore {
			if strictIgnored {
				o.leaf(fpath, unchanged(), "ignored field was modified")
			}
			continue
		}
		var sv engine.Value
		var st types.Type
		if fs != nil && fs.Fn != "" && fs.Getter && o.Calls != nil {
			// the getter's result is the source value of this field: the zero-value rules apply to it
			var call *CallEntry
			for _, c := range o.Calls.Calls {
				if c.Name == fs.Fn && len(c.SourceArgs) > 0 && o.Identical(c.SourceArgs[0], src).IsTrue() {
					call = c
				}
			}
			if call == nil {
				o.fail(fpath, "getter %s was not called on the source", fs.Fn)
				continue
			}
			rt := call.ResultType
			zero := o.R.Name(o.IsZero(call.Result, rt))
			zeroGo := o.R.Name(o.isZeroGo(call.Result, rt))
			is := o.collect(func() { o.Match(call.Result, rt, post[i], tf.Type(), fpath) })
			o.leaf(fpath, engine.Implies(engine.Not(zeroGo), is), "field is not the getter's non-zero result")
			if u.selected(zeroCategory(rt)) {
				o.leaf(fpath, engine.Implies(zero, unchanged()), "zero-valued getter result overwrote the target although update:ignoreZeroValueField is set")
			}
			o.leaf(fpath, engine.Implies(zeroGo, engine.Or(is, unchanged())), "field is neither the getter's result nor unchanged")
			continue
		}
		if fs != nil && fs.Fn != "" {
			// custom function result is assigned; with zero guards when the *result* category is selected.
			var args []engine.Value
			if !fs.FnNoSource {
				v, _, nilOn, ok := o.walkPath(src, S, fs.Path, fs.Whole, tf.Name())
				if !ok || nilOn {
					continue
				}
				args = []engine.Value{v}
			}
			c := o.collect(func() { o.matchCall(fs.Fn, args, post[i], tf.Type(), fpath) })
			o.leaf(fpath, engine.Or(c, unchanged()), "field is neither the custom function's result nor unchanged")
			continue
		}
		if fs != nil && (fs.Path != nil || fs.Whole) {
			v, vt, nilOn, ok := o.walkPath(src, S, fs.Path, fs.Whole, tf.Name())
			if !ok {
				o.fail(fpath, "oracle: bad path")
				continue
			}
			if nilOn {
				continue // statement silent
			}
			sv, st = v, vt
		} else {
			fold := ps != nil && ps.IgnoreCase
			idx, n := findField(ss, tf.Name(), fold)
			if n != 1 {
				// unmapped (ignoreMissing etc.): keeps its previous value
				if strictIgnored {
					o.leaf(fpath, unchanged(), "unmapped field was modified")
				}
				continue
			}
			sv, st = src[idx], ss.Field(idx).Type()
		}
		// zero: bit-identical to the zero value; zeroGo: equal to it under Go's == (differs for -0.0,
		// which the statement does not classify: both treatments are accepted for it)
		zero := o.R.Name(o.IsZero(sv, st))
		zeroGo := o.R.Name(o.isZeroGo(sv, st))
		cat := zeroCategory(st)
		if cat == "pointer" && o.Spec != nil && o.Spec.SkipCopy && types.Identical(st, tf.Type()) {
			// documented: the nillable category does affect pointers when skipCopySameType takes them over
			cat = "nillable"
		}
		// a nested struct of unnamed type on both sides is part of the method's own struct: it is updated in
		// place, member by member, every member under the same categories (below the struct-level guard)
		if _, su := st.(*types.Struct); su {
			if _, tu := tf.Type().(*types.Struct); tu {
				if svs, ok1 := sv.(engine.Struct); ok1 {
					if pst, ok2 := post[i].(engine.Struct); ok2 {
						rec := o.collect(func() { o.updateFields(svs, st, preAt(i), pst, tf.Type(), u, false, fpath) })
						if u.selected(cat) {
							o.leaf(fpath, engine.Implies(zero, unchanged()), "zero-valued "+cat+" source field overwrote the target although update:ignoreZeroValueField:"+cat+" is set")
							o.leaf(fpath, engine.Implies(engine.Not(zeroGo), rec), "nested struct with non-zero source: a member is neither its conversion nor rightly left alone")
						} else {
							o.leaf(fpath, rec, "nested struct: a member is neither its conversion nor rightly left alone")
						}
						continue
					}
				}
			}
		}
		conv := o.collect(func() { o.Match(sv, st, post[i], tf.Type(), fpath) })
		// non-zero source: replaced by its conversion
		o.leaf(fpath, engine.Implies(engine.Not(zeroGo), conv), "mapped field with non-zero source is not its conversion")
		if u.selected(cat) {
			o.leaf(fpath, engine.Implies(zero, unchanged()), "zero-valued "+cat+" source field overwrote the target although update:ignoreZeroValueField:"+cat+" is set")
		}
		o.leaf(fpath, engine.Implies(zeroGo, engine.Or(conv, unchanged())), "field is neither the conversion of the source nor unchanged")
	}
}

// skippedFieldFailures: a failed call of a map|FUNC function whose argument is the zero-valued source of a field
// that update:ignoreZeroValueField skips.
func (o *Oracle) skippedFieldFailures(pc *PathCtx) {
	if pc.TgtIdx < 0 || pc.Conv.Spec == nil || pc.Conv.Spec.Update == nil || o.Calls == nil {
		return
	}
	u := pc.Conv.Spec.Update
	S, src := pc.SrcT, pc.Src
	if sp, ok := S.Underlying().(*types.Pointer); ok {
		p, ok := src.(engine.Pointer)
		if !ok || p.Slot == nil {
			return
		}
		src, S = *p.Slot, sp.Elem()
	}
	tpt, ok := pc.T.Sig.Params().At(pc.TgtIdx).Type().Underlying().(*types.Pointer)
	if !ok {
		return
	}
	T := tpt.Elem()
	ts, ok := T.Underlying().(*types.Struct)
	if _, sok := S.Underlying().(*types.Struct); !ok || !sok {
		return
	}
	for i := 0; i < ts.NumFields(); i++ {
		tf := ts.Field(i)
		fs, _ := o.fieldSpec(S, T, tf.Name())
		if fs == nil || fs.Fn == "" || fs.FnNoSource || fs.Getter {
			continue
		}
		v, vt, nilOn, ok := o.walkPath(src, S, fs.Path, fs.Whole, tf.Name())
		if !ok || nilOn || !u.selected(zeroCategory(vt)) {
			continue
		}
		for _, c := range o.Calls.Calls {
			if c.Name == fs.Fn && c.Failed && len(c.SourceArgs) > 0 {
				o.leaf("target."+tf.Name(), engine.Not(engine.And(o.Identical(c.SourceArgs[0], v), o.IsZero(v, vt))),
					"the update failed in "+fs.Fn+" called for a zero-valued "+zeroCategory(vt)+" source field that update:ignoreZeroValueField skips")
			}
		}
	}
}

// CheckUpdate: C10 — update methods.
func CheckUpdate(pc *PathCtx) {
	o := &Oracle{R: pc.R, Spec: pc.Conv.Spec, Calls: pc.Calls}
	if pc.TgtIdx < 0 {
		return
	}
	if pc.Panic != nil {
		m, _ := pc.R.Witness(nil)
		pc.count(false)
		pc.Report("panic", pc.Panic.Pos, "update method panics: "+pc.Panic.Kind+": "+pc.Panic.Msg, m, false)
		return
	}
	if !pc.ErrIsNil() {
		// an error ends the update - but it cannot come from a field that is skipped: the conversion of a
		// zero-valued source field of a selected category does not take part in the update
		o.skippedFieldFailures(pc)
		if len(o.Leaves) > 0 {
			pc.ProveLeaves("update", o)
		} else {
			pc.count(true)
		}
		return
	}
	// results: nothing but an optional error
	res := pc.T.Sig.Results()
	if res.Len() > 1 || (res.Len() == 1 && !isErrorType(res.At(0).Type())) {
		pc.count(false)
		pc.Report("api", "", "update method returns something else than an optional error", nil, false)
		return
	}
	tp := pc.Args[pc.TgtIdx].(engine.Pointer)
	T := pc.T.Sig.Params().At(pc.TgtIdx).Type().Underlying().(*types.Pointer).Elem()
	post := (*tp.Slot).(engine.Struct)
	// writes only into *ARG and fresh memory: nothing reachable from the source
	srcSet := map[*engine.Value]string{}
	reach(pc.Src, srcSet, "source", 0)
	tgtSet := map[*engine.Value]string{}
	reach(pc.Args[pc.TgtIdx], tgtSet, "target", 0)
	pc.count(true)
	for _, w := range pc.Writes {
		if where, ok := srcSet[w]; ok {
			if _, also := tgtSet[w]; also {
				continue // aliased by the caller
			}
			pc.Rep.Discharged--
			m, _ := pc.R.Witness(nil)
			pc.Report("write", where, "update method writes into the source", m, false)
			return
		}
		// ... and nothing the target merely referred to before the call: another holder of that map / backing array
		// / pointee would see it change (the method modifies only the struct ARG points to)
		if where, ok := pc.TgtRefsPre[w]; ok {
			if _, alsoSrc := srcSet[w]; alsoSrc {
				continue
			}
			pc.Rep.Discharged--
			m, _ := pc.R.Witness(nil)
			pc.Report("write", where, "update method writes through a reference the target held before the call (a map, backing array or pointee that is not part of the struct ARG points to)", m, false)
			return
		}
	}
	S := pc.SrcT
	src := pc.Src
	if sp, ok := S.Underlying().(*types.Pointer); ok {
		p := src.(engine.Pointer)
		if p.Slot == nil {
			// nil source leaves the target untouched
			o.leaf("target", Unchanged(pc.R, pc.Pre, post, o), "nil source pointer modified the target")
			pc.ProveLeaves("update", o)
			return
		}
		src, S = *p.Slot, sp.Elem()
	}
	var u *UpdateSpec
	if pc.Conv.Spec != nil {
		u = pc.Conv.Spec.Update
	}
	o.updateFields(src.(engine.Struct), S, pc.Pre, post, T, u, true, "target")
	pc.ProveLeaves("update", o)
}

// CheckDefault: C11 — default FUNC semantics (and plain pointer rules through Match).
func CheckDefault(pc *PathCtx) {
	o := &Oracle{R: pc.R, Spec: pc.Conv.Spec, Calls: pc.Calls}
	var u *UpdateSpec
	if pc.Conv.Spec != nil {
		u = pc.Conv.Spec.Update
	}
	if u == nil || u.DefaultFn == "" {
		CheckValue(pc)
		return
	}
	if pc.Panic != nil {
		m, _ := pc.R.Witness(nil)
		pc.count(false)
		pc.Report("panic", pc.Panic.Pos, "converter panics: "+pc.Panic.Kind+": "+pc.Panic.Msg, m, false)
		return
	}
	var dcalls []*CallEntry
	for _, c := range pc.Calls.Calls {
		if c.Name == u.DefaultFn {
			dcalls = append(dcalls, c)
		}
	}
	if !pc.ErrIsNil() {
		// must be the default function's (or another custom function's) error
		pc.count(true)
		return
	}
	if len(dcalls) != 1 {
		pc.count(false)
		m, _ := pc.R.Witness(nil)
		pc.Report("default", "", "default FUNC must be called exactly once per conversion of the method's pair", m, false)
		return
	}
	d := dcalls[0]
	// arguments: the source if FUNC takes one, contexts unchanged
	if len(d.SourceArgs) > 0 {
		o.leaf("default.arg", o.Identical(d.SourceArgs[0], pc.Src), "default FUNC did not receive the method's source")
	}
	ci := 0
	for _, idx := range pc.Ctx {
		if ci < len(d.CtxArgs) && types.Identical(d.CtxTypes[ci], pc.T.Sig.Params().At(idx).Type()) {
			o.leaf("default.ctx", o.Identical(d.CtxArgs[ci], pc.Args[idx]), "context argument not passed unchanged to default FUNC")
			ci++
		}
	}
	S, T := pc.SrcT, pc.RetT
	src, got := pc.Src, pc.Ret
	srcPtr := false
	// nil source pointer: FUNC's result unchanged
	if sp, ok := S.Underlying().(*types.Pointer); ok {
		srcPtr = true
		p := src.(engine.Pointer)
		if p.Slot == nil {
			o.leaf("result", o.resultIs(d.Result, d.ResultType, got, T), "nil source must return default FUNC's result unchanged")
			pc.ProveLeaves("default", o)
			return
		}
		src, S = *p.Slot, sp.Elem()
	}
	// dereference result and default
	dv, dt := d.Result, d.ResultType
	tgtPtr := false
	if tpt, ok := T.Underlying().(*types.Pointer); ok {
		g := got.(engine.Pointer)
		if g.Slot == nil {
			o.fail("result", "non-nil source converted to nil pointer")
			pc.ProveLeaves("default", o)
			return
		}
		tgtPtr = true
		if u.DefaultUpdate {
			if _, dptr := dt.Underlying().(*types.Pointer); dptr {
				o.leaf("result", o.Identical(d.Result, got), "default:update must update the instance returned by FUNC, not replace it")
			}
		}
		got, T = *g.Slot, tpt.Elem()
	}
	if dpt, ok := dt.Underlying().(*types.Pointer); ok {
		p := dv.(engine.Pointer)
		if p.Slot == nil {
			// documented precondition of default:update: FUNC returns non-nil
			pc.R.Trunc = true
			return
		}
		dv, dt = *p.Slot, dpt.Elem()
	}
	if o.Spec != nil {
		if _, custom := o.Spec.Custom[pairKey(S, T)]; custom {
			// the pair is served by a custom function: its result is the value, wherever it is stored
			o.Match(src, S, got, T, "result")
			pc.ProveLeaves("default", o)
			return
		}
	}
	ss, sok := S.Underlying().(*types.Struct)
	_, tok := T.Underlying().(*types.Struct)
	if !sok || !tok {
		// non-struct pair: the conversion of the source. With default:update the source is applied on top of FUNC's
		// value; what that means for a nil slice / map / pointer as source value is not stated: only non-nil source
		// values are constrained there
		if u.DefaultUpdate {
			switch v := src.(type) {
			case engine.Slice:
				if v.Nil {
					pc.ProveLeaves("default", o)
					return
				}
			case engine.Map:
				if v.M == nil {
					pc.ProveLeaves("default", o)
					return
				}
			case engine.Pointer:
				if v.Slot == nil {
					pc.ProveLeaves("default", o)
					return
				}
			}
		}
		nilContainer := false
		switch v := src.(type) {
		case engine.Map:
			nilContainer = v.M == nil
		case engine.Slice:
			nilContainer = v.Nil && tgtPtr
		}
		if nilContainer && !srcPtr {
			// a map-typed method (and a T -> *U method over a slice or map) starts from FUNC's result: that is what
			// a nil source returns
			o.leaf("result", o.resultIs(dv, dt, got, T), "nil source map / slice must return default FUNC's result unchanged")
			pc.ProveLeaves("default", o)
			return
		}
		o.Match(src, S, got, T, "result")
		pc.ProveLeaves("default", o)
		return
	}
	_ = ss
	// pre-state of the update is FUNC's result *as returned* (snapshot taken at call time)
	pre := d.Snapshot
	// without default:update a non-nil *pointer* source replaces FUNC's result by a fresh conversion
	// (the statement: "with default:update a non-nil source is applied on top of FUNC's result instead
	// of replacing it"); ignored fields are then left unconstrained.
	strict := !srcPtr || u.DefaultUpdate
	// update:ignoreZeroValueField is read as applying wherever the method updates an existing *instance*:
	// update ARG methods (C10) and default:update with a pointer on either side (pinned by scenario
	// default_on_source_struct_target_pointer). For a plain struct->struct pair the statement is silent:
	// zero-valued source fields may be skipped or assigned.
	if !srcPtr && !tgtPtr {
		c := *u
		c.SkipBasic, c.SkipStruct, c.SkipNillable = false, false, false
		u = &c
	}
	o.updateFields(src.(engine.Struct), S, pre, got.(engine.Struct), T, u, strict, "result")
	pc.ProveLeaves("default", o)
}

// isZeroGo is "v == zero value" under Go's == (floats: -0.0 == 0).
func (o *Oracle) isZeroGo(v engine.Value, T types.Type) *engine.Term {
	switch v := v.(type) {
	case *engine.Term:
		if v.Sort.Kind == engine.SFP {
			return engine.Eq(v, engine.FPConst(v.Sort.Bits, 0))
		}
	case engine.Struct:
		st, _ := T.Underlying().(*types.Struct)
		r := engine.True
		for i := range v {
			var ft types.Type
			if st != nil {
				ft = st.Field(i).Type()
			}
			r = engine.And(r, o.isZeroGo(v[i], ft))
		}
		return r
	case engine.Array:
		r := engine.True
		for i := range v {
			r = engine.And(r, o.isZeroGo(v[i], nil))
		}
		return r
	}
	return o.IsZero(v, T)
}
