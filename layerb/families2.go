package layerb

import (
	"fmt"
	"strings"
)

// FamilyShapeSkip: F-shape with skipCopySameType (sharing allowed only at identical types).
func FamilyShapeSkip(thorough bool) []*Conv {
	var out []*Conv
	formats := []string{"struct", "function", "variable"}
	fi := 0
	g := &shapeGen{}
	add := func(s shape) {
		cv := shapeConv("shapeskip", s, formats[fi%3], []string{"skipCopySameType"}, &Spec{SkipCopy: true})
		fi++
		out = append(out, cv)
	}
	for _, c := range ctors {
		for _, ln := range []string{"int", "named"} {
			add(c.F(g, g.leaf(ln)))
		}
	}
	for _, c1 := range ctors {
		for _, c2 := range ctors {
			for _, ln := range []string{"int", "named"} {
				if !thorough && ln == "named" && c1.Name != "struct" && c1.Name != "rec" {
					continue
				}
				add(c1.F(g, c2.F(g, g.leaf(ln))))
			}
		}
	}
	// assignable but not identical pairs (named <-> unnamed with the same underlying type): no sharing allowed
	for i, pr := range [][3]string{
		{"PFXTags", "[]string", "type PFXTags []string"},
		{"[]int", "PFXScores", "type PFXScores []int"},
		{"PFXAttrs", "map[string]*int", "type PFXAttrs map[string]*int"},
		{"[]PFXTags2", "[][]string", "type PFXTags2 []string"},
		{"*PFXNums", "*[]int", "type PFXNums []int"},
		{"map[string]PFXTags3", "map[string][]string", "type PFXTags3 []string"},
	} {
		s := shape{Src: pr[0], Tgt: pr[1], Name: fmt.Sprintf("assignable%d", i), Decls: []string{pr[2]}}
		add(s)
		add(ctorByName("struct").F(g, s))
	}
	// skipCopySameType together with useZeroValueOnPointerInconsistency: *T -> T of one and the same T, wherever it
	// stands, still yields the zero value for nil (no level loses its nil check)
	for i, pos := range []struct{ name, src, tgt string }{
		{"top", "*PFXSz", "PFXSz"}, {"field", "struct{ P *PFXSz; N int }", "struct{ P PFXSz; N int }"}, {"elem", "[]*PFXSz", "[]PFXSz"},
		{"mapval", "map[string]*PFXSz", "map[string]PFXSz"}, {"ptrptr", "**PFXSz", "*PFXSz"}, {"field_ptrptr", "struct{ Deep **PFXSz }", "struct{ Deep *PFXSz }"},
		{"basic_mapval", "map[string]*int", "map[string]int"}, {"named_field", "PFXSzIn", "PFXSzOut"},
	} {
		_ = i
		add(shape{Src: pos.src, Tgt: pos.tgt, Name: "skipzero_" + pos.name, NeedZero: true,
			Decls: []string{"type PFXSz struct {\n\tName string\n\tRefs []int\n}\ntype PFXSzIn struct {\n\tByKey map[string]*PFXSz\n\tDeep **PFXSz\n\tOne *PFXSz\n}\ntype PFXSzOut struct {\n\tByKey map[string]PFXSz\n\tDeep *PFXSz\n\tOne PFXSz\n}"}})
	}
	// skipCopySameType and T -> *T of one T: the pointer is new, it never points into the source (its backing
	// array, a field of the struct behind a pointer source, the loop variable)
	for _, pos := range []struct{ name, src, tgt string }{
		{"elem_array", "[][2]int", "[]*[2]int"}, {"elem_struct", "[]PFXSa", "[]*PFXSa"}, {"mapval_slice", "map[string][]int", "map[string]*[]int"},
		{"ptr_field", "*PFXSaIn", "*PFXSaOut"}, {"value_field", "PFXSaIn", "PFXSaOut"}, {"elem_field", "[]PFXSaIn", "[]PFXSaOut"}, {"elem_int", "[]int", "[]*int"},
	} {
		add(shape{Src: pos.src, Tgt: pos.tgt, Name: "skipaddr_" + pos.name,
			Decls: []string{"type PFXSa struct {\n\tN int\n\tL []int\n}\ntype PFXSaIn struct {\n\tF []int\n\tA [2]int\n\tS PFXSa\n\tN int\n}\ntype PFXSaOut struct {\n\tF *[]int\n\tA *[2]int\n\tS *PFXSa\n\tN *int\n}"}})
	}
	// ... in update methods as well: the target never points into the source (by-value and pointer source)
	for _, srcPtr := range []bool{false, true} {
		src := "PFXSaIn"
		if srcPtr {
			src = "*PFXSaIn"
		}
		out = append(out, &Conv{
			ID: fmt.Sprintf("shapeskip/skipaddr_update_ptr%v", srcPtr), Family: "shapeskip", Format: formats[fi%3],
			Params: "source " + src + ", target *PFXSaOut", Results: "",
			Decls:       "type PFXSa struct {\n\tN int\n\tL []int\n}\ntype PFXSaIn struct {\n\tF []int\n\tS PFXSa\n\tN int\n\tU struct{ L []int }\n}\ntype PFXSaOut struct {\n\tF *[]int\n\tS *PFXSa\n\tN *int\n\tU *struct{ L []int }\n}\n",
			Bounds:      &Bounds{MaxSlice: 1, MaxMap: 1, RecDepth: 1},
			ConvLines:   []string{"skipCopySameType"},
			MethodLines: []string{"update target"},
			Spec:        &Spec{SkipCopy: true, Update: &UpdateSpec{}},
		})
		fi++
	}
	// the same named type (identical on both sides) at several positions of one method
	add(shape{Src: "PFXTwS", Tgt: "PFXTwT", Name: "same_named_twice",
		Decls: []string{"type PFXStamp struct{ Sec int64 }\ntype PFXTwS struct {\n\tCreated PFXStamp\n\tUpdated PFXStamp\n\tAll []PFXStamp\n\tN PFXTwA\n}\ntype PFXTwT struct {\n\tCreated PFXStamp\n\tUpdated PFXStamp\n\tAll []PFXStamp\n\tN PFXTwB\n}\ntype PFXTwA int\ntype PFXTwB int"}})
	// mixed structs: one identical-typed mutable field next to a converted one
	k := 0
	for _, inner := range []string{"[]int", "*int", "map[string]int", "[]*int", "map[string][]int", "*[]int", "any", "chan int"} {
		k++
		s := shape{
			Src: fmt.Sprintf("PFXMS%d", k), Tgt: fmt.Sprintf("PFXMT%d", k), Name: fmt.Sprintf("mixed%d", k),
			Decls: []string{fmt.Sprintf("type PFXMA%d int\ntype PFXMB%d int\ntype PFXMS%d struct {\n\tSame %s\n\tConv []PFXMA%d\n\tP *PFXMA%d\n}\ntype PFXMT%d struct {\n\tSame %s\n\tConv []PFXMB%d\n\tP *PFXMB%d\n}", k, k, k, inner, k, k, k, inner, k, k)},
		}
		add(s)
	}
	return out
}

// FamilyPtrs: pointer-depth combinations (C11) at top-level / field / element / map value.
func FamilyPtrs(thorough bool) []*Conv {
	var out []*Conv
	formats := []string{"struct", "function", "variable"}
	fi := 0
	g := &shapeGen{}
	stars := func(n int) string { return strings.Repeat("*", n) }
	type base struct {
		name     string
		src, tgt string
		decls    string
	}
	mk := func() []base {
		k := g.id()
		return []base{
			{"int", "int", "int", ""},
			{"named", fmt.Sprintf("PFXA%d", k), fmt.Sprintf("PFXB%d", k), fmt.Sprintf("type PFXA%d int\ntype PFXB%d int", k, k)},
			{"struct", fmt.Sprintf("PFXS%d", k), fmt.Sprintf("PFXT%d", k), fmt.Sprintf("type PFXS%d struct {\n\tV string\n\tN *int\n}\ntype PFXT%d struct {\n\tV string\n\tN *int\n}", k, k)},
			{"slice", "[]int", "[]int", ""},
		}
	}
	positions := []string{"top", "field", "elem", "mapval"}
	for sd := 0; sd <= 3; sd++ {
		for td := 0; td <= 3; td++ {
			for bi := 0; bi < 4; bi++ {
				for _, pos := range positions {
					if !thorough && pos != "top" && pos != "field" && bi > 1 {
						continue
					}
					if sd == 3 || td == 3 {
						// three levels: the chains with a middle level (***T on a side), for the scalar and the struct base
						if bi != 0 && bi != 2 {
							continue
						}
						if !thorough && !(sd == 3 && td == 3) && pos != "field" {
							continue
						}
					}
					b := mk()[bi]
					s := shape{Src: stars(sd) + b.src, Tgt: stars(td) + b.tgt, Name: fmt.Sprintf("p%d%d_%s", sd, td, b.name)}
					if b.decls != "" {
						s.Decls = []string{b.decls}
					}
					s.NeedZero = sd > td
					switch pos {
					case "field":
						s = ctorByName("struct").F(g, s)
					case "elem":
						s = ctorByName("slice").F(g, s)
					case "mapval":
						s = ctorByName("map").F(g, s)
					}
					cv := shapeConv("ptrs", s, formats[fi%3], nil, nil)
					fi++
					// the flag at the three levels in turn
					// a method-level setting is not inherited by generated sub-methods (documented), so it is
					// used only where the mismatch stays inside the method's own frame
					lvl := fi % 3
					if lvl == 1 && b.name == "struct" && (pos != "top" || sd >= 2) {
						lvl = 0
					}
					if s.NeedZero {
						switch lvl {
						case 0: // converter level (already added by shapeConv)
						case 1:
							cv.ConvLines = nil
							cv.MethodLines = append(cv.MethodLines, "useZeroValueOnPointerInconsistency")
						case 2:
							cv.ConvLines = nil
							cv.CLI = append(cv.CLI, "useZeroValueOnPointerInconsistency")
						}
					}
					out = append(out, cv)
				}
			}
		}
	}
	// *T -> U without the flag must be rejected (by-product observation)
	for _, pos := range []string{"top", "field"} {
		s := shape{Src: "*int", Tgt: "int", Name: "noflag_" + pos}
		if pos == "field" {
			s = ctorByName("struct").F(g, s)
		}
		cv := shapeConv("ptrs", s, "struct", nil, nil)
		cv.ExpectFail = true
		cv.FailNote = "*T -> T without useZeroValueOnPointerInconsistency"
		out = append(out, cv)
	}
	// the flag written on one method is not inherited by generated helpers (documented) - and a helper is shared:
	// a sibling without the flag that needs the same *T -> U pair is rejected, whichever method is built first
	for i, f := range []string{"struct", "function", "variable"} {
		sibName := []string{"APFXFirst", "ZPFXLast", "APFXFirst"}[i]
		sib := "\t// goverter:useZeroValueOnPointerInconsistency\n\t" + sibName + "(source PFXHa) PFXHao\n"
		if f == "variable" {
			sib = strings.Replace(sib, sibName+"(", sibName+" func(", 1)
		}
		out = append(out, &Conv{
			ID: "ptrs/fail_method_flag_not_shared_through_helper/" + f, Family: "ptrs", Format: f,
			Params: "source PFXHb", Results: "PFXHbo",
			Decls:        "type PFXHi struct{ ID int }\ntype PFXHio struct{ ID int }\ntype PFXHa struct{ In *PFXHi }\ntype PFXHao struct{ In PFXHio }\ntype PFXHb struct {\n\tIn *PFXHi\n\tN int\n}\ntype PFXHbo struct {\n\tIn PFXHio\n\tN int\n}\n",
			ExtraMethods: sib, Spec: &Spec{}, ExpectFail: true, Solo: true,
			FailNote: "*T -> U in a method without useZeroValueOnPointerInconsistency (a sibling method has the flag and needs the same helper)",
		})
	}
	return out
}

type updField struct {
	name, src, tgt string
	decl           string
}

// FamilyUpdate: update-signature methods (C10).
func FamilyUpdate(thorough bool) []*Conv {
	var out []*Conv
	setA := []updField{
		{"A", "int", "int", ""},
		{"B", "string", "string", ""},
		{"C", "PFXNa", "PFXNb", "type PFXNa int\ntype PFXNb int"},
		{"D", "PFXIa", "PFXIb", "type PFXIa struct {\n\tX int\n\tY string\n}\ntype PFXIb struct {\n\tX int\n\tY string\n}"},
		{"E", "*int", "*int", ""},
		{"F", "[]int", "[]int", ""},
		{"G", "map[string]int", "map[string]int", ""},
		{"H", "struct{ X int }", "struct{ X int }", ""},
		{"I", "float64", "float64", ""},
		{"J", "bool", "bool", ""},
	}
	setB := []updField{ // with skipCopySameType: identical types are assigned directly
		{"A", "int", "int", ""},
		{"K", "any", "any", ""},
		{"M", "chan int", "chan int", ""},
		{"N", "*int", "*int", ""},
		{"O", "[]int", "[]int", ""},
		{"P", "map[string]int", "map[string]int", ""},
		{"Q", "PFXQs", "PFXQs", "type PFXQs struct {\n\tX int\n}"},
		{"R", "*PFXQs", "*PFXQs", ""},
	}
	setC := []updField{ // named container types go through generated sub-methods
		{"A", "int", "int", ""},
		{"R", "PFXLs", "PFXLt", "type PFXLs []int\ntype PFXLt []int"},
		{"S", "PFXMs", "PFXMt", "type PFXMs map[string]int\ntype PFXMt map[string]int"},
		{"T", "*PFXPs", "*PFXPt", "type PFXPs struct{ X int }\ntype PFXPt struct{ X int }"},
	}
	type variant struct {
		name   string
		fields []updField
		skip   bool
	}
	setD := []updField{ // sources that are argument-less methods of the source struct
		{"A", "int", "int", ""},
	}
	_ = setD
	variants := []variant{
		{"plain1", setA[0:4], false}, {"plain2", setA[4:7], false}, {"plain3", append(append([]updField{}, setA[0]), setA[7:]...), false},
		{"skipcopy1", setB[0:4], true}, {"skipcopy2", append(append([]updField{}, setB[0]), setB[4:]...), true},
		{"namedcont", setC, false},
	}
	n := 0
	for _, v := range variants {
		for cats := 0; cats < 8; cats++ {
			for _, srcPtr := range []bool{false, true} {
				for _, tgtFirst := range []bool{false, true} {
					if !thorough && tgtFirst && cats != 0 && cats != 7 {
						continue
					}
					n++
					var decl, sf, tf strings.Builder
					for _, f := range v.fields {
						if f.decl != "" {
							decl.WriteString(f.decl + "\n")
						}
						fmt.Fprintf(&sf, "\t%s %s\n", f.name, f.src)
						fmt.Fprintf(&tf, "\t%s %s\n", f.name, f.tgt)
					}
					fmt.Fprintf(&decl, "type PFXIn struct {\n%s\tKeep int\n}\ntype PFXOut struct {\n%s\tKeep int\n\tOnly string\n}\n", sf.String(), tf.String())
					src := "PFXIn"
					if srcPtr {
						src = "*PFXIn"
					}
					params := "source " + src + ", target *PFXOut"
					if tgtFirst {
						params = "target *PFXOut, source " + src
					}
					res := ""
					if (n/2)%2 == 0 { // (not n%2: n alternates with the innermost loop variable)
						res = "error"
					}
					u := &UpdateSpec{SkipBasic: cats&1 != 0, SkipStruct: cats&2 != 0, SkipNillable: cats&4 != 0}
					var lines []string
					switch cats {
					case 7:
						lines = []string{"update:ignoreZeroValueField"}
					default:
						if u.SkipBasic {
							lines = append(lines, "update:ignoreZeroValueField:basic")
						}
						if u.SkipStruct {
							lines = append(lines, "update:ignoreZeroValueField:struct yes")
						}
						if u.SkipNillable {
							lines = append(lines, "update:ignoreZeroValueField:nillable")
						}
					}
					if v.skip {
						lines = append(lines, "skipCopySameType")
					}
					cv := &Conv{
						ID:      fmt.Sprintf("update/%s/c%d/ptr%v/tf%v", v.name, cats, srcPtr, tgtFirst),
						Family:  "update",
						Format:  []string{"struct", "function", "variable"}[n%3],
						Params:  params,
						Results: res,
						Decls:   decl.String(),
						Spec: &Spec{SkipCopy: v.skip, Update: u, Pairs: map[string]*PairSpec{
							"PFXIn→PFXOut": {Fields: map[string]*FieldSpec{"Keep": {Ignore: true}, "Only": {Ignore: true}}},
						}},
					}
					cv.MethodLines = []string{"update target", "ignore Keep Only"}
					// settings at the three levels in turn
					switch n % 3 {
					case 0:
						if (n/3)%2 == 1 {
							// (the order of the lines of one comment does not matter for different settings: the
							// zero-value lines above the update line)
							cv.MethodLines = append(append([]string{}, lines...), cv.MethodLines...)
						} else {
							cv.MethodLines = append(cv.MethodLines, lines...)
						}
					case 1:
						cv.ConvLines = append(cv.ConvLines, lines...)
					case 2:
						cv.CLI = append(cv.CLI, lines...)
					}
					out = append(out, cv)
				}
			}
		}
	}
	// a setting enabled at an outer level and switched off (wholly or per category) at an inner one
	type override struct {
		name         string
		cli, conv, m []string
		u            UpdateSpec
	}
	overrides := []override{
		{"conv_yes_method_no", nil, []string{"update:ignoreZeroValueField"}, []string{"update:ignoreZeroValueField no"}, UpdateSpec{}},
		{"cli_yes_conv_no", []string{"update:ignoreZeroValueField"}, []string{"update:ignoreZeroValueField no"}, nil, UpdateSpec{}},
		{"cli_yes_method_no", []string{"update:ignoreZeroValueField yes"}, nil, []string{"update:ignoreZeroValueField no"}, UpdateSpec{}},
		{"conv_yes_method_basic_no", nil, []string{"update:ignoreZeroValueField"}, []string{"update:ignoreZeroValueField:basic no"}, UpdateSpec{SkipStruct: true, SkipNillable: true}},
		{"conv_yes_method_struct_no", nil, []string{"update:ignoreZeroValueField"}, []string{"update:ignoreZeroValueField:struct no"}, UpdateSpec{SkipBasic: true, SkipNillable: true}},
		{"cli_yes_conv_nillable_no", []string{"update:ignoreZeroValueField"}, []string{"update:ignoreZeroValueField:nillable no"}, nil, UpdateSpec{SkipBasic: true, SkipStruct: true}},
		{"conv_no_method_yes", nil, []string{"update:ignoreZeroValueField no"}, []string{"update:ignoreZeroValueField"}, UpdateSpec{SkipBasic: true, SkipStruct: true, SkipNillable: true}},
		{"conv_basic_method_no", nil, []string{"update:ignoreZeroValueField:basic"}, []string{"update:ignoreZeroValueField no"}, UpdateSpec{}},
	}
	for _, ov := range overrides {
		n++
		u := ov.u
		mlines := append([]string{"update target", "ignore Keep Only"}, ov.m...)
		if n%2 == 1 {
			// the method's own lines above its update line
			mlines = append(append([]string{}, ov.m...), "update target", "ignore Keep Only")
		}
		out = append(out, &Conv{
			ID:      "update/override/" + ov.name,
			Family:  "update",
			Format:  []string{"struct", "function", "variable"}[n%3],
			Params:  "source PFXIn, target *PFXOut",
			Results: []string{"", "error"}[n%2],
			Decls:   "type PFXIa struct {\n\tX int\n\tY string\n}\ntype PFXIb struct {\n\tX int\n\tY string\n}\ntype PFXIn struct {\n\tA int\n\tB string\n\tD PFXIa\n\tF []int\n\tG map[string]int\n\tKeep int\n}\ntype PFXOut struct {\n\tA int\n\tB string\n\tD PFXIb\n\tF []int\n\tG map[string]int\n\tKeep int\n\tOnly string\n}\n",
			CLI:     ov.cli, ConvLines: ov.conv,
			MethodLines: mlines,
			Spec:        &Spec{Update: &u, Pairs: map[string]*PairSpec{"PFXIn→PFXOut": {Fields: map[string]*FieldSpec{"Keep": {Ignore: true}, "Only": {Ignore: true}}}}},
		})
	}
	// the struct ARG points to may be of an unnamed type: the method's field settings are its settings all the same
	for i, srcPtr := range []bool{false, true} {
		n++
		src := "PFXIn"
		if srcPtr {
			src = "*PFXIn"
		}
		tgt := "struct {\n\tName string\n\tSecret string\n\tTitle string\n}"
		out = append(out, &Conv{
			ID: fmt.Sprintf("update/unnamed_target_struct_settings/ptr%v", srcPtr), Family: "update", Format: []string{"struct", "function", "variable"}[(n+i)%3],
			Params: "source " + src + ", target *" + tgt, Results: "",
			Decls:       "type PFXIn struct {\n\tName string\n\tSecret string\n}\n",
			MethodLines: []string{"update target", "ignore Secret", "map Name Title"},
			Spec: &Spec{Update: &UpdateSpec{}, Pairs: map[string]*PairSpec{
				"PFXIn→struct{Name string; Secret string; Title string}": {Fields: map[string]*FieldSpec{"Secret": {Ignore: true}, "Title": fs("Name")}},
			}},
		})
	}
	// *T -> U is generated only with useZeroValueOnPointerInconsistency - in update methods as everywhere else
	for i, pv := range []struct{ name, in, out string }{
		{"basic", "P *int", "P int"}, {"nested_unnamed", "S struct{ P *string }", "S struct{ P string }"}, {"slice_elem", "L []*int", "L []int"},
	} {
		n++
		out = append(out, &Conv{
			ID: "update/fail_pointer_to_value_without_flag_" + pv.name, Family: "update", Format: []string{"struct", "function", "variable"}[(n+i)%3], Solo: true,
			Params: "source PFXIn, target *PFXOut", Results: "",
			Decls:       "type PFXIn struct {\n\t" + pv.in + "\n\tK int\n}\ntype PFXOut struct {\n\t" + pv.out + "\n\tK int\n}\n",
			MethodLines: []string{"update target"},
			Spec:        &Spec{}, ExpectFail: true, FailNote: "*T -> U inside an update method without useZeroValueOnPointerInconsistency",
		})
	}
	// nested unnamed structs are updated in place, member by member: a struct that is non-zero as a whole still has
	// members that are zero - each member keeps its own guard below the struct-level one
	for _, cats := range []int{2, 3, 6, 7} {
		n++
		u := &UpdateSpec{SkipBasic: cats&1 != 0, SkipStruct: cats&2 != 0, SkipNillable: cats&4 != 0}
		var lines []string
		if cats == 7 {
			lines = []string{"update:ignoreZeroValueField"}
		} else {
			if u.SkipBasic {
				lines = append(lines, "update:ignoreZeroValueField:basic")
			}
			if u.SkipStruct {
				lines = append(lines, "update:ignoreZeroValueField:struct")
			}
			if u.SkipNillable {
				lines = append(lines, "update:ignoreZeroValueField:nillable")
			}
		}
		// (comparable: the struct-level guard compares it as a whole)
		nested := "struct {\n\t\tA int\n\t\tB string\n\t\tP *int\n\t\tDeep struct {\n\t\t\tX int\n\t\t\tY *int\n\t\t}\n\t}"
		out = append(out, &Conv{
			ID:          fmt.Sprintf("update/nested_unnamed_struct/c%d", cats),
			Family:      "update",
			Format:      []string{"struct", "function", "variable"}[n%3],
			Params:      "source PFXIn, target *PFXOut",
			Results:     "",
			Decls:       "type PFXIn struct {\n\tN " + nested + "\n\tK int\n}\ntype PFXOut struct {\n\tN " + nested + "\n\tK int\n\tKeep int\n}\n",
			MethodLines: append([]string{"update target", "ignore Keep"}, lines...),
			Spec:        &Spec{Update: u, Pairs: map[string]*PairSpec{"PFXIn→PFXOut": {Fields: map[string]*FieldSpec{"Keep": {Ignore: true}}}}},
		})
	}
	// a field filled by a function without source parameter inside an update method (nothing to compare with zero)
	for _, cats := range []int{0, 1, 7} {
		n++
		u := &UpdateSpec{SkipBasic: cats&1 != 0, SkipStruct: cats&2 != 0, SkipNillable: cats&4 != 0}
		var lines []string
		switch cats {
		case 1:
			lines = []string{"update:ignoreZeroValueField:basic"}
		case 7:
			lines = []string{"update:ignoreZeroValueField"}
		}
		out = append(out, &Conv{
			ID:          fmt.Sprintf("update/noargfunc/c%d", cats),
			Family:      "update",
			Format:      []string{"struct", "function", "variable"}[n%3],
			Params:      "source PFXIn, target *PFXOut",
			Results:     []string{"", "error"}[n%2],
			Decls:       "type PFXIn struct {\n\tA int\n\tKeep int\n}\ntype PFXOut struct {\n\tA int\n\tStamp string\n\tKeep int\n\tOnly string\n}\nfunc PFXGen() string { return \"\" }\n",
			MethodLines: append([]string{"update target", "ignore Keep Only", "map Stamp | PFXGen"}, lines...),
			Spec:        &Spec{Update: u, Pairs: map[string]*PairSpec{"PFXIn→PFXOut": {Fields: map[string]*FieldSpec{"Keep": {Ignore: true}, "Only": {Ignore: true}, "Stamp": {Fn: "PFXGen", FnNoSource: true}}}}},
		})
		// ... also behind a pointer source (a nil source leaves every field alone, the generated ones included), and
		// with a generator that may fail
		for vi, variant := range []struct{ name, src, fn, res string }{
			{"ptr", "*PFXIn", "func PFXGen() string { return \"\" }\n", ""},
			{"ptr_fallible", "*PFXIn", "func PFXGen() (string, error) { return \"\", nil }\n", "error"},
			{"value_fallible", "PFXIn", "func PFXGen() (string, error) { return \"\", nil }\n", "error"},
		} {
			uu := *u
			out = append(out, &Conv{
				ID:          fmt.Sprintf("update/noargfunc_%s/c%d", variant.name, cats),
				Family:      "update",
				Format:      []string{"struct", "function", "variable"}[(n+vi)%3],
				Params:      "source " + variant.src + ", target *PFXOut",
				Results:     variant.res,
				Decls:       "type PFXIn struct {\n\tA int\n\tKeep int\n}\ntype PFXOut struct {\n\tA int\n\tStamp string\n\tKeep int\n\tOnly string\n}\n" + variant.fn,
				MethodLines: append([]string{"update target", "ignore Keep Only", "map Stamp | PFXGen"}, lines...),
				Spec:        &Spec{Update: &uu, Pairs: map[string]*PairSpec{"PFXIn→PFXOut": {Fields: map[string]*FieldSpec{"Keep": {Ignore: true}, "Only": {Ignore: true}, "Stamp": {Fn: "PFXGen", FnNoSource: true}}}}},
			})
		}
	}
	// the update argument declared through a named pointer type / an alias of the struct: the field settings of the
	// method still address the struct
	for i, tc := range []struct{ name, decl, param string }{
		{"named_pointer_target", "type PFXRef *PFXOut\n", "target PFXRef"},
		{"alias_target", "type PFXAl = PFXOut\n", "target *PFXAl"},
		{"alias_pointer_target", "type PFXAlP = *PFXOut\n", "target PFXAlP"},
	} {
		n++
		out = append(out, &Conv{
			ID:          "update/" + tc.name,
			Family:      "update",
			Format:      []string{"struct", "function", "variable"}[(n+i)%3],
			Params:      "source PFXIn, " + tc.param,
			Results:     "",
			Decls:       "type PFXIn struct {\n\tID int\n\tName string\n\tFull string\n}\ntype PFXOut struct {\n\tID int\n\tName string\n\tKeep string\n}\n" + tc.decl,
			MethodLines: []string{"update target", "ignore ID Keep", "map Full Name"},
			Spec: &Spec{Update: &UpdateSpec{}, Pairs: map[string]*PairSpec{"PFXIn→PFXOut": {Fields: map[string]*FieldSpec{
				"ID": {Ignore: true}, "Keep": {Ignore: true}, "Name": {Path: []string{"Full"}}}}}},
		})
	}
	// fields filled through fallible map|FUNC functions inside an update method:	// fields filled through fallible map|FUNC functions inside an update method: a zero-valued source field of a
	// selected category is skipped together with its function call - it can neither overwrite nor fail the update
	for _, cats := range []int{0, 1, 4, 7} {
		n++
		u := &UpdateSpec{SkipBasic: cats&1 != 0, SkipStruct: cats&2 != 0, SkipNillable: cats&4 != 0}
		var lines []string
		switch cats {
		case 1:
			lines = []string{"update:ignoreZeroValueField:basic"}
		case 4:
			lines = []string{"update:ignoreZeroValueField:nillable"}
		case 7:
			lines = []string{"update:ignoreZeroValueField"}
		}
		out = append(out, &Conv{
			ID:          fmt.Sprintf("update/falliblefunc/c%d", cats),
			Family:      "update",
			Format:      []string{"struct", "function", "variable"}[n%3],
			Params:      "source PFXIn, target *PFXOut",
			Results:     "error",
			Decls:       "type PFXIn struct {\n\tNum string\n\tTags []string\n\tA int\n}\ntype PFXOut struct {\n\tNum int\n\tTags string\n\tA int\n\tKeep int\n}\nfunc PFXAtoi(s string) (int, error) { return 0, nil }\nfunc PFXJoin(s []string) (string, error) { return \"\", nil }\n",
			MethodLines: append([]string{"update target", "ignore Keep", "map Num | PFXAtoi", "map Tags | PFXJoin"}, lines...),
			Spec: &Spec{Update: u, Pairs: map[string]*PairSpec{"PFXIn→PFXOut": {Fields: map[string]*FieldSpec{"Keep": {Ignore: true},
				"Num": {Path: []string{"Num"}, Fn: "PFXAtoi"}, "Tags": {Path: []string{"Tags"}, Fn: "PFXJoin"}}}}},
		})
	}
	// an update method whose struct pair contains itself by value, next to a declared method of the pointer family
	// that carries field settings: the overlap is reported (a diagnostic, not a crash)
	for _, f := range []string{"struct", "function", "variable"} {
		extra := "\t// goverter:ignore Kids\n\tPFXToPtr(source PFXIn) *PFXOut\n"
		if f == "variable" {
			extra = "\t// goverter:ignore Kids\n\tPFXToPtr func(source PFXIn) *PFXOut\n"
		}
		out = append(out, &Conv{
			ID: "update/fail_overlap_selfcontained/" + f, Family: "update", Format: f, Solo: true,
			Params: "source *PFXIn, target *PFXOut", Results: "",
			Decls:        "type PFXIn struct {\n\tKids []PFXIn\n\tN int\n}\ntype PFXOut struct {\n\tKids []PFXOut\n\tN int\n}\n",
			MethodLines:  []string{"update target"},
			ExtraMethods: extra,
			Spec:         &Spec{}, ExpectFail: true, FailNote: "field settings on a declared method that the update method's inline struct conversion would bypass",
		})
	}
	// the same struct type on both sides (patch-style update), with and without skipCopySameType
	for _, skip := range []bool{false, true} {
		for _, srcPtr := range []bool{false, true} {
			for _, cats := range []int{0, 7} {
				n++
				u := &UpdateSpec{SkipBasic: cats == 7, SkipStruct: cats == 7, SkipNillable: cats == 7}
				lines := []string{"update target", "ignore Keep"}
				if cats == 7 {
					lines = append(lines, "update:ignoreZeroValueField")
				}
				var conv []string
				if skip {
					conv = []string{"skipCopySameType"}
				}
				src := "PFXSame"
				if srcPtr {
					src = "*PFXSame"
				}
				out = append(out, &Conv{
					ID:        fmt.Sprintf("update/sametype/skip%v_ptr%v_c%d", skip, srcPtr, cats),
					Family:    "update",
					Format:    []string{"struct", "function", "variable"}[n%3],
					Params:    "source " + src + ", target *PFXSame",
					Results:   []string{"", "error"}[n%2],
					Decls:     "type PFXSame struct {\n\tID int\n\tName string\n\tL []int\n\tP *int\n\tKeep int\n}\n",
					ConvLines: conv, MethodLines: lines,
					Spec: &Spec{SkipCopy: skip, Update: u, Pairs: map[string]*PairSpec{"PFXSame→PFXSame": {Fields: map[string]*FieldSpec{"Keep": {Ignore: true}}}}},
				})
			}
		}
	}
	// ... without any field setting on the method: the zero-value settings inherited from the converter or the
	// command line, and the per-category lines of the method, still guard every field
	for vi, v := range []struct {
		name            string
		conv, cli, meth []string
		u               UpdateSpec
	}{
		{"conv_all", []string{"update:ignoreZeroValueField"}, nil, nil, UpdateSpec{SkipBasic: true, SkipStruct: true, SkipNillable: true}},
		{"cli_all", nil, []string{"update:ignoreZeroValueField"}, nil, UpdateSpec{SkipBasic: true, SkipStruct: true, SkipNillable: true}},
		{"method_basic", nil, nil, []string{"update:ignoreZeroValueField:basic"}, UpdateSpec{SkipBasic: true}},
		{"method_nillable", nil, nil, []string{"update:ignoreZeroValueField:nillable"}, UpdateSpec{SkipNillable: true}},
		{"none", nil, nil, nil, UpdateSpec{}},
	} {
		for _, srcPtr := range []bool{false, true} {
			n++
			u := v.u
			src := "PFXSame"
			if srcPtr {
				src = "*PFXSame"
			}
			out = append(out, &Conv{
				ID:        fmt.Sprintf("update/sametype_nosettings/%s_ptr%v", v.name, srcPtr),
				Family:    "update",
				Format:    []string{"struct", "function", "variable"}[(n+vi)%3],
				Params:    "source " + src + ", target *PFXSame",
				Results:   "",
				Decls:     "type PFXSame struct {\n\tID int\n\tName string\n\tL []int\n\tP *int\n}\n",
				ConvLines: append([]string{"skipCopySameType"}, v.conv...), CLI: v.cli, MethodLines: append([]string{"update target"}, v.meth...),
				Spec: &Spec{SkipCopy: true, Update: &u},
			})
		}
	}
	// an extend function with the same (source, *target) pair as the update method does not replace the update
	for _, f := range []string{"struct", "function", "variable"} {
		for _, withErr := range []bool{false, true} {
			n++
			fres, body := "*PFXOut", "return &PFXOut{}"
			if withErr {
				fres, body = "(*PFXOut, error)", "return &PFXOut{}, nil"
			}
			out = append(out, &Conv{
				ID:          fmt.Sprintf("update/with_same_pair_extend/err%v/%s", withErr, f),
				Family:      "update",
				Format:      f,
				Params:      "source PFXIn, target *PFXOut",
				Results:     "error",
				Decls:       "type PFXIn struct {\n\tA int\n\tB string\n\tKeep int\n}\ntype PFXOut struct {\n\tA int\n\tB string\n\tKeep int\n\tOnly string\n}\n" + fmt.Sprintf("func PFXMk(s PFXIn) %s { %s }\n", fres, body),
				ConvLines:   []string{"extend PFXMk"},
				MethodLines: []string{"update target", "ignore Keep Only"},
				Spec:        &Spec{Update: &UpdateSpec{}, Pairs: map[string]*PairSpec{"PFXIn→PFXOut": {Fields: map[string]*FieldSpec{"Keep": {Ignore: true}, "Only": {Ignore: true}}}}},
			})
		}
	}
	// enum-typed fields belong to the basic category
	for cats := 0; cats < 8; cats++ {
		if !thorough && cats != 0 && cats != 1 && cats != 6 && cats != 7 {
			continue
		}
		n++
		u := &UpdateSpec{SkipBasic: cats&1 != 0, SkipStruct: cats&2 != 0, SkipNillable: cats&4 != 0}
		var lines []string
		if cats == 7 {
			lines = []string{"update:ignoreZeroValueField"}
		} else {
			if u.SkipBasic {
				lines = append(lines, "update:ignoreZeroValueField:basic")
			}
			if u.SkipStruct {
				lines = append(lines, "update:ignoreZeroValueField:struct")
			}
			if u.SkipNillable {
				lines = append(lines, "update:ignoreZeroValueField:nillable")
			}
		}
		src := enumDef{"int", []enumMember{{"Red", "0"}, {"Green", "1"}, {"Blue", "2"}}}
		tgt := enumDef{"int", []enumMember{{"Red", "0"}, {"Green", "5"}, {"Blue", "6"}}}
		es := &EnumSpec{Unknown: "Green", UnknownVal: "5", Map: []EnumArm{{"0", "0"}, {"1", "5"}, {"2", "6"}}}
		cv := &Conv{
			ID:          fmt.Sprintf("update/enumfield/c%d", cats),
			Family:      "update",
			Format:      []string{"struct", "function", "variable"}[n%3],
			Params:      "source PFXIn, target *PFXOut",
			Results:     []string{"", "error"}[n%2],
			Decls:       "type PFXIn struct {\n\tA int\n\tU pfxsrc.Color\n\tKeep int\n}\ntype PFXOut struct {\n\tA int\n\tU pfxtgt.Color\n\tKeep int\n\tOnly string\n}\n",
			ConvLines:   append([]string{"enum:unknown Green"}, lines...),
			MethodLines: []string{"update target", "ignore Keep Only"},
			Spec:        &Spec{Update: u, Enums: map[string]*EnumSpec{"Color→Color": es}, Pairs: map[string]*PairSpec{"PFXIn→PFXOut": {Fields: map[string]*FieldSpec{"Keep": {Ignore: true}, "Only": {Ignore: true}}}}},
			Aux:         map[string]string{"pfxsrc": src.source("pfxsrc", "Color"), "pfxtgt": tgt.source("pfxtgt", "Color")},
			Imports:     []string{`pfxsrc "corpus/GRP/pfxsrc"`, `pfxtgt "corpus/GRP/pfxtgt"`},
		}
		out = append(out, cv)
	}
	// sources that are argument-less methods (getters) of the source struct
	for cats := 0; cats < 8; cats += 1 {
		if !thorough && cats != 0 && cats != 1 && cats != 7 {
			continue
		}
		for _, srcPtr := range []bool{false, true} {
			n++
			u := &UpdateSpec{SkipBasic: cats&1 != 0, SkipStruct: cats&2 != 0, SkipNillable: cats&4 != 0}
			var lines []string
			if cats == 7 {
				lines = []string{"update:ignoreZeroValueField"}
			} else {
				if u.SkipBasic {
					lines = append(lines, "update:ignoreZeroValueField:basic")
				}
				if u.SkipStruct {
					lines = append(lines, "update:ignoreZeroValueField:struct")
				}
				if u.SkipNillable {
					lines = append(lines, "update:ignoreZeroValueField:nillable")
				}
			}
			src := "PFXIn"
			if srcPtr {
				src = "*PFXIn"
			}
			cv := &Conv{
				ID:      fmt.Sprintf("update/getter/c%d/ptr%v", cats, srcPtr),
				Family:  "update",
				Format:  []string{"struct", "function", "variable"}[n%3],
				Params:  "target *PFXOut, source " + src,
				Results: []string{"", "error"}[n%2],
				Decls:   "type PFXIn struct {\n\tA int\n\tKeep int\n}\nfunc (s PFXIn) Nick() string { return \"\" }\nfunc (s PFXIn) Tags() []string { return nil }\ntype PFXOut struct {\n\tA int\n\tNick string\n\tTags []string\n\tKeep int\n\tOnly string\n}\n",
				Spec: &Spec{Update: u, Pairs: map[string]*PairSpec{"PFXIn→PFXOut": {Fields: map[string]*FieldSpec{
					"Keep": {Ignore: true}, "Only": {Ignore: true},
					"Nick": {Whole: true, Fn: "PFXIn.Nick", Getter: true},
					"Tags": {Whole: true, Fn: "PFXIn.Tags", Getter: true},
				}}}},
			}
			cv.MethodLines = append([]string{"update target", "ignore Keep Only"}, lines...)
			out = append(out, cv)
		}
	}
	return out
}

// FamilyDefault: default FUNC signatures (C11).
func FamilyDefault(thorough bool) []*Conv {
	var out []*Conv
	n := 0
	updCount := 0
	for _, srcPtr := range []bool{true, false} {
		for _, tgtPtr := range []bool{true, false} {
			for _, fnPtr := range []bool{true, false} {
				for _, withSrc := range []bool{false, true} {
					for _, withCtx := range []bool{false, true} {
						for _, withErr := range []bool{false, true} {
							for _, upd := range []bool{false, true} {
								if !tgtPtr && fnPtr {
									continue // FUNC returning *T for a T target is a signature mismatch
								}
								if !thorough && withCtx && withErr && withSrc {
									continue
								}
								n++
								src, tgt := "PFXIn", "PFXOut"
								if srcPtr {
									src = "*PFXIn"
								}
								if tgtPtr {
									tgt = "*PFXOut"
								}
								fres := "PFXOut"
								if fnPtr {
									fres = "*PFXOut"
								}
								var fparams []string
								if withSrc {
									fparams = append(fparams, "in "+src)
								}
								if withCtx {
									fparams = append(fparams, "ctxA PFXCtx")
								}
								fret := fres
								body := "return " + map[bool]string{true: "&PFXOut{}", false: "PFXOut{}"}[fnPtr]
								if withErr {
									fret = "(" + fres + ", error)"
									body += ", nil"
								}
								fieldsIn, fieldsOut := "\tName string\n\tAge int\n\tP *int\n\tL []int\n", "\tName string\n\tAge int\n\tP *int\n\tL []int\n\tKeep string\n"
								if (n/2)%2 == 0 { // (not n%2: n has a fixed parity for each value of upd)
									// nested pointers below the method's pair
									fieldsIn, fieldsOut = "\tName string\n\tM map[string]*int\n\tPP **int\n", "\tName string\n\tM map[string]*int\n\tPP **int\n\tKeep string\n"
								}
								decl := fmt.Sprintf("type PFXCtx struct{ Z int }\ntype PFXIn struct {\n"+fieldsIn+"}\ntype PFXOut struct {\n"+fieldsOut+"}\nfunc PFXNew(%s) %s { %s }\n",
									strings.Join(fparams, ", "), fret, body)
								params := "source " + src
								if withCtx {
									params += ", ctxA PFXCtx"
								}
								res := tgt
								if withErr || n%4 == 0 {
									res = "(" + tgt + ", error)"
								}
								u := &UpdateSpec{DefaultFn: "PFXNew", DefaultUpdate: upd}
								cv := &Conv{
									ID:      fmt.Sprintf("default/sp%v_tp%v_fp%v_src%v_ctx%v_err%v_upd%v", srcPtr, tgtPtr, fnPtr, withSrc, withCtx, withErr, upd),
									Family:  "default",
									Format:  []string{"struct", "function", "variable"}[n%3],
									Params:  params,
									Results: res,
									Decls:   decl,
									Spec: &Spec{Update: u, Pairs: map[string]*PairSpec{
										"PFXIn→PFXOut": {Fields: map[string]*FieldSpec{"Keep": {Ignore: true}}},
									}},
									Bounds: &Bounds{MaxSlice: 1, MaxMap: 1, RecDepth: 1},
								}
								cv.ConvLines = []string{"arg:context:regex ^ctx"}
								cv.MethodLines = []string{"default PFXNew", "ignore Keep"}
								updLevel := -1
								if upd {
									// the setting at the three levels in turn (its own counter: n has a fixed parity here)
									updCount++
									updLevel = updCount % 3
									switch updLevel {
									case 0:
										cv.MethodLines = append(cv.MethodLines, "default:update")
									case 1:
										cv.ConvLines = append(cv.ConvLines, "default:update yes")
									default:
										cv.CLI = append(cv.CLI, "default:update")
									}
								}
								if srcPtr && !tgtPtr {
									cv.MethodLines = append(cv.MethodLines, "useZeroValueOnPointerInconsistency")
									cv.Spec.ZeroOnNil = true
								}
								// the context regex at method level for a third of them (must precede `default`)
								if n%3 == 0 {
									cv.ConvLines = nil
									cv.MethodLines = append([]string{"arg:context:regex ^ctx"}, cv.MethodLines...)
									if updLevel == 1 {
										cv.ConvLines = append(cv.ConvLines, "default:update yes")
									}
								}
								// default:update together with update:ignoreZeroValueField[:basic]
								if upd && n%4 < 2 {
									if n%4 == 0 {
										cv.MethodLines = append(cv.MethodLines, "update:ignoreZeroValueField")
										u.SkipBasic, u.SkipStruct, u.SkipNillable = true, true, true
									} else {
										cv.ConvLines = append(cv.ConvLines, "update:ignoreZeroValueField:basic")
										u.SkipBasic = true
									}
								}
								out = append(out, cv)
							}
						}
					}
				}
			}
		}
	}
	// identical struct types behind the pointers under skipCopySameType, with field settings on the method: the method
	// converts field by field on top of FUNC's result (ignored fields keep FUNC's values), nothing is taken over whole
	for i, upd := range []bool{false, true} {
		n++
		u := &UpdateSpec{DefaultFn: "PFXNew", DefaultUpdate: upd}
		lines := []string{"default PFXNew", "ignore Keep"}
		if upd {
			lines = append(lines, "default:update")
		}
		out = append(out, &Conv{
			ID:          fmt.Sprintf("default/skipcopy_identical_types_settings_upd%v", upd),
			Family:      "default",
			Format:      []string{"struct", "function", "variable"}[(n+i)%3],
			Params:      "source *PFXSame",
			Results:     "*PFXSame",
			Decls:       "type PFXSame struct {\n\tName string\n\tAge int\n\tKeep string\n}\nfunc PFXNew() *PFXSame { return &PFXSame{} }\n",
			ConvLines:   []string{"skipCopySameType"},
			MethodLines: lines,
			Spec:        &Spec{SkipCopy: true, Update: u, Pairs: map[string]*PairSpec{"PFXSame→PFXSame": {Fields: map[string]*FieldSpec{"Keep": {Ignore: true}}}}},
			Bounds:      &Bounds{MaxSlice: 1, MaxMap: 1, RecDepth: 1},
		})
	}
	// default (with and without default:update) on pointer methods of which one struct is an unnamed type: the
	// method still converts its pair itself, on top of FUNC's result
	{
		un := "struct {\n\tName string\n\tAge int\n\tL []int\n}"
		for i, sh := range []struct{ name, src, tgt, fres string }{
			// (FUNC's result is spelled through an alias so that the function stays a one-liner the replay can program)
			{"unnamed_source", "*" + un, "*PFXOut", "*PFXOut"}, {"unnamed_target", "*PFXIn", "*" + un, "*PFXUn"},
			{"unnamed_value_source", un, "*PFXOut", "*PFXOut"}, {"unnamed_source_value_target", "*" + un, "PFXOut", "PFXOut"},
		} {
			for _, upd := range []bool{false, true} {
				for _, zero := range []bool{false, true} {
					if zero && !upd {
						continue
					}
					n++
					u := &UpdateSpec{DefaultFn: "PFXNew", DefaultUpdate: upd}
					lines := []string{"default PFXNew"}
					if upd {
						lines = append(lines, "default:update")
					}
					if zero {
						lines = append(lines, "update:ignoreZeroValueField:basic")
						u.SkipBasic = true
					}
					body := "return &" + strings.TrimPrefix(sh.fres, "*") + "{}"
					if !strings.HasPrefix(sh.fres, "*") {
						body = "return " + sh.fres + "{}"
					}
					cv := &Conv{
						ID:          fmt.Sprintf("default/%s_upd%v_zero%v", sh.name, upd, zero),
						Family:      "default",
						Format:      []string{"struct", "function", "variable"}[(n+i)%3],
						Params:      "source " + sh.src,
						Results:     sh.tgt,
						Decls:       "type PFXUn = " + un + "\ntype PFXIn struct {\n\tName string\n\tAge int\n\tL []int\n}\ntype PFXOut struct {\n\tName string\n\tAge int\n\tL []int\n}\n" + fmt.Sprintf("func PFXNew() %s { %s }\n", sh.fres, body),
						MethodLines: lines,
						Spec:        &Spec{Update: u},
						Bounds:      &Bounds{MaxSlice: 1, MaxMap: 1, RecDepth: 1},
					}
					if strings.HasPrefix(sh.src, "*") && !strings.HasPrefix(sh.tgt, "*") {
						cv.MethodLines = append(cv.MethodLines, "useZeroValueOnPointerInconsistency")
						cv.Spec.ZeroOnNil = true
					}
					out = append(out, cv)
				}
			}
		}
	}
	// default (with and without default:update) on pointer methods whose pointee is not a struct
	for i, np := range []struct{ name, t, zero string }{
		{"int", "int", "0"}, {"strs", "[]string", "nil"}, {"map", "map[string]int", "nil"}, {"named", "PFXNum", "0"},
	} {
		for _, upd := range []bool{false, true} {
			n++
			u := &UpdateSpec{DefaultFn: "PFXNew", DefaultUpdate: upd}
			lines := []string{"default PFXNew"}
			if upd {
				lines = append(lines, "default:update")
			}
			out = append(out, &Conv{
				ID:          fmt.Sprintf("default/nonstruct_pointee_%s_upd%v", np.name, upd),
				Family:      "default",
				Format:      []string{"struct", "function", "variable"}[(n+i)%3],
				Params:      "source *" + np.t,
				Results:     "*" + np.t,
				Decls:       "type PFXNum int\n" + fmt.Sprintf("func PFXNew() *%s { v := %s(%s); return &v }\n", np.t, np.t, np.zero),
				MethodLines: lines,
				Spec:        &Spec{Update: u},
				Bounds:      &Bounds{MaxSlice: 1, MaxMap: 1, RecDepth: 1},
			})
		}
	}
	// the method's pair spelled through defined pointer types (type PIn *In): the same method, the same rules
	for i, upd := range []bool{false, true} {
		lines := []string{"default PFXNew", "ignore Keep"}
		if upd {
			lines = append(lines, "default:update")
		}
		out = append(out, &Conv{
			ID: fmt.Sprintf("default/defined_pointer_types_upd%v", upd), Family: "default", Format: []string{"struct", "function", "variable"}[i%3],
			Params: "source PFXPIn", Results: "PFXPOut",
			Decls:       "type PFXIn struct {\n\tName string\n\tAge int\n\tL []int\n}\ntype PFXOut struct {\n\tName string\n\tAge int\n\tL []int\n\tKeep string\n}\ntype PFXPIn *PFXIn\ntype PFXPOut *PFXOut\nfunc PFXNew() PFXPOut { return &PFXOut{} }\n",
			MethodLines: lines,
			Spec: &Spec{Update: &UpdateSpec{DefaultFn: "PFXNew", DefaultUpdate: upd}, Pairs: map[string]*PairSpec{
				"PFXIn→PFXOut": {Fields: map[string]*FieldSpec{"Keep": {Ignore: true}}},
			}},
			Bounds: &Bounds{MaxSlice: 1, MaxMap: 1, RecDepth: 1},
		})
	}
	// **T -> *U with default:update: the instance FUNC returned is the one that is updated and returned
	out = append(out, &Conv{
		ID: "default/pointer_to_pointer_source_upd", Family: "default", Format: "struct",
		Params: "source **PFXIn", Results: "*PFXOut",
		Decls:       "type PFXIn struct {\n\tName string\n\tAge int\n}\ntype PFXOut struct {\n\tName string\n\tAge int\n}\nfunc PFXNew() *PFXOut { return &PFXOut{} }\n",
		ConvLines:   []string{"useZeroValueOnPointerInconsistency"},
		MethodLines: []string{"default PFXNew", "default:update"},
		Spec:        &Spec{ZeroOnNil: true, Update: &UpdateSpec{DefaultFn: "PFXNew", DefaultUpdate: true}},
		Bounds:      &Bounds{MaxSlice: 1, MaxMap: 1, RecDepth: 1},
	})
	// default on a T -> *U method whose pointee is a slice or a map: FUNC is called, a nil source returns its result
	for i, pc := range []struct{ name, src, tgt string }{
		{"slice", "[]PFXS", "*[]PFXT"}, {"map", "map[string]int", "*map[string]int"},
	} {
		out = append(out, &Conv{
			ID: "default/value_to_pointer_of_" + pc.name, Family: "default", Format: []string{"struct", "function", "variable"}[i%3],
			Params: "source " + pc.src, Results: pc.tgt,
			Decls:       "type PFXS struct{ A int }\ntype PFXT struct{ A int }\n" + fmt.Sprintf("func PFXNew() %s { return nil }\n", pc.tgt),
			MethodLines: []string{"default PFXNew"},
			Spec:        &Spec{Update: &UpdateSpec{DefaultFn: "PFXNew"}},
			Bounds:      &Bounds{MaxSlice: 1, MaxMap: 1, RecDepth: 1},
		})
	}
	// default on a method whose pair is a map: the method starts from FUNC's result (FUNC is called, a nil source
	// returns what it returned)
	for i, mc := range []struct{ name, src, tgt string }{
		{"structs", "map[string]PFXS", "map[string]PFXT"}, {"basic", "map[int]string", "map[int]string"}, {"ptrs", "map[string]*PFXS", "map[string]*PFXT"},
	} {
		out = append(out, &Conv{
			ID: "default/map_method_" + mc.name, Family: "default", Format: []string{"struct", "function", "variable"}[i%3],
			Params: "source " + mc.src, Results: mc.tgt,
			Decls:       "type PFXS struct{ A int }\ntype PFXT struct{ A int }\n" + fmt.Sprintf("func PFXNew() %s { return nil }\n", mc.tgt),
			MethodLines: []string{"default PFXNew"},
			Spec:        &Spec{Update: &UpdateSpec{DefaultFn: "PFXNew"}},
			Bounds:      &Bounds{MaxSlice: 1, MaxMap: 2, RecDepth: 1},
		})
	}
	// a default FUNC whose source parameter has the pointee type of a pointer source is a signature mismatch
	out = append(out, &Conv{
		ID: "default/fail_pointee_source_param", Family: "default", Format: "struct",
		Params: "source *PFXIn", Results: "*PFXOut",
		Decls:       "type PFXIn struct{ A int }\ntype PFXOut struct{ A int }\nfunc PFXNew(in PFXIn) *PFXOut { return &PFXOut{} }\n",
		MethodLines: []string{"default PFXNew"},
		Spec:        &Spec{}, ExpectFail: true, FailNote: "default FUNC takes the pointee type of the method's pointer source",
	})
	// *T -> U needs useZeroValueOnPointerInconsistency also when the method has a default constructor
	for i, fc := range []struct{ name, params, res, decl string }{
		{"struct", "source *PFXIn", "PFXOut", "type PFXIn struct{ A int }\ntype PFXOut struct{ A int }\nfunc PFXNew() PFXOut { return PFXOut{} }\n"},
		{"elem", "source []*int", "[]int", "func PFXNew() []int { return nil }\n"},
		{"field", "source PFXIn", "PFXOut", "type PFXIn struct{ A *int }\ntype PFXOut struct{ A int }\nfunc PFXNew() PFXOut { return PFXOut{} }\n"},
	} {
		out = append(out, &Conv{
			ID: "default/fail_noflag_" + fc.name, Family: "default", Format: []string{"struct", "function", "variable"}[i%3],
			Params: fc.params, Results: fc.res, Decls: fc.decl, MethodLines: []string{"default PFXNew"},
			Spec: &Spec{}, ExpectFail: true, FailNote: "*T -> U without useZeroValueOnPointerInconsistency (the method has a default constructor)",
		})
	}
	// default on a method whose own conversion is a container: FUNC (returning the zero value here, so every
	// reading of "starts from FUNC's result" agrees) must not leak into the nested conversions - elements and
	// values T -> *U are still non-nil pointers to the converted value, nested pointers are rebuilt
	for i, cc := range []struct {
		name, src, tgt, fres string
		upd, zero            bool
	}{
		{"elem_unnamed", "[]struct{ A int }", "[]*PFXT", "[]*PFXT", false, false},
		{"elem_unnamed_ptr_upd", "[]*struct{ A int }", "[]*PFXT", "[]*PFXT", true, false},
		{"elem_named", "[]PFXS", "[]*PFXT", "[]*PFXT", false, false},
		{"elem_named_upd", "[]PFXS", "[]*PFXT", "[]*PFXT", true, false},
		{"elem_basic", "[]int", "[]*int", "[]*int", false, false},
		{"elem_basic_ptr_upd", "[]*int", "[]*int", "[]*int", true, false},
		{"elem_srcptr_upd", "[]*struct{ A int }", "[]PFXT", "[]PFXT", true, true},
		{"fromarray_elem_unnamed", "[2]struct{ A int }", "[]*PFXT", "[]*PFXT", false, false},
	} {
		lines := []string{"default PFXNew"}
		if cc.upd {
			lines = append(lines, "default:update")
		}
		var clines []string
		if cc.zero {
			clines = []string{"useZeroValueOnPointerInconsistency"}
		}
		sp := &Spec{ZeroOnNil: cc.zero}
		out = append(out, &Conv{
			ID: "default/container_" + cc.name, Family: "default", Format: []string{"struct", "function", "variable"}[i%3],
			Params: "source " + cc.src, Results: cc.tgt,
			Decls:       "type PFXS struct{ A int }\ntype PFXT struct{ A int }\n" + fmt.Sprintf("func PFXNew() %s { var zero %s; return zero }\n", cc.fres, cc.fres),
			MethodLines: lines, ConvLines: clines,
			Spec:   sp,
			Bounds: &Bounds{MaxSlice: 2, MaxMap: 1, RecDepth: 1},
		})
	}
	// the pointee pair of a method with a default constructor is served by an extend function / a declared method:
	// that function still decides the value (C06), FUNC's instance is only the place it is stored in
	for i, cc := range []struct {
		name, src, tgt string
		upd, zero      bool
	}{
		{"val_to_ptr", "PFXIn", "*PFXOut", false, false},
		{"ptr_to_ptr_upd", "*PFXIn", "*PFXOut", true, false},
		{"ptr_to_val_upd", "*PFXIn", "PFXOut", true, true},
	} {
		for _, declared := range []bool{false, true} {
			f := []string{"struct", "function", "variable"}[i%3]
			fres, body := "*PFXOut", "return &PFXOut{}"
			if cc.tgt == "PFXOut" {
				fres, body = "PFXOut", "return PFXOut{}"
			}
			decls := "type PFXIn struct {\n\tName string\n\tKind string\n}\ntype PFXOut struct {\n\tName string\n\tKind string\n}\n" + fmt.Sprintf("func PFXNew() %s { %s }\n", fres, body)
			lines := []string{"default PFXNew"}
			if cc.upd {
				lines = append(lines, "default:update")
			}
			var clines []string
			if cc.zero {
				clines = append(clines, "useZeroValueOnPointerInconsistency")
			}
			sp := &Spec{ZeroOnNil: cc.zero, Update: &UpdateSpec{DefaultFn: "PFXNew", DefaultUpdate: cc.upd}}
			cv := &Conv{
				Family: "default", Format: f, Params: "source " + cc.src, Results: cc.tgt, MethodLines: lines,
				Bounds: &Bounds{MaxSlice: 1, MaxMap: 1, RecDepth: 1},
			}
			if declared {
				cv.ID = "default/custom_pair_declared_" + cc.name
				inner := "\t// goverter:map Name Kind\n\t// goverter:map Kind Name\n\tPFXInner(source PFXIn) PFXOut\n"
				if f == "variable" {
					inner = strings.Replace(inner, "PFXInner(", "PFXInner func(", 1)
				}
				cv.ExtraMethods = inner
				sp.Pairs = map[string]*PairSpec{"PFXIn→PFXOut": {Fields: map[string]*FieldSpec{"Kind": {Path: []string{"Name"}}, "Name": {Path: []string{"Kind"}}}}}
			} else {
				cv.ID = "default/custom_pair_extend_" + cc.name
				decls += "func PFXExt(in PFXIn) PFXOut { return PFXOut{} }\n"
				clines = append(clines, "extend PFXExt")
				sp.Custom = map[string]string{"PFXIn→PFXOut": "PFXExt"}
			}
			cv.Decls, cv.ConvLines, cv.Spec = decls, clines, sp
			out = append(out, cv)
		}
	}
	// the method's struct pair occurs again by value inside itself (the method is built more than once while its
	// sub-methods are discovered): FUNC still applies on every build
	for _, fnPtr := range []bool{false, true} {
		for _, upd := range []bool{false, true} {
			for _, tgtPtr := range []bool{true, false} {
				if !tgtPtr && fnPtr {
					continue
				}
				n++
				fres, body := "PFXOut", "return PFXOut{}"
				if fnPtr {
					fres, body = "*PFXOut", "return &PFXOut{}"
				}
				tgt := "PFXOut"
				if tgtPtr {
					tgt = "*PFXOut"
				}
				decl := "type PFXIn struct {\n\tName string\n\tChildren []PFXIn\n\tByKey map[string]PFXIn\n}\ntype PFXOut struct {\n\tName string\n\tChildren []PFXOut\n\tByKey map[string]PFXOut\n\tKeep string\n}\n" +
					fmt.Sprintf("func PFXNew() %s { %s }\n", fres, body)
				u := &UpdateSpec{DefaultFn: "PFXNew", DefaultUpdate: upd}
				cv := &Conv{
					ID:      fmt.Sprintf("default/selfnested_tp%v_fp%v_upd%v", tgtPtr, fnPtr, upd),
					Family:  "default",
					Format:  []string{"struct", "function", "variable"}[n%3],
					Params:  "source *PFXIn",
					Results: tgt,
					Decls:   decl,
					Spec: &Spec{Update: u, ZeroOnNil: !tgtPtr, Pairs: map[string]*PairSpec{
						"PFXIn→PFXOut": {IgnoreMissing: true},
					}},
					Bounds:      &Bounds{MaxSlice: 1, MaxMap: 1, RecDepth: 1},
					ConvLines:   []string{"ignoreMissing"},
					MethodLines: []string{"default PFXNew"},
				}
				if upd {
					cv.MethodLines = append(cv.MethodLines, "default:update")
				}
				if !tgtPtr {
					cv.MethodLines = append(cv.MethodLines, "useZeroValueOnPointerInconsistency")
				}
				out = append(out, cv)
			}
		}
	}
	return out
}

// FamilySameType: identical source and target types without skipCopySameType - every pointer, slice and map
// must still be copied (C04), whatever fast path the generator takes for equal types.
func FamilySameType(thorough bool) []*Conv {
	var out []*Conv
	formats := []string{"struct", "function", "variable"}
	fi := 0
	g := &shapeGen{}
	type sctor struct {
		name string
		f    func(in shape) shape
	}
	same := func(in shape, name, t string, decls ...string) shape {
		return shape{Src: t, Tgt: t, Name: name + "_" + in.Name, Decls: append(append([]string{}, in.Decls...), decls...)}
	}
	sc := []sctor{
		{"ptr", func(in shape) shape { return same(in, "ptr", "*"+in.Src) }},
		{"slice", func(in shape) shape { return same(in, "slice", "[]"+in.Src) }},
		{"map", func(in shape) shape { return same(in, "map", "map[string]"+in.Src) }},
		{"anon", func(in shape) shape { return same(in, "anon", "struct{ F "+in.Src+"; H string }") }},
		{"anon2", func(in shape) shape { return same(in, "anon2", "struct{ N int; Inner struct{ V "+in.Src+" } }") }},
		{"named", func(in shape) shape {
			k := g.id()
			return same(in, "named", fmt.Sprintf("PFXSN%d", k), fmt.Sprintf("type PFXSN%d struct {\n\tF %s\n\tG int\n}", k, in.Src))
		}},
	}
	add := func(s shape) {
		out = append(out, shapeConv("sametype", s, formats[fi%3], nil, nil))
		fi++
	}
	// a value of a type converted to a pointer to the same type (and back), at several positions
	for i, inner := range []string{"[]int", "*int", "map[string]int"} {
		k := g.id()
		d := fmt.Sprintf("type PFXAd%d struct {\n\tRefs %s\n\tN int\n}\n", k, inner)
		for _, pos := range []struct{ name, src, tgt string }{
			{"top", fmt.Sprintf("PFXAd%d", k), fmt.Sprintf("*PFXAd%d", k)},
			{"field", fmt.Sprintf("struct{ Ship PFXAd%d; X int }", k), fmt.Sprintf("struct{ Ship *PFXAd%d; X int }", k)},
			{"elem", fmt.Sprintf("[]PFXAd%d", k), fmt.Sprintf("[]*PFXAd%d", k)},
			{"mapval", fmt.Sprintf("map[string]PFXAd%d", k), fmt.Sprintf("map[string]*PFXAd%d", k)},
		} {
			add(shape{Src: pos.src, Tgt: pos.tgt, Name: fmt.Sprintf("addr_same_%s_%d", pos.name, i), Decls: []string{d}})
		}
		add(shape{Src: fmt.Sprintf("*PFXAd%d", k), Tgt: fmt.Sprintf("PFXAd%d", k), Name: fmt.Sprintf("deref_same_%d", i), Decls: []string{d}, NeedZero: true})
	}
	// two function-format converters in one output package that need a helper for the same pair: each gets the
	// helper built with its own settings (the first, sorted by name, shares identical types - the second must not)
	for _, first := range []string{"skipCopySameType", "ignoreMissing"} {
		cv := shapeConv("sametype", shape{Src: "PFXV", Tgt: "PFXVT", Name: "two_function_converters_own_helpers_" + strings.ToLower(first),
			Decls: []string{"type PFXLeaf struct {\n\tL []int\n\tP *int\n}\ntype PFXIn struct {\n\tLeaf PFXLeaf\n\tN int\n}\ntype PFXOut struct {\n\tLeaf PFXLeaf\n\tN int\n}\ntype PFXV struct{ In PFXIn }\ntype PFXVT struct{ In PFXOut }\ntype PFXW struct {\n\tIn PFXIn\n\tX int\n}\ntype PFXWT struct {\n\tIn PFXOut\n\tX int\n}\n\n// goverter:converter\n// goverter:output:format function\n// goverter:" + first + "\ntype APFXFirst interface {\n\tAPFXConv(source PFXW) PFXWT\n}"}}, "function", nil, nil)
		cv.Solo = true
		out = append(out, cv)
	}
	// targets of interface type: goverter has no rule for them; should one be accepted, the boxed value must not
	// share memory with the source either (either outcome of generation is fine, sharing is not)
	{
		d := "type PFXBx struct {\n\tL []int\n\tP *int\n\tN int\n}\n"
		for _, pos := range []struct{ name, src, tgt string }{
			{"struct_top", "PFXBx", "any"}, {"struct_field", "struct{ V PFXBx; X int }", "struct{ V any; X int }"}, {"struct_elem", "[]PFXBx", "[]any"},
			{"slice_field", "struct{ V []int }", "struct{ V any }"}, {"ptr_mapval", "map[string]*PFXBx", "map[string]any"}, {"struct_stringer", "struct{ V PFXBx }", "struct{ V interface{ String() string } }"},
		} {
			cv := shapeConv("sametype", shape{Src: pos.src, Tgt: pos.tgt, Name: "iface_target_" + pos.name, Decls: []string{d + "func (b PFXBx) String() string { return \"\" }\n"}}, formats[fi%3], nil, nil)
			fi++
			cv.AnyOutcome, cv.Solo = true, true
			out = append(out, cv)
		}
	}
	// array targets (not supported by the pinned tree: TypeMismatch): should a conversion into an array ever be
	// generated, its elements are converted like everything else (either outcome of generation is fine, sharing or
	// lost values are not)
	for _, pos := range []struct{ name, src, tgt string }{
		{"ptr_elems", "[2]*int", "[2]*int"}, {"slice_elems", "[2][]string", "[2][]string"},
		{"fields", "struct {\n\tSlots [2]*int\n\tRows [2][]string\n\tN [2]int\n}", "struct {\n\tSlots [2]*int\n\tRows [2][]string\n\tN [2]int\n}"},
		{"struct_elems", "[]struct{ A [1]map[string]int }", "[]struct{ A [1]map[string]int }"},
	} {
		cv := shapeConv("sametype", shape{Src: pos.src, Tgt: pos.tgt, Name: "array_target_" + pos.name}, formats[fi%3], nil, nil)
		fi++
		cv.AnyOutcome, cv.Solo = true, true
		out = append(out, cv)
	}
	// ... and *T -> T where T is a defined reference type (map, slice, pointer) or a struct made of such fields:
	// dereferencing copies the header only, the content still has to be copied
	{
		d := "type PFXLab map[string]string\ntype PFXIDs []int\ntype PFXRef *int\ntype PFXMeta struct {\n\tL PFXLab\n\tI PFXIDs\n\tR PFXRef\n\tN int\n}\n"
		for _, t := range []string{"PFXLab", "PFXIDs", "PFXRef", "PFXMeta"} {
			for _, pos := range []struct{ name, src, tgt string }{
				{"top", "*" + t, t}, {"field", "struct{ V *" + t + "; X int }", "struct{ V " + t + "; X int }"}, {"elem", "[]*" + t, "[]" + t},
			} {
				if !thorough && pos.name == "elem" && t != "PFXMeta" {
					continue
				}
				add(shape{Src: pos.src, Tgt: pos.tgt, Name: "deref_named_ref_" + strings.ToLower(t[3:]) + "_" + pos.name, Decls: []string{d}, NeedZero: true})
			}
		}
	}
	// a small unnamed value struct (basic fields only), identical on both sides, converted to a pointer to it
	for i, inner := range []string{"struct{ X, Y int }", "struct{ S string }", "struct {\n\tA int `json:\"a\"`\n\tB bool\n}"} {
		for _, pos := range []struct{ name, src, tgt string }{
			{"top", inner, "*" + inner},
			{"field", "struct{ Origin " + inner + "; N int }", "struct{ Origin *" + inner + "; N int }"},
			{"elem", "[]" + inner, "[]*" + inner},
			{"arrelem", "[2]" + inner, "[]*" + inner},
			{"mapval", "map[string]" + inner, "map[string]*" + inner},
			{"named_field", "PFXVs", "PFXVt"},
		} {
			if i > 0 && pos.name != "field" && pos.name != "elem" {
				continue
			}
			add(shape{Src: pos.src, Tgt: pos.tgt, Name: fmt.Sprintf("addr_same_unnamed_%s_%d", pos.name, i),
				Decls: []string{"type PFXVs struct {\n\tOrigin " + inner + "\n\tPoints []" + inner + "\n}\ntype PFXVt struct {\n\tOrigin *" + inner + "\n\tPoints []*" + inner + "\n}"}})
		}
	}
	// ignoreUnexported with one struct type on both sides: the unexported reference fields are left out, not taken
	// over by a shallow struct assignment
	for _, pos := range []struct{ name, src, tgt string }{
		{"top", "PFXUx", "PFXUx"}, {"field", "struct{ In PFXUx; N int }", "struct{ In PFXUx; N int }"}, {"elem", "[]PFXUx", "[]PFXUx"}, {"ptr", "*PFXUx", "*PFXUx"},
	} {
		add(shape{Src: pos.src, Tgt: pos.tgt, Name: "ignoreunexported_same_struct_" + pos.name, ConvLines: []string{"ignoreUnexported"},
			Decls: []string{"type PFXUx struct {\n\tName string\n\tPublic []int\n\ttags []string\n\tmeta map[string]int\n\tnext *int\n}"}})
	}
	// a declared variadic method `IDs(ids ...int) []int` serves every []int -> []int conversion of its siblings (the
	// slice is spread into it): it copies, like any other slice conversion
	for i, f := range formats {
		sib := "\tPFXIDs(ids ...int) []int\n"
		if f == "variable" {
			sib = "\tPFXIDs func(ids ...int) []int\n"
		}
		cv := shapeConv("sametype", shape{Src: "PFXVw", Tgt: "PFXVwT", Name: "variadic_sibling_serves_slices",
			Decls: []string{"type PFXVw struct {\n\tItems []int\n\tMore [][]int\n}\ntype PFXVwT struct {\n\tItems []int\n\tMore [][]int\n}"}}, f, nil, nil)
		cv.ExtraMethods = sib
		cv.Solo = true
		_ = i
		out = append(out, cv)
		direct := shapeConv("sametype", shape{Src: "...int", Tgt: "[]int", Name: "variadic_identical_basic"}, f, nil, nil)
		out = append(out, direct)
	}
	// two different named types with one underlying reference type: converted element by element, never by a Go
	// type conversion (which would share the map / backing array / pointee)
	for i, nt := range []struct{ name, under string }{
		{"map", "map[string]string"}, {"mapint", "map[int]bool"}, {"slice", "[]int"}, {"ptr", "*int"}, {"mapslice", "map[string][]int"},
	} {
		d := fmt.Sprintf("type PFXNa%d %s\ntype PFXNb%d %s\n", i, nt.under, i, nt.under)
		a, b := fmt.Sprintf("PFXNa%d", i), fmt.Sprintf("PFXNb%d", i)
		for _, pos := range []struct{ name, src, tgt string }{
			{"top", a, b}, {"field", "struct{ L " + a + "; N int }", "struct{ L " + b + "; N int }"}, {"elem", "[]" + a, "[]" + b},
			{"mapval", "map[string]" + a, "map[string]" + b}, {"pointee", "*" + a, "*" + b},
		} {
			if !thorough && i > 2 && pos.name != "field" {
				continue
			}
			add(shape{Src: pos.src, Tgt: pos.tgt, Name: fmt.Sprintf("named_to_named_%s_%s", nt.name, pos.name), Decls: []string{d}})
		}
	}
	leaves := []shape{{Src: "int", Tgt: "int", Name: "int"}, {Src: "*int", Tgt: "*int", Name: "pint"}, {Src: "[]string", Tgt: "[]string", Name: "strs"}}
	for _, l := range leaves {
		for _, c1 := range sc {
			add(c1.f(l))
			for _, c2 := range sc {
				if l.Name == "int" && !thorough && c1.name != "map" && c2.name != "anon" && c2.name != "anon2" {
					continue
				}
				add(c1.f(c2.f(l)))
				if !thorough && !(c1.name == "map" || c1.name == "slice") {
					continue
				}
				for _, c3 := range sc {
					if !thorough && !(c3.name == "anon" || c3.name == "anon2" || c3.name == "named") {
						continue
					}
					if l.Name == "strs" && !thorough {
						continue
					}
					add(c1.f(c2.f(c3.f(l))))
				}
			}
		}
	}
	return out
}
