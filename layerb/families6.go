package layerb

import "fmt"

// FamilyName: F-name (C01 gate) — programs whose package, type, field and member names collide with
// identifiers goverter emits, unexported members, shared output files.
func FamilyName(thorough bool) []*Conv {
	var out []*Conv
	simple := "type PFXIn struct {\n\tName string\n\tNested *PFXNin\n\tL []PFXNin\n\tM map[string]PFXNin\n}\ntype PFXNin struct{ V int }\ntype PFXOut struct {\n\tName string\n\tNested *PFXNout\n\tL []PFXNout\n\tM map[string]PFXNout\n}\ntype PFXNout struct{ V int }\n"
	// package names equal to identifiers that the emitted code declares
	names := []string{"source", "c", "context", "target", "err", "generated", "i", "key", "value", "fmt", "errors", "init", "main2", "xint"}
	for i, n := range names {
		for fi, f := range []string{"struct", "function", "variable"} {
			if !thorough && (i+fi)%3 != 0 && n != "source" && n != "c" {
				continue
			}
			out = append(out, &Conv{
				ID:      fmt.Sprintf("name/pkg_%s/%s", n, f),
				Family:  "name",
				Format:  f,
				Params:  "source PFXIn",
				Results: "(PFXOut, error)",
				Decls:   simple,
				PkgName: n,
				Spec:    &Spec{},
			})
		}
	}
	// ... with types of that package spelled inside loop bodies (where index / key / value variables are in scope)
	deep := "type PFXNin struct{ V int }\ntype PFXNout struct{ V int }\ntype PFXIn struct {\n\tLL [][]PFXNin\n\tML map[string][]PFXNin\n\tMM map[string]map[string]PFXNin\n}\ntype PFXOut struct {\n\tLL [][]PFXNout\n\tML map[string][]PFXNout\n\tMM map[string]map[string]PFXNout\n}\n"
	for i, n := range []string{"i", "j", "key", "value", "key2", "value2", "err", "context", "target", "xint", "plain"} {
		f := []string{"struct", "function"}[i%2]
		out = append(out, &Conv{
			ID:      fmt.Sprintf("name/pkgdeep_%s/%s", n, f),
			Family:  "name",
			Format:  f,
			Params:  "source PFXIn",
			Results: "(PFXOut, error)",
			Decls:   deep,
			PkgName: n,
			Spec:    &Spec{},
		})
	}
	// a type whose generated variable name is `err` (type rr of package e, output in its package) next to a fallible function
	out = append(out, &Conv{
		ID: "name/variable_named_err/variable", Family: "name", Format: "variable", Solo: true, PkgName: "e",
		Params: "source PFXIn", Results: "(PFXOut, error)",
		Decls:     "type rr struct{ V int }\ntype PFXIn struct{ A int }\ntype PFXOut struct{ A rr }\nfunc PFXTorr(i int) (rr, error) { return rr{}, nil }\n",
		ConvLines: []string{"extend PFXTorr"}, Spec: &Spec{},
	})
	// type names that collide with generated helper names / locals
	for _, f := range []string{"struct", "function", "variable"} {
		out = append(out, &Conv{
			ID: "name/type_names/" + f, Family: "name", Format: f, Solo: true,
			Params: "source PFXIn", Results: "PFXOut",
			Decls: "type PFXIn struct {\n\tA PInt\n\tB *int\n\tC Source\n\tD IntList\n\tE []int\n}\ntype PFXOut struct {\n\tA PInt\n\tB *int\n\tC Source\n\tD IntList\n\tE []int\n}\ntype PInt int\ntype Source struct{ Target int }\ntype IntList []int\n",
			Spec:  &Spec{},
		})
		// field and parameter names equal to emitted locals
		out = append(out, &Conv{
			ID: "name/field_names/" + f, Family: "name", Format: f,
			Params: "source PFXIn", Results: "(PFXOut, error)",
			Decls: "type PFXIn struct {\n\tC int\n\tI []int\n\tKey map[string]int\n\tErr *int\n\tSource string\n}\ntype PFXOut struct {\n\tC int\n\tI []int\n\tKey map[string]int\n\tErr *int\n\tSource string\n}\n",
			Spec:  &Spec{},
		})
		// parameter named like an emitted local
		out = append(out, &Conv{
			ID: "name/param_names/" + f, Family: "name", Format: f,
			Params: "i PFXIn", Results: "(PFXOut, error)",
			Decls: "type PFXIn struct {\n\tL []int\n\tM map[string][]int\n}\ntype PFXOut struct {\n\tL []int\n\tM map[string][]int\n}\n",
			Spec:  &Spec{},
		})
	}
	// enums: unexported members, equal-valued float / big uint64 members
	enumAux := func(src, tgt string) map[string]string {
		return map[string]string{"pfxsrc": src, "pfxtgt": tgt}
	}
	imports := []string{`pfxsrc "corpus/GRP/pfxsrc"`, `pfxtgt "corpus/GRP/pfxtgt"`}
	out = append(out, &Conv{
		ID: "name/enum_unexported_member/struct", Family: "name", Format: "struct", Solo: true,
		Params: "source pfxsrc.Color", Results: "pfxtgt.Color", ConvLines: []string{"enum:unknown @ignore"},
		Aux:     enumAux("package pfxsrc\n\ntype Color int\n\nconst (\n\tRed Color = iota\n\tgreen\n)\n", "package pfxtgt\n\ntype Color int\n\nconst (\n\tRed Color = iota\n\tgreen\n)\n"),
		Imports: imports, Spec: &Spec{},
	})
	out = append(out, &Conv{
		ID: "name/enum_unexported_member_same_pkg/struct", Family: "name", Format: "struct", Solo: true,
		Params: "source PFXColorA", Results: "PFXColorB", ConvLines: []string{"enum:unknown @ignore"},
		MethodLines: []string{"enum:map PFXaRed PFXbRed", "enum:map pfxaGreen pfxbGreen"},
		Decls:       "type PFXColorA int\n\nconst (\n\tPFXaRed PFXColorA = iota\n\tpfxaGreen\n)\n\ntype PFXColorB int\n\nconst (\n\tPFXbRed PFXColorB = iota\n\tpfxbGreen\n)\n",
		Spec:        &Spec{},
	})
	out = append(out, &Conv{
		ID: "name/enum_float_duplicates/struct", Family: "name", Format: "struct", Solo: true,
		Params: "source pfxsrc.Color", Results: "pfxtgt.Color", ConvLines: []string{"enum:unknown @ignore"},
		Aux:     enumAux("package pfxsrc\n\ntype Color float64\n\nconst (\n\tRed Color = 0.5\n\tCrimson Color = 0.5\n\tBlue Color = 2\n)\n", "package pfxtgt\n\ntype Color float64\n\nconst (\n\tRed Color = 1.5\n\tCrimson Color = 1.5\n\tBlue Color = 3\n)\n"),
		Imports: imports, Spec: &Spec{},
	})
	out = append(out, &Conv{
		ID: "name/enum_uint64_duplicates/struct", Family: "name", Format: "struct", Solo: true,
		Params: "source pfxsrc.Color", Results: "pfxtgt.Color", ConvLines: []string{"enum:unknown @ignore"},
		Aux:     enumAux("package pfxsrc\n\ntype Color uint64\n\nconst (\n\tRed Color = 18446744073709551615\n\tCrimson Color = 18446744073709551615\n\tBlue Color = 2\n)\n", "package pfxtgt\n\ntype Color uint64\n\nconst (\n\tRed Color = 1\n\tCrimson Color = 1\n\tBlue Color = 3\n)\n"),
		Imports: imports, Spec: &Spec{},
	})
	out = append(out, &Conv{
		ID: "name/enum_int_duplicates/struct", Family: "name", Format: "struct", Solo: true,
		Params: "source pfxsrc.Color", Results: "pfxtgt.Color", ConvLines: []string{"enum:unknown @ignore"},
		Aux:     enumAux("package pfxsrc\n\ntype Color int\n\nconst (\n\tRed Color = 1\n\tCrimson Color = 1\n\tBlue Color = 2\n)\n", "package pfxtgt\n\ntype Color int\n\nconst (\n\tRed Color = 1\n\tCrimson Color = 1\n\tBlue Color = 3\n)\n"),
		Imports: imports, Spec: &Spec{},
	})
	// unexported source fields reachable by setting (output in another package)
	out = append(out, &Conv{
		ID: "name/unexported_source_field_map/struct", Family: "name", Format: "struct", Solo: true,
		Params: "source PFXIn", Results: "PFXOut", MethodLines: []string{"map hidden Shown"},
		Decls:      "type PFXIn struct {\n\thidden int\n}\ntype PFXOut struct {\n\tShown int\n}\n",
		ExpectFail: true, FailNote: "unexported source field is not accessible from the output package", Spec: &Spec{},
	})
	out = append(out, &Conv{
		ID: "name/unexported_source_field_ignorecase/struct", Family: "name", Format: "struct", Solo: true,
		Params: "source PFXIn", Results: "PFXOut", MethodLines: []string{"matchIgnoreCase"},
		Decls:      "type PFXIn struct {\n\tshown int\n}\ntype PFXOut struct {\n\tShown int\n}\n",
		ExpectFail: true, FailNote: "unexported source field is not accessible from the output package", Spec: &Spec{},
	})
	// the same, output in the same package: must succeed
	out = append(out, &Conv{
		ID: "name/unexported_source_field_same_pkg/variable", Family: "name", Format: "variable", Solo: true,
		Params: "source PFXIn", Results: "PFXOut", MethodLines: []string{"map hidden Shown"},
		Decls: "type PFXIn struct {\n\thidden int\n}\ntype PFXOut struct {\n\tShown int\n}\n", Spec: &Spec{},
	})
	// two packages with the same name imported by one converter
	out = append(out, &Conv{
		ID: "name/same_package_name_twice/struct", Family: "name", Format: "struct", Solo: true,
		Params: "source pfxa.T", Results: "pfxb.T",
		Aux:     map[string]string{"pfxa/x": "package x\n\ntype T struct {\n\tV int\n\tN *N\n}\ntype N struct{ W string }\n", "pfxb/x": "package x\n\ntype T struct {\n\tV int\n\tN *N\n}\ntype N struct{ W string }\n"},
		Imports: []string{`pfxa "corpus/GRP/pfxa/x"`, `pfxb "corpus/GRP/pfxb/x"`}, Spec: &Spec{},
	})
	// generic types
	for _, f := range []string{"struct", "function"} {
		out = append(out, &Conv{
			ID: "name/generic_types/" + f, Family: "name", Format: f, Solo: true,
			Params: "source PFXBox[PFXIn]", Results: "PFXBox[PFXOut]",
			Decls: "type PFXBox[T any] struct {\n\tV T\n\tL []T\n}\ntype PFXIn struct{ A int }\ntype PFXOut struct{ A int }\n", Spec: &Spec{},
		})
	}
	// empty named structs (no field to copy): still two different types
	for _, f := range []string{"struct", "function", "variable"} {
		out = append(out, &Conv{
			ID: "name/empty_named_structs/" + f, Family: "name", Format: f,
			Params: "source PFXIn", Results: "PFXOut",
			Decls: "type PFXVa struct{}\ntype PFXVb struct{}\ntype PFXIn struct {\n\tSet map[string]PFXVa\n\tOne PFXVa\n\tL []PFXVa\n\tU map[string]struct{}\n}\ntype PFXOut struct {\n\tSet map[string]PFXVb\n\tOne PFXVb\n\tL []PFXVb\n\tU map[string]struct{}\n}\n",
			Spec:  &Spec{},
		})
	}
	// a variables block and a function-format interface sharing one output file and needing the same helper
	out = append(out, &Conv{
		ID: "name/shared_file_across_formats/variable", Family: "name", Format: "variable", Solo: true,
		Params: "source PFXOuterA", Results: "PFXOuterAT",
		Decls: "type PFXIn struct{ V int }\ntype PFXInT struct{ V int }\ntype PFXOuterA struct{ I PFXIn }\ntype PFXOuterAT struct{ I PFXInT }\ntype PFXOuterB struct{ I PFXIn }\ntype PFXOuterBT struct{ I PFXInT }\n\n// goverter:converter\n// goverter:output:format function\n// goverter:output:file ./input.gen.go\n// goverter:output:package corpus/GRP\ntype PFXShared interface {\n\tPFXConvB(source PFXOuterB) PFXOuterBT\n}\n",
		Spec:  &Spec{},
	})
	// output:package given on two levels: the innermost line alone decides path and name; the output directory
	// already holds a file of the package
	for _, f := range []string{"struct", "function"} {
		out = append(out, &Conv{
			ID: "name/output_package_overridden/" + f, Family: "name", Format: f, Solo: true,
			Params: "source PFXIn", Results: "PFXOut",
			CLI:       []string{"output:package corpus/GRP/generated:shared"},
			ConvLines: []string{"output:package corpus/GRP/generated"},
			Aux:       map[string]string{"generated": "// Package generated holds converters.\npackage generated\n"},
			Decls:     "type PFXIn struct{ A int }\ntype PFXOut struct{ A int }\n", Spec: &Spec{},
		})
		out = append(out, &Conv{
			ID: "name/output_package_name_kept/" + f, Family: "name", Format: f, Solo: true,
			Params: "source PFXIn", Results: "PFXOut",
			CLI:       []string{"output:package corpus/GRP/elsewhere:other"},
			ConvLines: []string{"output:package corpus/GRP/generated:generated"},
			Aux:       map[string]string{"generated": "// Package generated holds converters.\npackage generated\n"},
			Decls:     "type PFXIn struct{ A int }\ntype PFXOut struct{ A int }\n", Spec: &Spec{},
		})
	}
	// unnamed types that have to be spelled out in the emitted code (signatures, make, composite positions):
	// struct tags, embedded fields (tagged or not), channel directions, variadic and multi-result functions,
	// interfaces with methods, instantiated generics - the rendered type must be the declared one
	zoo := "type PFXEmb struct{ V int }\ntype PFXBox[T any] struct{ V T }\n"
	tagged := "struct {\n\t\tPFXEmb `json:\"emb\"`\n\t\tN      int `json:\"n\" yaml:\"n\"`\n\t\tS      string\n\t}"
	for _, f := range []string{"struct", "function", "variable"} {
		for _, sh := range []struct{ name, t string }{
			{"elem", "[]" + tagged}, {"mapval", "map[string]" + tagged}, {"ptr", "*" + tagged}, {"top", tagged}, {"nested", "[]map[string]*" + tagged},
		} {
			out = append(out, &Conv{
				ID: "name/rendered_tagged_embedded_" + sh.name + "/" + f, Family: "name", Format: f,
				Params: "source " + sh.t, Results: sh.t, Decls: zoo, Spec: &Spec{},
			})
		}
		for _, sh := range []struct{ name, t string }{
			{"nested_generic_top", "PFXBox[PFXBox[int]]"}, {"nested_generic_elem", "[]PFXBox[PFXBox[PFXEmb]]"}, {"nested_generic_three", "*PFXBox[PFXBox[PFXBox[string]]]"},
		} {
			out = append(out, &Conv{
				ID: "name/rendered_" + sh.name + "/" + f, Family: "name", Format: f,
				Params: "source " + sh.t, Results: sh.t, Decls: zoo, Spec: &Spec{},
			})
		}
		exotic := "struct {\n\t\tIn   <-chan int\n\t\tOut  chan<- string\n\t\tBoth chan *PFXEmb\n\t\tF    func(a int, rest ...string) (bool, error)\n\t\tI    interface{ M(x int) string }\n\t\tG    func(tags []string, more [][]int, values ...interface{})\n\t\tH    func(...[]string) []string\n\t\tJ    func(fn func(xs []int, ys ...int), zs ...func(...int))\n\t\tI2   interface{ M(xs []string, rest ...int) }\n\t\tB    PFXBox[[]int]\n\t\tBB   PFXBox[PFXBox[int]]\n\t\tBP   PFXBox[*PFXBox[string]]\n\t\tBM   map[string]PFXBox[PFXBox[PFXEmb]]\n\t\tA    [3]*int\n\t\tE    interface{}\n\t}"
		out = append(out, &Conv{
			ID: "name/rendered_exotic_types/" + f, Family: "name", Format: f,
			Params: "source map[string]" + exotic, Results: "map[PFXKeyT]" + exotic, Decls: zoo + "type PFXKeyT string\n",
			ConvLines: []string{"skipCopySameType"}, Spec: &Spec{SkipCopy: true},
		})
	}
	// a variables block whose code is emitted into another package: calls between the declared variables stay
	// qualified with the declaring package
	out = append(out, &Conv{
		ID: "name/variables_emitted_elsewhere/variable", Family: "name", Format: "variable", Solo: true,
		Params: "source []PFXIn", Results: "[]PFXOut",
		ConvLines:    []string{"output:file ./gen/conv.go", "output:package corpus/GRP/gen"},
		ExtraMethods: "\tPFXItem func(source PFXIn) PFXOut\n",
		Decls:        "type PFXIn struct{ A int }\ntype PFXOut struct{ A int }\n", Spec: &Spec{},
	})
	// ... and the helpers goverter generates for nested pairs are called unqualified (they live in the output package)
	out = append(out, &Conv{
		ID: "name/variables_emitted_elsewhere_helper/variable", Family: "name", Format: "variable", Solo: true,
		Params: "source PFXW", Results: "PFXWT",
		ConvLines: []string{"output:file ./gen2/conv.go", "output:package corpus/GRP/gen2"},
		Decls:     "type PFXIn struct{ A int }\ntype PFXOut struct{ A int }\ntype PFXW struct {\n\tOne PFXIn\n\tMany []*PFXIn\n}\ntype PFXWT struct {\n\tOne PFXOut\n\tMany []*PFXOut\n}\n", Spec: &Spec{},
	})
	// custom struct name / several converters in one file are exercised by every group of the other families
	out = append(out, &Conv{
		ID: "name/custom_struct_name/struct", Family: "name", Format: "struct",
		Params: "source PFXIn", Results: "PFXOut", ConvLines: []string{"name PFXCustomName"},
		Decls: "type PFXIn struct{ A int }\ntype PFXOut struct{ A int }\n", Spec: &Spec{ImplName: "PFXCustomName"},
	})
	return out
}
