package layerb

import (
	"fmt"
	"math/rand"
	"strings"
)

// FamilyFieldRandom: seeded random struct pairs whose target fields are bound in every documented way (same name,
// goverter:map rename, nested path through values and pointers, ignore, ignoreMissing, matchIgnoreCase, autoMap,
// map | FUNC), with the intent derived while the program is generated; plus single-fault mutants of the same
// programs that must be rejected. Fixed cases cover one binding kind at a time; here they are combined.
func FamilyFieldRandom(count int) []*Conv {
	rng := rand.New(rand.NewSource(Seed*15485863 + 17))
	var out []*Conv
	formats := []string{"struct", "function", "variable"}
	for i := 0; i < count; i++ {
		cv, mutants := genFieldProgram(rng, i)
		cv.Format = formats[i%3]
		cv.ID = fmt.Sprintf("fieldrnd/p%03d/%s", i, cv.Format)
		out = append(out, cv)
		for mi, m := range mutants {
			m.Format = formats[(i+mi)%3]
			m.ID = fmt.Sprintf("fieldrnd/p%03d_fail_%s/%s", i, m.FailNote[:strings.Index(m.FailNote, ":")], m.Format)
			out = append(out, m)
		}
	}
	return out
}

type rndLeaf struct {
	src, tgt string
	custom   bool // needs the named pair below
}

func genFieldProgram(rng *rand.Rand, idx int) (*Conv, []*Conv) {
	leaves := []rndLeaf{
		{"int", "int", false}, {"string", "string", false}, {"*int", "*int", false}, {"[]string", "[]string", false},
		{"map[string]int", "map[string]int", false}, {"PFXNa", "PFXNb", false}, {"[]PFXNa", "[]PFXNb", false}, {"*PFXNa", "*PFXNb", false}, {"bool", "bool", false},
	}
	decl := "type PFXNa struct {\n\tV int\n\tW string\n}\ntype PFXNb struct {\n\tV int\n\tW string\n}\n"
	names := []string{"Alpha", "Beta", "Gamma", "Delta", "Epsilon", "Zeta", "Eta", "Theta"}
	rng.Shuffle(len(names), func(i, j int) { names[i], names[j] = names[j], names[i] })
	n := 3 + rng.Intn(4)
	type field struct {
		kind  string
		tname string
		leaf  rndLeaf
	}
	var srcFields, tgtFields, nestedFields, nestedPtrFields, autoFields []string
	var lines []string
	fields := map[string]*FieldSpec{}
	ps := &PairSpec{Fields: fields}
	spec := &Spec{Pairs: map[string]*PairSpec{"PFXS→PFXT": ps}, Custom: map[string]string{}}
	needMissing, needCase, needZero := false, false, false
	var funcDecls strings.Builder
	var fl []field
	kinds := []string{"same", "same", "rename", "path", "ptrpath", "ptrpath2", "hop2", "ignore", "missing", "foldcase", "automap", "func", "ignore_with_source", "unexported", "getter"}
	needUnexported := false
	var getterDecls strings.Builder
	var nestedPtr2Fields, hopFields []string
	for i := 0; i < n; i++ {
		k := kinds[rng.Intn(len(kinds))]
		if i == 0 {
			k = "same" // at least one plain source field
		}
		lf := leaves[rng.Intn(len(leaves))]
		t := names[i]
		fl = append(fl, field{k, t, lf})
		switch k {
		case "same":
			srcFields = append(srcFields, fmt.Sprintf("\t%s %s", t, lf.src))
			tgtFields = append(tgtFields, fmt.Sprintf("\t%s %s", t, lf.tgt))
		case "rename":
			srcFields = append(srcFields, fmt.Sprintf("\tSrc%s %s", t, lf.src))
			tgtFields = append(tgtFields, fmt.Sprintf("\t%s %s", t, lf.tgt))
			lines = append(lines, fmt.Sprintf("map Src%s %s", t, t))
			fields[t] = &FieldSpec{Path: []string{"Src" + t}}
		case "path":
			nestedFields = append(nestedFields, fmt.Sprintf("\tIn%s %s", t, lf.src))
			tgtFields = append(tgtFields, fmt.Sprintf("\t%s %s", t, lf.tgt))
			lines = append(lines, fmt.Sprintf("map Nested.In%s %s", t, t))
			fields[t] = &FieldSpec{Path: []string{"Nested", "In" + t}}
		case "ptrpath":
			// a path through a pointer: pointer-typed targets take nil, value-typed ones need the zero-value flag
			nestedPtrFields = append(nestedPtrFields, fmt.Sprintf("\tPt%s %s", t, lf.src))
			tt := lf.tgt
			needZero = true // the source is lifted to a pointer by the path: one level more than the target
			tgtFields = append(tgtFields, fmt.Sprintf("\t%s %s", t, tt))
			lines = append(lines, fmt.Sprintf("map PNested.Pt%s %s", t, t))
			fields[t] = &FieldSpec{Path: []string{"PNested", "Pt" + t}}
		case "ptrpath2":
			nestedPtr2Fields = append(nestedPtr2Fields, fmt.Sprintf("\tQt%s %s", t, lf.src))
			needZero = true
			tgtFields = append(tgtFields, fmt.Sprintf("\t%s %s", t, lf.tgt))
			lines = append(lines, fmt.Sprintf("map QNested.Qt%s %s", t, t))
			fields[t] = &FieldSpec{Path: []string{"QNested", "Qt" + t}}
		case "hop2":
			// two directly consecutive pointer hops
			hopFields = append(hopFields, fmt.Sprintf("\tHp%s %s", t, lf.src))
			needZero = true
			tgtFields = append(tgtFields, fmt.Sprintf("\t%s %s", t, lf.tgt))
			lines = append(lines, fmt.Sprintf("map Hop.Inner.Hp%s %s", t, t))
			fields[t] = &FieldSpec{Path: []string{"Hop", "Inner", "Hp" + t}}
		case "unexported":
			// an unexported target field is left out under ignoreUnexported (whether or not a source exists)
			lt := strings.ToLower(t[:1]) + t[1:]
			if rng.Intn(2) == 0 {
				srcFields = append(srcFields, fmt.Sprintf("\t%s %s", lt, lf.src))
			}
			tgtFields = append(tgtFields, fmt.Sprintf("\t%s %s", lt, lf.tgt))
			needUnexported = true
			fields[lt] = &FieldSpec{Ignore: true}
		case "getter":
			// the source value is the result of an argument-less method of the source struct
			fmt.Fprintf(&getterDecls, "func (s PFXS) Get%s() int { return 0 }\n", t)
			tgtFields = append(tgtFields, fmt.Sprintf("\t%s int", t))
			lines = append(lines, fmt.Sprintf("map Get%s %s", t, t))
			fields[t] = &FieldSpec{Whole: true, Fn: "PFXS.Get" + t}
		case "ignore":
			tgtFields = append(tgtFields, fmt.Sprintf("\t%s %s", t, lf.tgt))
			lines = append(lines, "ignore "+t)
			fields[t] = &FieldSpec{Ignore: true}
		case "ignore_with_source":
			srcFields = append(srcFields, fmt.Sprintf("\t%s %s", t, lf.src))
			tgtFields = append(tgtFields, fmt.Sprintf("\t%s %s", t, lf.tgt))
			lines = append(lines, "ignore "+t)
			fields[t] = &FieldSpec{Ignore: true}
		case "missing":
			tgtFields = append(tgtFields, fmt.Sprintf("\t%s %s", t, lf.tgt))
			needMissing = true
		case "foldcase":
			srcFields = append(srcFields, fmt.Sprintf("\t%s %s", strings.ToUpper(t), lf.src))
			tgtFields = append(tgtFields, fmt.Sprintf("\t%s %s", t, lf.tgt))
			needCase = true
			fields[t] = &FieldSpec{Path: []string{strings.ToUpper(t)}}
		case "automap":
			autoFields = append(autoFields, fmt.Sprintf("\t%s %s", t, lf.src))
			tgtFields = append(tgtFields, fmt.Sprintf("\t%s %s", t, lf.tgt))
			fields[t] = &FieldSpec{Path: []string{"Auto", t}}
		case "func":
			srcFields = append(srcFields, fmt.Sprintf("\tRaw%s int", t))
			tgtFields = append(tgtFields, fmt.Sprintf("\t%s string", t))
			fmt.Fprintf(&funcDecls, "func PFXFmt%s(v int) string { return \"\" }\n", t)
			lines = append(lines, fmt.Sprintf("map Raw%s %s | PFXFmt%s", t, t, t))
			fields[t] = &FieldSpec{Path: []string{"Raw" + t}, Fn: "PFXFmt" + t}
		}
	}
	if len(nestedFields) > 0 {
		decl += "type PFXNest struct {\n" + strings.Join(nestedFields, "\n") + "\n}\n"
		srcFields = append(srcFields, "\tNested PFXNest")
	}
	if len(nestedPtrFields) > 0 {
		decl += "type PFXPNest struct {\n" + strings.Join(nestedPtrFields, "\n") + "\n}\n"
		srcFields = append(srcFields, "\tPNested *PFXPNest")
	}
	if len(nestedPtr2Fields) > 0 {
		decl += "type PFXQNest struct {\n" + strings.Join(nestedPtr2Fields, "\n") + "\n}\n"
		srcFields = append(srcFields, "\tQNested *PFXQNest")
	}
	if len(hopFields) > 0 {
		decl += "type PFXHopIn struct {\n" + strings.Join(hopFields, "\n") + "\n}\ntype PFXHop struct{ Inner *PFXHopIn }\n"
		srcFields = append(srcFields, "\tHop *PFXHop")
	}
	// an unnamed struct nested on both sides that repeats the names of configured fields: converted inline by the
	// same method, by name, untouched by the method's field settings
	if rng.Intn(2) == 0 {
		var inner []string
		for _, f := range fl {
			if f.kind == "ignore" || f.kind == "rename" || f.kind == "func" || f.kind == "ignore_with_source" || f.kind == "same" {
				inner = append(inner, fmt.Sprintf("%s int", f.tname))
			}
		}
		if len(inner) > 0 {
			st := "struct{ " + strings.Join(inner, "; ") + " }"
			switch rng.Intn(3) {
			case 0:
				srcFields, tgtFields = append(srcFields, "\tMeta "+st), append(tgtFields, "\tMeta "+st)
			case 1:
				srcFields, tgtFields = append(srcFields, "\tMeta []"+st), append(tgtFields, "\tMeta []"+st)
			default:
				srcFields, tgtFields = append(srcFields, "\tMeta map[string]"+st), append(tgtFields, "\tMeta map[string]"+st)
			}
		}
	}
	if len(autoFields) > 0 {
		decl += "type PFXAuto struct {\n" + strings.Join(autoFields, "\n") + "\n}\n"
		srcFields = append(srcFields, "\tAuto PFXAuto")
		lines = append(lines, "autoMap Auto")
	}
	if needMissing {
		lines = append(lines, "ignoreMissing")
		ps.IgnoreMissing = true
	}
	if needCase {
		lines = append(lines, "matchIgnoreCase")
		ps.IgnoreCase = true
	}
	if needUnexported {
		lines = append(lines, "ignoreUnexported")
		ps.IgnoreUnexported = true
	}
	var convLines []string
	if needZero {
		// at converter level: generated sub-methods (pointer to a named struct) do not inherit method settings
		convLines = append(convLines, "useZeroValueOnPointerInconsistency")
		spec.ZeroOnNil = true
	}
	rng.Shuffle(len(lines), func(i, j int) { lines[i], lines[j] = lines[j], lines[i] })
	decl += "type PFXS struct {\n" + strings.Join(srcFields, "\n") + "\n}\ntype PFXT struct {\n" + strings.Join(tgtFields, "\n") + "\n}\n" + funcDecls.String() + getterDecls.String()
	srcT, tgtT := "PFXS", "PFXT"
	if rng.Intn(3) == 0 {
		srcT, tgtT = "*PFXS", "*PFXT"
	}
	cv := &Conv{Family: "fieldrnd", Params: "source " + srcT, Results: tgtT, Decls: decl, ConvLines: convLines, MethodLines: lines, Spec: spec, Bounds: &Bounds{MaxSlice: 1, MaxMap: 1, RecDepth: 1}}

	// single-fault mutants that must be rejected
	var mutants []*Conv
	mk := func(note string, decls string, ml []string) {
		mutants = append(mutants, &Conv{Family: "fieldrnd", Params: "source " + srcT, Results: tgtT, Decls: decls, ConvLines: convLines, MethodLines: ml, Spec: &Spec{}, ExpectFail: true, FailNote: note})
	}
	without := func(prefix string) []string {
		var r []string
		for _, l := range lines {
			if !strings.HasPrefix(l, prefix) {
				r = append(r, l)
			}
		}
		return r
	}
	for _, f := range fl {
		switch {
		case f.kind == "rename" && !needMissing && len(mutants) == 0:
			mk("dropmap: the goverter:map line of a renamed field removed (no source of that name)", decl, without("map Src"+f.tname+" "))
		case f.kind == "ignore" && !needMissing && len(mutants) < 2:
			mk("dropignore: the goverter:ignore line of a field without source removed", decl, without("ignore "+f.tname))
		}
	}
	for _, f := range fl {
		if f.kind == "foldcase" && len(mutants) < 3 {
			// a second, differently cased candidate and no exact match
			amb := strings.Replace(decl, "type PFXS struct {\n", "type PFXS struct {\n\t"+strings.ToLower(f.tname[:1])+strings.ToUpper(f.tname[1:])+"x int\n", 1)
			amb = strings.Replace(amb, "x int\n", " "+f.leaf.src+"\n", 1)
			mk("ambiguousfold: two case-insensitive candidates for one target field and no exact match", amb, lines)
			break
		}
	}
	for _, f := range fl {
		if f.kind == "automap" && len(mutants) < 3 {
			// the same exact name below a second autoMap path
			amb := strings.Replace(decl, "type PFXS struct {\n", "type PFXAuto2 struct{ "+f.tname+" "+f.leaf.src+" }\ntype PFXS struct {\n\tAuto2 PFXAuto2\n", 1)
			mk("ambiguousautomap: the same field name below two autoMap paths", amb, append(append([]string{}, lines...), "autoMap Auto2"))
			break
		}
	}
	if needCase && len(mutants) < 3 {
		for _, f := range fl {
			if f.kind == "same" {
				mk("miscasedsetting: a setting names a target field in another spelling (matchIgnoreCase concerns source fields only)", decl, append(append([]string{}, lines...), "ignore "+strings.ToLower(f.tname)))
				break
			}
		}
	}
	if len(mutants) < 3 && rng.Intn(3) == 0 {
		pd := strings.Replace(decl, "type PFXS struct {\n", "type PFXS struct {\n\tPStr *string\n", 1)
		pd = strings.Replace(pd, "type PFXT struct {\n", "type PFXT struct {\n\tViaPtr string\n", 1)
		mk("pathbehindbasicpointer: a mapped path continues behind a pointer to a non-struct", pd, append(append([]string{}, lines...), "map PStr.X ViaPtr"))
	}
	if len(mutants) < 2 {
		mk("unknownignore: goverter:ignore names a field that does not exist", decl, append(append([]string{}, lines...), "ignore NoSuchField"))
	}
	if len(mutants) < 3 {
		mk("unknownmaptarget: goverter:map targets a field that does not exist", decl, append(append([]string{}, lines...), "map "+strings.TrimSpace(strings.Fields(srcFields[0])[0])+" NoSuchField"))
	}
	return cv, mutants
}
