package layerb

import (
	"fmt"
	"go/types"
	"math"
	"os"
	"os/exec"
	"path/filepath"
	"sort"
	"strings"
	"time"

	"verif/engine"
)

// ReplayInfo is everything needed to re-run a path natively: Go statements that build the concrete
// arguments chosen by the solver, the call, and the canonical dump of what the engine computed.
type ReplayInfo struct {
	Unsupported string   `json:"unsupported,omitempty"`
	Imports     []string `json:"imports,omitempty"`
	Stmts       []string `json:"stmts,omitempty"`
	ArgExprs    []string `json:"arg_exprs,omitempty"`
	WantPanic   bool     `json:"want_panic,omitempty"`
	WantResult  string   `json:"want_result,omitempty"`
	WantArgs    string   `json:"want_args_after,omitempty"`
	Hooks       []string `json:"hooks,omitempty"` // statements programming the custom function results
	// Scribble (sharing findings): after the call every piece of mutable memory reachable from the result is
	// overwritten natively; the finding reproduces iff the arguments change
	Scribble bool `json:"scribble,omitempty"`
	// ScribbleArg: for update methods the "result" is what the target argument (index+1; 0 = none) points to
	ScribbleArg int `json:"scribble_arg,omitempty"`
}

type goBuilder struct {
	r      *engine.Run
	model  map[string]uint64
	qual   types.Qualifier
	stmts  []string
	ptrVar map[*engine.Value]string
	slVar  map[*engine.Value]string
	mapVar map[*engine.MapObj]string
	n      int
	bad    string
	funcs  bool
}

func (b *goBuilder) fail(format string, a ...interface{}) string {
	if b.bad == "" {
		b.bad = fmt.Sprintf(format, a...)
	}
	return "nil"
}

func (b *goBuilder) fresh(p string) string { b.n++; return fmt.Sprintf("%s%d", p, b.n) }

func (b *goBuilder) typ(t types.Type) string { return types.TypeString(t, b.qual) }

func (b *goBuilder) termVal(t *engine.Term) (uint64, bool) {
	if t.Const {
		return t.U, true
	}
	if v, ok := b.model[t.S]; ok {
		return v, true
	}
	// symbols absent from the model are unconstrained: any value will do
	if !strings.ContainsAny(t.S, "( ") {
		return 0, true
	}
	return 0, false
}

func signed(u uint64, bits int) int64 {
	if bits >= 64 {
		return int64(u)
	}
	if u&(1<<uint(bits-1)) != 0 {
		return int64(u | ^((uint64(1) << uint(bits)) - 1))
	}
	return int64(u)
}

// atomString gives the concrete string of an atom id.
func atomString(r *engine.Run, id uint64) string {
	if s, ok := r.Ex.AtomLiteral(id); ok {
		return s
	}
	return fmt.Sprintf("atom%d", id)
}

// expr returns a Go expression for v of type t.
func (b *goBuilder) expr(v engine.Value, t types.Type) string {
	t = types.Unalias(t)
	conv := func(lit string) string {
		if _, isBasic := t.(*types.Basic); isBasic {
			return b.typ(t) + "(" + lit + ")"
		}
		return b.typ(t) + "(" + lit + ")"
	}
	switch u := t.Underlying().(type) {
	case *types.Basic:
		switch x := v.(type) {
		case *engine.Term:
			val, ok := b.termVal(x)
			if !ok {
				return b.fail("composite symbolic term in input")
			}
			switch {
			case u.Info()&types.IsBoolean != 0:
				return conv(fmt.Sprint(val == 1))
			case u.Info()&types.IsUnsigned != 0:
				return conv(fmt.Sprintf("%d", val))
			case u.Info()&types.IsInteger != 0:
				return conv(fmt.Sprintf("%d", signed(val, x.Sort.Bits)))
			case u.Kind() == types.Float32:
				return conv(fmt.Sprintf("math.Float32frombits(0x%x)", uint32(val)))
			case u.Kind() == types.Float64:
				return conv(fmt.Sprintf("math.Float64frombits(0x%x)", val))
			}
		case engine.Str:
			if x.Atom != nil {
				val, ok := b.termVal(x.Atom)
				if !ok {
					return b.fail("composite atom")
				}
				return conv(fmt.Sprintf("%q", atomString(b.r, val)))
			}
			bs := make([]byte, len(x.B))
			for i, bt := range x.B {
				val, ok := b.termVal(bt)
				if !ok {
					return b.fail("composite byte")
				}
				bs[i] = byte(val)
			}
			return conv(fmt.Sprintf("%q", string(bs)))
		case engine.Struct: // complex
			re, _ := b.termVal(x[0].(*engine.Term))
			im, _ := b.termVal(x[1].(*engine.Term))
			if u.Kind() == types.Complex64 {
				return conv(fmt.Sprintf("complex(math.Float32frombits(0x%x), math.Float32frombits(0x%x))", uint32(re), uint32(im)))
			}
			return conv(fmt.Sprintf("complex(math.Float64frombits(0x%x), math.Float64frombits(0x%x))", re, im))
		case engine.Pointer:
			if x.Slot == nil {
				return b.typ(t) + "(nil)"
			}
			return b.fail("non-nil unsafe.Pointer")
		}
		return b.fail("basic value %T", v)
	case *types.Pointer:
		p := v.(engine.Pointer)
		if p.Slot == nil {
			return "(" + b.typ(t) + ")(nil)"
		}
		if name, ok := b.ptrVar[p.Slot]; ok {
			return name
		}
		name := b.fresh("p")
		b.ptrVar[p.Slot] = name
		b.stmts = append(b.stmts, fmt.Sprintf("%s := new(%s)", name, b.typ(u.Elem())))
		b.stmts = append(b.stmts, fmt.Sprintf("*%s = %s", name, b.expr(*p.Slot, u.Elem())))
		return name
	case *types.Slice:
		s := v.(engine.Slice)
		if s.Nil {
			return "(" + b.typ(t) + ")(nil)"
		}
		if len(s.Elems) > 0 {
			if name, ok := b.slVar[&s.Elems[0]]; ok {
				return fmt.Sprintf("%s[:%d]", name, s.Len)
			}
		}
		name := b.fresh("s")
		if len(s.Elems) > 0 {
			b.slVar[&s.Elems[0]] = name
		}
		b.stmts = append(b.stmts, fmt.Sprintf("%s := make(%s, %d, %d)", name, b.typ(t), s.Len, len(s.Elems)))
		for i := 0; i < s.Len; i++ {
			b.stmts = append(b.stmts, fmt.Sprintf("%s[%d] = %s", name, i, b.expr(s.Elems[i], u.Elem())))
		}
		return name
	case *types.Array:
		a := v.(engine.Array)
		parts := make([]string, len(a))
		for i := range a {
			parts[i] = b.expr(a[i], u.Elem())
		}
		return b.typ(t) + "{" + strings.Join(parts, ", ") + "}"
	case *types.Map:
		m := v.(engine.Map)
		if m.M == nil {
			return "(" + b.typ(t) + ")(nil)"
		}
		if name, ok := b.mapVar[m.M]; ok {
			return name
		}
		name := b.fresh("m")
		b.mapVar[m.M] = name
		b.stmts = append(b.stmts, fmt.Sprintf("%s := make(%s)", name, b.typ(t)))
		for _, e := range m.M.Entries {
			b.stmts = append(b.stmts, fmt.Sprintf("%s[%s] = %s", name, b.expr(e.K, u.Key()), b.expr(e.V, u.Elem())))
		}
		return name
	case *types.Struct:
		s := v.(engine.Struct)
		var parts []string
		for i := 0; i < u.NumFields(); i++ {
			f := u.Field(i)
			if !f.Exported() {
				continue
			}
			parts = append(parts, f.Name()+": "+b.expr(s[i], f.Type()))
		}
		return b.typ(t) + "{" + strings.Join(parts, ", ") + "}"
	case *types.Interface:
		i := v.(engine.Iface)
		if i.T == nil {
			return "(" + b.typ(t) + ")(nil)"
		}
		if u.NumMethods() == 0 {
			if tv, ok := i.V.(*engine.Term); ok {
				val, _ := b.termVal(tv)
				return b.typ(t) + "(int(" + fmt.Sprint(int64(val)) + "))"
			}
		}
		return b.fail("non-nil interface value")
	case *types.Signature:
		f := v.(engine.Func)
		if f.IsNil() {
			return "(" + b.typ(t) + ")(nil)"
		}
		return b.fail("non-nil func value")
	case *types.Chan:
		c := v.(engine.Chan)
		if c.O == nil {
			return "(" + b.typ(t) + ")(nil)"
		}
		name := b.fresh("c")
		b.stmts = append(b.stmts, fmt.Sprintf("%s := make(%s)", name, b.typ(t)))
		return name
	}
	return b.fail("type %s", t)
}

// dumper produces the canonical dump shared with the native side (see replayDumpSrc).
type dumper struct {
	b     *goBuilder
	ptrID map[*engine.Value]int
	mapID map[*engine.MapObj]int
}

func (d *dumper) dump(sb *strings.Builder, v engine.Value, t types.Type) {
	t = types.Unalias(t)
	switch u := t.Underlying().(type) {
	case *types.Basic:
		switch x := v.(type) {
		case *engine.Term:
			val, ok := d.b.termVal(x)
			if !ok {
				// composite result term: ask nothing, mark
				d.b.fail("composite term in result")
				sb.WriteString("?")
				return
			}
			switch {
			case u.Info()&types.IsBoolean != 0:
				fmt.Fprintf(sb, "%v", val == 1)
			case u.Info()&types.IsUnsigned != 0:
				fmt.Fprintf(sb, "%d", val)
			case u.Info()&types.IsInteger != 0:
				fmt.Fprintf(sb, "%d", signed(val, x.Sort.Bits))
			case u.Kind() == types.Float32:
				fmt.Fprintf(sb, "f%x", uint64(math.Float32bits(math.Float32frombits(uint32(val)))))
			default:
				fmt.Fprintf(sb, "f%x", val)
			}
		case engine.Str:
			if x.Atom != nil {
				val, ok := d.b.termVal(x.Atom)
				if !ok {
					d.b.fail("composite atom in result")
				}
				fmt.Fprintf(sb, "%q", atomString(d.b.r, val))
				return
			}
			bs := make([]byte, len(x.B))
			for i, bt := range x.B {
				val, _ := d.b.termVal(bt)
				bs[i] = byte(val)
			}
			fmt.Fprintf(sb, "%q", string(bs))
		case engine.Struct:
			re, _ := d.b.termVal(x[0].(*engine.Term))
			im, _ := d.b.termVal(x[1].(*engine.Term))
			fmt.Fprintf(sb, "c(%x,%x)", re, im)
		case engine.Pointer:
			if x.Slot == nil {
				sb.WriteString("nil")
			} else {
				sb.WriteString("up")
			}
		default:
			sb.WriteString("?")
		}
	case *types.Pointer:
		p := v.(engine.Pointer)
		if p.Slot == nil {
			sb.WriteString("nil")
			return
		}
		if id, ok := d.ptrID[p.Slot]; ok {
			fmt.Fprintf(sb, "&#%d", id)
			return
		}
		id := len(d.ptrID) + 1
		d.ptrID[p.Slot] = id
		fmt.Fprintf(sb, "&#%d:", id)
		d.dump(sb, *p.Slot, u.Elem())
	case *types.Slice:
		s := v.(engine.Slice)
		if s.Nil {
			sb.WriteString("nil")
			return
		}
		sb.WriteString("[")
		for i := 0; i < s.Len; i++ {
			if i > 0 {
				sb.WriteString(" ")
			}
			if id, ok := d.ptrID[&s.Elems[i]]; ok {
				fmt.Fprintf(sb, "@%d=", id)
			} else {
				id := len(d.ptrID) + 1
				d.ptrID[&s.Elems[i]] = id
				fmt.Fprintf(sb, "@%d=", id)
			}
			d.dump(sb, s.Elems[i], u.Elem())
		}
		sb.WriteString("]")
	case *types.Array:
		a := v.(engine.Array)
		sb.WriteString("(")
		for i := range a {
			if i > 0 {
				sb.WriteString(" ")
			}
			d.dump(sb, a[i], u.Elem())
		}
		sb.WriteString(")")
	case *types.Map:
		m := v.(engine.Map)
		if m.M == nil {
			sb.WriteString("nil")
			return
		}
		id, seen := d.mapID[m.M]
		if !seen {
			id = len(d.mapID) + 1
			d.mapID[m.M] = id
		}
		fmt.Fprintf(sb, "map#%d{", id)
		// entries in the order of their (scratch-dumped) keys, so that the numbering of the pointers and maps
		// met in the values does not depend on the iteration order
		type kent struct {
			key string
			e   *engine.MapEntry
		}
		var order []kent
		for _, e := range m.M.Entries {
			scratch := &dumper{b: d.b, ptrID: map[*engine.Value]int{}, mapID: map[*engine.MapObj]int{}}
			for k, v := range d.ptrID {
				scratch.ptrID[k] = v
			}
			for k, v := range d.mapID {
				scratch.mapID[k] = v
			}
			var kb strings.Builder
			scratch.dump(&kb, e.K, u.Key())
			order = append(order, kent{kb.String(), e})
		}
		sort.SliceStable(order, func(i, j int) bool { return order[i].key < order[j].key })
		var ents []string
		for _, ke := range order {
			var eb strings.Builder
			d.dump(&eb, ke.e.K, u.Key())
			eb.WriteString(":")
			d.dump(&eb, ke.e.V, u.Elem())
			ents = append(ents, eb.String())
		}
		sb.WriteString(strings.Join(ents, " "))
		sb.WriteString("}")
	case *types.Struct:
		s := v.(engine.Struct)
		sb.WriteString("{")
		first := true
		for i := 0; i < u.NumFields(); i++ {
			if !u.Field(i).Exported() {
				continue
			}
			if !first {
				sb.WriteString(" ")
			}
			first = false
			d.dump(sb, s[i], u.Field(i).Type())
		}
		sb.WriteString("}")
	case *types.Interface:
		i := v.(engine.Iface)
		if i.T == nil {
			sb.WriteString("nil")
			return
		}
		if isErrorType(t) {
			sb.WriteString("error")
			return
		}
		if tv, ok := i.V.(*engine.Term); ok {
			val, _ := d.b.termVal(tv)
			fmt.Fprintf(sb, "i(%d)", int64(val))
			return
		}
		sb.WriteString("iface")
	case *types.Signature:
		if v.(engine.Func).IsNil() {
			sb.WriteString("nil")
		} else {
			sb.WriteString("func")
		}
	case *types.Chan:
		if v.(engine.Chan).O == nil {
			sb.WriteString("nil")
		} else {
			sb.WriteString("chan")
		}
	default:
		sb.WriteString("?")
	}
}

// BuildReplay prepares the native replay of the current path under the model.
func BuildReplay(pc *PathCtx, model map[string]uint64) *ReplayInfo {
	ri := &ReplayInfo{}
	inPath := pc.T.InPkg.Pkg.Path()
	extra := map[string]string{}
	qual := func(p *types.Package) string {
		if p.Path() == inPath {
			return "in"
		}
		if strings.HasPrefix(p.Path(), corpusModule+"/") {
			if a, ok := extra[p.Path()]; ok {
				return a
			}
			a := fmt.Sprintf("aux%d", len(extra)+1)
			extra[p.Path()] = a
			return a
		}
		return "UNSUPPORTEDPKG_" + p.Name()
	}
	b := &goBuilder{r: pc.R, model: model, qual: qual, ptrVar: map[*engine.Value]string{}, slVar: map[*engine.Value]string{}, mapVar: map[*engine.MapObj]string{}}
	if model == nil {
		b.model = map[string]uint64{}
	}
	// the engine mutated update targets: arguments are rebuilt from the pre-state where we have it
	params := pc.T.Sig.Params()
	pre := pc.ArgsPre
	if len(pre) != len(pc.Args) {
		pre = pc.Args
	}
	for i, a := range pre {
		ri.ArgExprs = append(ri.ArgExprs, b.expr(a, params.At(i).Type()))
	}
	// results of the custom functions, in call order, programmed through VerifHook
	for k, c := range pc.Calls.Calls {
		if c.Fn.Pkg == nil || c.Fn.Pkg.Pkg.Path() != inPath {
			ri.Unsupported = "custom function of another package (" + c.Name + "): native replay not available"
			break
		}
		var as []string
		res := c.Fn.Signature.Results()
		oi := 0
		for j := 0; j < res.Len(); j++ {
			rt := res.At(j).Type()
			if isErrorType(rt) {
				if c.Failed {
					as = append(as, fmt.Sprintf("*(outs[%d].(*error)) = fmt.Errorf(\"custom failure %d\")", j, k))
				}
				continue
			}
			as = append(as, fmt.Sprintf("*(outs[%d].(*%s)) = %s", j, b.typ(rt), b.expr(c.Result, rt)))
			oi++
		}
		if c.Repeats > 0 {
			ri.Unsupported = "a custom function is called repeatedly with identical arguments (assumed pure): native replay not available"
		}
		ri.Hooks = append(ri.Hooks, fmt.Sprintf("case %d:\n\t\t\tif name != %q {\n\t\t\t\tfmt.Println(\"VERIF-REPLAY-MISMATCH call\", calls, name)\n\t\t\t}\n\t\t\t%s", k, c.Name, strings.Join(as, "\n\t\t\t")))
	}
	ri.Stmts = b.stmts
	for path, alias := range extra {
		ri.Imports = append(ri.Imports, fmt.Sprintf("%s %q", alias, path))
	}
	sort.Strings(ri.Imports)
	if strings.Contains(strings.Join(append(ri.Stmts, ri.ArgExprs...), " "), "UNSUPPORTEDPKG_") {
		ri.Unsupported = "types of a third package in the signature"
	}
	d := &dumper{b: b, ptrID: map[*engine.Value]int{}, mapID: map[*engine.MapObj]int{}}
	var ab strings.Builder
	for i, a := range pc.Args {
		if i > 0 {
			ab.WriteString(" ; ")
		}
		d.dump(&ab, a, params.At(i).Type())
	}
	ri.WantArgs = ab.String()
	if pc.Panic != nil {
		ri.WantPanic = true
	} else {
		var rb strings.Builder
		res := pc.T.Sig.Results()
		switch res.Len() {
		case 1:
			if pc.HasErr {
				d.dump(&rb, pc.Err, res.At(0).Type())
			} else {
				d.dump(&rb, pc.Ret, res.At(0).Type())
			}
		case 2:
			d.dump(&rb, pc.Ret, res.At(0).Type())
			rb.WriteString(" ; ")
			d.dump(&rb, pc.Err, res.At(1).Type())
		}
		ri.WantResult = rb.String()
	}
	if b.bad != "" && ri.Unsupported == "" {
		ri.Unsupported = b.bad
	}
	return ri
}

const replayDumpSrc = `
type verifIDs struct {
	ptr map[uintptr]int
	mp  map[uintptr]int
}

func verifDump(ids *verifIDs, sb *strings.Builder, v reflect.Value) {
	switch v.Kind() {
	case reflect.Bool:
		fmt.Fprintf(sb, "%v", v.Bool())
	case reflect.Int, reflect.Int8, reflect.Int16, reflect.Int32, reflect.Int64:
		fmt.Fprintf(sb, "%d", v.Int())
	case reflect.Uint, reflect.Uint8, reflect.Uint16, reflect.Uint32, reflect.Uint64, reflect.Uintptr:
		fmt.Fprintf(sb, "%d", v.Uint())
	case reflect.Float32:
		fmt.Fprintf(sb, "f%x", uint64(math.Float32bits(float32(v.Float()))))
	case reflect.Float64:
		fmt.Fprintf(sb, "f%x", math.Float64bits(v.Float()))
	case reflect.Complex64:
		c := v.Complex()
		fmt.Fprintf(sb, "c(%x,%x)", uint64(math.Float32bits(float32(real(c)))), uint64(math.Float32bits(float32(imag(c)))))
	case reflect.Complex128:
		c := v.Complex()
		fmt.Fprintf(sb, "c(%x,%x)", math.Float64bits(real(c)), math.Float64bits(imag(c)))
	case reflect.String:
		fmt.Fprintf(sb, "%q", v.String())
	case reflect.UnsafePointer:
		if v.IsNil() {
			sb.WriteString("nil")
		} else {
			sb.WriteString("up")
		}
	case reflect.Ptr:
		if v.IsNil() {
			sb.WriteString("nil")
			return
		}
		if id, ok := ids.ptr[v.Pointer()]; ok && v.Elem().Type().Size() > 0 {
			fmt.Fprintf(sb, "&#%d", id)
			return
		}
		id := len(ids.ptr) + 1
		ids.ptr[v.Pointer()] = id
		fmt.Fprintf(sb, "&#%d:", id)
		verifDump(ids, sb, v.Elem())
	case reflect.Slice:
		if v.IsNil() {
			sb.WriteString("nil")
			return
		}
		sb.WriteString("[")
		for i := 0; i < v.Len(); i++ {
			if i > 0 {
				sb.WriteString(" ")
			}
			addr := v.Index(i).Addr().Pointer()
			id, ok := ids.ptr[addr]
			if !ok || v.Index(i).Type().Size() == 0 {
				id = len(ids.ptr) + 1
				ids.ptr[addr] = id
			}
			fmt.Fprintf(sb, "@%d=", id)
			verifDump(ids, sb, v.Index(i))
		}
		sb.WriteString("]")
	case reflect.Array:
		sb.WriteString("(")
		for i := 0; i < v.Len(); i++ {
			if i > 0 {
				sb.WriteString(" ")
			}
			verifDump(ids, sb, v.Index(i))
		}
		sb.WriteString(")")
	case reflect.Map:
		if v.IsNil() {
			sb.WriteString("nil")
			return
		}
		id, seen := ids.mp[v.Pointer()]
		if !seen {
			id = len(ids.mp) + 1
			ids.mp[v.Pointer()] = id
		}
		fmt.Fprintf(sb, "map#%d{", id)
		type kent struct {
			key  string
			k, v reflect.Value
		}
		var order []kent
		it := v.MapRange()
		for it.Next() {
			scratch := &verifIDs{ptr: map[uintptr]int{}, mp: map[uintptr]int{}}
			for k, x := range ids.ptr {
				scratch.ptr[k] = x
			}
			for k, x := range ids.mp {
				scratch.mp[k] = x
			}
			var kb strings.Builder
			verifDump(scratch, &kb, it.Key())
			order = append(order, kent{kb.String(), it.Key(), it.Value()})
		}
		sort.SliceStable(order, func(i, j int) bool { return order[i].key < order[j].key })
		var ents []string
		for _, ke := range order {
			var eb strings.Builder
			verifDump(ids, &eb, ke.k)
			eb.WriteString(":")
			verifDump(ids, &eb, ke.v)
			ents = append(ents, eb.String())
		}
		sb.WriteString(strings.Join(ents, " "))
		sb.WriteString("}")
	case reflect.Struct:
		sb.WriteString("{")
		first := true
		for i := 0; i < v.NumField(); i++ {
			if !v.Type().Field(i).IsExported() {
				continue
			}
			if !first {
				sb.WriteString(" ")
			}
			first = false
			verifDump(ids, sb, v.Field(i))
		}
		sb.WriteString("}")
	case reflect.Interface:
		if v.IsNil() {
			sb.WriteString("nil")
			return
		}
		if _, ok := v.Interface().(error); ok {
			sb.WriteString("error")
			return
		}
		if i, ok := v.Interface().(int); ok {
			fmt.Fprintf(sb, "i(%d)", i)
			return
		}
		sb.WriteString("iface")
	case reflect.Func:
		if v.IsNil() {
			sb.WriteString("nil")
		} else {
			sb.WriteString("func")
		}
	case reflect.Chan:
		if v.IsNil() {
			sb.WriteString("nil")
		} else {
			sb.WriteString("chan")
		}
	default:
		sb.WriteString("?")
	}
}

// verifScribble overwrites all mutable memory reachable from v.
func verifScribble(v reflect.Value, seen map[uintptr]bool, depth int) {
	if depth > 40 {
		return
	}
	switch v.Kind() {
	case reflect.Interface:
		// the boxed value itself is a copy; what it refers to is reachable
		if !v.IsNil() {
			verifScribble(v.Elem(), seen, depth+1)
		}
	case reflect.Ptr:
		if v.IsNil() || seen[v.Pointer()] {
			return
		}
		seen[v.Pointer()] = true
		verifScribble(v.Elem(), seen, depth+1)
	case reflect.Slice:
		for i := 0; i < v.Len(); i++ {
			verifScribble(v.Index(i), seen, depth+1)
		}
		// the slice header itself, where it lives in memory that can be written (behind a pointer, in a struct)
		if v.CanSet() {
			v.Set(reflect.MakeSlice(v.Type(), v.Len()+1, v.Len()+1))
		}
	case reflect.Array:
		for i := 0; i < v.Len(); i++ {
			verifScribble(v.Index(i), seen, depth+1)
		}
	case reflect.Struct:
		for i := 0; i < v.NumField(); i++ {
			if v.Type().Field(i).IsExported() {
				verifScribble(v.Field(i), seen, depth+1)
			}
		}
	case reflect.Map:
		if v.IsNil() {
			return
		}
		for _, k := range v.MapKeys() {
			verifScribble(k, seen, depth+1)
			verifScribble(v.MapIndex(k), seen, depth+1)
		}
		for _, k := range v.MapKeys() {
			v.SetMapIndex(k, reflect.Value{})
		}
		// ... and a new entry is inserted (an empty shared map is shared as well)
		nk := reflect.New(v.Type().Key()).Elem()
		for try := 0; try < 4; try++ {
			verifScribble(nk, map[uintptr]bool{}, depth+1)
			if !v.MapIndex(nk).IsValid() {
				v.SetMapIndex(nk, reflect.Zero(v.Type().Elem()))
				break
			}
		}
	case reflect.Bool:
		if v.CanSet() {
			v.SetBool(!v.Bool())
		}
	case reflect.Int, reflect.Int8, reflect.Int16, reflect.Int32, reflect.Int64:
		if v.CanSet() {
			v.SetInt(v.Int() ^ 1)
		}
	case reflect.Uint, reflect.Uint8, reflect.Uint16, reflect.Uint32, reflect.Uint64, reflect.Uintptr:
		if v.CanSet() {
			v.SetUint(v.Uint() ^ 1)
		}
	case reflect.Float32, reflect.Float64:
		if v.CanSet() {
			if v.Float() == 1 {
				v.SetFloat(2)
			} else {
				v.SetFloat(1)
			}
		}
	case reflect.String:
		if v.CanSet() {
			v.SetString(v.String() + "~")
		}
	}
}

func verifDumpAll(ids *verifIDs, vals ...any) string {
	var sb strings.Builder
	for i, v := range vals {
		if i > 0 {
			sb.WriteString(" ; ")
		}
		rv := reflect.ValueOf(v)
		if !rv.IsValid() {
			sb.WriteString("nil")
			continue
		}
		// values are passed as pointers to keep their static type
		verifDump(ids, &sb, rv.Elem())
	}
	return sb.String()
}
`

// TestSource renders the native replay test for a conv.
func (ri *ReplayInfo) TestSource(cv *Conv, t *Target) string {
	var sb strings.Builder
	pkg := filepath.Base(cv.Group)
	fmt.Fprintf(&sb, "package %s_test\n\nimport (\n\t\"fmt\"\n\t\"math\"\n\t\"reflect\"\n\t\"sort\"\n\t\"strings\"\n\t\"testing\"\n\n\tin \"%s/%s\"\n", pkg, corpusModule, cv.Group)
	call := ""
	nres := t.Sig.Results().Len()
	args := strings.Join(ri.ArgExprs, ", ")
	switch cv.Format {
	case "variable":
		call = fmt.Sprintf("in.%s(%s)", cv.Method, args)
	case "function":
		fmt.Fprintf(&sb, "\tgen \"%s/%s/generated\"\n", corpusModule, cv.Group)
		call = fmt.Sprintf("gen.%s(%s)", cv.Method, args)
	default:
		fmt.Fprintf(&sb, "\tgen \"%s/%s/generated\"\n", corpusModule, cv.Group)
		impl := cv.Name + "Impl"
		if cv.Spec != nil && cv.Spec.ImplName != "" {
			impl = cv.Spec.ImplName
		}
		call = fmt.Sprintf("(&gen.%s{}).%s(%s)", impl, cv.Method, args)
	}
	for _, im := range ri.Imports {
		sb.WriteString("\t" + im + "\n")
	}
	sb.WriteString(")\n\nvar _ = math.Abs\n")
	if fe := firstExported(t); fe != "" {
		sb.WriteString("var _ in." + fe + "\n")
	} else {
		sb.WriteString("var _ = in.VerifHook\n")
	}
	sb.WriteString(replayDumpSrc)
	sb.WriteString("\nfunc TestVerifReplay(t *testing.T) {\n")
	for _, s := range ri.Stmts {
		sb.WriteString("\t" + s + "\n")
	}
	// bind arguments to variables so their addresses are stable
	var names []string
	for i, a := range ri.ArgExprs {
		n := fmt.Sprintf("arg%d", i)
		fmt.Fprintf(&sb, "\t%s := %s\n", n, a)
		names = append(names, n)
	}
	call = strings.Replace(call, "("+args+")", "("+strings.Join(names, ", ")+")", 1)
	if len(ri.Hooks) > 0 {
		sb.WriteString("\tcalls := 0\n\tin.VerifHook = func(name string, outs ...any) {\n\t\tswitch calls {\n")
		for _, h := range ri.Hooks {
			sb.WriteString("\t\t" + h + "\n")
		}
		sb.WriteString("\t\tdefault:\n\t\t\tfmt.Println(\"VERIF-REPLAY-MISMATCH extra call\", name)\n\t\t}\n\t\tcalls++\n\t}\n")
	}
	sb.WriteString("\tids := &verifIDs{ptr: map[uintptr]int{}, mp: map[uintptr]int{}}\n")
	var argPtrs []string
	for _, n := range names {
		argPtrs = append(argPtrs, "&"+n)
	}
	fmt.Fprintf(&sb, "\t_ = verifDumpAll(ids, %s)\n", strings.Join(argPtrs, ", "))
	sb.WriteString("\tfunc() {\n\t\tdefer func() {\n\t\t\tif r := recover(); r != nil {\n\t\t\t\tfmt.Printf(\"VERIF-PANIC %v\\n\", r)\n\t\t\t}\n\t\t}()\n")
	if ri.Scribble && ri.ScribbleArg > 0 && ri.ScribbleArg <= len(names) {
		// update method: overwrite what the target argument points to, the other arguments must not change
		var others []string
		for i, n := range names {
			if i != ri.ScribbleArg-1 {
				others = append(others, "&"+n)
			}
		}
		lhs := ""
		switch nres {
		case 1:
			lhs = "_ = "
		case 2:
			lhs = "_, _ = "
		}
		fmt.Fprintf(&sb, "\t\tidsB := &verifIDs{ptr: map[uintptr]int{}, mp: map[uintptr]int{}}\n\t\tbefore := verifDumpAll(idsB, %s)\n\t\t%s%s\n\t\tverifScribble(reflect.ValueOf(&%s).Elem(), map[uintptr]bool{}, 0)\n\t\tidsA := &verifIDs{ptr: map[uintptr]int{}, mp: map[uintptr]int{}}\n\t\tif after := verifDumpAll(idsA, %s); after != before {\n\t\t\tfmt.Println(\"VERIF-SHARED arguments changed when the target was overwritten: \" + before + \" => \" + after)\n\t\t}\n\t\tfmt.Println(\"VERIF-RESULT scribbled\")\n", strings.Join(others, ", "), lhs, call, names[ri.ScribbleArg-1], strings.Join(others, ", "))
		nres = -1
	}
	switch nres {
	case -1:
	case 0:
		fmt.Fprintf(&sb, "\t\t%s\n\t\tfmt.Println(\"VERIF-RESULT\")\n", call)
	case 1:
		if ri.Scribble {
			fmt.Fprintf(&sb, "\t\tidsB := &verifIDs{ptr: map[uintptr]int{}, mp: map[uintptr]int{}}\n\t\tbefore := verifDumpAll(idsB, %s)\n\t\tr0 := %s\n\t\tverifScribble(reflect.ValueOf(&r0).Elem(), map[uintptr]bool{}, 0)\n\t\tidsA := &verifIDs{ptr: map[uintptr]int{}, mp: map[uintptr]int{}}\n\t\tif after := verifDumpAll(idsA, %s); after != before {\n\t\t\tfmt.Println(\"VERIF-SHARED arguments changed when the result was overwritten: \" + before + \" => \" + after)\n\t\t}\n\t\tfmt.Println(\"VERIF-RESULT scribbled\")\n", strings.Join(argPtrs, ", "), call, strings.Join(argPtrs, ", "))
			break
		}
		fmt.Fprintf(&sb, "\t\tr0 := %s\n\t\tfmt.Println(\"VERIF-RESULT \" + verifDumpAll(ids, &r0))\n", call)
	default:
		if ri.Scribble {
			fmt.Fprintf(&sb, "\t\tidsB := &verifIDs{ptr: map[uintptr]int{}, mp: map[uintptr]int{}}\n\t\tbefore := verifDumpAll(idsB, %s)\n\t\tr0, r1 := %s\n\t\t_ = r1\n\t\tverifScribble(reflect.ValueOf(&r0).Elem(), map[uintptr]bool{}, 0)\n\t\tidsA := &verifIDs{ptr: map[uintptr]int{}, mp: map[uintptr]int{}}\n\t\tif after := verifDumpAll(idsA, %s); after != before {\n\t\t\tfmt.Println(\"VERIF-SHARED arguments changed when the result was overwritten: \" + before + \" => \" + after)\n\t\t}\n\t\tfmt.Println(\"VERIF-RESULT scribbled\")\n", strings.Join(argPtrs, ", "), call, strings.Join(argPtrs, ", "))
			break
		}
		fmt.Fprintf(&sb, "\t\tr0, r1 := %s\n\t\tfmt.Println(\"VERIF-RESULT \" + verifDumpAll(ids, &r0, &r1))\n", call)
	}
	sb.WriteString("\t}()\n")
	sb.WriteString("\tids2 := &verifIDs{ptr: map[uintptr]int{}, mp: map[uintptr]int{}}\n")
	fmt.Fprintf(&sb, "\tfmt.Println(\"VERIF-ARGS \" + verifDumpAll(ids2, %s))\n", strings.Join(argPtrs, ", "))
	sb.WriteString("}\n")
	return sb.String()
}

func firstExported(t *Target) string {
	names := t.InPkg.Pkg.Scope().Names()
	for _, n := range names {
		if obj, ok := t.InPkg.Pkg.Scope().Lookup(n).(*types.TypeName); ok && obj.Exported() {
			return n
		}
	}
	return ""
}

// Replay runs the native replay of a finding inside the corpus module and copies the material to dir.
// Result: "reproduced", "not-reproduced", "unsupported: ...".
func (d *Driver) Replay(f *Finding, dir string) (string, string) {
	if f.Replay == nil {
		return "unsupported: no replay information", ""
	}
	if f.Replay.Unsupported != "" {
		return "unsupported: " + f.Replay.Unsupported, ""
	}
	var cv *Conv
	for _, c := range d.C.Convs {
		if c.ID == f.Conv {
			cv = c
		}
	}
	if cv == nil {
		return "unsupported: conv not found", ""
	}
	t, err := d.target(cv)
	if err != nil {
		return "unsupported: " + err.Error(), ""
	}
	if f.Kind == "sharing" && !f.Replay.WantPanic {
		f.Replay.Scribble = true
		if t.Sig.Results().Len() == 0 || (t.Sig.Results().Len() == 1 && isErrorType(t.Sig.Results().At(0).Type())) {
			for i := 0; i < t.Sig.Params().Len(); i++ {
				if paramRole(t.Sig.Params().At(i).Name()) == "target" {
					f.Replay.ScribbleArg = i + 1
				}
			}
		}
	}
	src := f.Replay.TestSource(cv, t)
	testFile := filepath.Join(d.C.Dir, cv.Group, "zz_verif_replay_test.go")
	if err := os.WriteFile(testFile, []byte(src), 0o644); err != nil {
		return "unsupported: " + err.Error(), ""
	}
	defer os.Remove(testFile)
	os.MkdirAll(dir, 0o755)
	os.WriteFile(filepath.Join(dir, "zz_verif_replay_test.go.txt"), []byte(src), 0o644)
	cmd := exec.Command("go", "test", "-vet=off", "-count=1", "-run", "TestVerifReplay", "-v", "./"+cv.Group)
	cmd.Dir = d.C.Dir
	cmd.Env = append(os.Environ(), "GOFLAGS=-mod=mod", "GOPROXY=off", "GOSUMDB=off", "GOTOOLCHAIN=local")
	done := make(chan struct{})
	var out []byte
	go func() { out, _ = cmd.CombinedOutput(); close(done) }()
	select {
	case <-done:
	case <-time.After(3 * time.Minute):
		cmd.Process.Kill()
		<-done
	}
	output := string(out)
	os.WriteFile(filepath.Join(dir, "replay.out"), out, 0o644)
	gotPanic := strings.Contains(output, "VERIF-PANIC") || strings.Contains(output, "fatal error: stack overflow")
	gotResult, gotArgs := "", ""
	for _, line := range strings.Split(output, "\n") {
		if strings.HasPrefix(line, "VERIF-RESULT") {
			gotResult = strings.TrimSpace(strings.TrimPrefix(line, "VERIF-RESULT"))
		}
		if strings.HasPrefix(line, "VERIF-ARGS") {
			gotArgs = strings.TrimSpace(strings.TrimPrefix(line, "VERIF-ARGS"))
		}
	}
	if strings.Contains(output, "VERIF-REPLAY-MISMATCH") {
		return "not-reproduced", "the native run calls custom functions differently: " + output
	}
	if !strings.Contains(output, "VERIF-") {
		return "unsupported: replay test did not run: " + firstLineOf(output), output
	}
	detail := fmt.Sprintf("engine: panic=%v result=%s args=%s\nnative: panic=%v result=%s args=%s", f.Replay.WantPanic, f.Replay.WantResult, f.Replay.WantArgs, gotPanic, gotResult, gotArgs)
	os.WriteFile(filepath.Join(dir, "replay.cmp"), []byte(detail), 0o644)
	if f.Replay.Scribble {
		if strings.Contains(output, "VERIF-SHARED") {
			return "reproduced", detail + "\n(native mutation of the result changed the arguments)"
		}
		return "not-reproduced", detail
	}
	if f.Replay.WantPanic {
		if gotPanic {
			return "reproduced", detail
		}
		return "not-reproduced", detail
	}
	if gotPanic {
		return "not-reproduced", detail
	}
	if gotResult == f.Replay.WantResult && gotArgs == f.Replay.WantArgs {
		return "reproduced", detail
	}
	return "not-reproduced", detail
}

func firstLineOf(s string) string {
	s = strings.TrimSpace(s)
	if i := strings.IndexByte(s, '\n'); i >= 0 {
		return s[:i]
	}
	return s
}
