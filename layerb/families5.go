package layerb

import "strings"

type fieldCase struct {
	Name     string
	Decls    string
	Src      string
	Tgt      string
	Lines    []string // method lines
	Conv     []string // converter lines
	Extra    string   // extra methods (interface syntax; "func" inserted for variables)
	Pairs    map[string]*PairSpec
	Fail     string
	ZeroNil  bool
	Formats  []string
	Aux      map[string]string // auxiliary packages (directory -> source)
	Imports  []string
	Custom   map[string]string // pairs served by custom functions
	SkipCopy bool              // skipCopySameType in effect (sharing oracle)
}

func fs(path ...string) *FieldSpec { return &FieldSpec{Path: path} }

func fieldCases() []fieldCase {
	in := "type PFXIn struct {\n\tName string\n\tAge int\n\tNested PFXN\n\tPN *PFXN\n\tPP *PFXP\n}\ntype PFXN struct {\n\tLast string\n\tStreet string\n\tDeep PFXD\n}\ntype PFXD struct{ Zip int }\ntype PFXP struct{ Inner *PFXN }\n"
	return []fieldCase{
		{Name: "rename", Decls: in + "type PFXOut struct {\n\tTitle string\n\tAge int\n}\n", Src: "PFXIn", Tgt: "PFXOut",
			Lines: []string{"map Name Title"},
			Pairs: map[string]*PairSpec{"PFXIn→PFXOut": {Fields: map[string]*FieldSpec{"Title": fs("Name")}}}},
		{Name: "path", Decls: in + "type PFXOut struct {\n\tSurname string\n\tZip int\n\tAge int\n}\n", Src: "PFXIn", Tgt: "PFXOut",
			Lines: []string{"map Nested.Last Surname", "map Nested.Deep.Zip Zip"},
			Pairs: map[string]*PairSpec{"PFXIn→PFXOut": {Fields: map[string]*FieldSpec{"Surname": fs("Nested", "Last"), "Zip": fs("Nested", "Deep", "Zip")}}}},
		{Name: "path_ptr_to_ptr", Decls: in + "type PFXOut struct {\n\tSurname *string\n\tZip *int\n\tAge int\n}\n", Src: "PFXIn", Tgt: "PFXOut",
			Lines: []string{"map PN.Last Surname", "map PP.Inner.Deep.Zip Zip"},
			Pairs: map[string]*PairSpec{"PFXIn→PFXOut": {Fields: map[string]*FieldSpec{"Surname": fs("PN", "Last"), "Zip": fs("PP", "Inner", "Deep", "Zip")}}}},
		{Name: "path_ptr_to_value", Decls: in + "type PFXOut struct {\n\tSurname string\n\tZip int\n\tAge int\n}\n", Src: "PFXIn", Tgt: "PFXOut",
			Lines: []string{"map PN.Last Surname", "map PP.Inner.Deep.Zip Zip", "useZeroValueOnPointerInconsistency"}, ZeroNil: true,
			Pairs: map[string]*PairSpec{"PFXIn→PFXOut": {Fields: map[string]*FieldSpec{"Surname": fs("PN", "Last"), "Zip": fs("PP", "Inner", "Deep", "Zip")}}}},
		{Name: "path_ptr_struct", Decls: in + "type PFXOut struct {\n\tSub *PFXNT\n\tAge int\n}\ntype PFXNT struct {\n\tLast string\n\tStreet string\n}\n", Src: "PFXIn", Tgt: "PFXOut",
			Lines: []string{"map PP.Inner Sub"},
			Extra: "\t// goverter:ignore nothing_PLACEHOLDER\n",
			Pairs: map[string]*PairSpec{"PFXIn→PFXOut": {Fields: map[string]*FieldSpec{"Sub": fs("PP", "Inner")}}}},
		{Name: "whole", Decls: in + "type PFXOut struct {\n\tFlat PFXFlat\n\tAge int\n}\ntype PFXFlat struct {\n\tName string\n\tAge int\n}\n", Src: "PFXIn", Tgt: "PFXOut",
			Lines: []string{"map . Flat"},
			Pairs: map[string]*PairSpec{"PFXIn→PFXOut": {Fields: map[string]*FieldSpec{"Flat": {Whole: true}}}}},
		{Name: "whole_ptr_source", Decls: in + "type PFXOut struct {\n\tFlat PFXFlat\n\tAge int\n}\ntype PFXFlat struct {\n\tName string\n\tAge int\n}\n", Src: "*PFXIn", Tgt: "*PFXOut",
			Lines: []string{"map . Flat"},
			Pairs: map[string]*PairSpec{"PFXIn→PFXOut": {Fields: map[string]*FieldSpec{"Flat": {Whole: true}}}}},
		{Name: "ignore", Decls: in + "type PFXOut struct {\n\tName string\n\tAge int\n\tSecret string\n\tOther *int\n}\n", Src: "PFXIn", Tgt: "PFXOut",
			Lines: []string{"ignore Secret Other", "ignore Age"},
			Pairs: map[string]*PairSpec{"PFXIn→PFXOut": {Fields: map[string]*FieldSpec{"Secret": {Ignore: true}, "Other": {Ignore: true}, "Age": {Ignore: true}}}}},
		{Name: "automap", Decls: in + "type PFXOut struct {\n\tName string\n\tLast string\n\tStreet string\n}\n", Src: "PFXIn", Tgt: "PFXOut",
			Lines: []string{"autoMap Nested"},
			Pairs: map[string]*PairSpec{"PFXIn→PFXOut": {Fields: map[string]*FieldSpec{"Last": fs("Nested", "Last"), "Street": fs("Nested", "Street")}}}},
		// the argument-less methods of a struct flattened by autoMap are sources like its fields (by value and behind
		// a pointer)
		{Name: "automap_getter_of_flattened_struct", Decls: "type PFXMeta struct{ Rev int }\n\nfunc (m PFXMeta) Title() string { return \"\" }\n\ntype PFXIn struct {\n\tName string\n\tMeta PFXMeta\n}\ntype PFXOut struct {\n\tName string\n\tTitle string\n\tRev int\n}\n", Src: "PFXIn", Tgt: "PFXOut",
			Lines: []string{"autoMap Meta"},
			Pairs: map[string]*PairSpec{"PFXIn→PFXOut": {Fields: map[string]*FieldSpec{"Title": {Via: "PFXMeta.Title", Path: []string{"Meta"}}, "Rev": fs("Meta", "Rev")}}}},
		{Name: "automap_getter_of_flattened_struct_ignorecase", Decls: "type PFXMeta struct{ Rev int }\n\nfunc (m PFXMeta) Title() string { return \"\" }\n\ntype PFXIn struct {\n\tName string\n\tMeta PFXMeta\n}\ntype PFXOut struct {\n\tName string\n\tTitle string\n\tREV int\n}\n", Src: "PFXIn", Tgt: "PFXOut",
			Lines: []string{"autoMap Meta", "matchIgnoreCase"},
			Pairs: map[string]*PairSpec{"PFXIn→PFXOut": {Fields: map[string]*FieldSpec{"Title": {Via: "PFXMeta.Title", Path: []string{"Meta"}}, "REV": fs("Meta", "Rev")}}}},
		// autoMap concerns the method's own struct pair, not unnamed structs nested in it
		{Name: "automap_with_nested_unnamed", Decls: in + "type PFXIn2 struct {\n\tName string\n\tNested PFXN\n\tMeta struct{ Zip int }\n\tL []struct{ Zip int }\n}\ntype PFXOut struct {\n\tName string\n\tLast string\n\tMeta struct{ Zip int }\n\tL []struct{ Zip int }\n}\n", Src: "PFXIn2", Tgt: "PFXOut",
			Lines: []string{"autoMap Nested", "ignoreMissing"},
			Pairs: map[string]*PairSpec{"PFXIn2→PFXOut": {IgnoreMissing: true, Fields: map[string]*FieldSpec{"Last": fs("Nested", "Last")}}}},
		{Name: "automap_deep", Decls: in + "type PFXOut struct {\n\tName string\n\tZip int\n}\n", Src: "PFXIn", Tgt: "PFXOut",
			Lines: []string{"autoMap Nested.Deep"},
			Pairs: map[string]*PairSpec{"PFXIn→PFXOut": {Fields: map[string]*FieldSpec{"Zip": fs("Nested", "Deep", "Zip")}}}},
		{Name: "automap_ptr", Decls: in + "type PFXOut struct {\n\tName string\n\tLast *string\n\tStreet *string\n}\n", Src: "PFXIn", Tgt: "PFXOut",
			Lines: []string{"autoMap PN"},
			Pairs: map[string]*PairSpec{"PFXIn→PFXOut": {Fields: map[string]*FieldSpec{"Last": fs("PN", "Last"), "Street": fs("PN", "Street")}}}},
		// fields promoted through an embedded pointer are no fields of the source struct itself: not matched by name
		// (under ignoreMissing they stay unset) - and never read through a nil embedded pointer
		{Name: "path_embedded_pointer_promoted_fields", Decls: "type PFXPerson struct {\n\tName string\n\tTags []string\n}\ntype PFXIn struct {\n\t*PFXPerson\n\tID int\n}\ntype PFXOut struct {\n\tID int\n\tName string\n\tTags []string\n}\n", Src: "PFXIn", Tgt: "PFXOut",
			Lines: []string{"ignoreMissing"},
			Pairs: map[string]*PairSpec{"PFXIn→PFXOut": {IgnoreMissing: true}}},
		{Name: "path_embedded_pointer_promoted_fields_elem", Decls: "type PFXPerson struct {\n\tName string\n}\ntype PFXIn struct {\n\t*PFXPerson\n\tID int\n}\ntype PFXOut struct {\n\tID int\n\tName string\n}\n", Src: "[]*PFXIn", Tgt: "[]*PFXOut",
			Conv:  []string{"ignoreMissing"},
			Pairs: map[string]*PairSpec{"PFXIn→PFXOut": {IgnoreMissing: true}}},
		// one source pointer read by several target fields: every read keeps its own nil check
		// skipCopySameType and a value behind a pointer of the path, handed to a pointer field: T -> *T is no position of
		// identical types, the pointer does not point into the source
		{Name: "path_value_behind_pointer_to_pointer_skipcopy", Decls: "type PFXT struct {\n\tV []int\n\tN int\n}\ntype PFXN struct {\n\tF PFXT\n\tA [2]int\n\tI int\n}\ntype PFXIn struct{ Nested *PFXN }\ntype PFXOut struct {\n\tF *PFXT\n\tA *[2]int\n\tI *int\n}\n", Src: "PFXIn", Tgt: "PFXOut",
			Conv: []string{"skipCopySameType"}, Lines: []string{"map Nested.F F", "map Nested.A A", "map Nested.I I"}, SkipCopy: true,
			Pairs: map[string]*PairSpec{"PFXIn→PFXOut": {Fields: map[string]*FieldSpec{"F": fs("Nested", "F"), "A": fs("Nested", "A"), "I": fs("Nested", "I")}}}},
		{Name: "path_value_two_hops_behind_pointer_to_pointer_skipcopy", Decls: "type PFXLeaf struct {\n\tV int\n\tW []int\n}\ntype PFXN struct{ Leaf PFXLeaf }\ntype PFXIn struct{ Nested *PFXN }\ntype PFXOut struct {\n\tF *int\n\tG *int\n\tW *[]int\n}\n", Src: "PFXIn", Tgt: "PFXOut",
			Conv: []string{"skipCopySameType"}, Lines: []string{"map Nested.Leaf.V F", "map Nested.Leaf.V G", "map Nested.Leaf.W W"}, SkipCopy: true,
			Pairs: map[string]*PairSpec{"PFXIn→PFXOut": {Fields: map[string]*FieldSpec{"F": fs("Nested", "Leaf", "V"), "G": fs("Nested", "Leaf", "V"), "W": fs("Nested", "Leaf", "W")}}}},
		{Name: "path_value_behind_pointer_to_pointer_skipcopy_ptrsource", Decls: "type PFXT struct {\n\tV []int\n\tN int\n}\ntype PFXN struct {\n\tF PFXT\n\tI int\n}\ntype PFXIn struct{ Nested *PFXN }\ntype PFXOut struct {\n\tF *PFXT\n\tI *int\n}\n", Src: "*PFXIn", Tgt: "*PFXOut",
			Conv: []string{"skipCopySameType"}, Lines: []string{"map Nested.F F", "map Nested.I I"}, SkipCopy: true,
			Pairs: map[string]*PairSpec{"PFXIn→PFXOut": {Fields: map[string]*FieldSpec{"F": fs("Nested", "F"), "I": fs("Nested", "I")}}}},
		// a defined pointer type on the path is a pointer like any other: nil at that hop never panics
		{Name: "path_through_defined_pointer_type", Decls: "type PFXOwner struct {\n\tName string\n\tAddr *PFXAddr\n}\ntype PFXAddr struct{ City string }\ntype PFXOwnerRef *PFXOwner\ntype PFXIn struct {\n\tOwner PFXOwnerRef\n\tN int\n}\ntype PFXOut struct {\n\tName *string\n\tCity *string\n\tN int\n}\n", Src: "PFXIn", Tgt: "PFXOut",
			Lines: []string{"map Owner.Name Name", "map Owner.Addr.City City"},
			Pairs: map[string]*PairSpec{"PFXIn→PFXOut": {Fields: map[string]*FieldSpec{"Name": fs("Owner", "Name"), "City": fs("Owner", "Addr", "City")}}}},
		{Name: "automap_path_with_pointer_hop_in_the_middle", Decls: "type PFXAddr struct{ City string }\ntype PFXNested struct{ Address PFXAddr }\ntype PFXIn struct {\n\tNested *PFXNested\n\tN int\n}\ntype PFXOut struct {\n\tCity *string\n\tN int\n}\n", Src: "PFXIn", Tgt: "PFXOut",
			Lines: []string{"autoMap Nested.Address"},
			Pairs: map[string]*PairSpec{"PFXIn→PFXOut": {Fields: map[string]*FieldSpec{"City": fs("Nested", "Address", "City")}}}},
		{Name: "automap_through_defined_pointer_type", Decls: "type PFXOwner struct{ Name string }\ntype PFXOwnerRef *PFXOwner\ntype PFXIn struct {\n\tOwner PFXOwnerRef\n\tN int\n}\ntype PFXOut struct {\n\tName *string\n\tN int\n}\n", Src: "PFXIn", Tgt: "PFXOut",
			Lines: []string{"autoMap Owner"},
			Pairs: map[string]*PairSpec{"PFXIn→PFXOut": {Fields: map[string]*FieldSpec{"Name": fs("Owner", "Name")}}}},
		{Name: "path_same_pointer_twice", Decls: "type PFXIs struct{ A int }\ntype PFXIt struct{ A int }\ntype PFXIn struct {\n\tNick *string\n\tP *PFXIs\n\tL *[]int\n}\ntype PFXOut struct {\n\tNick *string\n\tAlias *string\n\tThird *string\n\tP *PFXIt\n\tP2 *PFXIt\n\tL *[]int\n\tL2 *[]int\n}\n", Src: "PFXIn", Tgt: "PFXOut",
			Lines: []string{"map Nick Alias", "map Nick Third", "map P P2", "map L L2"},
			Pairs: map[string]*PairSpec{"PFXIn→PFXOut": {Fields: map[string]*FieldSpec{"Alias": fs("Nick"), "Third": fs("Nick"), "P2": fs("P"), "L2": fs("L")}}}},
		{Name: "path_same_nested_pointer_twice", Decls: "type PFXN struct {\n\tNick *string\n\tAge *int\n}\ntype PFXIn struct {\n\tN *PFXN\n\tM PFXN\n}\ntype PFXOut struct {\n\tA *string\n\tB *string\n\tC int\n\tD *int\n\tE *string\n\tF *string\n}\n", Src: "PFXIn", Tgt: "PFXOut",
			Lines: []string{"map N.Nick A", "map N.Nick B", "map N.Age C", "map N.Age D", "map M.Nick E", "map M.Nick F", "useZeroValueOnPointerInconsistency"},
			Pairs: map[string]*PairSpec{"PFXIn→PFXOut": {Fields: map[string]*FieldSpec{"A": fs("N", "Nick"), "B": fs("N", "Nick"), "C": fs("N", "Age"), "D": fs("N", "Age"), "E": fs("M", "Nick"), "F": fs("M", "Nick")}}}},
		{Name: "ignorecase", Decls: "type PFXIn struct {\n\tFULLNAME string\n\tage int\n\tName string\n\tNAME string\n}\ntype PFXOut struct {\n\tFullName string\n\tAge int\n\tName string\n}\n", Src: "PFXIn", Tgt: "PFXOut",
			Lines: []string{"matchIgnoreCase"}, Formats: []string{"variable"},
			Pairs: map[string]*PairSpec{"PFXIn→PFXOut": {Fields: map[string]*FieldSpec{"FullName": fs("FULLNAME"), "Age": fs("age"), "Name": fs("Name")}}}},
		{Name: "ignorecase_conv_level", Decls: "type PFXIn struct {\n\tFULLNAME string\n\tAge int\n}\ntype PFXOut struct {\n\tFullName string\n\tAGE int\n}\n", Src: "[]PFXIn", Tgt: "[]PFXOut",
			Conv:  []string{"matchIgnoreCase"},
			Pairs: map[string]*PairSpec{"PFXIn→PFXOut": {Fields: map[string]*FieldSpec{"FullName": fs("FULLNAME"), "AGE": fs("Age")}}}},
		{Name: "ignoremissing", Decls: in + "type PFXOut struct {\n\tName string\n\tExtra1 int\n\tExtra2 *string\n\tExtra3 []int\n}\n", Src: "PFXIn", Tgt: "PFXOut",
			Lines: []string{"ignoreMissing"},
			Pairs: map[string]*PairSpec{"PFXIn→PFXOut": {IgnoreMissing: true}}},
		{Name: "ignoreunexported", Decls: in + "type PFXOut struct {\n\tName string\n\thidden int\n\tsecret *string\n}\n", Src: "PFXIn", Tgt: "PFXOut",
			Lines: []string{"ignoreUnexported"},
			Pairs: map[string]*PairSpec{"PFXIn→PFXOut": {IgnoreUnexported: true}}},
		// goverter:map X X is a mapping like any other: the exact source field, not the automatic lookup
		{Name: "map_same_name_resolves_automap_ambiguity", Decls: "type PFXAddr struct{ Street string }\ntype PFXIn struct {\n\tStreet string\n\tAddress PFXAddr\n}\ntype PFXOut struct{ Street string }\n", Src: "PFXIn", Tgt: "PFXOut",
			Lines: []string{"autoMap Address", "map Street Street"},
			Pairs: map[string]*PairSpec{"PFXIn→PFXOut": {Fields: map[string]*FieldSpec{"Street": fs("Street")}}}},
		{Name: "map_same_name_exact_under_ignorecase", Decls: "type PFXIn struct {\n\tNAME string\n\tName string\n\tname2 string\n}\ntype PFXOut struct{ Name string }\n", Src: "PFXIn", Tgt: "PFXOut",
			Lines: []string{"matchIgnoreCase", "map Name Name"}, Formats: []string{"variable"},
			Pairs: map[string]*PairSpec{"PFXIn→PFXOut": {Fields: map[string]*FieldSpec{"Name": fs("Name")}}}},
		{Name: "fail_map_same_name_missing_source_under_ignoremissing", Decls: "type PFXIn struct{ Name string }\ntype PFXOut struct {\n\tName string\n\tNickname string\n}\n", Src: "PFXIn", Tgt: "PFXOut",
			Lines: []string{"ignoreMissing", "map Nickname Nickname"}, Fail: "map names a source field that does not exist (same name as the target, ignoreMissing on)"},
		{Name: "fail_map_same_name_only_other_case_exists", Decls: "type PFXIn struct{ NAME string }\ntype PFXOut struct{ Name string }\n", Src: "PFXIn", Tgt: "PFXOut",
			Lines: []string{"matchIgnoreCase", "map Name Name"}, Fail: "map names the source field Name, only NAME exists (an explicit path is exact)"},
		// field settings on a method between identical types are not swallowed by skipCopySameType
		{Name: "skipcopy_identical_types_settings_kept", Decls: "type PFXIn struct {\n\tName string\n\tSecret string\n\tTitle string\n\tL []int\n}\n", Src: "PFXIn", Tgt: "PFXIn",
			Conv: []string{"skipCopySameType"}, Lines: []string{"ignore Secret", "map Name Title"},
			Pairs: map[string]*PairSpec{"PFXIn→PFXIn": {Fields: map[string]*FieldSpec{"Secret": {Ignore: true}, "Title": fs("Name")}}}},
		{Name: "skipcopy_with_settings_identical_reference_positions", Decls: "type PFXIn struct {\n\tName string\n\tSecret string\n\tAny any\n\tC chan int\n\tL []int\n}\ntype PFXOut struct {\n\tName string\n\tSecret string\n\tAny any\n\tC chan int\n\tL []int\n}\n", Src: "PFXIn", Tgt: "PFXOut",
			Conv: []string{"skipCopySameType"}, Lines: []string{"ignore Secret"}, SkipCopy: true,
			Pairs: map[string]*PairSpec{"PFXIn→PFXOut": {Fields: map[string]*FieldSpec{"Secret": {Ignore: true}}}}},
		// ... flag-style settings count as well: ignoreUnexported on Clone(T) T is not reduced to `return source`
		{Name: "skipcopy_identical_types_flag_setting_kept", Decls: "type PFXIn struct {\n\tName string\n\tstate string\n\tL []int\n}\n", Src: "PFXIn", Tgt: "PFXIn",
			Conv: []string{"skipCopySameType"}, Lines: []string{"ignoreUnexported"}, Formats: []string{"variable"},
			Pairs: map[string]*PairSpec{"PFXIn→PFXIn": {IgnoreUnexported: true, Fields: map[string]*FieldSpec{"state": {Ignore: true}}}}},
		{Name: "skipcopy_identical_pointer_types_settings_kept", Decls: "type PFXIn struct {\n\tName string\n\tSecret string\n\tL []int\n}\n", Src: "*PFXIn", Tgt: "*PFXIn",
			Conv: []string{"skipCopySameType"}, Lines: []string{"ignore Secret"},
			Pairs: map[string]*PairSpec{"PFXIn→PFXIn": {Fields: map[string]*FieldSpec{"Secret": {Ignore: true}}}}},
		{Name: "fail_skipcopy_identical_types_unknown_field", Decls: "type PFXIn struct{ Name string }\n", Src: "PFXIn", Tgt: "PFXIn",
			Conv: []string{"skipCopySameType"}, Lines: []string{"map Nope Bogus"}, Fail: "map names fields that do not exist (the method converts one type into itself under skipCopySameType)"},
		// a method over defined pointer types (type P *S) converts the structs itself, its field settings apply
		{Name: "defined_pointer_types", Decls: in + "type PFXOut struct {\n\tTitle string\n\tAge int\n\tExtra int\n}\ntype PFXPIn *PFXIn\ntype PFXPOut *PFXOut\n", Src: "PFXPIn", Tgt: "PFXPOut",
			Lines: []string{"map Name Title", "ignore Extra"},
			Pairs: map[string]*PairSpec{"PFXIn→PFXOut": {Fields: map[string]*FieldSpec{"Title": fs("Name"), "Extra": {Ignore: true}}}}},
		{Name: "defined_pointer_source", Decls: in + "type PFXOut struct {\n\tTitle string\n\tAge int\n\tExtra int\n}\ntype PFXPIn *PFXIn\n", Src: "PFXPIn", Tgt: "*PFXOut",
			Lines: []string{"map Name Title", "ignore Extra"},
			Pairs: map[string]*PairSpec{"PFXIn→PFXOut": {Fields: map[string]*FieldSpec{"Title": fs("Name"), "Extra": {Ignore: true}}}}},
		// an explicit map line on an unexported field is not swallowed by ignoreUnexported: it takes effect where the
		// field can be written (output in the target's package) and is reported elsewhere
		{Name: "ignoreunexported_explicit_map", Decls: in + "type PFXOut struct {\n\tName string\n\tsecret string\n\thidden int\n}\n", Src: "PFXIn", Tgt: "PFXOut",
			Lines: []string{"ignoreUnexported", "map Name secret"}, Formats: []string{"variable"},
			Pairs: map[string]*PairSpec{"PFXIn→PFXOut": {IgnoreUnexported: true, Fields: map[string]*FieldSpec{"secret": fs("Name")}}}},
		{Name: "fail_ignoreunexported_explicit_map_inaccessible", Decls: in + "type PFXOut struct {\n\tName string\n\tsecret string\n\thidden int\n}\n", Src: "PFXIn", Tgt: "PFXOut",
			Lines: []string{"ignoreUnexported", "map Name secret"}, Formats: []string{"struct", "function"},
			Fail: "goverter:map on an unexported field that cannot be written from the output package (ignoreUnexported must not swallow the line)"},
		{Name: "source_method", Decls: in + "func (s PFXIn) Display() string { return \"\" }\nfunc (s PFXIn) Count() int { return 0 }\ntype PFXOut struct {\n\tName string\n\tShown string\n\tCount int\n}\n", Src: "PFXIn", Tgt: "PFXOut",
			Lines: []string{"map Display Shown"},
			Pairs: map[string]*PairSpec{"PFXIn→PFXOut": {Fields: map[string]*FieldSpec{"Shown": {Whole: true, Fn: "PFXIn.Display"}, "Count": {Whole: true, Fn: "PFXIn.Count"}}}}},
		{Name: "no_leak_to_nested", Decls: "type PFXIs struct {\n\tName string\n\tTitle string\n}\ntype PFXIt struct {\n\tName string\n\tTitle string\n}\ntype PFXIn struct {\n\tName string\n\tTitle string\n\tIn PFXIs\n\tL []PFXIs\n}\ntype PFXOut struct {\n\tName string\n\tTitle string\n\tIn PFXIt\n\tL []PFXIt\n}\n", Src: "PFXIn", Tgt: "PFXOut",
			Lines: []string{"map Name Title", "ignore Name"},
			Pairs: map[string]*PairSpec{"PFXIn→PFXOut": {Fields: map[string]*FieldSpec{"Title": fs("Name"), "Name": {Ignore: true}}}}},
		// the same with nested structs of unnamed types (converted inline by the same method), behind every container
		{Name: "no_leak_to_nested_unnamed", Decls: "type PFXIn struct {\n\tName string\n\tTitle string\n\tIn struct {\n\t\tName string\n\t\tTitle string\n\t}\n\tL []struct {\n\t\tName string\n\t\tTitle string\n\t}\n\tP *struct {\n\t\tName string\n\t\tTitle string\n\t}\n\tM map[string]struct {\n\t\tName string\n\t\tTitle string\n\t}\n}\ntype PFXOut struct {\n\tName string\n\tTitle string\n\tIn struct {\n\t\tName string\n\t\tTitle string\n\t}\n\tL []struct {\n\t\tName string\n\t\tTitle string\n\t}\n\tP *struct {\n\t\tName string\n\t\tTitle string\n\t}\n\tM map[string]struct {\n\t\tName string\n\t\tTitle string\n\t}\n}\n", Src: "PFXIn", Tgt: "PFXOut",
			Lines: []string{"map Name Title", "ignore Name"},
			Pairs: map[string]*PairSpec{"PFXIn→PFXOut": {Fields: map[string]*FieldSpec{"Title": fs("Name"), "Name": {Ignore: true}}}}},
		{Name: "no_leak_to_nested_unnamed_differing", Decls: "type PFXIn struct {\n\tKey string\n\tID string\n\tMeta struct {\n\t\tKey string\n\t\tID string\n\t\tN int\n\t}\n\tL []struct{ ID string }\n}\ntype PFXOut struct {\n\tID string\n\tMeta struct {\n\t\tID string\n\t\tN int\n\t}\n\tL []struct{ ID string }\n}\n", Src: "PFXIn", Tgt: "PFXOut",
			Lines: []string{"map Key ID"},
			Pairs: map[string]*PairSpec{"PFXIn→PFXOut": {Fields: map[string]*FieldSpec{"ID": fs("Key")}}}},
		{Name: "callee_settings_kept", Decls: "type PFXIs struct {\n\tName string\n\tAge int\n}\ntype PFXIt struct {\n\tTitle string\n\tAge int\n\tExtra int\n}\ntype PFXIn struct {\n\tName string\n\tOne PFXIs\n\tP *PFXIs\n\tL []PFXIs\n\tM map[string]PFXIs\n}\ntype PFXOut struct {\n\tName string\n\tOne PFXIt\n\tP *PFXIt\n\tL []PFXIt\n\tM map[string]PFXIt\n}\n", Src: "PFXIn", Tgt: "PFXOut",
			Extra: "\t// goverter:map Name Title\n\t// goverter:ignore Extra\n\tPFXInner(source PFXIs) PFXIt\n",
			Pairs: map[string]*PairSpec{"PFXIs→PFXIt": {Fields: map[string]*FieldSpec{"Title": fs("Name"), "Extra": {Ignore: true}}}}},
		{Name: "callee_settings_recursive", Decls: "type PFXIn struct {\n\tName string\n\tNext *PFXIn\n\tKids []PFXIn\n}\ntype PFXOut struct {\n\tTitle string\n\tNext *PFXOut\n\tKids []PFXOut\n\tExtra int\n}\n", Src: "PFXIn", Tgt: "PFXOut",
			Lines: []string{"map Name Title", "ignore Extra"},
			Pairs: map[string]*PairSpec{"PFXIn→PFXOut": {Fields: map[string]*FieldSpec{"Title": fs("Name"), "Extra": {Ignore: true}}}}},
		// must fail
		{Name: "fail_unknown_target", Decls: in + "type PFXOut struct {\n\tName string\n}\n", Src: "PFXIn", Tgt: "PFXOut",
			Lines: []string{"map Name Nope"}, Fail: "map targets a field that does not exist"},
		{Name: "fail_unknown_source", Decls: in + "type PFXOut struct {\n\tName string\n}\n", Src: "PFXIn", Tgt: "PFXOut",
			Lines: []string{"map Nope Name"}, Fail: "map source does not exist"},
		{Name: "fail_ignore_unknown", Decls: in + "type PFXOut struct {\n\tName string\n}\n", Src: "PFXIn", Tgt: "PFXOut",
			Lines: []string{"ignore Nope"}, Fail: "ignore names a field that does not exist"},
		{Name: "fail_path_through_basic", Decls: in + "type PFXOut struct {\n\tName string\n}\n", Src: "PFXIn", Tgt: "PFXOut",
			Lines: []string{"map Age.X Name"}, Fail: "path through a non-struct"},
		{Name: "fail_missing_source", Decls: in + "type PFXOut struct {\n\tName string\n\tMissing int\n}\n", Src: "PFXIn", Tgt: "PFXOut",
			Fail: "target field without source"},
		{Name: "fail_ignorecase_ambiguous", Decls: "type PFXIn struct {\n\tNAME string\n\tname string\n}\ntype PFXOut struct {\n\tName string\n}\n", Src: "PFXIn", Tgt: "PFXOut",
			Lines: []string{"matchIgnoreCase"}, Fail: "two case-insensitive candidates and no exact match", Formats: []string{"variable"}},
		{Name: "fail_automap_ambiguous", Decls: "type PFXIn struct {\n\tA PFXN\n\tB PFXN\n}\ntype PFXN struct{ Last string }\ntype PFXOut struct {\n\tLast string\n}\n", Src: "PFXIn", Tgt: "PFXOut",
			Lines: []string{"autoMap A", "autoMap B"}, Fail: "autoMap ambiguity"},
		{Name: "fail_settings_on_slice_method", Decls: in + "type PFXOut struct {\n\tTitle string\n\tAge int\n}\n", Src: "[]PFXIn", Tgt: "[]PFXOut",
			Lines: []string{"map Name Title"}, Fail: "field settings on a method whose target is not the struct"},
		{Name: "fail_overlap_automap", Decls: "type PFXAddr struct{ Zip string }\ntype PFXPerson struct {\n\tName string\n\tAddress PFXAddr\n}\ntype PFXFlat struct {\n\tName string\n\tZip string\n}\ntype PFXIn struct{ Lead PFXPerson }\ntype PFXOut struct{ Lead PFXFlat }\n", Src: "PFXIn", Tgt: "PFXOut",
			Conv: []string{"ignoreMissing"}, Extra: "\t// goverter:autoMap Address\n\tPFXInner(source *PFXPerson) *PFXFlat\n",
			Fail: "field settings (autoMap) on a method that another method bypasses"},
		{Name: "fail_overlap_ignorecase", Decls: "type PFXPerson struct {\n\tName string\n\tZIP string\n}\ntype PFXFlat struct {\n\tName string\n\tZip string\n}\ntype PFXIn struct{ Lead PFXPerson }\ntype PFXOut struct{ Lead PFXFlat }\n", Src: "PFXIn", Tgt: "PFXOut",
			Conv: []string{"ignoreMissing"}, Extra: "\t// goverter:matchIgnoreCase\n\tPFXInner(source *PFXPerson) *PFXFlat\n",
			Fail: "field settings (matchIgnoreCase) on a method that another method bypasses"},
		{Name: "fail_overlap_map", Decls: "type PFXPerson struct {\n\tName string\n\tCode string\n}\ntype PFXFlat struct {\n\tName string\n\tZip string\n}\ntype PFXIn struct{ Lead PFXPerson }\ntype PFXOut struct{ Lead PFXFlat }\n", Src: "PFXIn", Tgt: "PFXOut",
			Conv: []string{"ignoreMissing"}, Extra: "\t// goverter:map Code Zip\n\tPFXInner(source *PFXPerson) *PFXFlat\n",
			Fail: "field settings (map) on a method that another method bypasses"},
		{Name: "fail_ignoremissing_ignorecase_ambiguous", Decls: "type PFXIn struct {\n\tFOO string\n\tFoo string\n\tN int\n}\ntype PFXOut struct {\n\tFoO string\n\tN int\n}\n", Src: "PFXIn", Tgt: "PFXOut",
			Lines: []string{"matchIgnoreCase", "ignoreMissing"}, Fail: "several case-insensitive candidates are an error even with ignoreMissing"},
		{Name: "fail_ignoremissing_automap_ambiguous", Decls: "type PFXIn struct {\n\tA PFXN\n\tB PFXN\n\tN int\n}\ntype PFXN struct{ Last string }\ntype PFXOut struct {\n\tLast string\n\tN int\n}\n", Src: "PFXIn", Tgt: "PFXOut",
			Lines: []string{"autoMap A", "autoMap B", "ignoreMissing"}, Fail: "autoMap ambiguity is an error even with ignoreMissing"},
		{Name: "ignoremissing_with_ignorecase", Decls: "type PFXIn struct {\n\tFOO string\n\tN int\n}\ntype PFXOut struct {\n\tFoo string\n\tN int\n\tGone int\n}\n", Src: "PFXIn", Tgt: "PFXOut",
			Lines: []string{"matchIgnoreCase", "ignoreMissing"},
			Pairs: map[string]*PairSpec{"PFXIn→PFXOut": {IgnoreMissing: true, IgnoreCase: true}}},
		// a setting that names a field in another spelling is unknown, also under matchIgnoreCase (which concerns
		// the search for *source* fields only)
		{Name: "fail_ignore_miscased_under_ignorecase", Decls: "type PFXIn struct {\n\tName string\n\tSECRET string\n}\ntype PFXOut struct {\n\tName string\n\tSecret string\n}\n", Src: "PFXIn", Tgt: "PFXOut",
			Lines: []string{"matchIgnoreCase", "ignore secret"}, Fail: "ignore names a field in another spelling (matchIgnoreCase does not apply to setting targets)"},
		{Name: "fail_map_target_miscased_under_ignorecase", Decls: "type PFXIn struct {\n\tName string\n\tOther string\n\tSECRET string\n}\ntype PFXOut struct {\n\tName string\n\tSecret string\n}\n", Src: "PFXIn", Tgt: "PFXOut",
			Lines: []string{"matchIgnoreCase", "map Other secret"}, Fail: "map names a target field in another spelling"},
		{Name: "fail_map_target_miscased_converter_level", Decls: "type PFXIn struct {\n\tName string\n\tOther string\n\tSECRET string\n}\ntype PFXOut struct {\n\tName string\n\tSecret string\n}\n", Src: "PFXIn", Tgt: "PFXOut",
			Conv: []string{"matchIgnoreCase"}, Lines: []string{"ignore SECRET"}, Fail: "ignore names a field in another spelling (matchIgnoreCase at converter level)"},
		// field settings on a declared method of the same pointer family are an overlap also when the current
		// method starts from a default constructor
		{Name: "fail_overlap_default_constructor", Decls: "type PFXIn struct {\n\tName string\n\tFullName string\n}\ntype PFXOut struct{ Name string }\nfunc PFXNewOut() *PFXOut { return &PFXOut{} }\n", Src: "PFXIn", Tgt: "*PFXOut",
			Lines: []string{"default PFXNewOut"}, Extra: "\t// goverter:map FullName Name\n\tPFXInner(source *PFXIn) *PFXOut\n",
			Fail: "field settings (map) on a method that the default-constructor method bypasses"},
		{Name: "fail_overlap_default_update", Decls: "type PFXIn struct {\n\tName string\n\tFullName string\n}\ntype PFXOut struct{ Name string }\nfunc PFXNewOut() *PFXOut { return &PFXOut{} }\n", Src: "*PFXIn", Tgt: "*PFXOut",
			Lines: []string{"default PFXNewOut", "default:update"}, Extra: "\t// goverter:map FullName Name\n\tPFXInner(source PFXIn) *PFXOut\n",
			Fail: "field settings (map) on a method that the default:update method bypasses"},
		// whether a field can be written depends on the package the *field* was declared in - not on the package
		// of the (possibly absent) type name of the struct
		{Name: "fail_unexported_in_foreign_unnamed_struct", Src: "pfxmodel.In", Tgt: "pfxmodel.Out",
			Aux:     map[string]string{"pfxmodel": "package pfxmodel\n\ntype In struct {\n\tName string\n\tMeta struct {\n\t\tTitle string\n\t\trev int\n\t}\n}\n\ntype Out struct {\n\tName string\n\tMeta struct {\n\t\tTitle string\n\t\trev int\n\t}\n}\n"},
			Imports: []string{`pfxmodel "corpus/GRP/pfxmodel"`},
			Fail:    "unexported field of an unnamed struct written down in another package", Formats: []string{"struct", "function", "variable"}},
		{Name: "fail_unexported_in_type_defined_from_foreign_struct", Decls: "type PFXIn pfxmodel.Record\ntype PFXOut pfxmodel.Record\n", Src: "PFXIn", Tgt: "PFXOut",
			Aux:     map[string]string{"pfxmodel": "package pfxmodel\n\ntype Record struct {\n\tName string\n\trev int\n}\n"},
			Imports: []string{`pfxmodel "corpus/GRP/pfxmodel"`},
			Fail:    "unexported field of a local type defined from a struct of another package", Formats: []string{"variable"}},
		// an argument-less method of the source is a source like a field: an unexported one of a type of another package
		// cannot be called from the output package, whichever way it was selected
		{Name: "fail_unexported_getter_of_foreign_type_map", Decls: "type PFXOut struct {\n\tName string\n\tSecret string\n}\n", Src: "pfxmodel.Account", Tgt: "PFXOut",
			Aux: map[string]string{"pfxmodel": "package pfxmodel\n\ntype Account struct{ Name string }\n\nfunc (a Account) secret() string { return a.Name }\nfunc (a Account) Label() string { return a.Name }\n"}, Imports: []string{`pfxmodel "corpus/GRP/pfxmodel"`},
			Lines: []string{"map secret Secret"}, Fail: "unexported method of a type of another package as field source (goverter:map)"},
		{Name: "fail_unexported_getter_of_foreign_type_ignorecase", Decls: "type PFXOut struct {\n\tName string\n\tSecret string\n}\n", Src: "pfxmodel.Account", Tgt: "PFXOut",
			Aux: map[string]string{"pfxmodel": "package pfxmodel\n\ntype Account struct{ Name string }\n\nfunc (a Account) secret() string { return a.Name }\nfunc (a Account) Label() string { return a.Name }\n"}, Imports: []string{`pfxmodel "corpus/GRP/pfxmodel"`},
			Lines: []string{"matchIgnoreCase"}, Fail: "unexported method of a type of another package as field source (matchIgnoreCase)"},
		{Name: "exported_getter_of_foreign_type", Decls: "type PFXOut struct {\n\tName string\n\tLabel string\n}\n", Src: "pfxmodel.Account", Tgt: "PFXOut",
			Aux: map[string]string{"pfxmodel": "package pfxmodel\n\ntype Account struct{ Name string }\n\nfunc (a Account) secret() string { return a.Name }\nfunc (a Account) Label() string { return a.Name }\n"}, Imports: []string{`pfxmodel "corpus/GRP/pfxmodel"`},
			Pairs: map[string]*PairSpec{"Account→PFXOut": {Fields: map[string]*FieldSpec{"Label": {Via: "Account.Label"}}}}},
		{Name: "unexported_in_local_unnamed_struct_same_package", Decls: "type PFXIn struct {\n\tName string\n\tMeta struct {\n\t\tTitle string\n\t\trev int\n\t}\n}\ntype PFXOut struct {\n\tName string\n\tMeta struct {\n\t\tTitle string\n\t\trev int\n\t}\n}\n", Src: "PFXIn", Tgt: "PFXOut",
			Formats: []string{"variable"}},
		{Name: "exported_fields_of_foreign_unnamed_struct", Src: "pfxmodel.In", Tgt: "pfxmodel.Out",
			Aux:     map[string]string{"pfxmodel": "package pfxmodel\n\ntype In struct {\n\tName string\n\tMeta struct {\n\t\tTitle string\n\t\tRev int\n\t}\n}\n\ntype Out struct {\n\tName string\n\tMeta struct {\n\t\tTitle string\n\t\tRev int\n\t}\n}\n"},
			Imports: []string{`pfxmodel "corpus/GRP/pfxmodel"`}},
		// matchIgnoreCase is Unicode case folding, not equality of lower-cased names: the three sigmas fold together,
		// the dotted capital I (which merely lower-cases to i) does not fold to I
		{Name: "ignorecase_unicode_fold", Decls: "type PFXIn struct {\n\tΟΔΟΣ string\n\tN int\n}\ntype PFXOut struct {\n\tΟδος string\n\tN int\n}\n", Src: "PFXIn", Tgt: "PFXOut",
			Lines: []string{"matchIgnoreCase"},
			Pairs: map[string]*PairSpec{"PFXIn→PFXOut": {Fields: map[string]*FieldSpec{"Οδος": fs("ΟΔΟΣ")}}}},
		{Name: "ignorecase_unicode_fold_ignoremissing", Decls: "type PFXIn struct {\n\tΟΔΟΣ string\n\tN int\n}\ntype PFXOut struct {\n\tΟδος string\n\tN int\n\tGone int\n}\n", Src: "PFXIn", Tgt: "PFXOut",
			Lines: []string{"matchIgnoreCase", "ignoreMissing"},
			Pairs: map[string]*PairSpec{"PFXIn→PFXOut": {IgnoreMissing: true, Fields: map[string]*FieldSpec{"Οδος": fs("ΟΔΟΣ")}}}},
		{Name: "fail_ignorecase_lowercase_only_match", Decls: "type PFXIn struct {\n\tİd string\n\tN int\n}\ntype PFXOut struct {\n\tID string\n\tN int\n}\n", Src: "PFXIn", Tgt: "PFXOut",
			Lines: []string{"matchIgnoreCase"}, Fail: "source name equals the target name only after lower-casing (no case-folding match)"},
		// field settings on a *S -> T method whose useZeroValueOnPointerInconsistency is written on that method only:
		// another method converting S -> T in a field would bypass them - reported, whatever flags that other method has
		{Name: "fail_overlap_source_pointer_method_flag", Decls: "type PFXS struct {\n\tFullName string\n\tName string\n}\ntype PFXT struct{ Name string }\ntype PFXW struct{ Item PFXS }\ntype PFXWT struct{ Item PFXT }\n", Src: "*PFXS", Tgt: "PFXT",
			Lines: []string{"useZeroValueOnPointerInconsistency", "map FullName Name"}, Extra: "\tPFXInner(source PFXW) PFXWT\n",
			Fail: "field settings (map) on a *S -> T method that another method's S -> T conversion bypasses"},
		// a method of the target type is no field
		{Name: "fail_map_target_is_a_method_of_the_target", Decls: "type PFXIn struct {\n\tName string\n\tFull string\n}\ntype PFXOut struct{ Name string }\n\nfunc (o PFXOut) Display() string { return o.Name }\n", Src: "PFXIn", Tgt: "PFXOut",
			Lines: []string{"map Full Display"}, Fail: "map names a method of the target type, nothing can be assigned to it"},
		{Name: "fail_ignore_target_is_a_pointer_method_of_the_target", Decls: "type PFXIn struct{ Name string }\ntype PFXOut struct{ Name string }\n\nfunc (o *PFXOut) Secret() string { return o.Name }\n", Src: "PFXIn", Tgt: "PFXOut",
			Lines: []string{"ignore Secret"}, Fail: "ignore names a method of the target type, not a field"},
		{Name: "fail_mapfunc_target_is_an_embedded_method", Decls: "type PFXBase struct{ ID int }\n\nfunc (b PFXBase) Key() int { return b.ID }\n\ntype PFXIn struct {\n\tName string\n}\ntype PFXOut struct {\n\tPFXBase\n\tName string\n}\nfunc PFXUp(s string) string { return s }\n", Src: "PFXIn", Tgt: "PFXOut",
			Lines: []string{"ignore PFXBase", "map Name Key | PFXUp"}, Fail: "map|FUNC names a promoted method of the target type"},
		// a setting that names a target field which does not exist is reported also when no target field reads the source
		{Name: "fail_unknown_ignore_when_every_field_is_ignored", Decls: "type PFXIn struct{ Name string }\ntype PFXOut struct {\n\tName string\n\tAge int\n}\n", Src: "PFXIn", Tgt: "PFXOut",
			Lines: []string{"ignore Name Age", "ignore Typo"}, Fail: "ignore names a target field that does not exist (all real fields are ignored)"},
		{Name: "fail_unknown_map_target_on_empty_struct", Decls: "type PFXIn struct{ Name string }\ntype PFXOut struct{}\n", Src: "PFXIn", Tgt: "PFXOut",
			Lines: []string{"map Name Typo"}, Fail: "map names a target field that does not exist (the target struct has no fields)"},
		{Name: "fail_unknown_mapfunc_target_when_fields_filled_by_noarg_func", Decls: "type PFXIn struct{ Name string }\ntype PFXOut struct{ Stamp string }\nfunc PFXNow() string { return \"\" }\n", Src: "PFXIn", Tgt: "PFXOut",
			Lines: []string{"map Stamp | PFXNow", "map Typo | PFXNow"}, Fail: "map|FUNC names a target field that does not exist (no field reads the source)"},
		// the settings of a method on pointers are written for its own source struct: elements converted into the same
		// target type from *another* struct follow the plain rules
		{Name: "no_leak_to_other_source_same_target", Decls: "type PFXS struct {\n\tName string\n\tFullName string\n\tPrev []PFXR\n}\ntype PFXR struct {\n\tName string\n\tFullName string\n}\ntype PFXT struct {\n\tName string\n\tPrev []PFXT\n}\n", Src: "*PFXS", Tgt: "*PFXT",
			Conv: []string{"ignoreMissing"}, Lines: []string{"map FullName Name"},
			Pairs: map[string]*PairSpec{"PFXS→PFXT": {IgnoreMissing: true, Fields: map[string]*FieldSpec{"Name": fs("FullName")}}, "PFXR→PFXT": {IgnoreMissing: true}}},
		{Name: "no_leak_to_other_source_same_target_ignore", Decls: "type PFXS struct {\n\tName string\n\tOld PFXR\n}\ntype PFXR struct{ Name string }\ntype PFXT struct {\n\tName string\n\tOld *PFXT\n}\n", Src: "PFXS", Tgt: "*PFXT",
			Conv: []string{"ignoreMissing"}, Lines: []string{"ignore Name"},
			Pairs: map[string]*PairSpec{"PFXS→PFXT": {IgnoreMissing: true, Fields: map[string]*FieldSpec{"Name": {Ignore: true}}}, "PFXR→PFXT": {IgnoreMissing: true}}},
		// two declared methods for one struct pair that differ in pointers only, BOTH with field settings: the
		// pointer method would call the value method and lose its own settings - reported
		{Name: "fail_overlap_both_methods_have_settings", Decls: "type PFXIn struct {\n\tName string\n\tEmail string\n\tPassword string\n}\ntype PFXOut struct {\n\tName string\n\tEmail string\n\tPassword string\n}\n", Src: "*PFXIn", Tgt: "*PFXOut",
			Lines: []string{"ignore Password"}, Extra: "\t// goverter:ignore Email\n\tPFXInner(source PFXIn) PFXOut\n",
			Fail: "field settings on a *S -> *T method that a declared S -> T method (with settings of its own) bypasses"},
		{Name: "fail_overlap_both_methods_have_settings_value_target", Decls: "type PFXIn struct {\n\tName string\n\tEmail string\n}\ntype PFXOut struct {\n\tName string\n\tEmail string\n}\n", Src: "PFXIn", Tgt: "*PFXOut",
			Lines: []string{"ignore Name"}, Extra: "\t// goverter:map Name Email\n\tPFXInner(source PFXIn) PFXOut\n",
			Fail: "field settings on a S -> *T method that a declared S -> T method (with settings of its own) bypasses"},
		// ... and the settings are back in force for the fields declared after the nested conversion
		{Name: "settings_in_force_after_nested_other_source", Decls: "type PFXS struct {\n\tTitle string\n\tPrev []PFXR\n\tSecret string\n\tLate string\n}\ntype PFXR struct {\n\tName string\n\tSecret string\n\tZ string\n}\ntype PFXT struct {\n\tName string\n\tPrev []PFXT\n\tSecret string\n\tZ string\n}\n", Src: "*PFXS", Tgt: "*PFXT",
			Conv: []string{"ignoreMissing"}, Lines: []string{"map Title Name", "ignore Secret", "map Late Z"},
			Pairs: map[string]*PairSpec{"PFXS→PFXT": {IgnoreMissing: true, Fields: map[string]*FieldSpec{"Name": fs("Title"), "Secret": {Ignore: true}, "Z": fs("Late")}}, "PFXR→PFXT": {IgnoreMissing: true}}},
		// two settings for one target field contradict each other: reported, not resolved silently
		{Name: "fail_field_mapped_twice", Decls: "type PFXIn struct {\n\tA string\n\tB string\n}\ntype PFXOut struct{ X string }\n", Src: "PFXIn", Tgt: "PFXOut",
			Lines: []string{"map A X", "map B X"}, Fail: "two goverter:map lines for one target field"},
		{Name: "fail_field_ignored_and_mapped", Decls: "type PFXIn struct {\n\tA string\n\tB string\n}\ntype PFXOut struct{ X string }\n", Src: "PFXIn", Tgt: "PFXOut",
			Lines: []string{"ignore X", "map A X"}, Fail: "a target field that is ignored and mapped"},
		{Name: "fail_field_mapped_and_ignored", Decls: "type PFXIn struct {\n\tA string\n\tB string\n}\ntype PFXOut struct{ X string }\n", Src: "PFXIn", Tgt: "PFXOut",
			Lines: []string{"map A X", "ignore X"}, Fail: "a target field that is mapped and ignored"},
		// field settings on a method that hands the whole conversion to an extend function of its own signature
		// ... and on a method over pointers to the structs, when an extend function exists for the struct pair itself
		{Name: "fail_settings_bypassed_by_extend_ptr_ptr", Decls: "type PFXIn struct {\n\tName string\n\tFullName string\n}\ntype PFXOut struct{ Name string }\nfunc PFXWhole(in PFXIn) PFXOut { return PFXOut{} }\n", Src: "*PFXIn", Tgt: "*PFXOut",
			Conv: []string{"extend PFXWhole"}, Lines: []string{"map FullName Name"}, Fail: "field settings on a *S -> *T method whose struct pair is converted by an extend function"},
		{Name: "fail_settings_bypassed_by_extend_val_ptr", Decls: "type PFXIn struct {\n\tName string\n\tFullName string\n}\ntype PFXOut struct{ Name string }\nfunc PFXWhole(in PFXIn) PFXOut { return PFXOut{} }\n", Src: "PFXIn", Tgt: "*PFXOut",
			Conv: []string{"extend PFXWhole"}, Lines: []string{"ignore Name"}, Fail: "field settings on a S -> *T method whose struct pair is converted by an extend function"},
		{Name: "fail_settings_bypassed_by_extend_ptr_val", Decls: "type PFXIn struct {\n\tName string\n\tFullName string\n}\ntype PFXOut struct{ Name string }\nfunc PFXWhole(in PFXIn) PFXOut { return PFXOut{} }\n", Src: "*PFXIn", Tgt: "PFXOut",
			Conv: []string{"extend PFXWhole", "useZeroValueOnPointerInconsistency"}, Lines: []string{"map FullName Name"}, Fail: "field settings on a *S -> T method whose struct pair is converted by an extend function"},
		// (an extend function for *another* source struct does not bypass anything)
		{Name: "settings_kept_next_to_extend_for_other_source", Decls: "type PFXIn struct {\n\tName string\n\tFullName string\n\tPrev []PFXOld\n}\ntype PFXOld struct{ Name string }\ntype PFXOut struct {\n\tName string\n\tPrev []PFXOut\n}\nfunc PFXFromOld(in PFXOld) PFXOut { return PFXOut{} }\n", Src: "PFXIn", Tgt: "PFXOut",
			Conv: []string{"extend PFXFromOld"}, Lines: []string{"map FullName Name"},
			Pairs:  map[string]*PairSpec{"PFXIn→PFXOut": {Fields: map[string]*FieldSpec{"Name": fs("FullName")}}},
			Custom: map[string]string{"PFXOld→PFXOut": "PFXFromOld"}},
		{Name: "fail_settings_on_delegating_method_map", Decls: "type PFXIn struct {\n\tName string\n\tFullName string\n}\ntype PFXOut struct{ Name string }\nfunc PFXWhole(in PFXIn) PFXOut { return PFXOut{} }\n", Src: "PFXIn", Tgt: "PFXOut",
			Conv: []string{"extend PFXWhole"}, Lines: []string{"map FullName Name"}, Fail: "field settings (map) on a method that delegates to an extend function of the same signature"},
		{Name: "fail_settings_on_delegating_method_ignore", Decls: "type PFXIn struct{ Name string }\ntype PFXOut struct {\n\tName string\n\tKeep int\n}\nfunc PFXWhole(in *PFXIn) *PFXOut { return nil }\n", Src: "*PFXIn", Tgt: "*PFXOut",
			Conv: []string{"extend PFXWhole"}, Lines: []string{"ignore Keep"}, Fail: "field settings (ignore) on a method that delegates to an extend function of the same signature"},
		{Name: "fail_settings_on_delegating_method_automap", Decls: "type PFXN struct{ Last string }\ntype PFXIn struct{ A PFXN }\ntype PFXOut struct{ Last string }\nfunc PFXWhole(in PFXIn) PFXOut { return PFXOut{} }\n", Src: "PFXIn", Tgt: "PFXOut",
			Conv: []string{"extend PFXWhole"}, Lines: []string{"autoMap A"}, Fail: "field settings (autoMap) on a method that delegates to an extend function of the same signature"},
		// two mapped paths of the same type through different pointers in one method
		{Name: "path_two_ptrs_same_type", Decls: "type PFXAddr struct{ City string }\ntype PFXIn struct {\n\tHome *PFXAddr\n\tWork *PFXAddr\n\tOther *PFXAddr\n}\ntype PFXOut struct {\n\tHomeCity *string\n\tWorkCity *string\n\tOtherCity *string\n}\n", Src: "PFXIn", Tgt: "PFXOut",
			Lines: []string{"map Home.City HomeCity", "map Work.City WorkCity", "map Other.City OtherCity"},
			Pairs: map[string]*PairSpec{"PFXIn→PFXOut": {Fields: map[string]*FieldSpec{"HomeCity": fs("Home", "City"), "WorkCity": fs("Work", "City"), "OtherCity": fs("Other", "City")}}}},
		{Name: "path_two_ptrs_same_type_zero", Decls: "type PFXAddr struct{ City string }\ntype PFXIn struct {\n\tHome *PFXAddr\n\tWork *PFXAddr\n}\ntype PFXOut struct {\n\tHomeCity string\n\tWorkCity string\n}\n", Src: "PFXIn", Tgt: "PFXOut",
			Lines: []string{"map Home.City HomeCity", "map Work.City WorkCity", "useZeroValueOnPointerInconsistency"}, ZeroNil: true,
			Pairs: map[string]*PairSpec{"PFXIn→PFXOut": {Fields: map[string]*FieldSpec{"HomeCity": fs("Home", "City"), "WorkCity": fs("Work", "City")}}}},
		// the whole source (which holds references) as one field, through a pointer source
		{Name: "whole_with_references_ptr_source", Decls: "type PFXIn struct {\n\tName string\n\tTags []string\n\tP *int\n\tM map[string]int\n}\ntype PFXOut struct {\n\tName string\n\tOrig PFXIn\n}\n", Src: "*PFXIn", Tgt: "*PFXOut",
			Lines: []string{"map . Orig"},
			Pairs: map[string]*PairSpec{"PFXIn→PFXOut": {Fields: map[string]*FieldSpec{"Orig": {Whole: true}}}}},
		{Name: "whole_with_references_value_source", Decls: "type PFXIn struct {\n\tName string\n\tTags []string\n\tP *int\n}\ntype PFXOut struct {\n\tName string\n\tOrig PFXIn\n}\n", Src: "PFXIn", Tgt: "PFXOut",
			Lines: []string{"map . Orig"},
			Pairs: map[string]*PairSpec{"PFXIn→PFXOut": {Fields: map[string]*FieldSpec{"Orig": {Whole: true}}}}},
		// field settings need a struct (or pointer to struct) target: deeper pointer chains are not
		{Name: "fail_settings_on_double_pointer_method", Decls: in + "type PFXOut struct {\n\tTitle string\n\tAge int\n}\n", Src: "PFXIn", Tgt: "**PFXOut",
			Lines: []string{"map Name Title"}, Fail: "field settings on a method whose target is a pointer to a pointer"},
		{Name: "fail_ignore_on_double_pointer_method", Decls: "type PFXSrc struct {\n\tName string\n\tSecret string\n}\ntype PFXOut struct {\n\tName string\n\tSecret string\n}\n", Src: "PFXSrc", Tgt: "**PFXOut",
			Lines: []string{"ignore Secret"}, Fail: "field settings on a method whose target is a pointer to a pointer"},
		// the same exact name below two autoMap paths is ambiguous, whatever the order of the lines
		{Name: "fail_automap_two_paths_exact", Decls: "type PFXIn struct {\n\tBilling PFXA1\n\tShipping PFXA2\n}\ntype PFXA1 struct{ Street string }\ntype PFXA2 struct {\n\tStreet string\n\tCity string\n}\ntype PFXOut struct {\n\tStreet string\n\tCity string\n}\n", Src: "PFXIn", Tgt: "PFXOut",
			Lines: []string{"autoMap Billing", "autoMap Shipping"}, Fail: "autoMap ambiguity (exact name below two paths)"},
		{Name: "fail_automap_two_paths_exact_reversed", Decls: "type PFXIn struct {\n\tBilling PFXA1\n\tShipping PFXA2\n}\ntype PFXA1 struct{ Street string }\ntype PFXA2 struct {\n\tStreet string\n\tCity string\n}\ntype PFXOut struct {\n\tStreet string\n\tCity string\n}\n", Src: "PFXIn", Tgt: "PFXOut",
			Lines: []string{"autoMap Shipping", "autoMap Billing"}, Fail: "autoMap ambiguity (exact name below two paths)"},
		// `no` values are field settings as well
		{Name: "fail_ignoremissing_no_on_slice_method", Decls: in + "type PFXOut struct {\n\tName string\n\tAge int\n}\n", Src: "[]PFXIn", Tgt: "[]PFXOut",
			Lines: []string{"ignoreMissing no"}, Fail: "field setting (with value no) on a method whose target is not the struct"},
		{Name: "fail_matchignorecase_no_on_slice_method", Decls: in + "type PFXOut struct {\n\tName string\n\tAge int\n}\n", Src: "map[string]PFXIn", Tgt: "map[string]PFXOut",
			Lines: []string{"matchIgnoreCase no"}, Fail: "field setting (with value no) on a method whose target is not the struct"},
		{Name: "fail_ignoreunexported_no_on_slice_method", Decls: in + "type PFXOut struct {\n\tName string\n\tAge int\n}\n", Src: "[]PFXIn", Tgt: "[]PFXOut",
			Lines: []string{"ignoreUnexported no"}, Fail: "field setting (with value no) on a method whose target is not the struct"},
		{Name: "fail_unexported_target_via_func", Decls: "type PFXIn struct{ Name string }\ntype PFXOut struct {\n\tName string\n\tsecret string\n}\nfunc PFXUpper(s string) string { return s }\n", Src: "PFXIn", Tgt: "PFXOut",
			Lines: []string{"map Name secret | PFXUpper"}, Fail: "unexported target field written through map|FUNC from another package", Formats: []string{"struct", "function"}},
		{Name: "fail_unexported_target_via_map", Decls: "type PFXIn struct{ Name string }\ntype PFXOut struct {\n\tName string\n\tsecret string\n}\n", Src: "PFXIn", Tgt: "PFXOut",
			Lines: []string{"map Name secret"}, Fail: "unexported target field written through map from another package", Formats: []string{"struct", "function"}},
		{Name: "ignoreunexported_same_package", Decls: "type PFXIn struct {\n\tName string\n\tstate string\n}\ntype PFXOut struct {\n\tName string\n\tstate string\n}\n", Src: "PFXIn", Tgt: "PFXOut",
			Lines: []string{"ignoreUnexported"}, Formats: []string{"variable"},
			Pairs: map[string]*PairSpec{"PFXIn→PFXOut": {IgnoreUnexported: true, Fields: map[string]*FieldSpec{"state": {Ignore: true}}}}},
		{Name: "fail_path_behind_pointer_to_basic", Decls: "type PFXIn struct {\n\tPS *string\n\tPL *[]int\n\tN int\n}\ntype PFXOut struct {\n\tName string\n\tN int\n}\n", Src: "PFXIn", Tgt: "PFXOut",
			Lines: []string{"map PS.X Name"}, Fail: "path continues behind a pointer to a non-struct"},
		{Name: "fail_path_behind_pointer_to_pointer", Decls: "type PFXI struct{ Name string }\ntype PFXIn struct {\n\tInner **PFXI\n\tN int\n}\ntype PFXOut struct {\n\tName *string\n\tN int\n}\n", Src: "PFXIn", Tgt: "PFXOut",
			Lines: []string{"map Inner.Name Name"}, Fail: "goverter:map path continuing behind a pointer to a pointer"},
		{Name: "fail_path_behind_pointer_to_slice", Decls: "type PFXIn struct {\n\tPL *[]int\n\tN int\n}\ntype PFXOut struct {\n\tName string\n\tN int\n}\n", Src: "PFXIn", Tgt: "PFXOut",
			Lines: []string{"map PL.X.Y Name"}, Fail: "path continues behind a pointer to a non-struct"},
		{Name: "underscore_fields", Decls: "type PFXIn struct {\n\tName string\n\t_rev int\n\t_deleted *bool\n}\ntype PFXOut struct {\n\tName string\n\t_rev int\n\t_deleted *bool\n}\n", Src: "PFXIn", Tgt: "PFXOut",
			Formats: []string{"variable"}},
		// a field that is skipped (blank, or unexported under ignoreUnexported) does not end the struct: the fields
		// declared after it are converted
		{Name: "underscore_blank_in_the_middle", Decls: "type PFXIn struct {\n\tID int\n\tName string\n\tP *int\n\tTags []string\n\tAttrs map[string]int\n}\ntype PFXOut struct {\n\tID int\n\t_ [0]func()\n\tName string\n\tP *int\n\t_ int\n\tTags []string\n\tAttrs map[string]int\n}\n", Src: "PFXIn", Tgt: "PFXOut"},
		{Name: "underscore_ignoreunexported_in_the_middle", Decls: "type PFXIn struct {\n\tID int\n\tName string\n\tP *int\n\tTags []string\n}\ntype PFXOut struct {\n\tID int\n\tcache int\n\tName string\n\tP *int\n\tstate *int\n\tTags []string\n}\n", Src: "PFXIn", Tgt: "PFXOut",
			Lines: []string{"ignoreUnexported"},
			Pairs: map[string]*PairSpec{"PFXIn→PFXOut": {IgnoreUnexported: true}}},
		// ignoreMissing is about target fields without a source: a goverter:ignore naming a field the target does not
		// have stays an error
		{Name: "fail_map_unknown_target_one_name_form", Decls: "type PFXIn struct {\n\tName string\n\tAge int\n}\ntype PFXOut struct {\n\tName string\n\tAge int\n}\n", Src: "PFXIn", Tgt: "PFXOut",
			Lines: []string{"map Nmae"}, Fail: "goverter:map FIELD (one-name form) naming a field the target does not have"},
		{Name: "fail_ignore_unknown_field_under_ignoremissing", Decls: "type PFXIn struct {\n\tName string\n\tPasswordHash string\n}\ntype PFXOut struct {\n\tName string\n\tPasswordHash string\n\tExtra int\n}\n", Src: "PFXIn", Tgt: "PFXOut",
			Lines: []string{"ignoreMissing", "ignore PaswordHash"}, Fail: "goverter:ignore of a field that does not exist (ignoreMissing in effect)"},
		{Name: "fail_ignore_unknown_field_under_converter_ignoremissing", Decls: "type PFXIn struct {\n\tName string\n\tPasswordHash string\n}\ntype PFXOut struct {\n\tName string\n\tPasswordHash string\n}\n", Src: "PFXIn", Tgt: "PFXOut",
			Conv: []string{"ignoreMissing"}, Lines: []string{"ignore PaswordHash"}, Fail: "goverter:ignore of a field that does not exist (ignoreMissing at converter level)"},
		{Name: "fail_unexported_other_pkg", Decls: "type PFXIn struct {\n\tName string\n\thidden int\n}\ntype PFXOut struct {\n\tName string\n\thidden int\n}\n", Src: "PFXIn", Tgt: "PFXOut",
			Fail: "unexported target field without ignoreUnexported", Formats: []string{"struct"}},
	}
}

// FamilyField: F-field (C05).
func FamilyField(thorough bool) []*Conv {
	var out []*Conv
	for i, fc := range fieldCases() {
		formats := fc.Formats
		if formats == nil {
			formats = []string{"struct", "function", "variable"}
			if !thorough && fc.Fail != "" {
				formats = formats[i%3 : i%3+1]
			}
		}
		for _, f := range formats {
			extra := strings.ReplaceAll(fc.Extra, "\t// goverter:ignore nothing_PLACEHOLDER\n", "")
			if f == "variable" && extra != "" {
				extra = strings.Replace(extra, "PFXInner(", "PFXInner func(", 1)
			}
			cv := &Conv{
				ID:           "field/" + fc.Name + "/" + f,
				Family:       "field",
				Format:       f,
				Params:       "source " + fc.Src,
				Results:      fc.Tgt,
				Decls:        fc.Decls,
				MethodLines:  fc.Lines,
				ConvLines:    fc.Conv,
				ExtraMethods: extra,
				Spec:         &Spec{Pairs: fc.Pairs, ZeroOnNil: fc.ZeroNil, Custom: fc.Custom, SkipCopy: fc.SkipCopy},
				ExpectFail:   fc.Fail != "",
				FailNote:     fc.Fail,
				Aux:          fc.Aux,
				Imports:      fc.Imports,
			}
			out = append(out, cv)
		}
	}
	return out
}
