// Package layerb: symbolic execution of the converters emitted by goverter.
package layerb

import (
	"fmt"
	"go/types"

	"verif/engine"
)

// Bounds of the symbolic input space.
type Bounds struct {
	MaxSlice int // slices: nil, or non-nil with 0..MaxSlice elements
	MaxMap   int // maps: nil, or 0..MaxMap entries with pairwise distinct keys
	RecDepth int // recursion through named types is cut at this depth (pointer/slice/map forced nil)
	Alias    bool
	// Spine: the outermost Spine levels of directly nested slices are non-nil with exactly one element (no
	// choice); the symbolic structure starts below them (deeply nested shapes)
	Spine int `json:",omitempty"`
}

// SymBuilder creates symbolic values of Go types (structure forked, scalars symbolic).
type SymBuilder struct {
	R          *engine.Run
	B          Bounds
	depth      map[*types.Named]int
	ptrPool    map[string][]engine.Pointer // aliasing: earlier pointer targets by pointee type
	slPool     map[string][]engine.Slice
	mapPool    map[string][]engine.Map
	Cut        int // number of positions cut by RecDepth
	n          int
	sliceDepth int
}

func NewSymBuilder(r *engine.Run, b Bounds) *SymBuilder {
	return &SymBuilder{R: r, B: b, depth: map[*types.Named]int{}, ptrPool: map[string][]engine.Pointer{}, slPool: map[string][]engine.Slice{}, mapPool: map[string][]engine.Map{}}
}

func (sb *SymBuilder) tag(path string) string {
	sb.n++
	return path
}

// Sym builds a symbolic value of type t; path names the position for models.
func (sb *SymBuilder) Sym(t types.Type, path string) engine.Value {
	r := sb.R
	switch t := t.(type) {
	case *types.Named:
		sb.depth[t]++
		defer func() { sb.depth[t]-- }()
		return sb.symU(t.Underlying(), t, path)
	case *types.Alias:
		return sb.Sym(types.Unalias(t), path)
	}
	_ = r
	return sb.symU(t, nil, path)
}

func (sb *SymBuilder) cut() bool {
	for _, d := range sb.depth {
		if d > sb.B.RecDepth {
			return true
		}
	}
	return false
}

func (sb *SymBuilder) symU(u types.Type, named *types.Named, path string) engine.Value {
	r := sb.R
	switch u := u.(type) {
	case *types.Basic:
		switch {
		case u.Info()&types.IsBoolean != 0:
			return r.Fresh(engine.BoolSort, path)
		case u.Info()&types.IsInteger != 0:
			bits := map[types.BasicKind]int{types.Int8: 8, types.Uint8: 8, types.Int16: 16, types.Uint16: 16, types.Int32: 32, types.Uint32: 32}[u.Kind()]
			if bits == 0 {
				bits = 64
			}
			return r.Fresh(engine.BV(bits), path)
		case u.Kind() == types.Float32:
			return r.Fresh(engine.Sort{Kind: engine.SFP, Bits: 32}, path)
		case u.Kind() == types.Float64:
			return r.Fresh(engine.Sort{Kind: engine.SFP, Bits: 64}, path)
		case u.Kind() == types.Complex64:
			return engine.Struct{r.Fresh(engine.Sort{Kind: engine.SFP, Bits: 32}, path+"_re"), r.Fresh(engine.Sort{Kind: engine.SFP, Bits: 32}, path+"_im")}
		case u.Kind() == types.Complex128:
			return engine.Struct{r.Fresh(engine.Sort{Kind: engine.SFP, Bits: 64}, path+"_re"), r.Fresh(engine.Sort{Kind: engine.SFP, Bits: 64}, path+"_im")}
		case u.Info()&types.IsString != 0:
			return engine.Str{Atom: r.Fresh(engine.AtomSort, path)}
		case u.Kind() == types.UnsafePointer:
			if r.Choice(2) == 0 {
				return engine.Pointer{}
			}
			slot := new(engine.Value)
			*slot = engine.BVConst(8, 0)
			return engine.Pointer{Slot: slot}
		}
	case *types.Pointer:
		if sb.cut() {
			sb.Cut++
			return engine.Pointer{}
		}
		key := u.Elem().String()
		pool := sb.ptrPool[key]
		n := 2
		if sb.B.Alias {
			n += len(pool)
		}
		c := r.Choice(n)
		switch {
		case c == 0:
			return engine.Pointer{}
		case c == 1:
			slot := new(engine.Value)
			p := engine.Pointer{Slot: slot}
			// register before building the pointee so that inner pointers may not alias outer (acyclic values only)
			*slot = sb.Sym(u.Elem(), path+"_p")
			sb.ptrPool[key] = append(sb.ptrPool[key], p)
			return p
		default:
			return pool[c-2]
		}
	case *types.Slice:
		if sb.cut() {
			sb.Cut++
			return engine.Slice{Nil: true}
		}
		if sb.sliceDepth < sb.B.Spine {
			sb.sliceDepth++
			e := sb.Sym(u.Elem(), path+"_0")
			sb.sliceDepth--
			return engine.Slice{Elems: []engine.Value{e}, Len: 1}
		}
		key := u.Elem().String()
		pool := sb.slPool[key]
		n := 2 + sb.B.MaxSlice
		if sb.B.Alias {
			n += len(pool)
		}
		c := r.Choice(n)
		if c == 0 {
			return engine.Slice{Nil: true}
		}
		if c >= 2+sb.B.MaxSlice {
			return pool[c-2-sb.B.MaxSlice]
		}
		ln := c - 1
		elems := make([]engine.Value, ln)
		for i := range elems {
			elems[i] = sb.Sym(u.Elem(), fmt.Sprintf("%s_%d", path, i))
		}
		s := engine.Slice{Elems: elems, Len: ln}
		if ln > 0 {
			sb.slPool[key] = append(sb.slPool[key], s)
		}
		return s
	case *types.Array:
		a := make(engine.Array, u.Len())
		for i := range a {
			a[i] = sb.Sym(u.Elem(), fmt.Sprintf("%s_%d", path, i))
		}
		return a
	case *types.Map:
		if sb.cut() {
			sb.Cut++
			return engine.Map{}
		}
		key := u.String()
		pool := sb.mapPool[key]
		n := 2 + sb.B.MaxMap
		if sb.B.Alias {
			n += len(pool)
		}
		c := r.Choice(n)
		if c == 0 {
			return engine.Map{}
		}
		if c >= 2+sb.B.MaxMap {
			return pool[c-2-sb.B.MaxMap]
		}
		cnt := c - 1
		m := &engine.MapObj{ID: r.NewObjID()}
		for i := 0; i < cnt; i++ {
			k := sb.Sym(u.Key(), fmt.Sprintf("%s_k%d", path, i))
			for _, e := range m.Entries {
				r.Assume(engine.Not(r.ValEq(e.K, k)))
			}
			v := sb.Sym(u.Elem(), fmt.Sprintf("%s_v%d", path, i))
			m.Entries = append(m.Entries, &engine.MapEntry{K: k, V: v})
		}
		mv := engine.Map{M: m}
		sb.mapPool[key] = append(sb.mapPool[key], mv)
		return mv
	case *types.Struct:
		s := make(engine.Struct, u.NumFields())
		for i := range s {
			s[i] = sb.Sym(u.Field(i).Type(), path+"_"+u.Field(i).Name())
		}
		return s
	case *types.Interface:
		if r.Choice(2) == 0 {
			return engine.Iface{}
		}
		// an opaque non-nil dynamic value
		return engine.Iface{T: types.Typ[types.Int], V: r.Fresh(engine.BV(64), path+"_dyn")}
	case *types.Signature:
		if r.Choice(2) == 0 {
			return engine.Func{}
		}
		return engine.Func{O: r.NewOpaque("func")}
	case *types.Chan:
		if r.Choice(2) == 0 {
			return engine.Chan{}
		}
		return engine.Chan{O: r.NewOpaque("chan")}
	}
	panic(&engine.Abort{Kind: "unsupported", Reason: fmt.Sprintf("mkSym of %s", u)})
}
