package layerb

import (
	"fmt"
	"math/rand"
	"strings"
)

// customLeaf describes a (S,T) pair served by a custom function.
type customLeaf struct {
	Name        string
	Shape       shape
	ConvLines   []string
	Custom      map[string]string // pair -> fn
	CtxParam    string            // extra method parameter(s), e.g. "ctxA PFXCtx"
	Aux         map[string]string
	Imports     []string
	Fallible    bool
	OnlyStruct  bool // needs output format struct
	MethodLines []string
	SkipCopy    bool
}

func customLeaves(fallible bool) []customLeaf {
	errRes := func(t string) string {
		if fallible {
			return "(" + t + ", error)"
		}
		return t
	}
	ret := func(v string) string {
		if fallible {
			return "return " + v + ", nil"
		}
		return "return " + v
	}
	base := "type PFXA int\ntype PFXB int\n"
	leaves := []customLeaf{
		{
			Name:      "extend",
			Shape:     shape{Src: "PFXA", Tgt: "PFXB", Name: "ext", Decls: []string{base + fmt.Sprintf("func PFXExt(a PFXA) %s { %s }", errRes("PFXB"), ret("0"))}},
			ConvLines: []string{"extend PFXExt"},
			Custom:    map[string]string{"PFXA→PFXB": "PFXExt"},
		},
		{
			Name:      "extend_ctx",
			Shape:     shape{Src: "PFXA", Tgt: "PFXB", Name: "extctx", Decls: []string{base + "type PFXCtx struct{ Z int }\n" + fmt.Sprintf("func PFXExt(a PFXA, ctxA PFXCtx) %s { %s }", errRes("PFXB"), ret("0"))}},
			ConvLines: []string{"arg:context:regex ^ctx", "extend PFXExt"},
			Custom:    map[string]string{"PFXA→PFXB": "PFXExt"},
			CtxParam:  "ctxA PFXCtx",
		},
		{
			// the method has contexts the custom function does not take: it is still the function for the pair
			Name:      "extend_method_extra_ctx",
			Shape:     shape{Src: "PFXA", Tgt: "PFXB", Name: "extxctx", Decls: []string{base + "type PFXCtx struct{ Z int }\n" + fmt.Sprintf("func PFXExt(a PFXA) %s { %s }", errRes("PFXB"), ret("0"))}},
			ConvLines: []string{"arg:context:regex ^ctx", "extend PFXExt"},
			Custom:    map[string]string{"PFXA→PFXB": "PFXExt"},
			CtxParam:  "ctxA PFXCtx",
		},
		{
			Name:      "extend_method_more_ctx",
			Shape:     shape{Src: "PFXA", Tgt: "PFXB", Name: "extmctx", Decls: []string{base + "type PFXCtx struct{ Z int }\ntype PFXCty *int\n" + fmt.Sprintf("func PFXExt(a PFXA, ctxA PFXCtx) %s { %s }", errRes("PFXB"), ret("0"))}},
			ConvLines: []string{"arg:context:regex ^ctx", "extend PFXExt"},
			Custom:    map[string]string{"PFXA→PFXB": "PFXExt"},
			CtxParam:  "ctxA PFXCtx, ctxB PFXCty",
		},
		{
			Name:      "extend_ctx_first",
			Shape:     shape{Src: "PFXA", Tgt: "PFXB", Name: "extctx1", Decls: []string{base + "type PFXCtx struct{ Z int }\ntype PFXCty *int\n" + fmt.Sprintf("// goverter:context ctxB\n// goverter:context ctxA\nfunc PFXExt(ctxB PFXCty, a PFXA, ctxA PFXCtx) %s { %s }", errRes("PFXB"), ret("0"))}},
			ConvLines: []string{"arg:context:regex ^ctx", "extend PFXExt"},
			Custom:    map[string]string{"PFXA→PFXB": "PFXExt"},
			CtxParam:  "ctxA PFXCtx, ctxB PFXCty",
		},
		{
			Name:       "extend_conv",
			Shape:      shape{Src: "PFXA", Tgt: "PFXB", Name: "extconv", Decls: []string{base + fmt.Sprintf("func PFXExt(c CNAME, a PFXA) %s { %s }", errRes("PFXB"), ret("0"))}},
			ConvLines:  []string{"extend PFXExt"},
			Custom:     map[string]string{"PFXA→PFXB": "PFXExt"},
			OnlyStruct: true,
		},
		{
			// the converter parameter is passed where it is declared, not necessarily first
			Name:       "extend_conv_last",
			Shape:      shape{Src: "PFXA", Tgt: "PFXB", Name: "extconvlast", Decls: []string{base + fmt.Sprintf("func PFXExt(a PFXA, c CNAME) %s { %s }", errRes("PFXB"), ret("0"))}},
			ConvLines:  []string{"extend PFXExt"},
			Custom:     map[string]string{"PFXA→PFXB": "PFXExt"},
			OnlyStruct: true,
		},
		{
			Name:       "extend_conv_middle",
			Shape:      shape{Src: "PFXA", Tgt: "PFXB", Name: "extconvmid", Decls: []string{base + "type PFXCtx struct{ Z int }\n" + fmt.Sprintf("func PFXExt(a PFXA, c CNAME, ctxA PFXCtx) %s { %s }", errRes("PFXB"), ret("0"))}},
			ConvLines:  []string{"arg:context:regex ^ctx", "extend PFXExt"},
			Custom:     map[string]string{"PFXA→PFXB": "PFXExt"},
			CtxParam:   "ctxA PFXCtx",
			OnlyStruct: true,
		},
		{
			// two extend functions with the same name in different packages (different pairs)
			Name:      "extend_same_name_two_pkgs",
			Shape:     shape{Src: "PFXPair", Tgt: "PFXPairT", Name: "extsamename", Decls: []string{"type PFXPair struct {\n\tL pfxone.A1\n\tR pfxtwo.A2\n}\ntype PFXPairT struct {\n\tL pfxone.B1\n\tR pfxtwo.B2\n}\n"}},
			ConvLines: []string{"extend corpus/GRP/pfxone:Normalize", "extend corpus/GRP/pfxtwo:Normalize"},
			Custom:    map[string]string{"A1→B1": "Normalize", "A2→B2": "Normalize"},
			Aux: map[string]string{
				"pfxone": "package pfxone\n\ntype A1 struct{ V int }\ntype B1 struct{ V int }\n\n" + fmt.Sprintf("func Normalize(a A1) %s { %s }\n", errRes("B1"), ret("B1{}")),
				"pfxtwo": "package pfxtwo\n\ntype A2 struct{ V int }\ntype B2 struct{ V int }\n\n" + fmt.Sprintf("func Normalize(a A2) %s { %s }\n", errRes("B2"), ret("B2{}")),
			},
			Imports: []string{`pfxone "corpus/GRP/pfxone"`, `pfxtwo "corpus/GRP/pfxtwo"`},
		},
		{
			// a converter-typed parameter stays the converter also when its name matches arg:context:regex
			Name:       "extend_conv_regexmatch",
			Shape:      shape{Src: "PFXA", Tgt: "PFXB", Name: "extconvre", Decls: []string{base + "type PFXCtx struct{ Z int }\n" + fmt.Sprintf("func PFXExt(conv CNAME, a PFXA, ctxA PFXCtx) %s { %s }", errRes("PFXB"), ret("0"))}},
			ConvLines:  []string{"arg:context:regex ^(c|ctx)", "extend PFXExt"},
			Custom:     map[string]string{"PFXA→PFXB": "PFXExt"},
			CtxParam:   "ctxA PFXCtx",
			OnlyStruct: true,
		},
		{
			Name:      "extend_pkg",
			Shape:     shape{Src: "PFXA", Tgt: "PFXB", Name: "extpkg", Decls: []string{"type PFXA = pfxext.A\ntype PFXB = pfxext.B\n"}},
			ConvLines: []string{"extend corpus/GRP/pfxext:Ext"},
			Custom:    map[string]string{"A→B": "Ext"},
			Aux:       map[string]string{"pfxext": "package pfxext\n\ntype A int\ntype B int\n\n" + fmt.Sprintf("func Ext(a A) %s { %s }\n", errRes("B"), ret("0"))},
			Imports:   []string{`pfxext "corpus/GRP/pfxext"`},
		},
		{
			Name:      "extend_regex",
			Shape:     shape{Src: "PFXA", Tgt: "PFXB", Name: "extre", Decls: []string{base + fmt.Sprintf("func PFXExtOne(a PFXA) %s { %s }\nfunc PFXExtTwo(a string) %s { %s }\nfunc PFXOther(a PFXA) PFXB { return 1 }\nfunc OldPFXExtOne(a PFXA) PFXB { return 2 }\nfunc ZoldPFXExtOne(a PFXA) PFXB { return 4 }\nfunc PFXExtOneOld(a PFXB) PFXA { return 3 }", errRes("PFXB"), ret("0"), errRes("bool"), ret("false"))}},
			ConvLines: []string{"extend PFXExt(One|Two)"},
			Custom:    map[string]string{"PFXA→PFXB": "PFXExtOne", "string→bool": "PFXExtTwo"},
		},
		{
			// regex-selected functions whose context is declared by doc comment; a second function matches the pattern
			Name:        "extend_regex_doc_ctx",
			Shape:       shape{Src: "PFXA", Tgt: "PFXB", Name: "extrectx", Decls: []string{base + "type PFXTab struct{ Z int }\n" + fmt.Sprintf("// goverter:context table\nfunc PFXResolveA(a PFXA, table PFXTab) %s { %s }\nfunc PFXResolveOther(a bool) %s { %s }", errRes("PFXB"), ret("0"), errRes("bool"), ret("false"))}},
			ConvLines:   []string{"extend PFXResolve.*"},
			Custom:      map[string]string{"PFXA→PFXB": "PFXResolveA", "bool→bool": "PFXResolveOther"},
			CtxParam:    "ctxT PFXTab",
			MethodLines: []string{"context ctxT"},
		},
		{
			// the same defined type on both sides still goes through the function for its underlying type
			Name:      "extend_underlying_same_defined_type",
			Shape:     shape{Src: "PFXE", Tgt: "PFXE", Name: "extundsame", Decls: []string{"type PFXE string\n" + fmt.Sprintf("func PFXExt(a string) %s { %s }", errRes("string"), ret(`""`))}},
			ConvLines: []string{"extend PFXExt", "useUnderlyingTypeMethods"},
			Custom:    map[string]string{"PFXE→PFXE": "PFXExt", "string→string": "PFXExt"},
		},
		{
			Name:      "extend_underlying",
			Shape:     shape{Src: "PFXA", Tgt: "PFXS", Name: "extund", Decls: []string{"type PFXA int\ntype PFXS string\n" + fmt.Sprintf("func PFXExt(a int) %s { %s }", errRes("string"), ret(`""`))}},
			ConvLines: []string{"extend PFXExt", "useUnderlyingTypeMethods"},
			Custom:    map[string]string{"PFXA→PFXS": "PFXExt", "int→string": "PFXExt"},
		},
		{
			Name:      "extend_same_basic",
			Shape:     shape{Src: "string", Tgt: "string", Name: "extstr", Decls: []string{fmt.Sprintf("func PFXExt(a string) %s { %s }", errRes("string"), ret(`""`))}},
			ConvLines: []string{"extend PFXExt"},
			Custom:    map[string]string{"string→string": "PFXExt"},
		},
		{
			// ... for every basic kind (numeric and bool pointees are no exception)
			Name:      "extend_same_int",
			Shape:     shape{Src: "int", Tgt: "int", Name: "extint", Decls: []string{fmt.Sprintf("func PFXExtI(a int) %s { %s }", errRes("int"), ret("0"))}},
			ConvLines: []string{"extend PFXExtI"},
			Custom:    map[string]string{"int→int": "PFXExtI"},
		},
		{
			Name:      "extend_same_bool",
			Shape:     shape{Src: "bool", Tgt: "bool", Name: "extbool", Decls: []string{fmt.Sprintf("func PFXExtB(a bool) %s { %s }", errRes("bool"), ret("false"))}},
			ConvLines: []string{"extend PFXExtB"},
			Custom:    map[string]string{"bool→bool": "PFXExtB"},
		},
		{
			// a custom function for identical source and target types wins over skipCopySameType at every position
			Name:      "extend_same_basic_skipcopy",
			Shape:     shape{Src: "string", Tgt: "string", Name: "extstrskip", Decls: []string{fmt.Sprintf("func PFXExt(a string) %s { %s }", errRes("string"), ret(`""`))}},
			ConvLines: []string{"extend PFXExt", "skipCopySameType"},
			Custom:    map[string]string{"string→string": "PFXExt"},
			SkipCopy:  true,
		},
		{
			Name:      "extend_same_struct_skipcopy",
			Shape:     shape{Src: "PFXV", Tgt: "PFXV", Name: "extvskip", Decls: []string{"type PFXV struct{ N int }\n" + fmt.Sprintf("func PFXExt(a PFXV) %s { %s }", errRes("PFXV"), ret("a"))}},
			ConvLines: []string{"extend PFXExt", "skipCopySameType"},
			Custom:    map[string]string{"PFXV→PFXV": "PFXExt"},
			SkipCopy:  true,
		},
		{
			Name:      "extend_struct",
			Shape:     shape{Src: "PFXIn", Tgt: "PFXOut", Name: "extstruct", Decls: []string{"type PFXIn struct{ V int }\ntype PFXOut struct{ W string }\n" + fmt.Sprintf("func PFXExt(a PFXIn) %s { %s }", errRes("PFXOut"), ret("PFXOut{}"))}},
			ConvLines: []string{"extend PFXExt"},
			Custom:    map[string]string{"PFXIn→PFXOut": "PFXExt"},
		},
		{
			Name:      "extend_ptr",
			Shape:     shape{Src: "*PFXIn", Tgt: "*PFXOut", Name: "extptr", Decls: []string{"type PFXIn struct{ V int }\ntype PFXOut struct{ W string }\n" + fmt.Sprintf("func PFXExt(a *PFXIn) %s { %s }", errRes("*PFXOut"), ret("nil"))}},
			ConvLines: []string{"extend PFXExt"},
			Custom:    map[string]string{"*PFXIn→*PFXOut": "PFXExt"},
		},
	}
	for i := range leaves {
		leaves[i].Fallible = fallible
	}
	return leaves
}

func customConv(family string, cl customLeaf, s shape, format string, n int, wrap string) *Conv {
	spec := &Spec{Custom: map[string]string{}, SkipCopy: cl.SkipCopy}
	for a, b := range cl.Custom {
		spec.Custom[a] = b
	}
	for a, b := range s.Custom {
		spec.Custom[a] = b
	}
	params := "source " + s.Src
	if cl.CtxParam != "" {
		if n%2 == 0 {
			params = cl.CtxParam + ", " + params
		} else {
			params += ", " + cl.CtxParam
		}
	}
	res := s.Tgt
	if cl.Fallible || n%5 == 0 {
		res = "(" + s.Tgt + ", error)"
	}
	if cl.OnlyStruct {
		format = "struct"
	}
	cv := &Conv{
		ID:          fmt.Sprintf("%s/%s/%s/%s%s", family, cl.Name, s.Name, format, wrap),
		Family:      family,
		Format:      format,
		Params:      params,
		Results:     res,
		Decls:       strings.Join(s.Decls, "\n"),
		ConvLines:   append(append([]string{}, cl.ConvLines...), s.ConvLines...),
		MethodLines: append([]string{}, cl.MethodLines...),
		Spec:        spec,
		Aux:         cl.Aux,
		Imports:     cl.Imports,
	}
	if s.NeedZero {
		cv.ConvLines = append(cv.ConvLines, "useZeroValueOnPointerInconsistency")
		spec.ZeroOnNil = true
	}
	switch wrap {
	case "_wrap":
		spec.WrapMode = "wrap"
		switch n % 3 {
		case 0:
			cv.ConvLines = append(cv.ConvLines, "wrapErrors")
		case 1:
			cv.ConvLines = append(cv.ConvLines, "wrapErrors yes")
		case 2:
			cv.CLI = append(cv.CLI, "wrapErrors")
		}
	case "_using":
		spec.WrapMode = "using"
		// written on the method where everything is converted inline by that method (generated sub-methods take the
		// converter-level value), else on the converter or the command line
		inlineOnly := true
		for i, part := range strings.Split(s.Name, "_") {
			if i > 0 && (part == "struct" || part == "rec" || part == "recp") {
				inlineOnly = false
			}
			if part == "extsamename" && strings.Contains(s.Name, "_") {
				inlineOnly = false // this leaf is itself a named struct pair converted by a generated sub-method
			}
		}
		switch {
		case (n/3)%3 == 2 && inlineOnly:
			cv.MethodLines = append(cv.MethodLines, "wrapErrorsUsing corpus/perr")
		case (n/3)%2 == 0:
			cv.ConvLines = append(cv.ConvLines, "wrapErrorsUsing corpus/perr")
		default:
			cv.CLI = append(cv.CLI, "wrapErrorsUsing corpus/perr")
		}
	}
	return cv
}

func nestings(g *shapeGen, leaf shape, thorough bool) []shape {
	out := []shape{leaf}
	for _, c := range ctors {
		out = append(out, c.F(g, leaf))
	}
	deep := [][]string{
		{"slice", "struct"}, {"map", "struct"}, {"struct", "slice"}, {"struct", "map"}, {"ptr", "struct"},
		{"struct", "ptr"}, {"slice", "slice"}, {"map", "slice"}, {"struct", "struct"}, {"rec", "struct"},
		{"mapnk", "struct"}, {"struct", "mapnk"}, {"anon", "slice"}, {"slice", "map"}, {"addr", "struct"}, {"struct", "deref"},
		{"recp"}, {"struct", "recp"}, {"slice", "recp"},
		{"slice", "addr"}, {"map", "addr"}, {"struct", "addr"}, {"slice", "struct", "addr"}, {"anon", "addr"},
		{"slice", "anon2f"}, {"struct", "slice", "anon", "anon2f"}, {"map", "anon", "anon2f"}, {"struct", "map", "slice", "anon2f"}, {"slice", "slice", "slice", "anon2f"},
	}
	for _, d := range deep {
		s := leaf
		for i := len(d) - 1; i >= 0; i-- {
			s = ctorByName(d[i]).F(g, s)
		}
		out = append(out, s)
	}
	// the custom pair at the key position of a map (comparable leaves only)
	if !strings.Contains(leaf.Src, "PFXIn") && !strings.Contains(leaf.Src, "PFXPair") {
		keyof := func(in shape) shape { return wrap(in, "keyof", "map["+in.Src+"]int", "map["+in.Tgt+"]int") }
		out = append(out, keyof(leaf))
		out = append(out, ctorByName("struct").F(g, keyof(leaf)))
		out = append(out, ctorByName("slice").F(g, keyof(leaf)))
		out = append(out, ctorByName("map").F(g, ctorByName("struct").F(g, keyof(leaf))))
	}
	out = append(out, ctorMapExtKey.F(g, leaf))
	out = append(out, ctorMapExtKey.F(g, ctorByName("struct").F(g, leaf)))
	out = append(out, ctorByName("struct").F(g, ctorMapExtKey.F(g, leaf)))
	out = append(out, ctorByName("slice").F(g, ctorMapExtKey.F(g, ctorByName("slice").F(g, leaf))))
	deep3 := [][]string{
		{"ptr", "map", "slice", "struct"}, {"struct", "slice", "struct"}, {"map", "struct", "slice"}, {"slice", "struct", "map"},
		{"struct", "map", "struct"}, {"slice", "ptr", "struct"},
	}
	if thorough {
		deep3 = append(deep3, [][]string{{"map", "map", "struct"}, {"struct", "struct", "struct"}, {"rec", "slice", "struct"}, {"mapnk", "slice", "anon"}, {"slice", "slice", "slice"}}...)
	}
	for _, d := range deep3 {
		s := leaf
		for i := len(d) - 1; i >= 0; i-- {
			s = ctorByName(d[i]).F(g, s)
		}
		out = append(out, s)
	}
	return out
}

// randomNestings: seeded random compositions (depth 2..4) of the extended constructor set around a custom leaf;
// comparable leaves may additionally sit at a map-key position.
func randomNestings(g *shapeGen, leaf shape, rng *rand.Rand, count int) []shape {
	var out []shape
	seen := map[string]bool{}
	for tries := 0; len(out) < count && tries < count*4; tries++ {
		s := leaf
		if !strings.Contains(leaf.Src, "PFXIn") && !strings.Contains(leaf.Src, "PFXPair") && rng.Intn(5) == 0 {
			s = wrap(s, "keyof", "map["+s.Src+"]int", "map["+s.Tgt+"]int")
		}
		s = randomShape(g, rng, s, 2+rng.Intn(3))
		// (array -> slice at an assignment position is the known C02 defect: not this family's subject)
		if seen[s.Name] || strings.Count(s.Name, "rec") > 1 || strings.Contains(s.Name, "arr_") {
			continue
		}
		seen[s.Name] = true
		out = append(out, s)
	}
	return out
}

// FamilyCustom: F-custom (C06, C14 routing).
func FamilyCustom(thorough bool) []*Conv {
	var out []*Conv
	g := &shapeGen{}
	formats := []string{"struct", "function", "variable"}
	n := 0
	for _, cl := range customLeaves(false) {
		for _, s := range nestings(g, cl.Shape, thorough) {
			if strings.HasPrefix(cl.Shape.Src, "*") && (strings.Contains(s.Name, "ptr_extptr") || strings.Contains(s.Name, "deref_extptr") || strings.Contains(s.Name, "addr_extptr")) {
				continue
			}
			n++
			out = append(out, customConv("custom", cl, s, formats[n%3], n, ""))
		}
	}
	// seeded random nestings
	rng := rand.New(rand.NewSource(Seed*104729 + 3))
	per := 3
	if thorough {
		per = 25
	}
	for _, cl := range customLeaves(false) {
		if strings.HasPrefix(cl.Shape.Src, "*") || cl.SkipCopy {
			continue
		}
		for _, s := range randomNestings(g, cl.Shape, rng, per) {
			n++
			cv := customConv("custom", cl, s, formats[n%3], n, "")
			cv.ID = strings.Replace(cv.ID, "custom/"+cl.Name+"/", "custom/"+cl.Name+"/rnd_", 1)
			cv.Bounds = &Bounds{MaxSlice: 1, MaxMap: 1, RecDepth: 1}
			out = append(out, cv)
		}
	}
	out = append(out, fieldFuncConvs("custom", false)...)
	out = append(out, declaredMethodConvs()...)
	// useUnderlyingTypeMethods: the function for the underlying types needs a context the method does not have -
	// a diagnostic, not a silent fall-back to the plain cast (and the call when the context is there)
	for i, withCtx := range []bool{false, true} {
		cv := &Conv{
			ID: fmt.Sprintf("custom/underlying_needs_context/ctx%v/%s", withCtx, formats[i%3]), Family: "custom", Format: formats[i%3],
			Params: "source []PFXA", Results: "[]PFXB",
			Decls:     "type PFXA int\ntype PFXB int\ntype PFXCtx struct{ Z int }\nfunc PFXExt(a int, ctxA PFXCtx) int { return 0 }\n",
			ConvLines: []string{"arg:context:regex ^ctx", "extend PFXExt", "useUnderlyingTypeMethods"},
			Spec:      &Spec{Custom: map[string]string{"PFXA→PFXB": "PFXExt", "int→int": "PFXExt"}},
		}
		if withCtx {
			cv.Params = "source []PFXA, ctxA PFXCtx"
		} else {
			cv.ExpectFail, cv.FailNote = true, "the underlying-type function needs a context the calling method does not have"
		}
		out = append(out, cv)
	}
	// a pattern selects exported and unexported functions alike when the code is emitted into their package
	for _, pos := range []struct{ name, src, tgt string }{{"top", "PFXA", "PFXB"}, {"elem", "[]PFXA", "[]PFXB"}, {"field", "struct{ V PFXA; S string }", "struct{ V PFXB; S bool }"}} {
		out = append(out, &Conv{
			ID: "custom/extend_regex_unexported/" + pos.name + "/variable", Family: "custom", Format: "variable",
			Params: "source " + pos.src, Results: pos.tgt,
			Decls:     "type PFXA int\ntype PFXB int\nfunc pfxConvA(a PFXA) PFXB { return 0 }\nfunc PFXConvS(a string) bool { return false }\nfunc pfxOther(a PFXA) PFXB { return 1 }\n",
			ConvLines: []string{"extend (pfx|PFX)Conv.*"},
			Spec:      &Spec{Custom: map[string]string{"PFXA→PFXB": "pfxConvA", "string→bool": "PFXConvS"}},
		})
	}
	// a pattern that also matches the variables of the block being generated: they are not custom functions for
	// themselves (a variable implemented by calling itself never terminates)
	for _, pos := range []struct{ name, src, tgt string }{{"top", "PFXA", "PFXB"}, {"elem", "[]PFXA", "[]PFXB"}, {"field", "struct{ V PFXA; S string }", "struct{ V PFXB; S string }"}} {
		out = append(out, &Conv{
			ID: "custom/extend_regex_matches_own_variables/" + pos.name + "/variable", Family: "custom", Format: "variable", Solo: true,
			Params: "source " + pos.src, Results: pos.tgt,
			Decls:     "type PFXA int\ntype PFXB int\nfunc CONVMETHODHelper(a PFXA) PFXB { return 0 }\n",
			ConvLines: []string{"extend CONVMETHOD.*"},
			Spec:      &Spec{Custom: map[string]string{"PFXA→PFXB": "CONVMETHODHelper"}},
		})
	}
	// of two functions for one pair the one registered by the *lower* extend line is used, whether a line is a plain
	// name or a pattern
	for i, order := range [][]string{{"extend PFXConv.*", "extend PFXDateOnly"}, {"extend PFXDateOnly", "extend PFXConv.*"}} {
		for _, pos := range []struct{ name, src, tgt string }{{"field", "struct{ V PFXStamp; N int }", "struct{ V string; N int }"}, {"elem", "[]PFXStamp", "[]string"}} {
			want := []string{"PFXDateOnly", "PFXConvStamp"}[i]
			f := []string{"struct", "function", "variable"}[(i+len(pos.name))%3]
			out = append(out, &Conv{
				ID: fmt.Sprintf("custom/extend_pattern_and_name_lower_line_wins_%d/%s/%s", i, pos.name, f), Family: "custom", Format: f, Solo: true,
				Params: "source " + pos.src, Results: pos.tgt,
				Decls:     "type PFXStamp struct{ Sec int }\nfunc PFXConvStamp(s PFXStamp) string { return \"\" }\nfunc PFXDateOnly(s PFXStamp) string { return \"\" }\n",
				ConvLines: order,
				Spec:      &Spec{Custom: map[string]string{"PFXStamp→string": want}},
			})
		}
	}
	// ... but only the block's own variables are left out: a function of *another* package that merely shares its
	// bare name with a variable of the block is a custom function like any other
	for _, pos := range []struct{ name, src, tgt string }{{"field", "struct{ V pfxext.A; S string }", "struct{ V pfxext.B; S string }"}, {"elem", "[]pfxext.A", "[]pfxext.B"}} {
		out = append(out, &Conv{
			ID: "custom/extend_regex_external_function_named_like_variable/" + pos.name + "/variable", Family: "custom", Format: "variable", Solo: true,
			Params: "source " + pos.src, Results: pos.tgt,
			Aux:       map[string]string{"pfxext": "package pfxext\n\ntype A int\ntype B int\n\nfunc CONVMETHOD(a A) B { return 0 }\nfunc CONVMETHODFlag(f bool) bool { return f }\n"},
			Imports:   []string{`pfxext "corpus/GRP/pfxext"`},
			ConvLines: []string{"extend corpus/GRP/pfxext:CONVMETHOD.*"},
			Spec:      &Spec{Custom: map[string]string{"A→B": "CONVMETHOD", "bool→bool": "CONVMETHODFlag"}},
		})
	}
	return out
}

// FamilyError: F-error (C07).
func FamilyError(thorough bool) []*Conv {
	var out []*Conv
	g := &shapeGen{}
	formats := []string{"struct", "function", "variable"}
	n := 0
	leaves := customLeaves(true)
	for li, cl := range leaves {
		if !thorough && li > 2 && cl.Name != "extend_struct" && cl.Name != "extend_underlying" {
			continue
		}
		for _, s := range nestings(g, cl.Shape, thorough) {
			if strings.HasPrefix(cl.Shape.Src, "*") && (strings.Contains(s.Name, "ptr_extptr") || strings.Contains(s.Name, "deref_extptr") || strings.Contains(s.Name, "addr_extptr")) {
				continue
			}
			for _, wrap := range []string{"", "_wrap", "_using"} {
				n++
				out = append(out, customConv("error", cl, s, formats[n%3], n, wrap))
			}
		}
	}
	// seeded random nestings
	rng := rand.New(rand.NewSource(Seed*1299709 + 5))
	per := 2
	if thorough {
		per = 15
	}
	for li, cl := range leaves {
		if strings.HasPrefix(cl.Shape.Src, "*") || cl.SkipCopy || (!thorough && li > 2 && cl.Name != "extend_struct" && cl.Name != "extend_underlying") {
			continue
		}
		for _, s := range randomNestings(g, cl.Shape, rng, per) {
			for _, wrap := range []string{"", "_wrap", "_using"} {
				n++
				cv := customConv("error", cl, s, formats[n%3], n, wrap)
				cv.ID = strings.Replace(cv.ID, "error/"+cl.Name+"/", "error/"+cl.Name+"/rnd_", 1)
				cv.Bounds = &Bounds{MaxSlice: 1, MaxMap: 1, RecDepth: 1}
				out = append(out, cv)
			}
		}
	}
	for _, wrap := range []string{"", "_wrap", "_using"} {
		for _, cv := range fieldFuncConvs("error", true) {
			cv.ID += wrap
			switch wrap {
			case "_wrap":
				cv.Spec.WrapMode = "wrap"
				cv.ConvLines = append(cv.ConvLines, "wrapErrors")
			case "_using":
				cv.Spec.WrapMode = "using"
				cv.ConvLines = append(cv.ConvLines, "wrapErrorsUsing corpus/perr")
			}
			out = append(out, cv)
		}
	}
	// embedded struct fields are ordinary path elements (named after the embedded type)
	for _, wrap := range []string{"", "_wrap", "_using"} {
		for fi, f := range []string{"struct", "function", "variable"} {
			cv := &Conv{
				ID: "error/extend/embedded_target_field/" + f + wrap, Family: "error", Format: f,
				Params: "source PFXRowS", Results: "(PFXRowT, error)",
				Decls: "type PFXA int\ntype PFXB int\nfunc PFXExt(a PFXA) (PFXB, error) { return 0, nil }\n" +
					"type PFXBaseS struct {\n\tAge PFXA\n\tL []PFXA\n}\ntype PFXBaseT struct {\n\tAge PFXB\n\tL []PFXB\n}\ntype PFXRowS struct {\n\tPFXBaseS\n\tN int\n}\ntype PFXRowT struct {\n\tPFXBaseT\n\tN int\n}\n",
				ConvLines:   []string{"extend PFXExt"},
				MethodLines: []string{"map PFXBaseS PFXBaseT"},
				Spec:        &Spec{Custom: map[string]string{"PFXA→PFXB": "PFXExt"}, Pairs: map[string]*PairSpec{"PFXRowS→PFXRowT": {Fields: map[string]*FieldSpec{"PFXBaseT": {Path: []string{"PFXBaseS"}}}}}},
				Bounds:      &Bounds{MaxSlice: 2, MaxMap: 1, RecDepth: 1},
			}
			switch wrap {
			case "_wrap":
				cv.Spec.WrapMode = "wrap"
				cv.ConvLines = append(cv.ConvLines, "wrapErrors")
			case "_using":
				cv.Spec.WrapMode = "using"
				cv.ConvLines = append(cv.ConvLines, "wrapErrorsUsing corpus/perr")
			}
			_ = fi
			out = append(out, cv)
		}
	}
	// a second declared method reuses a helper (pointer to a recursive struct) that gains its error result only
	// while the first declared method is built: both declared methods are rebuilt
	for fi, f := range []string{"struct", "function", "variable"} {
		extra := "\tZPFXMore(source []*PFXInner) ([]*PFXInnerT, error)\n"
		if f == "variable" {
			extra = "\tZPFXMore func(source []*PFXInner) ([]*PFXInnerT, error)\n"
		}
		cv := &Conv{
			ID: "error/extend/recp_two_declared/" + f, Family: "error", Format: f, Solo: true,
			Params: "source PFXOuter", Results: "(PFXOuterT, error)",
			Decls: "type PFXA int\ntype PFXB int\nfunc PFXExt(a PFXA) (PFXB, error) { return 0, nil }\n" +
				"type PFXInner struct {\n\tSelf *PFXInner\n\tVal PFXA\n}\ntype PFXInnerT struct {\n\tSelf *PFXInnerT\n\tVal PFXB\n}\ntype PFXOuter struct{ I PFXInner }\ntype PFXOuterT struct{ I PFXInnerT }\n",
			ConvLines:    []string{"extend PFXExt"},
			ExtraMethods: extra,
			Spec:         &Spec{Custom: map[string]string{"PFXA→PFXB": "PFXExt"}},
			Bounds:       &Bounds{MaxSlice: 1, MaxMap: 1, RecDepth: 2},
		}
		_ = fi
		out = append(out, cv)
	}
	// update methods: the error of a failing function below them carries the update method's part of the location
	for fi, f := range []string{"struct", "function", "variable"} {
		for _, wrap := range []string{"", "_wrap", "_using"} {
			cv := &Conv{
				ID: "error/extend/update_method/" + f + wrap, Family: "error", Format: f,
				Params: "source PFXIn, target *PFXOut", Results: "error",
				Decls: "type PFXA int\ntype PFXB int\nfunc PFXExt(a PFXA) (PFXB, error) { return 0, nil }\n" +
					"type PFXItem struct{ Qty PFXA }\ntype PFXItemT struct{ Qty PFXB }\ntype PFXIn struct {\n\tAge PFXA\n\tTags map[string]PFXA\n\tItems []PFXItem\n}\ntype PFXOut struct {\n\tAge PFXB\n\tTags map[string]PFXB\n\tItems []PFXItemT\n}\n",
				ConvLines:   []string{"extend PFXExt"},
				MethodLines: []string{"update target"},
				Spec:        &Spec{Custom: map[string]string{"PFXA→PFXB": "PFXExt"}, Update: &UpdateSpec{}},
				Bounds:      &Bounds{MaxSlice: 2, MaxMap: 1, RecDepth: 1},
			}
			switch wrap {
			case "_wrap":
				cv.Spec.WrapMode = "wrap"
				cv.ConvLines = append(cv.ConvLines, "wrapErrors")
			case "_using":
				cv.Spec.WrapMode = "using"
				cv.ConvLines = append(cv.ConvLines, "wrapErrorsUsing corpus/perr")
			}
			_ = fi
			out = append(out, cv)
		}
	}
	// a declared method without error result cannot use a fallible function: must fail
	for _, cl := range leaves[:2] {
		for _, sn := range []string{"", "slice", "struct"} {
			s := cl.Shape
			if sn != "" {
				s = ctorByName(sn).F(g, s)
			}
			cv := customConv("error", cl, s, "struct", 1, "")
			cv.ID += "/noerr"
			cv.Results = s.Tgt
			cv.ExpectFail = true
			cv.FailNote = "fallible custom function used by a method without error result"
			out = append(out, cv)
		}
	}
	// ... also when a sibling with the same source and target (it differs in its contexts) does return an error:
	// each declared method is checked on its own
	for i, f := range []string{"struct", "function", "variable"} {
		sib := "\t// goverter:context loc\n\t// goverter:context unit\n\tZPFXChecked(source PFXIn, loc PFXLoc, unit PFXUnit) (PFXOut, error)\n"
		if f == "variable" {
			sib = strings.Replace(sib, "ZPFXChecked(", "ZPFXChecked func(", 1)
		}
		main := []string{"source PFXIn, tag PFXTag", "source PFXIn", "source PFXIn, tag PFXTag"}[i]
		var ml []string
		if strings.Contains(main, "tag") {
			ml = []string{"context tag"}
		}
		out = append(out, &Conv{
			ID: "error/fail_noerr_method_next_to_fallible_sibling_of_same_pair/" + f, Family: "error", Format: f, Solo: true,
			Params: main, Results: "PFXOut", MethodLines: ml, ExtraMethods: sib,
			Decls:      "type PFXTag string\ntype PFXLoc string\ntype PFXUnit string\ntype PFXIn struct{ Age string }\ntype PFXOut struct{ Age int }\nfunc PFXAtoi(s string) (int, error) { return 0, nil }\n",
			ConvLines:  []string{"extend PFXAtoi"},
			Spec:       &Spec{},
			ExpectFail: true, FailNote: "fallible custom function used by a method without error result (a sibling for the same pair returns an error)",
		})
	}
	return out
}

// fieldFuncConvs: map ... | FUNC variants at struct fields.
func fieldFuncConvs(family string, fallible bool) []*Conv {
	var out []*Conv
	errRes := func(t string) string {
		if fallible {
			return "(" + t + ", error)"
		}
		return t
	}
	ret := func(v string) string {
		if fallible {
			return "return " + v + ", nil"
		}
		return "return " + v
	}
	decl := "type PFXIn struct {\n\tID int\n\tFirst string\n\tNested PFXN\n\tPN *PFXN\n}\ntype PFXN struct{ Last string }\ntype PFXOut struct {\n\tID int\n\tFull string\n\tAge int\n\tLast2 string\n\tFirst string\n}\n" +
		fmt.Sprintf("func PFXFull(s PFXIn) %s { %s }\n", errRes("string"), ret(`""`)) +
		fmt.Sprintf("func PFXAge() %s { %s }\n", errRes("int"), ret("0")) +
		fmt.Sprintf("func PFXLast(s string) %s { %s }\n", errRes("string"), ret(`""`))
	res := "PFXOut"
	if fallible {
		res = "(PFXOut, error)"
	}
	mk := func(name, format string, lines []string, fields map[string]*FieldSpec) *Conv {
		return &Conv{
			ID:          family + "/fieldfunc/" + name + "/" + format,
			Family:      family,
			Format:      format,
			Params:      "source PFXIn",
			Results:     res,
			Decls:       decl,
			MethodLines: lines,
			Spec:        &Spec{Pairs: map[string]*PairSpec{"PFXIn→PFXOut": {Fields: fields}}},
		}
	}
	out = append(out, mk("whole", "struct", []string{"map . Full | PFXFull", "map Age | PFXAge", "map Nested.Last Last2 | PFXLast"},
		map[string]*FieldSpec{
			"Full":  {Whole: true, Fn: "PFXFull"},
			"Age":   {Fn: "PFXAge", FnNoSource: true},
			"Last2": {Path: []string{"Nested", "Last"}, Fn: "PFXLast"},
		}))
	out = append(out, mk("whole", "function", []string{"map . Full | PFXFull", "map Age | PFXAge", "map First Last2 | PFXLast"},
		map[string]*FieldSpec{
			"Full":  {Whole: true, Fn: "PFXFull"},
			"Age":   {Fn: "PFXAge", FnNoSource: true},
			"Last2": {Path: []string{"First"}, Fn: "PFXLast"},
		}))
	out = append(out, mk("whole", "variable", []string{"map . Full | PFXFull", "ignore Age", "map First Last2 | PFXLast"},
		map[string]*FieldSpec{
			"Full":  {Whole: true, Fn: "PFXFull"},
			"Age":   {Ignore: true},
			"Last2": {Path: []string{"First"}, Fn: "PFXLast"},
		}))
	// the whole source handed to a function that takes the pointer the method holds (pointer source)
	{
		cres := "*PFXOut"
		if fallible {
			cres = "(*PFXOut, error)"
		}
		out = append(out, &Conv{
			ID: family + "/fieldfunc/wholeptr/struct", Family: family, Format: "struct",
			Params: "source *PFXIn", Results: cres,
			Decls:       decl + fmt.Sprintf("func PFXFullP(s *PFXIn) %s { %s }\n", errRes("string"), ret(`""`)),
			MethodLines: []string{"map . Full | PFXFullP", "map Age | PFXAge", "map First Last2 | PFXLast"},
			Spec: &Spec{Pairs: map[string]*PairSpec{"PFXIn→PFXOut": {Fields: map[string]*FieldSpec{
				"Full": {Whole: true, Fn: "PFXFullP"}, "Age": {Fn: "PFXAge", FnNoSource: true}, "Last2": {Path: []string{"First"}, Fn: "PFXLast"}}}}},
		})
	}
	// map F | FUNC applies to the configured field only, not to equally named fields of nested unnamed structs
	for _, f := range []string{"struct", "function", "variable"} {
		d := "type PFXIn struct {\n\tFirst string\n\tMeta struct{ First string }\n\tTags []struct{ First string }\n\tPM *struct{ First string }\n}\ntype PFXOut struct {\n\tFirst string\n\tMeta struct{ First string }\n\tTags []struct{ First string }\n\tPM *struct{ First string }\n}\n" +
			fmt.Sprintf("func PFXLast(s string) %s { %s }\n", errRes("string"), ret(`""`))
		out = append(out, &Conv{
			ID: family + "/fieldfunc/noleak_unnamed/" + f, Family: family, Format: f,
			Params: "source PFXIn", Results: res, Decls: d,
			MethodLines: []string{"map First | PFXLast"},
			Spec:        &Spec{Pairs: map[string]*PairSpec{"PFXIn→PFXOut": {Fields: map[string]*FieldSpec{"First": {Path: []string{"First"}, Fn: "PFXLast"}}}}},
		})
	}
	// map GETTER Target [| FUNC]: the source of the field is the result of an argument-less method of the source
	// struct (fallible in the error family), alone and piped through a function; nested below a slice and a map so
	// that the location path has outer elements
	for fi, f := range []string{"struct", "function", "variable"} {
		d := "type PFXP struct{ Born int }\n" +
			fmt.Sprintf("func (p PFXP) Age() %s { %s }\nfunc (p PFXP) Nick() %s { %s }\n", errRes("int"), ret("0"), errRes("string"), ret(`""`)) +
			"type PFXQ struct {\n\tBorn int\n\tYears string\n\tNick string\n}\n" +
			fmt.Sprintf("func PFXFmt(age int) %s { %s }\n", errRes("string"), ret(`""`))
		shapes := []struct{ src, tgt string }{{"PFXP", "PFXQ"}, {"[]PFXP", "[]PFXQ"}, {"map[string]PFXP", "map[string]PFXQ"}}
		sh := shapes[fi]
		r := sh.tgt
		if fallible {
			r = "(" + sh.tgt + ", error)"
		}
		inner := "\t// goverter:map Age Years | PFXFmt\n\tPFXOne(source PFXP) " + strings.Replace(strings.Replace(res, "PFXOut", "PFXQ", 1), "(PFXQ", "(PFXQ", 1) + "\n"
		if f == "variable" {
			inner = strings.Replace(inner, "PFXOne(", "PFXOne func(", 1)
		}
		cv := &Conv{
			ID: family + "/fieldfunc/getter_func/" + f, Family: family, Format: f,
			Params: "source " + sh.src, Results: r, Decls: d,
			Spec: &Spec{Pairs: map[string]*PairSpec{"PFXP→PFXQ": {Fields: map[string]*FieldSpec{
				"Years": {Via: "PFXP.Age", Fn: "PFXFmt"},
				"Nick":  {Via: "PFXP.Nick"},
			}}}},
		}
		if sh.src == "PFXP" {
			cv.MethodLines = []string{"map Age Years | PFXFmt"}
		} else {
			cv.ExtraMethods = inner
		}
		out = append(out, cv)
	}
	// pointer-source method, self-referential struct, a *S field mapped through a function taking *S
	for _, f := range []string{"struct", "function", "variable"} {
		selfDecl := "type PFXEmp struct {\n\tName string\n\tManager *PFXEmp\n}\ntype PFXCard struct {\n\tName string\n\tManagerName string\n}\n" +
			fmt.Sprintf("func PFXNameOf(e *PFXEmp) %s { %s }\n", errRes("string"), ret(`""`))
		cres := "*PFXCard"
		if fallible {
			cres = "(*PFXCard, error)"
		}
		out = append(out, &Conv{
			ID: family + "/fieldfunc/selfptr/" + f, Family: family, Format: f,
			Params: "source *PFXEmp", Results: cres, Decls: selfDecl,
			MethodLines: []string{"map Manager ManagerName | PFXNameOf"},
			Spec:        &Spec{Pairs: map[string]*PairSpec{"PFXEmp→PFXCard": {Fields: map[string]*FieldSpec{"ManagerName": {Path: []string{"Manager"}, Fn: "PFXNameOf"}}}}},
			Bounds:      &Bounds{MaxSlice: 1, MaxMap: 1, RecDepth: 2},
		})
	}
	// map FIELD | FUNC and map SRC FIELD | FUNC on unexported target fields (output in their package) under
	// ignoreUnexported: the explicit lines are not swallowed by the flag
	out = append(out, &Conv{
		ID: family + "/fieldfunc/unexported_target_fields_under_ignoreunexported/variable", Family: family, Format: "variable",
		Params: "source PFXUIn", Results: map[bool]string{false: "PFXUOut", true: "(PFXUOut, error)"}[fallible],
		Decls:       "type PFXUIn struct {\n\tName string\n\tRaw string\n}\ntype PFXUOut struct {\n\tName string\n\tstamp string\n\tupper string\n\tskipped int\n}\n" + fmt.Sprintf("func PFXStamp() %s { %s }\nfunc PFXUpper(s string) %s { %s }\n", errRes("string"), ret(`""`), errRes("string"), ret(`""`)),
		ConvLines:   []string{"ignoreUnexported"},
		MethodLines: []string{"map stamp | PFXStamp", "map Raw upper | PFXUpper"},
		Spec: &Spec{Pairs: map[string]*PairSpec{"PFXUIn→PFXUOut": {IgnoreUnexported: true, Fields: map[string]*FieldSpec{
			"stamp": {Fn: "PFXStamp", FnNoSource: true}, "upper": {Path: []string{"Raw"}, Fn: "PFXUpper"}}}}},
	})
	// a source method with parameters is a getter whose parameters are all contexts, whatever they are called -
	// the converter's arg:context:regex classifies the parameters of converter methods and custom functions only
	for i, f := range []string{"struct", "function", "variable"} {
		lines := [][]string{{"arg:context:regex ^ctx"}, nil, {"arg:context:regex ^ctx"}}[i]
		mlines := [][]string{nil, {"arg:context:regex ^ctx"}, nil}[i]
		getter := []string{"func (p PFXP) Label(l PFXLang, n PFXLevel) string { return \"\" }\n", "func (p PFXP) Label(PFXLang, PFXLevel) string { return \"\" }\n", "func (p PFXP) Label(n PFXLevel, l PFXLang) string { return \"\" }\n"}[i]
		out = append(out, &Conv{
			ID: family + "/fieldfunc/getter_with_contexts/" + f, Family: family, Format: f,
			Params: "source PFXP, ctxLang PFXLang, ctxLevel PFXLevel", Results: "PFXQ",
			Decls:     "type PFXLang string\ntype PFXLevel int\ntype PFXP struct{ Name string }\ntype PFXQ struct {\n\tName string\n\tLabel string\n}\n" + getter,
			ConvLines: lines, MethodLines: mlines,
			Spec: &Spec{Pairs: map[string]*PairSpec{"PFXP→PFXQ": {Fields: map[string]*FieldSpec{"Label": {Via: "PFXP.Label"}}}}},
		})
	}
	// map ... | FUNC whose extra parameter is a context only through a *method-level* arg:context:regex
	for _, f := range []string{"struct", "function", "variable"} {
		cv := mk("methodctx", f, []string{"arg:context:regex ^ctx", "map ID Full | PFXLookup", "ignore Age Last2"},
			map[string]*FieldSpec{
				"Full":  {Path: []string{"ID"}, Fn: "PFXLookup"},
				"Age":   {Ignore: true},
				"Last2": {Ignore: true},
			})
		cv.Decls += fmt.Sprintf("type PFXLoc struct{ Lang string }\nfunc PFXLookup(id int, ctxL PFXLoc) %s { %s }\n", errRes("string"), ret(`""`))
		cv.Params = "source PFXIn, ctxL PFXLoc"
		out = append(out, cv)
		// the same function used by two methods whose own arg:context:regex classify its parameters differently
		sibling := "\t// goverter:arg:context:regex ^label\n\t// goverter:map First Full | PFXLabel\n\t// goverter:ignore Age Last2\n\tAPFXSibling(source PFXIn, labelKind string) " + strings.Replace(res, "PFXOut", "PFXOutB", 1) + "\n"
		if f == "variable" {
			sibling = strings.Replace(sibling, "APFXSibling(", "APFXSibling func(", 1)
		}
		cv3 := mk("tworegexes", f, []string{"arg:context:regex ^ctx", "map First Full | PFXLabel", "ignore Age Last2"},
			map[string]*FieldSpec{
				"Full":  {Path: []string{"First"}, Fn: "PFXLabel"},
				"Age":   {Ignore: true},
				"Last2": {Ignore: true},
			})
		cv3.Decls += "type PFXOutB struct {\n\tID int\n\tFull string\n\tAge int\n\tLast2 string\n\tFirst string\n}\n" + fmt.Sprintf("func PFXLabel(labelKind string, ctxDB string) %s { %s }\n", errRes("string"), ret(`""`))
		cv3.Params = "source PFXIn, ctxDB string"
		cv3.ExtraMethods = sibling
		cv3.Solo = true
		out = append(out, cv3)
		// the function takes only the context
		cv2 := mk("methodctxonly", f, []string{"arg:context:regex ^ctx", "map Full | PFXLocale", "ignore Age Last2"},
			map[string]*FieldSpec{
				"Full":  {Fn: "PFXLocale", FnNoSource: true},
				"Age":   {Ignore: true},
				"Last2": {Ignore: true},
			})
		cv2.Decls += fmt.Sprintf("type PFXLoc struct{ Lang string }\nfunc PFXLocale(ctxL PFXLoc) %s { %s }\n", errRes("string"), ret(`""`))
		cv2.Params = "source PFXIn, ctxL PFXLoc"
		out = append(out, cv2)
	}
	return out
}

// declaredMethodConvs: a declared method with its own field settings is reused wherever its pair occurs.
func declaredMethodConvs() []*Conv {
	var out []*Conv
	decl := "type PFXIn struct {\n\tName string\n\tAge int\n}\ntype PFXOut struct {\n\tTitle string\n\tAge int\n\tExtra int\n}\n"
	wrappers := []struct{ name, src, tgt, extraDecl string }{
		{"slice", "[]PFXIn", "[]PFXOut", ""},
		{"ptr", "*PFXIn", "*PFXOut", ""},
		{"map", "map[string]PFXIn", "map[string]PFXOut", ""},
		{"field", "PFXWs", "PFXWt", "type PFXWs struct {\n\tInner PFXIn\n\tL []PFXIn\n\tP *PFXIn\n}\ntype PFXWt struct {\n\tInner PFXOut\n\tL []PFXOut\n\tP *PFXOut\n}\n"},
		{"slicemapptr", "[]map[string]*PFXIn", "[]map[string]*PFXOut", ""},
	}
	for i, w := range wrappers {
		for fi, format := range []string{"struct", "function", "variable"} {
			if (i+fi)%2 == 1 && i > 1 {
				continue
			}
			inner := "\t// goverter:map Name Title\n\t// goverter:ignore Extra\n\tPFXInner(source PFXIn) PFXOut"
			if format == "variable" {
				inner = "\t// goverter:map Name Title\n\t// goverter:ignore Extra\n\tPFXInner func(source PFXIn) PFXOut"
			}
			out = append(out, &Conv{
				ID:           "custom/declared/" + w.name + "/" + format,
				Family:       "custom",
				Format:       format,
				Params:       "source " + w.src,
				Results:      w.tgt,
				Decls:        decl + w.extraDecl,
				ExtraMethods: inner,
				Spec: &Spec{Pairs: map[string]*PairSpec{"PFXIn→PFXOut": {Fields: map[string]*FieldSpec{
					"Title": {Path: []string{"Name"}},
					"Extra": {Ignore: true},
				}}}},
			})
		}
	}
	// a declared method (or extend function) that needs a context which the calling method cannot supply: the
	// pair must not silently fall back to the automatic conversion - generation fails
	for i, w := range []struct{ name, src, tgt, extraDecl, pairS, pairT string }{
		{"slice", "[]PFXIn", "[]PFXOut", "", "PFXIn", "PFXOut"},
		{"field", "PFXWs", "PFXWt", "type PFXWs struct{ Inner PFXIn }\ntype PFXWt struct{ Inner PFXOut }\n", "PFXIn", "PFXOut"},
		{"unnamed_map_field", "PFXWs", "PFXWt", "type PFXWs struct{ Attrs map[string]string }\ntype PFXWt struct{ Attrs map[string]string }\n", "map[string]string", "map[string]string"},
		{"named_basic_elem", "[]PFXID", "[]PFXKey", "type PFXID int\ntype PFXKey int\n", "PFXID", "PFXKey"},
	} {
		for _, viaExtend := range []bool{false, true} {
			format := []string{"struct", "function", "variable"}[i%3]
			cv := &Conv{
				Family: "custom", Format: format, Params: "source " + w.src, Results: w.tgt,
				Decls:     "type PFXIn struct{ Name string }\ntype PFXOut struct{ Name string }\ntype PFXCtx struct{ Z int }\n" + w.extraDecl,
				ConvLines: []string{"arg:context:regex ^ctx"}, Spec: &Spec{}, ExpectFail: true,
			}
			if viaExtend {
				cv.ID = "custom/fail_extend_needs_missing_context/" + w.name + "/" + format
				cv.Decls += fmt.Sprintf("func PFXExt(source %s, ctxA PFXCtx) %s { var zero %s; return zero }\n", w.pairS, w.pairT, w.pairT)
				cv.ConvLines = append(cv.ConvLines, "extend PFXExt")
				cv.FailNote = "extend function for the pair needs a context the calling method does not have"
			} else {
				cv.ID = "custom/fail_declared_needs_missing_context/" + w.name + "/" + format
				inner := fmt.Sprintf("\tPFXInner(source %s, ctxA PFXCtx) %s\n", w.pairS, w.pairT)
				if format == "variable" {
					inner = strings.Replace(inner, "PFXInner(", "PFXInner func(", 1)
				}
				cv.ExtraMethods = inner
				cv.FailNote = "declared method for the pair needs a context the calling method does not have"
			}
			out = append(out, cv)
		}
	}
	// useUnderlyingTypeMethods: a declared method on the underlying (unnamed struct) types serves the named pair,
	// with its own field settings
	und := "type PFXUA struct {\n\tName string\n\tSecret string\n}\ntype PFXUB struct {\n\tName string\n\tSecret string\n}\n"
	for _, w := range []struct{ name, src, tgt, extra string }{
		{"top", "PFXUA", "PFXUB", ""},
		{"slice", "[]PFXUA", "[]PFXUB", ""},
		{"field", "PFXUWs", "PFXUWt", "type PFXUWs struct {\n\tOne PFXUA\n\tM map[string]*PFXUA\n}\ntype PFXUWt struct {\n\tOne PFXUB\n\tM map[string]*PFXUB\n}\n"},
	} {
		for _, format := range []string{"struct", "function", "variable"} {
			inner := "\t// goverter:ignore Secret\n\tPFXStrip(source struct {\n\t\tName   string\n\t\tSecret string\n\t}) struct {\n\t\tName   string\n\t\tSecret string\n\t}\n"
			if format == "variable" {
				inner = strings.Replace(inner, "PFXStrip(", "PFXStrip func(", 1)
			}
			fields := map[string]*FieldSpec{"Secret": {Ignore: true}}
			out = append(out, &Conv{
				ID: "custom/declared_underlying/" + w.name + "/" + format, Family: "custom", Format: format, Solo: true,
				Params: "source " + w.src, Results: w.tgt, Decls: und + w.extra,
				ConvLines:    []string{"useUnderlyingTypeMethods"},
				ExtraMethods: inner,
				Spec: &Spec{Pairs: map[string]*PairSpec{
					"PFXUA→PFXUB": {Fields: fields},
					"struct{Name string; Secret string}→struct{Name string; Secret string}": {Fields: fields},
				}},
			})
		}
	}
	return out
}

// FamilySibling: two methods of one converter with different values of an inheritable setting share a
// nested struct pair (one generated sub-method). A setting of one method never changes the behaviour of
// its sibling (C12); generated sub-methods take the converter-level value (documented).
func FamilySibling(thorough bool) []*Conv {
	var out []*Conv
	decl := "type PFXA int\ntype PFXB int\nfunc PFXExt(a PFXA) (PFXB, error) { return 0, nil }\n" +
		"type PFXIn struct{ V PFXA }\ntype PFXInT struct{ V PFXB }\n" +
		"type PFXO1 struct {\n\tInner PFXIn\n\tX int\n}\ntype PFXO1T struct {\n\tInner PFXInT\n\tX int\n}\n" +
		"type PFXO2 struct {\n\tInner PFXIn\n\tL []PFXIn\n\tY int\n}\ntype PFXO2T struct {\n\tInner PFXInT\n\tL []PFXInT\n\tY int\n}\n"
	type variant struct {
		name      string
		convLines []string
		sibLines  []string
		testLines []string
		mode      string
	}
	variants := []variant{
		{"sibling_wraps", nil, []string{"wrapErrors"}, nil, ""},
		{"sibling_disables", []string{"wrapErrors"}, []string{"wrapErrors no"}, nil, "wrap"},
		{"sibling_wraps_cli", nil, []string{"wrapErrors yes"}, []string{"wrapErrors no"}, ""},
		{"both_inherit", []string{"wrapErrors"}, nil, nil, "wrap"},
		{"test_overrides", []string{"wrapErrors"}, nil, []string{"wrapErrors no"}, "mixed"},
	}
	for _, v := range variants {
		for _, f := range []string{"struct", "function", "variable"} {
			if v.mode == "mixed" {
				continue // sub-methods keep the converter-level value: covered by both_inherit
			}
			var sb strings.Builder
			for _, l := range v.sibLines {
				sb.WriteString("\t// goverter:" + l + "\n")
			}
			if f == "variable" {
				sb.WriteString("\tAPFXFirst func(source PFXO1) (PFXO1T, error)\n")
			} else {
				sb.WriteString("\tAPFXFirst(source PFXO1) (PFXO1T, error)\n")
			}
			out = append(out, &Conv{
				ID:           "sibling/" + v.name + "/" + f,
				Family:       "sibling",
				Format:       f,
				Params:       "source PFXO2",
				Results:      "(PFXO2T, error)",
				Decls:        decl,
				ConvLines:    append([]string{"extend PFXExt"}, v.convLines...),
				MethodLines:  v.testLines,
				ExtraMethods: sb.String(),
				Spec:         &Spec{Custom: map[string]string{"PFXA→PFXB": "PFXExt"}, WrapMode: v.mode},
				Solo:         true,
			})
		}
	}
	// a sibling's ignoreMissing must not make the shared sub-method tolerate a missing field
	declMiss := "type PFXIn struct{ V int }\ntype PFXInT struct {\n\tV int\n\tMissing int\n}\n" +
		"type PFXO1 struct{ Inner PFXIn }\ntype PFXO1T struct{ Inner PFXInT }\n" +
		"type PFXO2 struct{ Inner PFXIn }\ntype PFXO2T struct{ Inner PFXInT }\n"
	for _, setting := range []string{"ignoreMissing"} {
		out = append(out, &Conv{
			ID: "sibling/fail_" + setting + "/struct", Family: "sibling", Format: "struct",
			Params: "source PFXO2", Results: "PFXO2T", Decls: declMiss,
			ExtraMethods: "\t// goverter:" + setting + "\n\tAPFXFirst(source PFXO1) PFXO1T\n",
			ExpectFail:   true, FailNote: "a sibling method's " + setting + " leaked into the shared sub-method", Spec: &Spec{},
		})
	}
	return out
}

// FamilySiblingSkip: skipCopySameType written on one method only (C12 precedence, C04 sharing).
func FamilySiblingSkip(thorough bool) []*Conv {
	var out []*Conv
	inner := "type PFXA int\ntype PFXB int\n" +
		"type PFXIn struct {\n\tTags []string\n\tP *int\n\tM map[string]int\n\tN PFXA\n}\ntype PFXInT struct {\n\tTags []string\n\tP *int\n\tM map[string]int\n\tN PFXB\n}\n" +
		// (both methods convert the identical unnamed pairs []int, *int, map[string]string in their own bodies)
		"type PFXO1 struct {\n\tInner PFXIn\n\tX int\n\tOwn []int\n\tQ *int\n\tMM map[string]string\n}\ntype PFXO1T struct {\n\tInner PFXInT\n\tX int\n\tOwn []int\n\tQ *int\n\tMM map[string]string\n}\n" +
		"type PFXO2 struct {\n\tInner PFXIn\n\tL []PFXIn\n\tOwn []int\n\tQ *int\n\tMM map[string]string\n}\ntype PFXO2T struct {\n\tInner PFXInT\n\tL []PFXInT\n\tOwn []int\n\tQ *int\n\tMM map[string]string\n}\n"
	sib := func(f string, lines ...string) string {
		var sb strings.Builder
		for _, l := range lines {
			sb.WriteString("\t// goverter:" + l + "\n")
		}
		if f == "variable" {
			sb.WriteString("\tAPFXFirst func(source PFXO1) PFXO1T\n")
		} else {
			sb.WriteString("\tAPFXFirst(source PFXO1) PFXO1T\n")
		}
		return sb.String()
	}
	for _, f := range []string{"struct", "function", "variable"} {
		// a sibling that sorts first enables the setting: the method under test still deep-copies, also through
		// the sub-method both share
		out = append(out, &Conv{ID: "siblingskip/sibling_enables/" + f, Family: "siblingskip", Format: f,
			Params: "source PFXO2", Results: "PFXO2T", Decls: inner, ExtraMethods: sib(f, "skipCopySameType"), Spec: &Spec{}, Solo: true})
		// the converter enables it, a sibling switches it off: the method under test passes identical types through
		out = append(out, &Conv{ID: "siblingskip/sibling_disables/" + f, Family: "siblingskip", Format: f,
			Params: "source PFXO2", Results: "PFXO2T", Decls: inner, ConvLines: []string{"skipCopySameType"}, ExtraMethods: sib(f, "skipCopySameType no"), Spec: &Spec{SkipCopy: true}, Solo: true})
		// written on the method only: in effect at every position of that method, below differing containers too
		item := "type PFXKey string\ntype PFXItem struct {\n\tP *int\n\tL []int\n}\ntype PFXList []PFXItem\n"
		for _, sh := range []struct{ name, src, tgt string }{
			{"map_key_differs", "map[string]PFXItem", "map[PFXKey]PFXItem"},
			{"named_slice", "[]PFXItem", "PFXList"},
			{"ptr_to_value", "PFXItem", "*PFXItem"},
			{"struct_fields", "PFXW1", "PFXW2"},
		} {
			d := item
			if sh.name == "struct_fields" {
				d += "type PFXW1 struct {\n\tOne PFXItem\n\tMany map[string]PFXItem\n\tQ *PFXItem\n}\ntype PFXW2 struct {\n\tOne PFXItem\n\tMany map[PFXKey]PFXItem\n\tQ *PFXItem\n}\n"
			}
			out = append(out, &Conv{ID: "siblingskip/method_only_" + sh.name + "/" + f, Family: "siblingskip", Format: f,
				Params: "source " + sh.src, Results: sh.tgt, Decls: d, MethodLines: []string{"skipCopySameType"}, Spec: &Spec{SkipCopy: true}, Solo: true})
		}
		// the converter enables it, the method under test switches it off for its own positions
		flat := "type PFXF1 struct {\n\tTags []string\n\tP *int\n\tM map[string]int\n\tN PFXA\n}\ntype PFXF2 struct {\n\tTags []string\n\tP *int\n\tM map[string]int\n\tN PFXB\n}\ntype PFXA int\ntype PFXB int\n"
		out = append(out, &Conv{ID: "siblingskip/method_disables/" + f, Family: "siblingskip", Format: f,
			Params: "source PFXF1", Results: "PFXF2", Decls: flat, ConvLines: []string{"skipCopySameType"}, MethodLines: []string{"skipCopySameType no"}, Spec: &Spec{}, Solo: true})
	}
	return out
}
