package layerb

import (
	"fmt"
	"go/types"
	"strings"

	"verif/engine"
)

// Spec carries the intent of a corpus program that cannot be read off the types.
type Spec struct {
	// Pairs: per (source type → target type) struct pair (types.TypeString without package), field intent.
	Pairs map[string]*PairSpec `json:"pairs,omitempty"`
	// Custom: (S→T) pairs that must be served by a custom function / havoc callee.
	Custom map[string]string `json:"custom,omitempty"`
	// Enums: (S→T) enum pairs.
	Enums map[string]*EnumSpec `json:"enums,omitempty"`
	// ZeroOnNil: *T→U allowed (useZeroValueOnPointerInconsistency)
	ZeroOnNil bool `json:"zero_on_nil,omitempty"`
	// SkipCopy: skipCopySameType in effect.
	SkipCopy bool `json:"skip_copy,omitempty"`
	// MatchIgnoreCase for field names
	IgnoreCase bool `json:"ignore_case,omitempty"`
	// ImplName: struct name set with goverter:name
	ImplName string `json:"impl_name,omitempty"`
	// WrapMode: "" (none), "wrap" (wrapErrors), "using" (wrapErrorsUsing corpus/perr)
	WrapMode string `json:"wrap_mode,omitempty"`
	// Update: update / default semantics of the method under test
	Update *UpdateSpec `json:"update,omitempty"`
}

type PairSpec struct {
	Fields map[string]*FieldSpec `json:"fields,omitempty"`
	// IgnoreMissing: target fields without source stay zero
	IgnoreMissing    bool       `json:"ignore_missing,omitempty"`
	IgnoreUnexported bool       `json:"ignore_unexported,omitempty"`
	IgnoreCase       bool       `json:"ignore_case,omitempty"`
	AutoMap          [][]string `json:"auto_map,omitempty"`
}

type FieldSpec struct {
	Ignore     bool     `json:"ignore,omitempty"`
	Path       []string `json:"path,omitempty"`  // source path; nil = same name
	Whole      bool     `json:"whole,omitempty"` // "." the whole source
	Fn         string   `json:"fn,omitempty"`    // map ... | FUNC
	FnNoSource bool     `json:"fn_no_source,omitempty"`
	// Getter: Fn is an argument-less method of the source struct: its result is the source value of the field
	Getter bool `json:"getter,omitempty"`
	// AnyOf: the statement leaves a choice; every listed alternative is accepted
	Free bool `json:"free,omitempty"`
	// Via: an argument-less method of the source struct (logged as a custom call named "Type.Method") whose result
	// is the source value of this field; Fn, when set, is applied to that result (map GETTER Target | FUNC)
	Via string `json:"via,omitempty"`
}

// viaCall finds the logged getter call on src.
func (o *Oracle) viaCall(name string, src engine.Value) *CallEntry {
	if o.Calls == nil {
		return nil
	}
	for _, c := range o.Calls.Calls {
		if c.Name == name && len(c.SourceArgs) > 0 && o.Identical(c.SourceArgs[0], src).IsTrue() {
			return c
		}
	}
	return nil
}

type EnumSpec struct {
	// Members: source member value (as decimal string or quoted string) -> target value
	Map        []EnumArm `json:"map"`
	Unknown    string    `json:"unknown"` // "@error", "@panic", "@ignore" or target value literal
	UnknownVal string    `json:"unknown_val,omitempty"`
}

type EnumArm struct {
	Src string `json:"src"`
	Tgt string `json:"tgt"`
}

// Leaf is one obligation of the reference mapping.
type Leaf struct {
	Path string
	Cond *engine.Term
	Note string
}

// Oracle evaluates the reference mapping against an actual result.
type Oracle struct {
	R      *engine.Run
	Spec   *Spec
	Leaves []Leaf
	Calls  *CallLog
	// UnknownEnum collects conditions under which an enum source value is not a member (for error/panic expectations)
	depth int
}

func typeKey(t types.Type) string {
	return types.TypeString(t, func(p *types.Package) string { return "" })
}

func pairKey(s, t types.Type) string {
	return typeKey(types.Unalias(s)) + "→" + typeKey(types.Unalias(t))
}

func (o *Oracle) fail(path, format string, a ...interface{}) {
	o.Leaves = append(o.Leaves, Leaf{Path: path, Cond: engine.False, Note: fmt.Sprintf(format, a...)})
}

func (o *Oracle) leaf(path string, c *engine.Term, note string) {
	if c.IsTrue() {
		return
	}
	o.Leaves = append(o.Leaves, Leaf{Path: path, Cond: c, Note: note})
}

// All is the conjunction of all leaves.
func (o *Oracle) All() *engine.Term {
	res := engine.True
	for _, l := range o.Leaves {
		res = engine.And(res, o.R.Name(l.Cond))
	}
	return res
}

// under evaluates f collecting its leaves into one term guarded by g (g ⇒ leaves).
func (o *Oracle) under(g *engine.Term, path string, f func()) {
	if g.IsFalse() {
		return
	}
	save := o.Leaves
	o.Leaves = nil
	f()
	inner := o.Leaves
	o.Leaves = save
	for _, l := range inner {
		o.leaf(l.Path, engine.Implies(g, l.Cond), l.Note)
	}
}

// collect evaluates f and returns the conjunction of its leaves.
func (o *Oracle) collect(f func()) *engine.Term {
	save := o.Leaves
	o.Leaves = nil
	f()
	inner := o.Leaves
	o.Leaves = save
	res := engine.True
	for _, l := range inner {
		res = engine.And(res, l.Cond)
	}
	return o.R.Name(res)
}

func isBasic(t types.Type) (*types.Basic, bool) {
	b, ok := t.Underlying().(*types.Basic)
	return b, ok
}

// Match states: got (of type T) is the conversion of src (of type S).
func (o *Oracle) Match(src engine.Value, S types.Type, got engine.Value, T types.Type, path string) {
	o.depth++
	defer func() { o.depth-- }()
	if o.depth > 40 {
		o.fail(path, "oracle recursion too deep")
		return
	}
	S, T = types.Unalias(S), types.Unalias(T)
	key := pairKey(S, T)
	if o.Spec != nil {
		if fn, ok := o.Spec.Custom[key]; ok {
			o.matchCall(fn, []engine.Value{src}, got, T, path)
			return
		}
		if es, ok := o.Spec.Enums[key]; ok {
			o.matchEnum(es, src, S, got, T, path)
			return
		}
	}
	if o.Spec != nil && o.Spec.SkipCopy && types.Identical(S, T) {
		// skipCopySameType: no custom function serves this pair, so the value is passed through as it is
		// (custom functions for pairs further inside are not consulted)
		o.leaf(path, o.Identical(src, got), "identical types under skipCopySameType: the value must be passed through unchanged")
		return
	}
	su, tu := S.Underlying(), T.Underlying()

	// pointer shapes first (they apply before anything else)
	sp, sIsPtr := su.(*types.Pointer)
	tp, tIsPtr := tu.(*types.Pointer)
	switch {
	case sIsPtr && tIsPtr:
		s, g := src.(engine.Pointer), got.(engine.Pointer)
		if s.Slot == nil {
			if g.Slot != nil {
				o.fail(path, "nil source pointer converted to non-nil pointer")
			}
			return
		}
		if g.Slot == nil {
			o.fail(path, "non-nil source pointer converted to nil")
			return
		}
		o.Match(*s.Slot, sp.Elem(), *g.Slot, tp.Elem(), path+".*")
		return
	case !sIsPtr && tIsPtr:
		if o.identicalOpaque(S, T) {
			break
		}
		g := got.(engine.Pointer)
		if g.Slot == nil {
			o.fail(path, "value converted to nil pointer")
			return
		}
		o.Match(src, S, *g.Slot, tp.Elem(), path+".*")
		return
	case sIsPtr && !tIsPtr:
		s := src.(engine.Pointer)
		if s.Slot == nil {
			o.leaf(path, o.IsZero(got, T), "nil source pointer must give the zero value")
			return
		}
		o.Match(*s.Slot, sp.Elem(), got, T, path)
		return
	}

	switch tu := tu.(type) {
	case *types.Basic:
		sb, ok := su.(*types.Basic)
		if !ok || sb.Kind() != tu.Kind() {
			o.fail(path, "oracle: no rule %s → %s", S, T)
			return
		}
		o.leaf(path, o.sameScalar(src, got), "basic value changed")
	case *types.Slice:
		g := got.(engine.Slice)
		switch su := su.(type) {
		case *types.Slice:
			s := src.(engine.Slice)
			if s.Nil != g.Nil {
				o.fail(path, "slice nil-ness differs (source nil=%v, result nil=%v)", s.Nil, g.Nil)
				return
			}
			if s.Len != g.Len {
				o.fail(path, "slice length differs (%d vs %d)", s.Len, g.Len)
				return
			}
			for i := 0; i < s.Len; i++ {
				o.Match(s.Elems[i], su.Elem(), g.Elems[i], tu.Elem(), fmt.Sprintf("%s[%d]", path, i))
			}
		case *types.Array:
			s := src.(engine.Array)
			if g.Nil && len(s) > 0 {
				o.fail(path, "array converted to nil slice")
				return
			}
			if g.Len != len(s) {
				o.fail(path, "array length not preserved (%d vs %d)", len(s), g.Len)
				return
			}
			for i := range s {
				o.Match(s[i], su.Elem(), g.Elems[i], tu.Elem(), fmt.Sprintf("%s[%d]", path, i))
			}
		default:
			o.fail(path, "oracle: no rule %s → %s", S, T)
		}
	case *types.Array:
		sa, ok := su.(*types.Array)
		if !ok || sa.Len() != tu.Len() {
			o.fail(path, "oracle: no rule %s → %s", S, T)
			return
		}
		s, g := src.(engine.Array), got.(engine.Array)
		for i := range s {
			o.Match(s[i], sa.Elem(), g[i], tu.Elem(), fmt.Sprintf("%s[%d]", path, i))
		}
	case *types.Map:
		sm, ok := su.(*types.Map)
		if !ok {
			o.fail(path, "oracle: no rule %s → %s", S, T)
			return
		}
		s, g := src.(engine.Map), got.(engine.Map)
		if (s.M == nil) != (g.M == nil) {
			o.fail(path, "map nil-ness differs (source nil=%v, result nil=%v)", s.M == nil, g.M == nil)
			return
		}
		if s.M == nil {
			return
		}
		// the property assumes injective key conversions; enum / custom key conversions may collapse keys
		injective := true
		if o.Spec != nil {
			kk := pairKey(sm.Key(), tu.Key())
			if _, ok := o.Spec.Enums[kk]; ok {
				injective = false
			}
			if _, ok := o.Spec.Custom[kk]; ok {
				injective = false
			}
		}
		if injective && len(s.M.Entries) != len(g.M.Entries) {
			o.fail(path, "map entry count differs (%d vs %d)", len(s.M.Entries), len(g.M.Entries))
			return
		}
		if !injective {
			if len(g.M.Entries) > len(s.M.Entries) {
				o.fail(path, "map has more entries than the source (%d vs %d)", len(g.M.Entries), len(s.M.Entries))
				return
			}
			for j, se := range s.M.Entries {
				any := engine.False
				for _, ge := range g.M.Entries {
					se, ge := se, ge
					any = engine.Or(any, o.collect(func() { o.Match(se.K, sm.Key(), ge.K, tu.Key(), path+".key") }))
				}
				o.leaf(fmt.Sprintf("%s{entry %d}", path, j), any, "no result entry has the converted key of this source entry")
			}
			for i, ge := range g.M.Entries {
				any := engine.False
				for _, se := range s.M.Entries {
					se, ge := se, ge
					any = engine.Or(any, o.collect(func() {
						o.Match(se.K, sm.Key(), ge.K, tu.Key(), path+".key")
						o.Match(se.V, sm.Elem(), ge.V, tu.Elem(), path+".value")
					}))
				}
				o.leaf(fmt.Sprintf("%s{result entry %d}", path, i), any, "result entry is not the conversion of any source entry")
			}
			return
		}
		for j, se := range s.M.Entries {
			// some result entry has the converted key and the converted value
			any := engine.False
			for _, ge := range g.M.Entries {
				se, ge := se, ge
				c := o.collect(func() {
					o.Match(se.K, sm.Key(), ge.K, tu.Key(), path+".key")
					o.Match(se.V, sm.Elem(), ge.V, tu.Elem(), path+".value")
				})
				any = engine.Or(any, c)
			}
			o.leaf(fmt.Sprintf("%s{entry %d}", path, j), any, "no result entry holds the conversion of this source entry")
		}
	case *types.Struct:
		ss, ok := su.(*types.Struct)
		if !ok {
			o.fail(path, "oracle: no rule %s → %s", S, T)
			return
		}
		o.matchStruct(src.(engine.Struct), S, ss, got.(engine.Struct), T, tu, path)
	case *types.Interface, *types.Signature, *types.Chan:
		if !types.Identical(S, T) {
			o.fail(path, "oracle: no rule %s → %s", S, T)
			return
		}
		o.leaf(path, o.R.ValEq(src, got), "opaque value changed")
	default:
		o.fail(path, "oracle: unsupported target %s", T)
	}
}

func (o *Oracle) identicalOpaque(S, T types.Type) bool { return false }

// sameScalar: identical bits (floats: NaN payloads are preserved by a copy).
func (o *Oracle) sameScalar(a, b engine.Value) *engine.Term {
	switch a := a.(type) {
	case *engine.Term:
		bt, ok := b.(*engine.Term)
		if !ok {
			return engine.False
		}
		return engine.Same(a, bt)
	case engine.Str:
		return o.R.StrEq(a, b.(engine.Str))
	case engine.Struct: // complex
		bs := b.(engine.Struct)
		r := engine.True
		for i := range a {
			r = engine.And(r, o.sameScalar(a[i], bs[i]))
		}
		return r
	case engine.Pointer: // unsafe.Pointer
		return engine.BoolT(a.Slot == b.(engine.Pointer).Slot)
	}
	return engine.False
}

func (o *Oracle) fieldSpec(S, T types.Type, name string) (*FieldSpec, *PairSpec) {
	if o.Spec == nil {
		return nil, nil
	}
	ps := o.Spec.Pairs[pairKey(S, T)]
	if ps == nil {
		return nil, nil
	}
	return ps.Fields[name], ps
}

func findField(st *types.Struct, name string, fold bool) (int, int) {
	// returns index of the unique match and the number of matches (exact preferred)
	for i := 0; i < st.NumFields(); i++ {
		if st.Field(i).Name() == name {
			return i, 1
		}
	}
	if fold {
		idx, n := -1, 0
		for i := 0; i < st.NumFields(); i++ {
			if strings.EqualFold(st.Field(i).Name(), name) {
				idx = i
				n++
			}
		}
		return idx, n
	}
	return -1, 0
}

func (o *Oracle) matchStruct(src engine.Struct, S types.Type, ss *types.Struct, got engine.Struct, T types.Type, ts *types.Struct, path string) {
	for i := 0; i < ts.NumFields(); i++ {
		tf := ts.Field(i)
		fpath := path + "." + tf.Name()
		if tf.Name() == "_" {
			// blank fields cannot be referred to: there is nothing to set
			continue
		}
		fs, ps := o.fieldSpec(S, T, tf.Name())
		if fs != nil && fs.Free {
			continue
		}
		if fs != nil && fs.Ignore {
			o.leaf(fpath, o.IsZero(got[i], tf.Type()), "ignored field is not the zero value")
			continue
		}
		if fs != nil && fs.Via != "" {
			var recv engine.Value = src
			if fs.Path != nil {
				v, _, nilOn, ok := o.walkPath(src, S, fs.Path, false, tf.Name())
				if !ok || nilOn {
					o.fail(fpath, "oracle: getter behind a nil / bad path %v not modelled", fs.Path)
					continue
				}
				recv = v
			}
			call := o.viaCall(fs.Via, recv)
			if call == nil || call.Failed {
				o.fail(fpath, "getter %s was not called on the source", fs.Via)
				continue
			}
			call.Used = true
			if fs.Fn != "" {
				o.matchCall(fs.Fn, []engine.Value{call.Result}, got[i], tf.Type(), fpath)
			} else {
				o.Match(call.Result, call.ResultType, got[i], tf.Type(), fpath)
			}
			continue
		}
		if fs != nil && fs.Fn != "" {
			var args []engine.Value
			if !fs.FnNoSource {
				v, vt, nilOnPath, ok := o.walkPath(src, S, fs.Path, fs.Whole, tf.Name())
				if !ok {
					o.fail(fpath, "oracle: bad path %v", fs.Path)
					continue
				}
				_ = vt
				if nilOnPath {
					o.fail(fpath, "oracle: nil on path to custom function not modelled")
					continue
				}
				args = []engine.Value{v}
			}
			o.matchCall(fs.Fn, args, got[i], tf.Type(), fpath)
			continue
		}
		var pth []string
		whole := false
		if fs != nil {
			pth, whole = fs.Path, fs.Whole
		}
		if pth == nil && !whole {
			fold := (ps != nil && ps.IgnoreCase) || (o.Spec != nil && o.Spec.IgnoreCase)
			idx, n := findField(ss, tf.Name(), fold)
			if n != 1 {
				if ps != nil && (ps.IgnoreMissing || (ps.IgnoreUnexported && !tf.Exported())) {
					o.leaf(fpath, o.IsZero(got[i], tf.Type()), "unmapped field is not the zero value")
					continue
				}
				o.fail(fpath, "oracle: no unique source field for %s (%d candidates)", tf.Name(), n)
				continue
			}
			o.Match(src[idx], ss.Field(idx).Type(), got[i], tf.Type(), fpath)
			continue
		}
		v, vt, nilOnPath, ok := o.walkPath(src, S, pth, whole, tf.Name())
		if !ok {
			o.fail(fpath, "oracle: bad path %v", pth)
			continue
		}
		if nilOnPath {
			// documented: a nil pointer on the path yields nil / the zero value
			o.leaf(fpath, o.IsZero(got[i], tf.Type()), "nil on mapped path must give nil/zero")
			continue
		}
		o.Match(v, vt, got[i], tf.Type(), fpath)
	}
}

// walkPath follows a field path through the source value, dereferencing pointers.
// When the path crosses a pointer, the resulting source is lifted to a pointer type by goverter;
// here a non-nil path simply yields the final value (and its type, pointer-lifted when crossing).
func (o *Oracle) walkPath(src engine.Value, S types.Type, pth []string, whole bool, dflt string) (engine.Value, types.Type, bool, bool) {
	if whole {
		return src, S, false, true
	}
	cur, ct := src, S
	for _, seg := range pth {
		for {
			p, ok := ct.Underlying().(*types.Pointer)
			if !ok {
				break
			}
			pv := cur.(engine.Pointer)
			if pv.Slot == nil {
				return nil, nil, true, true
			}
			cur, ct = *pv.Slot, p.Elem()
		}
		st, ok := ct.Underlying().(*types.Struct)
		if !ok {
			return nil, nil, false, false
		}
		idx, n := findField(st, seg, false)
		if n != 1 {
			return nil, nil, false, false
		}
		cur, ct = cur.(engine.Struct)[idx], st.Field(idx).Type()
	}
	return cur, ct, false, true
}

// IsZero is the term "v is the zero value of T".
func (o *Oracle) IsZero(v engine.Value, T types.Type) *engine.Term {
	switch v := v.(type) {
	case *engine.Term:
		switch v.Sort.Kind {
		case engine.SBool:
			return engine.Not(v)
		case engine.SBV:
			return engine.Eq(v, engine.BVConst(v.Sort.Bits, 0))
		case engine.SFP:
			// zero value is +0 (bit pattern 0)
			return engine.Same(v, engine.FPConst(v.Sort.Bits, 0))
		case engine.SAtom:
			return engine.Eq(v, o.R.AsAtom(engine.Str{}))
		}
	case engine.Str:
		return o.R.StrEq(v, engine.Str{})
	case engine.Pointer:
		return engine.BoolT(v.Slot == nil)
	case engine.Slice:
		return engine.BoolT(v.Nil)
	case engine.Map:
		return engine.BoolT(v.M == nil)
	case engine.Iface:
		return engine.BoolT(v.T == nil)
	case engine.Func:
		return engine.BoolT(v.IsNil())
	case engine.Chan:
		return engine.BoolT(v.O == nil)
	case engine.Struct:
		st, _ := T.Underlying().(*types.Struct)
		r := engine.True
		for i := range v {
			var ft types.Type
			if st != nil {
				ft = st.Field(i).Type()
			}
			r = engine.And(r, o.IsZero(v[i], ft))
		}
		return r
	case engine.Array:
		r := engine.True
		var et types.Type
		if at, ok := T.Underlying().(*types.Array); ok {
			et = at.Elem()
		}
		for i := range v {
			r = engine.And(r, o.IsZero(v[i], et))
		}
		return r
	}
	return engine.False
}

// Identical is the term "a and b are the same value": identical scalars, the same
// heap objects for pointers, slices, maps.
func (o *Oracle) Identical(a, b engine.Value) *engine.Term {
	switch a := a.(type) {
	case *engine.Term, engine.Str:
		return o.sameScalar(a, b)
	case engine.Pointer:
		bp, ok := b.(engine.Pointer)
		return engine.BoolT(ok && a.Slot == bp.Slot)
	case engine.Slice:
		bs, ok := b.(engine.Slice)
		if !ok || a.Nil != bs.Nil || a.Len != bs.Len {
			return engine.False
		}
		if a.Nil || len(a.Elems) == 0 || len(bs.Elems) == 0 {
			return engine.BoolT(len(a.Elems) == len(bs.Elems))
		}
		return engine.BoolT(&a.Elems[0] == &bs.Elems[0])
	case engine.Map:
		bm, ok := b.(engine.Map)
		return engine.BoolT(ok && a.M == bm.M)
	case engine.Struct:
		bs, ok := b.(engine.Struct)
		if !ok || len(a) != len(bs) {
			return engine.False
		}
		r := engine.True
		for i := range a {
			r = engine.And(r, o.Identical(a[i], bs[i]))
		}
		return r
	case engine.Array:
		bs, ok := b.(engine.Array)
		if !ok || len(a) != len(bs) {
			return engine.False
		}
		r := engine.True
		for i := range a {
			r = engine.And(r, o.Identical(a[i], bs[i]))
		}
		return r
	case engine.Iface:
		bi, ok := b.(engine.Iface)
		if !ok {
			return engine.False
		}
		if a.T == nil || bi.T == nil {
			return engine.BoolT(a.T == nil && bi.T == nil)
		}
		if !types.Identical(a.T, bi.T) {
			return engine.False
		}
		return o.Identical(a.V, bi.V)
	case engine.Func, engine.Chan, *engine.Opaque:
		return o.R.ValEq(a, b)
	case nil:
		return engine.BoolT(b == nil)
	}
	return engine.False
}

// matchCall: got is the logged result of a call to fn whose leading arguments are args.
func (o *Oracle) matchCall(fn string, args []engine.Value, got engine.Value, T types.Type, path string) {
	any := engine.False
	n := 0
	if o.Calls != nil {
		for _, c := range o.Calls.Calls {
			if c.Name != fn {
				continue
			}
			n++
			cond := engine.True
			if len(args) > 0 {
				if len(c.SourceArgs) < len(args) {
					continue
				}
				for i, a := range args {
					cond = engine.And(cond, o.argIs(a, c.SourceArgs[i]))
				}
			}
			res := c.Result
			// a pointer/value mismatch between the function's result and the position is bridged by goverter
			cond = engine.And(cond, o.resultIs(res, c.ResultType, got, T))
			c.Used = true
			any = engine.Or(any, cond)
		}
	}
	note := fmt.Sprintf("value is not the result of a call to %s with the source at this position (%d calls logged)", fn, n)
	o.leaf(path, o.R.Name(any), note)
}

// argIs: the logged argument of a custom function is the expected source value - or a pointer to it (a function that
// takes *S is handed the pointer the method holds, the reference mapping walks the struct behind it)
func (o *Oracle) argIs(want, logged engine.Value) *engine.Term {
	if lp, ok := logged.(engine.Pointer); ok && lp.Slot != nil {
		if _, wantPtr := want.(engine.Pointer); !wantPtr {
			return o.Identical(want, *lp.Slot)
		}
	}
	return o.Identical(want, logged)
}

func (o *Oracle) resultIs(res engine.Value, RT types.Type, got engine.Value, T types.Type) *engine.Term {
	if RT == nil || types.Identical(RT, T) {
		return o.Identical(res, got)
	}
	// result U used for *U
	if tp, ok := T.Underlying().(*types.Pointer); ok && types.Identical(tp.Elem(), RT) {
		g := got.(engine.Pointer)
		if g.Slot == nil {
			return engine.False
		}
		return o.Identical(res, *g.Slot)
	}
	// result *U used for U
	if rp, ok := RT.Underlying().(*types.Pointer); ok && types.Identical(rp.Elem(), T) {
		p := res.(engine.Pointer)
		if p.Slot == nil {
			return o.IsZero(got, T)
		}
		return o.Identical(*p.Slot, got)
	}
	return o.Identical(res, got)
}

func (o *Oracle) matchEnum(es *EnumSpec, src engine.Value, S types.Type, got engine.Value, T types.Type, path string) {
	// filled in by enum.go
	o.enumLeaves(es, src, S, got, T, path)
}
