package layerb

import (
	"bytes"
	"context"
	"encoding/json"
	"fmt"
	"os"
	"os/exec"
	"path/filepath"
	"regexp"
	"sort"
	"strings"
	"sync"
	"time"
)

// Conv is one converter method under test (one "program" of the corpus).
type Conv struct {
	ID     string `json:"id"`
	Family string `json:"family"`
	// Format: "struct" (interface → struct), "function", "variable"
	Format string `json:"format"`
	// Method signature pieces
	Params  string `json:"params"`  // e.g. "source S0"  (Go parameter list)
	Results string `json:"results"` // e.g. "T0" or "(T0, error)" or ""
	// Decls: package-level Go source (types, custom functions) private to this conv;
	// every identifier in it must contain the token PFX which is replaced by a unique prefix.
	Decls string `json:"decls"`
	// ConvLines / MethodLines: goverter: settings without the "goverter:" prefix.
	ConvLines   []string `json:"conv_lines,omitempty"`
	MethodLines []string `json:"method_lines,omitempty"`
	// CLI: settings passed with -g
	CLI []string `json:"cli,omitempty"`
	// InputMayNotCompile: the program is meant to be rejected because a package cannot be loaded
	InputMayNotCompile bool `json:"input_may_not_compile,omitempty"`
	// OutInInput: the converter's lines send the output into the declaring package (struct / function format)
	OutInInput bool `json:"out_in_input,omitempty"`
	// ExtraMethods: further methods of the same converter: raw Go lines (with their own comment lines).
	ExtraMethods string `json:"extra_methods,omitempty"`
	ExpectFail   bool   `json:"expect_fail,omitempty"`
	// AnyOutcome: generation may succeed or fail with a diagnostic (crash / type-check gates only)
	AnyOutcome bool   `json:"any_outcome,omitempty"`
	FailNote   string `json:"fail_note,omitempty"`
	Spec       *Spec  `json:"spec,omitempty"`
	// Solo: do not share a package with other convs
	Solo bool `json:"solo,omitempty"`
	// Aux: auxiliary packages below the group's directory: directory name -> Go source.
	Aux map[string]string `json:"aux,omitempty"`
	// Imports of the input file, e.g. `ea "corpus/GRP/pfxea"`
	Imports []string `json:"imports,omitempty"`
	// PkgName: the input package must have this name (implies Solo); its directory is n<idx>/<PkgName>
	PkgName string `json:"pkg_name,omitempty"`
	// Bounds overrides the driver's input bounds for this program
	Bounds *Bounds `json:"bounds,omitempty"`
	// LoadErr: type errors of the emitted code (C01 gate)
	LoadErr string `json:"load_err,omitempty"`
	// filled by the builder
	Group  string `json:"group"`
	Name   string `json:"name"`   // interface name / variable prefix
	Method string `json:"method"` // method / function / variable name
	Pfx    string `json:"pfx"`
	// Outcome of generation
	GenOK  bool   `json:"gen_ok"`
	GenErr string `json:"gen_err,omitempty"`
	// GenCrash: "panic" or "timeout" when the goverter process crashed or did not terminate (C13)
	GenCrash string `json:"gen_crash,omitempty"`
}

func (c *Conv) subst(s string) string {
	s = strings.ReplaceAll(s, "PFX", c.Pfx)
	s = strings.ReplaceAll(s, "pfx", strings.ToLower(c.Pfx))
	s = strings.ReplaceAll(s, "CNAME", c.Name)
	s = strings.ReplaceAll(s, "CONVMETHOD", c.Method)
	if c.Group != "" {
		s = strings.ReplaceAll(s, "UGRP", strings.ToUpper(c.Group[:1])+c.Group[1:])
	}
	return strings.ReplaceAll(s, "GRP", c.Group)
}

// Corpus is a generated Go module with the converters emitted by the goverter under test.
type Corpus struct {
	Root     string // scratch root
	Dir      string // module dir
	Goverter string // path of the built binary
	Convs    []*Conv
	Groups   map[string][]*Conv
	Emitted  map[string]bool // absolute paths of files written by goverter
	GenTime  time.Duration
	Runs     int
	mu       sync.Mutex
}

// BuildGoverter builds cmd/goverter of the repo's current working tree.
func BuildGoverter(repo, scratch string) (string, error) {
	out := filepath.Join(scratch, "goverter-bin")
	cmd := exec.Command("go", "build", "-buildvcs=false", "-o", out, "./cmd/goverter")
	cmd.Dir = repo
	cmd.Env = append(os.Environ(), "GOFLAGS=-mod=mod", "GOPROXY=off", "GOSUMDB=off", "GOTOOLCHAIN=local")
	if b, err := cmd.CombinedOutput(); err != nil {
		return "", fmt.Errorf("building goverter from %s: %v\n%s", repo, err, b)
	}
	return out, nil
}

const corpusModule = "corpus"

// NewCorpus lays out convs into packages of a fresh module.
func NewCorpus(root, goverterBin string, convs []*Conv, perGroup int) (*Corpus, error) {
	c := &Corpus{Root: root, Dir: filepath.Join(root, "corpus"), Goverter: goverterBin, Convs: convs, Groups: map[string][]*Conv{}, Emitted: map[string]bool{}}
	if err := os.MkdirAll(c.Dir, 0o755); err != nil {
		return nil, err
	}
	if err := os.WriteFile(filepath.Join(c.Dir, "go.mod"), []byte("module "+corpusModule+"\n\ngo 1.21\n"), 0o644); err != nil {
		return nil, err
	}
	// helper package for wrapErrorsUsing
	if err := os.MkdirAll(filepath.Join(c.Dir, "perr"), 0o755); err != nil {
		return nil, err
	}
	if err := os.WriteFile(filepath.Join(c.Dir, "perr", "perr.go"), []byte(perrSrc), 0o644); err != nil {
		return nil, err
	}
	gi := 0
	byFam := map[string][]*Conv{}
	var fams []string
	for _, cv := range convs {
		if _, ok := byFam[cv.Family]; !ok {
			fams = append(fams, cv.Family)
		}
		byFam[cv.Family] = append(byFam[cv.Family], cv)
	}
	sort.Strings(fams)
	n := 0
	for _, fam := range fams {
		var cur []*Conv
		flush := func() {
			if len(cur) == 0 {
				return
			}
			g := fmt.Sprintf("g%03d", gi)
			gi++
			for _, cv := range cur {
				cv.Group = g
			}
			c.Groups[g] = cur
			cur = nil
		}
		for _, cv := range byFam[fam] {
			cv.Pfx = fmt.Sprintf("X%d", n)
			cv.Name = fmt.Sprintf("C%d", n)
			cv.Method = fmt.Sprintf("Conv%d", n)
			n++
			if cv.Spec != nil {
				if b, err := json.Marshal(cv.Spec); err == nil {
					ns := &Spec{}
					if json.Unmarshal([]byte(cv.subst(string(b))), ns) == nil {
						cv.Spec = ns
					}
				}
			}
			if cv.PkgName != "" {
				flush()
				g := fmt.Sprintf("n%03d/%s", gi, cv.PkgName)
				gi++
				cv.Group = g
				c.Groups[g] = []*Conv{cv}
				continue
			}
			if cv.Solo || cv.ExpectFail || cv.AnyOutcome || len(cv.CLI) > 0 {
				flush()
				cur = []*Conv{cv}
				flush()
				continue
			}
			cur = append(cur, cv)
			if len(cur) >= perGroup {
				flush()
			}
		}
		flush()
	}
	return c, nil
}

const perrSrc = `// Package perr is the wrapErrorsUsing helper of the corpus.
package perr

type Elem struct {
	Kind string
	Name string
	Idx  int
	Key  any
}

func Wrap(err error, elems ...Elem) error { return &E{Err: err, Path: elems} }
func Field(name string) Elem              { return Elem{Kind: "field", Name: name} }
func Index(i int) Elem                     { return Elem{Kind: "index", Idx: i} }
func Key(k any) Elem                       { return Elem{Kind: "key", Key: k} }

type E struct {
	Err  error
	Path []Elem
}

func (e *E) Error() string { return "wrapped" }
func (e *E) Unwrap() error { return e.Err }
`

// Source renders the input file of a group.
func (c *Corpus) Source(group string) string {
	var sb strings.Builder
	fmt.Fprintf(&sb, "package %s\n\n", filepath.Base(group))
	convs := c.Groups[group]
	needPerr := false
	for _, cv := range convs {
		if strings.Contains(cv.Decls, "perr.") {
			needPerr = true
		}
	}
	if needPerr {
		sb.WriteString("import \"corpus/perr\"\n\nvar _ = perr.Wrap\n\n")
	}
	for _, cv := range convs {
		for _, im := range cv.Imports {
			fmt.Fprintf(&sb, "import %s\n", cv.subst(im))
		}
	}
	sb.WriteString("// VerifHook lets the native replay program the results of the custom functions below\n// (the symbolic engine never executes their bodies: they are havoc stubs).\nvar VerifHook = func(name string, outs ...any) {}\n\n")
	for _, cv := range convs {
		fmt.Fprintf(&sb, "// ---- %s (%s)\n", cv.ID, cv.Family)
		sb.WriteString(hookBodies(cv.subst(cv.Decls)))
		sb.WriteString("\n")
		switch cv.Format {
		case "variable":
			sb.WriteString("// goverter:variables\n")
			for _, l := range cv.ConvLines {
				fmt.Fprintf(&sb, "// goverter:%s\n", cv.subst(l))
			}
			sb.WriteString("var (\n")
			for _, l := range cv.MethodLines {
				fmt.Fprintf(&sb, "\t// goverter:%s\n", cv.subst(l))
			}
			fmt.Fprintf(&sb, "\t%s func(%s) %s\n", cv.Method, cv.subst(cv.Params), cv.subst(cv.Results))
			if cv.ExtraMethods != "" {
				sb.WriteString(cv.subst(cv.ExtraMethods))
				sb.WriteString("\n")
			}
			sb.WriteString(")\n\n")
		default:
			sb.WriteString("// goverter:converter\n")
			if cv.Format == "function" {
				sb.WriteString("// goverter:output:format function\n")
			}
			for _, l := range cv.ConvLines {
				fmt.Fprintf(&sb, "// goverter:%s\n", cv.subst(l))
			}
			fmt.Fprintf(&sb, "type %s interface {\n", cv.Name)
			for _, l := range cv.MethodLines {
				fmt.Fprintf(&sb, "\t// goverter:%s\n", cv.subst(l))
			}
			fmt.Fprintf(&sb, "\t%s(%s) %s\n", cv.Method, cv.subst(cv.Params), cv.subst(cv.Results))
			if cv.ExtraMethods != "" {
				sb.WriteString(cv.subst(cv.ExtraMethods))
				sb.WriteString("\n")
			}
			sb.WriteString("}\n\n")
		}
	}
	return sb.String()
}

func listGo(dir string) map[string]bool {
	res := map[string]bool{}
	filepath.Walk(dir, func(p string, info os.FileInfo, err error) error {
		if err == nil && !info.IsDir() && strings.HasSuffix(p, ".go") {
			res[p] = true
		}
		return nil
	})
	return res
}

// runGroup writes the group's input and runs goverter on it.
func (c *Corpus) runGroup(group string) (string, error) {
	dir := filepath.Join(c.Dir, group)
	os.RemoveAll(dir)
	if err := os.MkdirAll(dir, 0o755); err != nil {
		return "", err
	}
	if err := os.WriteFile(filepath.Join(dir, "input.go"), []byte(c.Source(group)), 0o644); err != nil {
		return "", err
	}
	for _, cv := range c.Groups[group] {
		for name, src := range cv.Aux {
			ad := filepath.Join(dir, cv.subst(name))
			if err := os.MkdirAll(ad, 0o755); err != nil {
				return "", err
			}
			if err := os.WriteFile(filepath.Join(ad, "aux.go"), []byte(cv.subst(src)), 0o644); err != nil {
				return "", err
			}
		}
	}
	before := listGo(dir)
	args := []string{"gen"}
	for _, cv := range c.Groups[group] {
		for _, g := range cv.CLI {
			args = append(args, "-g", cv.subst(g))
		}
	}
	args = append(args, "./"+group)
	ctxT, cancel := context.WithTimeout(context.Background(), 90*time.Second)
	defer cancel()
	// an address-space limit turns a generator that blows up in memory into a crash (fatal error: out of memory)
	// instead of a machine that swaps: 4 GiB is far above what any corpus program needs (< 100 MiB)
	cmd := exec.CommandContext(ctxT, "sh", append([]string{"-c", "ulimit -v 4194304 2>/dev/null; exec \"$0\" \"$@\"", c.Goverter}, args...)...)
	cmd.Dir = c.Dir
	cmd.Env = append(os.Environ(), "GOFLAGS=-mod=mod", "GOPROXY=off", "GOSUMDB=off", "GOTOOLCHAIN=local")
	var out bytes.Buffer
	cmd.Stdout = &out
	cmd.Stderr = &out
	t0 := time.Now()
	err := cmd.Run()
	crash := ""
	if ctxT.Err() != nil {
		crash = "timeout"
		out.WriteString("\ngoverter did not terminate within 90s")
	} else if err != nil {
		o := out.String()
		code := -1
		if ee, ok := err.(*exec.ExitError); ok {
			code = ee.ExitCode()
		}
		// a Go run-time crash (panic, fatal error such as stack overflow) exits with status 2 and a goroutine dump;
		// goverter's own diagnostics exit with status 1
		if strings.Contains(o, "panic: ") || strings.Contains(o, "fatal error: ") || strings.Contains(o, "goroutine 1 [") || (code == 2 && strings.Contains(o, "goroutine ")) {
			crash = "panic"
		}
	}
	c.mu.Lock()
	defer c.mu.Unlock()
	if crash != "" && len(c.Groups[group]) == 1 {
		c.Groups[group][0].GenCrash = crash
	}
	c.GenTime += time.Since(t0)
	c.Runs++
	for p := range listGo(dir) {
		if !before[p] {
			c.Emitted[p] = true
		}
	}
	return out.String(), err
}

// Generate runs goverter for every group; a failing group is split into single-conv groups.
func (c *Corpus) Generate(workers int) error {
	var groups []string
	for g := range c.Groups {
		groups = append(groups, g)
	}
	sort.Strings(groups)
	type job struct{ g string }
	sem := make(chan struct{}, workers)
	type res struct {
		g   string
		out string
		err error
	}
	results := make(chan res, len(groups))
	for _, g := range groups {
		g := g
		sem <- struct{}{}
		go func() {
			defer func() { <-sem }()
			out, err := c.runGroup(g)
			results <- res{g, out, err}
		}()
	}
	var failed []res
	for range groups {
		r := <-results
		if r.err != nil {
			failed = append(failed, r)
		} else {
			for _, cv := range c.Groups[r.g] {
				cv.GenOK = true
			}
		}
	}
	sort.Slice(failed, func(i, j int) bool { return failed[i].g < failed[j].g })
	splitN := 0
	for _, f := range failed {
		convs := c.Groups[f.g]
		if len(convs) == 1 {
			convs[0].GenOK = false
			convs[0].GenErr = strings.TrimSpace(f.out)
			// remove anything emitted
			os.RemoveAll(filepath.Join(c.Dir, f.g, "generated"))
			continue
		}
		os.RemoveAll(filepath.Join(c.Dir, f.g))
		delete(c.Groups, f.g)
		for _, cv := range convs {
			g := fmt.Sprintf("%ss%03d", f.g, splitN)
			splitN++
			cv.Group = g
			c.Groups[g] = []*Conv{cv}
			out, err := c.runGroup(g)
			if err != nil {
				cv.GenOK = false
				cv.GenErr = strings.TrimSpace(out)
				os.RemoveAll(filepath.Join(c.Dir, g, "generated"))
				for p := range c.Emitted {
					if strings.HasPrefix(p, filepath.Join(c.Dir, g)+string(filepath.Separator)) {
						if _, err := os.Stat(p); err != nil {
							delete(c.Emitted, p)
						}
					}
				}
			} else {
				cv.GenOK = true
			}
		}
	}
	return nil
}

var funcLine = regexp.MustCompile(`^func (\([^)]*\) )?(\w+)\((.*)\) (\([^{]*\)|[^ {(][^{]*?) \{ return .*\}\s*$`)

// hookBodies rewrites the one-line custom functions of a declaration block so that their results
// can be programmed by the native replay through VerifHook.
func hookBodies(decls string) string {
	lines := strings.Split(decls, "\n")
	for i, l := range lines {
		m := funcLine.FindStringSubmatch(l)
		if m == nil {
			continue
		}
		recv, name, params, results := m[1], m[2], m[3], strings.TrimSpace(m[4])
		results = strings.TrimSuffix(strings.TrimPrefix(results, "("), ")")
		var rts []string
		for _, r := range strings.Split(results, ",") {
			rts = append(rts, strings.TrimSpace(r))
		}
		hookName := name
		if recv != "" {
			// (s PFXIn) -> PFXIn.Name
			f := strings.Fields(strings.Trim(strings.TrimSpace(recv), "()"))
			hookName = strings.TrimPrefix(f[len(f)-1], "*") + "." + name
		}
		var decl, outs, rets []string
		for k, rt := range rts {
			decl = append(decl, fmt.Sprintf("var r%d %s", k, rt))
			outs = append(outs, fmt.Sprintf("&r%d", k))
			rets = append(rets, fmt.Sprintf("r%d", k))
		}
		lines[i] = fmt.Sprintf("func %s%s(%s) (%s) { %s; VerifHook(%q, %s); return %s }", recv, name, params, strings.Join(rts, ", "), strings.Join(decl, "; "), hookName, strings.Join(outs, ", "), strings.Join(rets, ", "))
	}
	return strings.Join(lines, "\n")
}
