package layerb

import (
	"bytes"
	"context"
	"fmt"
	"go/ast"
	"go/parser"
	"go/token"
	"go/types"
	"os"
	"os/exec"
	"path/filepath"
	"sort"
	"strings"
	"sync"
	"time"

	"golang.org/x/tools/go/ssa"
	"gopkg.in/yaml.v3"

	"verif/engine"
)

// F-scenario: the inputs of /repo's own success scenarios, regenerated with the goverter under test
// (the golden text is not used). No per-program intent is known, so only obligations that need none
// are checked: no run-time panic, no write into the source, no package-level state.

type scenarioFile struct {
	VersionDependent bool              `yaml:"version_dependent"`
	Input            map[string]string `yaml:"input"`
	Global           []string          `yaml:"global"`
	BuildConstraint  string            `yaml:"build_constraint"`
	Patterns         []string          `yaml:"patterns"`
	Error            string            `yaml:"error"`
}

type ScenarioResult struct {
	Name      string
	Skipped   string
	Entries   int
	Paths     int
	Findings  []Finding
	Stats     *engine.Stats
	GenFailed string
	// paths on which user code of the scenario was reached (its behaviour is not modelled: no obligation there)
	CustomPaths int
}

// declared API of a scenario input, read from the source with go/parser
type scenarioAPI struct {
	pkgPath string
	iface   string // interface name ("" for variables)
	format  string
	name    string // struct name
	methods []string
}

func scenarioAPIs(dir, modPath string) []scenarioAPI {
	var out []scenarioAPI
	fset := token.NewFileSet()
	filepath.Walk(dir, func(p string, info os.FileInfo, err error) error {
		if err != nil || info.IsDir() || !strings.HasSuffix(p, ".go") {
			return nil
		}
		f, err := parser.ParseFile(fset, p, nil, parser.ParseComments)
		if err != nil {
			return nil
		}
		rel, _ := filepath.Rel(dir, filepath.Dir(p))
		pkgPath := modPath
		if rel != "." {
			pkgPath = modPath + "/" + filepath.ToSlash(rel)
		}
		for _, d := range f.Decls {
			gd, ok := d.(*ast.GenDecl)
			if !ok {
				continue
			}
			docOf := func(cg *ast.CommentGroup) string {
				if cg == nil {
					return ""
				}
				var sb strings.Builder
				for _, c := range cg.List {
					sb.WriteString(c.Text + "\n")
				}
				return sb.String()
			}
			handleIface := func(ts *ast.TypeSpec, doc string) {
				it, ok := ts.Type.(*ast.InterfaceType)
				if !ok {
					return
				}
				api := scenarioAPI{pkgPath: pkgPath, iface: ts.Name.Name, format: "struct", name: ts.Name.Name + "Impl"}
				for _, line := range strings.Split(doc, "\n") {
					line = strings.TrimSpace(strings.TrimPrefix(strings.TrimSpace(strings.TrimPrefix(line, "//")), "/*"))
					if strings.HasPrefix(line, "goverter:output:format ") {
						api.format = strings.TrimSpace(strings.TrimPrefix(line, "goverter:output:format "))
					}
					if strings.HasPrefix(line, "goverter:name ") {
						api.name = strings.TrimSpace(strings.TrimPrefix(line, "goverter:name "))
					}
				}
				for _, m := range it.Methods.List {
					for _, n := range m.Names {
						api.methods = append(api.methods, n.Name)
					}
				}
				out = append(out, api)
			}
			doc := docOf(gd.Doc)
			if strings.Contains(doc, "goverter:variables") && gd.Tok == token.VAR {
				api := scenarioAPI{pkgPath: pkgPath, format: "variable"}
				for _, s := range gd.Specs {
					if vs, ok := s.(*ast.ValueSpec); ok {
						for _, n := range vs.Names {
							api.methods = append(api.methods, n.Name)
						}
					}
				}
				out = append(out, api)
				continue
			}
			for _, s := range gd.Specs {
				ts, ok := s.(*ast.TypeSpec)
				if !ok {
					continue
				}
				d := doc
				if !strings.Contains(d, "goverter:converter") {
					d = docOf(ts.Doc)
				}
				if strings.Contains(d, "goverter:converter") {
					handleIface(ts, d)
				}
			}
		}
		return nil
	})
	return out
}

// RunScenarios regenerates every success scenario of the repository and explores the declared API.
func RunScenarios(repo, scratch, goverterBin string, b Bounds, workers int, only string, replayDir string) []*ScenarioResult {
	files, _ := filepath.Glob(filepath.Join(repo, "scenario", "*.yml"))
	sort.Strings(files)
	results := make([]*ScenarioResult, len(files))
	sem := make(chan struct{}, workers)
	var wg sync.WaitGroup
	for i, f := range files {
		i, f := i, f
		name := strings.TrimSuffix(filepath.Base(f), ".yml")
		if only != "" && !strings.Contains(name, only) {
			continue
		}
		wg.Add(1)
		sem <- struct{}{}
		go func() {
			defer wg.Done()
			defer func() { <-sem }()
			results[i] = runScenario(f, name, scratch, goverterBin, b, replayDir)
		}()
	}
	wg.Wait()
	var out []*ScenarioResult
	for _, r := range results {
		if r != nil {
			out = append(out, r)
		}
	}
	return out
}

const scenarioModule = "github.com/jmattheis/goverter/execution"

func runScenario(file, name, scratch, bin string, b Bounds, replayDir string) *ScenarioResult {
	res := &ScenarioResult{Name: name}
	raw, err := os.ReadFile(file)
	if err != nil {
		res.Skipped = err.Error()
		return res
	}
	var sc scenarioFile
	if err := yaml.Unmarshal(raw, &sc); err != nil {
		res.Skipped = "yaml: " + err.Error()
		return res
	}
	if sc.Error != "" {
		res.Skipped = "error scenario"
		return res
	}
	dir := filepath.Join(scratch, "scenario", name)
	os.MkdirAll(dir, 0o755)
	defer os.RemoveAll(dir)
	os.WriteFile(filepath.Join(dir, "go.mod"), []byte("module "+scenarioModule+"\ngo 1.18\n"), 0o644)
	for n, content := range sc.Input {
		p := filepath.Join(dir, n)
		os.MkdirAll(filepath.Dir(p), 0o755)
		os.WriteFile(p, []byte(content), 0o644)
	}
	before := listGo(dir)
	args := []string{"gen", "-output-constraint", sc.BuildConstraint}
	for _, g := range sc.Global {
		args = append(args, "-g", g)
	}
	patterns := sc.Patterns
	if len(patterns) == 0 {
		patterns = []string{scenarioModule}
	}
	args = append(args, patterns...)
	ctxT, cancel := context.WithTimeout(context.Background(), 90*time.Second)
	defer cancel()
	cmd := exec.CommandContext(ctxT, bin, args...)
	cmd.Dir = dir
	cmd.Env = append(os.Environ(), "GOFLAGS=-mod=mod", "GOPROXY=off", "GOSUMDB=off", "GOTOOLCHAIN=local")
	var out bytes.Buffer
	cmd.Stdout, cmd.Stderr = &out, &out
	if err := cmd.Run(); err != nil {
		res.GenFailed = strings.TrimSpace(out.String())
		return res
	}
	emitted := map[string]bool{}
	for p := range listGo(dir) {
		if !before[p] {
			emitted[p] = true
		}
	}
	l, err := engine.Load(dir, "", nil, "./...")
	if err != nil {
		res.Skipped = "load: " + err.Error()
		return res
	}
	apis := scenarioAPIs(dir, scenarioModule)
	inline := func(fn *ssa.Function) bool {
		for f := fn; f != nil; f = f.Parent() {
			if f.Pos().IsValid() {
				return emitted[l.Prog.Fset.Position(f.Pos()).Filename]
			}
		}
		return fn.Synthetic != "" && fn.Pkg != nil && strings.HasPrefix(fn.Pkg.Pkg.Path(), scenarioModule)
	}
	type entry struct {
		fn     *ssa.Function
		global *ssa.Global
		init   *ssa.Function
		recv   types.Type
		label  string
		call   string // Go expression prefix of the native call; %s = package alias
		pkg    string
	}
	var entries []entry
	for _, api := range apis {
		in := l.ByPath[api.pkgPath]
		if in == nil {
			continue
		}
		switch api.format {
		case "variable", "assign-variable":
			for _, m := range api.methods {
				if g, ok := in.Members[m].(*ssa.Global); ok {
					entries = append(entries, entry{global: g, init: in.Func("init"), label: api.pkgPath + "." + m, call: "%s." + m, pkg: api.pkgPath})
				}
			}
		default:
			// find the emitted package: any loaded package of the module with the struct / functions
			for _, p := range l.Prog.AllPackages() {
				if !strings.HasPrefix(p.Pkg.Path(), scenarioModule) {
					continue
				}
				if api.format == "function" {
					for _, m := range api.methods {
						if fn := p.Func(m); fn != nil && inline(fn) {
							entries = append(entries, entry{fn: fn, label: p.Pkg.Path() + "." + m, call: "%s." + m, pkg: p.Pkg.Path()})
						}
					}
					continue
				}
				if t, ok := p.Members[api.name].(*ssa.Type); ok {
					pt := types.NewPointer(t.Type())
					for _, m := range api.methods {
						if fn := l.Prog.LookupMethod(pt, p.Pkg, m); fn != nil && inline(fn) {
							entries = append(entries, entry{fn: fn, recv: t.Type(), label: p.Pkg.Path() + "." + api.name + "." + m, call: "(&%s." + api.name + "{})." + m, pkg: p.Pkg.Path()})
						}
					}
				}
			}
		}
	}
	res.Entries = len(entries)
	total := &engine.Stats{Unsupported: map[string]int{}}
	var mu sync.Mutex
	for _, en := range entries {
		en := en
		cfg := engine.Config{Name: name, Unwind: 256, MaxDepth: 40, MaxPaths: 4000, Workers: 1, Inline: inline}
		custom := false
		cfg.External = func(r *engine.Run, fn *ssa.Function, args []engine.Value, site ssa.Instruction) (engine.Value, bool) {
			if !(fn.Name() == "init" && fn.Signature.Recv() == nil) {
				switch fn.String() {
				case "fmt.Errorf", "errors.New", "fmt.Sprintf", "fmt.Sprint":
				default:
					custom = true
				}
			}
			return scenarioExternal(r, fn, args)
		}
		seen := map[string]bool{}
		ex := engine.NewExplorer(l.Prog, cfg)
		st := ex.Explore(func(r *engine.Run) {
			custom = false
			sb := NewSymBuilder(r, b)
			fn := en.fn
			var env []engine.Value
			if en.global != nil {
				r.CallFunction(en.init, nil, nil)
				fv, ok := (*r.Global(en.global)).(engine.Func)
				if !ok || fv.C == nil {
					return
				}
				fn, env = fv.C.Fn, fv.C.Env
			}
			var args []engine.Value
			params := fn.Signature.Params()
			if en.recv != nil {
				slot := new(engine.Value)
				*slot = engine.Zero(en.recv)
				args = append(args, engine.Pointer{Slot: slot})
			}
			// update signature (no result besides error): the target argument is documented to be non-nil
			update := true
			for i := 0; i < fn.Signature.Results().Len(); i++ {
				if !isErrorType(fn.Signature.Results().At(i).Type()) {
					update = false
				}
			}
			var srcVals []engine.Value
			var srcTypes []types.Type
			for i := 0; i < params.Len(); i++ {
				v := sb.Sym(params.At(i).Type(), fmt.Sprintf("arg%d", i))
				if p, ok := v.(engine.Pointer); ok && p.Slot == nil && update {
					return // nil update target / nil argument of an update method: outside the documented use
				}
				args = append(args, v)
				srcVals = append(srcVals, v)
				srcTypes = append(srcTypes, params.At(i).Type())
			}
			var cr engine.CallResult
			if env != nil {
				cr = r.CallGuardedClosure(fn, args, env)
			} else {
				cr = r.CallGuarded(fn, args)
			}
			if custom {
				mu.Lock()
				res.CustomPaths++
				mu.Unlock()
				return
			}
			if cr.Panic != nil && cr.Panic.Kind != "explicit" {
				key := en.label + "|" + cr.Panic.Pos
				mu.Lock()
				dup := seen[key]
				seen[key] = true
				mu.Unlock()
				if dup {
					return
				}
				m, _ := r.Witness(nil)
				pos := cr.Panic.Pos
				if rel, err := filepath.Rel(dir, strings.SplitN(pos, ":", 2)[0]); err == nil && !strings.HasPrefix(rel, "..") {
					pos = rel + ":" + strings.SplitN(pos, ":", 2)[1]
				}
				f := Finding{Conv: "scenario/" + name + "/" + strings.TrimPrefix(en.label, scenarioModule), Family: "scenario", Kind: "panic", Path: pos,
					Note: "converter panics: " + cr.Panic.Kind + ": " + cr.Panic.Msg, Model: m}
				var parts []string
				for _, a := range srcVals {
					parts = append(parts, RenderValue(r, a, m))
				}
				f.Input = strings.Join(parts, "; ")
				f.Replayed = scenarioReplay(r, m, dir, replayDir, name, en.pkg, en.call, srcVals, srcTypes)
				f.ReplayDir = filepath.Join(replayDir, "scenario_"+name)
				if strings.HasPrefix(f.Replayed, "unsupported") {
					f.Inconclusive = true
				}
				mu.Lock()
				res.Findings = append(res.Findings, f)
				mu.Unlock()
			}
		})
		res.Paths += st.Paths
		total.Add(st)
	}
	res.Stats = total
	return res
}

// scenarioExternal: user code of scenario inputs is havoc'd like in the corpus (fresh results, errors fork).
func scenarioExternal(r *engine.Run, fn *ssa.Function, args []engine.Value) (engine.Value, bool) {
	name := fn.String()
	if fn.Name() == "init" && fn.Signature.Recv() == nil {
		return nil, true
	}
	switch name {
	case "fmt.Errorf", "errors.New":
		return NewError(r, "errorf"), true
	case "fmt.Sprintf", "fmt.Sprint":
		return engine.Str{Atom: r.Fresh(engine.AtomSort, "sprintf")}, true
	}
	res := fn.Signature.Results()
	sb := NewSymBuilder(r, Bounds{MaxSlice: 1, MaxMap: 1, RecDepth: 1})
	mk := func(t types.Type) (v engine.Value) {
		if isErrorType(t) {
			if r.Choice(2) == 1 {
				return NewError(r, "custom")
			}
			return engine.Iface{}
		}
		return sb.Sym(t, "ret_"+fn.Name())
	}
	defer func() {
		if rec := recover(); rec != nil {
			if ab, ok := rec.(*engine.Abort); ok {
				panic(ab)
			}
			panic(rec)
		}
	}()
	switch res.Len() {
	case 0:
		return nil, true
	case 1:
		return mk(res.At(0).Type()), true
	}
	tu := make(engine.Tuple, res.Len())
	for i := range tu {
		tu[i] = mk(res.At(i).Type())
	}
	return tu, true
}

// scenarioReplay calls the emitted function natively (go test in the regenerated scenario module) with the
// solver's input and reports whether it panics: "reproduced", "not-reproduced" or "unsupported: ...".
func scenarioReplay(r *engine.Run, model map[string]uint64, dir, replayDir, name, pkg, call string, args []engine.Value, ts []types.Type) string {
	alias := map[string]string{}
	bad := ""
	qual := func(p *types.Package) string {
		if !strings.HasPrefix(p.Path(), scenarioModule) {
			bad = "type of package " + p.Path() + " in the signature"
			return p.Name()
		}
		if a, ok := alias[p.Path()]; ok {
			return a
		}
		a := fmt.Sprintf("p%d", len(alias))
		alias[p.Path()] = a
		return a
	}
	gb := &goBuilder{r: r, model: model, qual: qual, ptrVar: map[*engine.Value]string{}, slVar: map[*engine.Value]string{}, mapVar: map[*engine.MapObj]string{}}
	if model == nil {
		gb.model = map[string]uint64{}
	}
	var exprs []string
	for i, a := range args {
		exprs = append(exprs, gb.expr(a, ts[i]))
	}
	if gb.bad != "" {
		return "unsupported: " + gb.bad
	}
	if bad != "" {
		return "unsupported: " + bad
	}
	callee := fmt.Sprintf(call, qual(types.NewPackage(pkg, "x")))
	var sb strings.Builder
	sb.WriteString("package verifreplay_test\n\nimport (\n\t\"fmt\"\n\t\"math\"\n\t\"testing\"\n")
	var paths []string
	for p := range alias {
		paths = append(paths, p)
	}
	sort.Strings(paths)
	for _, p := range paths {
		fmt.Fprintf(&sb, "\t%s %q\n", alias[p], p)
	}
	sb.WriteString(")\n\nvar _ = math.Abs\n\nfunc TestVerifReplay(t *testing.T) {\n")
	for _, s := range gb.stmts {
		sb.WriteString("\t" + s + "\n")
	}
	var names []string
	for i, e := range exprs {
		fmt.Fprintf(&sb, "\targ%d := %s\n", i, e)
		names = append(names, fmt.Sprintf("arg%d", i))
	}
	sb.WriteString("\tdefer func() {\n\t\tif r := recover(); r != nil {\n\t\t\tfmt.Printf(\"VERIF-PANIC %v\\n\", r)\n\t\t}\n\t}()\n")
	fmt.Fprintf(&sb, "\t%s(%s)\n\tfmt.Println(\"VERIF-RESULT\")\n}\n", callee, strings.Join(names, ", "))
	tdir := filepath.Join(dir, "zzverifreplay")
	os.MkdirAll(tdir, 0o755)
	defer os.RemoveAll(tdir)
	os.WriteFile(filepath.Join(tdir, "replay_test.go"), []byte(sb.String()), 0o644)
	cmd := exec.Command("go", "test", "-vet=off", "-count=1", "-run", "TestVerifReplay", "-v", "./zzverifreplay")
	cmd.Dir = dir
	cmd.Env = append(os.Environ(), "GOFLAGS=-mod=mod", "GOPROXY=off", "GOSUMDB=off", "GOTOOLCHAIN=local")
	ctx, cancel := context.WithTimeout(context.Background(), 3*time.Minute)
	defer cancel()
	cmd = exec.CommandContext(ctx, cmd.Path, cmd.Args[1:]...)
	cmd.Dir = dir
	cmd.Env = append(os.Environ(), "GOFLAGS=-mod=mod", "GOPROXY=off", "GOSUMDB=off", "GOTOOLCHAIN=local")
	out, _ := cmd.CombinedOutput()
	if replayDir != "" {
		d := filepath.Join(replayDir, "scenario_"+name)
		os.MkdirAll(d, 0o755)
		os.WriteFile(filepath.Join(d, "replay_test.go.txt"), []byte(sb.String()), 0o644)
		os.WriteFile(filepath.Join(d, "replay.out"), out, 0o644)
		os.WriteFile(filepath.Join(d, "README"), []byte("scenario "+name+": regenerate scenario/"+name+".yml with the goverter under test into a module "+scenarioModule+", put replay_test.go.txt as zzverifreplay/replay_test.go, run go test ./zzverifreplay\n"), 0o644)
	}
	switch {
	case strings.Contains(string(out), "VERIF-PANIC"):
		return "reproduced"
	case strings.Contains(string(out), "VERIF-RESULT"):
		return "not-reproduced"
	}
	return "unsupported: replay test did not run: " + firstLineOf(string(out))
}
