package layerb

import (
	"fmt"
	"go/types"
	"os"
	"path/filepath"
	"sort"
	"strings"
	"sync"

	"golang.org/x/tools/go/ssa"

	"verif/engine"
)

// Driver explores the converters of a generated corpus.
type Driver struct {
	C        *Corpus
	L        *engine.Loaded
	B        Bounds
	Workers  int
	LoadErr  string
	Unwind   int
	MaxPaths int
}

// Target is the callable emitted for a Conv.
type Target struct {
	Fn      *ssa.Function
	Global  *ssa.Global
	Init    *ssa.Function
	Sig     *types.Signature
	HasRecv bool
	RecvT   types.Type
	InPkg   *ssa.Package
	GenPkg  *ssa.Package
}

// Load type-checks and builds SSA for the whole corpus module. Groups whose emitted code does not
// type-check are recorded (Conv.LoadErr: the C01 gate) and set aside; the rest is loaded.
func (d *Driver) Load() error {
	for attempt := 0; attempt < 4; attempt++ {
		l, err := engine.Load(d.C.Dir, "", nil, "./...")
		d.L = l
		if err == nil {
			return nil
		}
		d.LoadErr = err.Error()
		if l == nil || len(l.Errors) == 0 {
			return err
		}
		bad := map[string][]string{}
		for _, e := range l.Errors {
			// positions look like /scratch/corpus/<group>/...: message
			if !strings.HasPrefix(e, d.C.Dir+"/") {
				continue
			}
			rel := strings.TrimPrefix(e, d.C.Dir+"/")
			for g := range d.C.Groups {
				if strings.HasPrefix(rel, g+"/") {
					bad[g] = append(bad[g], rel)
				}
			}
		}
		if len(bad) == 0 {
			return err
		}
		for g, msgs := range bad {
			for _, cv := range d.C.Groups[g] {
				if cv.LoadErr == "" {
					cv.LoadErr = strings.Join(msgs, "; ")
				}
			}
			// keep a copy for the replay, remove from the module
			os.Rename(filepath.Join(d.C.Dir, g), filepath.Join(d.C.Root, "bad_"+strings.ReplaceAll(g, "/", "_")))
		}
	}
	return fmt.Errorf("corpus does not load: %s", d.LoadErr)
}

func (d *Driver) target(cv *Conv) (*Target, error) {
	in := d.L.ByPath[corpusModule+"/"+cv.Group]
	if in == nil {
		return nil, fmt.Errorf("input package of %s not loaded", cv.ID)
	}
	t := &Target{InPkg: in}
	switch cv.Format {
	case "variable":
		g, ok := in.Members[cv.Method].(*ssa.Global)
		if !ok {
			return nil, fmt.Errorf("variable %s not found", cv.Method)
		}
		t.Global = g
		t.Init = in.Func("init")
		sig, ok := g.Type().(*types.Pointer).Elem().Underlying().(*types.Signature)
		if !ok {
			return nil, fmt.Errorf("variable %s is not a func", cv.Method)
		}
		t.Sig = sig
		t.GenPkg = in
		return t, nil
	}
	tn, ok := in.Members[cv.Name].(*ssa.Type)
	if !ok {
		return nil, fmt.Errorf("interface %s not found", cv.Name)
	}
	iface, ok := tn.Type().Underlying().(*types.Interface)
	if !ok {
		return nil, fmt.Errorf("%s is not an interface", cv.Name)
	}
	for i := 0; i < iface.NumMethods(); i++ {
		if iface.Method(i).Name() == cv.Method {
			t.Sig = iface.Method(i).Type().(*types.Signature)
		}
	}
	if t.Sig == nil {
		return nil, fmt.Errorf("method %s not in interface", cv.Method)
	}
	gen := d.L.ByPath[corpusModule+"/"+cv.Group+"/generated"]
	if cv.OutInInput {
		gen = in
	}
	if gen == nil {
		return nil, fmt.Errorf("emitted package of %s not loaded", cv.ID)
	}
	t.GenPkg = gen
	if cv.Format == "function" {
		t.Fn = gen.Func(cv.Method)
		if t.Fn == nil {
			return nil, fmt.Errorf("C01: emitted function %s missing", cv.Method)
		}
		if !types.Identical(t.Fn.Signature, t.Sig) {
			return nil, fmt.Errorf("C01: emitted function %s has signature %s, declared %s", cv.Method, t.Fn.Signature, t.Sig)
		}
		return t, nil
	}
	implName := cv.Name + "Impl"
	if cv.Spec != nil && cv.Spec.ImplName != "" {
		implName = cv.Spec.ImplName
	}
	impl, ok := gen.Members[implName].(*ssa.Type)
	if !ok {
		return nil, fmt.Errorf("C01: emitted struct %s missing", implName)
	}
	pt := types.NewPointer(impl.Type())
	if !types.Implements(pt, iface) {
		return nil, fmt.Errorf("C01: *%sImpl does not implement %s", cv.Name, cv.Name)
	}
	t.Fn = d.L.Prog.LookupMethod(pt, gen.Pkg, cv.Method)
	if t.Fn == nil {
		return nil, fmt.Errorf("C01: method %s missing on *%sImpl", cv.Method, cv.Name)
	}
	t.HasRecv = true
	t.RecvT = impl.Type()
	return t, nil
}

// Finding is a violated (or inconclusive) obligation on one path.
type Finding struct {
	Conv         string            `json:"conv"`
	Family       string            `json:"family"`
	Kind         string            `json:"kind"` // "value", "panic", "sharing", ...
	Path         string            `json:"path"`
	Note         string            `json:"note"`
	Input        string            `json:"input"`
	Model        map[string]uint64 `json:"model,omitempty"`
	Decisions    string            `json:"decisions"`
	Inconclusive bool              `json:"inconclusive,omitempty"`
	Replayed     string            `json:"replayed,omitempty"`
	Replay       *ReplayInfo       `json:"replay,omitempty"`
	Trace        []Decision        `json:"-"`
	// ReplayDir: material of a native replay already performed (Replayed holds its verdict)
	ReplayDir string `json:"-"`
}

type Decision = engine.Decision

// ConvReport aggregates one converter.
type ConvReport struct {
	Conv        *Conv
	Stats       *engine.Stats
	Findings    []Finding
	Obligations int
	Discharged  int
	Sample      string
	Skipped     string
	mu          sync.Mutex
	Cut         int
	// PassReplay: native replay material of one passing path (translator validation)
	PassReplay *ReplayInfo
}

// PathCtx is what a property check sees on one path.
type PathCtx struct {
	R       *engine.Run
	D       *Driver
	Conv    *Conv
	T       *Target
	SB      *SymBuilder
	Args    []engine.Value // declared arguments (without receiver)
	Src     engine.Value
	SrcT    types.Type
	SrcIdx  int
	Ctx     []int // indices of context params
	TgtIdx  int   // index of update target param or -1
	Ret     engine.Value
	RetT    types.Type
	Err     engine.Value // error result or nil
	HasErr  bool
	Panic   *engine.TargetPanic
	Calls   *CallLog
	Rep     *ConvReport
	Writes  []*engine.Value
	Globals []*ssa.Global
	Pre     engine.Value // deep snapshot of *target before the call (update methods)
	// TgtRefsPre: slots behind the references the update target held before the call
	TgtRefsPre map[*engine.Value]string
	SrcSnap    engine.Value
	ArgsPre    []engine.Value // deep clone of the arguments before the call (aliasing preserved)
}

func (pc *PathCtx) Report(kind, path, note string, model map[string]uint64, inconclusive bool) {
	f := Finding{Conv: pc.Conv.ID, Family: pc.Conv.Family, Kind: kind, Path: path, Note: note, Model: model, Inconclusive: inconclusive}
	f.Input = RenderArgs(pc, model)
	if !inconclusive {
		func() {
			defer func() {
				if rec := recover(); rec != nil {
					f.Replay = &ReplayInfo{Unsupported: fmt.Sprintf("replay construction failed: %v", rec)}
				}
			}()
			f.Replay = BuildReplay(pc, model)
		}()
	}
	f.Decisions = fmt.Sprint(pc.R.Decisions)
	f.Trace = append([]Decision(nil), pc.R.Decisions...)
	pc.Rep.mu.Lock()
	pc.Rep.Findings = append(pc.Rep.Findings, f)
	pc.Rep.mu.Unlock()
}

// ProveLeaves discharges the oracle's leaves as one query; on failure it locates the failing leaf.
func (pc *PathCtx) ProveLeaves(kind string, o *Oracle) {
	pc.Rep.mu.Lock()
	pc.Rep.Obligations++
	pc.Rep.mu.Unlock()
	// structural failures first (no solver needed, but need a model for the input)
	for _, l := range o.Leaves {
		if l.Cond.IsFalse() {
			m, _ := pc.R.Witness(nil)
			pc.Report(kind, l.Path, l.Note, m, false)
			return
		}
	}
	qr := pc.R.Prove(o.All())
	if qr.Holds {
		pc.Rep.mu.Lock()
		pc.Rep.Discharged++
		pc.Rep.mu.Unlock()
		return
	}
	if qr.Inconclusive {
		pc.Report(kind, "", "solver inconclusive: "+qr.SolverNote, nil, true)
		return
	}
	// locate
	for _, l := range o.Leaves {
		q := pc.R.Prove(l.Cond)
		if !q.Holds && !q.Inconclusive {
			pc.Report(kind, l.Path, l.Note, q.Model, false)
			return
		}
	}
	pc.Report(kind, "", "conjunction fails but no single leaf does", qr.Model, false)
}

// CheckFn implements the obligations of one property on one path.
type CheckFn func(pc *PathCtx)

func paramRole(name string) string {
	switch {
	case strings.HasPrefix(name, "ctx"):
		return "context"
	case name == "target":
		return "target"
	}
	return "source"
}

// Explore runs check on every path of every successfully generated conv.
func (d *Driver) Explore(convs []*Conv, check CheckFn, opt ExploreOpt) []*ConvReport {
	reports := make([]*ConvReport, len(convs))
	sem := make(chan struct{}, d.Workers)
	var wg sync.WaitGroup
	for i, cv := range convs {
		i, cv := i, cv
		wg.Add(1)
		sem <- struct{}{}
		go func() {
			defer wg.Done()
			defer func() { <-sem }()
			reports[i] = d.exploreOne(cv, check, opt)
		}()
	}
	wg.Wait()
	return reports
}

type ExploreOpt struct {
	Alias        bool
	TrackWrites  bool
	NoMapPermute bool
}

func (d *Driver) emittedFile(fn *ssa.Function) bool {
	for f := fn; f != nil; f = f.Parent() {
		if f.Pos().IsValid() {
			file := d.L.Prog.Fset.Position(f.Pos()).Filename
			return d.C.Emitted[file]
		}
	}
	if fn.Synthetic != "" && fn.Pkg != nil && strings.HasPrefix(fn.Pkg.Pkg.Path(), corpusModule+"/") {
		// wrappers, bound methods, package init
		if fn.Object() != nil && fn.Object().Pos().IsValid() {
			return d.C.Emitted[d.L.Prog.Fset.Position(fn.Object().Pos()).Filename]
		}
		return true
	}
	return false
}

func (d *Driver) exploreOne(cv *Conv, check CheckFn, opt ExploreOpt) *ConvReport {
	rep := &ConvReport{Conv: cv}
	if !cv.GenOK {
		rep.Skipped = "generation failed"
		return rep
	}
	if cv.LoadErr != "" {
		rep.Skipped = "C01 gate: emitted code does not type-check: " + cv.LoadErr
		return rep
	}
	t, err := d.target(cv)
	if err != nil {
		rep.Skipped = err.Error()
		return rep
	}
	unwind := d.Unwind
	if unwind == 0 {
		// loops of emitted code run over concrete lengths (nested loops multiply the visits of an
		// inner header inside one frame): the bound only guards against divergence
		unwind = 256
	}
	cfg := engine.Config{
		Name:         cv.ID,
		Unwind:       unwind,
		MaxDepth:     40,
		MaxPaths:     d.MaxPaths,
		Workers:      1,
		Inline:       d.emittedFile,
		NoMapPermute: opt.NoMapPermute,
	}
	cfg.External = func(r *engine.Run, fn *ssa.Function, args []engine.Value, site ssa.Instruction) (engine.Value, bool) {
		return d.external(r, fn, args, site)
	}
	ex := engine.NewExplorer(d.L.Prog, cfg)
	b := d.B
	if cv.Bounds != nil {
		b = *cv.Bounds
	}
	b.Alias = opt.Alias
	first := true
	stats := ex.Explore(func(r *engine.Run) {
		pc := &PathCtx{R: r, D: d, Conv: cv, T: t, Rep: rep, TgtIdx: -1, SrcIdx: -1}
		pc.Calls = &CallLog{}
		r.User = pc
		pc.SB = NewSymBuilder(r, b)
		fn := t.Fn
		var env []engine.Value
		if t.Global != nil {
			// run the package initialiser (assigns the variables)
			r.CallFunction(t.Init, nil, nil)
			fv := (*r.Global(t.Global)).(engine.Func)
			if fv.C == nil {
				pc.Report("api", "", "C01: variable "+cv.Method+" was not assigned by init()", nil, false)
				return
			}
			fn, env = fv.C.Fn, fv.C.Env
		}
		params := t.Sig.Params()
		for i := 0; i < params.Len(); i++ {
			p := params.At(i)
			v := pc.SB.Sym(p.Type(), p.Name())
			pc.Args = append(pc.Args, v)
			switch paramRole(p.Name()) {
			case "context":
				pc.Ctx = append(pc.Ctx, i)
			case "target":
				pc.TgtIdx = i
			default:
				if pc.SrcIdx < 0 {
					pc.SrcIdx = i
					pc.Src = v
					pc.SrcT = p.Type()
				}
			}
		}
		if pc.TgtIdx >= 0 {
			tp, ok := pc.Args[pc.TgtIdx].(engine.Pointer)
			if !ok || tp.Slot == nil {
				// the update target is assumed to point to a struct
				panic(&engine.Abort{Kind: "infeasible", Reason: "nil update target"})
			}
			pc.Pre = DeepSnapshot(*tp.Slot)
			// what the target refers to before the call (pointees, backing arrays, map objects): not part of the
			// struct ARG points to
			pc.TgtRefsPre = map[*engine.Value]string{}
			reachRefs(*tp.Slot, pc.TgtRefsPre, "target")
		}
		if opt.TrackWrites {
			pc.SrcSnap = DeepSnapshot(pc.Src)
			r.WriteHook = func(s *engine.Value) { pc.Writes = append(pc.Writes, s) }
			r.GlobalHook = func(g *ssa.Global) {
				if g != t.Global {
					pc.Globals = append(pc.Globals, g)
				}
			}
		}
		cm := &cloneMemo{ptr: map[*engine.Value]*engine.Value{}, maps: map[*engine.MapObj]*engine.MapObj{}, sl: map[*engine.Value][]engine.Value{}}
		for _, a := range pc.Args {
			pc.ArgsPre = append(pc.ArgsPre, cm.clone(a))
		}
		callArgs := pc.Args
		if t.HasRecv {
			slot := new(engine.Value)
			*slot = engine.Zero(t.RecvT)
			callArgs = append([]engine.Value{engine.Pointer{Slot: slot}}, pc.Args...)
		}
		var res engine.CallResult
		func() {
			// the inputs have bounded depth: a converter that exceeds the call depth on them does not
			// terminate (a helper or variable that calls itself with its own argument) - a stack overflow
			defer func() {
				if rec := recover(); rec != nil {
					if ab, ok := rec.(*engine.Abort); ok && ab.Kind == "depth" {
						res = engine.CallResult{Panic: &engine.TargetPanic{Kind: "stack-overflow", Msg: "the converter does not terminate on an input of bounded depth (" + ab.Reason + ")", Pos: "?"}}
						return
					}
					panic(rec)
				}
			}()
			if env != nil {
				res = r.CallGuardedClosure(fn, callArgs, env)
			} else {
				res = r.CallGuarded(fn, callArgs)
			}
		}()
		r.WriteHook = nil
		r.GlobalHook = nil
		pc.Panic = res.Panic
		results := t.Sig.Results()
		if res.Panic == nil {
			switch results.Len() {
			case 0:
			case 1:
				if isErrorType(results.At(0).Type()) {
					pc.Err, pc.HasErr = res.Ret, true
				} else {
					pc.Ret, pc.RetT = res.Ret, results.At(0).Type()
				}
			case 2:
				tu := res.Ret.(engine.Tuple)
				pc.Ret, pc.RetT = tu[0], results.At(0).Type()
				pc.Err, pc.HasErr = tu[1], true
			}
		}
		if first {
			first = false
			rep.Sample = RenderArgs(pc, nil)
		}
		rep.mu.Lock()
		rep.Cut += pc.SB.Cut
		nf := len(rep.Findings)
		rep.mu.Unlock()
		check(pc)
		rep.mu.Lock()
		wantTV := rep.PassReplay == nil && len(rep.Findings) == nf && pc.Panic == nil && r.Steps > 20
		rep.mu.Unlock()
		if wantTV {
			if m, ok := r.Witness(nil); ok {
				func() {
					defer func() { recover() }()
					ri := BuildReplay(pc, m)
					if ri.Unsupported == "" {
						rep.mu.Lock()
						rep.PassReplay = ri
						rep.mu.Unlock()
					}
				}()
			}
		}
	})
	rep.Stats = stats
	if len(ex.Fatal) > 0 {
		rep.Skipped = "engine: " + strings.Join(ex.Fatal, "; ")
	}
	sort.Slice(rep.Findings, func(i, j int) bool { return rep.Findings[i].Decisions < rep.Findings[j].Decisions })
	return rep
}

func isErrorType(t types.Type) bool {
	n, ok := t.(*types.Named)
	return ok && n.Obj().Pkg() == nil && n.Obj().Name() == "error"
}

// RenderArgs prints the arguments of the path, scalars evaluated under model when given.
func RenderArgs(pc *PathCtx, model map[string]uint64) string {
	var parts []string
	params := pc.T.Sig.Params()
	for i, a := range pc.Args {
		parts = append(parts, params.At(i).Name()+"="+RenderValue(pc.R, a, model))
	}
	return strings.Join(parts, "; ")
}

// RenderValue renders a value with symbols replaced by model values.
func RenderValue(r *engine.Run, v engine.Value, model map[string]uint64) string {
	s := engine.FormatValue(v)
	if model == nil {
		return s
	}
	// replace longest names first
	names := make([]string, 0, len(model))
	for n := range model {
		names = append(names, n)
	}
	sort.Slice(names, func(i, j int) bool { return len(names[i]) > len(names[j]) })
	for _, n := range names {
		if strings.Contains(s, n) {
			s = strings.ReplaceAll(s, n, fmt.Sprintf("%d", model[n]))
		}
	}
	return s
}

// DeepSnapshot copies a value including everything reachable through pointers, slices and maps
// (sharing inside the copy is not preserved; used for "unchanged" comparisons of scalars and shape).
func DeepSnapshot(v engine.Value) engine.Value {
	switch v := v.(type) {
	case engine.Pointer:
		if v.Slot == nil {
			return v
		}
		return snapPtr{orig: v.Slot, val: DeepSnapshot(*v.Slot)}
	case engine.Struct:
		n := make(engine.Struct, len(v))
		for i := range v {
			n[i] = DeepSnapshot(v[i])
		}
		return n
	case engine.Array:
		n := make(engine.Array, len(v))
		for i := range v {
			n[i] = DeepSnapshot(v[i])
		}
		return n
	case engine.Slice:
		if v.Nil {
			return v
		}
		n := make([]engine.Value, v.Len)
		for i := 0; i < v.Len; i++ {
			n[i] = DeepSnapshot(v.Elems[i])
		}
		return snapSlice{orig: v, elems: n}
	case engine.Map:
		if v.M == nil {
			return v
		}
		var es []engine.MapEntry
		for _, e := range v.M.Entries {
			es = append(es, engine.MapEntry{K: DeepSnapshot(e.K), V: DeepSnapshot(e.V)})
		}
		return snapMap{orig: v.M, entries: es}
	case engine.Iface:
		return v
	}
	return v
}

type snapPtr struct {
	orig *engine.Value
	val  engine.Value
}
type snapSlice struct {
	orig  engine.Slice
	elems []engine.Value
}
type snapMap struct {
	orig    *engine.MapObj
	entries []engine.MapEntry
}

// Unchanged is the term "cur still equals the snapshot snap (same objects, same contents)".
func Unchanged(r *engine.Run, snap, cur engine.Value, o *Oracle) *engine.Term {
	switch s := snap.(type) {
	case snapPtr:
		c, ok := cur.(engine.Pointer)
		if !ok || c.Slot != s.orig {
			return engine.False
		}
		return Unchanged(r, s.val, *c.Slot, o)
	case snapSlice:
		c, ok := cur.(engine.Slice)
		if !ok || c.Nil || c.Len != s.orig.Len || len(c.Elems) != len(s.orig.Elems) {
			return engine.False
		}
		if len(c.Elems) > 0 && &c.Elems[0] != &s.orig.Elems[0] {
			return engine.False
		}
		res := engine.True
		for i := range s.elems {
			res = engine.And(res, Unchanged(r, s.elems[i], c.Elems[i], o))
		}
		return res
	case snapMap:
		c, ok := cur.(engine.Map)
		if !ok || c.M != s.orig || len(c.M.Entries) != len(s.entries) {
			return engine.False
		}
		res := engine.True
		for i := range s.entries {
			res = engine.And(res, Unchanged(r, s.entries[i].K, c.M.Entries[i].K, o))
			res = engine.And(res, Unchanged(r, s.entries[i].V, c.M.Entries[i].V, o))
		}
		return res
	case engine.Struct:
		c, ok := cur.(engine.Struct)
		if !ok || len(c) != len(s) {
			return engine.False
		}
		res := engine.True
		for i := range s {
			res = engine.And(res, Unchanged(r, s[i], c[i], o))
		}
		return res
	case engine.Array:
		c, ok := cur.(engine.Array)
		if !ok || len(c) != len(s) {
			return engine.False
		}
		res := engine.True
		for i := range s {
			res = engine.And(res, Unchanged(r, s[i], c[i], o))
		}
		return res
	}
	return o.Identical(snap, cur)
}

// relPath shortens absolute corpus paths in messages.
func (d *Driver) relPath(p string) string {
	if rel, err := filepath.Rel(d.C.Dir, p); err == nil {
		return rel
	}
	return p
}

// GateFinding is a C01 gate failure of one program.
type GateFinding struct {
	Conv *Conv
	Kind string // "typecheck", "api"
	Note string
}

// Gate checks, for every successfully generated program, that the emitted code type-checked together
// with the user's packages and defines exactly the declared API.
func (d *Driver) Gate(convs []*Conv) (checked int, out []GateFinding) {
	for _, cv := range convs {
		if !cv.GenOK || cv.ExpectFail {
			continue
		}
		checked++
		if cv.LoadErr != "" {
			out = append(out, GateFinding{cv, "typecheck", "emitted code does not type-check: " + cv.LoadErr})
			continue
		}
		t, err := d.target(cv)
		if err != nil {
			out = append(out, GateFinding{cv, "api", err.Error()})
			continue
		}
		if t.Global != nil {
			// init() must assign the variable: checked on the SSA of the package initialiser
			assigned := false
			// (the assignment may live in another package of the group when output:file / output:package redirect it)
			for _, p := range d.L.Prog.AllPackages() {
				if p != t.InPkg && !strings.HasPrefix(p.Pkg.Path(), t.InPkg.Pkg.Path()+"/") {
					continue
				}
				for _, m := range p.Members {
					fn, ok := m.(*ssa.Function)
					if !ok || !strings.HasPrefix(fn.Name(), "init") {
						continue
					}
					for _, b := range fn.Blocks {
						for _, in := range b.Instrs {
							if st, ok := in.(*ssa.Store); ok && st.Addr == ssa.Value(t.Global) {
								assigned = true
							}
						}
					}
				}
			}
			if !assigned {
				out = append(out, GateFinding{cv, "api", "C01: init() does not assign variable " + cv.Method})
			}
		}
	}
	return
}

// cloneMemo deep-copies values preserving aliasing (used to keep the pre-call arguments for replays).
type cloneMemo struct {
	ptr  map[*engine.Value]*engine.Value
	maps map[*engine.MapObj]*engine.MapObj
	sl   map[*engine.Value][]engine.Value
}

func (c *cloneMemo) clone(v engine.Value) engine.Value {
	switch v := v.(type) {
	case engine.Pointer:
		if v.Slot == nil {
			return v
		}
		if n, ok := c.ptr[v.Slot]; ok {
			return engine.Pointer{Slot: n}
		}
		n := new(engine.Value)
		c.ptr[v.Slot] = n
		*n = c.clone(*v.Slot)
		return engine.Pointer{Slot: n}
	case engine.Struct:
		n := make(engine.Struct, len(v))
		for i := range v {
			n[i] = c.clone(v[i])
		}
		return n
	case engine.Array:
		n := make(engine.Array, len(v))
		for i := range v {
			n[i] = c.clone(v[i])
		}
		return n
	case engine.Slice:
		if v.Nil || len(v.Elems) == 0 {
			return v
		}
		if n, ok := c.sl[&v.Elems[0]]; ok {
			return engine.Slice{Elems: n, Len: v.Len}
		}
		n := make([]engine.Value, len(v.Elems))
		c.sl[&v.Elems[0]] = n
		for i := range v.Elems {
			n[i] = c.clone(v.Elems[i])
		}
		return engine.Slice{Elems: n, Len: v.Len}
	case engine.Map:
		if v.M == nil {
			return v
		}
		if n, ok := c.maps[v.M]; ok {
			return engine.Map{M: n}
		}
		n := &engine.MapObj{ID: v.M.ID}
		c.maps[v.M] = n
		for _, e := range v.M.Entries {
			n.Entries = append(n.Entries, &engine.MapEntry{K: c.clone(e.K), V: c.clone(e.V)})
		}
		return engine.Map{M: n}
	}
	return v
}
