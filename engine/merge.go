package engine

import (
	"go/token"
	"sync"

	"golang.org/x/tools/go/ssa"
)

// If-conversion of pure short-circuit regions: `a || b`, `x == ' ' || x == '\t'`, `p && q`
// lower to control flow in go/ssa; forking on them multiplies paths without need.
// When the region between a symbolic If and its immediate post-dominator contains only
// pure, non-panicking instructions, both sides are evaluated and the phis of the join
// block become ite-terms.

var pdomCache sync.Map // *ssa.Function -> []int (ipdom index per block, -1 = exit)

func ipdoms(fn *ssa.Function) []int {
	if v, ok := pdomCache.Load(fn); ok {
		return v.([]int)
	}
	n := len(fn.Blocks)
	// post-dominator sets as bitsets over n+1 nodes (n = virtual exit)
	type set []bool
	full := func() set {
		s := make(set, n+1)
		for i := range s {
			s[i] = true
		}
		return s
	}
	pd := make([]set, n+1)
	for i := 0; i < n; i++ {
		pd[i] = full()
	}
	pd[n] = make(set, n+1)
	pd[n][n] = true
	succs := func(i int) []int {
		b := fn.Blocks[i]
		if len(b.Succs) == 0 {
			return []int{n}
		}
		out := make([]int, len(b.Succs))
		for k, s := range b.Succs {
			out[k] = s.Index
		}
		return out
	}
	changed := true
	for changed {
		changed = false
		for i := n - 1; i >= 0; i-- {
			ns := full()
			for _, s := range succs(i) {
				for k := range ns {
					ns[k] = ns[k] && pd[s][k]
				}
			}
			ns[i] = true
			for k := range ns {
				if ns[k] != pd[i][k] {
					changed = true
				}
			}
			pd[i] = ns
		}
	}
	res := make([]int, n)
	for i := 0; i < n; i++ {
		// immediate post-dominator: the strict post-dominator that is post-dominated by all other strict ones
		res[i] = -1
		var strict []int
		for k := 0; k <= n; k++ {
			if k != i && pd[i][k] {
				strict = append(strict, k)
			}
		}
		for _, c := range strict {
			ok := true
			for _, o := range strict {
				if o != c && !pd[c][o] {
					ok = false
					break
				}
			}
			if ok {
				if c < n {
					res[i] = c
				}
				break
			}
		}
	}
	pdomCache.Store(fn, res)
	return res
}

type arrival struct {
	guard *Term
	vals  []Value // value of each phi of the join block on this arrival
}

func pureInstr(in ssa.Instruction) bool {
	switch in := in.(type) {
	case *ssa.DebugRef, *ssa.Phi, *ssa.Convert, *ssa.ChangeType, *ssa.ChangeInterface, *ssa.MakeInterface,
		*ssa.Extract, *ssa.Field, *ssa.FieldAddr, *ssa.IndexAddr, *ssa.Index, *ssa.Slice:
		return true
	case *ssa.BinOp:
		return in.Op != token.QUO && in.Op != token.REM
	case *ssa.UnOp:
		return in.Op != token.ARROW
	case *ssa.Lookup:
		return !isMapType(in.X)
	case *ssa.TypeAssert:
		return in.CommaOk
	case *ssa.Call:
		if b, ok := in.Call.Value.(*ssa.Builtin); ok {
			return b.Name() == "len" || b.Name() == "cap"
		}
		if f, ok := in.Call.Value.(*ssa.Function); ok {
			switch f.Name() {
			case "verifAnd", "verifOr", "verifImplies", "verifIte", "verifNot":
				return true
			}
		}
	}
	return false
}

func isMapType(v ssa.Value) bool {
	t := v.Type().Underlying().String()
	return len(t) >= 4 && t[:4] == "map["
}

// tryMerge attempts the if-conversion at `in` (whose condition c is symbolic).
func (fr *frame) tryMerge(in *ssa.If, c *Term) (ok bool) {
	b := in.Block()
	jIdx := ipdoms(fr.fn)[b.Index]
	if jIdx < 0 {
		return false
	}
	J := fr.fn.Blocks[jIdx]
	var phis []*ssa.Phi
	for _, instr := range J.Instrs {
		if p, ok := instr.(*ssa.Phi); ok {
			phis = append(phis, p)
		} else {
			break
		}
	}
	var arrivals []arrival
	blocks := 0
	defer func() {
		if rec := recover(); rec != nil {
			switch rec.(type) {
			case *TargetPanic, *Abort:
				ok = false
			default:
				panic(rec)
			}
		}
	}()
	var spec func(blk, pred *ssa.BasicBlock, guard *Term, depth int) bool
	spec = func(blk, pred *ssa.BasicBlock, guard *Term, depth int) bool {
		if guard.IsFalse() {
			return true
		}
		if blk == J {
			vals := make([]Value, len(phis))
			for i, p := range phis {
				for k, pr := range J.Preds {
					if pr == pred {
						vals[i] = fr.get(p.Edges[k])
						break
					}
				}
			}
			arrivals = append(arrivals, arrival{guard, vals})
			return len(arrivals) <= 32
		}
		blocks++
		if depth > 24 || blocks > 96 {
			return false
		}
		for _, instr := range blk.Instrs {
			if _, isPhi := instr.(*ssa.Phi); isPhi {
				return false // inner join with phis
			}
			switch t := instr.(type) {
			case *ssa.Jump:
				return spec(blk.Succs[0], blk, guard, depth+1)
			case *ssa.If:
				cc := fr.get(t.Cond).(*Term)
				return spec(blk.Succs[0], blk, And(guard, cc), depth+1) && spec(blk.Succs[1], blk, And(guard, Not(cc)), depth+1)
			case *ssa.Return, *ssa.Panic:
				return false
			}
			if !pureInstr(instr) {
				return false
			}
			fr.r.Steps++
			fr.step(instr)
		}
		return false
	}
	if !spec(b.Succs[0], b, c, 0) || !spec(b.Succs[1], b, Not(c), 0) {
		return false
	}
	if len(arrivals) == 0 {
		return false
	}
	// merge phi values
	merged := make([]Value, len(phis))
	for i := range phis {
		var acc Value
		for k := len(arrivals) - 1; k >= 0; k-- {
			v := arrivals[k].vals[i]
			if acc == nil {
				acc = v
				continue
			}
			vt, ok1 := v.(*Term)
			at, ok2 := acc.(*Term)
			// only boolean phis are merged: integers stay concrete (they are used as indices and lengths)
			if ok1 && ok2 && vt.Sort == at.Sort && vt.Sort.Kind == SBool {
				acc = Ite(arrivals[k].guard, vt, at)
				continue
			}
			// non-scalar: must be identical
			if !sameValue(v, acc) {
				return false
			}
		}
		if t, ok := acc.(*Term); ok {
			acc = fr.r.Name(t)
		}
		merged[i] = acc
	}
	fr.prevBlock = b
	fr.block = J
	fr.merged = merged
	fr.r.Merges++
	return true
}

func sameValue(a, b Value) (res bool) {
	defer func() {
		if recover() != nil {
			res = false
		}
	}()
	switch x := a.(type) {
	case *Term:
		y, ok := b.(*Term)
		return ok && x.Sort == y.Sort && x.Const == y.Const && x.U == y.U && x.S == y.S
	case Str:
		y, ok := b.(Str)
		if !ok || len(x.B) != len(y.B) || (x.Atom == nil) != (y.Atom == nil) {
			return false
		}
		if x.Atom != nil {
			return sameValue(x.Atom, y.Atom)
		}
		for i := range x.B {
			if !sameValue(x.B[i], y.B[i]) {
				return false
			}
		}
		return true
	case Pointer:
		y, ok := b.(Pointer)
		return ok && x.Slot == y.Slot
	case Iface:
		y, ok := b.(Iface)
		if !ok {
			return false
		}
		if x.T == nil || y.T == nil {
			return x.T == nil && y.T == nil
		}
		return x.T == y.T && sameValue(x.V, y.V)
	case *Opaque:
		y, ok := b.(*Opaque)
		return ok && x == y
	case nil:
		return b == nil
	}
	return false
}
