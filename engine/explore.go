package engine

import (
	"fmt"
	"go/token"
	"go/types"
	"os"
	"os/exec"
	"runtime/debug"
	"sort"
	"strings"
	"sync"
	"time"

	"golang.org/x/tools/go/ssa"
)

// Abort ends the current path without a verdict.
type Abort struct {
	Kind   string // "infeasible", "unsupported", "unwind", "depth", "bound", "exit"
	Reason string
	Code   int
}

func (a *Abort) Error() string { return a.Kind + ": " + a.Reason }

// TargetPanic is a Go panic raised by the interpreted code.
type TargetPanic struct {
	Kind string // "explicit", "nil-deref", "index", "nil-map", "type-assert", "div-zero", "slice-bounds", ...
	Val  Value
	Msg  string
	Pos  string
}

func (p *TargetPanic) Error() string { return "panic(" + p.Kind + "): " + p.Msg + " at " + p.Pos }

type Decision struct {
	Val    int
	N      int
	Forced bool
}

// Config parameterises an exploration.
type Config struct {
	Name      string
	Unwind    int // max visits of one block per frame
	MaxDepth  int // max call depth
	MaxPaths  int
	Workers   int
	Solver    string
	TimeoutMs int
	// AssumeBound: exceeding Unwind/MaxDepth drops the path (counted as truncated) instead of failing.
	AssumeBound bool
	// Inline reports whether a function with a body is executed by the engine.
	Inline func(fn *ssa.Function) bool
	// External handles calls that are not inlined. ok=false => unsupported.
	External func(r *Run, fn *ssa.Function, args []Value, site ssa.Instruction) (Value, bool)
	// Intrinsic handles harness intrinsics (by function name) before anything else.
	Intrinsic func(r *Run, fn *ssa.Function, args []Value, site ssa.Instruction) (Value, bool)
	Debug     bool
	// Native: pure library functions executed natively on concrete arguments.
	Native *NativeTable
	// Invoke handles interface method calls whose dynamic type has no SSA method (stub values).
	Invoke func(r *Run, recv Iface, method *types.Func, args []Value) (Value, bool)
	// NoMapPermute makes map iteration follow insertion order only (otherwise the
	// order of every range over a map with <= 3 entries is a choice over all permutations).
	NoMapPermute bool
	// NoMerge disables the if-conversion of pure short-circuit regions.
	NoMerge bool
}

// Stats aggregates an exploration.
type Stats struct {
	Paths        int
	Completed    int
	Panicked     int
	Infeasible   int
	Truncated    int
	Unsupported  map[string]int
	UnwindFail   int
	UnwindWhere  map[string]int
	Steps        int64
	Queries      int
	Sat          int
	Unsat        int
	Unknown      int
	SolverErrors int
	SolverTime   time.Duration
	PathBudget   bool
	Wall         time.Duration
}

func (s *Stats) Add(o *Stats) {
	s.Paths += o.Paths
	s.Completed += o.Completed
	s.Panicked += o.Panicked
	s.Infeasible += o.Infeasible
	s.Truncated += o.Truncated
	s.UnwindFail += o.UnwindFail
	s.Steps += o.Steps
	s.Queries += o.Queries
	s.Sat += o.Sat
	s.Unsat += o.Unsat
	s.Unknown += o.Unknown
	s.SolverErrors += o.SolverErrors
	s.SolverTime += o.SolverTime
	s.PathBudget = s.PathBudget || o.PathBudget
	if s.Unsupported == nil {
		s.Unsupported = map[string]int{}
	}
	for k, v := range o.Unsupported {
		s.Unsupported[k] += v
	}
	for k, v := range o.UnwindWhere {
		if s.UnwindWhere == nil {
			s.UnwindWhere = map[string]int{}
		}
		s.UnwindWhere[k] += v
	}
}

// Inconclusive reports whether anything prevents calling the result "held within the bound".
func (s *Stats) Inconclusive() bool {
	return len(s.Unsupported) > 0 || s.UnwindFail > 0 || s.PathBudget
}

// Explorer runs a body over all feasible paths.
type Explorer struct {
	Prog *ssa.Program
	Cfg  Config

	mu      sync.Mutex
	intern  map[string]uint64
	internR map[uint64]string
	work    [][]Decision
	active  int
	cond    *sync.Cond
	Stats   Stats
	stop    bool
	Fatal   []string
}

func NewExplorer(prog *ssa.Program, cfg Config) *Explorer {
	if cfg.Unwind == 0 {
		cfg.Unwind = 8
	}
	if cfg.MaxDepth == 0 {
		cfg.MaxDepth = 64
	}
	if cfg.MaxPaths == 0 {
		cfg.MaxPaths = 50000
	}
	if cfg.Workers == 0 {
		cfg.Workers = 1
	}
	if cfg.TimeoutMs == 0 {
		cfg.TimeoutMs = 10000
	}
	ex := &Explorer{Prog: prog, Cfg: cfg, intern: map[string]uint64{}, internR: map[uint64]string{}}
	ex.cond = sync.NewCond(&ex.mu)
	ex.Stats.Unsupported = map[string]int{}
	return ex
}

// Intern maps a literal string to its atom id (ids start at 1 and are small;
// symbolic atoms are unconstrained 64-bit values, so an atom may equal any literal or none).
func (ex *Explorer) Intern(s string) uint64 {
	ex.mu.Lock()
	defer ex.mu.Unlock()
	if id, ok := ex.intern[s]; ok {
		return id
	}
	id := uint64(len(ex.intern) + 1)
	ex.intern[s] = id
	ex.internR[id] = s
	return id
}

func (ex *Explorer) AtomLiteral(id uint64) (string, bool) {
	ex.mu.Lock()
	defer ex.mu.Unlock()
	s, ok := ex.internR[id]
	return s, ok
}

// Run is the state of one path execution.
type Run struct {
	Ex         *Explorer
	Sol        *Solver
	trace      []Decision
	Decisions  []Decision
	pos        int
	symN       int
	nameN      int
	objN       int
	facts      map[string]bool
	Syms       []SymDecl
	transcript strings.Builder
	baseDepth  int
	Steps      int64
	depth      int
	Globals    map[*ssa.Global]*Value
	// User is free for the harness driver (call logs etc.).
	User interface{}
	// Observations collected by verifObserve and friends.
	Obs []Obs
	// WriteHook, when set, sees every store target.
	WriteHook func(slot *Value)
	// GlobalHook, when set, sees every access to a package-level variable.
	GlobalHook func(g *ssa.Global)
	Trunc      bool
	Merges     int
	ufs        map[string]bool
}

type SymDecl struct {
	Name string
	Sort Sort
	Tag  string
}

type Obs struct {
	Tag string
	Val Value
}

func (r *Run) send(line string) {
	r.transcript.WriteString(line)
	r.transcript.WriteByte('\n')
	r.Sol.Send(line)
}

// Fresh declares a new symbolic constant.
func (r *Run) Fresh(sort Sort, tag string) *Term {
	name := fmt.Sprintf("s%d_%s", r.symN, sanitize(tag))
	r.symN++
	r.send(fmt.Sprintf("(declare-const %s %s)", name, sort.SMT()))
	r.Syms = append(r.Syms, SymDecl{name, sort, tag})
	return &Term{Sort: sort, S: name}
}

func sanitize(s string) string {
	var sb strings.Builder
	for _, c := range s {
		if c >= 'a' && c <= 'z' || c >= 'A' && c <= 'Z' || c >= '0' && c <= '9' || c == '_' {
			sb.WriteRune(c)
		} else {
			sb.WriteByte('_')
		}
	}
	return sb.String()
}

// Name binds a large term to a solver-side definition so strings stay small.
func (r *Run) Name(t *Term) *Term {
	if t.Const || len(t.S) < 160 {
		return t
	}
	name := fmt.Sprintf("t%d", r.nameN)
	r.nameN++
	r.send(fmt.Sprintf("(define-fun %s () %s %s)", name, t.Sort.SMT(), t.S))
	return &Term{Sort: t.Sort, S: name}
}

func (r *Run) NewObjID() int { r.objN++; return r.objN }

func (r *Run) NewOpaque(kind string) *Opaque {
	return &Opaque{ID: r.NewObjID(), Kind: kind}
}

func (r *Run) assertFact(c *Term) {
	if c.Const {
		return
	}
	r.send("(assert " + c.S + ")")
	r.facts[c.S] = true
	n := Not(c)
	r.facts[n.S] = false
}

// Assume adds cond to the path condition; an infeasible assumption ends the path.
func (r *Run) Assume(cond *Term) {
	if cond.IsTrue() {
		return
	}
	if cond.IsFalse() {
		panic(&Abort{Kind: "infeasible", Reason: "assume false"})
	}
	cond = r.Name(cond)
	if v, ok := r.facts[cond.S]; ok {
		if v {
			return
		}
		panic(&Abort{Kind: "infeasible", Reason: "assume contradicts pc"})
	}
	if r.pos < len(r.trace) {
		// replaying: the assumption was satisfiable the first time
		d := r.trace[r.pos]
		r.pos++
		r.Decisions = append(r.Decisions, d)
		r.assertFact(cond)
		return
	}
	res := r.Sol.CheckWith(cond)
	if res == ResUnsat {
		panic(&Abort{Kind: "infeasible", Reason: "assume unsat"})
	}
	r.Decisions = append(r.Decisions, Decision{Val: 1, N: 1, Forced: true})
	r.pos++
	r.assertFact(cond)
}

// Decide resolves a branch condition, forking when both sides are feasible.
func (r *Run) Decide(cond *Term) bool {
	if cond.Const {
		return cond.U == 1
	}
	cond = r.Name(cond)
	if v, ok := r.facts[cond.S]; ok {
		return v
	}
	if r.pos < len(r.trace) {
		d := r.trace[r.pos]
		r.pos++
		r.Decisions = append(r.Decisions, d)
		if d.Val == 1 {
			r.assertFact(cond)
			return true
		}
		r.assertFact(Not(cond))
		return false
	}
	r.pos++
	rt := r.Sol.CheckWith(cond)
	if rt == ResUnsat {
		r.Decisions = append(r.Decisions, Decision{Val: 0, N: 2, Forced: true})
		r.assertFact(Not(cond))
		return false
	}
	rf := r.Sol.CheckWith(Not(cond))
	if rf == ResUnsat {
		r.Decisions = append(r.Decisions, Decision{Val: 1, N: 2, Forced: true})
		r.assertFact(cond)
		return true
	}
	// both feasible (or unknown: keep both)
	alt := make([]Decision, len(r.Decisions)+1)
	copy(alt, r.Decisions)
	alt[len(r.Decisions)] = Decision{Val: 0, N: 2}
	r.Ex.pushWork(alt)
	r.Decisions = append(r.Decisions, Decision{Val: 1, N: 2})
	r.assertFact(cond)
	return true
}

// Choice forks n ways without consulting the solver.
func (r *Run) Choice(n int) int {
	if n <= 1 {
		return 0
	}
	if r.pos < len(r.trace) {
		d := r.trace[r.pos]
		r.pos++
		r.Decisions = append(r.Decisions, d)
		return d.Val
	}
	r.pos++
	for v := n - 1; v >= 1; v-- {
		alt := make([]Decision, len(r.Decisions)+1)
		copy(alt, r.Decisions)
		alt[len(r.Decisions)] = Decision{Val: v, N: n}
		r.Ex.pushWork(alt)
	}
	r.Decisions = append(r.Decisions, Decision{Val: 0, N: n})
	return 0
}

// QueryResult of an obligation.
type QueryResult struct {
	Holds        bool
	Inconclusive bool
	Model        map[string]uint64
	SolverNote   string
}

// Prove checks that cond holds on this path: query pc ∧ ¬cond.
func (r *Run) Prove(cond *Term) QueryResult {
	if cond.IsTrue() {
		return QueryResult{Holds: true}
	}
	neg := Not(r.Name(cond))
	if neg.Const {
		// cond is constant false: pc is satisfiable by construction
		neg = True
	}
	r.Sol.Push()
	r.Sol.Assert(neg)
	res := r.Sol.Check()
	var qr QueryResult
	switch res {
	case ResUnsat:
		qr.Holds = true
	case ResSat:
		qr.Model = r.readModel()
	default:
		// retry on the other solvers with the transcript
		alt := r.retryElsewhere(neg)
		switch alt {
		case ResUnsat:
			qr.Holds = true
			qr.SolverNote = "decided by fallback solver"
		case ResSat:
			qr.Inconclusive = true // no model from fallback; report as inconclusive
			qr.SolverNote = "fallback solver says sat, primary unknown"
		default:
			qr.Inconclusive = true
			qr.SolverNote = "unknown on all solvers: " + r.Sol.LastErr
		}
	}
	r.Sol.Pop()
	return qr
}

// Witness asks for a model of the current path condition (∧ extra).
func (r *Run) Witness(extra *Term) (map[string]uint64, bool) {
	r.Sol.Push()
	defer r.Sol.Pop()
	if extra != nil && !extra.Const {
		r.Sol.Assert(extra)
	} else if extra != nil && extra.IsFalse() {
		return nil, false
	}
	if r.Sol.Check() != ResSat {
		return nil, false
	}
	return r.readModel(), true
}

func (r *Run) readModel() map[string]uint64 {
	names := make([]string, len(r.Syms))
	for i, s := range r.Syms {
		names[i] = s.Name
	}
	vals, err := r.Sol.GetValues(names)
	m := map[string]uint64{}
	if err != nil {
		return m
	}
	for k, v := range vals {
		if u, ok := ParseModelValue(v); ok {
			m[k] = u
		}
	}
	return m
}

func (r *Run) retryElsewhere(neg *Term) SatResult {
	script := "(set-option :produce-models true)\n" + r.transcript.String() + "(assert " + neg.SMT() + ")\n(check-sat)\n"
	for _, alt := range [][]string{{"z3-new", "-in", "-T:60"}, {"cvc5", "--lang=smt2", "--tlimit=60000"}} {
		if alt[0] == r.Sol.Name {
			continue
		}
		s := script
		if alt[0] == "cvc5" {
			s = "(set-logic ALL)\n" + s
		}
		cmd := exec.Command(alt[0], alt[1:]...)
		cmd.Stdin = strings.NewReader(s)
		out, _ := cmd.Output()
		txt := string(out)
		if strings.Contains(txt, "(error") {
			continue
		}
		lines := strings.Fields(txt)
		if len(lines) == 0 {
			continue
		}
		switch lines[len(lines)-1] {
		case "unsat":
			return ResUnsat
		case "sat":
			return ResSat
		}
	}
	return ResUnknown
}

// Transcript returns the SMT-LIB commands of this path so far.
func (r *Run) Transcript() string { return r.transcript.String() }

func (ex *Explorer) pushWork(p []Decision) {
	ex.mu.Lock()
	ex.work = append(ex.work, p)
	ex.mu.Unlock()
	ex.cond.Signal()
}

// PathEnd describes how a path ended, passed to the body’s deferred handler.
type PathEnd struct {
	Abort *Abort
	Panic *TargetPanic
}

// Explore runs body on every feasible path. body is called once per path;
// it may panic with *Abort or *TargetPanic (uncaught target panics are counted).
func (ex *Explorer) Explore(body func(r *Run)) *Stats {
	t0 := time.Now()
	ex.work = [][]Decision{nil}
	var wg sync.WaitGroup
	for w := 0; w < ex.Cfg.Workers; w++ {
		wg.Add(1)
		go func() {
			defer wg.Done()
			sol, err := NewSolver(ex.Cfg.Solver, ex.Cfg.TimeoutMs)
			if err != nil {
				ex.mu.Lock()
				ex.Fatal = append(ex.Fatal, "solver start: "+err.Error())
				ex.mu.Unlock()
				return
			}
			defer sol.Close()
			if f := os.Getenv("VERIF_SMTLOG"); f != "" {
				lf, _ := os.Create(fmt.Sprintf("%s.%p", f, sol))
				sol.Log = lf
				defer lf.Close()
			}
			for {
				ex.mu.Lock()
				for len(ex.work) == 0 && ex.active > 0 && !ex.stop {
					ex.cond.Wait()
				}
				if ex.stop || len(ex.work) == 0 {
					ex.mu.Unlock()
					ex.cond.Broadcast()
					break
				}
				if ex.Stats.Paths >= ex.Cfg.MaxPaths {
					ex.Stats.PathBudget = true
					ex.stop = true
					ex.mu.Unlock()
					ex.cond.Broadcast()
					break
				}
				prefix := ex.work[len(ex.work)-1]
				ex.work = ex.work[:len(ex.work)-1]
				ex.active++
				ex.Stats.Paths++
				ex.mu.Unlock()

				ex.runOne(sol, prefix, body)

				ex.mu.Lock()
				ex.active--
				ex.mu.Unlock()
				ex.cond.Broadcast()
			}
			ex.mu.Lock()
			ex.Stats.Queries += sol.Queries
			ex.Stats.Sat += sol.Sat
			ex.Stats.Unsat += sol.Unsat
			ex.Stats.Unknown += sol.Unknown
			ex.Stats.SolverErrors += sol.Errors
			ex.Stats.SolverTime += sol.Time
			ex.mu.Unlock()
		}()
	}
	wg.Wait()
	ex.Stats.Wall = time.Since(t0)
	return &ex.Stats
}

func (ex *Explorer) runOne(sol *Solver, prefix []Decision, body func(r *Run)) {
	r := &Run{Ex: ex, Sol: sol, trace: prefix, facts: map[string]bool{}, Globals: map[*ssa.Global]*Value{}}
	base := sol.Depth()
	sol.Push()
	defer func() {
		rec := recover()
		sol.PopTo(base)
		ex.mu.Lock()
		defer ex.mu.Unlock()
		ex.Stats.Steps += r.Steps
		switch e := rec.(type) {
		case nil:
			ex.Stats.Completed++
		case *Abort:
			switch e.Kind {
			case "infeasible":
				ex.Stats.Infeasible++
			case "bound":
				ex.Stats.Truncated++
			case "unwind", "depth":
				if ex.Cfg.AssumeBound {
					ex.Stats.Truncated++
				} else {
					ex.Stats.UnwindFail++
					if ex.Stats.UnwindWhere == nil {
						ex.Stats.UnwindWhere = map[string]int{}
					}
					ex.Stats.UnwindWhere[e.Reason]++
				}
			case "exit":
				ex.Stats.Completed++
			default:
				ex.Stats.Unsupported[e.Reason]++
			}
		case *TargetPanic:
			ex.Stats.Panicked++
		default:
			ex.Fatal = append(ex.Fatal, fmt.Sprintf("engine panic: %v\n%s", rec, debug.Stack()))
			ex.Stats.Unsupported[fmt.Sprintf("engine panic: %v", rec)]++
		}
	}()
	body(r)
}

// UnsupportedList renders unsupported reasons.
func (s *Stats) UnsupportedList() []string {
	var out []string
	for k, v := range s.Unsupported {
		out = append(out, fmt.Sprintf("%s ×%d", k, v))
	}
	sort.Strings(out)
	return out
}

// UF applies an uninterpreted function (declared on first use in this run) to atom/BV arguments.
func (r *Run) UF(name string, res Sort, args []string) *Term {
	if r.ufs == nil {
		r.ufs = map[string]bool{}
	}
	if !r.ufs[name] {
		r.ufs[name] = true
		sorts := make([]string, len(args))
		for i := range sorts {
			sorts[i] = "(_ BitVec 64)"
		}
		r.send(fmt.Sprintf("(declare-fun %s (%s) %s)", name, strings.Join(sorts, " "), res.SMT()))
	}
	if len(args) == 0 {
		return &Term{Sort: res, S: name}
	}
	return r.Name(&Term{Sort: res, S: "(" + name + " " + strings.Join(args, " ") + ")"})
}

// StrLess is a < b on bytes-model strings.
func (r *Run) StrLess(a, b Str) *Term { return r.strCmp(token.LSS, a, b) }
