package engine

import (
	"fmt"
	"go/token"
	"go/types"
	"reflect"
	"strings"
	"sync"

	"golang.org/x/tools/go/ssa"
)

// Native bridge: functions of pure library packages (go/types, go/token, go/constant) are executed
// natively by reflection when all their arguments are concrete. Their objects travel through the
// engine as Host values; interface-typed results get the SSA-level dynamic type that corresponds
// to their Go dynamic type, so type switches in the code under test behave exactly as in a real run.

type NativeTable struct {
	Funcs   map[string]reflect.Value // package-level functions by ssa name, e.g. "go/types.Identical"
	Globals map[string]interface{}   // package-level variables by ssa name, e.g. "go/types.Typ"
	Pkgs    map[string]bool          // packages whose methods are called natively on Host receivers

	mu      sync.Mutex
	dynType map[reflect.Type]types.Type
}

func (nt *NativeTable) ssaTypeOf(prog *ssa.Program, rt reflect.Type) types.Type {
	nt.mu.Lock()
	defer nt.mu.Unlock()
	if nt.dynType == nil {
		nt.dynType = map[reflect.Type]types.Type{}
	}
	if t, ok := nt.dynType[rt]; ok {
		return t
	}
	var res types.Type
	base := rt
	ptr := false
	if rt.Kind() == reflect.Ptr {
		base = rt.Elem()
		ptr = true
	}
	if base.PkgPath() != "" && base.Name() != "" {
		if p := prog.ImportedPackage(base.PkgPath()); p != nil {
			if m, ok := p.Members[base.Name()].(*ssa.Type); ok {
				res = m.Type()
				if ptr {
					res = types.NewPointer(res)
				}
			}
		}
	} else {
		switch rt.Kind() {
		case reflect.String:
			res = types.Typ[types.String]
		case reflect.Int:
			res = types.Typ[types.Int]
		case reflect.Int64:
			res = types.Typ[types.Int64]
		case reflect.Bool:
			res = types.Typ[types.Bool]
		case reflect.Float64:
			res = types.Typ[types.Float64]
		}
	}
	nt.dynType[rt] = res
	return res
}

func isNilHost(v interface{}) bool {
	if v == nil {
		return true
	}
	rv := reflect.ValueOf(v)
	switch rv.Kind() {
	case reflect.Ptr, reflect.Map, reflect.Slice, reflect.Interface, reflect.Func, reflect.Chan:
		return rv.IsNil()
	}
	return false
}

// ToNative converts an engine value to a reflect.Value of type t.
func ToNative(v Value, t reflect.Type) (reflect.Value, bool) {
	switch x := v.(type) {
	case nil:
		return reflect.Zero(t), true
	case Host:
		if x.V == nil {
			return reflect.Zero(t), true
		}
		rv := reflect.ValueOf(x.V)
		if rv.Type().AssignableTo(t) {
			return rv, true
		}
		if rv.Type().ConvertibleTo(t) {
			return rv.Convert(t), true
		}
		return reflect.Value{}, false
	case *Term:
		if !x.Const {
			return reflect.Value{}, false
		}
		rv := reflect.New(t).Elem()
		switch t.Kind() {
		case reflect.Bool:
			rv.SetBool(x.U == 1)
		case reflect.Int, reflect.Int8, reflect.Int16, reflect.Int32, reflect.Int64:
			rv.SetInt(x.Signed())
		case reflect.Uint, reflect.Uint8, reflect.Uint16, reflect.Uint32, reflect.Uint64, reflect.Uintptr:
			rv.SetUint(x.U)
		case reflect.Float64, reflect.Float32:
			rv.SetFloat(fpVal(x))
		case reflect.Interface:
			switch x.Sort.Kind {
			case SBool:
				return reflect.ValueOf(x.U == 1), true
			case SBV:
				return reflect.ValueOf(int(x.Signed())), true
			}
			return reflect.Value{}, false
		default:
			return reflect.Value{}, false
		}
		return rv, true
	case Str:
		c, ok := x.Concrete()
		if !ok {
			return reflect.Value{}, false
		}
		if t.Kind() == reflect.String {
			rv := reflect.New(t).Elem()
			rv.SetString(c)
			return rv, true
		}
		if t.Kind() == reflect.Interface {
			return reflect.ValueOf(c), true
		}
		return reflect.Value{}, false
	case Iface:
		if x.T == nil {
			return reflect.Zero(t), true
		}
		return ToNative(x.V, t)
	case Pointer:
		if x.Slot == nil {
			return reflect.Zero(t), true
		}
		return reflect.Value{}, false
	case Slice:
		if t.Kind() != reflect.Slice {
			return reflect.Value{}, false
		}
		if x.Nil {
			return reflect.Zero(t), true
		}
		out := reflect.MakeSlice(t, x.Len, x.Len)
		for i := 0; i < x.Len; i++ {
			e, ok := ToNative(x.Elems[i], t.Elem())
			if !ok {
				return reflect.Value{}, false
			}
			out.Index(i).Set(e)
		}
		return out, true
	case Map:
		if x.M == nil {
			return reflect.Zero(t), true
		}
	case Func:
		if x.IsNil() {
			return reflect.Zero(t), true
		}
	}
	return reflect.Value{}, false
}

// FromNative converts a native result to an engine value of the static type st.
func (nt *NativeTable) FromNative(prog *ssa.Program, rv reflect.Value, st types.Type) Value {
	if !rv.IsValid() {
		return Zero(st)
	}
	switch u := st.Underlying().(type) {
	case *types.Basic:
		switch {
		case u.Info()&types.IsBoolean != 0:
			return BoolT(rv.Bool())
		case u.Info()&types.IsInteger != 0:
			bits, signed := intBits(u.Kind())
			if signed {
				return BVConst(bits, uint64(rv.Int()))
			}
			return BVConst(bits, rv.Uint())
		case u.Info()&types.IsString != 0:
			return ConcStr(rv.String())
		case u.Info()&types.IsFloat != 0:
			if u.Kind() == types.Float32 {
				return FPConst(32, rv.Float())
			}
			return FPConst(64, rv.Float())
		}
	case *types.Interface:
		if rv.Kind() == reflect.Interface {
			if rv.IsNil() {
				return Iface{}
			}
			rv = rv.Elem()
		}
		if isNilHostRV(rv) {
			// typed nil inside an interface: keep the dynamic type
			dt := nt.ssaTypeOf(prog, rv.Type())
			if dt == nil {
				return Iface{}
			}
			return Iface{T: dt, V: Pointer{}}
		}
		dt := nt.ssaTypeOf(prog, rv.Type())
		if dt == nil {
			panic(unsupported("native value of type %s has no SSA counterpart", rv.Type()))
		}
		if rv.Type().PkgPath() != "" {
			// a named type of a native package (e.g. constant.int64Val): stays a native object
			return Iface{T: dt, V: Host{V: rv.Interface()}}
		}
		return Iface{T: dt, V: nt.FromNative(prog, rv, dt)}
	case *types.Pointer:
		// typed nil pointers stay native values (some library methods are nil-safe)
		return Host{V: rv.Interface()}
	case *types.Slice:
		if rv.IsNil() {
			return Slice{Nil: true}
		}
		elems := make([]Value, rv.Len())
		for i := range elems {
			elems[i] = nt.FromNative(prog, rv.Index(i), u.Elem())
		}
		return Slice{Elems: elems, Len: len(elems)}
	case *types.Struct, *types.Map, *types.Signature, *types.Chan, *types.Array:
		return Host{V: rv.Interface()}
	case *types.Tuple:
		out := make(Tuple, u.Len())
		for i := range out {
			out[i] = nt.FromNative(prog, rv.Index(i), u.At(i).Type())
		}
		return out
	}
	return Host{V: rv.Interface()}
}

func isNilHostRV(rv reflect.Value) bool {
	switch rv.Kind() {
	case reflect.Ptr, reflect.Map, reflect.Slice, reflect.Interface, reflect.Func, reflect.Chan:
		return rv.IsNil()
	}
	return false
}

// Call tries to run fn natively. ok=false means "not a native function / arguments not concrete".
func (nt *NativeTable) Call(r *Run, fn *ssa.Function, args []Value) (res Value, ok bool) {
	if nt == nil {
		return nil, false
	}
	name := fn.String()
	if o := fn.Origin(); o != nil {
		name = o.String()
	}
	var f reflect.Value
	recvShift := 0
	if recv := fn.Signature.Recv(); recv != nil {
		if fn.Pkg == nil || !nt.Pkgs[fn.Pkg.Pkg.Path()] {
			return nil, false
		}
		if len(args) == 0 {
			return nil, false
		}
		var rcv interface{}
		switch a := args[0].(type) {
		case Host:
			rcv = a.V
		case Pointer:
			if a.Slot == nil {
				// untyped engine nil: no native receiver can be formed
				panic(&TargetPanic{Kind: "nil-deref", Msg: "method " + name + " called on nil receiver", Pos: "?"})
			}
			return nil, false
		case *Term, Str:
			// named basic receivers (token.Pos, types.BasicKind, ...)
			rt, okT := nativeBasicRecv(recv.Type())
			if !okT {
				return nil, false
			}
			rvv, okC := ToNative(a, rt)
			if !okC {
				return nil, false
			}
			rcv = rvv.Interface()
		default:
			return nil, false
		}
		if rcv == nil {
			panic(&TargetPanic{Kind: "nil-deref", Msg: "method " + name + " called on nil receiver", Pos: "?"})
		}
		m := reflect.ValueOf(rcv).MethodByName(fn.Name())
		if !m.IsValid() {
			return nil, false
		}
		f = m
		recvShift = 1
	} else {
		var found bool
		f, found = nt.Funcs[name]
		if !found {
			return nil, false
		}
	}
	ft := f.Type()
	in := make([]reflect.Value, 0, len(args))
	rest := args[recvShift:]
	for i, a := range rest {
		var pt reflect.Type
		if ft.IsVariadic() && i >= ft.NumIn()-1 {
			// the SSA call passes the variadic tail as one slice
			pt = ft.In(ft.NumIn() - 1)
			sv, okc := ToNative(a, pt)
			if !okc {
				return nil, false
			}
			for k := 0; k < sv.Len(); k++ {
				in = append(in, sv.Index(k))
			}
			continue
		}
		if i >= ft.NumIn() {
			return nil, false
		}
		pt = ft.In(i)
		nv, okc := ToNative(a, pt)
		if !okc {
			return nil, false
		}
		in = append(in, nv)
	}
	var outs []reflect.Value
	func() {
		defer func() {
			if rec := recover(); rec != nil {
				kind := "native-panic"
				if isNilHost(in0(in, f)) || strings.Contains(fmt.Sprint(rec), "nil pointer") {
					kind = "nil-deref"
				}
				panic(&TargetPanic{Kind: kind, Msg: fmt.Sprintf("%s: %v", name, rec), Pos: "?"})
			}
		}()
		outs = f.Call(in)
	}()
	results := fn.Signature.Results()
	switch results.Len() {
	case 0:
		return nil, true
	case 1:
		return nt.FromNative(r.Ex.Prog, outs[0], results.At(0).Type()), true
	}
	tu := make(Tuple, results.Len())
	for i := range tu {
		tu[i] = nt.FromNative(r.Ex.Prog, outs[i], results.At(i).Type())
	}
	return tu, true
}

func nativeBasicRecv(t types.Type) (reflect.Type, bool) {
	n, ok := t.(*types.Named)
	if !ok || n.Obj().Pkg() == nil {
		return nil, false
	}
	switch n.Obj().Pkg().Path() + "." + n.Obj().Name() {
	case "go/token.Pos":
		return reflect.TypeOf(token.Pos(0)), true
	case "go/token.Token":
		return reflect.TypeOf(token.Token(0)), true
	case "go/types.BasicKind":
		return reflect.TypeOf(types.BasicKind(0)), true
	case "go/types.BasicInfo":
		return reflect.TypeOf(types.BasicInfo(0)), true
	case "go/types.ChanDir":
		return reflect.TypeOf(types.ChanDir(0)), true
	}
	return nil, false
}

// NativeGlobal returns the engine value of a native package-level variable.
func (nt *NativeTable) Global(prog *ssa.Program, g *ssa.Global) (Value, bool) {
	if nt == nil {
		return nil, false
	}
	v, ok := nt.Globals[g.String()]
	if !ok {
		return nil, false
	}
	return nt.FromNative(prog, reflect.ValueOf(v), g.Type().(*types.Pointer).Elem()), true
}

// CallMethod invokes an exported method on a host receiver (interface method call).
func (nt *NativeTable) CallMethod(r *Run, rcv interface{}, m *types.Func, args []Value) (Value, bool) {
	if nt == nil || rcv == nil {
		return nil, false
	}
	f := reflect.ValueOf(rcv).MethodByName(m.Name())
	if !f.IsValid() {
		return nil, false
	}
	ft := f.Type()
	var in []reflect.Value
	for i, a := range args {
		if ft.IsVariadic() && i >= ft.NumIn()-1 {
			sv, ok := ToNative(a, ft.In(ft.NumIn()-1))
			if !ok {
				return nil, false
			}
			for k := 0; k < sv.Len(); k++ {
				in = append(in, sv.Index(k))
			}
			continue
		}
		if i >= ft.NumIn() {
			return nil, false
		}
		nv, ok := ToNative(a, ft.In(i))
		if !ok {
			return nil, false
		}
		in = append(in, nv)
	}
	var outs []reflect.Value
	func() {
		defer func() {
			if rec := recover(); rec != nil {
				panic(&TargetPanic{Kind: "native-panic", Msg: fmt.Sprintf("%s: %v", m.FullName(), rec), Pos: "?"})
			}
		}()
		outs = f.Call(in)
	}()
	results := m.Type().(*types.Signature).Results()
	switch results.Len() {
	case 0:
		return nil, true
	case 1:
		return nt.FromNative(r.Ex.Prog, outs[0], results.At(0).Type()), true
	}
	tu := make(Tuple, results.Len())
	for i := range tu {
		tu[i] = nt.FromNative(r.Ex.Prog, outs[i], results.At(i).Type())
	}
	return tu, true
}

func in0(in []reflect.Value, f reflect.Value) interface{} { return nil }
