package engine

import (
	"fmt"
	"go/types"
	"reflect"
	"sort"
	"strings"

	"golang.org/x/tools/go/ssa"
)

// Value is an engine value: *Term, Str, Pointer, Struct, Array, Slice, Map,
// Iface, Func, Tuple, Chan, *Opaque, Host.
type Value interface{}

// Str is a Go string. Either Atom != nil (opaque atom) or B holds one BV8 term per byte.
type Str struct {
	B    []*Term
	Atom *Term
}

type Pointer struct {
	Slot *Value // nil => nil pointer
}

type Struct []Value
type Array []Value

type Slice struct {
	Nil   bool
	Elems []Value // window [0:cap)
	Len   int
}

type MapEntry struct {
	K Value
	V Value
}

type MapObj struct {
	Entries []*MapEntry
	ID      int
	slot    Value
}

type Map struct {
	M *MapObj // nil => nil map
}

type Iface struct {
	T types.Type // nil => nil interface
	V Value
}

type Closure struct {
	Fn  *ssa.Function
	Env []Value
}

type Func struct {
	C *Closure
	B *ssa.Builtin
	O *Opaque // opaque non-nil func token
}

func (f Func) IsNil() bool { return f.C == nil && f.B == nil && f.O == nil }

type Tuple []Value

// Opaque is an environment object with identity.
type Opaque struct {
	ID    int
	Kind  string
	Attrs map[string]Value
	Items []Value
}

type Chan struct {
	O *Opaque
}

// Host wraps a native Go value (used for go/types objects etc.).
type Host struct {
	V interface{}
}

// mapiter implements Range/Next over maps and strings.
type mapIter struct {
	entries []*MapEntry
	order   []int
	pos     int
}

type strIter struct {
	s   Str
	pos int
}

func ConcStr(s string) Str {
	b := make([]*Term, len(s))
	for i := 0; i < len(s); i++ {
		b[i] = byteConsts[s[i]]
	}
	return Str{B: b}
}

// Concrete returns the Go string if all bytes are constant.
func (s Str) Concrete() (string, bool) {
	if s.Atom != nil {
		return "", false
	}
	var sb strings.Builder
	for _, b := range s.B {
		if !b.Const {
			return "", false
		}
		sb.WriteByte(byte(b.U))
	}
	return sb.String(), true
}

func (s Str) String() string {
	if s.Atom != nil {
		return "atom:" + s.Atom.SMT()
	}
	if c, ok := s.Concrete(); ok {
		return fmt.Sprintf("%q", c)
	}
	parts := make([]string, len(s.B))
	for i, b := range s.B {
		if b.Const {
			parts[i] = fmt.Sprintf("%q", string(rune(b.U)))
		} else {
			parts[i] = b.S
		}
	}
	return "bytes[" + strings.Join(parts, " ") + "]"
}

// CopyVal implements Go value semantics for aggregates.
func CopyVal(v Value) Value {
	switch v := v.(type) {
	case Struct:
		n := make(Struct, len(v))
		for i, f := range v {
			n[i] = CopyVal(f)
		}
		return n
	case Array:
		n := make(Array, len(v))
		for i, f := range v {
			n[i] = CopyVal(f)
		}
		return n
	case Tuple:
		n := make(Tuple, len(v))
		for i, f := range v {
			n[i] = CopyVal(f)
		}
		return n
	}
	return v
}

func intBits(k types.BasicKind) (bits int, signed bool) {
	switch k {
	case types.Int8:
		return 8, true
	case types.Int16:
		return 16, true
	case types.Int32, types.UntypedRune:
		return 32, true
	case types.Int, types.Int64, types.UntypedInt:
		return 64, true
	case types.Uint8:
		return 8, false
	case types.Uint16:
		return 16, false
	case types.Uint32:
		return 32, false
	case types.Uint, types.Uint64, types.Uintptr:
		return 64, false
	}
	return 0, false
}

// Zero returns the zero value of a type.
func Zero(t types.Type) Value {
	switch t := t.(type) {
	case *types.Basic:
		switch {
		case t.Kind() == types.UntypedNil:
			return Iface{}
		case t.Info()&types.IsBoolean != 0:
			return False
		case t.Info()&types.IsInteger != 0:
			b, _ := intBits(t.Kind())
			return BVConst(b, 0)
		case t.Kind() == types.Float32:
			return FPConst(32, 0)
		case t.Kind() == types.Float64, t.Kind() == types.UntypedFloat:
			return FPConst(64, 0)
		case t.Kind() == types.Complex64:
			return Struct{FPConst(32, 0), FPConst(32, 0)}
		case t.Kind() == types.Complex128, t.Kind() == types.UntypedComplex:
			return Struct{FPConst(64, 0), FPConst(64, 0)}
		case t.Info()&types.IsString != 0:
			return Str{}
		case t.Kind() == types.UnsafePointer:
			return Pointer{}
		}
		panic(fmt.Sprintf("zero: basic %v", t))
	case *types.Pointer:
		return Pointer{}
	case *types.Slice:
		return Slice{Nil: true}
	case *types.Array:
		a := make(Array, t.Len())
		for i := range a {
			a[i] = Zero(t.Elem())
		}
		return a
	case *types.Map:
		return Map{}
	case *types.Struct:
		s := make(Struct, t.NumFields())
		for i := range s {
			s[i] = Zero(t.Field(i).Type())
		}
		return s
	case *types.Named:
		return Zero(t.Underlying())
	case *types.Alias:
		return Zero(types.Unalias(t))
	case *types.Interface:
		return Iface{}
	case *types.Signature:
		return Func{}
	case *types.Chan:
		return Chan{}
	case *types.Tuple:
		tu := make(Tuple, t.Len())
		for i := range tu {
			tu[i] = Zero(t.At(i).Type())
		}
		return tu
	case *types.TypeParam:
		panic(&Abort{Reason: "zero of type parameter " + t.String()})
	}
	panic(fmt.Sprintf("zero: %T %v", t, t))
}

// hostEq compares host values natively.
func hostEq(a, b interface{}) bool {
	defer func() { recover() }()
	return a == b
}

// ValEq implements Go's == on two engine values of the same static type.
func (r *Run) ValEq(a, b Value) *Term {
	switch a := a.(type) {
	case *Term:
		return Eq(a, b.(*Term))
	case Str:
		return r.StrEq(a, b.(Str))
	case Pointer:
		if bh, ok := b.(Host); ok {
			return BoolT(a.Slot == nil && isNilHost(bh.V))
		}
		return BoolT(a.Slot == b.(Pointer).Slot)
	case Struct:
		bb := b.(Struct)
		res := True
		for i := range a {
			res = And(res, r.ValEq(a[i], bb[i]))
		}
		return res
	case Array:
		bb := b.(Array)
		res := True
		for i := range a {
			res = And(res, r.ValEq(a[i], bb[i]))
		}
		return res
	case Slice:
		bb := b.(Slice)
		if a.Nil || bb.Nil {
			return BoolT(a.Nil && bb.Nil)
		}
		panic(&Abort{Reason: "comparison of non-nil slices"})
	case Map:
		bb := b.(Map)
		if a.M == nil || bb.M == nil {
			return BoolT(a.M == nil && bb.M == nil)
		}
		panic(&Abort{Reason: "comparison of non-nil maps"})
	case Func:
		bb := b.(Func)
		if a.IsNil() || bb.IsNil() {
			return BoolT(a.IsNil() && bb.IsNil())
		}
		panic(&Abort{Reason: "comparison of non-nil funcs"})
	case Chan:
		return BoolT(a.O == b.(Chan).O)
	case *Opaque:
		bo, ok := b.(*Opaque)
		return BoolT(ok && a == bo)
	case Host:
		if bp, ok := b.(Pointer); ok {
			return BoolT(bp.Slot == nil && isNilHost(a.V))
		}
		bh, ok := b.(Host)
		if !ok {
			return False
		}
		return BoolT(hostEq(a.V, bh.V))
	case Iface:
		bb, ok := b.(Iface)
		if !ok {
			panic(&Abort{Reason: fmt.Sprintf("iface compared with %T", b)})
		}
		if a.T == nil || bb.T == nil {
			return BoolT(a.T == nil && bb.T == nil)
		}
		if !types.Identical(a.T, bb.T) {
			return False
		}
		return r.ValEq(a.V, bb.V)
	case nil:
		return BoolT(b == nil)
	}
	panic(&Abort{Reason: fmt.Sprintf("ValEq on %T", a)})
}

func (r *Run) StrEq(a, b Str) *Term {
	if a.Atom != nil || b.Atom != nil {
		ta := r.AsAtom(a)
		tb := r.AsAtom(b)
		return Eq(ta, tb)
	}
	if len(a.B) != len(b.B) {
		return False
	}
	res := True
	for i := range a.B {
		res = And(res, Eq(a.B[i], b.B[i]))
		if res.IsFalse() {
			return False
		}
	}
	return res
}

// AsAtom converts a string to an atom term; concrete strings are interned.
func (r *Run) AsAtom(s Str) *Term {
	if s.Atom != nil {
		return s.Atom
	}
	c, ok := s.Concrete()
	if !ok {
		panic(&Abort{Reason: "byte-level string used as atom"})
	}
	return AtomConst(r.Ex.Intern(c))
}

// FormatValue renders a value for evidence samples / debugging.
func FormatValue(v Value) string {
	var sb strings.Builder
	fmtVal(&sb, v, 0, map[*Value]bool{})
	return sb.String()
}

func fmtVal(sb *strings.Builder, v Value, depth int, seen map[*Value]bool) {
	if depth > 8 {
		sb.WriteString("…")
		return
	}
	switch v := v.(type) {
	case nil:
		sb.WriteString("<nil>")
	case *Term:
		if v.Const {
			switch v.Sort.Kind {
			case SBool:
				fmt.Fprintf(sb, "%v", v.U == 1)
			case SBV:
				fmt.Fprintf(sb, "%d", v.U)
			case SFP:
				fmt.Fprintf(sb, "%g", fpVal(v))
			default:
				sb.WriteString(v.SMT())
			}
		} else {
			sb.WriteString(v.S)
		}
	case Str:
		sb.WriteString(v.String())
	case Pointer:
		if v.Slot == nil {
			sb.WriteString("nil")
		} else if seen[v.Slot] {
			sb.WriteString("&<cycle>")
		} else {
			seen[v.Slot] = true
			sb.WriteString("&")
			fmtVal(sb, *v.Slot, depth+1, seen)
			delete(seen, v.Slot)
		}
	case Struct:
		sb.WriteString("{")
		for i, f := range v {
			if i > 0 {
				sb.WriteString(", ")
			}
			fmtVal(sb, f, depth+1, seen)
		}
		sb.WriteString("}")
	case Array:
		sb.WriteString("[")
		for i, f := range v {
			if i > 0 {
				sb.WriteString(", ")
			}
			fmtVal(sb, f, depth+1, seen)
		}
		sb.WriteString("]")
	case Tuple:
		sb.WriteString("(")
		for i, f := range v {
			if i > 0 {
				sb.WriteString(", ")
			}
			fmtVal(sb, f, depth+1, seen)
		}
		sb.WriteString(")")
	case Slice:
		if v.Nil {
			sb.WriteString("[]nil")
			return
		}
		sb.WriteString("[]{")
		for i := 0; i < v.Len; i++ {
			if i > 0 {
				sb.WriteString(", ")
			}
			fmtVal(sb, v.Elems[i], depth+1, seen)
		}
		sb.WriteString("}")
	case Map:
		if v.M == nil {
			sb.WriteString("map nil")
			return
		}
		sb.WriteString("map{")
		for i, e := range v.M.Entries {
			if i > 0 {
				sb.WriteString(", ")
			}
			fmtVal(sb, e.K, depth+1, seen)
			sb.WriteString(": ")
			fmtVal(sb, e.V, depth+1, seen)
		}
		sb.WriteString("}")
	case Iface:
		if v.T == nil {
			sb.WriteString("iface(nil)")
			return
		}
		fmt.Fprintf(sb, "iface(%s: ", v.T)
		fmtVal(sb, v.V, depth+1, seen)
		sb.WriteString(")")
	case Func:
		switch {
		case v.IsNil():
			sb.WriteString("func(nil)")
		case v.C != nil:
			sb.WriteString("func " + v.C.Fn.String())
		case v.B != nil:
			sb.WriteString("builtin " + v.B.Name())
		default:
			fmt.Fprintf(sb, "func#%d", v.O.ID)
		}
	case Chan:
		if v.O == nil {
			sb.WriteString("chan(nil)")
		} else {
			fmt.Fprintf(sb, "chan#%d", v.O.ID)
		}
	case *Opaque:
		fmt.Fprintf(sb, "%s#%d", v.Kind, v.ID)
	case Host:
		rv := reflect.ValueOf(v.V)
		if !rv.IsValid() {
			sb.WriteString("host(nil)")
		} else if s, ok := v.V.(fmt.Stringer); ok && !(rv.Kind() == reflect.Ptr && rv.IsNil()) {
			fmt.Fprintf(sb, "host(%T %s)", v.V, safeString(s))
		} else {
			fmt.Fprintf(sb, "host(%T)", v.V)
		}
	default:
		fmt.Fprintf(sb, "?%T", v)
	}
}

func safeString(s fmt.Stringer) (out string) {
	defer func() {
		if recover() != nil {
			out = "?"
		}
	}()
	return s.String()
}

// sortedKeys is a small helper for deterministic evidence output.
func sortedKeys(m map[string]int) []string {
	ks := make([]string, 0, len(m))
	for k := range m {
		ks = append(ks, k)
	}
	sort.Strings(ks)
	return ks
}
