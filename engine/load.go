package engine

import (
	"fmt"
	"os"
	"strings"

	"golang.org/x/tools/go/packages"
	"golang.org/x/tools/go/ssa"
	"golang.org/x/tools/go/ssa/ssautil"
)

// Loaded is an SSA program built from source.
type Loaded struct {
	Prog   *ssa.Program
	Pkgs   []*packages.Package
	ByPath map[string]*ssa.Package
	Errors []string // type / parse errors of the root packages and their deps inside the module
}

// Load loads patterns in dir (with build tags and overlay files) and builds SSA for
// the whole dependency closure.
func Load(dir string, tags string, overlay map[string][]byte, patterns ...string) (*Loaded, error) {
	cfg := &packages.Config{
		Mode:    packages.LoadAllSyntax,
		Dir:     dir,
		Overlay: overlay,
		Env:     append(os.Environ(), "GOFLAGS=-mod=mod", "GOPROXY=off", "GOSUMDB=off", "GOTOOLCHAIN=local"),
	}
	if tags != "" {
		cfg.BuildFlags = []string{"-tags", tags}
	}
	pkgs, err := packages.Load(cfg, patterns...)
	if err != nil {
		return nil, err
	}
	l := &Loaded{Pkgs: pkgs, ByPath: map[string]*ssa.Package{}}
	packages.Visit(pkgs, nil, func(p *packages.Package) {
		for _, e := range p.Errors {
			l.Errors = append(l.Errors, e.Error())
		}
	})
	if len(l.Errors) > 0 {
		return l, fmt.Errorf("package errors: %s", strings.Join(l.Errors, "; "))
	}
	prog, _ := ssautil.AllPackages(pkgs, ssa.InstantiateGenerics)
	prog.Build()
	l.Prog = prog
	for _, p := range prog.AllPackages() {
		l.ByPath[p.Pkg.Path()] = p
	}
	return l, nil
}

// Func finds a package-level function.
func (l *Loaded) Func(pkgPath, name string) *ssa.Function {
	p := l.ByPath[pkgPath]
	if p == nil {
		return nil
	}
	return p.Func(name)
}
