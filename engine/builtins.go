package engine

import (
	"go/types"

	"golang.org/x/tools/go/ssa"
)

func (r *Run) callBuiltin(b *ssa.Builtin, args []Value, site ssa.Instruction) Value {
	switch b.Name() {
	case "len":
		switch x := args[0].(type) {
		case Str:
			if x.Atom != nil {
				where := "?"
				if site != nil {
					where = site.Parent().String()
				}
				panic(unsupported("len of atom string in %s", where))
			}
			return BVConst(64, uint64(len(x.B)))
		case Slice:
			return BVConst(64, uint64(x.Len))
		case Array:
			return BVConst(64, uint64(len(x)))
		case Map:
			if x.M == nil {
				return BVConst(64, 0)
			}
			return BVConst(64, uint64(len(x.M.Entries)))
		case Pointer: // *array
			if x.Slot == nil {
				t := site.(*ssa.Call).Call.Args[0].Type().Underlying().(*types.Pointer).Elem().Underlying().(*types.Array)
				return BVConst(64, uint64(t.Len()))
			}
			return BVConst(64, uint64(len((*x.Slot).(Array))))
		case Chan:
			return BVConst(64, 0)
		}
	case "cap":
		switch x := args[0].(type) {
		case Slice:
			return BVConst(64, uint64(len(x.Elems)))
		case Array:
			return BVConst(64, uint64(len(x)))
		case Pointer:
			if x.Slot != nil {
				return BVConst(64, uint64(len((*x.Slot).(Array))))
			}
		}
	case "append":
		dst := args[0].(Slice)
		var add []Value
		switch s := args[1].(type) {
		case Slice:
			add = s.Elems[:s.Len]
		case Str:
			if s.Atom != nil {
				panic(unsupported("append of atom string"))
			}
			for _, b := range s.B {
				add = append(add, b)
			}
		}
		if len(add) == 0 {
			return dst
		}
		if dst.Len+len(add) <= len(dst.Elems) {
			for i, v := range add {
				if r.WriteHook != nil {
					r.WriteHook(&dst.Elems[dst.Len+i])
				}
				dst.Elems[dst.Len+i] = CopyVal(v)
			}
			return Slice{Elems: dst.Elems, Len: dst.Len + len(add)}
		}
		ncap := 2 * len(dst.Elems)
		if ncap < dst.Len+len(add) {
			ncap = dst.Len + len(add)
		}
		elems := make([]Value, ncap)
		for i := 0; i < dst.Len; i++ {
			elems[i] = CopyVal(dst.Elems[i])
		}
		for i, v := range add {
			elems[dst.Len+i] = CopyVal(v)
		}
		var el types.Type
		if c, ok := site.(*ssa.Call); ok {
			el = c.Type().Underlying().(*types.Slice).Elem()
		}
		for i := dst.Len + len(add); i < ncap; i++ {
			if el != nil {
				elems[i] = Zero(el)
			}
		}
		return Slice{Elems: elems, Len: dst.Len + len(add)}
	case "copy":
		dst := args[0].(Slice)
		var src []Value
		switch s := args[1].(type) {
		case Slice:
			src = s.Elems[:s.Len]
		case Str:
			for _, b := range s.B {
				src = append(src, b)
			}
		}
		n := dst.Len
		if len(src) < n {
			n = len(src)
		}
		tmp := make([]Value, n)
		for i := 0; i < n; i++ {
			tmp[i] = CopyVal(src[i])
		}
		for i := 0; i < n; i++ {
			if r.WriteHook != nil {
				r.WriteHook(&dst.Elems[i])
			}
			dst.Elems[i] = tmp[i]
		}
		return BVConst(64, uint64(n))
	case "delete":
		m := args[0].(Map)
		if m.M != nil {
			r.MapDelete(m.M, args[1])
		}
		return nil
	case "panic":
		pos := "?"
		if site != nil {
			pos = r.Pos(site.Pos())
		}
		panic(&TargetPanic{Kind: "explicit", Val: args[0], Msg: FormatValue(args[0]), Pos: pos})
	case "print", "println":
		return nil
	case "min", "max":
		res := args[0]
		for _, a := range args[1:] {
			x, y := res.(*Term), a.(*Term)
			signed := true
			if c, ok := site.(*ssa.Call); ok {
				signed = isSigned(c.Type())
			}
			var lt *Term
			if x.Sort.Kind == SFP {
				lt = FPCmp("<", x, y)
			} else {
				lt = BVCmp("<", x, y, signed)
			}
			if b.Name() == "min" {
				res = Ite(lt, x, y)
			} else {
				res = Ite(lt, y, x)
			}
		}
		return res
	case "recover":
		return Iface{}
	case "ssa:wrapnilchk":
		if p, ok := args[0].(Pointer); ok && p.Slot == nil {
			pos := "?"
			if site != nil {
				pos = r.Pos(site.Pos())
			}
			panic(&TargetPanic{Kind: "nil-deref", Msg: "value method called on nil pointer", Pos: pos})
		}
		return args[0]
	case "clear":
		switch x := args[0].(type) {
		case Map:
			if x.M != nil {
				if r.WriteHook != nil {
					r.WriteHook(mapSlot(x.M))
				}
				x.M.Entries = nil
			}
		}
		return nil
	case "real":
		return args[0].(Struct)[0]
	case "imag":
		return args[0].(Struct)[1]
	case "complex":
		return Struct{args[0], args[1]}
	case "close":
		return nil
	}
	panic(unsupported("builtin %s on %T", b.Name(), args[0]))
}
