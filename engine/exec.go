package engine

import (
	"fmt"
	"go/constant"
	"go/token"
	"go/types"
	"math"
	"reflect"

	"golang.org/x/tools/go/ssa"
)

type frame struct {
	r         *Run
	fn        *ssa.Function
	env       map[ssa.Value]Value
	block     *ssa.BasicBlock
	prevBlock *ssa.BasicBlock
	visits    map[int]int
	defers    []deferred
	result    Value
	merged    []Value // phi values of the current block after an if-conversion
}

type deferred struct {
	fn   Value
	args []Value
	site ssa.Instruction
}

func (r *Run) Pos(p token.Pos) string {
	if !p.IsValid() {
		return "?"
	}
	return r.Ex.Prog.Fset.Position(p).String()
}

func unsupported(format string, a ...interface{}) *Abort {
	return &Abort{Kind: "unsupported", Reason: fmt.Sprintf(format, a...)}
}

// Global returns the slot of a package-level variable (zero-initialised lazily).
func (r *Run) Global(g *ssa.Global) *Value {
	if r.GlobalHook != nil {
		r.GlobalHook(g)
	}
	if s, ok := r.Globals[g]; ok {
		return s
	}
	s := new(Value)
	if v, ok := r.Ex.Cfg.Native.Global(r.Ex.Prog, g); ok {
		*s = v
	} else {
		*s = Zero(g.Type().(*types.Pointer).Elem())
	}
	r.Globals[g] = s
	return s
}

func (fr *frame) get(v ssa.Value) Value {
	switch v := v.(type) {
	case *ssa.Const:
		return fr.r.constValue(v)
	case *ssa.Global:
		return Pointer{Slot: fr.r.Global(v)}
	case *ssa.Function:
		return Func{C: &Closure{Fn: v}}
	case *ssa.Builtin:
		return Func{B: v}
	case nil:
		return nil
	}
	if x, ok := fr.env[v]; ok {
		return x
	}
	panic(fmt.Sprintf("get: no value for %T %s in %s", v, v.Name(), fr.fn))
}

func (r *Run) constValue(c *ssa.Const) Value {
	t := c.Type()
	if c.Value == nil {
		if tp, ok := t.(*types.TypeParam); ok {
			_ = tp
			panic(unsupported("zero const of type parameter"))
		}
		return Zero(t)
	}
	bt, ok := t.Underlying().(*types.Basic)
	if !ok {
		panic(unsupported("const of type %s", t))
	}
	switch {
	case bt.Info()&types.IsBoolean != 0:
		return BoolT(constant.BoolVal(c.Value))
	case bt.Info()&types.IsInteger != 0:
		bits, signed := intBits(bt.Kind())
		if signed {
			i, _ := constant.Int64Val(constant.ToInt(c.Value))
			return BVConst(bits, uint64(i))
		}
		u, _ := constant.Uint64Val(constant.ToInt(c.Value))
		return BVConst(bits, u)
	case bt.Info()&types.IsFloat != 0:
		f, _ := constant.Float64Val(c.Value)
		if bt.Kind() == types.Float32 {
			return FPConst(32, f)
		}
		return FPConst(64, f)
	case bt.Info()&types.IsComplex != 0:
		re, _ := constant.Float64Val(constant.Real(c.Value))
		im, _ := constant.Float64Val(constant.Imag(c.Value))
		b := 64
		if bt.Kind() == types.Complex64 {
			b = 32
		}
		return Struct{FPConst(b, re), FPConst(b, im)}
	case bt.Info()&types.IsString != 0:
		if c.Value.Kind() == constant.String {
			return ConcStr(constant.StringVal(c.Value))
		}
		// string(rune) constant
		i, _ := constant.Int64Val(c.Value)
		return ConcStr(string(rune(i)))
	}
	panic(unsupported("const %s of type %s", c.Value, t))
}

// CallResult is the outcome of a guarded call.
type CallResult struct {
	Ret   Value
	Panic *TargetPanic
}

// CallGuarded calls fn and converts a target panic into a result.
func (r *Run) CallGuarded(fn *ssa.Function, args []Value) (res CallResult) {
	depth := r.depth
	defer func() {
		if rec := recover(); rec != nil {
			if tp, ok := rec.(*TargetPanic); ok {
				r.depth = depth
				res.Panic = tp
				return
			}
			panic(rec)
		}
	}()
	res.Ret = r.CallFunction(fn, args, nil)
	return
}

// CallValue calls a func value.
func (r *Run) CallValue(fv Value, args []Value, site ssa.Instruction) Value {
	f, ok := fv.(Func)
	if !ok {
		panic(unsupported("call of %T", fv))
	}
	switch {
	case f.C != nil:
		if len(f.C.Env) > 0 {
			return r.callClosure(f.C, args, site)
		}
		return r.CallFunction(f.C.Fn, args, site)
	case f.B != nil:
		return r.callBuiltin(f.B, args, site)
	case f.O != nil:
		if f.O.Kind == "const-result" {
			return f.O.Items[0]
		}
		panic(unsupported("call of opaque func value %s#%d", f.O.Kind, f.O.ID))
	}
	pos := "?"
	if site != nil {
		pos = r.Pos(site.Pos())
	}
	panic(&TargetPanic{Kind: "nil-deref", Msg: "call of nil func", Pos: pos})
}

func (r *Run) callClosure(c *Closure, args []Value, site ssa.Instruction) Value {
	return r.interpret(c.Fn, args, c.Env, site)
}

// CallFunction dispatches a static callee.
func (r *Run) CallFunction(fn *ssa.Function, args []Value, site ssa.Instruction) Value {
	cfg := &r.Ex.Cfg
	if cfg.Intrinsic != nil {
		if v, ok := cfg.Intrinsic(r, fn, args, site); ok {
			return v
		}
	}
	if fn.Blocks != nil && (cfg.Inline == nil || cfg.Inline(fn)) {
		return r.interpret(fn, args, nil, site)
	}
	if cfg.External != nil {
		if v, ok := cfg.External(r, fn, args, site); ok {
			return v
		}
	}
	if cfg.Native != nil {
		if v, ok := cfg.Native.Call(r, fn, args); ok {
			return v
		}
	}
	panic(unsupported("call to %s", fn.String()))
}

func (r *Run) interpret(fn *ssa.Function, args []Value, env []Value, site ssa.Instruction) Value {
	if fn.Blocks == nil {
		panic(unsupported("no body for %s", fn))
	}
	r.depth++
	if r.depth > r.Ex.Cfg.MaxDepth {
		panic(&Abort{Kind: "depth", Reason: "call depth exceeded in " + fn.String()})
	}
	defer func() { r.depth-- }()
	fr := &frame{r: r, fn: fn, env: make(map[ssa.Value]Value, 16), visits: map[int]int{}}
	if len(args) != len(fn.Params) {
		panic(fmt.Sprintf("arity mismatch calling %s: %d vs %d", fn, len(args), len(fn.Params)))
	}
	for i, p := range fn.Params {
		fr.env[p] = args[i]
	}
	for i, fv := range fn.FreeVars {
		fr.env[fv] = env[i]
	}
	for _, l := range fn.Locals {
		slot := new(Value)
		fr.env[l] = Pointer{Slot: slot}
	}
	fr.block = fn.Blocks[0]
	for fr.block != nil {
		fr.runBlock()
	}
	return fr.result
}

func (fr *frame) runBlock() {
	b := fr.block
	fr.visits[b.Index]++
	if fr.visits[b.Index] > fr.r.Ex.Cfg.Unwind {
		panic(&Abort{Kind: "unwind", Reason: fmt.Sprintf("unwind bound %d exceeded in %s block %d", fr.r.Ex.Cfg.Unwind, fr.fn, b.Index)})
	}
	// phis are evaluated simultaneously
	nphi := 0
	var phivals []Value
	merged := fr.merged
	fr.merged = nil
	for _, instr := range b.Instrs {
		phi, ok := instr.(*ssa.Phi)
		if !ok {
			break
		}
		if merged != nil {
			phivals = append(phivals, merged[nphi])
			nphi++
			continue
		}
		nphi++
		for i, pred := range b.Preds {
			if pred == fr.prevBlock {
				phivals = append(phivals, fr.get(phi.Edges[i]))
				break
			}
		}
	}
	for i := 0; i < nphi; i++ {
		fr.env[b.Instrs[i].(*ssa.Phi)] = phivals[i]
	}
	for _, instr := range b.Instrs[nphi:] {
		fr.r.Steps++
		if fr.step(instr) {
			return
		}
	}
	panic("block fell through: " + fr.fn.String())
}

func (fr *frame) tpanic(kind, msg string, p token.Pos) *TargetPanic {
	return &TargetPanic{Kind: kind, Msg: msg, Pos: fr.r.Pos(p)}
}

// step executes one instruction; it returns true when control left the block.
func (fr *frame) step(instr ssa.Instruction) bool {
	r := fr.r
	switch in := instr.(type) {
	case *ssa.DebugRef:
	case *ssa.UnOp:
		fr.env[in] = fr.unop(in)
	case *ssa.BinOp:
		fr.env[in] = r.binop(in.Op, in.X.Type(), fr.get(in.X), fr.get(in.Y), in.Pos())
	case *ssa.Call:
		fr.env[in] = fr.call(&in.Call, in)
	case *ssa.ChangeInterface:
		fr.env[in] = fr.get(in.X)
	case *ssa.ChangeType:
		fr.env[in] = fr.get(in.X)
	case *ssa.Convert:
		fr.env[in] = r.convert(in.Type(), in.X.Type(), fr.get(in.X))
	case *ssa.MultiConvert:
		fr.env[in] = r.convert(in.Type(), in.X.Type(), fr.get(in.X))
	case *ssa.SliceToArrayPointer:
		s := fr.get(in.X).(Slice)
		n := int(in.Type().Underlying().(*types.Pointer).Elem().Underlying().(*types.Array).Len())
		if s.Len < n {
			panic(fr.tpanic("slice-bounds", "slice to array pointer: length too small", in.Pos()))
		}
		if s.Nil {
			fr.env[in] = Pointer{}
		} else {
			slot := new(Value)
			*slot = Array(s.Elems[:n:n])
			fr.env[in] = Pointer{Slot: slot}
		}
	case *ssa.MakeInterface:
		fr.env[in] = Iface{T: in.X.Type(), V: fr.get(in.X)}
	case *ssa.Extract:
		fr.env[in] = fr.get(in.Tuple).(Tuple)[in.Index]
	case *ssa.Slice:
		fr.env[in] = fr.slice(in)
	case *ssa.Return:
		switch len(in.Results) {
		case 0:
			fr.result = nil
		case 1:
			fr.result = fr.get(in.Results[0])
		default:
			res := make(Tuple, len(in.Results))
			for i, x := range in.Results {
				res[i] = fr.get(x)
			}
			fr.result = res
		}
		fr.block = nil
		return true
	case *ssa.RunDefers:
		for i := len(fr.defers) - 1; i >= 0; i-- {
			d := fr.defers[i]
			r.CallValue(d.fn, d.args, d.site)
		}
		fr.defers = nil
	case *ssa.Defer:
		fn, args := fr.prepareCall(&in.Call, in)
		fr.defers = append(fr.defers, deferred{fn, args, in})
	case *ssa.Panic:
		v := fr.get(in.X)
		panic(&TargetPanic{Kind: "explicit", Val: v, Msg: FormatValue(v), Pos: r.Pos(in.Pos())})
	case *ssa.Store:
		p := fr.get(in.Addr).(Pointer)
		if p.Slot == nil {
			panic(fr.tpanic("nil-deref", "store through nil pointer", in.Pos()))
		}
		if r.WriteHook != nil {
			r.WriteHook(p.Slot)
		}
		*p.Slot = CopyVal(fr.get(in.Val))
	case *ssa.If:
		c := fr.get(in.Cond).(*Term)
		if !c.Const && !r.Ex.Cfg.NoMerge {
			if _, known := r.facts[c.S]; !known && fr.tryMerge(in, c) {
				return true
			}
		}
		succ := 1
		if r.Decide(c) {
			succ = 0
		}
		fr.prevBlock, fr.block = fr.block, fr.block.Succs[succ]
		return true
	case *ssa.Jump:
		fr.prevBlock, fr.block = fr.block, fr.block.Succs[0]
		return true
	case *ssa.Alloc:
		t := in.Type().Underlying().(*types.Pointer).Elem()
		if in.Heap {
			slot := new(Value)
			*slot = Zero(t)
			fr.env[in] = Pointer{Slot: slot}
		} else {
			*fr.env[in].(Pointer).Slot = Zero(t)
		}
	case *ssa.MakeSlice:
		l := concreteInt(fr.get(in.Len), "make len")
		c := concreteInt(fr.get(in.Cap), "make cap")
		if l < 0 || c < l {
			panic(fr.tpanic("slice-bounds", "makeslice: len out of range", in.Pos()))
		}
		el := in.Type().Underlying().(*types.Slice).Elem()
		elems := make([]Value, c)
		for i := range elems {
			elems[i] = Zero(el)
		}
		fr.env[in] = Slice{Elems: elems, Len: l}
	case *ssa.MakeMap:
		fr.env[in] = Map{M: &MapObj{ID: r.NewObjID()}}
	case *ssa.MakeChan:
		fr.env[in] = Chan{O: r.NewOpaque("chan")}
	case *ssa.MakeClosure:
		env := make([]Value, len(in.Bindings))
		for i, b := range in.Bindings {
			env[i] = fr.get(b)
		}
		fr.env[in] = Func{C: &Closure{Fn: in.Fn.(*ssa.Function), Env: env}}
	case *ssa.Range:
		fr.env[in] = r.rangeIter(fr.get(in.X))
	case *ssa.Next:
		fr.env[in] = r.next(fr.get(in.Iter), in)
	case *ssa.FieldAddr:
		p, isPtr := fr.get(in.X).(Pointer)
		if !isPtr {
			if h, isHost := fr.get(in.X).(Host); isHost {
				// address of an embedded struct of a native object (promoted method call such as
				// (*types.TypeName).Pkg via the embedded object): the native method is reachable on the outer value
				st := in.X.Type().Underlying().(*types.Pointer).Elem().Underlying().(*types.Struct)
				if st.Field(in.Field).Embedded() {
					fr.env[in] = h
					break
				}
			}
			panic(unsupported("field access on %T in %s (%s)", fr.get(in.X), fr.fn, r.Pos(in.Pos())))
		}
		if p.Slot == nil {
			panic(fr.tpanic("nil-deref", "field address of nil pointer", in.Pos()))
		}
		st, ok := (*p.Slot).(Struct)
		if !ok {
			if h, isHost := (*p.Slot).(Host); isHost {
				// a native struct value held in a local: fields are read through reflection (read-only copy)
				slot := new(Value)
				*slot = r.hostField(h, in.Field, in.Type().Underlying().(*types.Pointer).Elem())
				fr.env[in] = Pointer{Slot: slot}
				break
			}
			panic(fmt.Sprintf("FieldAddr on %T in %s", *p.Slot, fr.fn))
		}
		fr.env[in] = Pointer{Slot: &st[in.Field]}
	case *ssa.Field:
		if h, isHost := fr.get(in.X).(Host); isHost {
			fr.env[in] = r.hostField(h, in.Field, in.Type())
			break
		}
		fr.env[in] = CopyVal(fr.get(in.X).(Struct)[in.Field])
	case *ssa.IndexAddr:
		fr.env[in] = fr.indexAddr(in)
	case *ssa.Index:
		fr.env[in] = fr.index(in)
	case *ssa.Lookup:
		fr.env[in] = fr.lookup(in)
	case *ssa.MapUpdate:
		m := fr.get(in.Map).(Map)
		if m.M == nil {
			panic(fr.tpanic("nil-map", "assignment to entry in nil map", in.Pos()))
		}
		r.MapStore(m.M, fr.get(in.Key), CopyVal(fr.get(in.Value)))
	case *ssa.TypeAssert:
		fr.env[in] = fr.typeAssert(in)
	case *ssa.Phi:
		panic("phi in the middle of a block")
	case *ssa.Go, *ssa.Send, *ssa.Select:
		panic(unsupported("%T", instr))
	default:
		panic(unsupported("instruction %T", instr))
	}
	return false
}

func concreteInt(v Value, what string) int {
	t, ok := v.(*Term)
	if !ok || !t.Const {
		panic(unsupported("symbolic %s", what))
	}
	return int(t.Signed())
}

func (fr *frame) unop(in *ssa.UnOp) Value {
	x := fr.get(in.X)
	switch in.Op {
	case token.MUL:
		p := x.(Pointer)
		if p.Slot == nil {
			panic(fr.tpanic("nil-deref", "nil pointer dereference", in.Pos()))
		}
		return CopyVal(*p.Slot)
	case token.NOT:
		return Not(x.(*Term))
	case token.SUB:
		switch x := x.(type) {
		case *Term:
			if x.Sort.Kind == SFP {
				if x.Const {
					return FPConst(x.Sort.Bits, -fpVal(x))
				}
				return sym(x.Sort, "(fp.neg %s)", x.S)
			}
			return BVNeg(x)
		}
	case token.XOR:
		return BVNot(x.(*Term))
	}
	panic(unsupported("unop %s on %T", in.Op, x))
}

func isSigned(t types.Type) bool {
	if b, ok := t.Underlying().(*types.Basic); ok {
		return b.Info()&types.IsUnsigned == 0
	}
	return true
}

func (r *Run) binop(op token.Token, t types.Type, x, y Value, p token.Pos) Value {
	switch op {
	case token.EQL:
		return r.ValEq(x, y)
	case token.NEQ:
		return Not(r.ValEq(x, y))
	}
	switch x := x.(type) {
	case *Term:
		yt := y.(*Term)
		if x.Sort.Kind == SBool {
			switch op {
			case token.AND, token.LAND:
				return And(x, yt)
			case token.OR, token.LOR:
				return Or(x, yt)
			}
		}
		if x.Sort.Kind == SFP {
			switch op {
			case token.LSS:
				return FPCmp("<", x, yt)
			case token.LEQ:
				return FPCmp("<=", x, yt)
			case token.GTR:
				return FPCmp(">", x, yt)
			case token.GEQ:
				return FPCmp(">=", x, yt)
			}
			if x.Const && yt.Const {
				a, b := fpVal(x), fpVal(yt)
				switch op {
				case token.ADD:
					return FPConst(x.Sort.Bits, a+b)
				case token.SUB:
					return FPConst(x.Sort.Bits, a-b)
				case token.MUL:
					return FPConst(x.Sort.Bits, a*b)
				case token.QUO:
					return FPConst(x.Sort.Bits, a/b)
				}
			}
			panic(unsupported("float arithmetic %s", op))
		}
		signed := isSigned(t)
		switch op {
		case token.ADD:
			return BVBin("add", x, yt, signed)
		case token.SUB:
			return BVBin("sub", x, yt, signed)
		case token.MUL:
			return BVBin("mul", x, yt, signed)
		case token.QUO, token.REM:
			z := Eq(yt, BVConst(yt.Sort.Bits, 0))
			if r.Decide(z) {
				panic(&TargetPanic{Kind: "div-zero", Msg: "integer divide by zero", Pos: r.Pos(p)})
			}
			if op == token.QUO {
				return BVBin("div", x, yt, signed)
			}
			return BVBin("rem", x, yt, signed)
		case token.AND:
			return BVBin("and", x, yt, signed)
		case token.OR:
			return BVBin("or", x, yt, signed)
		case token.XOR:
			return BVBin("xor", x, yt, signed)
		case token.AND_NOT:
			return BVBin("andnot", x, yt, signed)
		case token.SHL, token.SHR:
			// shift count may have a different width
			cnt := yt
			if cnt.Sort.Bits != x.Sort.Bits {
				if cnt.Const {
					c := cnt.U
					if c > 64 {
						c = 64
					}
					cnt = BVConst(x.Sort.Bits, c)
					if x.Sort.Bits < 8 || c >= uint64(1)<<uint(x.Sort.Bits-1) {
						cnt = BVConst(x.Sort.Bits, uint64(x.Sort.Bits))
					}
				} else {
					panic(unsupported("symbolic shift count of different width"))
				}
			}
			if op == token.SHL {
				return BVBin("shl", x, cnt, signed)
			}
			return BVBin("shr", x, cnt, signed)
		case token.LSS:
			return BVCmp("<", x, yt, signed)
		case token.LEQ:
			return BVCmp("<=", x, yt, signed)
		case token.GTR:
			return BVCmp(">", x, yt, signed)
		case token.GEQ:
			return BVCmp(">=", x, yt, signed)
		}
	case Str:
		ys := y.(Str)
		switch op {
		case token.ADD:
			if x.Atom != nil || ys.Atom != nil {
				if len(x.B) == 0 && x.Atom == nil {
					return ys
				}
				if len(ys.B) == 0 && ys.Atom == nil {
					return x
				}
				// atoms are opaque names: their concatenation is an uninterpreted (congruent) function
				_, xc := x.Concrete()
				_, yc := ys.Concrete()
				if (x.Atom != nil || xc) && (ys.Atom != nil || yc) {
					return Str{Atom: r.UF("uf_concat_2", AtomSort, []string{r.AsAtom(x).SMT(), r.AsAtom(ys).SMT()})}
				}
				panic(unsupported("concatenation of atom strings"))
			}
			nb := make([]*Term, 0, len(x.B)+len(ys.B))
			nb = append(nb, x.B...)
			nb = append(nb, ys.B...)
			return Str{B: nb}
		case token.LSS, token.LEQ, token.GTR, token.GEQ:
			return r.strCmp(op, x, ys)
		}
	}
	panic(unsupported("binop %s on %T", op, x))
}

func (r *Run) strCmp(op token.Token, a, b Str) *Term {
	if a.Atom != nil || b.Atom != nil {
		// opaque names: an uninterpreted strict order (irreflexive on identical terms); code that sorts atoms is
		// explored under every outcome of the comparisons
		_, ac := a.Concrete()
		_, bc := b.Concrete()
		if (a.Atom == nil && !ac) || (b.Atom == nil && !bc) {
			panic(unsupported("ordering of atom strings"))
		}
		x, y := r.AsAtom(a).SMT(), r.AsAtom(b).SMT()
		lt := func(p, q string) *Term {
			if p == q {
				return False
			}
			return r.UF("uf_atom_lt", BoolSort, []string{p, q})
		}
		switch op {
		case token.LSS:
			return lt(x, y)
		case token.GTR:
			return lt(y, x)
		case token.LEQ:
			return Not(lt(y, x))
		default:
			return Not(lt(x, y))
		}
	}
	// lexicographic less: built from the end
	n := len(a.B)
	if len(b.B) < n {
		n = len(b.B)
	}
	less := BoolT(len(a.B) < len(b.B)) // all common bytes equal
	eq := BoolT(len(a.B) == len(b.B))
	for i := n - 1; i >= 0; i-- {
		lt := BVCmp("<", a.B[i], b.B[i], false)
		e := Eq(a.B[i], b.B[i])
		less = Or(lt, And(e, less))
		eq = And(e, eq)
	}
	switch op {
	case token.LSS:
		return less
	case token.LEQ:
		return Or(less, eq)
	case token.GTR:
		return Not(Or(less, eq))
	default:
		return Not(less)
	}
}

func (r *Run) convert(dst, src types.Type, x Value) Value {
	ud, us := dst.Underlying(), src.Underlying()
	switch us := us.(type) {
	case *types.Pointer:
		return x // unsafe.Pointer conversions etc.
	case *types.Slice:
		switch ud := ud.(type) {
		case *types.Basic: // []byte/[]rune -> string
			s := x.(Slice)
			if bs, ok := us.Elem().Underlying().(*types.Basic); ok && bs.Kind() == types.Uint8 {
				b := make([]*Term, s.Len)
				for i := 0; i < s.Len; i++ {
					b[i] = s.Elems[i].(*Term)
				}
				return Str{B: b}
			}
			// []rune: ASCII only
			b := make([]*Term, s.Len)
			for i := 0; i < s.Len; i++ {
				b[i] = BVResize(s.Elems[i].(*Term), 8, false)
			}
			return Str{B: b}
		case *types.Slice:
			return x
		case *types.Array, *types.Pointer:
			_ = ud
			panic(unsupported("slice to array conversion"))
		}
	case *types.Basic:
		if us.Kind() == types.UnsafePointer {
			return x
		}
		switch ud := ud.(type) {
		case *types.Slice: // string -> []byte / []rune
			s := x.(Str)
			if s.Atom != nil {
				panic(unsupported("atom string to slice"))
			}
			eb, _ := intBits(ud.Elem().Underlying().(*types.Basic).Kind())
			elems := make([]Value, len(s.B))
			for i, b := range s.B {
				elems[i] = BVResize(b, eb, false)
			}
			return Slice{Elems: elems, Len: len(elems)}
		case *types.Basic:
			return r.convertBasic(ud, us, x)
		case *types.Pointer:
			return x
		}
	}
	if types.Identical(ud, us) {
		return x
	}
	panic(unsupported("convert %s -> %s", src, dst))
}

func (r *Run) convertBasic(ud, us *types.Basic, x Value) Value {
	if ud.Kind() == types.UnsafePointer {
		return x
	}
	switch {
	case us.Info()&types.IsString != 0 && ud.Info()&types.IsString != 0:
		return x
	case us.Info()&types.IsInteger != 0 && ud.Info()&types.IsString != 0:
		t := x.(*Term)
		if t.Const {
			return ConcStr(string(rune(t.Signed())))
		}
		// ASCII assumption: a symbolic rune < 0x80 becomes a single byte
		return Str{B: []*Term{BVResize(t, 8, false)}}
	case us.Info()&types.IsInteger != 0 && ud.Info()&types.IsInteger != 0:
		db, _ := intBits(ud.Kind())
		_, ssgn := intBits(us.Kind())
		return BVResize(x.(*Term), db, ssgn)
	case us.Info()&types.IsFloat != 0 && ud.Info()&types.IsFloat != 0:
		t := x.(*Term)
		db := 64
		if ud.Kind() == types.Float32 {
			db = 32
		}
		if t.Sort.Bits == db {
			return t
		}
		if t.Const {
			return FPConst(db, fpVal(t))
		}
		if db == 32 {
			return sym(Sort{SFP, 32}, "((_ to_fp 8 24) RNE %s)", t.S)
		}
		return sym(Sort{SFP, 64}, "((_ to_fp 11 53) RNE %s)", t.S)
	case us.Info()&types.IsInteger != 0 && ud.Info()&types.IsFloat != 0:
		t := x.(*Term)
		if t.Const {
			db := 64
			if ud.Kind() == types.Float32 {
				db = 32
			}
			if isSigned(us) {
				return FPConst(db, float64(t.Signed()))
			}
			return FPConst(db, float64(t.U))
		}
	case us.Info()&types.IsFloat != 0 && ud.Info()&types.IsInteger != 0:
		t := x.(*Term)
		if t.Const {
			db, sg := intBits(ud.Kind())
			f := fpVal(t)
			if sg {
				return BVConst(db, uint64(int64(f)))
			}
			return BVConst(db, uint64(f))
		}
	case us.Info()&types.IsComplex != 0 && ud.Info()&types.IsComplex != 0:
		return x
	case us.Info()&types.IsBoolean != 0 && ud.Info()&types.IsBoolean != 0:
		return x
	}
	panic(unsupported("convert basic %s -> %s", us, ud))
}

var _ = math.Abs

func (fr *frame) slice(in *ssa.Slice) Value {
	x := fr.get(in.X)
	lo, hi, max := -1, -1, -1
	if in.Low != nil {
		lo = concreteInt(fr.get(in.Low), "slice low")
	}
	if in.High != nil {
		hi = concreteInt(fr.get(in.High), "slice high")
	}
	if in.Max != nil {
		max = concreteInt(fr.get(in.Max), "slice max")
	}
	if lo < 0 {
		lo = 0
	}
	switch x := x.(type) {
	case Str:
		if x.Atom != nil {
			panic(unsupported("slicing atom string"))
		}
		if hi < 0 {
			hi = len(x.B)
		}
		if lo > hi || hi > len(x.B) {
			panic(fr.tpanic("slice-bounds", fmt.Sprintf("string slice bounds out of range [%d:%d] with length %d", lo, hi, len(x.B)), in.Pos()))
		}
		return Str{B: x.B[lo:hi]}
	case Slice:
		c := len(x.Elems)
		if hi < 0 {
			hi = x.Len
		}
		if max < 0 {
			max = c
		}
		if lo > hi || hi > max || max > c {
			panic(fr.tpanic("slice-bounds", fmt.Sprintf("slice bounds out of range [%d:%d:%d] with capacity %d", lo, hi, max, c), in.Pos()))
		}
		if x.Nil {
			return Slice{Nil: true}
		}
		return Slice{Elems: x.Elems[lo:max:max], Len: hi - lo}
	case Pointer:
		if x.Slot == nil {
			panic(fr.tpanic("nil-deref", "slice of nil array pointer", in.Pos()))
		}
		arr := (*x.Slot).(Array)
		c := len(arr)
		if hi < 0 {
			hi = c
		}
		if max < 0 {
			max = c
		}
		if lo > hi || hi > max || max > c {
			panic(fr.tpanic("slice-bounds", "array slice bounds out of range", in.Pos()))
		}
		return Slice{Elems: []Value(arr)[lo:max:max], Len: hi - lo}
	}
	panic(unsupported("slice of %T", x))
}

func (fr *frame) indexAddr(in *ssa.IndexAddr) Value {
	x := fr.get(in.X)
	idx := fr.get(in.Index).(*Term)
	if !idx.Const {
		panic(unsupported("symbolic index"))
	}
	i := int(idx.Signed())
	switch x := x.(type) {
	case Slice:
		if i < 0 || i >= x.Len {
			panic(fr.tpanic("index", fmt.Sprintf("index out of range [%d] with length %d", i, x.Len), in.Pos()))
		}
		return Pointer{Slot: &x.Elems[i]}
	case Pointer:
		if x.Slot == nil {
			panic(fr.tpanic("nil-deref", "index of nil array pointer", in.Pos()))
		}
		arr := (*x.Slot).(Array)
		if i < 0 || i >= len(arr) {
			panic(fr.tpanic("index", fmt.Sprintf("index out of range [%d] with length %d", i, len(arr)), in.Pos()))
		}
		return Pointer{Slot: &arr[i]}
	}
	panic(unsupported("indexaddr of %T", x))
}

func (fr *frame) index(in *ssa.Index) Value {
	x := fr.get(in.X)
	idx := fr.get(in.Index).(*Term)
	if !idx.Const {
		panic(unsupported("symbolic index"))
	}
	i := int(idx.Signed())
	switch x := x.(type) {
	case Array:
		if i < 0 || i >= len(x) {
			panic(fr.tpanic("index", "array index out of range", in.Pos()))
		}
		return CopyVal(x[i])
	case Str:
		if x.Atom != nil {
			panic(unsupported("indexing atom string"))
		}
		if i < 0 || i >= len(x.B) {
			panic(fr.tpanic("index", fmt.Sprintf("string index out of range [%d] with length %d", i, len(x.B)), in.Pos()))
		}
		return x.B[i]
	}
	panic(unsupported("index of %T", x))
}

func (fr *frame) lookup(in *ssa.Lookup) Value {
	x := fr.get(in.X)
	switch x := x.(type) {
	case Map:
		k := fr.get(in.Index)
		var v Value
		found := false
		if x.M != nil {
			if e := fr.r.MapFind(x.M, k); e != nil {
				v, found = CopyVal(e.V), true
			}
		}
		if !found {
			v = Zero(in.X.Type().Underlying().(*types.Map).Elem())
		}
		if in.CommaOk {
			return Tuple{v, BoolT(found)}
		}
		return v
	case Str:
		idx := fr.get(in.Index).(*Term)
		if !idx.Const {
			panic(unsupported("symbolic string index"))
		}
		i := int(idx.Signed())
		if x.Atom != nil {
			panic(unsupported("indexing atom string"))
		}
		if i < 0 || i >= len(x.B) {
			panic(fr.tpanic("index", "string index out of range", in.Pos()))
		}
		return x.B[i]
	}
	panic(unsupported("lookup in %T", x))
}

// MapFind locates the entry for key k, forking on symbolic key equality.
func (r *Run) MapFind(m *MapObj, k Value) *MapEntry {
	for _, e := range m.Entries {
		eq := r.ValEq(e.K, k)
		if r.Decide(eq) {
			return e
		}
	}
	return nil
}

func (r *Run) MapStore(m *MapObj, k, v Value) {
	if r.WriteHook != nil {
		r.WriteHook(mapSlot(m))
	}
	if e := r.MapFind(m, k); e != nil {
		e.V = v
		return
	}
	m.Entries = append(m.Entries, &MapEntry{K: k, V: v})
}

func (r *Run) MapDelete(m *MapObj, k Value) {
	if r.WriteHook != nil {
		r.WriteHook(mapSlot(m))
	}
	for i, e := range m.Entries {
		if r.Decide(r.ValEq(e.K, k)) {
			m.Entries = append(m.Entries[:i:i], m.Entries[i+1:]...)
			return
		}
	}
}

// MapSlot gives every map object a pseudo slot for the write monitor / sharing analysis.
func MapSlot(m *MapObj) *Value { return &m.slot }

func mapSlot(m *MapObj) *Value { return &m.slot }

func (r *Run) rangeIter(x Value) Value {
	switch x := x.(type) {
	case Map:
		it := &mapIter{}
		if x.M != nil {
			it.entries = append(it.entries, x.M.Entries...)
		}
		n := len(it.entries)
		// iteration order is a choice over all permutations (n <= 3), else rotations
		it.order = make([]int, n)
		for i := range it.order {
			it.order[i] = i
		}
		if n >= 2 && !r.Ex.Cfg.NoMapPermute {
			if n <= 3 {
				perms := permutations(n)
				it.order = perms[r.Choice(len(perms))]
			} else {
				rot := r.Choice(n)
				for i := range it.order {
					it.order[i] = (i + rot) % n
				}
			}
		}
		return it
	case Str:
		if x.Atom != nil {
			panic(unsupported("range over atom string"))
		}
		return &strIter{s: x}
	}
	panic(unsupported("range over %T", x))
}

func permutations(n int) [][]int {
	if n == 1 {
		return [][]int{{0}}
	}
	var out [][]int
	for _, p := range permutations(n - 1) {
		for pos := 0; pos <= len(p); pos++ {
			q := make([]int, 0, n)
			q = append(q, p[:pos]...)
			q = append(q, n-1)
			q = append(q, p[pos:]...)
			out = append(out, q)
		}
	}
	return out
}

func (r *Run) next(it Value, in *ssa.Next) Value {
	switch it := it.(type) {
	case *mapIter:
		if it.pos >= len(it.order) {
			return Tuple{False, nil, nil}
		}
		e := it.entries[it.order[it.pos]]
		it.pos++
		return Tuple{True, e.K, CopyVal(e.V)}
	case *strIter:
		if it.pos >= len(it.s.B) {
			return Tuple{False, BVConst(64, 0), BVConst(32, 0)}
		}
		i := it.pos
		it.pos++
		// ASCII assumption: one byte per rune
		return Tuple{True, BVConst(64, uint64(i)), BVResize(it.s.B[i], 32, false)}
	}
	panic(unsupported("next on %T", it))
}

func (fr *frame) typeAssert(in *ssa.TypeAssert) Value {
	x := fr.get(in.X).(Iface)
	ok := false
	var v Value
	if x.T != nil {
		if types.IsInterface(in.AssertedType) {
			ok = fr.r.implements(x.T, in.AssertedType)
			if ok {
				v = x
			}
		} else if types.Identical(x.T, in.AssertedType) {
			ok = true
			v = x.V
		}
	}
	if in.CommaOk {
		if !ok {
			v = Zero(in.AssertedType)
		}
		return Tuple{v, BoolT(ok)}
	}
	if !ok {
		dyn := "nil"
		if x.T != nil {
			dyn = x.T.String()
		}
		panic(fr.tpanic("type-assert", fmt.Sprintf("interface conversion: %s is not %s", dyn, in.AssertedType), in.Pos()))
	}
	return v
}

func (r *Run) implements(t types.Type, iface types.Type) bool {
	it, ok := iface.Underlying().(*types.Interface)
	if !ok {
		return false
	}
	return types.Implements(t, it)
}

func (fr *frame) prepareCall(c *ssa.CallCommon, site ssa.Instruction) (Value, []Value) {
	r := fr.r
	if c.IsInvoke() {
		recv := fr.get(c.Value)
		ifc, ok := recv.(Iface)
		if !ok {
			panic(fmt.Sprintf("invoke on %T", recv))
		}
		if ifc.T == nil {
			panic(fr.tpanic("nil-deref", "method call on nil interface: "+c.Method.Name(), site.Pos()))
		}
		args := make([]Value, 0, len(c.Args)+1)
		args = append(args, ifc.V)
		for _, a := range c.Args {
			args = append(args, fr.get(a))
		}
		var fn *ssa.Function
		if h, isHost := ifc.V.(Host); isHost {
			if v, ok := r.Ex.Cfg.Native.CallMethod(r, h.V, c.Method, args[1:]); ok {
				return Func{O: &Opaque{Kind: "const-result", Items: []Value{v}}}, nil
			}
		} else {
			fn = lookupMethodSafe(r.Ex.Prog, ifc.T, c.Method)
		}
		if fn == nil {
			if h := r.Ex.Cfg.Invoke; h != nil {
				if v, ok := h(r, ifc, c.Method, args[1:]); ok {
					return Func{O: &Opaque{Kind: "const-result", Items: []Value{v}}}, nil
				}
			}
			panic(unsupported("no method %s on %s", c.Method.Name(), ifc.T))
		}
		return Func{C: &Closure{Fn: fn}}, args
	}
	fv := fr.get(c.Value)
	args := make([]Value, len(c.Args))
	for i, a := range c.Args {
		args[i] = fr.get(a)
	}
	return fv, args
}

func (fr *frame) call(c *ssa.CallCommon, site ssa.Instruction) Value {
	fv, args := fr.prepareCall(c, site)
	return fr.r.CallValue(fv, args, site)
}

// CallGuardedClosure is CallGuarded for a closure with free variables.
func (r *Run) CallGuardedClosure(fn *ssa.Function, args []Value, env []Value) (res CallResult) {
	depth := r.depth
	defer func() {
		if rec := recover(); rec != nil {
			if tp, ok := rec.(*TargetPanic); ok {
				r.depth = depth
				res.Panic = tp
				return
			}
			panic(rec)
		}
	}()
	res.Ret = r.interpret(fn, args, env, nil)
	return
}

func lookupMethodSafe(prog *ssa.Program, t types.Type, m *types.Func) (fn *ssa.Function) {
	defer func() {
		if recover() != nil {
			fn = nil
		}
	}()
	return prog.LookupMethod(t, m.Pkg(), m.Name())
}

// hostField reads an exported field of a native struct value.
func (r *Run) hostField(h Host, idx int, t types.Type) Value {
	rv := reflect.ValueOf(h.V)
	for rv.Kind() == reflect.Ptr {
		rv = rv.Elem()
	}
	if rv.Kind() != reflect.Struct || idx >= rv.NumField() || !rv.Type().Field(idx).IsExported() {
		panic(unsupported("field %d of native %T", idx, h.V))
	}
	return r.Ex.Cfg.Native.FromNative(r.Ex.Prog, rv.Field(idx), t)
}
