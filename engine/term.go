package engine

import (
	"fmt"
	"math"
	"strings"
)

// SortKind enumerates the SMT sorts used by the engine.
type SortKind int

const (
	SBool SortKind = iota
	SBV            // bit-vector of Bits
	SFP            // IEEE float of Bits (32/64)
	SAtom          // opaque string atom, encoded as (_ BitVec 64) with interned literals
)

type Sort struct {
	Kind SortKind
	Bits int
}

func (s Sort) SMT() string {
	switch s.Kind {
	case SBool:
		return "Bool"
	case SBV:
		return fmt.Sprintf("(_ BitVec %d)", s.Bits)
	case SFP:
		if s.Bits == 32 {
			return "(_ FloatingPoint 8 24)"
		}
		return "(_ FloatingPoint 11 53)"
	case SAtom:
		return "(_ BitVec 64)"
	}
	panic("sort")
}

var (
	BoolSort = Sort{SBool, 0}
	AtomSort = Sort{SAtom, 64}
)

func BV(n int) Sort { return Sort{SBV, n} }

// Term is an immutable SMT term. Constant terms carry their value in U
// (booleans 0/1, bit-vectors zero-extended, floats as IEEE bits, atoms as id).
type Term struct {
	Sort  Sort
	Const bool
	U     uint64
	S     string
}

var (
	True  = &Term{Sort: BoolSort, Const: true, U: 1}
	False = &Term{Sort: BoolSort, Const: true, U: 0}
)

func BoolT(b bool) *Term {
	if b {
		return True
	}
	return False
}

func mask(bits int) uint64 {
	if bits >= 64 {
		return ^uint64(0)
	}
	return (uint64(1) << uint(bits)) - 1
}

var byteConsts [256]*Term

func init() {
	for i := range byteConsts {
		byteConsts[i] = &Term{Sort: BV(8), Const: true, U: uint64(i)}
	}
}

func BVConst(bits int, v uint64) *Term {
	if bits == 8 {
		return byteConsts[v&0xff]
	}
	return &Term{Sort: BV(bits), Const: true, U: v & mask(bits)}
}

func FPConst(bits int, f float64) *Term {
	if bits == 32 {
		return &Term{Sort: Sort{SFP, 32}, Const: true, U: uint64(math.Float32bits(float32(f)))}
	}
	return &Term{Sort: Sort{SFP, 64}, Const: true, U: math.Float64bits(f)}
}

func AtomConst(id uint64) *Term { return &Term{Sort: AtomSort, Const: true, U: id} }

func (t *Term) IsTrue() bool  { return t.Const && t.Sort.Kind == SBool && t.U == 1 }
func (t *Term) IsFalse() bool { return t.Const && t.Sort.Kind == SBool && t.U == 0 }

// SMT renders the term.
func (t *Term) SMT() string {
	if !t.Const {
		return t.S
	}
	switch t.Sort.Kind {
	case SBool:
		if t.U == 1 {
			return "true"
		}
		return "false"
	case SBV, SAtom:
		bits := t.Sort.Bits
		if bits%4 == 0 {
			return fmt.Sprintf("#x%0*x", bits/4, t.U)
		}
		return fmt.Sprintf("#b%0*b", bits, t.U)
	case SFP:
		if t.Sort.Bits == 32 {
			return fmt.Sprintf("((_ to_fp 8 24) #x%08x)", t.U)
		}
		return fmt.Sprintf("((_ to_fp 11 53) #x%016x)", t.U)
	}
	panic("smt")
}

func (t *Term) String() string { return t.SMT() }

func (t *Term) Signed() int64 {
	bits := t.Sort.Bits
	if bits >= 64 {
		return int64(t.U)
	}
	if t.U&(uint64(1)<<uint(bits-1)) != 0 {
		return int64(t.U | ^mask(bits))
	}
	return int64(t.U)
}

func sym(sort Sort, format string, a ...interface{}) *Term {
	return &Term{Sort: sort, S: fmt.Sprintf(format, a...)}
}

func Not(a *Term) *Term {
	if a.Const {
		return BoolT(a.U == 0)
	}
	if strings.HasPrefix(a.S, "(not ") {
		return &Term{Sort: BoolSort, S: a.S[5 : len(a.S)-1]}
	}
	return sym(BoolSort, "(not %s)", a.S)
}

func And(a, b *Term) *Term {
	if a.Const {
		if a.U == 0 {
			return False
		}
		return b
	}
	if b.Const {
		if b.U == 0 {
			return False
		}
		return a
	}
	if a.S == b.S {
		return a
	}
	return sym(BoolSort, "(and %s %s)", a.S, b.S)
}

func Or(a, b *Term) *Term {
	if a.Const {
		if a.U == 1 {
			return True
		}
		return b
	}
	if b.Const {
		if b.U == 1 {
			return True
		}
		return a
	}
	if a.S == b.S {
		return a
	}
	return sym(BoolSort, "(or %s %s)", a.S, b.S)
}

func AndAll(ts []*Term) *Term {
	r := True
	for _, t := range ts {
		r = And(r, t)
	}
	return r
}

func Implies(a, b *Term) *Term { return Or(Not(a), b) }

func Ite(c, a, b *Term) *Term {
	if c.Const {
		if c.U == 1 {
			return a
		}
		return b
	}
	if a.Const && b.Const && a.U == b.U {
		return a
	}
	if !a.Const && !b.Const && a.S == b.S {
		return a
	}
	if a.Sort.Kind == SBool {
		if a.IsTrue() && b.IsFalse() {
			return c
		}
		if a.IsFalse() && b.IsTrue() {
			return Not(c)
		}
	}
	return sym(a.Sort, "(ite %s %s %s)", c.SMT(), a.SMT(), b.SMT())
}

// Eq is Go's == on scalars (fp.eq for floats).
func Eq(a, b *Term) *Term {
	if a.Sort != b.Sort {
		panic(fmt.Sprintf("Eq sort mismatch %v %v (%s, %s)", a.Sort, b.Sort, a.SMT(), b.SMT()))
	}
	if a.Sort.Kind == SFP {
		if a.Const && b.Const {
			return BoolT(fpVal(a) == fpVal(b))
		}
		return sym(BoolSort, "(fp.eq %s %s)", a.SMT(), b.SMT())
	}
	if a.Const && b.Const {
		return BoolT(a.U == b.U)
	}
	if !a.Const && !b.Const && a.S == b.S {
		return True
	}
	if a.Sort.Kind == SBool {
		if a.Const {
			a, b = b, a
		}
		if b.Const {
			if b.U == 1 {
				return a
			}
			return Not(a)
		}
	}
	return sym(BoolSort, "(= %s %s)", a.SMT(), b.SMT())
}

// Same is bit identity (also for floats: same bits, or both NaN is NOT assumed).
func Same(a, b *Term) *Term {
	if a.Sort.Kind == SFP {
		if a.Const && b.Const {
			return BoolT(a.U == b.U)
		}
		if !a.Const && !b.Const && a.S == b.S {
			return True
		}
		return sym(BoolSort, "(= %s %s)", a.SMT(), b.SMT())
	}
	return Eq(a, b)
}

func fpVal(t *Term) float64 {
	if t.Sort.Bits == 32 {
		return float64(math.Float32frombits(uint32(t.U)))
	}
	return math.Float64frombits(t.U)
}

// BVBin builds a binary bit-vector operation with constant folding.
// op is one of add sub mul udiv sdiv urem srem and or xor shl lshr ashr andnot.
func BVBin(op string, a, b *Term, signed bool) *Term {
	bits := a.Sort.Bits
	if a.Const && b.Const {
		x, y := a.U, b.U
		sx, sy := a.Signed(), b.Signed()
		var r uint64
		ok := true
		switch op {
		case "add":
			r = x + y
		case "sub":
			r = x - y
		case "mul":
			r = x * y
		case "div":
			if y == 0 {
				ok = false
			} else if signed {
				r = uint64(sx / sy)
			} else {
				r = x / y
			}
		case "rem":
			if y == 0 {
				ok = false
			} else if signed {
				r = uint64(sx % sy)
			} else {
				r = x % y
			}
		case "and":
			r = x & y
		case "or":
			r = x | y
		case "xor":
			r = x ^ y
		case "andnot":
			r = x &^ y
		case "shl":
			if y >= uint64(bits) {
				r = 0
			} else {
				r = x << y
			}
		case "shr":
			if signed {
				if y >= uint64(bits) {
					y = uint64(bits - 1)
				}
				r = uint64(sx >> y)
			} else if y >= uint64(bits) {
				r = 0
			} else {
				r = x >> y
			}
		default:
			ok = false
		}
		if ok {
			return BVConst(bits, r)
		}
	}
	var name string
	switch op {
	case "add":
		name = "bvadd"
	case "sub":
		name = "bvsub"
	case "mul":
		name = "bvmul"
	case "div":
		name = "bvudiv"
		if signed {
			name = "bvsdiv"
		}
	case "rem":
		name = "bvurem"
		if signed {
			name = "bvsrem"
		}
	case "and":
		name = "bvand"
	case "or":
		name = "bvor"
	case "xor":
		name = "bvxor"
	case "andnot":
		return sym(a.Sort, "(bvand %s (bvnot %s))", a.SMT(), b.SMT())
	case "shl":
		name = "bvshl"
	case "shr":
		name = "bvlshr"
		if signed {
			name = "bvashr"
		}
	default:
		panic("BVBin " + op)
	}
	return sym(a.Sort, "(%s %s %s)", name, a.SMT(), b.SMT())
}

// BVCmp builds < <= > >= comparisons.
func BVCmp(op string, a, b *Term, signed bool) *Term {
	if a.Const && b.Const {
		var r bool
		if signed {
			x, y := a.Signed(), b.Signed()
			switch op {
			case "<":
				r = x < y
			case "<=":
				r = x <= y
			case ">":
				r = x > y
			case ">=":
				r = x >= y
			}
		} else {
			x, y := a.U, b.U
			switch op {
			case "<":
				r = x < y
			case "<=":
				r = x <= y
			case ">":
				r = x > y
			case ">=":
				r = x >= y
			}
		}
		return BoolT(r)
	}
	p := "bvu"
	if signed {
		p = "bvs"
	}
	var n string
	switch op {
	case "<":
		n = "lt"
	case "<=":
		n = "le"
	case ">":
		n = "gt"
	case ">=":
		n = "ge"
	}
	return sym(BoolSort, "(%s%s %s %s)", p, n, a.SMT(), b.SMT())
}

func FPCmp(op string, a, b *Term) *Term {
	if a.Const && b.Const {
		x, y := fpVal(a), fpVal(b)
		switch op {
		case "<":
			return BoolT(x < y)
		case "<=":
			return BoolT(x <= y)
		case ">":
			return BoolT(x > y)
		case ">=":
			return BoolT(x >= y)
		}
	}
	n := map[string]string{"<": "fp.lt", "<=": "fp.leq", ">": "fp.gt", ">=": "fp.geq"}[op]
	return sym(BoolSort, "(%s %s %s)", n, a.SMT(), b.SMT())
}

func BVNeg(a *Term) *Term {
	if a.Const {
		return BVConst(a.Sort.Bits, -a.U)
	}
	return sym(a.Sort, "(bvneg %s)", a.S)
}

func BVNot(a *Term) *Term {
	if a.Const {
		return BVConst(a.Sort.Bits, ^a.U)
	}
	return sym(a.Sort, "(bvnot %s)", a.S)
}

// BVResize converts between integer widths.
func BVResize(a *Term, to int, srcSigned bool) *Term {
	from := a.Sort.Bits
	if from == to {
		return a
	}
	if a.Const {
		if to < from {
			return BVConst(to, a.U)
		}
		if srcSigned {
			return BVConst(to, uint64(a.Signed()))
		}
		return BVConst(to, a.U)
	}
	if to < from {
		return sym(BV(to), "((_ extract %d 0) %s)", to-1, a.S)
	}
	if srcSigned {
		return sym(BV(to), "((_ sign_extend %d) %s)", to-from, a.S)
	}
	return sym(BV(to), "((_ zero_extend %d) %s)", to-from, a.S)
}
