package engine

import (
	"bufio"
	"fmt"
	"io"
	"os/exec"
	"strings"
	"time"
)

// Solver is one live SMT solver process spoken to over stdin/stdout.
type Solver struct {
	Name    string
	cmd     *exec.Cmd
	in      io.WriteCloser
	out     *bufio.Reader
	Queries int
	Sat     int
	Unsat   int
	Unknown int
	Errors  int
	Time    time.Duration
	LastErr string
	Log     io.Writer // optional transcript
	depth   int
}

// SolverCmd selects the back end: "z3", "z3-new" or "cvc5".
func NewSolver(kind string, timeoutMs int) (*Solver, error) {
	var cmd *exec.Cmd
	switch kind {
	case "z3", "":
		kind = "z3"
		cmd = exec.Command("z3", "-in", fmt.Sprintf("-t:%d", timeoutMs))
	case "z3-new":
		cmd = exec.Command("z3-new", "-in", fmt.Sprintf("-t:%d", timeoutMs))
	case "cvc5":
		cmd = exec.Command("cvc5", "--incremental", "--lang=smt2", fmt.Sprintf("--tlimit-per=%d", timeoutMs), "--produce-models")
	default:
		return nil, fmt.Errorf("unknown solver %q", kind)
	}
	in, err := cmd.StdinPipe()
	if err != nil {
		return nil, err
	}
	outp, err := cmd.StdoutPipe()
	if err != nil {
		return nil, err
	}
	cmd.Stderr = cmd.Stdout
	if err := cmd.Start(); err != nil {
		return nil, err
	}
	s := &Solver{Name: kind, cmd: cmd, in: in, out: bufio.NewReaderSize(outp, 1<<16)}
	if kind == "cvc5" {
		s.Send("(set-logic ALL)")
	}
	s.Send("(set-option :produce-models true)")
	return s, nil
}

func (s *Solver) Close() {
	if s == nil || s.cmd == nil {
		return
	}
	s.in.Close()
	s.cmd.Process.Kill()
	s.cmd.Wait()
	s.cmd = nil
}

func (s *Solver) Send(line string) {
	if s.Log != nil {
		fmt.Fprintln(s.Log, line)
	}
	io.WriteString(s.in, line)
	io.WriteString(s.in, "\n")
}

func (s *Solver) Push() { s.Send("(push 1)"); s.depth++ }
func (s *Solver) Pop()  { s.Send("(pop 1)"); s.depth-- }

// PopTo pops scopes until the depth is d.
func (s *Solver) PopTo(d int) {
	for s.depth > d {
		s.Pop()
	}
}
func (s *Solver) Depth() int { return s.depth }

func (s *Solver) Assert(t *Term) {
	s.Send("(assert " + t.SMT() + ")")
}

type SatResult int

const (
	ResSat SatResult = iota
	ResUnsat
	ResUnknown
)

func (r SatResult) String() string {
	return [...]string{"sat", "unsat", "unknown"}[r]
}

// Check runs (check-sat). Any (error line seen since the last check makes the answer unknown.
func (s *Solver) Check() SatResult {
	t0 := time.Now()
	s.Send("(check-sat)")
	sawErr := false
	res := ResUnknown
	for {
		line, err := s.out.ReadString('\n')
		if err != nil {
			s.LastErr = "solver died: " + err.Error()
			sawErr = true
			break
		}
		line = strings.TrimSpace(line)
		if line == "" {
			continue
		}
		if s.Log != nil {
			fmt.Fprintln(s.Log, "; -> "+line)
		}
		if line == "sat" {
			res = ResSat
			break
		}
		if line == "unsat" {
			res = ResUnsat
			break
		}
		if line == "unknown" || line == "timeout" {
			res = ResUnknown
			break
		}
		if strings.HasPrefix(line, "(error") {
			sawErr = true
			s.LastErr = line
			continue
		}
		// other chatter (e.g. warnings) is ignored
	}
	s.Queries++
	s.Time += time.Since(t0)
	if sawErr {
		s.Errors++
		res = ResUnknown
	}
	switch res {
	case ResSat:
		s.Sat++
	case ResUnsat:
		s.Unsat++
	default:
		s.Unknown++
	}
	return res
}

// CheckAssuming checks pc ∧ t in a nested scope.
func (s *Solver) CheckWith(t *Term) SatResult {
	s.Push()
	s.Assert(t)
	r := s.Check()
	s.Pop()
	return r
}

// GetValues returns the model values of the named constants (after a sat answer,
// in the same scope). Values are returned as raw SMT strings.
func (s *Solver) GetValues(names []string) (map[string]string, error) {
	res := map[string]string{}
	if len(names) == 0 {
		return res, nil
	}
	// one by one keeps the parser trivial
	for _, n := range names {
		s.Send("(get-value (" + n + "))")
		txt, err := s.readSexp()
		if err != nil {
			return nil, err
		}
		// ((name value))
		txt = strings.TrimSpace(txt)
		if strings.HasPrefix(txt, "(error") {
			return nil, fmt.Errorf("get-value %s: %s", n, txt)
		}
		inner := strings.TrimSpace(txt[1 : len(txt)-1]) // (name value)
		inner = strings.TrimSpace(inner[1 : len(inner)-1])
		idx := strings.IndexAny(inner, " \n\t")
		if idx < 0 {
			return nil, fmt.Errorf("get-value parse: %s", txt)
		}
		res[n] = strings.TrimSpace(inner[idx:])
	}
	return res, nil
}

func (s *Solver) readSexp() (string, error) {
	var sb strings.Builder
	depth := 0
	started := false
	for {
		b, err := s.out.ReadByte()
		if err != nil {
			return "", err
		}
		if !started {
			if b == ' ' || b == '\n' || b == '\t' || b == '\r' {
				continue
			}
			started = true
		}
		sb.WriteByte(b)
		if b == '(' {
			depth++
		} else if b == ')' {
			depth--
			if depth == 0 {
				return sb.String(), nil
			}
		} else if depth == 0 && (b == '\n') {
			return sb.String(), nil
		}
	}
}

// ParseBVValue parses #x.. / #b.. / (_ bvN w) / true / false / (fp ...) model values into bits.
func ParseModelValue(v string) (uint64, bool) {
	v = strings.TrimSpace(v)
	switch {
	case v == "true":
		return 1, true
	case v == "false":
		return 0, true
	case strings.HasPrefix(v, "#x"):
		var u uint64
		_, err := fmt.Sscanf(v[2:], "%x", &u)
		return u, err == nil
	case strings.HasPrefix(v, "#b"):
		var u uint64
		for _, c := range v[2:] {
			u = u<<1 | uint64(c-'0')
		}
		return u, true
	case strings.HasPrefix(v, "(_ bv"):
		var u uint64
		var w int
		_, err := fmt.Sscanf(v, "(_ bv%d %d)", &u, &w)
		return u, err == nil
	case strings.HasPrefix(v, "(fp "):
		// (fp #b0 #b10000000000 #x0000000000000)
		parts := strings.Fields(strings.Trim(v, "()"))
		if len(parts) != 4 {
			return 0, false
		}
		var bitsStr string
		for _, p := range parts[1:] {
			if strings.HasPrefix(p, "#b") {
				bitsStr += p[2:]
			} else if strings.HasPrefix(p, "#x") {
				for _, c := range p[2:] {
					var d uint64
					fmt.Sscanf(string(c), "%x", &d)
					bitsStr += fmt.Sprintf("%04b", d)
				}
			}
		}
		var u uint64
		for _, c := range bitsStr {
			u = u<<1 | uint64(c-'0')
		}
		return u, true
	case strings.HasPrefix(v, "(_ +zero"):
		return 0, true
	case strings.HasPrefix(v, "(_ -zero"):
		if strings.Contains(v, " 8 24") {
			return 1 << 31, true
		}
		return 1 << 63, true
	case strings.HasPrefix(v, "(_ NaN"):
		if strings.Contains(v, " 8 24") {
			return 0x7fc00000, true
		}
		return 0x7ff8000000000000, true
	case strings.HasPrefix(v, "(_ +oo"):
		if strings.Contains(v, " 8 24") {
			return 0x7f800000, true
		}
		return 0x7ff0000000000000, true
	case strings.HasPrefix(v, "(_ -oo"):
		if strings.Contains(v, " 8 24") {
			return 0xff800000, true
		}
		return 0xfff0000000000000, true
	}
	return 0, false
}
