package layera

import (
	"go/constant"
	"go/token"
	"go/types"
	"math"
	"os"
	"reflect"
	"strings"

	"verif/engine"
)

// NativeTable: go/types, go/token, go/constant are executed natively (real library code on real
// objects); the code under test sees their documented behaviour exactly.
func NativeTable() *engine.NativeTable {
	f := func(v interface{}) reflect.Value { return reflect.ValueOf(v) }
	nt := nativeTable(f)
	for name, fn := range generatedNativeFuncs {
		if _, ok := nt.Funcs[name]; !ok {
			nt.Funcs[name] = fn
		}
	}
	return nt
}

func nativeTable(f func(v interface{}) reflect.Value) *engine.NativeTable {
	return &engine.NativeTable{
		Pkgs: map[string]bool{"go/types": true, "go/token": true, "go/constant": true, "regexp": true},
		Funcs: map[string]reflect.Value{
			"go/types.Identical":        f(types.Identical),
			"go/types.AssignableTo":     f(types.AssignableTo),
			"go/types.ConvertibleTo":    f(types.ConvertibleTo),
			"go/types.Implements":       f(types.Implements),
			"go/types.Unalias":          f(types.Unalias),
			"go/types.NewPointer":       f(types.NewPointer),
			"go/types.NewSlice":         f(types.NewSlice),
			"go/types.NewArray":         f(types.NewArray),
			"go/types.NewMap":           f(types.NewMap),
			"go/types.NewChan":          f(types.NewChan),
			"go/types.NewStruct":        f(types.NewStruct),
			"go/types.NewTuple":         f(types.NewTuple),
			"go/types.NewVar":           f(types.NewVar),
			"go/types.NewParam":         f(types.NewParam),
			"go/types.NewField":         f(types.NewField),
			"go/types.NewFunc":          f(types.NewFunc),
			"go/types.NewConst":         f(types.NewConst),
			"go/types.NewTypeName":      f(types.NewTypeName),
			"go/types.NewNamed":         f(types.NewNamed),
			"go/types.NewPackage":       f(types.NewPackage),
			"go/types.NewSignatureType": f(types.NewSignatureType),
			"go/types.NewInterfaceType": f(types.NewInterfaceType),
			"go/types.NewTypeParam":     f(types.NewTypeParam),
			"go/types.NewScope":         f(types.NewScope),
			"go/types.TypeString":       f(types.TypeString),
			"go/types.IsInterface":      f(types.IsInterface),
			"go/constant.MakeInt64":     f(constant.MakeInt64),
			"go/constant.MakeString":    f(constant.MakeString),
			"go/constant.MakeFloat64":   f(constant.MakeFloat64),
			"go/constant.MakeBool":      f(constant.MakeBool),
			"go/constant.Val":           f(constant.Val),
			"go/constant.Compare":       f(constant.Compare),
			"go/token.NewFileSet":       f(token.NewFileSet),
			"math.Max":                  f(math.Max),
			"math.Min":                  f(math.Min),
			"strings.Title":             f(strings.Title),
		},
		Globals: map[string]interface{}{
			"go/types.Typ":      types.Typ,
			"go/types.Universe": types.Universe,
			"os.Stderr":         os.Stderr,
			"os.Stdout":         os.Stdout,
		},
	}
}
