package layera

import (
	"fmt"
	"go/token"
	"go/types"
	"os"
	"path/filepath"
	"regexp"
	"strings"

	"golang.org/x/tools/go/ssa"

	"verif/engine"
)

type stubEnv struct {
	s   *Session
	pkg *ssa.Package
	res *KernelResult
}

var errDynType = types.NewNamed(types.NewTypeName(0, nil, "verifError", nil), types.Typ[types.Int], nil)

func newError(r *engine.Run, kind string, items ...engine.Value) engine.Iface {
	o := r.NewOpaque(kind)
	o.Items = items
	return engine.Iface{T: errDynType, V: o}
}

func concStr(v engine.Value) (string, bool) {
	s, ok := v.(engine.Str)
	if !ok {
		return "", false
	}
	return s.Concrete()
}

func (e *stubEnv) stat(id string) *AssertStat {
	st := e.res.Asserts[id]
	if st == nil {
		st = &AssertStat{ID: id}
		e.res.Asserts[id] = st
	}
	return st
}

func (e *stubEnv) counterexample(r *engine.Run, ps *pathState, id, kind, note string, model map[string]uint64) *Counterexample {
	ce := &Counterexample{Kernel: e.res.Kernel.Name, Harness: e.res.Kernel.Harness, Pkg: e.res.Kernel.Pkg, Assert: id, Kind: kind, Note: note, Model: model}
	val := func(t *engine.Term) uint64 {
		if t.Const {
			return t.U
		}
		return model[t.S]
	}
	for _, n := range ps.Nondets {
		rv := ReplayVal{Tag: n.Tag, Kind: n.Kind}
		switch n.Kind {
		case "string":
			rv.Bytes = make([]byte, len(n.Bytes))
			for i, b := range n.Bytes {
				rv.Bytes[i] = byte(val(b))
			}
		case "atom":
			id := val(n.Term)
			if lit, ok := r.Ex.AtomLiteral(id); ok {
				rv.Bytes = []byte(lit)
			} else {
				rv.Bytes = []byte(fmt.Sprintf("atom%d", id))
			}
		case "choice":
			rv.Int = n.Int
		default:
			u := val(n.Term)
			if n.Term.Sort.Kind == engine.SBV && n.Term.Sort.Bits == 64 {
				rv.Int = int64(u)
			} else {
				rv.Int = int64(u)
			}
		}
		ce.Vals = append(ce.Vals, rv)
	}
	for _, o := range ps.Obs {
		ce.Obs = append(ce.Obs, o.Tag+"="+engine.FormatValue(o.Val))
	}
	return ce
}

func (e *stubEnv) intrinsic(r *engine.Run, fn *ssa.Function, args []engine.Value, site ssa.Instruction) (engine.Value, bool) {
	name := fn.Name()
	if !strings.HasPrefix(name, "nondet") && !strings.HasPrefix(name, "verif") {
		return nil, false
	}
	ps := r.User.(*pathState)
	tag := ""
	if len(args) > 0 {
		if s, ok := concStr(args[0]); ok {
			tag = s
		}
	}
	switch name {
	case "nondetBool":
		t := r.Fresh(engine.BoolSort, tag)
		ps.Nondets = append(ps.Nondets, NondetRec{Tag: tag, Kind: "bool", Term: t})
		return t, true
	case "nondetInt":
		lo, hi := args[1].(*engine.Term), args[2].(*engine.Term)
		if lo.Const && hi.Const && hi.Signed()-lo.Signed() < 0 {
			panic(&engine.Abort{Kind: "infeasible", Reason: "empty nondetInt range"})
		}
		t := r.Fresh(engine.BV(64), tag)
		r.Assume(engine.And(engine.BVCmp("<=", lo, t, true), engine.BVCmp("<=", t, hi, true)))
		ps.Nondets = append(ps.Nondets, NondetRec{Tag: tag, Kind: "int", Term: t})
		return t, true
	case "nondetByte":
		t := r.Fresh(engine.BV(8), tag)
		r.Assume(engine.BVCmp("<", t, engine.BVConst(8, 0x80), false))
		ps.Nondets = append(ps.Nondets, NondetRec{Tag: tag, Kind: "byte", Term: t})
		return t, true
	case "nondetString":
		max := int(args[1].(*engine.Term).Signed())
		n := r.Choice(max + 1)
		bs := make([]*engine.Term, n)
		for i := range bs {
			bs[i] = r.Fresh(engine.BV(8), fmt.Sprintf("%s_%d", tag, i))
			r.Assume(engine.BVCmp("<", bs[i], engine.BVConst(8, 0x80), false))
		}
		ps.Nondets = append(ps.Nondets, NondetRec{Tag: tag, Kind: "string", Bytes: bs})
		return engine.Str{B: bs}, true
	case "nondetAtom":
		t := r.Fresh(engine.AtomSort, tag)
		ps.Nondets = append(ps.Nondets, NondetRec{Tag: tag, Kind: "atom", Term: t})
		return engine.Str{Atom: t}, true
	case "nondetChoice":
		n := int(args[1].(*engine.Term).Signed())
		c := r.Choice(n)
		ps.Nondets = append(ps.Nondets, NondetRec{Tag: tag, Kind: "choice", Int: int64(c)})
		return engine.BVConst(64, uint64(c)), true
	case "verifAssume":
		r.Assume(args[0].(*engine.Term))
		return nil, true
	case "verifAssert":
		cond := args[1].(*engine.Term)
		qr := r.Prove(cond)
		e.res.mu.Lock()
		st := e.stat(tag)
		st.Reached++
		switch {
		case qr.Holds:
			st.Proved++
		case qr.Inconclusive:
			st.Inconclusive++
		default:
			st.Failed++
			if len(st.Examples) < 6 {
				ce := e.counterexample(r, ps, tag, "assert", "", qr.Model)
				st.Examples = append(st.Examples, ce)
				if st.First == nil {
					st.First = ce
				}
			}
		}
		e.res.mu.Unlock()
		if !qr.Holds && !qr.Inconclusive {
			// continue on the side where the assertion holds (if any) so later assertions are still meaningful
			r.Assume(cond)
		}
		return nil, true
	case "verifReach":
		e.res.mu.Lock()
		e.res.Reach[tag]++
		e.res.mu.Unlock()
		return nil, true
	case "verifAnd":
		return engine.And(args[0].(*engine.Term), args[1].(*engine.Term)), true
	case "verifOr":
		return engine.Or(args[0].(*engine.Term), args[1].(*engine.Term)), true
	case "verifNot":
		return engine.Not(args[0].(*engine.Term)), true
	case "verifImplies":
		return engine.Implies(args[0].(*engine.Term), args[1].(*engine.Term)), true
	case "verifStrEq":
		return r.StrEq(args[0].(engine.Str), args[1].(engine.Str)), true
	case "verifObserve":
		ps.Obs = append(ps.Obs, engine.Obs{Tag: tag, Val: args[1]})
		return nil, true
	case "VerifLoadReplay":
		return engine.Str{}, true
	case "verifStubReturn":
		var vals []engine.Value
		if sl, ok := args[1].(engine.Slice); ok {
			for i := 0; i < sl.Len; i++ {
				vals = append(vals, sl.Elems[i])
			}
		}
		if ps.Queue == nil {
			ps.Queue = map[string][][]engine.Value{}
		}
		ps.Queue[tag] = append(ps.Queue[tag], vals)
		return nil, true
	case "verifEffectCount":
		n := 0
		for _, ef := range ps.Effects {
			if ef.Name == tag {
				n++
			}
		}
		return engine.BVConst(64, uint64(n)), true
	case "verifEffectArg":
		k := int(args[1].(*engine.Term).Signed())
		i := int(args[2].(*engine.Term).Signed())
		n := 0
		for _, ef := range ps.Effects {
			if ef.Name != tag {
				continue
			}
			if n == k {
				if i >= len(ef.Args) {
					return engine.Iface{}, true
				}
				v := ef.Args[i]
				if ifc, ok := v.(engine.Iface); ok {
					return ifc, true
				}
				var t types.Type = types.Typ[types.Int]
				if i < len(ef.Types) && ef.Types[i] != nil {
					t = ef.Types[i]
				}
				return engine.Iface{T: t, V: v}, true
			}
			n++
		}
		return engine.Iface{}, true
	case "verifEffectIndex":
		// position of the k-th effect named tag in the global effect order (-1 if absent)
		k := int(args[1].(*engine.Term).Signed())
		n := 0
		for idx, ef := range ps.Effects {
			if ef.Name == tag {
				if n == k {
					return engine.BVConst(64, uint64(idx)), true
				}
				n++
			}
		}
		return engine.BVConst(64, ^uint64(0)), true
	case "verifCatchExit":
		code := -1
		func() {
			defer func() {
				if rec := recover(); rec != nil {
					if ab, ok := rec.(*engine.Abort); ok && ab.Kind == "exit" {
						code = ab.Code
						return
					}
					panic(rec)
				}
			}()
			r.CallValue(args[0], nil, site)
		}()
		return engine.BVConst(64, uint64(int64(code))), true
	}
	if strings.HasPrefix(name, "VerifModel") || strings.HasPrefix(name, "verifIs") || strings.HasPrefix(name, "verifLower") || strings.HasPrefix(name, "verifNext") {
		return nil, false // executed as ordinary code
	}
	return nil, false
}

// model redirects a stdlib call to the Go-coded model in the harness package.
func (e *stubEnv) model(r *engine.Run, name string, args []engine.Value, site ssa.Instruction) (engine.Value, bool) {
	f := e.pkg.Func(name)
	if f == nil {
		return nil, false
	}
	return r.CallFunction(f, args, site), true
}

var stringsModels = map[string]string{
	"strings.Fields":       "VerifModelFields",
	"strings.Index":        "VerifModelIndex",
	"strings.Contains":     "VerifModelContains",
	"strings.ContainsRune": "VerifModelContainsRune",
	"strings.HasPrefix":    "VerifModelHasPrefix",
	"strings.HasSuffix":    "VerifModelHasSuffix",
	"strings.TrimPrefix":   "VerifModelTrimPrefix",
	"strings.TrimSuffix":   "VerifModelTrimSuffix",
	"strings.TrimSpace":    "VerifModelTrimSpace",
	"strings.SplitN":       "VerifModelSplitN",
	"strings.Split":        "VerifModelSplit",
	"strings.Join":         "VerifModelJoin",
	"strings.Repeat":       "VerifModelRepeat",
	"strings.EqualFold":    "VerifModelEqualFold",
	"strings.Cut":          "VerifModelCut",
	"strings.CutPrefix":    "VerifModelCutPrefix",
	"strings.CutSuffix":    "VerifModelCutSuffix",
	"strings.LastIndex":    "VerifModelLastIndex",
	"strings.IndexByte":    "VerifModelIndexByte",
	"strings.Count":        "VerifModelCount",
	"strings.ReplaceAll":   "VerifModelReplaceAll",
	"strings.Replace":      "VerifModelReplace",
	"strings.TrimLeft":     "VerifModelTrimLeft",
	"strings.TrimRight":    "VerifModelTrimRight",
	"strings.Trim":         "VerifModelTrim",
	"strings.ToLower":      "VerifModelToLower",
	"strings.ToUpper":      "VerifModelToUpper",
}

func (e *stubEnv) external(r *engine.Run, fn *ssa.Function, args []engine.Value, site ssa.Instruction) (engine.Value, bool) {
	name := fn.String()
	if o := fn.Origin(); o != nil {
		name = o.String()
	}
	if fn.Name() == "init" && fn.Signature.Recv() == nil {
		return nil, true
	}
	ps := r.User.(*pathState)
	if q := ps.Queue[name]; len(q) > 0 {
		vals := q[0]
		ps.Queue[name] = q[1:]
		ps.Effects = append(ps.Effects, effectOf("call:"+name, fn, args))
		return stubResult(fn, vals), true
	}
	for _, st := range e.res.Kernel.Stub {
		if st == name {
			return zeroResults(fn), true
		}
	}
	if fn.Pkg != nil && fn.Pkg.Pkg.Path() == "github.com/dave/jennifer/jen" {
		if e.res.Kernel.RecordJen {
			ps.Effects = append(ps.Effects, effectOf("jen."+fn.Name(), fn, args))
		}
		return jenStub(r, ps, fn, args), true
	}
	if m, ok := stringsModels[name]; ok {
		// atom arguments: predicates become unconstrained booleans (over-approximation); others are unsupported
		hasAtom := false
		for _, a := range args {
			if s, ok := a.(engine.Str); ok && s.Atom != nil {
				hasAtom = true
			}
		}
		if hasAtom {
			switch name {
			case "strings.Contains", "strings.HasPrefix", "strings.HasSuffix", "strings.EqualFold", "strings.ContainsRune":
				return r.Fresh(engine.BoolSort, "atompred"), true
			}
		}
		return e.model(r, m, args, site)
	}
	switch name {
	case "fmt.Errorf":
		items := []engine.Value{args[0]}
		if s, ok := args[1].(engine.Slice); ok {
			for i := 0; i < s.Len; i++ {
				items = append(items, s.Elems[i])
			}
		}
		er := newError(r, "errorf", items...)
		if v, ok := nativeSprint("fmt.Sprintf", stringifyArgs(r, args, site)); ok {
			er.V.(*engine.Opaque).Attrs = map[string]engine.Value{"msg": v}
		}
		return er, true
	case "errors.New":
		return newError(r, "errors.New", args[0]), true
	case "fmt.Sprintf", "fmt.Sprint", "fmt.Sprintln":
		if v, ok := nativeSprint(name, args); ok {
			return v, true
		}
		a := r.Fresh(engine.AtomSort, "sprintf")
		rec := sprintfRec{Atom: a}
		if f, ok := concStr(args[0]); ok && name == "fmt.Sprintf" {
			rec.Format = f
		}
		ps.Sprintf = append(ps.Sprintf, rec)
		return engine.Str{Atom: a}, true
	case "fmt.Println", "fmt.Fprintln", "fmt.Fprint", "fmt.Printf", "fmt.Fprintf":
		ps.FS = append(ps.FS, name)
		ps.Effects = append(ps.Effects, effectOf(name, fn, args))
		return engine.Tuple{engine.BVConst(64, 0), engine.Iface{}}, true
	case "os.MkdirAll", "os.WriteFile", "os.Remove", "os.RemoveAll", "os.Rename", "os.Create", "os.OpenFile", "os.Mkdir", "os.Chmod":
		ps.Effects = append(ps.Effects, effectOf(name, fn, args))
		return zeroResults(fn), true
	case "os.ReadFile":
		// previous content of a file: absent, empty, the payload the harnesses use, or that payload followed by more
		ps.Effects = append(ps.Effects, effectOf(name, fn, args))
		mkBytes := func(b string) engine.Value {
			elems := make([]engine.Value, len(b))
			for i := range b {
				elems[i] = engine.BVConst(8, uint64(b[i]))
			}
			return engine.Slice{Elems: elems, Len: len(b)}
		}
		switch r.Choice(4) {
		case 0:
			return engine.Tuple{engine.Zero(fn.Signature.Results().At(0).Type()), newError(r, "os.ReadFile", args[0])}, true
		case 1:
			return engine.Tuple{mkBytes(""), engine.Iface{}}, true
		case 2:
			return engine.Tuple{mkBytes("content"), engine.Iface{}}, true
		}
		return engine.Tuple{mkBytes("content and stale rest"), engine.Iface{}}, true
	case "golang.org/x/tools/go/packages.Load":
		ps.Effects = append(ps.Effects, effectOf(name, fn, args))
		return zeroResults(fn), true
	case "runtime/debug.ReadBuildInfo":
		return zeroResults(fn), true
	case "regexp.Compile":
		if p, ok := concStr(args[0]); ok {
			re, err := regexp.Compile(p)
			if err != nil {
				return engine.Tuple{engine.Pointer{}, newError(r, "regexp", args[0])}, true
			}
			return engine.Tuple{engine.Host{V: re}, engine.Iface{}}, true
		}
		if r.Choice(2) == 0 {
			return engine.Tuple{engine.Host{V: r.NewOpaque("regexp")}, engine.Iface{}}, true
		}
		return engine.Tuple{engine.Pointer{}, newError(r, "regexp", args[0])}, true
	case "regexp.MustCompile":
		if p, ok := concStr(args[0]); ok {
			re, err := regexp.Compile(p)
			if err != nil {
				// the program panics here
				panic(&engine.TargetPanic{Kind: "explicit", Msg: "regexp: Compile(" + p + "): " + err.Error(), Pos: r.Pos(site.Pos())})
			}
			return engine.Host{V: re}, true
		}
		return engine.Host{V: r.NewOpaque("regexp")}, true
	case "(*regexp.Regexp).MatchString":
		if h, ok := args[0].(engine.Host); ok {
			if re, ok := h.V.(*regexp.Regexp); ok {
				if s, ok := concStr(args[1]); ok {
					return engine.BoolT(re.MatchString(s)), true
				}
			}
		}
		return r.Fresh(engine.BoolSort, "regexmatch"), true
	case "(*regexp.Regexp).String":
		if h, ok := args[0].(engine.Host); ok {
			if re, ok := h.V.(*regexp.Regexp); ok {
				return engine.ConcStr(re.String()), true
			}
		}
		return engine.Str{Atom: r.Fresh(engine.AtomSort, "regexstr")}, true
	case "sort.Strings":
		sortSlice(r, args[0].(engine.Slice), func(a, b engine.Value) *engine.Term {
			return r.StrLess(a.(engine.Str), b.(engine.Str))
		})
		return nil, true
	case "sort.Slice", "sort.SliceStable":
		return nil, sortByLess(r, args[0], args[1], site)
	case "path/filepath.Join", "path/filepath.Dir", "path/filepath.Base", "path/filepath.Ext", "path/filepath.IsAbs", "path/filepath.Abs", "path/filepath.Rel", "path/filepath.Clean",
		"path.Join", "path.Dir", "path.Base":
		// byte-symbolic argument of Base / Ext: the Go-coded model (validated against the library) is executed
		if name == "path/filepath.Base" || name == "path/filepath.Ext" || name == "path.Base" {
			if st, ok := args[0].(engine.Str); ok && st.Atom == nil {
				if _, conc := st.Concrete(); !conc {
					m := "VerifModelPathBase"
					if name == "path/filepath.Ext" {
						m = "VerifModelPathExt"
					}
					return e.model(r, m, args, site)
				}
			}
		}
		return filepathStub(r, name, args)
	case "(*bytes.Buffer).Bytes":
		return engine.Slice{Elems: []engine.Value{}, Len: 0}, true
	case "(*bytes.Buffer).String":
		return engine.Str{Atom: r.Fresh(engine.AtomSort, "bufstring")}, true
	case "(*bytes.Buffer).WriteString", "(*bytes.Buffer).Write":
		return engine.Tuple{engine.BVConst(64, 0), engine.Iface{}}, true
	case "strings.NewReader":
		o := r.NewOpaque("strings.Reader")
		o.Items = []engine.Value{args[0]}
		return o, true
	case "bufio.NewScanner":
		var src engine.Value
		if ifc, ok := args[0].(engine.Iface); ok {
			if ro, ok := ifc.V.(*engine.Opaque); ok && ro.Kind == "strings.Reader" {
				src = ro.Items[0]
			}
		}
		if src == nil {
			return nil, false
		}
		lines, ok := e.model(r, "VerifModelLines", []engine.Value{src}, site)
		if !ok {
			return nil, false
		}
		o := r.NewOpaque("bufio.Scanner")
		o.Items = []engine.Value{lines}
		o.Attrs = map[string]engine.Value{"pos": engine.BVConst(64, 0)}
		return o, true
	case "(*bufio.Scanner).Scan":
		o := args[0].(*engine.Opaque)
		lines := o.Items[0].(engine.Slice)
		pos := int(o.Attrs["pos"].(*engine.Term).U)
		o.Attrs["pos"] = engine.BVConst(64, uint64(pos+1))
		return engine.BoolT(pos < lines.Len), true
	case "(*bufio.Scanner).Text":
		o := args[0].(*engine.Opaque)
		lines := o.Items[0].(engine.Slice)
		pos := int(o.Attrs["pos"].(*engine.Term).U) - 1
		if pos < 0 || pos >= lines.Len {
			return engine.Str{}, true
		}
		return lines.Elems[pos], true
	case "(*bufio.Scanner).Err":
		return engine.Iface{}, true
	case "(*sync.Map).Load", "(*sync.Map).Store", "(*sync.Map).LoadOrStore", "(*sync.Map).Delete", "(*sync.Map).LoadAndDelete", "(*sync.Map).Range", "(*sync.Map).Swap":
		// sync.Map as a process-wide cache: modelled as an ordinary map per sync.Map address (single-threaded run)
		ptr, ok := args[0].(engine.Pointer)
		if !ok || ptr.Slot == nil {
			return nil, false
		}
		if ps.SyncMaps == nil {
			ps.SyncMaps = map[*engine.Value]*engine.MapObj{}
		}
		m := ps.SyncMaps[ptr.Slot]
		if m == nil {
			m = &engine.MapObj{}
			ps.SyncMaps[ptr.Slot] = m
		}
		switch fn.Name() {
		case "Load":
			if en := r.MapFind(m, args[1]); en != nil {
				return engine.Tuple{en.V, engine.True}, true
			}
			return engine.Tuple{engine.Iface{}, engine.False}, true
		case "Store":
			r.MapStore(m, args[1], args[2])
			return nil, true
		case "Swap":
			if en := r.MapFind(m, args[1]); en != nil {
				old := en.V
				en.V = args[2]
				return engine.Tuple{old, engine.True}, true
			}
			r.MapStore(m, args[1], args[2])
			return engine.Tuple{engine.Iface{}, engine.False}, true
		case "LoadOrStore":
			if en := r.MapFind(m, args[1]); en != nil {
				return engine.Tuple{en.V, engine.True}, true
			}
			r.MapStore(m, args[1], args[2])
			return engine.Tuple{args[2], engine.False}, true
		case "Delete":
			r.MapDelete(m, args[1])
			return nil, true
		case "LoadAndDelete":
			if en := r.MapFind(m, args[1]); en != nil {
				v := en.V
				r.MapDelete(m, args[1])
				return engine.Tuple{v, engine.True}, true
			}
			return engine.Tuple{engine.Iface{}, engine.False}, true
		default: // Range
			for _, en := range append([]*engine.MapEntry{}, m.Entries...) {
				cont := r.CallValue(args[1], []engine.Value{en.K, en.V}, site)
				if t, ok := cont.(*engine.Term); ok && !r.Decide(t) {
					break
				}
			}
			return nil, true
		}
	case "(*sync.Mutex).Lock", "(*sync.Mutex).Unlock", "(*sync.RWMutex).Lock", "(*sync.RWMutex).Unlock", "(*sync.RWMutex).RLock", "(*sync.RWMutex).RUnlock":
		// single-threaded run: locks are no-ops
		return nil, true
	case "(*sync.Mutex).TryLock", "(*sync.RWMutex).TryLock":
		return engine.True, true
	case "(*bufio.Scanner).Buffer":
		// the model has no token limit (strings in the bounds are far below bufio.MaxScanTokenSize)
		return nil, true
	case "os.Exit":
		code := 0
		if t, ok := args[0].(*engine.Term); ok && t.Const {
			code = int(t.Signed())
		}
		ps.FS = append(ps.FS, fmt.Sprintf("os.Exit(%d)", code))
		ps.Effects = append(ps.Effects, effectOf(name, fn, args))
		panic(&engine.Abort{Kind: "exit", Reason: fmt.Sprintf("os.Exit(%d)", code), Code: code})
	}
	// any other function or method of package os: a recorded effect with success results
	if fn.Pkg != nil && fn.Pkg.Pkg.Path() == "os" {
		ps.Effects = append(ps.Effects, effectOf(name, fn, args))
		res := fn.Signature.Results()
		mk := func(t types.Type) engine.Value {
			if _, ok := t.Underlying().(*types.Pointer); ok {
				o := r.NewOpaque("os." + fn.Name())
				return o
			}
			return engine.Zero(t)
		}
		switch res.Len() {
		case 0:
			return nil, true
		case 1:
			return mk(res.At(0).Type()), true
		}
		tu := make(engine.Tuple, res.Len())
		for i := range tu {
			tu[i] = mk(res.At(i).Type())
		}
		return tu, true
	}
	return nil, false
}

func (e *stubEnv) invoke(r *engine.Run, recv engine.Iface, method *types.Func, args []engine.Value) (engine.Value, bool) {
	if recv.T == errDynType && method.Name() == "Error" {
		if o, ok := recv.V.(*engine.Opaque); ok && o.Attrs != nil {
			if m, ok := o.Attrs["msg"]; ok {
				return m, true
			}
		}
		if o, ok := recv.V.(*engine.Opaque); ok && o.Kind == "errors.New" && len(o.Items) == 1 {
			return o.Items[0], true
		}
		return engine.Str{Atom: r.Fresh(engine.AtomSort, "errmsg")}, true
	}
	return nil, false
}

// stringifyArgs: operands of a formatting call that are values of the program (not constants, strings or native
// objects) and have an Error or String method are replaced by the result of that method, as fmt does.
func stringifyArgs(r *engine.Run, args []engine.Value, site ssa.Instruction) []engine.Value {
	if len(args) == 0 {
		return args
	}
	s, ok := args[len(args)-1].(engine.Slice)
	if !ok {
		return args
	}
	var elems []engine.Value
	for i := 0; i < s.Len; i++ {
		el := s.Elems[i]
		ifc, isIface := el.(engine.Iface)
		if isIface && ifc.T != nil {
			switch ifc.V.(type) {
			case *engine.Term, engine.Str, engine.Host:
			default:
				if o, isErr := ifc.V.(*engine.Opaque); isErr && ifc.T == errDynType {
					if m, ok := o.Attrs["msg"].(engine.Str); ok {
						el = engine.Iface{T: types.Typ[types.String], V: m}
					} else if o.Kind == "errors.New" && len(o.Items) == 1 {
						if m, ok := o.Items[0].(engine.Str); ok {
							el = engine.Iface{T: types.Typ[types.String], V: m}
						}
					}
				} else if st, isStruct := ifc.V.(engine.Struct); isStruct && ifc.T.String() == "golang.org/x/tools/go/packages.Error" && len(st) >= 2 {
					// (packages.Error).Error: Pos + ": " + Msg, with "-" for an empty Pos (its body is not loaded)
					pos, okP := concStr(st[0])
					msg, okM := concStr(st[1])
					if okP && okM {
						if pos == "" {
							pos = "-"
						}
						el = engine.Iface{T: types.Typ[types.String], V: engine.ConcStr(pos + ": " + msg)}
					}
				} else if str, ok := callStringer(r, ifc, site); ok {
					el = engine.Iface{T: types.Typ[types.String], V: str}
				}
			}
		}
		elems = append(elems, el)
	}
	out := append([]engine.Value{}, args...)
	ns := s
	ns.Elems = elems
	out[len(out)-1] = ns
	return out
}

func callStringer(r *engine.Run, ifc engine.Iface, site ssa.Instruction) (res engine.Str, ok bool) {
	defer func() {
		if rec := recover(); rec != nil {
			if os.Getenv("VERIF_DEBUG_STRINGER") != "" {
				fmt.Fprintf(os.Stderr, "stringer %s: %v\n", ifc.T, rec)
			}
			ok = false
		}
	}()
	for _, name := range []string{"Error", "String"} {
		sel := types.NewMethodSet(ifc.T).Lookup(nil, name)
		if sel == nil {
			continue
		}
		fn := r.Ex.Prog.MethodValue(sel)
		if fn == nil {
			continue
		}
		if fn.Pkg != nil {
			fn.Pkg.Build()
		}
		if str, isStr := r.CallFunction(fn, []engine.Value{ifc.V}, site).(engine.Str); isStr {
			return str, true
		}
	}
	return engine.Str{}, false
}

func nativeSprint(name string, args []engine.Value) (engine.Value, bool) {
	var native []interface{}
	format := ""
	rest := args
	if name == "fmt.Sprintf" {
		f, ok := concStr(args[0])
		if !ok {
			return nil, false
		}
		format = f
		rest = args[1:]
	}
	if len(rest) != 1 {
		return nil, false
	}
	s, ok := rest[0].(engine.Slice)
	if !ok {
		return nil, false
	}
	for i := 0; i < s.Len; i++ {
		ifc, ok := s.Elems[i].(engine.Iface)
		if !ok || ifc.T == nil {
			return nil, false
		}
		switch v := ifc.V.(type) {
		case *engine.Term:
			if !v.Const {
				return nil, false
			}
			switch v.Sort.Kind {
			case engine.SBool:
				native = append(native, v.U == 1)
			case engine.SBV:
				if b, ok := ifc.T.Underlying().(*types.Basic); ok && b.Info()&types.IsUnsigned != 0 {
					native = append(native, v.U)
				} else {
					native = append(native, v.Signed())
				}
			default:
				return nil, false
			}
		case engine.Str:
			c, ok := v.Concrete()
			if !ok {
				return nil, false
			}
			native = append(native, c)
		case engine.Host:
			native = append(native, v.V)
		default:
			return nil, false
		}
	}
	switch name {
	case "fmt.Sprintf":
		return engine.ConcStr(fmt.Sprintf(format, native...)), true
	case "fmt.Sprint":
		return engine.ConcStr(fmt.Sprint(native...)), true
	}
	return engine.ConcStr(fmt.Sprintln(native...)), true
}

// sortSlice: insertion sort; every comparison is a (possibly forking) decision.
func sortSlice(r *engine.Run, s engine.Slice, less func(a, b engine.Value) *engine.Term) {
	for i := 1; i < s.Len; i++ {
		for j := i; j > 0; j-- {
			if !r.Decide(less(s.Elems[j], s.Elems[j-1])) {
				break
			}
			s.Elems[j], s.Elems[j-1] = s.Elems[j-1], s.Elems[j]
		}
	}
}

func sortByLess(r *engine.Run, x, lessFn engine.Value, site ssa.Instruction) bool {
	ifc, ok := x.(engine.Iface)
	if !ok {
		return false
	}
	s, ok := ifc.V.(engine.Slice)
	if !ok {
		return false
	}
	for i := 1; i < s.Len; i++ {
		for j := i; j > 0; j-- {
			res := r.CallValue(lessFn, []engine.Value{engine.BVConst(64, uint64(j)), engine.BVConst(64, uint64(j-1))}, site)
			if !r.Decide(res.(*engine.Term)) {
				break
			}
			s.Elems[j], s.Elems[j-1] = s.Elems[j-1], s.Elems[j]
		}
	}
	return true
}

// filepathStub: concrete arguments are computed natively; atoms become uninterpreted applications
// (congruent: equal arguments give equal results; nothing else is known).
func filepathStub(r *engine.Run, name string, args []engine.Value) (engine.Value, bool) {
	var flat []engine.Value
	for _, a := range args {
		if s, ok := a.(engine.Slice); ok {
			for i := 0; i < s.Len; i++ {
				flat = append(flat, s.Elems[i])
			}
		} else {
			flat = append(flat, a)
		}
	}
	allConc := true
	var strs []string
	for _, a := range flat {
		c, ok := concStr(a)
		if !ok {
			allConc = false
			break
		}
		strs = append(strs, c)
	}
	short := name[strings.LastIndex(name, ".")+1:]
	if allConc && (short == "Abs" || short == "Rel") {
		return nil, false // concrete: computed natively by the bridge
	}
	if allConc {
		switch short {
		case "Join":
			return engine.ConcStr(filepath.Join(strs...)), true
		case "Dir":
			return engine.ConcStr(filepath.Dir(strs[0])), true
		case "Base":
			return engine.ConcStr(filepath.Base(strs[0])), true
		case "Ext":
			return engine.ConcStr(filepath.Ext(strs[0])), true
		case "Clean":
			return engine.ConcStr(filepath.Clean(strs[0])), true
		case "IsAbs":
			return engine.BoolT(filepath.IsAbs(strs[0])), true
		}
	}
	// uninterpreted
	var argTerms []string
	opaque := false
	for _, a := range flat {
		s, ok := a.(engine.Str)
		if !ok {
			return nil, false
		}
		if s.Atom == nil {
			if _, conc := s.Concrete(); !conc {
				opaque = true // partly symbolic bytes: result is an unconstrained fresh value
				continue
			}
		}
		argTerms = append(argTerms, r.AsAtom(s).SMT())
	}
	if opaque {
		switch short {
		case "IsAbs":
			return r.Fresh(engine.BoolSort, "isabs"), true
		case "Abs", "Rel":
			if r.Choice(2) == 0 {
				return engine.Tuple{engine.Str{Atom: r.Fresh(engine.AtomSort, short)}, engine.Iface{}}, true
			}
			return engine.Tuple{engine.Str{}, newError(r, "filepath."+short)}, true
		}
		return engine.Str{Atom: r.Fresh(engine.AtomSort, short)}, true
	}
	uf := fmt.Sprintf("uf_%s_%d", short, len(argTerms))
	switch short {
	case "IsAbs":
		t := r.UF(uf, engine.BoolSort, argTerms)
		return t, true
	case "Abs", "Rel":
		t := r.UF(uf, engine.AtomSort, argTerms)
		if r.Choice(2) == 0 {
			return engine.Tuple{engine.Str{Atom: t}, engine.Iface{}}, true
		}
		return engine.Tuple{engine.Str{}, newError(r, "filepath."+short)}, true
	default:
		t := r.UF(uf, engine.AtomSort, argTerms)
		return engine.Str{Atom: t}, true
	}
}

var _ = token.NoPos

func zeroResults(fn *ssa.Function) engine.Value {
	res := fn.Signature.Results()
	switch res.Len() {
	case 0:
		return nil
	case 1:
		return engine.Zero(res.At(0).Type())
	}
	return engine.Zero(res)
}

// jenStub: jennifer is an opaque library: every function returns fresh opaque objects, does not
// modify its arguments and never panics. Calls are recorded (name + arguments) on the result object.
func jenStub(r *engine.Run, ps *pathState, fn *ssa.Function, args []engine.Value) engine.Value {
	res := fn.Signature.Results()
	mk := func(t types.Type) engine.Value {
		if n, ok := t.(*types.Named); ok && n.Obj().Pkg() == nil && n.Obj().Name() == "error" {
			return engine.Iface{} // jennifer calls succeed
		}
		switch u := t.Underlying().(type) {
		case *types.Pointer, *types.Interface:
			o := r.NewOpaque("jen." + fn.Name())
			o.Items = args
			if _, isIface := u.(*types.Interface); isIface {
				return engine.Iface{T: jenDynType, V: o}
			}
			return o
		case *types.Slice:
			// e.g. jen.Statement is a slice type: treat as opaque object too
			o := r.NewOpaque("jen." + fn.Name())
			o.Items = args
			return o
		}
		return engine.Zero(t)
	}
	switch res.Len() {
	case 0:
		return nil
	case 1:
		return mk(res.At(0).Type())
	}
	tu := make(engine.Tuple, res.Len())
	for i := range tu {
		tu[i] = mk(res.At(i).Type())
	}
	return tu
}

var jenDynType = types.NewNamed(types.NewTypeName(0, nil, "verifJenCode", nil), types.Typ[types.Int], nil)

func effectOf(name string, fn *ssa.Function, args []engine.Value) Effect {
	ef := Effect{Name: name, Args: args}
	for i := range args {
		if i < len(fn.Params) {
			ef.Types = append(ef.Types, fn.Params[i].Type())
		} else {
			ef.Types = append(ef.Types, nil)
		}
	}
	return ef
}

// stubResult converts programmed return values (passed as ...any) to the callee's result types.
func stubResult(fn *ssa.Function, vals []engine.Value) engine.Value {
	res := fn.Signature.Results()
	conv := func(i int) engine.Value {
		rt := res.At(i).Type()
		if i >= len(vals) {
			return engine.Zero(rt)
		}
		ifc, ok := vals[i].(engine.Iface)
		if !ok {
			return vals[i]
		}
		if _, isIface := rt.Underlying().(*types.Interface); isIface {
			return ifc
		}
		if ifc.T == nil {
			return engine.Zero(rt)
		}
		return ifc.V
	}
	switch res.Len() {
	case 0:
		return nil
	case 1:
		return conv(0)
	}
	tu := make(engine.Tuple, res.Len())
	for i := range tu {
		tu[i] = conv(i)
	}
	return tu
}
