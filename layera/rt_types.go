package layera

// rtTypes is appended to the runtime overlay: construction of real go/types types from
// symbolic choices (the structure is forked, go/types itself runs natively).
const rtTypes = `
// ---- go/types construction helpers

var verifUserPkg = types.NewPackage("example.org/in", "in")
var verifOtherPkg = types.NewPackage("example.org/other", "other")

var verifBasicKinds = []types.BasicKind{
	types.Bool, types.Int, types.Int8, types.Int16, types.Int32, types.Int64,
	types.Uint, types.Uint8, types.Uint16, types.Uint32, types.Uint64, types.Uintptr,
	types.Float32, types.Float64, types.Complex64, types.Complex128, types.String, types.UnsafePointer,
}

func verifBasic(tag string) types.Type {
	return types.Typ[verifBasicKinds[nondetChoice(tag+".kind", len(verifBasicKinds))]]
}

const (
	VerifCtorBasic = iota
	VerifCtorPointer
	VerifCtorSlice
	VerifCtorArray
	VerifCtorMap
	VerifCtorStruct
	VerifCtorInterface
	VerifCtorSignature
	VerifCtorChan
	VerifCtorTypeParam
	VerifCtorError // the universe type error: a named type without package
	VerifCtorCount
)

var verifNamedSeq int

// verifShape builds an unnamed type with the given outer constructor; inner positions are
// filled by inner().
func verifShape(tag string, ctor int, inner func(tag string) types.Type) types.Type {
	switch ctor {
	case VerifCtorBasic:
		return verifBasic(tag)
	case VerifCtorPointer:
		return types.NewPointer(inner(tag + ".elem"))
	case VerifCtorSlice:
		return types.NewSlice(inner(tag + ".elem"))
	case VerifCtorArray:
		return types.NewArray(inner(tag+".elem"), 2)
	case VerifCtorMap:
		return types.NewMap(types.Typ[types.String], inner(tag+".elem"))
	case VerifCtorStruct:
		return types.NewStruct([]*types.Var{types.NewField(token.NoPos, verifUserPkg, "F", inner(tag+".field"), false)}, nil)
	case VerifCtorInterface:
		return types.NewInterfaceType(nil, nil).Complete()
	case VerifCtorSignature:
		return types.NewSignatureType(nil, nil, nil, nil, nil, false)
	case VerifCtorChan:
		return types.NewChan(types.SendRecv, inner(tag+".elem"))
	case VerifCtorTypeParam:
		return types.NewTypeParam(types.NewTypeName(token.NoPos, verifUserPkg, "T", nil), types.NewInterfaceType(nil, nil).Complete())
	case VerifCtorError:
		return types.Universe.Lookup("error").Type()
	}
	panic("verifShape")
}

// verifNamed wraps t into a named type of package pkg.
func verifNamed(name string, pkg *types.Package, t types.Type) *types.Named {
	return types.NewNamed(types.NewTypeName(token.NoPos, pkg, name, nil), t, nil)
}

// verifEnumConst declares a constant of the named type in its package (makes it an enum).
func verifEnumConst(n *types.Named, name string, val int64) {
	n.Obj().Pkg().Scope().Insert(types.NewConst(token.NoPos, n.Obj().Pkg(), name, n, constant.MakeInt64(val)))
}

func verifInt() types.Type { return types.Typ[types.Int] }
`
