// Package layera: symbolic execution of goverter's own decision kernels through overlay harnesses.
package layera

import (
	"os"
	"path/filepath"
	"strings"
)

// Root of the verification tree (harness sources, models).
func Root() string {
	if r := os.Getenv("VERIF_ROOT"); r != "" {
		return r
	}
	return "/verif"
}

const rtIntrinsics = `//go:build verif

package PKG

import (
	"encoding/json"
	"fmt"
	"go/constant"
	"go/token"
	"go/types"
	"os"
)

// Harness intrinsics. In symbolic mode the engine intercepts these by name; the bodies below
// are the native replay implementations (values come from the solver's model, VERIF_REPLAY=<file>).

type verifReplayVal struct {
	Tag   string ` + "`json:\"tag\"`" + `
	Kind  string ` + "`json:\"kind\"`" + `
	Int   int64  ` + "`json:\"int\"`" + `
	Bytes []byte ` + "`json:\"bytes\"`" + `
}

type verifReplayFile struct {
	Harness string           ` + "`json:\"harness\"`" + `
	Vals    []verifReplayVal ` + "`json:\"vals\"`" + `
}

var (
	verifVals       []verifReplayVal
	verifPos        int
	VerifFailed     []string
	VerifAssumeFail bool
	VerifReached    []string
)

func VerifLoadReplay(path string) string {
	b, err := os.ReadFile(path)
	if err != nil {
		panic(err)
	}
	var f verifReplayFile
	if err := json.Unmarshal(b, &f); err != nil {
		panic(err)
	}
	verifVals, verifPos = f.Vals, 0
	VerifFailed, VerifAssumeFail, VerifReached = nil, false, nil
	return f.Harness
}

func verifNext(tag, kind string) verifReplayVal {
	if verifPos >= len(verifVals) {
		panic(fmt.Sprintf("verif-replay-mismatch: no value left for %s %s", kind, tag))
	}
	v := verifVals[verifPos]
	verifPos++
	if v.Kind != kind {
		panic(fmt.Sprintf("verif-replay-mismatch: expected %s for %s, recorded %s %s", kind, tag, v.Kind, v.Tag))
	}
	return v
}

func nondetBool(tag string) bool              { return verifNext(tag, "bool").Int != 0 }
func nondetInt(tag string, lo, hi int) int    { return int(verifNext(tag, "int").Int) }
func nondetByte(tag string) byte              { return byte(verifNext(tag, "byte").Int) }
func nondetString(tag string, max int) string { return string(verifNext(tag, "string").Bytes) }
func nondetAtom(tag string) string            { return string(verifNext(tag, "atom").Bytes) }
func nondetChoice(tag string, n int) int      { return int(verifNext(tag, "choice").Int) }

func verifAssume(c bool) {
	if !c {
		VerifAssumeFail = true
	}
}

func verifAssert(id string, c bool) {
	if !c && !VerifAssumeFail {
		VerifFailed = append(VerifFailed, id)
	}
}

func verifReach(id string)            { VerifReached = append(VerifReached, id) }
func verifAnd(a, b bool) bool         { return a && b }
func verifOr(a, b bool) bool          { return a || b }
func verifNot(a bool) bool            { return !a }
func verifImplies(a, b bool) bool     { return !a || b }
func verifObserve(tag string, v any) {}
func verifStrEq(a, b string) bool     { return a == b }

// stub programming / effect inspection: only meaningful under the symbolic engine
func verifStubReturn(name string, vals ...any)        {}
func verifEffectCount(name string) int                { return 0 }
func verifEffectArg(name string, k, i int) any        { return nil }
func verifEffectIndex(name string, k int) int         { return -1 }
func verifCatchExit(f func()) int                     { f(); return -1 }

var _ = fmt.Sprint
var _ = constant.MakeInt64
var _ = token.NoPos
var _ types.Type
`

// RTSource renders the runtime overlay file (intrinsics + text models) for a package.
func RTSource(pkgName string) (string, error) {
	models, err := os.ReadFile(filepath.Join(Root(), "models", "models.go"))
	if err != nil {
		return "", err
	}
	m := string(models)
	// strip the package clause and header of the models file
	if i := strings.Index(m, "\npackage models\n"); i >= 0 {
		m = m[i+len("\npackage models\n"):]
	}
	return strings.ReplaceAll(rtIntrinsics, "package PKG", "package "+pkgName) + rtTypes + "\n// ---- text models (copied from /verif/models/models.go)\n" + m, nil
}
