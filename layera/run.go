package layera

import (
	"fmt"
	"go/types"
	"os"
	"path/filepath"
	"regexp"
	"sort"
	"strings"
	"sync"

	"golang.org/x/tools/go/ssa"

	"verif/engine"
)

const GoverterModule = "github.com/jmattheis/goverter"

// Kernel is one harness function of an overlay file.
type Kernel struct {
	Name     string // e.g. "K6.step"
	Pkg      string // directory below the repo root, e.g. "config"
	Harness  string // harness function name
	Unwind   int
	MaxDepth int
	MaxPaths int
	Workers  int
	// AssumeBound: paths exceeding the unwind bound are dropped (and counted) instead of failing
	AssumeBound bool
	// PanicOK: ids of panics that are findings of another property (still reported in the result)
	NoMerge      bool
	NoMapPermute bool
	// Stub: goverter functions (ssa names) replaced by stubs returning zero values
	Stub []string
	// SetInts assigns package-level int variables of the harness package (bounds per tier)
	SetInts map[string]int
	// E2E names the end-to-end scenario that confirms counterexamples of this kernel (kernels whose
	// harness depends on stubs cannot be replayed natively)
	E2E string
	// RecordJen records jennifer calls as effects
	RecordJen bool
	// ReplayTries: native replays are repeated (properties that depend on Go's map randomisation)
	ReplayTries int
	// LoopsBounded: every loop reachable from the harness terminates within Unwind visits by construction of the
	// harness, so a path that exceeds the bound is a non-termination candidate (kind "hang"), confirmed by a
	// native replay that must run into the test timeout
	LoopsBounded bool
}

// NondetRec records one nondet intrinsic call on a path.
type NondetRec struct {
	Tag   string
	Kind  string
	Term  *engine.Term
	Bytes []*engine.Term
	Int   int64
}

// Counterexample of an assertion or a panic.
type Counterexample struct {
	Kernel  string            `json:"kernel"`
	Harness string            `json:"harness"`
	Pkg     string            `json:"pkg"`
	Assert  string            `json:"assert"`
	Kind    string            `json:"kind"` // "assert" or "panic"
	Note    string            `json:"note"`
	Vals    []ReplayVal       `json:"vals"`
	Model   map[string]uint64 `json:"model,omitempty"`
	Obs     []string          `json:"observations,omitempty"`
}

type ReplayVal struct {
	Tag   string `json:"tag"`
	Kind  string `json:"kind"`
	Int   int64  `json:"int"`
	Bytes []byte `json:"bytes"`
}

type AssertStat struct {
	ID           string
	Reached      int
	Proved       int
	Failed       int
	Inconclusive int
	First        *Counterexample
	Examples     []*Counterexample // up to 6 distinct counterexamples (replayed until one reproduces)
}

type KernelResult struct {
	Kernel  Kernel
	Asserts map[string]*AssertStat
	Reach   map[string]int
	Panics  map[string]*AssertStat // keyed by kind@pos
	Stats   *engine.Stats
	Fatal   []string
	Sample  []string
	// NotApplicable: the harness could not be built against this tree (internal API drift)
	NotApplicable string
	// PassSamples: models of a few passing paths, replayed natively as translator validation
	PassSamples []*Counterexample
	mu          sync.Mutex
}

// pathState is Run.User for Layer A.
type pathState struct {
	Nondets []NondetRec
	Obs     []engine.Obs
	Sprintf []sprintfRec
	FS      []string // recorded file-system / process effects
	Effects []Effect
	Queue   map[string][][]engine.Value // programmed stub returns
	// SyncMaps: contents of sync.Map values, by the address of the sync.Map (model: an ordinary map; no concurrency)
	SyncMaps map[*engine.Value]*engine.MapObj
}

// Effect is a recorded call of an environment function.
type Effect struct {
	Name  string
	Args  []engine.Value
	Types []types.Type
}

type sprintfRec struct {
	Atom   *engine.Term
	Format string
	Args   []engine.Value
}

// Session is a loaded goverter working tree with harness overlays.
type Session struct {
	Repo    string
	L       *engine.Loaded
	Overlay map[string][]byte
	Pkgs    []string
	// Dropped: harness files that do not compile against this tree (an internal API they use changed), with the
	// compiler's message; their kernels are not applicable to this tree
	Dropped map[string]string
}

// HarnessFiles lists harness sources of a package directory.
func HarnessFiles(pkg string) ([]string, error) {
	dir := filepath.Join(Root(), "harness", pkg)
	ents, err := os.ReadDir(dir)
	if err != nil {
		return nil, err
	}
	var out []string
	for _, e := range ents {
		if strings.HasSuffix(e.Name(), ".go") && !strings.HasSuffix(e.Name(), "_test.go") {
			out = append(out, filepath.Join(dir, e.Name()))
		}
	}
	sort.Strings(out)
	return out, nil
}

func pkgClause(repo, pkg string) (string, error) {
	ents, err := os.ReadDir(filepath.Join(repo, pkg))
	if err != nil {
		return "", err
	}
	for _, e := range ents {
		if strings.HasSuffix(e.Name(), ".go") && !strings.HasSuffix(e.Name(), "_test.go") {
			b, err := os.ReadFile(filepath.Join(repo, pkg, e.Name()))
			if err != nil {
				continue
			}
			for _, line := range strings.Split(string(b), "\n") {
				if strings.HasPrefix(line, "package ") {
					return strings.Fields(line)[1], nil
				}
			}
		}
	}
	return "", fmt.Errorf("no package clause in %s", pkg)
}

// BuildOverlay prepares the overlay (rt + harness files) for the given package directories.
func BuildOverlay(repo string, pkgs []string) (map[string][]byte, error) {
	ov := map[string][]byte{}
	for _, pkg := range pkgs {
		name, err := pkgClause(repo, pkg)
		if err != nil {
			return nil, err
		}
		rt, err := RTSource(name)
		if err != nil {
			return nil, err
		}
		ov[filepath.Join(repo, pkg, "zz_verif_rt.go")] = []byte(rt)
		files, err := HarnessFiles(pkg)
		if err != nil {
			return nil, err
		}
		for _, f := range files {
			b, err := os.ReadFile(f)
			if err != nil {
				return nil, err
			}
			ov[filepath.Join(repo, pkg, filepath.Base(f))] = b
		}
	}
	return ov, nil
}

// NewSession loads the repo packages with their harness overlays and builds SSA.
func NewSession(repo string, pkgs []string, extraOverlay map[string][]byte) (*Session, error) {
	ov, err := BuildOverlay(repo, pkgs)
	if err != nil {
		return nil, err
	}
	for k, v := range extraOverlay {
		ov[k] = v
	}
	var patterns []string
	for _, p := range pkgs {
		if p == "." || p == "" {
			patterns = append(patterns, ".")
		} else {
			patterns = append(patterns, "./"+p)
		}
	}
	dropped := map[string]string{}
	l, err := engine.Load(repo, "verif", ov, patterns...)
	for round := 0; err != nil && round < 4; round++ {
		// harness files written against an internal API that this tree no longer has: drop them and go on with the rest
		re := regexp.MustCompile(`(/[^\s:;]*/zz_verif_c[0-9]+[a-z_]*\.go):\d+:\d+: ([^;]*)`)
		found := false
		for _, m := range re.FindAllStringSubmatch(err.Error(), -1) {
			if _, ok := ov[m[1]]; ok {
				if _, seen := dropped[m[1]]; !seen {
					dropped[m[1]] = strings.TrimSpace(m[2])
				}
				delete(ov, m[1])
				found = true
			}
		}
		if !found {
			break
		}
		l, err = engine.Load(repo, "verif", ov, patterns...)
	}
	if err != nil {
		return nil, err
	}
	return &Session{Repo: repo, L: l, Overlay: ov, Pkgs: pkgs, Dropped: dropped}, nil
}

func (s *Session) pkgPath(pkg string) string {
	if pkg == "." || pkg == "" {
		return GoverterModule
	}
	return GoverterModule + "/" + pkg
}

// small pure standard-library functions that are executed from their SSA like goverter's own code
var pureStd = map[string]bool{"bytes.HasPrefix": true, "bytes.HasSuffix": true, "bytes.Equal": true}

func inGoverter(fn *ssa.Function) bool {
	if pureStd[fn.String()] {
		return true
	}
	for f := fn; f != nil; f = f.Parent() {
		if f.Pkg != nil {
			p := f.Pkg.Pkg.Path()
			// go/ast is plain data + small pure methods: executed like goverter's own code
			return p == GoverterModule || strings.HasPrefix(p, GoverterModule+"/") || p == "go/ast"
		}
	}
	// instantiated generics / wrappers: use the origin or the object package
	if o := fn.Origin(); o != nil && o.Pkg != nil {
		p := o.Pkg.Pkg.Path()
		return p == GoverterModule || strings.HasPrefix(p, GoverterModule+"/")
	}
	if obj := fn.Object(); obj != nil && obj.Pkg() != nil {
		p := obj.Pkg().Path()
		return p == GoverterModule || strings.HasPrefix(p, GoverterModule+"/")
	}
	return false
}

// Run explores one kernel harness.
func (s *Session) Run(k Kernel) *KernelResult {
	res := &KernelResult{Kernel: k, Asserts: map[string]*AssertStat{}, Reach: map[string]int{}, Panics: map[string]*AssertStat{}}
	pkg := s.L.ByPath[s.pkgPath(k.Pkg)]
	if pkg == nil {
		res.Fatal = append(res.Fatal, "package not loaded: "+k.Pkg)
		return res
	}
	hfn := pkg.Func(k.Harness)
	if hfn == nil {
		for f, why := range s.Dropped {
			if filepath.Base(filepath.Dir(f)) == filepath.Base(filepath.Join(s.Repo, k.Pkg)) || (k.Pkg == "." && filepath.Dir(f) == s.Repo) {
				res.NotApplicable = fmt.Sprintf("harness %s does not compile against this tree (%s: %s)", k.Harness, filepath.Base(f), why)
				return res
			}
		}
		res.Fatal = append(res.Fatal, "harness function not found: "+k.Harness)
		return res
	}
	env := &stubEnv{s: s, pkg: pkg, res: res}
	cfg := engine.Config{
		Name:         k.Name,
		Unwind:       k.Unwind,
		MaxDepth:     k.MaxDepth,
		MaxPaths:     k.MaxPaths,
		Workers:      k.Workers,
		AssumeBound:  k.AssumeBound,
		NoMerge:      k.NoMerge,
		NoMapPermute: k.NoMapPermute,
		Inline: func(fn *ssa.Function) bool {
			if !inGoverter(fn) {
				return false
			}
			if len(k.Stub) > 0 {
				n := fn.String()
				for _, st := range k.Stub {
					if st == n {
						return false
					}
				}
			}
			return true
		},
		Intrinsic: env.intrinsic,
		External:  env.external,
		Invoke:    env.invoke,
		Native:    NativeTable(),
	}
	if cfg.Workers == 0 {
		cfg.Workers = 8
	}
	if cfg.MaxPaths == 0 {
		cfg.MaxPaths = 200000
	}
	ex := engine.NewExplorer(s.L.Prog, cfg)
	res.Stats = ex.Explore(func(r *engine.Run) {
		ps := &pathState{}
		r.User = ps
		// package initialisers the kernels depend on
		if f := pkg.Func("init"); f != nil {
			r.CallFunction(f, nil, nil)
		}
		for name, v := range k.SetInts {
			if g, ok := pkg.Members[name].(*ssa.Global); ok {
				*r.Global(g) = engine.BVConst(64, uint64(v))
			}
		}
		if k.LoopsBounded {
			defer func() {
				rec := recover()
				if rec == nil {
					return
				}
				if ab, ok := rec.(*engine.Abort); ok && (ab.Kind == "unwind" || ab.Kind == "depth") {
					key := "hang@" + ab.Reason
					m, _ := r.Witness(nil)
					res.mu.Lock()
					st := res.Panics[key]
					if st == nil {
						st = &AssertStat{ID: key}
						res.Panics[key] = st
					}
					st.Failed++
					if len(st.Examples) < 2 {
						ce := env.counterexample(r, ps, key, "hang", "loop or recursion exceeds the bound the harness guarantees: "+ab.Reason, m)
						st.Examples = append(st.Examples, ce)
						if st.First == nil {
							st.First = ce
						}
					}
					res.mu.Unlock()
				}
				panic(rec)
			}()
		}
		cr := r.CallGuarded(hfn, nil)
		res.mu.Lock()
		np := res.Asserts["no-panic"]
		if np == nil {
			np = &AssertStat{ID: "no-panic"}
			res.Asserts["no-panic"] = np
		}
		np.Reached++
		if cr.Panic == nil {
			np.Proved++
		}
		want := cr.Panic == nil && len(res.PassSamples) < 3 && k.E2E == "" && len(ps.Nondets) > 0
		res.mu.Unlock()
		if want {
			if m, ok := r.Witness(nil); ok {
				ce := env.counterexample(r, ps, "pass", "pass", "passing path (translator validation)", m)
				res.mu.Lock()
				if len(res.PassSamples) < 3 {
					res.PassSamples = append(res.PassSamples, ce)
				}
				res.mu.Unlock()
			}
		}
		if cr.Panic != nil {
			key := cr.Panic.Kind + "@" + shortPos(s.Repo, cr.Panic.Pos)
			m, _ := r.Witness(nil)
			res.mu.Lock()
			st := res.Panics[key]
			if st == nil {
				st = &AssertStat{ID: key}
				res.Panics[key] = st
			}
			st.Failed++
			if len(st.Examples) < 6 {
				ce := env.counterexample(r, ps, key, "panic", cr.Panic.Msg, m)
				st.Examples = append(st.Examples, ce)
				if st.First == nil {
					st.First = ce
				}
			}
			res.mu.Unlock()
		}
	})
	res.Fatal = append(res.Fatal, ex.Fatal...)
	return res
}

func shortPos(repo, pos string) string {
	return strings.TrimPrefix(pos, repo+"/")
}
