package layera

import (
	"encoding/json"
	"fmt"
	"os"
	"os/exec"
	"path/filepath"
	"strings"
	"time"
)

const replayTest = `//go:build verif

package PKG

import (
	"fmt"
	"os"
	"testing"
)

func TestVerifReplay(t *testing.T) {
	h := VerifLoadReplay(os.Getenv("VERIF_REPLAY"))
	if h != "HARNESS" {
		t.Fatalf("replay file is for %s", h)
	}
	defer func() {
		if r := recover(); r != nil {
			if s, ok := r.(string); ok && len(s) > 21 && s[:21] == "verif-replay-mismatch" {
				if len(VerifFailed) > 0 && len(s) > 36 && s[:36] == "verif-replay-mismatch: no value left" && !VerifAssumeFail {
					// the recorded prefix ends at the failing assertion: it failed natively as well
					for _, id := range VerifFailed {
						fmt.Printf("VERIF-ASSERT-FAILED %s\n", id)
					}
					fmt.Println("VERIF-REPLAY-PREFIX-DONE")
				} else {
					fmt.Printf("VERIF-REPLAY-MISMATCH: %v\n", r)
				}
			} else {
				fmt.Printf("VERIF-PANIC: %v\n", r)
			}
			t.Fail()
		}
	}()
	HARNESS()
	if VerifAssumeFail {
		fmt.Println("VERIF-ASSUME-FALSE")
	}
	for _, id := range VerifFailed {
		fmt.Printf("VERIF-ASSERT-FAILED %s\n", id)
		t.Fail()
	}
	fmt.Println("VERIF-REPLAY-DONE")
}
`

// WriteReplay stores a counterexample as a self-contained replay directory and returns its path.
func (s *Session) WriteReplay(ce *Counterexample, dir string) error {
	if err := os.MkdirAll(dir, 0o755); err != nil {
		return err
	}
	vals, _ := json.MarshalIndent(map[string]interface{}{"harness": ce.Harness, "vals": ce.Vals}, "", " ")
	if err := os.WriteFile(filepath.Join(dir, "replay.json"), vals, 0o644); err != nil {
		return err
	}
	full, _ := json.MarshalIndent(ce, "", " ")
	if err := os.WriteFile(filepath.Join(dir, "counterexample.json"), full, 0o644); err != nil {
		return err
	}
	name, err := pkgClause(s.Repo, ce.Pkg)
	if err != nil {
		return err
	}
	test := strings.ReplaceAll(strings.ReplaceAll(replayTest, "package PKG", "package "+name), "HARNESS", ce.Harness)
	if err := os.WriteFile(filepath.Join(dir, "zz_verif_replay_test.go"), []byte(test), 0o644); err != nil {
		return err
	}
	// copies of the overlay sources of that package
	repl := map[string]string{}
	pkgDir := filepath.Join(s.Repo, ce.Pkg)
	for p, b := range s.Overlay {
		if filepath.Dir(p) != pkgDir {
			continue
		}
		local := filepath.Join(dir, filepath.Base(p))
		if err := os.WriteFile(local, b, 0o644); err != nil {
			return err
		}
		repl[p] = local
	}
	repl[filepath.Join(pkgDir, "zz_verif_replay_test.go")] = filepath.Join(dir, "zz_verif_replay_test.go")
	ov, _ := json.MarshalIndent(map[string]interface{}{"Replace": repl}, "", " ")
	if err := os.WriteFile(filepath.Join(dir, "overlay.json"), ov, 0o644); err != nil {
		return err
	}
	pkgPat := "./" + ce.Pkg
	if ce.Pkg == "." || ce.Pkg == "" {
		pkgPat = "."
	}
	timeout := ""
	if ce.Kind == "hang" {
		timeout = "-timeout 20s "
	}
	sh := fmt.Sprintf("#!/bin/sh\n# replays the counterexample natively against the real code of %s\ncd %s && VERIF_REPLAY=%s GOFLAGS=-mod=mod GOPROXY=off GOSUMDB=off GOTOOLCHAIN=local go test -tags verif -vet=off -count=1 %s-run TestVerifReplay -overlay %s -v %s\n",
		s.Repo, s.Repo, filepath.Join(dir, "replay.json"), timeout, filepath.Join(dir, "overlay.json"), pkgPat)
	return os.WriteFile(filepath.Join(dir, "replay.sh"), []byte(sh), 0o755)
}

// RunReplayN repeats a replay up to n times (for behaviour that depends on Go's map randomisation).
func RunReplayN(dir string, n int) (bool, string) {
	if n < 1 {
		n = 1
	}
	var out string
	for i := 0; i < n; i++ {
		ok, o := RunReplay(dir)
		out = o
		if ok {
			return true, o
		}
	}
	return false, out
}

// RunReplay executes a replay directory; it reports whether the violation reproduced.
func RunReplay(dir string) (reproduced bool, output string) {
	cmd := exec.Command("sh", filepath.Join(dir, "replay.sh"))
	done := make(chan struct{})
	var out []byte
	go func() {
		out, _ = cmd.CombinedOutput()
		close(done)
	}()
	select {
	case <-done:
	case <-time.After(5 * time.Minute):
		cmd.Process.Kill()
		<-done
	}
	output = string(out)
	b, err := os.ReadFile(filepath.Join(dir, "counterexample.json"))
	if err != nil {
		return false, output
	}
	var ce Counterexample
	json.Unmarshal(b, &ce)
	if strings.Contains(output, "VERIF-ASSUME-FALSE") || strings.Contains(output, "VERIF-REPLAY-MISMATCH") {
		return false, output
	}
	if ce.Kind == "hang" {
		return strings.Contains(output, "test timed out") || strings.Contains(output, "stack overflow") || strings.Contains(output, "goroutine stack exceeds"), output
	}
	if ce.Kind == "panic" {
		return strings.Contains(output, "VERIF-PANIC") || strings.Contains(output, "panic:"), output
	}
	return strings.Contains(output, "VERIF-ASSERT-FAILED "+ce.Assert), output
}

// RunReplayClean replays a passing path: the native run must consume exactly the recorded nondet
// sequence, satisfy every assumption and fail no assertion.
func RunReplayClean(dir string) (bool, string) {
	_, out := RunReplay(dir)
	ok := strings.Contains(out, "VERIF-REPLAY-DONE") && !strings.Contains(out, "VERIF-ASSERT-FAILED") &&
		!strings.Contains(out, "VERIF-REPLAY-MISMATCH") && !strings.Contains(out, "VERIF-PANIC") && !strings.Contains(out, "VERIF-ASSUME-FALSE")
	return ok, out
}
