//go:build verif

package cli

// Harness for C17 (kernel K8, cli part): exit status and stream per outcome; generation is only
// attempted for a successfully parsed gen command.

import (
	"errors"
	"os"

	"github.com/jmattheis/goverter"
	"github.com/jmattheis/goverter/enum"
)

func VerifHarness_C17_Run() {
	outcome := nondetChoice("parse.outcome", 4)
	genFails := nondetChoice("generate.fails", 2) == 1
	cfg := &goverter.GenerateConfig{EnumTransformers: map[string]enum.Transformer{}}
	switch outcome {
	case 0:
		verifStubReturn("github.com/jmattheis/goverter/cli.Parse", nil, errors.New("usage"))
	case 1:
		verifStubReturn("github.com/jmattheis/goverter/cli.Parse", &Help{Usage: "usage"}, nil)
	case 2:
		verifStubReturn("github.com/jmattheis/goverter/cli.Parse", &Generate{Config: cfg}, nil)
	default:
		verifStubReturn("github.com/jmattheis/goverter/cli.Parse", &Version{}, nil)
	}
	if genFails {
		verifStubReturn("github.com/jmattheis/goverter.GenerateConverters", errors.New("generation"))
	} else {
		verifStubReturn("github.com/jmattheis/goverter.GenerateConverters", nil)
	}
	code := verifCatchExit(func() { Run([]string{"goverter", "gen", "./..."}, RunOpts{}) })
	gens := verifEffectCount("call:github.com/jmattheis/goverter.GenerateConverters")
	prints := verifEffectCount("fmt.Fprintln")
	switch outcome {
	case 0:
		verifReach("usage-error")
		verifAssert("usage-error-exits-1", code == 1)
		verifAssert("usage-error-does-not-generate", gens == 0)
		verifAssert("usage-error-goes-to-stderr", prints == 1 && verifEffectArg("fmt.Fprintln", 0, 0).(*os.File) == os.Stderr)
	case 1:
		verifReach("help")
		verifAssert("help-exits-0", code == 0)
		verifAssert("help-does-not-generate", gens == 0)
		verifAssert("help-goes-to-stdout", prints == 1 && verifEffectArg("fmt.Fprintln", 0, 0).(*os.File) == os.Stdout)
	case 2:
		verifAssert("gen-calls-generator-once-with-the-parsed-config", gens == 1 && verifEffectArg("call:github.com/jmattheis/goverter.GenerateConverters", 0, 0).(*goverter.GenerateConfig) == cfg)
		if genFails {
			verifReach("generation-error")
			verifAssert("generation-error-exits-1", code == 1)
			verifAssert("generation-error-goes-to-stderr", prints == 1 && verifEffectArg("fmt.Fprintln", 0, 0).(*os.File) == os.Stderr)
		} else {
			verifReach("success")
			verifAssert("success-returns-without-error-exit", code == -1 || code == 0)
			verifAssert("success-prints-nothing-to-stderr", prints == 0)
		}
	default:
		verifReach("version")
		verifAssert("version-does-not-generate", gens == 0)
		verifAssert("version-no-error-exit", code == -1 || code == 0)
	}
}
