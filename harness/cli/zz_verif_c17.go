//go:build verif

package cli

// Harness for C17 (kernel K8, cli part): exit status and stream per outcome; generation is only
// attempted for a successfully parsed gen command.

import (
	"errors"
	"os"

	"github.com/jmattheis/goverter"
	"github.com/jmattheis/goverter/config"
	"github.com/jmattheis/goverter/enum"
)

func VerifHarness_C17_Run() {
	outcome := nondetChoice("parse.outcome", 4)
	genFails := nondetChoice("generate.fails", 2) == 1
	// the parsed configuration: every field arbitrary; the embedding program may add enum transformers
	tags, constraint, cwd, pattern, global := nondetAtom("buildTags"), nondetAtom("constraint"), nondetAtom("cwd"), nondetAtom("pattern"), nondetAtom("global")
	parsedT := func(enum.TransformContext) (map[string]string, error) { return nil, nil }
	customT := func(enum.TransformContext) (map[string]string, error) { return map[string]string{}, nil }
	cfg := &goverter.GenerateConfig{
		PackagePatterns: []string{pattern}, WorkingDir: cwd, BuildTags: tags, OutputBuildConstraint: constraint,
		Global:           config.RawLines{Location: "cli", Lines: []string{global}},
		EnumTransformers: map[string]enum.Transformer{"parsed": parsedT},
	}
	ncustom := nondetChoice("custom.transformers", 3)
	var ropts RunOpts
	if ncustom > 0 {
		ropts.EnumTransformers = map[string]enum.Transformer{}
		for i := 0; i < ncustom; i++ {
			ropts.EnumTransformers[[]string{"custom1", "custom2"}[i]] = customT
		}
	}
	switch outcome {
	case 0:
		verifStubReturn("github.com/jmattheis/goverter/cli.Parse", nil, errors.New("usage"))
	case 1:
		verifStubReturn("github.com/jmattheis/goverter/cli.Parse", &Help{Usage: "usage"}, nil)
	case 2:
		verifStubReturn("github.com/jmattheis/goverter/cli.Parse", &Generate{Config: cfg}, nil)
	default:
		verifStubReturn("github.com/jmattheis/goverter/cli.Parse", &Version{}, nil)
	}
	if genFails {
		verifStubReturn("github.com/jmattheis/goverter.GenerateConverters", errors.New("generation"))
	} else {
		verifStubReturn("github.com/jmattheis/goverter.GenerateConverters", nil)
	}
	code := verifCatchExit(func() { Run([]string{"goverter", "gen", "./..."}, ropts) })
	gens := verifEffectCount("call:github.com/jmattheis/goverter.GenerateConverters")
	prints := verifEffectCount("fmt.Fprintln")
	switch outcome {
	case 0:
		verifReach("usage-error")
		verifAssert("usage-error-exits-1", code == 1)
		verifAssert("usage-error-does-not-generate", gens == 0)
		verifAssert("usage-error-goes-to-stderr", prints == 1 && verifEffectArg("fmt.Fprintln", 0, 0).(*os.File) == os.Stderr)
	case 1:
		verifReach("help")
		verifAssert("help-exits-0", code == 0)
		verifAssert("help-does-not-generate", gens == 0)
		verifAssert("help-goes-to-stdout", prints == 1 && verifEffectArg("fmt.Fprintln", 0, 0).(*os.File) == os.Stdout)
	case 2:
		verifAssert("gen-calls-generator-once", gens == 1)
		if gens == 1 {
			got := verifEffectArg("call:github.com/jmattheis/goverter.GenerateConverters", 0, 0).(*goverter.GenerateConfig)
			verifAssert("parsed-patterns-and-cwd-reach-the-generator", got != nil && len(got.PackagePatterns) == 1 && got.PackagePatterns[0] == pattern && got.WorkingDir == cwd)
			verifAssert("parsed-build-tags-reach-the-generator", got != nil && got.BuildTags == tags)
			verifAssert("parsed-output-constraint-reaches-the-generator", got != nil && got.OutputBuildConstraint == constraint)
			verifAssert("parsed-global-lines-reach-the-generator", got != nil && len(got.Global.Lines) == 1 && got.Global.Lines[0] == global && got.Global.Location == "cli")
			if got != nil {
				_, hasParsed := got.EnumTransformers["parsed"]
				verifAssert("transformers-are-merged", hasParsed && len(got.EnumTransformers) == 1+ncustom)
			}
		}
		if genFails {
			verifReach("generation-error")
			verifAssert("generation-error-exits-1", code == 1)
			verifAssert("generation-error-goes-to-stderr", prints == 1 && verifEffectArg("fmt.Fprintln", 0, 0).(*os.File) == os.Stderr)
		} else {
			verifReach("success")
			verifAssert("success-returns-without-error-exit", code == -1 || code == 0)
			verifAssert("success-prints-nothing-to-stderr", prints == 0)
		}
	default:
		verifReach("version")
		verifAssert("version-does-not-generate", gens == 0)
		verifAssert("version-no-error-exit", code == -1 || code == 0)
	}
}
