//go:build verif

package enum

// Harness for C13 (kernel K9): the regex transformer's configuration split never panics.

func VerifHarness_C13_TransformRegex() {
	cfg := nondetString("config", 5)
	m, err := transformRegex(TransformContext{Config: cfg, Source: Enum{Members: map[string]any{}}, Target: Enum{Members: map[string]any{}}})
	verifReach("done")
	spaces := 0
	for i := 0; i < len(cfg); i++ {
		if cfg[i] == ' ' {
			spaces++
		}
	}
	if spaces != 1 {
		verifAssert("config-needs-exactly-two-parts", err != nil)
	}
	_ = m
}
