//go:build verif

package enum

// Harness for C13 (kernel K9): the regex transformer's configuration split never panics.

func VerifHarness_C13_TransformRegex() {
	cfg := nondetString("config", 5)
	m, err := transformRegex(TransformContext{Config: cfg, Source: Enum{Members: map[string]any{}}, Target: Enum{Members: map[string]any{}}})
	verifReach("done")
	spaces := 0
	for i := 0; i < len(cfg); i++ {
		if cfg[i] == ' ' {
			spaces++
		}
	}
	if spaces != 1 {
		verifAssert("config-needs-exactly-two-parts", err != nil)
	}
	_ = m
}

// VerifHarness_C09_TransformRegexOrder (kernel K10.transformregex, C09 / C08): the regex transformer maps every
// source member whose rewritten name is a target member - several source members may share one target - and the
// result does not depend on the order in which the members are visited (map iteration = every permutation).
func VerifHarness_C09_TransformRegexOrder() {
	src := map[string]any{"StatusActive": 1, "StatusActiveLegacy": 2, "StatusBlocked": 3}
	if nondetBool("a-member-without-target") {
		src["StatusGone"] = 4
	}
	tgt := map[string]any{"Active": 1, "Blocked": 2}
	cfg := []string{`^Status(Active|Blocked)(Legacy)?$ $1`, `Status(\w+?)(Legacy)?$ $1`}[nondetChoice("config", 2)]
	m, err := transformRegex(TransformContext{Config: cfg, Source: Enum{Members: src}, Target: Enum{Members: tgt}})
	verifReach("done")
	verifAssert("valid-config-accepted", err == nil)
	if err != nil {
		return
	}
	verifAssert("every-source-member-with-a-target-is-mapped", len(m) == 3)
	verifAssert("members-mapped-by-rewritten-name", m["StatusActive"] == "Active" && m["StatusActiveLegacy"] == "Active" && m["StatusBlocked"] == "Blocked")
	_, gone := m["StatusGone"]
	verifAssert("member-without-target-left-out", !gone)
}
