//go:build verif

package enum

// Harness for C03 (kernel K1.enumdetect): which defined types are enums - a defined type whose underlying type
// is an integer, float or string kind and that has at least one constant of exactly that type in its package.

import (
	"go/constant"
	"go/token"
	"go/types"
)

func VerifHarness_C03_EnumDetect() {
	kinds := []types.BasicKind{types.Bool, types.Int, types.Int8, types.Uint, types.Uint64, types.Uintptr, types.Float32, types.Float64, types.String, types.Complex128}
	enumKind := []bool{false, true, true, true, true, true, true, true, true, false}
	k := nondetChoice("underlying", len(kinds)+1)
	pkg := types.NewPackage("example.org/e", "e")
	var under types.Type
	if k < len(kinds) {
		under = types.Typ[kinds[k]]
	} else {
		under = types.NewStruct(nil, nil)
	}
	named := types.NewNamed(types.NewTypeName(token.NoPos, pkg, "Kind", nil), under, nil)
	pkg.Scope().Insert(named.Obj())
	sibling := types.NewNamed(types.NewTypeName(token.NoPos, pkg, "Sibling", nil), under, nil)
	pkg.Scope().Insert(sibling.Obj())

	value := func(i int64) constant.Value {
		if k >= len(kinds) {
			return constant.MakeInt64(i)
		}
		switch kinds[k] {
		case types.Bool:
			return constant.MakeBool(i%2 == 0)
		case types.Float32, types.Float64:
			return constant.MakeFloat64(float64(i) + 0.5)
		case types.String:
			return constant.MakeString([]string{"a", "b", "c"}[i%3])
		case types.Complex128:
			return constant.ToComplex(constant.MakeInt64(i))
		}
		return constant.MakeInt64(i)
	}
	members := nondetChoice("members", 3)
	names := []string{"KindA", "KindB"}
	if k < len(kinds) {
		for i := 0; i < members; i++ {
			pkg.Scope().Insert(types.NewConst(token.NoPos, pkg, names[i], named, value(int64(i))))
		}
	} else {
		members = 0
	}
	// constants of other types (the underlying type itself, a sibling defined type) are no members
	if k < len(kinds) && nondetBool("constants-of-other-types") {
		pkg.Scope().Insert(types.NewConst(token.NoPos, pkg, "Plain", under, value(7)))
		pkg.Scope().Insert(types.NewConst(token.NoPos, pkg, "OfSibling", sibling, value(8)))
	}
	// variables are no members
	if nondetBool("variable-of-the-type") {
		pkg.Scope().Insert(types.NewVar(token.NoPos, pkg, "KindVar", named))
	}

	e, ok := Detect(named)
	verifReach("detected")
	want := k < len(kinds) && enumKind[k] && members >= 1
	verifAssert("enum-iff-int-float-or-string-kind-with-a-constant", ok == want)
	if ok && want {
		verifAssert("members-are-exactly-the-constants-of-the-type", len(e.Members) == members)
		for i := 0; i < members; i++ {
			_, has := e.Members[names[i]]
			verifAssert("member-recorded-by-name", has)
		}
	}
}
