//go:build verif

package builder

// Harness for C09 (kernel K10): the diagnostic for settings that reference non-existing fields does
// not depend on map iteration order.

import (
	"go/types"

	"github.com/jmattheis/goverter/config"
	"github.com/jmattheis/goverter/method"
	"github.com/jmattheis/goverter/namer"
	"github.com/jmattheis/goverter/xtype"
)

func VerifHarness_C09_UnknownFields() {
	src := xtype.TypeOf(verifNamed("In", verifUserPkg, types.NewStruct(nil, nil)))
	tgt := xtype.TypeOf(verifNamed("Out", verifUserPkg, types.NewStruct(nil, nil)))
	n := 2 + nondetChoice("unknown-fields", 2)
	conf := &config.Method{Definition: &method.Definition{}, Fields: map[string]*config.FieldMapping{}, EnumMapping: &config.EnumMapping{Map: map[string]string{}}}
	for _, name := range []string{"Nope1", "Nope2", "Nope3"}[:n] {
		conf.Fields[name] = &config.FieldMapping{Ignore: true}
	}
	mk := func() *MethodContext {
		return &MethodContext{Namer: namer.New(), Conf: conf, FieldsTarget: tgt.String, SeenNamed: map[string]struct{}{}}
	}
	s := &Struct{}
	_, e1 := s.Assign(nil, mk(), AssignOf(nil), xtype.VariableID(nil), src, tgt, nil)
	_, e2 := s.Assign(nil, mk(), AssignOf(nil), xtype.VariableID(nil), src, tgt, nil)
	verifReach("assigned")
	verifAssert("unknown-fields-are-an-error", e1 != nil && e2 != nil)
	if e1 != nil && e2 != nil {
		verifAssert("same-diagnostic-under-every-iteration-order", e1.Cause == e2.Cause)
	}
}
