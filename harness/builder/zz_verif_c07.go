//go:build verif

package builder

// Harness for C07 (kernel K13.errpath): every builder hands the error location on to the conversions nested in
// it - the location it received, extended by exactly the element it descends into (slice/array index, map key
// for key *and* value, struct field name also for embedded fields and for map|FUNC calls, nothing for pointer
// steps). A location that is shortened, reset or extended by something else would mis-report every error
// raised below that step.

import (
	"go/types"

	"github.com/dave/jennifer/jen"
	"github.com/jmattheis/goverter/config"
	"github.com/jmattheis/goverter/method"
	"github.com/jmattheis/goverter/namer"
	"github.com/jmattheis/goverter/xtype"
)

type verifPathReq struct {
	kind     string
	src, tgt string
	path     ErrorPath
}

type verifPathGen struct {
	reqs []verifPathReq
	// owned: how many requests handed over a source expression marked as the method's own copy
	owned int
	// echo: the generator hands the source expression back as it is (what skipCopySameType does for identical types)
	echo bool
}

// the location as it is at the moment of the request (the generator consumes it right away)
func verifCopyPath(p ErrorPath) ErrorPath { return append(ErrorPath(nil), p...) }

func (g *verifPathGen) Build(ctx *MethodContext, sourceID *xtype.JenID, source, target *xtype.Type, path ErrorPath) ([]jen.Code, *xtype.JenID, *Error) {
	g.reqs = append(g.reqs, verifPathReq{"build", source.String, target.String, verifCopyPath(path)})
	if sourceID.Owned {
		g.owned++
	}
	if g.echo {
		return nil, sourceID, nil
	}
	return nil, xtype.VariableID(jen.Id("x")), nil
}

func (g *verifPathGen) Assign(ctx *MethodContext, assignTo *AssignTo, sourceID *xtype.JenID, source, target *xtype.Type, path ErrorPath) ([]jen.Code, *Error) {
	kind := "assign"
	if assignTo.Update {
		kind = "assign-in-place" // on top of an existing value (default constructor / update)
	}
	g.reqs = append(g.reqs, verifPathReq{kind, source.String, target.String, verifCopyPath(path)})
	if sourceID.Owned {
		g.owned++
	}
	return nil, nil
}

func (g *verifPathGen) CallMethod(ctx *MethodContext, m *method.Definition, sourceID *xtype.JenID, source, target *xtype.Type, path ErrorPath) ([]jen.Code, *xtype.JenID, *Error) {
	g.reqs = append(g.reqs, verifPathReq{"call", source.String, target.String, verifCopyPath(path)})
	return nil, xtype.VariableID(jen.Id("r")), nil
}

func (g *verifPathGen) ReturnError(ctx *MethodContext, path ErrorPath, id *jen.Statement) (jen.Code, bool) {
	g.reqs = append(g.reqs, verifPathReq{"return", "", "", verifCopyPath(path)})
	return jen.Return(id), true
}

// verifPathIs: got == prefix + [want] (want == nil: got == prefix)
func verifPathIs(got, prefix ErrorPath, wantKind, wantField string) bool {
	n := len(prefix)
	if wantKind != "" {
		n++
	}
	if len(got) != n {
		return false
	}
	for i := range prefix {
		a, aok := got[i].(errElmField)
		b, bok := prefix[i].(errElmField)
		if aok != bok || (aok && a != b) {
			return false
		}
		if !aok {
			_, ai := got[i].(errElmIndex)
			_, bi := prefix[i].(errElmIndex)
			if ai != bi {
				return false
			}
		}
	}
	if wantKind == "" {
		return true
	}
	switch e := got[len(got)-1].(type) {
	case errElmField:
		return wantKind == "field" && string(e) == wantField
	case errElmIndex:
		return wantKind == "index"
	case errElmKey:
		return wantKind == "key"
	}
	return false
}

func VerifHarness_C07_ErrPath() {
	pkg := verifUserPkg
	// the location handed in: nothing, a field, a field and an index
	// (kept in a slice with spare capacity, as paths grown by append usually are: extending it for one nested
	// conversion must not disturb the location handed to a sibling)
	prefix := make(ErrorPath, 0, 8)
	switch nondetChoice("incoming-location", 4) {
	case 1:
		prefix = prefix.Field("Outer")
	case 2:
		prefix = prefix.Field("Outer").Index(jen.Id("i"))
	case 3:
		prefix = prefix.Key(jen.Id("k")).Field("Inner")
	}
	a := verifNamed("A", pkg, types.Typ[types.Int])
	b := verifNamed("B", pkg, types.Typ[types.String])
	conf := &config.Method{Definition: &method.Definition{}, Fields: map[string]*config.FieldMapping{}, EnumMapping: &config.EnumMapping{Map: map[string]string{}}}
	conf.UseZeroValueOnPointerInconsistency = true
	gen := &verifPathGen{}
	sourceID := xtype.VariableID(jen.Id("s"))
	mk := func(target string) *MethodContext {
		return &MethodContext{Namer: namer.New(), Conf: conf, FieldsTarget: target, OutputPackagePath: pkg.Path(), SeenNamed: map[string]struct{}{}}
	}
	entryAssign := nondetChoice("entry", 2) == 1
	run := func(bd Builder, st, tt types.Type) *Error {
		s, t := xtype.TypeOf(st), xtype.TypeOf(tt)
		ctx := mk(t.String)
		if tp, ok := tt.(*types.Pointer); ok {
			ctx.FieldsTarget = xtype.TypeOf(tp.Elem()).String
		}
		verifAssert("builder-applies", bd.Matches(ctx, s, t))
		if entryAssign {
			_, err := bd.Assign(gen, ctx, AssignOf(jen.Id("t")), sourceID, s, t, prefix)
			return err
		}
		_, _, err := bd.Build(gen, ctx, sourceID, s, t, prefix)
		return err
	}
	all := func(id, kind, field string) {
		verifAssert(id+":nested-conversion-requested", len(gen.reqs) >= 1)
		for _, r := range gen.reqs {
			verifAssert(id, verifPathIs(r.path, prefix, kind, field))
		}
	}
	switch nondetChoice("builder", 11) {
	case 9:
		verifReach("map-with-struct-keys")
		ks := verifNamed("KS", pkg, types.NewStruct([]*types.Var{types.NewField(0, pkg, "ID", a, false)}, nil))
		kt := verifNamed("KT", pkg, types.NewStruct([]*types.Var{types.NewField(0, pkg, "ID", b, false)}, nil))
		verifAssert("no-error", run(&Map{}, types.NewMap(ks, types.NewPointer(a)), types.NewMap(kt, types.NewPointer(b))) == nil)
		verifAssert("map-key-and-value-are-both-converted", len(gen.reqs) == 2)
		all("map-key-and-value-location-is-incoming-plus-key", "key", "")
	case 10:
		// the two wrappers themselves: wrapErrors names the innermost element, wrapErrorsUsing passes every
		// element in order after the error
		verifReach("wrappers")
		path := verifCopyPath(prefix).Field("Last")
		l0 := verifEffectCount("jen.Lit")
		path.WrapErrors(jen.Id("err"))
		verifAssert("wrapErrors-names-the-innermost-field", verifEffectCount("jen.Lit") == l0+1 && verifEffectArg("jen.Lit", l0, 0).(string) == "error setting field Last: %w")
		l0 = verifEffectCount("jen.Lit")
		verifCopyPath(prefix).Field("F").Index(jen.Id("i")).WrapErrors(jen.Id("err"))
		verifAssert("wrapErrors-names-the-innermost-index", verifEffectCount("jen.Lit") == l0+1 && verifEffectArg("jen.Lit", l0, 0).(string) == "error setting index %d: %w")
		// ... also when map keys follow it (keys have no message of their own)
		l0 = verifEffectCount("jen.Lit")
		verifCopyPath(prefix).Field("M").Key(jen.Id("key")).WrapErrors(jen.Id("err"))
		verifAssert("wrapErrors-names-the-innermost-field-before-a-key", verifEffectCount("jen.Lit") == l0+1 && verifEffectArg("jen.Lit", l0, 0).(string) == "error setting field M: %w")
		l0 = verifEffectCount("jen.Lit")
		verifCopyPath(prefix).Index(jen.Id("i")).Key(jen.Id("key")).Key(jen.Id("key2")).WrapErrors(jen.Id("err"))
		verifAssert("wrapErrors-names-the-innermost-index-before-keys", verifEffectCount("jen.Lit") == l0+1 && verifEffectArg("jen.Lit", l0, 0).(string) == "error setting index %d: %w")
		q0 := verifEffectCount("jen.Qual")
		path.WrapErrorsUsing("example.org/perr", jen.Id("err"))
		q1 := verifEffectCount("jen.Qual")
		verifAssert("wrapErrorsUsing-passes-one-element-per-step", q1-q0 == len(path)+1)
		for i := 0; i < len(path) && q0+i < q1; i++ {
			want := "Key"
			switch path[i].(type) {
			case errElmField:
				want = "Field"
			case errElmIndex:
				want = "Index"
			}
			verifAssert("wrapErrorsUsing-elements-in-path-order", verifEffectArg("jen.Qual", q0+i, 1).(string) == want && verifEffectArg("jen.Qual", q0+i, 0).(string) == "example.org/perr")
		}
		verifAssert("wrapErrorsUsing-calls-Wrap", q1 > q0 && verifEffectArg("jen.Qual", q1-1, 1).(string) == "Wrap")
		// the last field literal is the innermost name
		ln := verifEffectCount("jen.Lit")
		verifAssert("wrapErrorsUsing-names-the-innermost-field-last", ln >= 1 && verifEffectArg("jen.Lit", ln-1, 0).(string) == "Last")
	case 0:
		verifReach("slice")
		verifAssert("no-error", run(&List{}, types.NewSlice(a), types.NewSlice(b)) == nil)
		all("slice-element-location-is-incoming-plus-index", "index", "")
	case 1:
		verifReach("array")
		verifAssert("no-error", run(&List{}, types.NewArray(a, 2), types.NewSlice(b)) == nil)
		all("array-element-location-is-incoming-plus-index", "index", "")
	case 2:
		verifReach("map")
		verifAssert("no-error", run(&Map{}, types.NewMap(a, a), types.NewMap(b, b)) == nil)
		verifAssert("map-key-and-value-are-both-converted", len(gen.reqs) == 2)
		all("map-key-and-value-location-is-incoming-plus-key", "key", "")
	case 3:
		verifReach("pointer")
		verifAssert("no-error", run(&Pointer{}, types.NewPointer(a), types.NewPointer(b)) == nil)
		all("pointer-step-keeps-the-location", "", "")
	case 4:
		verifReach("source-pointer")
		verifAssert("no-error", run(&SourcePointer{}, types.NewPointer(a), b) == nil)
		all("source-pointer-step-keeps-the-location", "", "")
	case 5:
		verifReach("target-pointer")
		st := verifNamed("S", pkg, types.NewStruct(nil, nil))
		tt := verifNamed("T", pkg, types.NewStruct(nil, nil))
		verifAssert("no-error", run(&TargetPointer{}, st, types.NewPointer(tt)) == nil)
		all("target-pointer-step-keeps-the-location", "", "")
	case 6:
		verifReach("basic-to-pointer")
		verifAssert("no-error", run(&BasicTargetPointerRule{}, a, types.NewPointer(b)) == nil)
		all("basic-to-pointer-step-keeps-the-location", "", "")
	case 7:
		verifReach("struct")
		emb := verifNamed("Emb", pkg, types.NewStruct([]*types.Var{types.NewField(0, pkg, "V", a, false)}, nil))
		embT := verifNamed("EmbT", pkg, types.NewStruct([]*types.Var{types.NewField(0, pkg, "V", b, false)}, nil))
		st := verifNamed("S", pkg, types.NewStruct([]*types.Var{types.NewField(0, pkg, "Name", a, false), types.NewField(0, pkg, "Emb", emb, true), types.NewField(0, pkg, "Raw", a, false)}, nil))
		tt := verifNamed("T", pkg, types.NewStruct([]*types.Var{types.NewField(0, pkg, "Name", b, false), types.NewField(0, pkg, "Emb", embT, true), types.NewField(0, pkg, "Parsed", b, false)}, nil))
		fn := &method.Definition{ID: "func Parse", Name: "Parse", Parameters: method.Parameters{Source: xtype.TypeOf(a), Target: xtype.TypeOf(b)}}
		conf.Fields["Parsed"] = &config.FieldMapping{Source: "Raw", Function: fn}
		verifAssert("no-error", run(&Struct{}, st, tt) == nil)
		verifAssert("one-request-per-field", len(gen.reqs) == 3)
		names := []string{"Name", "Emb", "Parsed"}
		for i, r := range gen.reqs {
			if i < 3 {
				verifAssert("field-location-is-incoming-plus-field-name", verifPathIs(r.path, prefix, "field", names[i]))
			}
		}
		verifAssert("mapped-function-is-called-with-the-field-location", len(gen.reqs) == 3 && gen.reqs[2].kind == "call")
	default:
		verifReach("struct-behind-pointer-path")
		inner := verifNamed("In2", pkg, types.NewStruct([]*types.Var{types.NewField(0, pkg, "Deep", a, false)}, nil))
		st := verifNamed("S", pkg, types.NewStruct([]*types.Var{types.NewField(0, pkg, "PN", types.NewPointer(inner), false)}, nil))
		tt := verifNamed("T", pkg, types.NewStruct([]*types.Var{types.NewField(0, pkg, "Zip", types.NewPointer(b), false)}, nil))
		conf.Fields["Zip"] = &config.FieldMapping{Source: "PN.Deep"}
		verifAssert("no-error", run(&Struct{}, st, tt) == nil)
		verifAssert("one-request-per-field", len(gen.reqs) == 1)
		all("mapped-path-location-is-incoming-plus-target-field-name", "field", "Zip")
	}
}
