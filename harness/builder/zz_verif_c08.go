//go:build verif

package builder

// Harness for C08 (kernel K11.enumbuild): builder.(*Enum).Build on real enum types (named integer types with
// constants in their package scope, detected by the real enum.Detect). For every source member the emitted case
// names the target chosen by enum:map, else by the transformers, else by the identical name; the documented
// faults (missing target member, enum:map key that is no source member, members of equal value that disagree,
// missing or invalid enum:unknown, @error without an error result, failing / empty transformer) make the
// conversion fail and nothing else does.

import (
	"errors"
	"go/constant"
	"go/types"

	"github.com/dave/jennifer/jen"
	"github.com/jmattheis/goverter/config"
	"github.com/jmattheis/goverter/enum"
	"github.com/jmattheis/goverter/method"
	"github.com/jmattheis/goverter/namer"
	"github.com/jmattheis/goverter/xtype"
)

type verifEnumGen struct {
	verifGen
	canError bool
}

func (g *verifEnumGen) ReturnError(ctx *MethodContext, path ErrorPath, id *jen.Statement) (jen.Code, bool) {
	return jen.Return(id), g.canError
}

func verifEnumType(pkg *types.Package, name string, members []string, values []int64) *types.Named {
	n := types.NewNamed(types.NewTypeName(0, pkg, name, nil), types.Typ[types.Int], nil)
	pkg.Scope().Insert(n.Obj())
	for i, m := range members {
		pkg.Scope().Insert(types.NewConst(0, pkg, m, n, constant.MakeInt64(values[i])))
	}
	return n
}

// VerifC08Wide: 0 = the pruned product of the quick tier, 1 = the full product
var VerifC08Wide = 0

func VerifHarness_C08_EnumBuild() {
	srcPkg := types.NewPackage("example.org/src", "src")
	tgtPkg := types.NewPackage("example.org/tgt", "tgt")
	// source: A=0, B=0|1 (B may be an alias of A), optionally C=2
	srcNames := []string{"A", "B"}
	srcVals := []int64{0, int64(nondetChoice("source.B.value", 2))}
	if nondetChoice("source.C", 2) == 1 {
		srcNames = append(srcNames, "C")
		srcVals = append(srcVals, 2)
	}
	// target: A=10, B=10|11 (B may equal A), X=12, optionally C=13
	tgtNames := []string{"A", "B", "X"}
	tgtVals := []int64{10, 10 + int64(nondetChoice("target.B.value", 2)), 12}
	targetC := len(srcNames) == 3
	if VerifC08Wide == 1 {
		targetC = nondetChoice("target.C", 2) == 1
	}
	if targetC {
		tgtNames = append(tgtNames, "C")
		tgtVals = append(tgtVals, 13)
	}
	source := xtype.TypeOf(verifEnumType(srcPkg, "Color", srcNames, srcVals))
	target := xtype.TypeOf(verifEnumType(tgtPkg, "Color", tgtNames, tgtVals))

	conf := &config.Method{Definition: &method.Definition{}, Fields: map[string]*config.FieldMapping{}, EnumMapping: &config.EnumMapping{Map: map[string]string{}}}
	conf.Enum.Enabled = true
	// enum:map lines
	mapTargets := []string{"", "X", "B", config.EnumActionIgnore, config.EnumActionError, config.EnumActionPanic, "Nope"}
	mapA := nondetChoice("enum:map.A", len(mapTargets))
	nB := 3
	if VerifC08Wide == 1 {
		nB = len(mapTargets)
	}
	mapB := nondetChoice("enum:map.B", nB)
	unknownKey := nondetChoice("enum:map.unknown-key", 2) == 1
	transKind := nondetChoice("transformer", 4)
	if VerifC08Wide == 0 {
		// failing transformers are looked at without further settings
		verifAssume(transKind < 2 || (mapA == 0 && mapB == 0 && !unknownKey))
	}
	if t := mapTargets[mapA]; t != "" {
		conf.EnumMapping.Map["A"] = t
	}
	if t := mapTargets[mapB]; t != "" {
		conf.EnumMapping.Map["B"] = t
	}
	if unknownKey {
		conf.EnumMapping.Map["Zed"] = "X"
	}
	// transformers
	trans := map[string]string{}
	transFails := false
	switch transKind {
	case 1: // renames A and C; the target also has members called A and C
		trans = map[string]string{"A": "B", "C": "X"}
	case 2:
		transFails = true
		trans = nil
	case 3:
		transFails = true
	}
	if transKind != 0 {
		conf.EnumMapping.Transformers = []config.ConfiguredTransformer{{Name: "t", Config: "cfg", Transformer: func(enum.TransformContext) (map[string]string, error) {
			if transKind == 3 {
				return nil, errors.New("transformer failed")
			}
			return trans, nil
		}}}
	}
	unknown := []string{"", config.EnumActionPanic, config.EnumActionError, config.EnumActionIgnore, "X", "Nope"}[nondetChoice("enum:unknown", 6)]
	conf.Common.Enum.Unknown = unknown
	ctx := &MethodContext{Namer: namer.New(), Conf: conf, FieldsTarget: target.String, OutputPackagePath: "example.org/generated", SeenNamed: map[string]struct{}{}}
	gen := &verifEnumGen{canError: nondetBool("method-returns-error")}

	before := verifEffectCount("jen.Qual")
	_, _, err := (&Enum{}).Build(gen, ctx, xtype.VariableID(jen.Id("source")), source, target, nil)
	after := verifEffectCount("jen.Qual")

	// ---- reference
	isTarget := func(n string) bool {
		for _, t := range tgtNames {
			if t == n {
				return true
			}
		}
		return false
	}
	tval := func(n string) int64 {
		for i, t := range tgtNames {
			if t == n {
				return tgtVals[i]
			}
		}
		return -1
	}
	usable := func(t string) bool {
		switch t {
		case config.EnumActionIgnore, config.EnumActionPanic:
			return true
		case config.EnumActionError:
			return gen.canError
		}
		return isTarget(t)
	}
	isAction := func(t string) bool {
		return t == config.EnumActionIgnore || t == config.EnumActionPanic || t == config.EnumActionError
	}
	valid := !transFails
	want := make([]string, len(srcNames))
	for i, m := range srcNames { // already sorted
		t, ok := conf.EnumMapping.Map[m]
		if !ok {
			t, ok = trans[m]
		}
		if !ok {
			t = m
		}
		want[i] = t
		if !usable(t) {
			valid = false
		}
		for j := 0; j < i; j++ {
			if srcVals[j] == srcVals[i] {
				// members of equal value: the first one decides, the later one must agree
				if !isAction(t) && !isAction(want[j]) {
					if tval(t) != tval(want[j]) {
						valid = false
					}
				} else if t != want[j] {
					valid = false
				}
				break
			}
		}
	}
	if unknown == "" || !usable(unknown) {
		valid = false
	}
	if _, ok := conf.EnumMapping.Map["Zed"]; ok {
		valid = false
	}
	verifReach("built")
	verifAssert("fails-exactly-on-the-documented-faults", (err == nil) == valid)
	if err != nil || !valid {
		return
	}
	// the emitted names: source member, then its target member (actions name nothing), ..., then the unknown target
	// (the type name rendered for the target variable is no member)
	var qn, qp []string
	for k := before; k < after; k++ {
		n, p := verifEffectArg("jen.Qual", k, 1).(string), verifEffectArg("jen.Qual", k, 0).(string)
		if n != "Color" && p != "fmt" { // fmt.Errorf / fmt.Sprintf belong to the @error / @panic actions
			qn = append(qn, n)
			qp = append(qp, p)
		}
	}
	k := 0
	for i, m := range srcNames {
		verifAssert("case-names-the-source-member", k < len(qn) && qn[k] == m && qp[k] == "example.org/src")
		k++
		if !isAction(want[i]) {
			verifAssert("case-assigns-the-chosen-target-member", k < len(qn) && qn[k] == want[i] && qp[k] == "example.org/tgt")
			k++
		}
	}
	if !isAction(unknown) {
		verifAssert("default-assigns-the-unknown-member", k < len(qn) && qn[k] == unknown)
		k++
	}
	verifAssert("nothing-else-is-named", k == len(qn))
}
