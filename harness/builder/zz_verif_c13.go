//go:build verif

package builder

// Harness for C13 (kernel K9, diagnostics part): rendering a conversion error never panics,
// whatever identifiers (including empty ones, which directive text can produce) the path holds.

func verifLenString(tag string, max int) string {
	n := nondetChoice(tag, max+1)
	s := ""
	for i := 0; i < n; i++ {
		s += "x"
	}
	return s
}

var VerifC13MaxPaths = 2

// verifLenPick: identifier lengths around every width a fixed-size padding buffer could have
func verifLenPick(tag string) string {
	n := []int{0, 1, 2, 65, 130}[nondetChoice(tag, 5)]
	s := ""
	for i := 0; i < n; i++ {
		s += "x"
	}
	return s
}

func VerifHarness_C13_ErrorToString() {
	n := 1 + nondetChoice("paths", VerifC13MaxPaths)
	e := NewError("cause")
	for i := 0; i < n; i++ {
		p := &Path{
			Prefix:   verifLenString("prefix", 1),
			SourceID: verifLenPick("sourceID"),
			TargetID: verifLenPick("targetID"),
		}
		if nondetChoice("hasSourceType", 2) == 1 {
			p.SourceType = "S"
		}
		if nondetChoice("hasTargetType", 2) == 1 {
			p.TargetType = "T"
		}
		e = e.Lift(p)
	}
	_ = ToString(e)
	verifReach("rendered")
}
