//go:build verif

package builder

// Harness for C03 / C05 / C13 (kernel K5.structassign): builder.(*Struct).Assign + mapField with a
// recording Generator. For every target field the emitted assignment reads the documented source, a
// field is only left out when ignore / ignoreUnexported / ignoreMissing (no candidate at all) says so,
// anything else (no source, several candidates, inaccessible target field, path through a non-struct)
// makes the conversion fail - never a panic.

import (
	"go/types"

	"github.com/dave/jennifer/jen"
	"github.com/jmattheis/goverter/config"
	"github.com/jmattheis/goverter/method"
	"github.com/jmattheis/goverter/namer"
	"github.com/jmattheis/goverter/xtype"
)

type verifAssignRec struct {
	targetField string
	sourceType  string
	targetType  string
}

// verifGen records what the struct builder asks the generator to do.
type verifGen struct {
	assigns []verifAssignRec
	calls   []string
	builds  []verifAssignRec
}

func (g *verifGen) Build(ctx *MethodContext, sourceID *xtype.JenID, source, target *xtype.Type, path ErrorPath) ([]jen.Code, *xtype.JenID, *Error) {
	g.builds = append(g.builds, verifAssignRec{sourceType: source.String, targetType: target.String})
	return nil, xtype.VariableID(jen.Id("x")), nil
}

func (g *verifGen) Assign(ctx *MethodContext, assignTo *AssignTo, sourceID *xtype.JenID, source, target *xtype.Type, path ErrorPath) ([]jen.Code, *Error) {
	name := ""
	if len(path) > 0 {
		if f, ok := path[len(path)-1].(errElmField); ok {
			name = string(f)
		}
	}
	g.assigns = append(g.assigns, verifAssignRec{targetField: name, sourceType: source.String, targetType: target.String})
	return nil, nil
}

func (g *verifGen) CallMethod(ctx *MethodContext, m *method.Definition, sourceID *xtype.JenID, source, target *xtype.Type, path ErrorPath) ([]jen.Code, *xtype.JenID, *Error) {
	g.calls = append(g.calls, m.Name)
	return nil, xtype.VariableID(jen.Id("r")), nil
}

func (g *verifGen) ReturnError(ctx *MethodContext, path ErrorPath, id *jen.Statement) (jen.Code, bool) {
	return jen.Return(id), true
}

// distinct field types identify which source field was read
var verifFieldTypes = []types.BasicKind{types.Int8, types.Int16, types.Int32, types.Int64, types.Uint8, types.Uint16}

var verifSrcNames = []string{"Name", "name", "NAME", "Other", "hidden"}

func VerifHarness_C05_StructAssign() {
	inPkg := verifUserPkg
	// ---- source struct: up to 3 fields with pairwise different names, each of a different basic type
	nf := nondetChoice("source.fields", 4)
	var srcNames []string
	var srcFields []*types.Var
	for i := 0; i < nf; i++ {
		n := verifSrcNames[nondetChoice("source.name", len(verifSrcNames))]
		for _, o := range srcNames {
			verifAssume(o != n)
		}
		srcNames = append(srcNames, n)
		srcFields = append(srcFields, types.NewField(0, inPkg, n, types.Typ[verifFieldTypes[i]], false))
	}
	// a nested struct reachable by path / autoMap, and pointer fields for path errors
	nested := types.NewStruct([]*types.Var{types.NewField(0, inPkg, "Deep", types.Typ[types.Float32], false)}, nil)
	srcFields = append(srcFields, types.NewField(0, inPkg, "Nested", nested, false))
	srcFields = append(srcFields, types.NewField(0, inPkg, "PS", types.NewPointer(types.Typ[types.String]), false))
	srcFields = append(srcFields, types.NewField(0, inPkg, "PN", types.NewPointer(nested), false))
	source := xtype.TypeOf(verifNamed("In", inPkg, types.NewStruct(srcFields, nil)))

	// ---- target struct: one field under test (+ one always matching field), in the user's or another package
	// The field may have been declared in another package than the one the struct's type name lives in
	// (`type Out other.Record`), and the struct may have no type name at all: accessibility follows the field.
	tgtPkg := inPkg
	fieldPkg := inPkg
	if nondetChoice("target.field-declared-elsewhere", 2) == 1 {
		fieldPkg = types.NewPackage("example.org/model", "model")
	}
	tname := []string{"Name", "hidden", "Deep"}[nondetChoice("target.name", 3)]
	tgtFields := []*types.Var{types.NewField(0, fieldPkg, tname, types.Typ[types.Int], false)}
	var target *xtype.Type
	if nondetChoice("target.unnamed", 2) == 1 {
		target = xtype.TypeOf(types.NewStruct(tgtFields, nil))
	} else {
		target = xtype.TypeOf(verifNamed("Out", tgtPkg, types.NewStruct(tgtFields, nil)))
	}
	exported := tname != "hidden"

	// ---- settings
	conf := &config.Method{Definition: &method.Definition{}, Fields: map[string]*config.FieldMapping{}, EnumMapping: &config.EnumMapping{Map: map[string]string{}}}
	conf.IgnoreMissing = nondetBool("ignoreMissing")
	conf.IgnoreUnexported = nondetBool("ignoreUnexported")
	conf.MatchIgnoreCase = nondetBool("matchIgnoreCase")
	setting := nondetChoice("field.setting", 7)
	mapPath := ""
	switch setting {
	case 1:
		conf.Fields[tname] = &config.FieldMapping{Ignore: true}
	case 2:
		mapPath = "Other"
	case 3:
		mapPath = "Nested.Deep"
	case 4:
		mapPath = "PN.Deep"
	case 5:
		mapPath = "PS.X" // continues behind a pointer to a non-struct
	case 6:
		mapPath = "Nope"
	}
	if mapPath != "" {
		conf.Fields[tname] = &config.FieldMapping{Source: mapPath}
	}
	autoMap := setting == 0 && nondetChoice("autoMap", 2) == 1
	if autoMap {
		conf.AutoMap = []string{"Nested"}
	}
	samePkgOutput := nondetChoice("output.samePackage", 2) == 1
	out := "example.org/generated"
	if samePkgOutput {
		out = tgtPkg.Path()
	}
	ctx := &MethodContext{Namer: namer.New(), Conf: conf, FieldsTarget: target.String, OutputPackagePath: out, SeenNamed: map[string]struct{}{}}
	gen := &verifGen{}

	_, err := (&Struct{}).Assign(gen, ctx, AssignOf(jen.Id("t")), xtype.VariableID(jen.Id("s")), source, target, nil)

	// ---- reference
	accessible := exported || out == fieldPkg.Path()
	has := func(n string) bool {
		for _, o := range srcNames {
			if o == n {
				return true
			}
		}
		return false
	}
	switch {
	case setting == 1:
		verifReach("ignored")
		verifAssert("ignored-field-is-not-assigned", err == nil && len(gen.assigns) == 0)
		return
	case !exported && conf.IgnoreUnexported && setting == 0:
		// (a field with a goverter:map line of its own is not skipped: the line takes effect or is reported,
		// like without ignoreUnexported - "never silently dropped")
		verifReach("ignoreUnexported")
		verifAssert("unexported-field-left-out-with-ignoreUnexported", err == nil && len(gen.assigns) == 0)
		return
	case !accessible:
		verifReach("inaccessible")
		verifAssert("inaccessible-target-field-fails", err != nil)
		verifAssert("inaccessible-target-field-not-assigned", len(gen.assigns) == 0)
		return
	}
	switch setting {
	case 2:
		verifReach("map-field")
		if has("Other") {
			verifAssert("map-reads-the-named-field", err == nil && len(gen.assigns) == 1 && gen.assigns[0].targetField == tname)
		} else {
			verifAssert("map-of-missing-field-fails", err != nil)
		}
		return
	case 3:
		verifReach("map-path")
		verifAssert("map-path-reads-nested-field", err == nil && len(gen.assigns) == 1 && gen.assigns[0].sourceType == "float32")
		return
	case 4:
		verifReach("map-path-through-pointer")
		verifAssert("path-through-pointer-lifts-to-pointer", err == nil && len(gen.assigns) == 1 && gen.assigns[0].sourceType == "*float32")
		return
	case 5:
		verifReach("map-path-through-pointer-to-basic")
		verifAssert("path-behind-pointer-to-non-struct-fails", err != nil)
		return
	case 6:
		verifReach("map-unknown")
		verifAssert("map-of-unknown-field-fails", err != nil)
		return
	}
	// same-name / case-insensitive / autoMap lookup
	exact, folded := 0, 0
	for _, n := range srcNames {
		if n == tname {
			exact++
		} else if VerifModelEqualFold(n, tname) {
			folded++
		}
	}
	if autoMap && tname == "Deep" {
		exact++
	}
	unique := exact == 1 || (exact == 0 && folded == 1)
	none := exact == 0 && folded == 0
	if exact == 0 && folded >= 1 {
		// folded candidates only count with matchIgnoreCase
		if conf.MatchIgnoreCase {
			verifReach("folded")
			if folded == 1 {
				verifAssert("unique-folded-candidate-is-used", err == nil && len(gen.assigns) == 1)
			} else {
				verifAssert("several-folded-candidates-fail-even-with-ignoreMissing", err != nil)
			}
			return
		}
		none = true
		unique = false
	}
	switch {
	case unique:
		verifReach("unique")
		verifAssert("unique-candidate-is-assigned", err == nil && len(gen.assigns) == 1 && gen.assigns[0].targetField == tname)
	case none:
		verifReach("none")
		if conf.IgnoreMissing {
			verifAssert("missing-source-left-out-with-ignoreMissing", err == nil && len(gen.assigns) == 0)
		} else {
			verifAssert("missing-source-fails", err != nil)
		}
	default:
		verifReach("ambiguous")
		verifAssert("several-exact-candidates-fail", err != nil)
	}
}
