//go:build verif

package builder

// Harness for C04 (kernel K15.deepcopy): without skipCopySameType every builder that handles a value carrying
// references (slice, array, map, pointer, value-to-pointer, struct) rebuilds it - it asks the generator for the
// conversion of every element / key / value / pointee / field and hands back something else than the source
// expression - also when source and target type are identical, or are two named types over one underlying type
// (where a Go conversion or a plain assignment would compile and share the memory).

import (
	"go/types"

	"github.com/dave/jennifer/jen"
	"github.com/jmattheis/goverter/config"
	"github.com/jmattheis/goverter/method"
	"github.com/jmattheis/goverter/namer"
	"github.com/jmattheis/goverter/xtype"
)

func VerifHarness_C04_DeepCopy() {
	pkg := verifUserPkg
	// element type: a scalar, a reference, a small value struct (unnamed, basic fields only), a named struct
	var elem types.Type
	switch nondetChoice("element", 4) {
	case 0:
		elem = types.Typ[types.Int]
	case 1:
		elem = types.NewSlice(types.Typ[types.String])
	case 2:
		elem = types.NewStruct([]*types.Var{types.NewField(0, pkg, "X", types.Typ[types.Int], false), types.NewField(0, pkg, "Y", types.Typ[types.Int], false)}, nil)
	default:
		elem = verifNamed("E", pkg, types.NewStruct([]*types.Var{types.NewField(0, pkg, "Refs", types.NewSlice(types.Typ[types.Int]), false)}, nil))
	}
	naming := nondetChoice("container-types", 3) // 0 identical unnamed, 1 one named type on both sides, 2 two named types over one underlying type
	wrap := func(under types.Type) (types.Type, types.Type) {
		switch naming {
		case 1:
			n := verifNamed("Same", pkg, under)
			return n, n
		case 2:
			return verifNamed("Left", pkg, under), verifNamed("Right", pkg, under)
		}
		return under, under
	}
	conf := &config.Method{Definition: &method.Definition{}, Fields: map[string]*config.FieldMapping{}, EnumMapping: &config.EnumMapping{Map: map[string]string{}}}
	conf.UseZeroValueOnPointerInconsistency = nondetBool("useZeroValueOnPointerInconsistency")
	conf.IgnoreUnexported = nondetBool("ignoreUnexported")
	gen := &verifPathGen{}
	sourceID := xtype.VariableID(jen.Id("source").Dot("F"))
	var bd Builder
	var st, tt types.Type
	want := 1
	switch nondetChoice("container", 7) {
	case 6:
		// the element itself, when it is a struct with fields: converting it yields a value of its own, never the
		// source expression (a later value-to-pointer step would take the address of the source)
		verifReach("bare-struct")
		es, ok := elem.Underlying().(*types.Struct)
		verifAssume(ok)
		bd = &Struct{}
		st, tt = elem, elem
		want = es.NumFields()
	case 0:
		verifReach("slice")
		bd = &List{}
		st, tt = wrap(types.NewSlice(elem))
	case 1:
		verifReach("array-to-slice")
		bd = &List{}
		st, tt = types.NewArray(elem, 2), types.NewSlice(elem)
	case 2:
		verifReach("map")
		bd = &Map{}
		st, tt = wrap(types.NewMap(types.Typ[types.String], elem))
		want = 2
	case 3:
		verifReach("pointer")
		bd = &Pointer{}
		st, tt = wrap(types.NewPointer(elem))
	case 4:
		verifReach("value-to-pointer")
		bd = &TargetPointer{}
		st, tt = elem, types.NewPointer(elem)
		if _, basic := elem.(*types.Basic); basic {
			bd = &BasicTargetPointerRule{}
		}
	default:
		verifReach("struct")
		bd = &Struct{}
		under := types.NewStruct([]*types.Var{types.NewField(0, pkg, "A", elem, false), types.NewField(0, pkg, "B", types.NewPointer(elem), false)}, nil)
		st, tt = wrap(under)
		want = 2
	}
	s, t := xtype.TypeOf(st), xtype.TypeOf(tt)
	ctx := &MethodContext{Namer: namer.New(), Conf: conf, FieldsTarget: "other", OutputPackagePath: pkg.Path(), SeenNamed: map[string]struct{}{}}
	verifAssert("builder-applies", bd.Matches(ctx, s, t))
	if nondetChoice("entry", 2) == 1 {
		_, err := bd.Assign(gen, ctx, AssignOf(jen.Id("t")), sourceID, s, t, nil)
		verifAssert("built", err == nil)
	} else {
		_, id, err := bd.Build(gen, ctx, sourceID, s, t, nil)
		verifAssert("built", err == nil)
		verifAssert("result-is-not-the-source-expression", id != nil && id != sourceID && id.Code != sourceID.Code)
	}
	verifAssert("every-part-is-converted-through-the-generator", len(gen.reqs) == want)
	// elements, keys, values, pointees and fields of the source live in the source (or in a loop variable that is
	// shared between iterations before Go 1.22): none of them is the method's own copy whose address may be taken
	verifAssert("no-part-of-the-source-is-marked-as-the-methods-own-copy", gen.owned == 0)
}

// VerifHarness_C04_AddressOfSource (kernel K15.addrsource): T -> *T when the conversion of the value hands the
// source expression back unchanged (skipCopySameType on identical types): the pointer never is the address of an
// expression that lives in the source - a field, an element, a loop variable - only of a copy; the by-value
// parameter of the method itself is such a copy already.
func VerifHarness_C04_AddressOfSource() {
	pkg := verifUserPkg
	var elem types.Type
	switch nondetChoice("element", 4) {
	case 0:
		elem = types.NewSlice(types.Typ[types.Int])
	case 1:
		elem = types.NewArray(types.Typ[types.Int], 2)
	case 2:
		elem = types.NewStruct([]*types.Var{types.NewField(0, pkg, "L", types.NewSlice(types.Typ[types.Int]), false)}, nil)
	default:
		elem = types.NewMap(types.Typ[types.String], types.Typ[types.Int])
	}
	conf := &config.Method{Definition: &method.Definition{}, Fields: map[string]*config.FieldMapping{}, EnumMapping: &config.EnumMapping{Map: map[string]string{}}}
	conf.SkipCopySameType = true
	gen := &verifPathGen{echo: true}
	var sourceID *xtype.JenID
	owned := false
	switch nondetChoice("source-expression", 4) {
	case 0:
		sourceID = xtype.VariableID(jen.Id("source").Dot("F"))
	case 1:
		sourceID = xtype.VariableID(jen.Id("source").Index(jen.Id("i")))
	case 2:
		sourceID = xtype.VariableID(jen.Id("value"))
	default:
		sourceID = xtype.VariableID(jen.Id("source"))
		sourceID.Owned = true
		owned = true
	}
	s, t := xtype.TypeOf(elem), xtype.TypeOf(types.NewPointer(elem))
	ctx := &MethodContext{Namer: namer.New(), Conf: conf, FieldsTarget: "other", OutputPackagePath: pkg.Path(), SeenNamed: map[string]struct{}{}}
	bd := &TargetPointer{}
	verifAssert("builder-applies", bd.Matches(ctx, s, t))
	stmts, id, err := bd.Build(gen, ctx, sourceID, s, t, nil)
	verifReach("built")
	verifAssert("built", err == nil && id != nil)
	if !owned {
		verifAssert("the-value-is-copied-into-a-variable-before-its-address-is-taken", len(stmts) == 1)
	}
}
