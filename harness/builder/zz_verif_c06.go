//go:build verif

package builder

// Harness for C06 / C08 (kernel K17.underlying): useUnderlyingTypeMethods. A pair of defined types is converted
// through a custom function for the underlying type of the source, of the target or of both - exactly when such
// a function exists, with exactly the sides unwrapped that the function needs - and a pair that is also an enum
// pair is a setting conflict (a diagnostic) whichever side the function unwraps.

import (
	"go/constant"
	"go/token"
	"go/types"

	"github.com/dave/jennifer/jen"
	"github.com/jmattheis/goverter/config"
	enumcfg "github.com/jmattheis/goverter/enum"
	"github.com/jmattheis/goverter/namer"
	"github.com/jmattheis/goverter/xtype"
)

func VerifHarness_C06_Underlying() {
	pkg := types.NewPackage("example.org/u", "u")
	under := []types.Type{types.Typ[types.String], types.Typ[types.Int], types.NewSlice(types.Typ[types.String]), types.NewMap(types.Typ[types.String], types.Typ[types.Int])}[nondetChoice("underlying", 4)]
	_, basic := under.(*types.Basic)
	sameType := nondetBool("same-defined-type-on-both-sides")
	// the source may also be a defined struct type (its underlying type then differs from the target's)
	srcUnder := under
	srcStruct := !sameType && nondetBool("source-is-a-defined-struct")
	if srcStruct {
		srcUnder = types.NewStruct([]*types.Var{types.NewField(token.NoPos, pkg, "F", types.Typ[types.Int], false)}, nil)
	}
	srcN := types.NewNamed(types.NewTypeName(token.NoPos, pkg, "Src", nil), srcUnder, nil)
	pkg.Scope().Insert(srcN.Obj())
	tgtN := srcN
	if !sameType {
		tgtN = types.NewNamed(types.NewTypeName(token.NoPos, pkg, "Tgt", nil), under, nil)
		pkg.Scope().Insert(tgtN.Obj())
	}
	val := func(i int64) constant.Value {
		if under == types.Typ[types.String] {
			return constant.MakeString([]string{"a", "b"}[i%2])
		}
		return constant.MakeInt64(i)
	}
	srcEnum, tgtEnum := basic && !srcStruct && nondetBool("source-has-constants"), basic && nondetBool("target-has-constants")
	if srcEnum {
		pkg.Scope().Insert(types.NewConst(token.NoPos, pkg, "SrcA", srcN, val(0)))
	}
	if tgtEnum && !sameType {
		pkg.Scope().Insert(types.NewConst(token.NoPos, pkg, "TgtA", tgtN, val(1)))
	}
	if sameType {
		tgtEnum = srcEnum
	}
	enumEnabled := nondetBool("enum-detection-on")
	// which custom functions exist: underlying(S) -> T, S -> underlying(T), underlying(S) -> underlying(T) - any
	// subset. With several of them the one closest to the declared types is used: a function that yields T itself
	// before one whose result has to be converted again, a function for underlying(S) before one that takes S
	// (the order of builder.findUnderlyingExtendMapping, pinned here)
	h1, h2, h3 := nondetBool("function(underlying(S),T)"), nondetBool("function(S,underlying(T))"), nondetBool("function(underlying(S),underlying(T))")
	which := 0
	switch {
	case h1:
		which = 1
	case h3:
		which = 3
	case h2:
		which = 2
	}
	setting := nondetBool("useUnderlyingTypeMethods")

	source, target := xtype.TypeOf(srcN), xtype.TypeOf(tgtN)
	conf := &config.Method{Common: config.Common{UseUnderlyingTypeMethods: setting, Enum: enumConfig(enumEnabled)}, Fields: map[string]*config.FieldMapping{}}
	ctx := &MethodContext{Namer: namer.New(), Conf: conf, SeenNamed: map[string]struct{}{}, OutputPackagePath: "example.org/out",
		HasMethod: func(_ *MethodContext, s, t types.Type) bool {
			return (h1 && types.Identical(s, srcUnder) && types.Identical(t, tgtN)) ||
				(h2 && types.Identical(s, srcN) && types.Identical(t, under)) ||
				(h3 && types.Identical(s, srcUnder) && types.Identical(t, under))
		}}
	b := &UseUnderlyingTypeMethods{}
	matches := b.Matches(ctx, source, target)
	verifReach("matched")
	verifAssert("applies-exactly-when-the-setting-is-on-and-a-function-for-an-underlying-type-exists", matches == (setting && which != 0))
	if !matches {
		return
	}
	gen := &verifGen{}
	_, id, err := b.Build(gen, ctx, xtype.VariableID(jen.Id("s")), source, target, nil)
	verifReach("built")
	if enumEnabled && srcEnum && tgtEnum {
		verifAssert("enum-pair-with-an-underlying-type-function-is-a-setting-conflict", err != nil)
		verifAssert("conflict-builds-nothing", len(gen.builds) == 0)
		return
	}
	verifAssert("built-without-error", err == nil && id != nil)
	verifAssert("one-inner-conversion", len(gen.builds) == 1)
	if len(gen.builds) != 1 {
		return
	}
	wantS, wantT := source.String, target.String
	if which == 1 || which == 3 {
		wantS = srcUnder.String()
	}
	if which == 2 || which == 3 {
		wantT = under.String()
	}
	verifAssert("inner-conversion-between-the-types-the-function-takes", gen.builds[0].sourceType == wantS && gen.builds[0].targetType == wantT)
}

func enumConfig(enabled bool) enumcfg.Config { return enumcfg.Config{Enabled: enabled} }

// VerifHarness_C12_EnumSettingPerMethod (kernel K17.enumsetting): whether a pair of enum types is converted as an
// enum is decided by the `enum` setting in effect for the *current* method - whatever another method, with another
// value of the setting, asked about the same types before (the detection result is cached on the type).
func VerifHarness_C12_EnumSettingPerMethod() {
	pkg := types.NewPackage("example.org/u", "u")
	srcN := types.NewNamed(types.NewTypeName(token.NoPos, pkg, "Src", nil), types.Typ[types.Int], nil)
	tgtN := types.NewNamed(types.NewTypeName(token.NoPos, pkg, "Tgt", nil), types.Typ[types.Int], nil)
	pkg.Scope().Insert(srcN.Obj())
	pkg.Scope().Insert(tgtN.Obj())
	pkg.Scope().Insert(types.NewConst(token.NoPos, pkg, "SrcA", srcN, constant.MakeInt64(0)))
	pkg.Scope().Insert(types.NewConst(token.NoPos, pkg, "TgtA", tgtN, constant.MakeInt64(1)))
	source, target := xtype.TypeOf(srcN), xtype.TypeOf(tgtN)
	// (the reverse history - asked with detection off first, on later - is not produced by the generator: a type
	// instance travels from one method to another only through a helper, and helpers are created for enum pairs
	// only by methods that have detection on; the cache would answer "no enum" there, a pre-state no run reaches)
	if nondetChoice("earlier-method-asked-with-detection-on", 2) == 1 {
		cfg := enumConfig(true)
		source.Enum(&cfg)
		target.Enum(&cfg)
	}
	enabled := nondetBool("enum-setting-of-the-current-method")
	conf := &config.Method{Common: config.Common{Enum: enumConfig(enabled)}, Fields: map[string]*config.FieldMapping{}}
	ctx := &MethodContext{Namer: namer.New(), Conf: conf, SeenNamed: map[string]struct{}{}, OutputPackagePath: "example.org/out"}
	got := (&Enum{}).Matches(ctx, source, target)
	verifReach("asked")
	verifAssert("enum-conversion-exactly-when-the-current-method-has-it-enabled", got == enabled)
}
