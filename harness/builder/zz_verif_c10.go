//go:build verif

package builder

// Harness for C10 (kernel K2): which fields get a zero-value guard in update context.
// shouldCheckAgainstZero is executed on xtype.Types produced by the real xtype.TypeOf from real
// go/types types (all outer constructors, named or not), with every flag symbolic.

import (
	"go/types"

	"github.com/jmattheis/goverter/config"
	"github.com/jmattheis/goverter/method"
	"github.com/jmattheis/goverter/xtype"
)

func VerifHarness_C10_ZeroGuard() {
	ctor := nondetChoice("s.ctor", VerifCtorCount)
	st := verifShape("s", ctor, func(string) types.Type { return verifInt() })
	if ctor != VerifCtorError && ctor != VerifCtorTypeParam && nondetChoice("s.named", 2) == 1 {
		st = verifNamed("S", verifUserPkg, st)
	}
	var tt types.Type = types.Typ[types.String]
	tsel := nondetChoice("t.identical", 3)
	same := tsel == 1
	switch tsel {
	case 1:
		tt = st
	case 2:
		// a differing, non-comparable struct target (e.g. a DTO with an extra slice field)
		tt = verifNamed("T", verifUserPkg, types.NewStruct([]*types.Var{
			types.NewField(0, verifUserPkg, "F", verifInt(), false),
			types.NewField(0, verifUserPkg, "Tags", types.NewSlice(verifInt()), false),
		}, nil))
	}
	s, t := xtype.TypeOf(st), xtype.TypeOf(tt)

	conf := &config.Method{Definition: &method.Definition{}}
	conf.IgnoreBasicZeroValueField = nondetBool("basic")
	conf.IgnoreStructZeroValueField = nondetBool("struct")
	conf.IgnoreNillableZeroValueField = nondetBool("nillable")
	conf.SkipCopySameType = nondetBool("skipCopySameType")
	conf.UpdateTarget = nondetBool("updateTarget")
	ctx := &MethodContext{Conf: conf}
	isUpdate, call := nondetBool("isUpdate"), nondetBool("call")

	got := shouldCheckAgainstZero(ctx, s, t, isUpdate, call)

	inUpdate := verifOr(conf.UpdateTarget, isUpdate)
	verifAssert("no-guard-outside-update-context", verifImplies(verifNot(inUpdate), verifNot(got)))
	switch ctor {
	case VerifCtorBasic:
		verifReach("basic")
		verifAssert("basic-guard-iff-basic-category", got == verifAnd(inUpdate, conf.IgnoreBasicZeroValueField))
	case VerifCtorStruct:
		verifReach("struct")
		verifAssert("struct-guard-iff-struct-category", got == verifAnd(inUpdate, conf.IgnoreStructZeroValueField))
	case VerifCtorChan, VerifCtorMap, VerifCtorSignature, VerifCtorInterface, VerifCtorError:
		verifReach("nillable")
		verifAssert("nillable-guard-iff-nillable-category", got == verifAnd(inUpdate, conf.IgnoreNillableZeroValueField))
	case VerifCtorSlice, VerifCtorPointer:
		verifReach("slice-or-pointer")
		// never for a category that is not selected; required when the copy rule's own nil test is bypassed
		verifAssert("slice/pointer-guard-only-with-nillable", verifImplies(got, verifAnd(inUpdate, conf.IgnoreNillableZeroValueField)))
		direct := verifOr(call, verifAnd(conf.SkipCopySameType, same))
		verifAssert("slice/pointer-guard-when-assigned-directly", verifImplies(verifAnd(verifAnd(inUpdate, conf.IgnoreNillableZeroValueField), direct), got))
	default:
		verifReach("no-category")
		verifAssert("no-guard-for-array-or-typeparam", verifNot(got))
	}
}
