//go:build verif

package builder

// Harness for C11 (kernel K14.defaultctor): where the default constructor of a method is applied. With
// goverter:default the builders that produce the method's own value (struct, pointer, source-pointer and
// target-pointer steps) start from exactly one call of FUNC; a conversion nested inside the method - a pair other
// than the method's own - never sees the constructor, whatever builder handles it and whether or not the
// method's own step consumed it.

import (
	"go/types"

	"github.com/dave/jennifer/jen"
	"github.com/jmattheis/goverter/config"
	"github.com/jmattheis/goverter/method"
	"github.com/jmattheis/goverter/namer"
	"github.com/jmattheis/goverter/xtype"
)

func VerifHarness_C11_DefaultCtor() {
	pkg := verifUserPkg
	sS := verifNamed("S", pkg, types.NewStruct([]*types.Var{types.NewField(0, pkg, "N", types.Typ[types.Int], false)}, nil))
	tS := verifNamed("T", pkg, types.NewStruct([]*types.Var{types.NewField(0, pkg, "N", types.Typ[types.Int], false)}, nil))
	other := verifNamed("O", pkg, types.NewStruct(nil, nil))
	otherT := verifNamed("OT", pkg, types.NewStruct(nil, nil))
	srcPtr, tgtPtr := nondetChoice("method.source-pointer", 2) == 1, nondetChoice("method.target-pointer", 2) == 1
	var ms, mt types.Type = sS, tS
	if srcPtr {
		ms = types.NewPointer(sS)
	}
	if tgtPtr {
		mt = types.NewPointer(tS)
	}
	fnPtr := tgtPtr && nondetChoice("FUNC-returns-pointer", 2) == 1
	var ft types.Type = tS
	if fnPtr {
		ft = types.NewPointer(tS)
	}
	ctor := &method.Definition{ID: "func New", Name: "New", Parameters: method.Parameters{Target: xtype.TypeOf(ft)}}
	conf := &config.Method{Definition: &method.Definition{Parameters: method.Parameters{Source: xtype.TypeOf(ms), Target: xtype.TypeOf(mt)}},
		Fields: map[string]*config.FieldMapping{}, EnumMapping: &config.EnumMapping{Map: map[string]string{}}, Constructor: ctor}
	conf.UseZeroValueOnPointerInconsistency = true
	conf.DefaultUpdate = nondetBool("default:update")
	ctx := &MethodContext{Namer: namer.New(), Conf: conf, FieldsTarget: xtype.TypeOf(tS).String, OutputPackagePath: pkg.Path(), SeenNamed: map[string]struct{}{}, UseConstructor: true}
	gen := &verifPathGen{}
	sourceID := xtype.VariableID(jen.Id("source"))
	ctorCalls := func() int {
		n := 0
		for _, r := range gen.reqs {
			if r.kind == "call" {
				n++
			}
		}
		return n
	}
	pick := func(s, t types.Type) Builder {
		_, sp := s.(*types.Pointer)
		_, tp := t.(*types.Pointer)
		switch {
		case sp && tp:
			return &Pointer{}
		case sp:
			return &SourcePointer{}
		case tp:
			return &TargetPointer{}
		}
		return &Struct{}
	}
	if nondetChoice("conversion", 2) == 0 {
		// the method's own pair
		verifReach("own-pair")
		s, t := xtype.TypeOf(ms), xtype.TypeOf(mt)
		bd := pick(ms, mt)
		verifAssert("builder-applies", bd.Matches(ctx, s, t))
		_, _, err := bd.Build(gen, ctx, sourceID, s, t, nil)
		verifAssert("own-pair-is-built", err == nil)
		// without default:update a pointer source is handled by the plain pointer steps: the constructor is then
		// consumed by the step that builds the pointee (not part of this kernel)
		direct := !srcPtr || conf.DefaultUpdate
		if direct {
			verifAssert("FUNC-is-called-exactly-once-for-the-method's-own-value", ctorCalls() == 1)
			verifAssert("constructor-is-consumed", !ctx.UseConstructor)
		} else {
			verifAssert("FUNC-is-not-called-twice", ctorCalls() <= 1)
		}
		return
	}
	// a nested pair: another struct pair, in every pointer combination, while the constructor is still pending
	// (the method's own step is a container) or already consumed
	verifReach("nested-pair")
	ctx.UseConstructor = nondetChoice("constructor-still-pending", 2) == 1
	var ns, nt types.Type = other, otherT
	if nondetChoice("nested.source-pointer", 2) == 1 {
		ns = types.NewPointer(other)
	}
	if nondetChoice("nested.target-pointer", 2) == 1 {
		nt = types.NewPointer(otherT)
	}
	s, t := xtype.TypeOf(ns), xtype.TypeOf(nt)
	bd := pick(ns, nt)
	verifAssert("builder-applies", bd.Matches(ctx, s, t))
	pending := ctx.UseConstructor
	_, _, err := bd.Build(gen, ctx, sourceID, s, t, nil)
	verifAssert("nested-pair-is-built", err == nil)
	verifAssert("FUNC-is-never-called-for-a-nested-pair", ctorCalls() == 0)
	verifAssert("nested-pair-leaves-the-pending-constructor-alone", ctx.UseConstructor == pending)
	for _, r := range gen.reqs {
		// in place means: into the value FUNC returned - a nested pair has no such value (the target variable is a
		// fresh nil pointer / zero value)
		verifAssert("nested-pair-is-not-filled-in-place", r.kind != "assign-in-place")
	}
	// the nested value is built the ordinary way: through the generator, not written through a nil pointer
	verifAssert("nested-conversion-requested-from-the-generator", len(gen.reqs) >= 1 || (ns == types.Type(other) && nt == types.Type(otherT)))
}
