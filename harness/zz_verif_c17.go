//go:build verif

package goverter

// Harness for C17 / C16 (kernel K8, runner part): GenerateConverters writes nothing when any stage of
// generation failed and writes every file exactly once (MkdirAll 0755 + WriteFile 0644) on success;
// build tags and the output constraint are handed to every stage unchanged.

import (
	"errors"
	"os"
	"path/filepath"

	"github.com/jmattheis/goverter/comments"
	"github.com/jmattheis/goverter/config"
	"github.com/jmattheis/goverter/generator"
)

func VerifHarness_C17_GenerateConverters() {
	parseFails := nondetChoice("ParseDocs.fails", 2) == 1
	configFails := nondetChoice("config.Parse.fails", 2) == 1
	genFails := nondetChoice("generator.Generate.fails", 2) == 1
	nfiles := nondetChoice("files", 3)

	if parseFails {
		verifStubReturn("github.com/jmattheis/goverter/comments.ParseDocs", nil, errors.New("parse"))
	} else {
		verifStubReturn("github.com/jmattheis/goverter/comments.ParseDocs", []config.RawConverter{}, nil)
	}
	if configFails {
		verifStubReturn("github.com/jmattheis/goverter/config.Parse", nil, errors.New("config"))
	} else {
		verifStubReturn("github.com/jmattheis/goverter/config.Parse", []*config.Converter{}, nil)
	}
	files := map[string][]byte{}
	var paths []string
	for i := 0; i < nfiles; i++ {
		p := nondetAtom("path")
		for _, o := range paths {
			verifAssume(o != p)
		}
		paths = append(paths, p)
		files[p] = []byte("content")
	}
	if genFails {
		// a failing generation may still hand back partially rendered files
		verifStubReturn("github.com/jmattheis/goverter/generator.Generate", files, errors.New("generate"))
	} else {
		verifStubReturn("github.com/jmattheis/goverter/generator.Generate", files, nil)
	}
	tags, constraint, cwd := nondetAtom("buildTags"), nondetAtom("constraint"), nondetAtom("cwd")
	// either of them may be configured empty, independently of the other
	if nondetBool("buildTags.empty") {
		tags = ""
	}
	if nondetBool("constraint.empty") {
		constraint = ""
	}
	global := config.RawLines{Location: "cli", Lines: []string{nondetAtom("global")}}

	// the package patterns of the command line: one, a wildcard followed by a sibling whose name starts alike,
	// a repeated pattern, a wildcard followed by a directory outside of it
	patterns := [][]string{{"./..."}, {"./conv/...", "./convx"}, {"./a", "./b", "./a"}, {"./...", "../sibling"}, {"./conv/...", "./conv/sub", "./convx/..."}}[nondetChoice("patterns", 5)]
	err := GenerateConverters(&GenerateConfig{PackagePatterns: patterns, WorkingDir: cwd, BuildTags: tags, OutputBuildConstraint: constraint, Global: global})

	failed := parseFails || configFails || genFails
	verifAssert("error-iff-a-stage-failed", (err != nil) == failed)
	mk, wr := verifEffectCount("os.MkdirAll"), verifEffectCount("os.WriteFile")
	verifAssert("no-other-file-system-call", verifEffectCount("os.Remove")+verifEffectCount("os.RemoveAll")+verifEffectCount("os.Rename")+verifEffectCount("os.Create")+verifEffectCount("os.OpenFile")+verifEffectCount("os.Mkdir")+verifEffectCount("os.Chmod")+verifEffectCount("(*os.File).Write")+verifEffectCount("(*os.File).WriteString")+verifEffectCount("os.Truncate") == 0)
	if failed {
		verifReach("failed")
		verifAssert("failing-run-creates-no-directory", mk == 0)
		verifAssert("failing-run-writes-no-file", wr == 0)
		return
	}
	verifReach("succeeded")
	verifAssert("one-mkdir-per-file", mk == nfiles)
	verifAssert("one-write-per-file", wr == nfiles)
	for _, p := range paths {
		nw, nd := 0, 0
		for k := 0; k < wr; k++ {
			if verifEffectArg("os.WriteFile", k, 0).(string) == p {
				nw++
				verifAssert("file-mode-0644", uint32(verifEffectArg("os.WriteFile", k, 2).(os.FileMode)) == 0o644)
				// its directory was created before
				for j := 0; j < mk; j++ {
					if verifEffectArg("os.MkdirAll", j, 0).(string) == filepath.Dir(p) && verifEffectIndex("os.MkdirAll", j) < verifEffectIndex("os.WriteFile", k) {
						nd++
						verifAssert("directory-mode-0755", uint32(verifEffectArg("os.MkdirAll", j, 1).(os.FileMode)) == 0o755)
					}
				}
			}
		}
		verifAssert("every-file-written-exactly-once", nw == 1)
		verifAssert("parent-directory-created-first", nd >= 1)
	}
	// C16: tags / constraint reach every stage unchanged
	pd := verifEffectArg("call:github.com/jmattheis/goverter/comments.ParseDocs", 0, 0).(comments.ParseDocsConfig)
	verifAssert("build-tags-reach-doc-scan", pd.BuildTags == tags && pd.WorkingDir == cwd)
	for _, p := range patterns {
		found := false
		for _, q := range pd.PackagePattern {
			if q == p {
				found = true
			}
		}
		verifAssert("every-package-pattern-reaches-the-doc-scan", found)
	}
	raw := verifEffectArg("call:github.com/jmattheis/goverter/config.Parse", 0, 0).(*config.Raw)
	verifAssert("build-tags-reach-package-loader", raw.BuildTags == tags && raw.WorkDir == cwd)
	verifAssert("global-lines-reach-config", len(raw.Global.Lines) == 1 && raw.Global.Lines[0] == global.Lines[0])
	gc := verifEffectArg("call:github.com/jmattheis/goverter/generator.Generate", 0, 1).(generator.Config)
	verifAssert("constraint-reaches-generator", gc.BuildConstraint == constraint)
}

// VerifHarness_C17_WriteFailure: when any output file cannot be written - its directory cannot be created or the
// write itself fails, whichever file it is - the run reports an error.
func VerifHarness_C17_WriteFailure() {
	nfiles := 2 + nondetChoice("files", 2)
	failAt := nondetChoice("failing-file", nfiles)
	mkdirFails := nondetBool("mkdir-fails")
	verifStubReturn("github.com/jmattheis/goverter/comments.ParseDocs", []config.RawConverter{}, nil)
	verifStubReturn("github.com/jmattheis/goverter/config.Parse", []*config.Converter{}, nil)
	files := map[string][]byte{}
	for i := 0; i < nfiles; i++ {
		files[[]string{"/work/a/generated/generated.go", "/work/b/generated/generated.go", "/work/c/generated/generated.go"}[i]] = []byte("content")
	}
	verifStubReturn("github.com/jmattheis/goverter/generator.Generate", files, nil)
	// the k-th file system operation of its kind fails, every other one succeeds
	for i := 0; i < nfiles; i++ {
		if i == failAt && mkdirFails {
			verifStubReturn("os.MkdirAll", errors.New("mkdir: not a directory"))
		} else {
			verifStubReturn("os.MkdirAll", nil)
		}
		if i == failAt && !mkdirFails {
			verifStubReturn("os.WriteFile", errors.New("write: permission denied"))
		} else {
			verifStubReturn("os.WriteFile", nil)
		}
	}
	err := GenerateConverters(&GenerateConfig{PackagePatterns: []string{"./..."}, WorkingDir: "/work", BuildTags: "goverter", OutputBuildConstraint: "!goverter"})
	verifReach("written")
	verifAssert("a-file-that-cannot-be-written-fails-the-run", err != nil)
}
