//go:build verif

package method

// Harness for C06 / C14 (kernel K12.index): the index of custom functions and declared methods.
// Register refuses a second function of the same signature exactly when the contexts of one are contained in
// the other's (the call would be ambiguous); Get returns a registered function whose contexts are all available
// in the calling method, nothing when the signature is unknown, and an *error* - never "nothing" - when
// functions for the pair exist but none can be supplied with its contexts.

import "github.com/jmattheis/goverter/xtype"

type verifItem struct{ id int }

func verifCtxSet(tag string) (map[string]*xtype.Type, [3]bool) {
	m := map[string]*xtype.Type{}
	var in [3]bool
	for i, k := range []string{"example.org/in.CtxA", "example.org/in.CtxB", "*example.org/in.CtxC"} {
		if nondetChoice(tag+"."+k, 2) == 1 {
			m[k] = nil
			in[i] = true
		}
	}
	return m, in
}

func verifSubset(a, b [3]bool) bool {
	for i := range a {
		if a[i] && !b[i] {
			return false
		}
	}
	return true
}

func VerifHarness_C06_Index() {
	sig := xtype.Signature{Source: "example.org/in.S", Target: "example.org/in.T"}
	other := xtype.Signature{Source: "example.org/in.S", Target: "example.org/in.U"}
	idx := NewIndex[verifItem]()
	c1, s1 := verifCtxSet("first.requires")
	c2, s2 := verifCtxSet("second.requires")
	avail, sa := verifCtxSet("available")
	i1, i2, i3 := &verifItem{1}, &verifItem{2}, &verifItem{3}
	_, err1 := idx.Register(i1, &Definition{ID: "first", Parameters: Parameters{Signature: sig, Context: c1}})
	verifAssert("first-registration-accepted", err1 == nil)
	two := nondetChoice("second-function-of-the-pair", 2) == 1
	registered2 := false
	if two {
		_, err2 := idx.Register(i2, &Definition{ID: "second", Parameters: Parameters{Signature: sig, Context: c2}})
		ambiguous := verifSubset(s1, s2) || verifSubset(s2, s1)
		verifAssert("second-function-refused-exactly-when-ambiguous", (err2 != nil) == ambiguous)
		registered2 = err2 == nil
	}
	_, err3 := idx.Register(i3, &Definition{ID: "third", Parameters: Parameters{Signature: other, Context: map[string]*xtype.Type{}}})
	verifAssert("other-pair-unaffected", err3 == nil)
	verifReach("registered")

	// history: an earlier question about the same pair from a method with other contexts available does not
	// change the answer (the choice is a function of the registered functions and the contexts at hand)
	switch nondetChoice("earlier-question-with-other-contexts", 3) {
	case 1:
		_, _ = idx.Get(sig, map[string]*xtype.Type{})
	case 2:
		_, _ = idx.Get(sig, map[string]*xtype.Type{"example.org/in.CtxA": nil, "example.org/in.CtxB": nil, "*example.org/in.CtxC": nil})
	}
	got, err := idx.Get(sig, avail)
	ok1 := verifSubset(s1, sa)
	ok2 := registered2 && verifSubset(s2, sa)
	switch {
	case ok1:
		verifAssert("first-usable-function-is-returned", err == nil && got == i1)
	case ok2:
		verifAssert("second-function-is-returned-when-only-it-is-usable", err == nil && got == i2)
	default:
		verifReach("contexts-unavailable")
		verifAssert("unavailable-context-is-an-error-not-a-miss", err != nil && got == nil)
	}
	got, err = idx.Get(xtype.Signature{Source: "example.org/in.S", Target: "example.org/in.V"}, avail)
	verifAssert("unknown-pair-is-a-miss", got == nil && err == nil)
	got, err = idx.Get(other, avail)
	verifAssert("function-without-contexts-is-always-usable", got == i3 && err == nil)
	verifAssert("has-reports-the-registered-pairs", idx.Has(sig) && idx.Has(other) && !idx.Has(xtype.Signature{Source: "x", Target: "y"}))
}
