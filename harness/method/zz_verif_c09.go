//go:build verif

package method

// Harness for C09 (kernel K10): context diagnostics do not depend on map iteration order.

import "github.com/jmattheis/goverter/xtype"

func verifKey(tag string, others ...string) string {
	k := nondetString(tag, 1)
	verifAssume(len(k) == 1)
	for _, o := range others {
		verifAssume(k != o)
	}
	return k
}

func VerifHarness_C09_ContextDebug() {
	r1 := verifKey("required1")
	r2 := verifKey("required2", r1)
	a1 := verifKey("available1")
	a2 := verifKey("available2", a1)
	a3 := verifKey("available3", a1, a2)
	required := map[string]*xtype.Type{r1: nil, r2: nil}
	available := map[string]*xtype.Type{a1: nil, a2: nil, a3: nil}
	x, y := AvailableContextDebug(required, available), AvailableContextDebug(required, available)
	verifReach("lines")
	verifAssert("context-lines-same-length", len(x) == len(y))
	for i := 0; i < len(x) && i < len(y); i++ {
		verifAssert("context-lines-same-order", x[i] == y[i])
	}
}
