//go:build verif

package method

// Harness for C09 (kernel K10): context diagnostics do not depend on map iteration order.

import (
	"go/token"
	"go/types"

	"github.com/jmattheis/goverter/xtype"
)

func verifKey(tag string, others ...string) string {
	k := nondetString(tag, 1)
	verifAssume(len(k) == 1)
	for _, o := range others {
		verifAssume(k != o)
	}
	return k
}

func VerifHarness_C09_ContextDebug() {
	r1 := verifKey("required1")
	r2 := verifKey("required2", r1)
	a1 := verifKey("available1")
	a2 := verifKey("available2", a1)
	a3 := verifKey("available3", a1, a2)
	required := map[string]*xtype.Type{r1: nil, r2: nil}
	available := map[string]*xtype.Type{a1: nil, a2: nil, a3: nil}
	x, y := AvailableContextDebug(required, available), AvailableContextDebug(required, available)
	verifReach("lines")
	verifAssert("context-lines-same-length", len(x) == len(y))
	for i := 0; i < len(x) && i < len(y); i++ {
		verifAssert("context-lines-same-order", x[i] == y[i])
	}
}

// VerifHarness_C09_UnknownContexts (kernel K10.unknowncontexts): with several goverter:context lines naming
// parameters that do not exist, the diagnostic names the same one whatever the iteration order of the set of names
// (the same call twice in one path: each range picks its own order) - and it is the smallest of them.
func VerifHarness_C09_UnknownContexts() {
	sig := types.NewSignatureType(nil, nil, nil,
		types.NewTuple(types.NewParam(token.NoPos, verifUserPkg, "source", types.Typ[types.Int]), types.NewParam(token.NoPos, verifUserPkg, "ctxA", types.Typ[types.String])),
		types.NewTuple(types.NewParam(token.NoPos, verifUserPkg, "", types.Typ[types.String])), false)
	obj := types.NewFunc(token.NoPos, verifUserPkg, "Convert", sig)
	names := map[string]bool{"ctxA": true, "zone": true, "bogus": true}
	if nondetBool("third-unknown-name") {
		names["alpha"] = true
	}
	opts := &ParseOpts{ErrorPrefix: "error", Location: "in.go:1", Params: ParamsRequired, OutputPackagePath: verifUserPkg.Path()}
	_, e1 := Parse(obj, opts, LocalOpts{Context: names})
	_, e2 := Parse(obj, opts, LocalOpts{Context: names})
	verifReach("parsed")
	verifAssert("unknown-context-names-are-an-error", e1 != nil && e2 != nil)
	if e1 == nil || e2 == nil {
		return
	}
	verifAssert("same-diagnostic-whatever-the-order", e1.Error() == e2.Error())
}
