//go:build verif

package method

// Harness for C14 (kernel K4): method.Parse classifies every parameter/result by role and rejects
// invalid signatures. Signatures are real go/types objects (built through the public constructors),
// enumerated over 0..N parameters x 0..3 results x roles x options; xtype.TypeOf, xtype.Accessible and
// method.isError run from the current source.

import (
	"go/constant"
	"go/token"
	"go/types"
	"regexp"
)

var VerifC14MaxParams = 3

// parameters considered together with the two wide regexes (.* and one matching the empty name)
var VerifC14WideRegexParams = 2

const (
	verifPPlain = iota
	verifPConverter
	verifPTargetName
	verifPCtxRegex
	verifPCtxLocal
	verifPUnnamed         // a parameter written without a name
	verifPPartOfConverter // an interface type of which the converter interface is an implementation (not the converter itself)
	verifPKinds
)

const (
	verifRStruct = iota
	verifRError
	verifRInt
	verifRNamedErrorLike // type Failure error: same underlying interface, but not the built-in error
	verifRErrorLikeIface // interface{ Error() string }
	verifRKinds
)

var verifConvMethod = types.NewFunc(token.NoPos, verifUserPkg, "Convert", types.NewSignatureType(nil, nil, nil, nil, nil, false))

var verifConvIface = verifNamed("Converter", verifUserPkg, types.NewInterfaceType([]*types.Func{verifConvMethod}, nil).Complete())

// an interface with a subset of the converter's methods: the converter implements it, it is not the converter
var verifPartIface = verifNamed("Renderer", verifUserPkg, types.NewInterfaceType([]*types.Func{types.NewFunc(token.NoPos, verifUserPkg, "Convert", types.NewSignatureType(nil, nil, nil, nil, nil, false))}, nil).Complete())

func verifParamType(i int) types.Type {
	return verifNamed([]string{"P0", "P1", "P2", "P3"}[i], verifUserPkg, types.NewStruct(nil, nil))
}

func VerifHarness_C14_Parse() {
	n := nondetChoice("params", VerifC14MaxParams+1)
	m := nondetChoice("results", 4)
	kinds := make([]int, n)
	var params []*types.Var
	plainNames := []string{"a", "b", "d", "e"}
	usedTarget := false
	for i := 0; i < n; i++ {
		k := nondetChoice("param.kind", verifPKinds)
		if k == verifPTargetName {
			// two parameters cannot share a name
			verifAssume(!usedTarget)
			usedTarget = true
		}
		kinds[i] = k
		name := plainNames[i]
		var t types.Type = verifParamType(i)
		switch k {
		case verifPConverter:
			t = verifConvIface
		case verifPTargetName:
			name = "target"
			t = types.NewPointer(t)
		case verifPCtxRegex:
			name = "ctx" + plainNames[i]
		case verifPCtxLocal:
			name = "local" + plainNames[i]
		case verifPUnnamed:
			name = ""
		case verifPPartOfConverter:
			t = verifPartIface
		}
		params = append(params, types.NewParam(token.NoPos, verifUserPkg, name, t))
	}
	rkinds := make([]int, m)
	var results []*types.Var
	for i := 0; i < m; i++ {
		nk := verifRKinds
		if m == 3 {
			nk = 2 // three results are always invalid: struct/error suffice
		}
		rk := nondetChoice("result.kind", nk)
		rkinds[i] = rk
		var t types.Type
		switch rk {
		case verifRStruct:
			t = verifNamed("R", verifUserPkg, types.NewStruct(nil, nil))
		case verifRError:
			t = types.Universe.Lookup("error").Type()
		case verifRNamedErrorLike:
			t = verifNamed("Failure", verifUserPkg, types.Universe.Lookup("error").Type().Underlying())
		case verifRErrorLikeIface:
			t = types.Universe.Lookup("error").Type().Underlying()
		default:
			t = types.Typ[types.Int]
		}
		results = append(results, types.NewParam(token.NoPos, verifUserPkg, "", t))
	}
	generic := nondetChoice("generic", 2) == 1
	var tparams []*types.TypeParam
	if generic {
		tparams = []*types.TypeParam{types.NewTypeParam(types.NewTypeName(token.NoPos, verifUserPkg, "T", nil), types.NewInterfaceType(nil, nil).Complete())}
	}
	sig := types.NewSignatureType(nil, nil, tparams, types.NewTuple(params...), types.NewTuple(results...), false)
	exported := nondetChoice("exported", 2) == 1
	fname := "convert"
	if exported {
		fname = "Convert"
	}
	obj := types.NewFunc(token.NoPos, verifUserPkg, fname, sig)

	opts := &ParseOpts{ErrorPrefix: "error", Location: "in.go:1"}
	// plain option fields are symbolic: the solver decides over all their values
	opts.Params = ParamType(nondetInt("opts.Params", 0, 2))
	opts.ParamsMultiSource = nondetBool("opts.MultiSource")
	opts.AllowTypeParams = nondetBool("opts.AllowTypeParams")
	opts.Generated = nondetBool("opts.Generated")
	update := nondetChoice("opts.Update", 2) == 1
	if update {
		opts.UpdateParam = "target"
	}
	// no regex, the usual prefix regex, the implicit regex of struct-method sources (everything is a context),
	// and a user regex that also matches the empty name
	regexKind := nondetChoice("opts.ContextMatch", 4)
	verifAssume(regexKind < 2 || n <= VerifC14WideRegexParams)
	switch regexKind {
	case 1:
		opts.ContextMatch = regexp.MustCompile("^ctx")
	case 2:
		opts.ContextMatch = regexp.MustCompile(".*")
	case 3:
		opts.ContextMatch = regexp.MustCompile("^(ctx.*)?$")
	}
	matches := func(kind int) bool {
		switch regexKind {
		case 1:
			return kind == verifPCtxRegex
		case 2:
			return true
		case 3:
			return kind == verifPCtxRegex || kind == verifPUnnamed
		}
		return false
	}
	hasConv := nondetChoice("opts.Converter", 2) == 1
	if hasConv {
		opts.Converter = verifConvIface
	}
	opts.OutputPackagePath = nondetAtom("opts.OutputPackagePath")
	samePkg := opts.OutputPackagePath == verifUserPkg.Path()
	local := LocalOpts{Context: map[string]bool{}}
	for i := 0; i < n; i++ {
		if kinds[i] == verifPCtxLocal {
			local.Context[params[i].Name()] = true
		}
	}

	def, err := Parse(obj, opts, local)

	// ---- reference (docs/reference/signature.md)
	roles := make([]ArgUse, n)
	sources, hasTarget := 0, false
	firstSource := -1
	for i := 0; i < n; i++ {
		switch {
		case kinds[i] == verifPConverter && hasConv:
			roles[i] = ArgUseInterface
		case kinds[i] == verifPTargetName && update:
			roles[i] = ArgUseTarget
			hasTarget = true
		case matches(kinds[i]) || kinds[i] == verifPCtxLocal:
			roles[i] = ArgUseContext
		default:
			if sources == 0 {
				roles[i] = ArgUseSource
				firstSource = i
			} else {
				roles[i] = ArgUseMultiSource
			}
			sources++
		}
	}
	valid := exported || samePkg
	returnsError := false
	if update {
		valid = valid && hasTarget && (m == 0 || (m == 1 && rkinds[0] == verifRError))
		returnsError = m == 1
	} else {
		valid = valid && (m == 1 || (m == 2 && rkinds[1] == verifRError))
		returnsError = m == 2
	}
	if generic && !opts.AllowTypeParams {
		valid = false
	}
	switch opts.Params {
	case ParamsNone:
		valid = valid && sources == 0
	case ParamsRequired:
		valid = valid && sources >= 1
	}
	if sources > 1 && !opts.ParamsMultiSource {
		valid = false
	}

	verifAssert("accepted-iff-documented-conditions-hold", (err == nil) == valid)
	if err != nil {
		verifReach("rejected")
		return
	}
	verifReach("accepted")
	verifAssert("one-arg-record-per-parameter-in-declared-order", len(def.RawArgs) == n)
	for i := 0; i < n && i < len(def.RawArgs); i++ {
		verifAssert("parameter-role", def.RawArgs[i].Use == roles[i])
		verifAssert("parameter-name-kept", def.RawArgs[i].Name == params[i].Name())
		verifAssert("parameter-type-kept", types.Identical(def.RawArgs[i].Type.T, params[i].Type()))
	}
	if firstSource >= 0 {
		verifAssert("source-is-first-non-context-parameter", def.Source != nil && types.Identical(def.Source.T, params[firstSource].Type()))
	} else {
		verifAssert("no-source", def.Source == nil)
	}
	verifAssert("update-flag", def.UpdateTarget == update)
	verifAssert("return-error-flag", def.ReturnError == returnsError)
	if update {
		for i := 0; i < n; i++ {
			if roles[i] == ArgUseTarget {
				verifAssert("target-is-update-argument", types.Identical(def.Target.T, params[i].Type()))
			}
		}
	} else {
		verifAssert("target-is-first-result", types.Identical(def.Target.T, results[0].Type()))
	}
	nctx := 0
	for i := 0; i < n; i++ {
		if roles[i] == ArgUseContext {
			// contexts are registered by type: two context parameters of one type share the entry
			first := true
			for j := 0; j < i; j++ {
				if roles[j] == ArgUseContext && types.Identical(params[j].Type(), params[i].Type()) {
					first = false
				}
			}
			if first {
				nctx++
			}
			_, ok := def.Context[def.RawArgs[i].Type.String]
			verifAssert("context-registered-by-type", ok)
		}
	}
	verifAssert("context-count", len(def.Context) == nctx)
}

// VerifHarness_C14_NotAFunction: a variable that is not a function is rejected, not mis-generated.
func VerifHarness_C14_NotAFunction() {
	var t types.Type = types.Typ[types.Int]
	sig := types.NewSignatureType(nil, nil, nil, types.NewTuple(types.NewParam(token.NoPos, verifUserPkg, "a", types.Typ[types.Int])), types.NewTuple(types.NewParam(token.NoPos, verifUserPkg, "", types.Typ[types.String])), false)
	var obj types.Object
	switch nondetChoice("kind", 4) {
	case 0:
		obj = types.NewVar(token.NoPos, verifUserPkg, "Convert", t)
	case 1:
		obj = types.NewVar(token.NoPos, verifUserPkg, "Convert", types.NewPointer(types.NewStruct(nil, nil)))
	case 2:
		// a defined func type is a type, not a function
		obj = verifNamed("Hook", verifUserPkg, sig).Obj()
	default:
		obj = types.NewConst(token.NoPos, verifUserPkg, "Convert", types.Typ[types.Int], constant.MakeInt64(1))
	}
	_, err := Parse(obj, &ParseOpts{ErrorPrefix: "error", OutputPackagePath: "example.org/generated"}, EmptyLocalOpts)
	verifReach("done")
	verifAssert("non-function-variable-is-rejected", err != nil)
}

// VerifHarness_C14_FunctionVariable: a package variable holding a function (a goverter:variables entry, a
// function-valued variable named by extend / map / default) follows the rules of declared functions: it is
// accepted exactly when the output package can refer to it by name.
func VerifHarness_C14_FunctionVariable() {
	sig := types.NewSignatureType(nil, nil, nil, types.NewTuple(types.NewParam(token.NoPos, verifUserPkg, "a", types.Typ[types.Int])), types.NewTuple(types.NewParam(token.NoPos, verifUserPkg, "", types.Typ[types.String])), false)
	exported := nondetBool("exported")
	name := "convert"
	if exported {
		name = "Convert"
	}
	var obj types.Object
	asVar := nondetBool("function-valued-variable")
	if asVar {
		obj = types.NewVar(token.NoPos, verifUserPkg, name, sig)
	} else {
		obj = types.NewFunc(token.NoPos, verifUserPkg, name, sig)
	}
	samePkg := nondetBool("output-in-the-declaring-package")
	out := "example.org/generated"
	if samePkg {
		out = verifUserPkg.Path()
	}
	opts := &ParseOpts{ErrorPrefix: "error", OutputPackagePath: out, Params: ParamType(nondetInt("opts.Params", 0, 2)), Generated: nondetBool("opts.Generated")}
	def, err := Parse(obj, opts, EmptyLocalOpts)
	verifReach("done")
	want := (exported || samePkg) && opts.Params != ParamsNone
	verifAssert("accepted-exactly-when-the-output-package-can-name-it", (err == nil) == want)
	if err != nil {
		if !(exported || samePkg) {
			verifAssert("inaccessible-object-reported-as-such", VerifC14Contains(err.Error(), "must be exported"))
		}
		return
	}
	verifAssert("source-and-target-from-the-signature", def.Source != nil && def.Target != nil && def.Source.String == "int" && def.Target.String == "string")
}

func VerifC14Contains(s, sub string) bool {
	for i := 0; i+len(sub) <= len(s); i++ {
		if s[i:i+len(sub)] == sub {
			return true
		}
	}
	return false
}
