//go:build verif

package xtype

// Harnesses for C09 (kernel K10): the hash seed (map iteration order) does not influence results.
// Every `range` over a map picks its own order (a symbolic choice in the engine, Go's per-process
// randomisation natively); each function is run twice on the same input and must agree with itself.

func verifKey(tag string, others ...string) string {
	k := nondetString(tag, 1)
	verifAssume(len(k) == 1)
	for _, o := range others {
		verifAssume(k != o)
	}
	return k
}

func verifSameStrings(id string, a, b []string) {
	verifAssert(id+"-same-length", len(a) == len(b))
	for i := 0; i < len(a) && i < len(b); i++ {
		verifAssert(id+"-same-order", a[i] == b[i])
	}
}

func VerifHarness_C09_SortedMembers() {
	k1 := verifKey("k1")
	k2 := verifKey("k2", k1)
	k3 := verifKey("k3", k1, k2)
	e := Enum{OK: true}
	e.Members = map[string]any{k1: 1, k2: 2, k3: 3}
	a, b := e.SortedMembers(), e.SortedMembers()
	verifReach("sorted")
	verifSameStrings("enum-members", a, b)
	for i := 0; i+1 < len(a); i++ {
		verifAssert("enum-members-ascending", a[i] < a[i+1])
	}
}

func VerifHarness_C09_Unused() {
	k1 := verifKey("k1")
	k2 := verifKey("k2", k1)
	k3 := verifKey("k3", k1, k2)
	m := map[string]int{k1: 1, k2: 2, k3: 3}
	u1, u2 := UsageFromMap(m), UsageFromMap(m)
	used := verifKey("used")
	u1.Used(used)
	u2.Used(used)
	verifReach("unused")
	verifSameStrings("unused-keys", u1.Unused(), u2.Unused())
}
