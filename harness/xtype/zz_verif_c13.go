//go:build verif

package xtype

// Harness for C13 (kernel K9, xtype part): toCode / ZeroValue / TypeOf / Enum lookup are total over the
// types a converter can mention.

import (
	"go/types"

	"github.com/jmattheis/goverter/enum"
)

func verifDepth1(tag string) types.Type {
	ctor := nondetChoice(tag+".ctor", VerifCtorCount)
	t := verifShape(tag, ctor, func(tg string) types.Type { return verifBasic(tg) })
	if ctor != VerifCtorError && ctor != VerifCtorTypeParam && nondetChoice(tag+".named", 2) == 1 {
		t = verifNamed("N", verifUserPkg, t)
	}
	return t
}

// VerifHarness_C13_TypeCode: rendering a type and its zero value never panics.
func VerifHarness_C13_TypeCode() {
	t := verifDepth1("t")
	// type parameters never reach toCode in a generated method (generic functions are only accepted as
	// map|FUNC / default functions, whose instantiated signature is used); excluded here.
	if _, ok := t.(*types.TypeParam); ok {
		return
	}
	rt := TypeOf(t)
	verifReach("typeof")
	_ = rt.TypeAsJen()
	verifReach("tocode")
	_ = ZeroValue(t)
	verifReach("zerovalue")
	_ = rt.ID()
	verifReach("id")
}

// VerifHarness_C13_EnumLookup: asking whether a type is an enum never panics, including for named
// types without a package (the built-in error) and with every enum configuration.
func VerifHarness_C13_EnumLookup() {
	t := verifDepth1("t")
	rt := TypeOf(t)
	cfg := &enum.Config{Enabled: nondetChoice("enum.enabled", 2) == 1}
	e := rt.Enum(cfg)
	verifReach("enum")
	verifAssert("enum-lookup-returns-a-result", e != nil)
	if !rt.Named {
		verifAssert("unnamed-type-is-no-enum", !e.OK)
	}
	// history: the answer for one configuration does not depend on an earlier question about the same type under
	// another configuration (enum detection switched off / the type excluded elsewhere)
	other := &enum.Config{Enabled: !cfg.Enabled}
	e2 := TypeOf(t).Enum(other)
	verifAssert("disabled-detection-finds-no-enum-whatever-was-asked-before", other.Enabled || !e2.OK)
	e3 := TypeOf(t).Enum(&enum.Config{Enabled: cfg.Enabled})
	verifAssert("same-configuration-same-answer", e3.OK == e.OK)
}

// VerifHarness_C13_RecursiveTypes: self-referencing and mutually recursive named types of every constructor
// that may close a cycle (type L []L, type P *P, type M map[string]M, type C chan C, type S struct{ Next *S },
// type A []B with type B map[string]A, ...) are analysed in bounded depth: TypeOf, the rendering of the type,
// its zero value and its identifier terminate.
func VerifHarness_C13_RecursiveTypes() {
	cyc := []int{VerifCtorPointer, VerifCtorSlice, VerifCtorMap, VerifCtorChan, VerifCtorStruct, VerifCtorArray}
	a := types.NewNamed(types.NewTypeName(0, verifUserPkg, "A", nil), nil, nil)
	c1 := cyc[nondetChoice("a.ctor", 5)]
	var t types.Type = a
	if via := nondetChoice("self-reference-in", 4); via > 0 {
		// the cycle closes through a position other than the element: map key, both key and value, func signature
		verifReach("other-position")
		switch via {
		case 1:
			a.SetUnderlying(types.NewMap(types.NewPointer(a), types.Typ[types.Bool]))
		case 2:
			a.SetUnderlying(types.NewMap(types.NewPointer(a), types.NewSlice(a)))
		default:
			a.SetUnderlying(types.NewSignatureType(nil, nil, nil, types.NewTuple(types.NewParam(0, verifUserPkg, "x", a)), types.NewTuple(types.NewParam(0, verifUserPkg, "", types.NewSlice(a))), false))
		}
	} else if nondetChoice("mutual", 2) == 0 {
		inner := func(string) types.Type { return a }
		if c1 == VerifCtorStruct {
			inner = func(string) types.Type { return types.NewPointer(a) }
		}
		a.SetUnderlying(verifShape("a", c1, inner))
	} else {
		b := types.NewNamed(types.NewTypeName(0, verifUserPkg, "B", nil), nil, nil)
		c2 := cyc[nondetChoice("b.ctor", 6)]
		a.SetUnderlying(verifShape("a", c1, func(string) types.Type {
			if c1 == VerifCtorStruct {
				return types.NewSlice(b)
			}
			return b
		}))
		b.SetUnderlying(verifShape("b", c2, func(string) types.Type {
			if c2 == VerifCtorStruct || c2 == VerifCtorArray {
				return types.NewPointer(a)
			}
			return a
		}))
		if nondetChoice("entry", 2) == 1 {
			t = types.NewSlice(b)
		}
	}
	rt := TypeOf(t)
	verifReach("typeof")
	verifAssert("typeof-describes-the-type", rt != nil && rt.T == t)
	_ = rt.TypeAsJen()
	verifReach("tocode")
	_ = ZeroValue(t)
	verifReach("zerovalue")
	_ = rt.ID()
	verifReach("id")
}
