//go:build verif

package xtype

// Harness for C13 (kernel K9, xtype part): toCode / ZeroValue / TypeOf / Enum lookup are total over the
// types a converter can mention.

import (
	"go/types"

	"github.com/jmattheis/goverter/enum"
)

func verifDepth1(tag string) types.Type {
	ctor := nondetChoice(tag+".ctor", VerifCtorCount)
	t := verifShape(tag, ctor, func(tg string) types.Type { return verifBasic(tg) })
	if ctor != VerifCtorError && ctor != VerifCtorTypeParam && nondetChoice(tag+".named", 2) == 1 {
		t = verifNamed("N", verifUserPkg, t)
	}
	return t
}

// VerifHarness_C13_TypeCode: rendering a type and its zero value never panics.
func VerifHarness_C13_TypeCode() {
	t := verifDepth1("t")
	// type parameters never reach toCode in a generated method (generic functions are only accepted as
	// map|FUNC / default functions, whose instantiated signature is used); excluded here.
	if _, ok := t.(*types.TypeParam); ok {
		return
	}
	rt := TypeOf(t)
	verifReach("typeof")
	_ = rt.TypeAsJen()
	verifReach("tocode")
	_ = ZeroValue(t)
	verifReach("zerovalue")
	_ = rt.ID()
	verifReach("id")
}

// VerifHarness_C13_EnumLookup: asking whether a type is an enum never panics, including for named
// types without a package (the built-in error) and with every enum configuration.
func VerifHarness_C13_EnumLookup() {
	t := verifDepth1("t")
	rt := TypeOf(t)
	cfg := &enum.Config{Enabled: nondetChoice("enum.enabled", 2) == 1}
	e := rt.Enum(cfg)
	verifReach("enum")
	verifAssert("enum-lookup-returns-a-result", e != nil)
	if !rt.Named {
		verifAssert("unnamed-type-is-no-enum", !e.OK)
	}
}
