//go:build verif

package xtype

// Harnesses for C03 / C05 (kernel K5): a target field has a source iff FindField finds a unique
// candidate (exact name first, then the unique case-insensitive match); Accessible is
// exported or same package or universe.

import (
	"go/token"
	"go/types"
)

var verifNamePool = []string{"A", "a", "B", "Ab", "AB", "aB"}

func verifFold(a, b string) bool { return VerifModelEqualFold(a, b) }

// fields of the source struct considered together with an earlier lookup (history)
var VerifC03HistoryFields = 1

func VerifHarness_C03_FindField() {
	pkg := verifUserPkg
	intT := types.Typ[types.Int]
	// source struct
	nf := nondetChoice("fields", 4)
	var names []string
	var fields []*types.Var
	for i := 0; i < nf; i++ {
		n := verifNamePool[nondetChoice("field.name", len(verifNamePool))]
		for _, o := range names {
			verifAssume(o != n)
		}
		names = append(names, n)
		fields = append(fields, types.NewField(token.NoPos, pkg, n, intT, false))
	}
	named := verifNamed("Src", pkg, types.NewStruct(fields, nil))
	// optional argument-less method
	if nondetChoice("method", 2) == 1 {
		mn := verifNamePool[nondetChoice("method.name", len(verifNamePool))]
		for _, o := range names {
			verifAssume(o != mn)
		}
		names = append(names, mn)
		sig := types.NewSignatureType(types.NewVar(token.NoPos, pkg, "s", named), nil, nil, nil, types.NewTuple(types.NewParam(token.NoPos, pkg, "", intT)), false)
		named.AddMethod(types.NewFunc(token.NoPos, pkg, mn, sig))
	}
	source := TypeOf(named)
	// optional autoMap source
	var additional []FieldSources
	var addNames []string
	if nondetChoice("automap", 2) == 1 {
		na := 1 + nondetChoice("automap.fields", 2)
		var af []*types.Var
		for i := 0; i < na; i++ {
			n := verifNamePool[nondetChoice("automap.name", len(verifNamePool))]
			for _, o := range addNames {
				verifAssume(o != n)
			}
			addNames = append(addNames, n)
			af = append(af, types.NewField(token.NoPos, pkg, n, intT, false))
		}
		additional = []FieldSources{{Path: []string{"Nested"}, Type: TypeOf(types.NewStruct(af, nil))}}
	}
	target := verifNamePool[nondetChoice("target", len(verifNamePool))]
	ignoreCase := nondetBool("ignoreCase")

	// History: an earlier method of the same run may have looked the same name up on the same source struct with
	// other autoMap paths (one that holds the name, or none at all). The answer for this method is the same as
	// in a fresh process.
	if nondetChoice("earlier-lookup-on-the-same-struct", 2) == 1 {
		verifAssume(nf <= VerifC03HistoryFields)
		var earlier []FieldSources
		if nondetChoice("earlier.automap-holds-the-name", 2) == 1 {
			earlier = []FieldSources{{Path: []string{"Other"}, Type: TypeOf(types.NewStruct([]*types.Var{types.NewField(token.NoPos, pkg, target, intT, false)}, nil))}}
		}
		FindField(target, ignoreCase, source, earlier)
		FindField(target, !ignoreCase, source, earlier)
	}

	got, err := FindField(target, ignoreCase, source, additional)

	// ---- reference (docs/reference/{matchIgnoreCase,autoMap}.md)
	exact, folded := 0, 0
	exactPath, foldedPath := "", ""
	for _, n := range names {
		if n == target {
			exact++
			exactPath = n
		} else if verifFold(n, target) {
			folded++
			foldedPath = n
		}
	}
	for _, n := range addNames {
		if n == target {
			exact++
			exactPath = "Nested." + n
		} else if verifFold(n, target) {
			folded++
			foldedPath = "Nested." + n
		}
	}
	path := ""
	if got != nil {
		path = VerifModelJoin(got.Path, ".")
	}
	switch {
	case exact == 1:
		verifReach("exact")
		verifAssert("exact-match-wins", err == nil && path == exactPath)
	case exact > 1:
		verifReach("exact-ambiguous")
		verifAssert("several-exact-candidates-is-an-error", err != nil)
	case folded == 1:
		verifReach("folded")
		verifAssert("unique-folded-match-only-with-matchIgnoreCase", verifImplies(ignoreCase, err == nil && path == foldedPath))
		verifAssert("no-folded-match-without-matchIgnoreCase", verifImplies(verifNot(ignoreCase), err != nil))
	case folded > 1:
		verifReach("folded-ambiguous")
		verifAssert("several-folded-candidates-is-an-error", err != nil)
	default:
		verifReach("none")
		verifAssert("no-candidate-is-an-error", err != nil)
	}
	if err == nil {
		verifAssert("result-is-a-candidate", got != nil && (path == exactPath || path == foldedPath))
	}
}

func VerifHarness_C03_Accessible() {
	// names beyond ASCII: a letter is upper or lower case as a rune, not by its first byte
	names := []string{"field", "Field", "ärger", "Ärger", "ωmega", "Ωmega", "дата", "Дата", "ạnh", "Ạnh", "ḃit", "Ḃit", "_x", "x9"}
	isExported := []bool{false, true, false, true, false, true, false, true, false, true, false, true, false, false}
	ni := nondetChoice("name", len(names))
	name, exported := names[ni], isExported[ni]
	var pkg *types.Package
	switch nondetChoice("pkg", 3) {
	case 0:
		pkg = verifUserPkg
	case 1:
		pkg = verifOtherPkg
	}
	obj := types.NewVar(token.NoPos, pkg, name, types.Typ[types.Int])
	// the output package: an arbitrary path (atom), or one that is textually close to the declaring package's path -
	// its test package, a package with the same last element, a sub-package, its parent, the path in another case
	out := nondetAtom("outputPackage")
	if pkg != nil {
		pp := pkg.Path()
		last := pp
		for i := len(pp) - 1; i >= 0; i-- {
			if pp[i] == '/' {
				last = pp[i+1:]
				break
			}
		}
		switch nondetChoice("outputPackage.shape", 8) {
		case 1:
			out = pp
		case 2:
			out = pp + "_test"
		case 3:
			out = "example.org/elsewhere/" + last
		case 4:
			out = pp + "/sub"
		case 5:
			out = pp[:len(pp)-len(last)-1]
		case 6:
			out = last
		case 7:
			out = pp + "/"
		}
	}
	got := Accessible(obj, out)
	want := verifOr(exported, pkg == nil)
	if pkg != nil {
		want = verifOr(want, out == pkg.Path())
	}
	verifReach("done")
	verifAssert("accessible-iff-exported-or-same-package-or-universe", got == want)
}
