//go:build verif

package comments

// Harness for C19 (kernel K7, declaration part): for a goverter:variables block and a
// goverter:converter interface, the converter-level lines are exactly the setting lines of the doc
// comment attached to the declaration and the per-variable / per-method lines are exactly those of the
// doc comment attached to that variable / method — for `// goverter:x`, `//goverter:x` and block
// comments alike. parse.SettingLines o parse.CommentToString is the reference for "setting lines of a
// comment" (its own correctness is kernel K7.line/block/group).

import (
	"go/ast"
	"go/token"
	"go/types"

	"github.com/jmattheis/goverter/config/parse"
)

// a doc comment holding one setting line in one of the comment styles, plus an ordinary prose line
func verifDoc(tag, first string) *ast.CommentGroup {
	key := nondetString(tag+".key", 2)
	for i := 0; i < len(key); i++ {
		verifAssume(key[i] != '\n' && key[i] != '\r' && key[i] != '*' && key[i] != '/')
	}
	var list []*ast.Comment
	if first != "" {
		list = append(list, &ast.Comment{Text: first})
	}
	list = append(list, &ast.Comment{Text: "// some prose mentioning nothing"})
	switch nondetChoice(tag+".style", 4) {
	case 0:
		list = append(list, &ast.Comment{Text: "// goverter:" + key})
	case 1:
		list = append(list, &ast.Comment{Text: "//goverter:" + key})
	case 2:
		list = append(list, &ast.Comment{Text: "/* goverter:" + key + " */"})
	default:
		list = append(list, &ast.Comment{Text: "//\tgoverter:" + key + " "})
	}
	return &ast.CommentGroup{List: list}
}

// a trailing (same-line) comment that looks like a setting: it is not a doc comment and must not count
func verifTrailing(tag string) *ast.CommentGroup {
	switch nondetChoice(tag+".trailing", 3) {
	case 1:
		return &ast.CommentGroup{List: []*ast.Comment{{Text: "// goverter:map Trailing Name"}}}
	case 2:
		return &ast.CommentGroup{List: []*ast.Comment{{Text: "/* goverter:ignore Trailing */"}}}
	}
	return nil
}

func verifSame(id string, got, want []string) {
	verifAssert(id+"-count", len(got) == len(want))
	for i := 0; i < len(got) && i < len(want); i++ {
		verifAssert(id+"-text-and-order", got[i] == want[i])
	}
}

func VerifHarness_C19_Variables() {
	fset := token.NewFileSet()
	pkg := types.NewPackage("example.org/in", "in")
	marker := []string{"// goverter:variables", "//goverter:variables", "/* goverter:variables */", "// These are the goverter:variables of the package.", "// goverter:variables, see below"}[nondetChoice("marker.style", 5)]
	declDoc := verifDoc("decl", marker)
	valueDoc := verifDoc("value", "")
	decl := &ast.GenDecl{Tok: token.VAR, Doc: declDoc, Specs: []ast.Spec{
		&ast.ValueSpec{Names: []*ast.Ident{{Name: "Conv"}}, Doc: valueDoc},
		&ast.ValueSpec{Names: []*ast.Ident{{Name: "Other"}}},
	}}
	convs, err := parseGenDecl(fset, pkg, decl)
	verifAssert("variables-block-recognised", err == nil && len(convs) == 1)
	if err != nil || len(convs) != 1 {
		return
	}
	verifReach("variables")
	verifSame("block-lines", convs[0].Converter.Lines, parse.SettingLines(parse.CommentToString(declDoc)))
	verifSame("variable-lines", convs[0].Methods["Conv"].Lines, parse.SettingLines(parse.CommentToString(valueDoc)))
	verifAssert("undocumented-variable-has-no-lines", len(convs[0].Methods["Other"].Lines) == 0)
	verifAssert("variable-lines-contain-the-setting", len(convs[0].Methods["Conv"].Lines) == 1)
}

func VerifHarness_C19_Interface() {
	fset := token.NewFileSet()
	pkg := types.NewPackage("example.org/in", "in")
	// the marker counts wherever the comment contains it: on a line of its own, inside a sentence, before punctuation
	marker := []string{"// goverter:converter", "//goverter:converter", "/* goverter:converter */", "// Converter is the goverter:converter for the API models.", "// See goverter:converter; more prose", "/* block prose goverter:converter. */"}[nondetChoice("marker.style", 6)]
	declDoc := verifDoc("decl", marker)
	methodDoc := verifDoc("method", "")
	iface := &ast.InterfaceType{Methods: &ast.FieldList{List: []*ast.Field{
		{Names: []*ast.Ident{{Name: "Convert"}}, Doc: methodDoc, Type: &ast.FuncType{}},
		{Names: []*ast.Ident{{Name: "Plain"}}, Type: &ast.FuncType{}},
	}}}
	spec := &ast.TypeSpec{Name: &ast.Ident{Name: "Converter"}, Type: iface}
	decl := &ast.GenDecl{Tok: token.TYPE, Specs: []ast.Spec{spec}}
	// the marker is either on the declaration or on the type spec inside a group
	if nondetChoice("marker.on", 2) == 0 {
		decl.Doc = declDoc
	} else {
		spec.Doc = declDoc
	}
	convs, err := parseGenDecl(fset, pkg, decl)
	verifAssert("converter-recognised", err == nil && len(convs) == 1)
	if err != nil || len(convs) != 1 {
		return
	}
	verifReach("interface")
	verifAssert("interface-name", convs[0].InterfaceName == "Converter")
	verifSame("converter-lines", convs[0].Converter.Lines, parse.SettingLines(parse.CommentToString(declDoc)))
	verifSame("method-lines", convs[0].Methods["Convert"].Lines, parse.SettingLines(parse.CommentToString(methodDoc)))
	verifAssert("undocumented-method-has-no-lines", len(convs[0].Methods["Plain"].Lines) == 0)
	verifAssert("method-lines-contain-the-setting", len(convs[0].Methods["Convert"].Lines) == 1)
}

// VerifHarness_C19_NoMarker: without the marker nothing is a converter; a marker on the wrong kind of
// declaration is an error.
func VerifHarness_C19_NoMarker() {
	fset := token.NewFileSet()
	pkg := types.NewPackage("example.org/in", "in")
	doc := verifDoc("decl", "")
	decl := &ast.GenDecl{Tok: token.VAR, Doc: doc, Specs: []ast.Spec{&ast.ValueSpec{Names: []*ast.Ident{{Name: "Conv"}}, Doc: verifDoc("value", "")}}}
	isMarker := VerifModelContains(parse.CommentToString(doc), "goverter:variables") || VerifModelContains(parse.CommentToString(doc), "goverter:converter")
	convs, err := parseGenDecl(fset, pkg, decl)
	if !isMarker {
		verifReach("no-marker")
		verifAssert("settings-without-marker-declare-nothing", err == nil && len(convs) == 0)
	}
	// converter marker on a var block / variables marker on a type
	wrong := &ast.GenDecl{Tok: token.VAR, Doc: &ast.CommentGroup{List: []*ast.Comment{{Text: "// goverter:converter"}}}, Specs: []ast.Spec{&ast.ValueSpec{Names: []*ast.Ident{{Name: "X"}}}}}
	_, err = parseGenDecl(fset, pkg, wrong)
	verifAssert("converter-marker-on-var-is-an-error", err != nil)
	wrong2 := &ast.GenDecl{Tok: token.TYPE, Doc: &ast.CommentGroup{List: []*ast.Comment{{Text: "// goverter:variables"}}}, Specs: []ast.Spec{&ast.TypeSpec{Name: &ast.Ident{Name: "T"}, Type: &ast.InterfaceType{Methods: &ast.FieldList{}}}}}
	_, err = parseGenDecl(fset, pkg, wrong2)
	verifAssert("variables-marker-on-type-is-an-error", err != nil)
	// every marker on every kind of general declaration that cannot carry it, on the declaration itself
	// (grouped or not, also an empty group)
	mk := []string{"// goverter:converter", "// goverter:variables"}[nondetChoice("wrong.marker", 2)]
	tok := []token.Token{token.CONST, token.IMPORT, token.VAR, token.TYPE}[nondetChoice("wrong.kind", 4)]
	verifAssume(!(tok == token.VAR && mk == "// goverter:variables") && !(tok == token.TYPE && mk == "// goverter:converter"))
	var specs []ast.Spec
	switch tok {
	case token.IMPORT:
		specs = []ast.Spec{&ast.ImportSpec{Path: &ast.BasicLit{Kind: token.STRING, Value: "\"fmt\""}}}
	case token.TYPE:
		specs = []ast.Spec{&ast.TypeSpec{Name: &ast.Ident{Name: "T"}, Type: &ast.InterfaceType{Methods: &ast.FieldList{}}}}
	default:
		specs = []ast.Spec{&ast.ValueSpec{Names: []*ast.Ident{{Name: "X"}}}}
	}
	n := nondetChoice("wrong.specs", 3)
	for len(specs) < n {
		specs = append(specs, specs[0])
	}
	if n == 0 {
		specs = nil
	}
	wrong3 := &ast.GenDecl{Tok: tok, Doc: &ast.CommentGroup{List: []*ast.Comment{{Text: "// Some words."}, {Text: mk}}}, Specs: specs}
	if n != 1 {
		wrong3.Lparen = 1
	}
	_, err = parseGenDecl(fset, pkg, wrong3)
	verifAssert("marker-on-a-declaration-that-cannot-carry-it-is-an-error", err != nil)
	// a marker on a single declaration *inside* a var / const group, or the variables marker on a type of a type
	// group, is on the wrong kind of declaration as well
	inner := &ast.GenDecl{Tok: []token.Token{token.VAR, token.CONST}[nondetChoice("inner.kind", 2)], Lparen: 1, Specs: []ast.Spec{
		&ast.ValueSpec{Names: []*ast.Ident{{Name: "Plain"}}},
		&ast.ValueSpec{Names: []*ast.Ident{{Name: "Marked"}}, Doc: &ast.CommentGroup{List: []*ast.Comment{{Text: mk}}}}}}
	_, err = parseGenDecl(fset, pkg, inner)
	verifAssert("marker-on-a-declaration-inside-a-value-group-is-an-error", err != nil)
	innerT := &ast.GenDecl{Tok: token.TYPE, Lparen: 1, Specs: []ast.Spec{
		&ast.TypeSpec{Name: &ast.Ident{Name: "T"}, Type: &ast.InterfaceType{Methods: &ast.FieldList{}}, Doc: &ast.CommentGroup{List: []*ast.Comment{{Text: "// goverter:variables"}}}}}}
	_, err = parseGenDecl(fset, pkg, innerT)
	verifAssert("variables-marker-on-a-type-of-a-group-is-an-error", err != nil)
	// a variables block declares one variable per line: `A, B func(...)` is reported, not half-generated
	multi := &ast.GenDecl{Tok: token.VAR, Lparen: 1, Doc: &ast.CommentGroup{List: []*ast.Comment{{Text: "// goverter:variables"}}}, Specs: []ast.Spec{
		&ast.ValueSpec{Names: []*ast.Ident{{Name: "One"}}}, &ast.ValueSpec{Names: []*ast.Ident{{Name: "A"}, {Name: "B"}}}}}
	_, err = parseGenDecl(fset, pkg, multi)
	verifAssert("several-names-in-one-variable-line-is-an-error", err != nil)
	// the converter marker on a type group that declares nothing, or several types
	for _, k := range []int{0, 2} {
		var ts []ast.Spec
		for i := 0; i < k; i++ {
			ts = append(ts, &ast.TypeSpec{Name: &ast.Ident{Name: "T"}, Type: &ast.InterfaceType{Methods: &ast.FieldList{}}})
		}
		_, err = parseGenDecl(fset, pkg, &ast.GenDecl{Tok: token.TYPE, Lparen: 1, Doc: &ast.CommentGroup{List: []*ast.Comment{{Text: "// goverter:converter"}}}, Specs: ts})
		verifAssert("converter-marker-on-a-group-without-exactly-one-type-is-an-error", err != nil)
	}
}

// VerifHarness_C19_Trailing: trailing (same-line) comments of methods, variables and type specs never
// contribute setting lines, whether or not the declaration also has a doc comment.
func VerifHarness_C19_Trailing() {
	fset := token.NewFileSet()
	pkg := types.NewPackage("example.org/in", "in")
	doc := func(text string) *ast.CommentGroup {
		return &ast.CommentGroup{List: []*ast.Comment{{Text: text}}}
	}
	if nondetChoice("kind", 2) == 0 {
		var mdoc *ast.CommentGroup
		documented := nondetChoice("method.documented", 2) == 1
		if documented {
			mdoc = doc("// goverter:ignore Doc")
		}
		iface := &ast.InterfaceType{Methods: &ast.FieldList{List: []*ast.Field{
			{Names: []*ast.Ident{{Name: "Convert"}}, Doc: mdoc, Type: &ast.FuncType{}, Comment: verifTrailing("method")},
		}}}
		spec := &ast.TypeSpec{Name: &ast.Ident{Name: "Converter"}, Type: iface, Comment: verifTrailing("spec")}
		decl := &ast.GenDecl{Tok: token.TYPE, Specs: []ast.Spec{spec}, Doc: doc("// goverter:converter")}
		convs, err := parseGenDecl(fset, pkg, decl)
		verifAssert("converter-recognised", err == nil && len(convs) == 1)
		if err != nil || len(convs) != 1 {
			return
		}
		verifReach("interface")
		verifAssert("trailing-comment-of-type-spec-ignored", len(convs[0].Converter.Lines) == 1 && convs[0].Converter.Lines[0] == "converter")
		if documented {
			verifAssert("trailing-comment-of-documented-method-ignored", len(convs[0].Methods["Convert"].Lines) == 1 && convs[0].Methods["Convert"].Lines[0] == "ignore Doc")
		} else {
			verifAssert("trailing-comment-of-undocumented-method-ignored", len(convs[0].Methods["Convert"].Lines) == 0)
		}
		return
	}
	var vdoc *ast.CommentGroup
	documented := nondetChoice("variable.documented", 2) == 1
	if documented {
		vdoc = doc("// goverter:ignore Doc")
	}
	decl := &ast.GenDecl{Tok: token.VAR, Doc: doc("// goverter:variables"), Specs: []ast.Spec{
		&ast.ValueSpec{Names: []*ast.Ident{{Name: "Conv"}}, Doc: vdoc, Comment: verifTrailing("variable")},
	}}
	convs, err := parseGenDecl(fset, pkg, decl)
	verifAssert("variables-block-recognised", err == nil && len(convs) == 1)
	if err != nil || len(convs) != 1 {
		return
	}
	verifReach("variables")
	verifAssert("block-lines-unaffected", len(convs[0].Converter.Lines) == 1 && convs[0].Converter.Lines[0] == "variables")
	if documented {
		verifAssert("trailing-comment-of-documented-variable-ignored", len(convs[0].Methods["Conv"].Lines) == 1 && convs[0].Methods["Conv"].Lines[0] == "ignore Doc")
	} else {
		verifAssert("trailing-comment-of-undocumented-variable-ignored", len(convs[0].Methods["Conv"].Lines) == 0)
	}
}

// VerifHarness_C19_Group: in a grouped `type ( ... )` declaration every spec is looked at on its own: a marked
// interface is a converter wherever it stands in the group, unmarked specs (structs, plain interfaces, aliases)
// around it do not matter, and a marker on a non-interface spec is an error.
func VerifHarness_C19_Group() {
	fset := token.NewFileSet()
	pkg := types.NewPackage("example.org/in", "in")
	n := 2 + nondetChoice("specs", 3)
	var specs []ast.Spec
	marked := 0
	markedStruct := false
	var wantNames []string
	for i := 0; i < n; i++ {
		name := []string{"A", "B", "C", "D"}[i]
		switch nondetChoice("spec.kind", 5) {
		case 0: // plain struct
			specs = append(specs, &ast.TypeSpec{Name: &ast.Ident{Name: name}, Type: &ast.StructType{Fields: &ast.FieldList{}}})
		case 1: // unmarked interface with an ordinary doc comment
			specs = append(specs, &ast.TypeSpec{Name: &ast.Ident{Name: name}, Type: &ast.InterfaceType{Methods: &ast.FieldList{}},
				Doc: &ast.CommentGroup{List: []*ast.Comment{{Text: "// " + name + " is an ordinary interface."}}}})
		case 2: // marked interface
			specs = append(specs, &ast.TypeSpec{Name: &ast.Ident{Name: name}, Doc: &ast.CommentGroup{List: []*ast.Comment{{Text: "// goverter:converter"}, {Text: "// goverter:name " + name + "Conv"}}},
				Type: &ast.InterfaceType{Methods: &ast.FieldList{List: []*ast.Field{{Names: []*ast.Ident{{Name: "Convert"}}, Type: &ast.FuncType{}, Doc: &ast.CommentGroup{List: []*ast.Comment{{Text: "// goverter:ignore X"}}}}}}}})
			marked++
			wantNames = append(wantNames, name)
		case 3: // marked struct: not allowed
			specs = append(specs, &ast.TypeSpec{Name: &ast.Ident{Name: name}, Doc: &ast.CommentGroup{List: []*ast.Comment{{Text: "// goverter:converter"}}}, Type: &ast.StructType{Fields: &ast.FieldList{}}})
			markedStruct = true
		default: // marked interface with an embedded interface / a union element (an entry without a name): a diagnostic
			var elem ast.Expr = &ast.Ident{Name: "Base"}
			if i%2 == 1 {
				elem = &ast.BinaryExpr{X: &ast.UnaryExpr{Op: token.TILDE, X: &ast.Ident{Name: "int"}}, Op: token.OR, Y: &ast.Ident{Name: "string"}}
			}
			specs = append(specs, &ast.TypeSpec{Name: &ast.Ident{Name: name}, Doc: &ast.CommentGroup{List: []*ast.Comment{{Text: "// goverter:converter"}}},
				Type: &ast.InterfaceType{Methods: &ast.FieldList{List: []*ast.Field{{Names: []*ast.Ident{{Name: "Convert"}}, Type: &ast.FuncType{}}, {Type: elem}}}}})
			markedStruct = true
		}
	}
	decl := &ast.GenDecl{Tok: token.TYPE, Lparen: 1, Specs: specs}
	// the group may carry a doc comment of its own (prose, no marker): the specs are still looked at one by one
	switch nondetChoice("group.doc", 3) {
	case 1:
		decl.Doc = &ast.CommentGroup{List: []*ast.Comment{{Text: "// The converters of this package."}}}
	case 2:
		decl.Doc = &ast.CommentGroup{List: []*ast.Comment{{Text: "// Types of this package."}, {Text: "//"}, {Text: "// See the goverter documentation."}}}
	}
	convs, err := parseGenDecl(fset, pkg, decl)
	verifReach("group")
	if markedStruct {
		// reported unless the scan legitimately stopped at an earlier error: any error is fine, silence is not
		verifAssert("marker-on-a-struct-or-an-interface-with-unnamed-entries-is-an-error", err != nil)
		return
	}
	verifAssert("group-accepted", err == nil)
	verifAssert("every-marked-interface-of-the-group-is-a-converter", len(convs) == marked)
	for i := 0; i < len(convs) && i < len(wantNames); i++ {
		verifAssert("converters-in-declaration-order", convs[i].InterfaceName == wantNames[i])
		verifAssert("spec-doc-lines-kept", len(convs[i].Converter.Lines) == 2 && convs[i].Converter.Lines[1] == "name "+wantNames[i]+"Conv")
		verifAssert("method-doc-lines-kept", len(convs[i].Methods["Convert"].Lines) == 1 && convs[i].Methods["Convert"].Lines[0] == "ignore X")
	}
}

// VerifHarness_C19_Repeated: every goverter: line of a doc comment is a setting line, in order - also when the same
// line occurs several times (settings may accumulate or be switched back and forth).
func VerifHarness_C19_Repeated() {
	fset := token.NewFileSet()
	pkg := types.NewPackage("example.org/in", "in")
	texts := []string{"// goverter:ignoreMissing yes", "// goverter:ignoreMissing no", "// goverter:output:raw x", "// some prose"}
	n := 2 + nondetChoice("lines", 4)
	var list []*ast.Comment
	var want []string
	list = append(list, &ast.Comment{Text: "// goverter:converter"})
	want = append(want, "converter")
	for i := 0; i < n; i++ {
		t := texts[nondetChoice("line", 4)]
		list = append(list, &ast.Comment{Text: t})
		if t != "// some prose" {
			want = append(want, t[len("// goverter:"):])
		}
	}
	var mlist []*ast.Comment
	var mwant []string
	for i := 0; i < 3; i++ {
		t := []string{"// goverter:ignore A", "// goverter:map B C", "// goverter:ignore A"}[nondetChoice("method.line", 3)]
		mlist = append(mlist, &ast.Comment{Text: t})
		mwant = append(mwant, t[len("// goverter:"):])
	}
	iface := &ast.InterfaceType{Methods: &ast.FieldList{List: []*ast.Field{{Names: []*ast.Ident{{Name: "Convert"}}, Doc: &ast.CommentGroup{List: mlist}, Type: &ast.FuncType{}}}}}
	decl := &ast.GenDecl{Tok: token.TYPE, Doc: &ast.CommentGroup{List: list}, Specs: []ast.Spec{&ast.TypeSpec{Name: &ast.Ident{Name: "Converter"}, Type: iface}}}
	convs, err := parseGenDecl(fset, pkg, decl)
	verifAssert("converter-recognised", err == nil && len(convs) == 1)
	if err != nil || len(convs) != 1 {
		return
	}
	verifReach("repeated")
	verifSame("converter-lines-all-kept-in-order", convs[0].Converter.Lines, want)
	verifSame("method-lines-all-kept-in-order", convs[0].Methods["Convert"].Lines, mwant)
}
