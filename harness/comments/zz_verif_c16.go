//go:build verif

package comments

// Harness for C16 (kernel K8): the doc scanner loads packages with the complementary build tag.

import "golang.org/x/tools/go/packages"

func VerifHarness_C16_ParseDocsTags() {
	// any tag list of up to 3 bytes (may contain commas)
	tags := nondetString("tags", 3)
	for i := 0; i < len(tags); i++ {
		verifAssume(tags[i] > ' ')
	}
	cwd := nondetAtom("cwd")
	// every form of package pattern
	patterns := [][]string{{"./..."}, {"example.org/m/conv"}, {"/abs/dir/conv"}, {"/abs/dir/..."}, {"./a", "/abs/dir/conv", "example.org/m/b"}}[nondetChoice("patterns", 5)]
	convs, err := ParseDocs(ParseDocsConfig{PackagePattern: patterns, WorkingDir: cwd, BuildTags: tags})
	verifAssert("no-packages-no-converters", err == nil && len(convs) == 0)
	loads := verifEffectCount("golang.org/x/tools/go/packages.Load")
	verifAssert("packages-loaded", loads >= 1)
	// every load - however the patterns are grouped - sees the tags
	for i := 0; i < loads; i++ {
		cfg := verifEffectArg("golang.org/x/tools/go/packages.Load", i, 0).(*packages.Config)
		if tags != "" {
			verifReach("tags")
			verifAssert("tags-passed-as-build-flag", len(cfg.BuildFlags) == 2 && cfg.BuildFlags[0] == "-tags" && cfg.BuildFlags[1] == tags)
		} else {
			verifReach("no-tags")
			verifAssert("no-build-flag-without-tags", len(cfg.BuildFlags) == 0)
		}
	}
	if loads == 1 {
		cfg := verifEffectArg("golang.org/x/tools/go/packages.Load", 0, 0).(*packages.Config)
		verifAssert("working-dir-passed", cfg.Dir == cwd)
	}
}
