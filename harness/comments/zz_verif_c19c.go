//go:build verif

package comments

// Harness for C19 (kernel K7.funcdecls): the function declarations of a file. A marker in the doc comment of a
// function or of a method (any receiver) is on the wrong kind of declaration and is reported; declarations inside
// function bodies are never looked at, whatever their comments say.

import (
	"go/ast"
	"go/token"
	"go/types"

	"golang.org/x/tools/go/packages"
)

func VerifHarness_C19_FuncDecls() {
	marker := []string{"// goverter:converter", "// goverter:variables", "/* goverter:converter */", "//goverter:variables"}[nondetChoice("marker", 4)]
	doc := func(pos token.Pos) *ast.CommentGroup {
		return &ast.CommentGroup{List: []*ast.Comment{{Slash: pos, Text: "// Some words."}, {Slash: pos + 20, Text: marker}}}
	}
	fn := &ast.FuncDecl{Name: &ast.Ident{Name: "Helper", NamePos: 520}, Type: &ast.FuncType{Func: 500, Params: &ast.FieldList{}}, Body: &ast.BlockStmt{Lbrace: 540, Rbrace: 700}}
	recv := nondetChoice("receiver", 3)
	switch recv {
	case 1:
		fn.Recv = &ast.FieldList{List: []*ast.Field{{Type: &ast.Ident{Name: "Plain"}}}}
	case 2:
		fn.Recv = &ast.FieldList{List: []*ast.Field{{Names: []*ast.Ident{{Name: "p"}}, Type: &ast.StarExpr{X: &ast.Ident{Name: "Plain"}}}}}
	}
	where := nondetChoice("marker-on", 4) // 0: nowhere, 1: the function's doc comment, 2: a local type, 3: a local var block
	switch where {
	case 1:
		fn.Doc = doc(450)
	case 2:
		fn.Body.List = []ast.Stmt{&ast.DeclStmt{Decl: &ast.GenDecl{Tok: token.TYPE, TokPos: 600, Doc: doc(560), Specs: []ast.Spec{
			&ast.TypeSpec{Name: &ast.Ident{Name: "scratch", NamePos: 605}, Type: &ast.InterfaceType{Methods: &ast.FieldList{}}}}}}}
	case 3:
		fn.Body.List = []ast.Stmt{&ast.DeclStmt{Decl: &ast.GenDecl{Tok: token.VAR, TokPos: 600, Lparen: 604, Doc: doc(560), Specs: []ast.Spec{
			&ast.ValueSpec{Names: []*ast.Ident{{Name: "local", NamePos: 610}}, Type: &ast.FuncType{Params: &ast.FieldList{}}}}}}}
	}
	f := verifFile0("in", "Conv", 0)
	if nondetBool("function-first") {
		f.Decls = append([]ast.Decl{fn}, f.Decls...)
	} else {
		f.Decls = append(f.Decls, fn)
	}
	fset := token.NewFileSet()
	fset.AddFile("/work/in/in.go", 1, 1000)
	p := &packages.Package{ID: "example.org/m/in", PkgPath: "example.org/m/in", Name: "in", Fset: fset, Types: types.NewPackage("example.org/m/in", "in"), Syntax: []*ast.File{f}}
	verifStubReturn("golang.org/x/tools/go/packages.Load", []*packages.Package{p}, nil)
	convs, err := ParseDocs(ParseDocsConfig{PackagePattern: []string{"./in"}, WorkingDir: "/work", BuildTags: "goverter"})
	verifReach("scanned")
	if where == 1 {
		verifReach("marker-on-function")
		verifAssert("marker-on-a-function-or-method-is-an-error", err != nil)
		return
	}
	verifAssert("scan-succeeds", err == nil)
	verifAssert("only-the-package-level-converter-found", len(convs) == 1 && convs[0].InterfaceName == "Conv")
}
