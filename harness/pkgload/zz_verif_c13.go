//go:build verif

package pkgload

// Harness for C13 (kernel K9): [PACKAGE:]FUNC strings of extend / map|FUNC / default / enum:exclude
// are parsed without panic for every directive text, and an empty package or name is an error.

func VerifHarness_C13_ParseMethodString() {
	s := nondetString("fullMethod", 6)
	pkg, name, err := ParseMethodString("example.org/in", s)
	verifReach("parsed")
	if err == nil {
		verifAssert("accepted-method-has-name", name != "")
		verifAssert("accepted-method-has-package", pkg != "")
	}
	// reference: split at the first colon
	idx := -1
	for i := 0; i < len(s); i++ {
		if s[i] == ':' {
			idx = i
			break
		}
	}
	if idx < 0 {
		verifAssert("no-colon-means-local-package", verifImplies(err == nil, pkg == "example.org/in" && name == s))
	} else if err == nil {
		verifAssert("name-is-text-after-first-colon", name == s[idx+1:])
	}
}
