//go:build verif

package pkgload

// Harness for C16 (kernel K8): the package loader used for custom functions and output packages
// passes the same build tag.

import "golang.org/x/tools/go/packages"

func VerifHarness_C16_LoaderTags() {
	// any tag list of up to 3 bytes (may contain commas)
	tags := nondetString("tags", 3)
	for i := 0; i < len(tags); i++ {
		verifAssume(tags[i] > ' ')
	}
	cwd := nondetAtom("cwd")
	_, err := New(cwd, tags, []string{"pattern=example.org/in"})
	verifAssert("load-ok", err == nil)
	verifAssert("one-load", verifEffectCount("golang.org/x/tools/go/packages.Load") == 1)
	cfg := verifEffectArg("golang.org/x/tools/go/packages.Load", 0, 0).(*packages.Config)
	verifAssert("working-dir-passed", cfg.Dir == cwd)
	if tags != "" {
		verifReach("tags")
		verifAssert("tags-passed-as-build-flag", len(cfg.BuildFlags) == 2 && cfg.BuildFlags[0] == "-tags" && cfg.BuildFlags[1] == tags)
	} else {
		verifReach("no-tags")
		verifAssert("no-build-flag-without-tags", len(cfg.BuildFlags) == 0)
	}
}

// VerifHarness_C16_LoaderTagsMany: however many packages a run names (1, 2, 33, 70 patterns) and in however many
// calls the loader asks for them, every call carries the build tag and the working directory, and every pattern
// is asked for.
func VerifHarness_C16_LoaderTagsMany() {
	counts := []int{1, 2, 33, 70}
	n := counts[nondetChoice("patterns", len(counts))]
	tagged := nondetBool("tags-set")
	tags := ""
	if tagged {
		tags = "goverter,gen"
	}
	paths := make([]string, n)
	for i := range paths {
		paths[i] = "pattern=example.org/p" + string(rune('a'+i/26)) + string(rune('a'+i%26))
	}
	_, err := New("/work", tags, paths)
	verifAssert("load-ok", err == nil)
	calls := verifEffectCount("golang.org/x/tools/go/packages.Load")
	verifAssert("loaded", calls >= 1)
	seen := 0
	for c := 0; c < calls; c++ {
		cfg := verifEffectArg("golang.org/x/tools/go/packages.Load", c, 0).(*packages.Config)
		verifAssert("working-dir-passed-on-every-call", cfg.Dir == "/work")
		if tagged {
			verifAssert("tags-passed-on-every-call", len(cfg.BuildFlags) == 2 && cfg.BuildFlags[0] == "-tags" && cfg.BuildFlags[1] == tags)
		} else {
			verifAssert("no-build-flag-without-tags", len(cfg.BuildFlags) == 0)
		}
		asked, _ := verifEffectArg("golang.org/x/tools/go/packages.Load", c, 1).([]string)
		seen += len(asked)
	}
	verifAssert("every-pattern-asked-for", seen >= n)
}
