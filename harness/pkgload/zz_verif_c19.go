//go:build verif

package pkgload

// Harness for C19 (kernel K7, custom-function part): the `goverter:context` lines used for a custom function
// are exactly those of the doc comment attached to *that* function declaration - in its own package (two
// packages may share a package name), whatever was asked about before, and nothing for undocumented ones.

import (
	"go/ast"

	"github.com/jmattheis/goverter/method"
	"golang.org/x/tools/go/packages"
)

// verifMethodDecl: a method with a receiver (never a custom function) carrying doc lines
func verifMethodDecl(name string, doc ...string) *ast.FuncDecl {
	fd := verifFuncDecl(name, doc...)
	fd.Recv = &ast.FieldList{List: []*ast.Field{{Type: &ast.Ident{Name: "Helper"}}}}
	return fd
}

// verifGenericFuncDecl: a function with a type parameter (usable by map ... | FUNC and default FUNC)
func verifGenericFuncDecl(name string, doc ...string) *ast.FuncDecl {
	fd := verifFuncDecl(name, doc...)
	fd.Type.TypeParams = &ast.FieldList{List: []*ast.Field{{Names: []*ast.Ident{{Name: "T"}}, Type: &ast.Ident{Name: "any"}}}}
	return fd
}

func verifFuncDecl(name string, doc ...string) *ast.FuncDecl {
	fd := &ast.FuncDecl{Name: &ast.Ident{Name: name}, Type: &ast.FuncType{}}
	if len(doc) > 0 {
		cg := &ast.CommentGroup{}
		for _, d := range doc {
			cg.List = append(cg.List, &ast.Comment{Text: d})
		}
		fd.Doc = cg
	}
	return fd
}

func VerifHarness_C19_LocalConfig() {
	// two packages with the same package name; a function name that exists in both
	p1 := &packages.Package{Name: "conv", PkgPath: "example.org/a/conv", Syntax: []*ast.File{{Decls: []ast.Decl{
		verifFuncDecl("Shared"),
		verifMethodDecl("Shared", "// goverter:context receiverOnly"),
		verifFuncDecl("OnlyA", "// OnlyA converts.", "// goverter:context first"),
		verifMethodDecl("OnlyA", "// goverter:context other"),
	}}}}
	p2 := &packages.Package{Name: "conv", PkgPath: "example.org/b/conv", Syntax: []*ast.File{{Decls: []ast.Decl{
		verifFuncDecl("Shared", "//goverter:context second", "// goverter:context third"),
		verifFuncDecl("Plain", "// goverter:map A B"),
		// (an unexported function can be a custom function when the output is written into its package)
		verifFuncDecl("makeLabel", "// makeLabel does it.", "// goverter:context fifth"),
		verifFuncDecl("_hidden", "//goverter:context sixth"),
		verifGenericFuncDecl("Generic", "// Generic is generic.", "// goverter:context seventh"),
	}}, {Decls: []ast.Decl{verifFuncDecl("OtherFile", "/* goverter:context fourth */")}}}}
	g := &PackageLoader{locals: map[string]map[string]method.LocalOpts{}}
	// the order of the questions is arbitrary
	order := nondetChoice("order", 4)
	ask := func(i int) {
		switch (i + order) % 4 {
		case 0:
			o := g.localConfig(p1, "Shared")
			verifAssert("undocumented-function-has-no-context", len(o.Context) == 0)
		case 1:
			o := g.localConfig(p2, "Shared")
			verifAssert("contexts-of-the-function-in-its-own-package", len(o.Context) == 2 && o.Context["second"] && o.Context["third"])
		case 2:
			o := g.localConfig(p1, "OnlyA")
			verifAssert("context-after-prose", len(o.Context) == 1 && o.Context["first"])
		default:
			o := g.localConfig(p2, "OtherFile")
			verifAssert("function-in-a-second-file", len(o.Context) == 1 && o.Context["fourth"])
			o2 := g.localConfig(p2, "Plain")
			verifAssert("other-settings-are-no-context", len(o2.Context) == 0)
			o3 := g.localConfig(p2, "OnlyA")
			verifAssert("function-of-the-other-package-unknown-here", len(o3.Context) == 0)
			o4 := g.localConfig(p2, "makeLabel")
			verifAssert("unexported-function-is-read-like-any-other", len(o4.Context) == 1 && o4.Context["fifth"])
			o5 := g.localConfig(p2, "_hidden")
			verifAssert("unexported-function-is-read-like-any-other", len(o5.Context) == 1 && o5.Context["sixth"])
			o6 := g.localConfig(p2, "Generic")
			verifAssert("generic-function-is-read-like-any-other", len(o6.Context) == 1 && o6.Context["seventh"])
		}
	}
	for i := 0; i < 4; i++ {
		ask(i)
	}
	verifReach("asked")
}
