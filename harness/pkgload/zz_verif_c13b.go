//go:build verif

package pkgload

// Harness for C13 / C06 (kernel K9.getmatching): every text an extend line may carry as a pattern ends in an
// error or in the functions whose *whole* name matches - also texts that are valid expressions on their own and
// stop being valid inside the anchoring group (an open \Q quote).

import (
	"go/token"
	"go/types"
	"regexp"

	"github.com/jmattheis/goverter/method"
	"golang.org/x/tools/go/packages"
)

var verifPatterns = []string{
	`Conv.*`, `ConvA`, `Conv(A|AB)`, `Conv.*\Q`, `Conv.*To\QString`, `Conv.*\QA\E`, `(?i)conva.*`, `Conv(`, `Conv[`, `Conv\`,
	`(?P<n>Conv.*)`, `Conv.*|`, `\pL+`, `Conv{2,1}`, `(?U)Conv.*`, `Conv.*)(`, `^Conv.*$`, `A|Conv.*B`, `Conv\z`, `.*\E`,
}

func VerifHarness_C13_GetMatching() {
	names := []string{"ConvA", "ConvAB", "OtherConvA", "ConvToString", "A"}
	tp := types.NewPackage("example.org/in", "in")
	sig := types.NewSignatureType(nil, nil, nil, types.NewTuple(types.NewVar(token.NoPos, tp, "v", types.Typ[types.Int])), types.NewTuple(types.NewVar(token.NoPos, tp, "", types.Typ[types.Int])), false)
	// one of the names may be a package variable holding a function: those are custom functions as well
	asVar := nondetChoice("function-valued-variable", len(names)+1) // len(names): none
	for i, n := range names {
		if i == asVar {
			tp.Scope().Insert(types.NewVar(token.NoPos, tp, n, sig))
			continue
		}
		tp.Scope().Insert(types.NewFunc(token.NoPos, tp, n, sig))
	}
	g := &PackageLoader{
		lookup: map[string]*packages.Package{"example.org/in": {PkgPath: "example.org/in", Name: "in", Types: tp}},
		locals: map[string]map[string]method.LocalOpts{},
	}
	pat := verifPatterns[nondetChoice("pattern", len(verifPatterns))]
	for i := 0; i < len(names); i++ {
		verifStubReturn("github.com/jmattheis/goverter/method.Parse", &method.Definition{Name: "matched"}, nil)
	}
	before := verifEffectCount("call:github.com/jmattheis/goverter/method.Parse")
	defs, err := g.GetMatching("example.org/in", pat, &method.ParseOpts{})
	calls := verifEffectCount("call:github.com/jmattheis/goverter/method.Parse") - before
	verifReach("resolved")

	plain, perr := regexp.Compile(pat)
	if perr != nil {
		verifAssert("invalid-pattern-is-an-error", err != nil)
		return
	}
	if _, complete := plain.LiteralPrefix(); complete {
		verifReach("plain-name")
		return
	}
	full, ferr := regexp.Compile("^(?:" + pat + ")$")
	if ferr != nil {
		verifAssert("pattern-invalid-once-anchored-is-an-error", err != nil)
		return
	}
	want := 0
	for _, n := range names {
		if full.MatchString(n) {
			want++
		}
	}
	verifAssert("functions-whose-whole-name-matches-are-parsed", calls == want)
	verifAssert("no-match-is-an-error", (err != nil) == (want == 0))
	verifAssert("every-match-returned", err != nil || len(defs) == want)
}
