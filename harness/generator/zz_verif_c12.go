//go:build verif

package generator

// Harness for C12 (kernel K16.submethod): the configuration of a generated sub-method. A helper method that
// goverter creates for a nested pair takes every inheritable setting from the *converter* (never from the
// method that happens to need it first - the helper is shared by all methods), carries no field settings, enum
// mappings or default constructor, is registered under exactly the nested pair, remembers the chain of methods
// it was created for and may use the contexts of the method that created it.

import (
	"go/types"

	"github.com/dave/jennifer/jen"
	"github.com/jmattheis/goverter/builder"
	"github.com/jmattheis/goverter/config"
	"github.com/jmattheis/goverter/method"
	"github.com/jmattheis/goverter/namer"
	"github.com/jmattheis/goverter/xtype"
)

func verifCommon(tag string) config.Common {
	c := config.Common{}
	c.WrapErrors = nondetBool(tag + ".wrapErrors")
	c.IgnoreUnexported = nondetBool(tag + ".ignoreUnexported")
	c.IgnoreBasicZeroValueField = nondetBool(tag + ".ignoreZero.basic")
	c.IgnoreStructZeroValueField = nondetBool(tag + ".ignoreZero.struct")
	c.IgnoreNillableZeroValueField = nondetBool(tag + ".ignoreZero.nillable")
	c.MatchIgnoreCase = nondetBool(tag + ".matchIgnoreCase")
	c.IgnoreMissing = nondetBool(tag + ".ignoreMissing")
	c.SkipCopySameType = nondetBool(tag + ".skipCopySameType")
	c.UseZeroValueOnPointerInconsistency = nondetBool(tag + ".useZero")
	c.UseUnderlyingTypeMethods = nondetBool(tag + ".useUnderlying")
	c.DefaultUpdate = nondetBool(tag + ".default:update")
	c.Enum.Enabled = nondetBool(tag + ".enum")
	c.Enum.Unknown = []string{"", "@panic", "@error"}[nondetChoice(tag+".enum:unknown", 3)]
	c.WrapErrorsUsing = []string{"", "example.org/perr"}[nondetChoice(tag+".wrapErrorsUsing", 2)]
	return c
}

func verifSameCommon(a, b config.Common) bool {
	return a.WrapErrors == b.WrapErrors && a.IgnoreUnexported == b.IgnoreUnexported && a.IgnoreBasicZeroValueField == b.IgnoreBasicZeroValueField &&
		a.IgnoreStructZeroValueField == b.IgnoreStructZeroValueField && a.IgnoreNillableZeroValueField == b.IgnoreNillableZeroValueField &&
		a.MatchIgnoreCase == b.MatchIgnoreCase && a.IgnoreMissing == b.IgnoreMissing && a.SkipCopySameType == b.SkipCopySameType &&
		a.UseZeroValueOnPointerInconsistency == b.UseZeroValueOnPointerInconsistency && a.UseUnderlyingTypeMethods == b.UseUnderlyingTypeMethods &&
		a.DefaultUpdate == b.DefaultUpdate && a.Enum.Enabled == b.Enum.Enabled && a.Enum.Unknown == b.Enum.Unknown && a.WrapErrorsUsing == b.WrapErrorsUsing
}

func VerifHarness_C12_SubMethod() {
	pkg := verifUserPkg
	src := xtype.TypeOf(verifNamed("S", pkg, types.NewStruct(nil, nil)))
	tgt := xtype.TypeOf(verifNamed("T", pkg, types.NewStruct(nil, nil)))
	outer := xtype.TypeOf(verifNamed("Outer", pkg, types.NewStruct(nil, nil)))
	convCommon := verifCommon("converter")
	methCommon := verifCommon("method")
	g := &generator{namer: namer.New(), conf: &config.Converter{}, lookup: method.NewIndex[generatedMethod](), extend: method.NewIndex[method.Definition]()}
	g.conf.Common = convCommon
	g.conf.OutputPackagePath = "example.org/generated"
	// the declared method that needs the helper (with its own settings, field settings, enum mapping, constructor)
	callerDef := &method.Definition{ID: "func Convert", OriginID: "func Convert", Name: "Convert", Parameters: method.Parameters{
		Signature: xtype.SignatureOf(outer, outer), Context: map[string]*xtype.Type{}, Source: outer, Target: outer}}
	ctor := &method.Definition{ID: "func New", Name: "New"}
	callerConf := &config.Method{Common: methCommon, Definition: callerDef, Fields: map[string]*config.FieldMapping{"X": {Ignore: true}},
		EnumMapping: &config.EnumMapping{Map: map[string]string{"A": "B"}}, Constructor: ctor, RawFieldSettings: []string{"ignore X"}, AutoMap: []string{"Inner"}}
	caller := &generatedMethod{Method: callerConf, Explicit: true}
	// optionally the caller is itself a helper created for another method
	var rootID method.IndexID
	nested := nondetChoice("caller-is-a-helper", 2) == 1
	if nested {
		rootDef := &method.Definition{ID: "func Root", Name: "Root", Parameters: method.Parameters{Signature: xtype.Signature{Source: "r", Target: "r"}, Context: map[string]*xtype.Type{}}}
		root := &generatedMethod{Method: &config.Method{Definition: rootDef}, Explicit: true}
		rootID, _ = g.lookup.Register(root, rootDef)
		caller.Explicit = false
		caller.OriginPath = []method.IndexID{rootID}
	}
	callerID, err := g.lookup.Register(caller, callerDef)
	verifAssert("caller-registered", err == nil)
	caller.IndexID = callerID
	avail := map[string]*xtype.Type{}
	if nondetChoice("caller-has-context", 2) == 1 {
		avail["example.org/in.Ctx"] = outer
	}
	ctx := &builder.MethodContext{Namer: namer.New(), Conf: callerConf, SeenNamed: map[string]struct{}{}, AvailableContext: avail, IndexID: callerID,
		Signature: callerDef.Signature, Context: map[string]*xtype.JenID{}}
	verifStubReturn("(*github.com/jmattheis/goverter/generator.generator).CallMethod", []jen.Code(nil), xtype.VariableID(jen.Id("r")), (*builder.Error)(nil))

	_, _, berr := g.createSubMethod(ctx, xtype.VariableID(jen.Id("s")), src, tgt, nil)
	verifAssert("helper-created", berr == nil)
	verifReach("created")
	helper, gerr := g.lookup.Get(xtype.SignatureOf(src, tgt), avail)
	verifAssert("helper-registered-under-the-nested-pair", gerr == nil && helper != nil && helper != caller)
	if helper == nil || helper == caller {
		return
	}
	verifAssert("inheritable-settings-come-from-the-converter", verifSameCommon(helper.Common, convCommon))
	verifAssert("no-field-settings", len(helper.Fields) == 0 && len(helper.RawFieldSettings) == 0 && len(helper.AutoMap) == 0)
	verifAssert("no-enum-mapping", helper.EnumMapping != nil && len(helper.EnumMapping.Map) == 0 && len(helper.EnumMapping.Transformers) == 0)
	verifAssert("no-default-constructor", helper.Constructor == nil)
	verifAssert("generated-not-explicit", !helper.Explicit && helper.Definition.Generated)
	verifAssert("converts-exactly-the-nested-pair", helper.Source == src && helper.Target == tgt && len(helper.RawArgs) == 1 && helper.RawArgs[0].Use == method.ArgUseSource)
	verifAssert("origin-is-the-declared-method", helper.OriginID == callerDef.OriginID)
	wantPath := 1
	if nested {
		wantPath = 2
	}
	verifAssert("origin-path-is-the-chain-of-creators", len(helper.OriginPath) == wantPath && helper.OriginPath[0] == callerID && (!nested || helper.OriginPath[1] == rootID))
	verifAssert("may-use-the-creator's-contexts", len(helper.AvailableContext) == len(avail))
	verifAssert("lives-in-the-output-package", helper.Package == "example.org/generated")
	verifAssert("built-once-and-called-once", verifEffectCount("call:(*github.com/jmattheis/goverter/generator.generator).buildMethod") <= 1 && verifEffectCount("call:(*github.com/jmattheis/goverter/generator.generator).CallMethod") == 1)
}
