//go:build verif

package generator

// Harnesses for C09 (kernel K10): order of emitted methods and the diagnostic of validateMethods do
// not depend on map iteration order.

import (
	"github.com/jmattheis/goverter/config"
	"github.com/jmattheis/goverter/method"
	"github.com/jmattheis/goverter/namer"
	"github.com/jmattheis/goverter/xtype"
)

func verifName1(tag string, others ...string) string {
	k := nondetString(tag, 1)
	verifAssume(len(k) == 1)
	for _, o := range others {
		verifAssume(k != o)
	}
	return k
}

func verifGenMethod(name, src, tgt string, fieldSettings bool) *generatedMethod {
	def := &method.Definition{Name: name, ID: "func " + name, Parameters: method.Parameters{
		Signature: xtype.Signature{Source: src, Target: tgt},
		Context:   map[string]*xtype.Type{},
		Source:    xtype.TypeOf(verifInt()),
		Target:    xtype.TypeOf(verifInt()),
	}}
	m := &config.Method{Definition: def, Location: "in.go:" + name}
	if fieldSettings {
		m.RawFieldSettings = []string{"map A B"}
	}
	return &generatedMethod{Method: m, Explicit: true, Dirty: true}
}

func VerifHarness_C09_GenMethods() {
	n1 := verifName1("name1")
	n2 := verifName1("name2", n1)
	n3 := verifName1("name3", n1, n2)
	lookup := method.NewIndex[generatedMethod]()
	for _, gm := range []*generatedMethod{verifGenMethod(n1, "A", "B", false), verifGenMethod(n2, "C", "D", false), verifGenMethod(n3, "E", "F", false)} {
		_, err := lookup.Register(gm, gm.Definition)
		verifAssert("registered", err == nil)
	}
	g := &generator{namer: namer.New(), conf: &config.Converter{}, lookup: lookup, extend: method.NewIndex[method.Definition]()}
	a, b := g.getGenMethods(), g.getGenMethods()
	verifReach("methods")
	verifAssert("emitted-methods-same-count", len(a) == 3 && len(b) == 3)
	for i := 0; i < len(a) && i < len(b); i++ {
		verifAssert("emitted-methods-same-order", a[i] == b[i])
	}
}

func VerifHarness_C09_ValidateMethods() {
	lookup := method.NewIndex[generatedMethod]()
	// declared methods that all carry field settings on a non-struct target; their signature strings are
	// arbitrary (one symbolic byte each for source and target), pairwise different
	s1, t1 := verifName1("source1"), verifName1("target1")
	s2, t2 := verifName1("source2"), verifName1("target2")
	s3, t3 := verifName1("source3"), verifName1("target3")
	verifAssume(s1 != s2 || t1 != t2)
	verifAssume(s1 != s3 || t1 != t3)
	verifAssume(s2 != s3 || t2 != t3)
	for _, gm := range []*generatedMethod{verifGenMethod("ConvertA", s1, t1, true), verifGenMethod("ConvertB", s2, t2, true), verifGenMethod("ConvertC", s3, t3, true)} {
		_, err := lookup.Register(gm, gm.Definition)
		verifAssert("registered", err == nil)
	}
	e1, e2 := validateMethods(lookup), validateMethods(lookup)
	verifReach("validated")
	verifAssert("both-runs-report", e1 != nil && e2 != nil)
	if e1 != nil && e2 != nil {
		verifAssert("same-diagnostic-under-every-iteration-order", e1.Error() == e2.Error())
	}
}
