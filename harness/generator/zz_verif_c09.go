//go:build verif

package generator

// Harnesses for C09 (kernel K10): order of emitted methods and the diagnostic of validateMethods do
// not depend on map iteration order.

import (
	"go/types"

	"github.com/dave/jennifer/jen"
	"github.com/jmattheis/goverter/builder"
	"github.com/jmattheis/goverter/config"
	"github.com/jmattheis/goverter/method"
	"github.com/jmattheis/goverter/namer"
	"github.com/jmattheis/goverter/xtype"
)

func verifName1(tag string, others ...string) string {
	k := nondetString(tag, 1)
	verifAssume(len(k) == 1)
	for _, o := range others {
		verifAssume(k != o)
	}
	return k
}

func verifGenMethod(name, src, tgt string, fieldSettings bool) *generatedMethod {
	def := &method.Definition{Name: name, ID: "func " + name, Parameters: method.Parameters{
		Signature: xtype.Signature{Source: src, Target: tgt},
		Context:   map[string]*xtype.Type{},
		Source:    xtype.TypeOf(verifInt()),
		Target:    xtype.TypeOf(verifInt()),
	}}
	m := &config.Method{Definition: def, Location: "in.go:" + name}
	if fieldSettings {
		m.RawFieldSettings = []string{"map A B"}
	}
	return &generatedMethod{Method: m, Explicit: true, Dirty: true}
}

func VerifHarness_C09_GenMethods() {
	n1 := verifName1("name1")
	n2 := verifName1("name2", n1)
	n3 := verifName1("name3", n1, n2)
	lookup := method.NewIndex[generatedMethod]()
	for _, gm := range []*generatedMethod{verifGenMethod(n1, "A", "B", false), verifGenMethod(n2, "C", "D", false), verifGenMethod(n3, "E", "F", false)} {
		_, err := lookup.Register(gm, gm.Definition)
		verifAssert("registered", err == nil)
	}
	g := &generator{namer: namer.New(), conf: &config.Converter{}, lookup: lookup, extend: method.NewIndex[method.Definition]()}
	a, b := g.getGenMethods(), g.getGenMethods()
	verifReach("methods")
	verifAssert("emitted-methods-same-count", len(a) == 3 && len(b) == 3)
	for i := 0; i < len(a) && i < len(b); i++ {
		verifAssert("emitted-methods-same-order", a[i] == b[i])
	}
}

func VerifHarness_C09_ValidateMethods() {
	lookup := method.NewIndex[generatedMethod]()
	// declared methods that all carry field settings on a non-struct target; their signature strings are
	// arbitrary (one symbolic byte each for source and target), pairwise different
	s1, t1 := verifName1("source1"), verifName1("target1")
	s2, t2 := verifName1("source2"), verifName1("target2")
	s3, t3 := verifName1("source3"), verifName1("target3")
	verifAssume(s1 != s2 || t1 != t2)
	verifAssume(s1 != s3 || t1 != t3)
	verifAssume(s2 != s3 || t2 != t3)
	for _, gm := range []*generatedMethod{verifGenMethod("ConvertA", s1, t1, true), verifGenMethod("ConvertB", s2, t2, true), verifGenMethod("ConvertC", s3, t3, true)} {
		_, err := lookup.Register(gm, gm.Definition)
		verifAssert("registered", err == nil)
	}
	e1, e2 := validateMethods(lookup), validateMethods(lookup)
	verifReach("validated")
	verifAssert("both-runs-report", e1 != nil && e2 != nil)
	if e1 != nil && e2 != nil {
		verifAssert("same-diagnostic-under-every-iteration-order", e1.Error() == e2.Error())
	}
}

// VerifHarness_C09_ContextOrder: a generated helper that calls a function needing several contexts it does not
// have yet gains them as parameters in the order of that function's parameter list - not in the iteration order
// of any map (the emitted signature would differ from run to run).
func VerifHarness_C09_ContextOrder() {
	mkT := func(name string) *xtype.Type {
		return xtype.TypeOf(verifNamed(name, verifUserPkg, types.NewStruct(nil, nil)))
	}
	src, tgt := mkT("S"), mkT("T")
	cs := []*xtype.Type{mkT("CtxA"), mkT("CtxB"), mkT("CtxC"), mkT("CtxD")}
	n := 2 + nondetChoice("contexts", 3)
	need := map[string]*xtype.Type{}
	// the function's parameter list: contexts around the source, in a chosen rotation
	rot := nondetChoice("rotation", n)
	var args []method.Arg
	var want []string
	for i := 0; i < n; i++ {
		c := cs[(i+rot)%n]
		need[c.String] = c
		if i == 1 {
			args = append(args, method.Arg{Name: "source", Use: method.ArgUseSource, Type: src})
		}
		args = append(args, method.Arg{Name: "ctx", Use: method.ArgUseContext, Type: c})
		want = append(want, c.String)
	}
	def := &method.Definition{ID: "func Lookup", Name: "Lookup", Parameters: method.Parameters{Signature: xtype.SignatureOf(src, tgt), Context: need, Source: src, Target: tgt, RawArgs: args}}
	run := func() []string {
		g := &generator{namer: namer.New(), conf: &config.Converter{}, lookup: method.NewIndex[generatedMethod](), extend: method.NewIndex[method.Definition]()}
		helperDef := &method.Definition{ID: "helper", Name: "helper", Generated: true, Parameters: method.Parameters{Signature: xtype.Signature{Source: "h", Target: "h"}, Context: map[string]*xtype.Type{},
			RawArgs: []method.Arg{{Name: "source", Use: method.ArgUseSource, Type: src}}, Source: src, Target: tgt}}
		helper := &generatedMethod{Method: &config.Method{Definition: helperDef}}
		id, err := g.lookup.Register(helper, helperDef)
		verifAssert("helper-registered", err == nil)
		helper.IndexID = id
		avail := map[string]*xtype.Type{}
		for k, v := range need {
			avail[k] = v
		}
		ctx := &builder.MethodContext{Namer: namer.New(), Conf: helper.Method, SeenNamed: map[string]struct{}{}, AvailableContext: avail, IndexID: id,
			Signature: helperDef.Signature, Context: map[string]*xtype.JenID{}}
		_, _, cerr := g.CallMethod(ctx, def, xtype.VariableID(jen.Id("source")), src, tgt, nil)
		verifAssert("call-built", cerr == nil)
		var got []string
		for _, a := range helperDef.RawArgs {
			if a.Use == method.ArgUseContext {
				got = append(got, a.Type.String)
			}
		}
		return got
	}
	a, b := run(), run()
	verifReach("contexts-added")
	verifAssert("every-context-added-once", len(a) == n && len(b) == n)
	for i := 0; i < n && i < len(a) && i < len(b); i++ {
		verifAssert("context-parameters-in-the-order-of-the-called-function", a[i] == want[i])
		verifAssert("context-parameter-order-repeatable", a[i] == b[i])
	}
}

// VerifHarness_C17_Setup: two declared methods for one pair (with contexts of which one set contains the other)
// are ambiguous: setupGenerator reports them wherever they stand among the other methods, update methods are
// never part of a clash.
func VerifHarness_C17_Setup() {
	n := 3 + nondetChoice("methods", 2)
	clashA := nondetChoice("clash.first", n)
	clashB := nondetChoice("clash.second", n)
	clash := clashA < clashB && nondetChoice("clash", 2) == 1
	updateAt := nondetChoice("update-method", n+1) // n: none
	conv := &config.Converter{}
	for i := 0; i < n; i++ {
		name := []string{"A", "B", "C", "D"}[i]
		sig := xtype.Signature{Source: "S" + name, Target: "T" + name}
		if clash && i == clashB {
			sig = xtype.Signature{Source: "S" + []string{"A", "B", "C", "D"}[clashA], Target: "T" + []string{"A", "B", "C", "D"}[clashA]}
		}
		def := &method.Definition{Name: name, ID: "func " + name, Parameters: method.Parameters{Signature: sig, Context: map[string]*xtype.Type{}}}
		if i == updateAt {
			def.UpdateTarget = true
		}
		conv.Methods = append(conv.Methods, &config.Method{Definition: def, Location: "in.go:" + name})
	}
	names := namer.New()
	g, err := setupGenerator(conv, names)
	verifReach("set-up")
	real := clash && clashA != updateAt && clashB != updateAt
	verifAssert("ambiguous-declared-methods-are-reported-at-every-position", (err != nil) == real)
	if err == nil {
		verifAssert("every-declared-method-registered", g != nil && len(g.lookup.GetAll()) == n)
		// the name of every declared method - update methods included - is taken: no generated helper gets it
		for i := 0; i < n; i++ {
			verifAssert("declared-method-name-is-reserved", !names.Register([]string{"A", "B", "C", "D"}[i]))
		}
	}
}

// VerifHarness_C17_ValidateEvery: a declared method that carries field settings (or enum settings) it cannot
// use is reported wherever it stands - also when it shares its signature with other declared methods (methods
// for one pair that differ in their contexts are kept in one bucket of the index).
func VerifHarness_C17_ValidateEvery() {
	n := 2 + nondetChoice("methods", 2)
	shared := nondetBool("methods-share-one-signature")
	faultyAt := nondetChoice("faulty-method", n+1) // n: none
	enumFault := nondetBool("fault-is-an-enum-setting")
	lookup := method.NewIndex[generatedMethod]()
	ctxT := []*xtype.Type{xtype.TypeOf(verifNamed("CtxA", verifUserPkg, types.NewStruct(nil, nil))), xtype.TypeOf(verifNamed("CtxB", verifUserPkg, types.NewStruct(nil, nil))), xtype.TypeOf(verifNamed("CtxC", verifUserPkg, types.NewStruct(nil, nil)))}
	for i := 0; i < n; i++ {
		name := []string{"ConvertA", "ConvertB", "ConvertC"}[i]
		src, tgt := "S"+name, "T"+name
		if shared {
			src, tgt = "S", "T"
		}
		gm := verifGenMethod(name, src, tgt, false)
		gm.Definition.Context = map[string]*xtype.Type{ctxT[i].String: ctxT[i]}
		if i == faultyAt {
			if enumFault {
				gm.EnumMapping = &config.EnumMapping{Map: map[string]string{"A": "B"}}
			} else {
				gm.RawFieldSettings = []string{"ignore A"}
			}
		}
		_, err := lookup.Register(gm, gm.Definition)
		verifAssert("registered", err == nil)
	}
	err := validateMethods(lookup)
	verifReach("validated")
	verifAssert("unusable-settings-are-reported-at-every-position", (err != nil) == (faultyAt < n))
}

// VerifHarness_C09_RenderFiles: rendering the output files of a run - several files in one directory, their
// converters agreeing on the package or not - gives the same files or the same diagnostic whatever the iteration
// order of the map the files are kept in.
func VerifHarness_C09_RenderFiles() {
	m := &fileManager{Files: map[string]*managedFile{}}
	names := []string{"a.go", "b.go", "c.go", "d.go"}
	n := 2 + nondetChoice("files", 3)
	for i := 0; i < n; i++ {
		name := []string{"alpha", "beta"}[nondetChoice("package-name", 2)]
		conv := &config.Converter{Location: "in.go:" + names[i]}
		conv.Name = "Conv" + names[i][:1]
		conv.OutputFile = "/work/out/" + names[i]
		conv.OutputPackagePath = "example.org/out"
		conv.OutputPackageName = name
		m.Files["/work/out/"+names[i]] = &managedFile{PackageID: conv.PackageID(), Initial: conv, Content: jen.NewFilePathName(conv.OutputPackagePath, name)}
	}
	r1, e1 := m.renderFiles()
	r2, e2 := m.renderFiles()
	verifReach("rendered-twice")
	verifAssert("both-runs-agree-on-failure", (e1 == nil) == (e2 == nil))
	if e1 != nil && e2 != nil {
		verifAssert("same-diagnostic-under-every-iteration-order", e1.Error() == e2.Error())
		return
	}
	verifAssert("every-file-rendered", len(r1) == n && len(r2) == n)
}
