//go:build verif

package generator

// Harness for C03 (kernel K1): which rule the dispatcher selects for a (source, target) pair, and that
// "no rule" is reported exactly when the documented table has none. buildNoLookup / assignNoLookup,
// BuildSteps, every builder's Matches, isEnum, findUnderlyingExtendMapping, xtype.TypeOf, xtype.Enum,
// enum.Detect and typeMismatch run from the current source on real go/types types; the builders'
// Build/Assign are stubbed and only identify the selected rule.

import (
	"go/types"

	"github.com/dave/jennifer/jen"

	"github.com/jmattheis/goverter/builder"
	"github.com/jmattheis/goverter/config"
	"github.com/jmattheis/goverter/method"
	"github.com/jmattheis/goverter/namer"
	"github.com/jmattheis/goverter/xtype"
)

const (
	verifKBasicInt = iota
	verifKBasicString
	verifKBasicUintptr
	verifKNamedInt
	verifKNamedString
	verifKEnumInt
	verifKPtrInt
	verifKPtrString
	verifKPtrStruct
	verifKPtrNamedStruct
	verifKPtrPtrInt
	verifKPtrSlice
	verifKPtrMap
	verifKSlice
	verifKNamedSlice
	verifKArray
	verifKMap
	verifKNamedMap
	verifKStruct
	verifKNamedStruct
	verifKInterface
	verifKNamedInterface
	verifKSignature
	verifKChan
	verifKTypeParam
	verifKError
	verifKCount
)

// class of a type for the decision table
type verifClass struct {
	ptr, basic, strct, list, fixed, mp, enum bool
	kind                                     types.BasicKind
	ptrToBasic                               bool
}

func verifK1Type(tag string, side string) (types.Type, verifClass) {
	pkg := verifUserPkg
	k := nondetChoice(tag+".shape", verifKCount)
	intT, strT := types.Typ[types.Int], types.Typ[types.String]
	structT := types.NewStruct([]*types.Var{types.NewField(0, pkg, "F", intT, false)}, nil)
	switch k {
	case verifKBasicInt:
		return intT, verifClass{basic: true, kind: types.Int}
	case verifKBasicString:
		return strT, verifClass{basic: true, kind: types.String}
	case verifKBasicUintptr:
		return types.Typ[types.Uintptr], verifClass{basic: true, kind: types.Uintptr}
	case verifKNamedInt:
		return verifNamed(side+"NInt", pkg, intT), verifClass{basic: true, kind: types.Int}
	case verifKNamedString:
		return verifNamed(side+"NString", pkg, strT), verifClass{basic: true, kind: types.String}
	case verifKEnumInt:
		n := verifNamed(side+"Enum", types.NewPackage("example.org/"+side+"enum", side+"enum"), intT)
		verifEnumConst(n, "Member", 1)
		return n, verifClass{basic: true, kind: types.Int, enum: true}
	case verifKPtrInt:
		return types.NewPointer(intT), verifClass{ptr: true, ptrToBasic: true}
	case verifKPtrString:
		return types.NewPointer(strT), verifClass{ptr: true, ptrToBasic: true}
	case verifKPtrStruct:
		return types.NewPointer(structT), verifClass{ptr: true}
	case verifKPtrNamedStruct:
		return types.NewPointer(verifNamed(side+"S", pkg, structT)), verifClass{ptr: true}
	case verifKPtrPtrInt:
		return types.NewPointer(types.NewPointer(intT)), verifClass{ptr: true}
	case verifKPtrSlice:
		// (a nil pointer to a slice is no nil slice for goverter: *T -> T needs the setting for every T)
		return types.NewPointer(types.NewSlice(intT)), verifClass{ptr: true}
	case verifKPtrMap:
		return types.NewPointer(types.NewMap(strT, intT)), verifClass{ptr: true}
	case verifKSlice:
		return types.NewSlice(intT), verifClass{list: true}
	case verifKNamedSlice:
		return verifNamed(side+"L", pkg, types.NewSlice(intT)), verifClass{list: true}
	case verifKArray:
		return types.NewArray(intT, 2), verifClass{list: true, fixed: true}
	case verifKMap:
		return types.NewMap(strT, intT), verifClass{mp: true}
	case verifKNamedMap:
		return verifNamed(side+"M", pkg, types.NewMap(strT, intT)), verifClass{mp: true}
	case verifKStruct:
		return structT, verifClass{strct: true}
	case verifKNamedStruct:
		return verifNamed(side+"St", pkg, structT), verifClass{strct: true}
	case verifKInterface:
		return types.NewInterfaceType(nil, nil).Complete(), verifClass{}
	case verifKNamedInterface:
		return verifNamed(side+"I", pkg, types.NewInterfaceType(nil, nil).Complete()), verifClass{}
	case verifKSignature:
		return types.NewSignatureType(nil, nil, nil, nil, nil, false), verifClass{}
	case verifKChan:
		return types.NewChan(types.SendRecv, intT), verifClass{}
	case verifKTypeParam:
		return types.NewTypeParam(types.NewTypeName(0, pkg, side+"T", nil), types.NewInterfaceType(nil, nil).Complete()), verifClass{}
	default:
		return types.Universe.Lookup("error").Type(), verifClass{}
	}
}

// verifRecBuilder keeps the real rule's Matches and records instead of building.
type verifRecBuilder struct {
	inner builder.Builder
	name  string
}

var verifRule string

func (r *verifRecBuilder) Matches(ctx *builder.MethodContext, s, t *xtype.Type) bool {
	return r.inner.Matches(ctx, s, t)
}

func (r *verifRecBuilder) Build(gen builder.Generator, ctx *builder.MethodContext, sourceID *xtype.JenID, s, t *xtype.Type, p builder.ErrorPath) ([]jen.Code, *xtype.JenID, *builder.Error) {
	verifRule = r.name + ".Build"
	return nil, nil, nil
}

func (r *verifRecBuilder) Assign(gen builder.Generator, ctx *builder.MethodContext, a *builder.AssignTo, sourceID *xtype.JenID, s, t *xtype.Type, p builder.ErrorPath) ([]jen.Code, *builder.Error) {
	verifRule = r.name + ".Assign"
	return nil, nil
}

func verifRuleName(b builder.Builder) string {
	switch b.(type) {
	case *builder.UseUnderlyingTypeMethods:
		return "UseUnderlyingTypeMethods"
	case *builder.SkipCopy:
		return "SkipCopy"
	case *builder.Enum:
		return "Enum"
	case *builder.BasicTargetPointerRule:
		return "BasicTargetPointerRule"
	case *builder.Pointer:
		return "Pointer"
	case *builder.SourcePointer:
		return "SourcePointer"
	case *builder.TargetPointer:
		return "TargetPointer"
	case *builder.Basic:
		return "Basic"
	case *builder.Struct:
		return "Struct"
	case *builder.List:
		return "List"
	case *builder.Map:
		return "Map"
	}
	return "unknown"
}

func VerifHarness_C03_Dispatch() {
	// the real BuildSteps (order and Matches from the current source), with recording Build/Assign
	saved := BuildSteps
	wrapped := make([]builder.Builder, len(saved))
	for i, b := range saved {
		wrapped[i] = &verifRecBuilder{inner: b, name: verifRuleName(b)}
	}
	BuildSteps = wrapped
	verifRule = ""
	defer func() { BuildSteps = saved }()

	st, sc := verifK1Type("s", "Src")
	var tt types.Type
	var tc verifClass
	identical := nondetChoice("t.identical", 2) == 1
	if identical {
		tt, tc = st, sc
	} else {
		tt, tc = verifK1Type("t", "Tgt")
		identical = types.Identical(st, tt)
	}
	s, t := xtype.TypeOf(st), xtype.TypeOf(tt)

	conf := &config.Method{Definition: &method.Definition{}, Fields: map[string]*config.FieldMapping{}, EnumMapping: &config.EnumMapping{Map: map[string]string{}}}
	conf.SkipCopySameType = nondetBool("skipCopySameType")
	conf.UseZeroValueOnPointerInconsistency = nondetBool("useZeroValueOnPointerInconsistency")
	conf.UseUnderlyingTypeMethods = nondetBool("useUnderlyingTypeMethods")
	conf.Enum.Enabled = nondetBool("enum")
	// answers of the extend lookup for the three named/underlying combinations
	hNamedToT, hUnderToUnder, hSToUnder := nondetBool("extend(underlying(S),T)"), nondetBool("extend(underlying(S),underlying(T))"), nondetBool("extend(S,underlying(T))")
	ctx := &builder.MethodContext{
		Namer:     namer.New(),
		Conf:      conf,
		SeenNamed: map[string]struct{}{},
		Signature: xtype.Signature{Source: "x", Target: "y"},
		HasMethod: func(_ *builder.MethodContext, a, b types.Type) bool {
			sNamed, tNamed := s.Named, t.Named
			switch {
			case sNamed && types.Identical(a, s.NamedType.Underlying()) && types.Identical(b, t.T):
				return hNamedToT
			case sNamed && tNamed && types.Identical(a, s.NamedType.Underlying()) && types.Identical(b, t.NamedType.Underlying()):
				return hUnderToUnder
			default:
				return hSToUnder
			}
		},
	}
	g := &generator{namer: namer.New(), conf: &config.Converter{}, lookup: method.NewIndex[generatedMethod](), extend: method.NewIndex[method.Definition]()}
	sourceID := xtype.VariableID(nil)

	var err *builder.Error
	assign := nondetChoice("assign", 2) == 1
	if assign {
		_, err = g.assignNoLookup(ctx, builder.AssignOf(nil), sourceID, s, t, nil)
	} else {
		_, _, err = g.buildNoLookup(ctx, sourceID, s, t, nil)
	}
	rule := verifRule

	// ---- reference: docs/explanation/generation.md, docs/reference/{skipCopySameType,useZeroValueOnPointerInconsistency,useUnderlyingTypeMethods,enum}.md
	underlying := verifAnd(conf.UseUnderlyingTypeMethods, verifOr(verifOr(
		verifAnd(s.Named, hNamedToT),
		verifAnd(s.Named && t.Named, hUnderToUnder)),
		verifAnd(t.Named, hSToUnder)))
	same := verifAnd(conf.SkipCopySameType, identical)
	enum := verifAnd(conf.Enum.Enabled, sc.enum && tc.enum)
	early := verifOr(verifOr(underlying, same), enum)

	structural := "" // the structural rule that applies when none of the opt-in rules fires
	needsFlag := false
	switch {
	case sc.ptr && tc.ptr:
		structural = "Pointer"
	case sc.ptr && !tc.ptr:
		structural = "SourcePointer"
		needsFlag = true
	case !sc.ptr && tc.ptr:
		structural = "TargetPointer"
	case sc.basic && tc.basic && sc.kind == tc.kind:
		structural = "Basic"
	case sc.strct && tc.strct:
		structural = "Struct"
	case sc.list && tc.list && !tc.fixed:
		structural = "List"
	case sc.mp && tc.mp:
		structural = "Map"
	}
	hasRule := early
	if structural != "" {
		if needsFlag {
			hasRule = verifOr(early, conf.UseZeroValueOnPointerInconsistency)
		} else {
			hasRule = true
		}
	}
	verifAssert("fails-exactly-when-no-rule-exists", (err == nil) == hasRule)
	if err != nil {
		verifReach("no-rule")
		hint := VerifModelContains(err.Cause, "useZeroValueOnPointerInconsistency")
		verifAssert("pointer-hint-iff-pointer-to-value", hint == (sc.ptr && !tc.ptr))
		verifAssert("no-builder-ran", rule == "")
		return
	}
	verifReach("rule")
	verifAssert("a-builder-ran", rule != "")
	if assign {
		verifAssert("assign-path-uses-assign", VerifModelHasSuffix(rule, ".Assign"))
	} else {
		verifAssert("build-path-uses-build", VerifModelHasSuffix(rule, ".Build"))
	}
	is := func(name string) bool { return rule == name+".Build" || rule == name+".Assign" }
	// precedence of the opt-in rules over the structural ones
	verifAssert("underlying-extend-wins", verifImplies(underlying, is("UseUnderlyingTypeMethods")))
	verifAssert("underlying-only-with-flag-and-extend", verifImplies(is("UseUnderlyingTypeMethods"), underlying))
	verifAssert("skipcopy-iff-flag-and-identical", verifImplies(verifNot(underlying), is("SkipCopy") == same))
	verifAssert("enum-iff-both-enums-and-enabled", verifImplies(verifNot(verifOr(underlying, same)), is("Enum") == enum))
	if structural != "" {
		want := is(structural)
		if structural == "TargetPointer" {
			want = want || is("BasicTargetPointerRule")
		}
		verifAssert("structural-rule-by-shape", verifImplies(verifNot(early), want))
	}
}
