//go:build verif

package generator

// Harness for C06 (kernel K12.callexisting): generator.Build / Assign / callExisting. When an extend function or
// a declared method exists for the pair under conversion it is called - the extend function first - whatever
// kind of assignment is being built (plain, or in place on top of a default constructor's value); when it
// exists but the calling method cannot supply its contexts the conversion fails; only when nothing exists do
// the automatic rules get their turn.

import (
	"go/types"

	"github.com/dave/jennifer/jen"
	"github.com/jmattheis/goverter/builder"
	"github.com/jmattheis/goverter/config"
	"github.com/jmattheis/goverter/method"
	"github.com/jmattheis/goverter/namer"
	"github.com/jmattheis/goverter/xtype"
)

func VerifHarness_C06_CallExisting() {
	src := xtype.TypeOf(verifNamed("S", verifUserPkg, types.NewStruct(nil, nil)))
	tgt := xtype.TypeOf(verifNamed("T", verifUserPkg, types.NewStruct(nil, nil)))
	sig := xtype.SignatureOf(src, tgt)
	ctxType := xtype.TypeOf(verifNamed("Ctx", verifUserPkg, types.NewStruct(nil, nil)))
	need := func(tag string) map[string]*xtype.Type {
		if nondetChoice(tag, 2) == 1 {
			return map[string]*xtype.Type{ctxType.String: ctxType}
		}
		return map[string]*xtype.Type{}
	}
	extend := method.NewIndex[method.Definition]()
	lookup := method.NewIndex[generatedMethod]()
	hasExtend := nondetChoice("extend-function-for-the-pair", 2) == 1
	hasMethod := nondetChoice("declared-method-for-the-pair", 2) == 1
	var extDef, genDef *method.Definition
	extNeeds, genNeeds := false, false
	if hasExtend {
		c := need("extend.needs-context")
		extNeeds = len(c) == 1
		extDef = &method.Definition{ID: "func Ext", Name: "Ext", Parameters: method.Parameters{Signature: sig, Context: c, Source: src, Target: tgt}}
		extend.Register(extDef, extDef)
	}
	if hasMethod {
		c := need("method.needs-context")
		genNeeds = len(c) == 1
		genDef = &method.Definition{ID: "func Declared", Name: "Declared", Parameters: method.Parameters{Signature: sig, Context: c, Source: src, Target: tgt}}
		gm := &generatedMethod{Method: &config.Method{Definition: genDef}, Explicit: true}
		lookup.Register(gm, genDef)
	}
	available := map[string]*xtype.Type{}
	hasCtx := nondetChoice("context-available", 2) == 1
	if hasCtx {
		available[ctxType.String] = ctxType
	}
	g := &generator{namer: namer.New(), conf: &config.Converter{}, lookup: lookup, extend: extend}
	conf := &config.Method{Definition: &method.Definition{}, Fields: map[string]*config.FieldMapping{}, EnumMapping: &config.EnumMapping{Map: map[string]string{}}}
	ctx := &builder.MethodContext{Namer: namer.New(), Conf: conf, SeenNamed: map[string]struct{}{}, AvailableContext: available,
		Signature: xtype.Signature{Source: "x", Target: "y"}, Context: map[string]*xtype.JenID{}}
	// the calling method may be a method over pointers to this very pair that carries field settings for it:
	// an extend function for the pair would bypass them
	settings := nondetChoice("calling-method-has-field-settings-for-the-pair", 2) == 1
	if settings {
		conf.RawFieldSettings = []string{"map A B"}
		conf.Definition.Source = xtype.TypeOf(types.NewPointer(src.T))
		ctx.FieldsTarget = tgt.String
	}
	const call = "(*github.com/jmattheis/goverter/generator.generator).CallMethod"
	verifStubReturn(call, []jen.Code(nil), xtype.VariableID(jen.Id("r")), (*builder.Error)(nil))
	verifStubReturn("(*github.com/jmattheis/goverter/generator.generator).buildNoLookup", []jen.Code(nil), xtype.VariableID(jen.Id("b")), (*builder.Error)(nil))
	sourceID := xtype.VariableID(jen.Id("s"))

	var err *builder.Error
	entry := nondetChoice("entry", 4)
	switch entry {
	case 0:
		_, _, err = g.Build(ctx, sourceID, src, tgt, nil)
	case 1:
		_, err = g.Assign(ctx, builder.AssignOf(jen.Id("t")), sourceID, src, tgt, nil)
	case 2: // filling the value a default constructor returned
		_, err = g.Assign(ctx, builder.AssignOf(jen.Id("t")).IsUpdate(), sourceID, src, tgt, nil)
	default:
		_, err = g.Assign(ctx, builder.AssignOf(jen.Id("t")).MustAssign(), sourceID, src, tgt, nil)
	}
	calls := verifEffectCount("call:" + call)
	verifReach("converted")
	switch {
	case hasExtend && (!extNeeds || hasCtx) && settings:
		verifAssert("extend-function-that-would-bypass-field-settings-is-reported", err != nil && calls == 0)
	case hasExtend && (!extNeeds || hasCtx):
		verifAssert("extend-function-is-called", err == nil && calls == 1 && verifEffectArg("call:"+call, 0, 2).(*method.Definition) == extDef)
	case hasExtend:
		verifAssert("extend-function-with-unavailable-context-fails", err != nil && calls == 0)
	case hasMethod && (!genNeeds || hasCtx):
		verifAssert("declared-method-is-called", err == nil && calls == 1 && verifEffectArg("call:"+call, 0, 2).(*method.Definition) == genDef)
	case hasMethod:
		verifAssert("declared-method-with-unavailable-context-fails", err != nil && calls == 0)
	default:
		verifAssert("nothing-is-called-when-nothing-exists", calls == 0)
	}
}
