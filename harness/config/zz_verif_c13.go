//go:build verif

package config

// Harness for C13 (kernel K9): `goverter:map` values never panic the parser and yield at most
// source, target and function.

func VerifHarness_C13_ParseMethodMap() {
	s := nondetString("rest", 6)
	source, target, custom, err := parseMethodMap(s)
	verifReach("parsed")
	if err == nil {
		verifAssert("accepted-map-has-target", target != "")
		verifAssert("target-is-a-field-name-not-a-path", !VerifModelContains(target, "."))
	}
	// a function announced with "|" is kept or the line is rejected - it is never dropped
	hasPipe := VerifModelContains(s, "|")
	if err == nil && hasPipe {
		verifAssert("announced-function-is-kept", custom != "")
	}
	if err == nil && !hasPipe {
		verifAssert("no-function-without-pipe", custom == "")
	}
	_ = source
}

// every inheritable / converter / method setting line of up to 7 bytes after a known key is parsed
// without panic (errors are fine).
var verifAllKeys = []string{
	"map", "ignore", "update", "context", "enum:map", "enum:transform", "autoMap",
	"name", "output:raw", "output:file", "output:format", "output:package", "struct:comment",
	"wrapErrors", "wrapErrorsUsing", "enum:unknown", "enum", "arg:context:regex", "update:ignoreZeroValueField",
}

func VerifHarness_C13_SettingLines() {
	k := verifAllKeys[nondetChoice("key", len(verifAllKeys))]
	rest := nondetString("rest", 4)
	line := k
	if nondetChoice("hasValue", 2) == 1 {
		line = k + " " + rest
	}
	ctx := &context{WorkDir: "/work"}
	c := &Converter{ConverterConfig: DefaultConfigInterface, Location: "conv.go:1", FileName: "/work/in.go", Package: "example.org/in"}
	if nondetChoice("level", 2) == 0 {
		_ = parseConverterLines(ctx, c, "conv", RawLines{Location: "conv.go:1", Lines: []string{line}})
		verifReach("converter-line")
	} else {
		_, _ = parseMethod(ctx, c, verifObj(), RawLines{Location: "conv.go:3", Lines: []string{line}})
		verifReach("method-line")
	}
}
